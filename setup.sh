#!/bin/sh
# Builds the framework from files on disk only (offline): Lean project (all theorems + tmv) and Go harness.
set -e
cd "$(dirname "$0")"
export GOFLAGS=-mod=mod GOPROXY=off
unset GOSUMDB GOTOOLCHAIN || true
mkdir -p .build evidence replays
if [ -d tools/factgen ]; then
  (cd tools/factgen && go run . -repo "${VERIF_REPO:-/repo}" -out ../../lean/TmVerif/Facts/Generated.lean)
fi
python3 tools/gendrivers.py
MODS=$(python3 -c "
import json
c=json.load(open('tools/claims.json'))
import os
for k,v in sorted(c.items()):
    if k.startswith('_') or v.get('not_applicable'): continue
    for f in sorted(os.listdir('lean/TmVerif/Props')):
        if f.startswith(k) and f.endswith('.lean'): print('TmVerif.Props.'+f[:-5])
")
(cd lean && lake build tmv $MODS)
(cd harness && cp -f "${VERIF_REPO:-/repo}/go.sum" go.sum 2>/dev/null || true; go build -tags verif -o ../.build/tmh ./cmd/tmh)
echo setup-ok
