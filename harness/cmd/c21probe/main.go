package main

import (
	"context"
	"fmt"
	"os"

	"github.com/inspirer/textmapper/compiler"
)

func main() {
	b, _ := os.ReadFile(os.Args[1])
	g, err := compiler.Compile(context.Background(), "x.tm", string(b), compiler.Params{})
	if err != nil {
		fmt.Println("ERR:", err)
		return
	}
	p := g.Parser
	nul := make([]bool, len(g.Syms))
	for ch := true; ch; {
		ch = false
		for _, r := range p.Rules {
			if nul[r.LHS] { continue }
			all := true
			for _, s := range r.RHS {
				if s.IsStateMarker() { continue }
				if !nul[s] { all = false }
			}
			if all { nul[r.LHS] = true; ch = true }
		}
	}
	for i, r := range p.Rules {
		var rhs []int
		for _, s := range r.RHS { if !s.IsStateMarker() { rhs = append(rhs, int(s)) } }
		allNull := func(s, e int) bool { for _, x := range rhs[s:e] { if !nul[x] { return false } }; return true }
		pr := func(what string) {
			fmt.Printf("rule %d: %s ->", i, g.Syms[r.LHS].Name)
			for _, s := range rhs { fmt.Printf(" %s", g.Syms[s].Name) }
			fmt.Printf("   %s\n", what)
		}
		if r.Type >= 0 && allNull(0, len(rhs)) { pr("rule type " + p.Types.RangeTypes[r.Type].Name) }
		if r.Action != 0 && r.Action < len(p.Actions) {
			for _, rep := range p.Actions[r.Action].Report {
				if allNull(rep.Start, rep.End) { pr(fmt.Sprintf("report %s %d..%d", p.Types.RangeTypes[rep.Type].Name, rep.Start, rep.End)) }
			}
		}
	}
}

func init() {
	if len(os.Args) > 2 && os.Args[2] == "types" {
		b, _ := os.ReadFile(os.Args[1])
		g, err := compiler.Compile(context.Background(), "x.tm", string(b), compiler.Params{})
		if err != nil {
			fmt.Println("ERR:", err)
			os.Exit(1)
		}
		for i, t := range g.Parser.Types.RangeTypes {
			fmt.Printf("%d %s: %s\n", i+1, t.Name, t.Descriptor())
			for _, f := range t.Fields {
				fmt.Printf("      %s sel=%v after=%d\n", f.Name, f.Selector, f.FetchAfter)
			}
		}
		for _, c := range g.Parser.Types.Categories {
			fmt.Println("cat", c.String())
		}
		p := g.Parser
		for i, r := range p.Rules {
			fmt.Printf("rule %d: %s ->", i, g.Syms[r.LHS].Name)
			for _, s := range r.RHS {
				if s.IsStateMarker() { continue }
				fmt.Printf(" %s", g.Syms[s].Name)
			}
			fmt.Printf("   type=%d", r.Type)
			if r.Action != 0 && r.Action < len(p.Actions) {
				for _, rep := range p.Actions[r.Action].Report {
					fmt.Printf(" rep(%d %d..%d)", rep.Type, rep.Start, rep.End)
				}
			}
			fmt.Println()
		}
		os.Exit(0)
	}
}
