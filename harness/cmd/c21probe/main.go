package main

import (
	"context"
	"fmt"
	"os"
	"sort"

	"github.com/inspirer/textmapper/compiler"
	"github.com/inspirer/textmapper/gen"
)

type mw struct{ files map[string]string }

func (w *mw) Write(fn, c string) error { w.files[fn] = c; return nil }

func main() {
	b, _ := os.ReadFile(os.Args[1])
	g, err := compiler.Compile(context.Background(), "x.tm", string(b), compiler.Params{})
	if err != nil {
		fmt.Println("ERR:", err)
		return
	}
	p := g.Parser
	for i, r := range p.Rules {
		fmt.Printf("rule %d: %s ->", i, g.Syms[r.LHS].Name)
		for _, s := range r.RHS {
			if s.IsStateMarker() { continue }
			fmt.Printf(" %s", g.Syms[s].Name)
		}
		fmt.Printf("   type=%d", r.Type)
		if r.Action != 0 && r.Action < len(p.Actions) {
			for _, rep := range p.Actions[r.Action].Report {
				fmt.Printf(" rep(%d %d..%d)", rep.Type, rep.Start, rep.End)
			}
		}
		fmt.Println()
	}
	for i, t := range p.Types.RangeTypes {
		fmt.Printf("type %d %s: %s\n", i, t.Name, t.Descriptor())
		for _, f := range t.Fields {
			fmt.Printf("    %s sel=%v after=%d req=%v list=%v\n", f.Name, f.Selector, f.FetchAfter, f.IsRequired, f.IsList)
		}
	}
	for _, c := range p.Types.Categories {
		fmt.Println("cat", c.String())
	}
	fmt.Println("mapped", p.MappedTokens)
	w := &mw{files: map[string]string{}}
	if err := gen.Generate(g, w, gen.Options{}); err != nil {
		fmt.Println("GENERR:", err)
		return
	}
	var names []string
	for n := range w.files { names = append(names, n) }
	sort.Strings(names)
	fmt.Println(names)
	if len(os.Args) > 2 {
		for _, n := range os.Args[2:] { fmt.Println("=====", n); fmt.Println(w.files[n]) }
	}
}
