package main

import (
	"context"
	"fmt"
	"math/rand"
	"os"
	"regexp"
	"strings"

	"github.com/inspirer/textmapper/compiler"
	"github.com/inspirer/textmapper/parsers/tm"
	"github.com/inspirer/textmapper/parsers/tm/token"
	"github.com/inspirer/textmapper/status"
	"github.com/inspirer/textmapper/util/ident"
)

func init() { props["C28"] = c28 }

var c28IdentRE = regexp.MustCompile(`^[A-Za-z_][A-Za-z0-9_]*$`)

// c28ValidIdent: valid in Go, C++ and TypeScript at once (ASCII class), non-empty, not the blank identifier.
func c28ValidIdent(id string) bool { return c28IdentRE.MatchString(id) && id != "_" }

// c28TmName asks the REAL tm lexer whether s is exactly one identifier-like token
// (ID incl. keywords, quoted_id, scon).
func c28TmName(s string) (ok bool) {
	defer func() {
		if recover() != nil {
			ok = false
		}
	}()
	if s == "" || strings.HasPrefix(s, "\xef\xbb\xbf") {
		return false
	}
	var l tm.Lexer
	l.Init(s)
	t := l.Next()
	start, end := l.Pos()
	if start != 0 || end != len(s) {
		return false
	}
	return t == token.ID || t == token.QUOTED_ID || t == token.SCON || (t >= token.AS && t <= token.CHAR_X)
}

// c28KnownBad is exactly the class of lexer-admitted names for which Produce is known to return "" or "_"
// (finding 8 of DESIGN §6): ” and "", and unquoted names made of '_' and '-' only, except in UpperCase
// with two or more underscores.
func c28KnownBad(name string, style ident.Style) bool {
	if name == "''" || name == `""` {
		return true
	}
	if name == "" || strings.Trim(name, "_-") != "" {
		return false
	}
	return !(style == ident.UpperCase && strings.Count(name, "_") >= 2)
}

func c28Printable(id string) string {
	if id == "" {
		return "-"
	}
	b := []byte(id)
	for i, c := range b {
		if !(c >= 'a' && c <= 'z' || c >= 'A' && c <= 'Z' || c >= '0' && c <= '9' || c == '_') {
			b[i] = '?'
		}
	}
	return string(b)
}

func c28Produce(name string, style ident.Style) (ret string, panicked bool) {
	defer func() {
		if recover() != nil {
			panicked = true
		}
	}()
	return ident.Produce(name, style), false
}

var c28Words = []string{
	// target-language and tm keywords, soft keywords, names used by shipped grammars
	"if", "for", "type", "func", "class", "int", "auto", "var", "let", "new", "delete", "goto", "enum", "package",
	"true", "false", "set", "as", "import", "separator", "no-eoi", "expect-rr", "s", "x", "input", "lexer", "parser",
	"eoi", "error", "invalid_token", "EOI", "Error", "ID", "FooID", "FooIDBar", "fooIDBar", "ABcDEF", "ABCDEF", "AbcDEF",
	"abc_def38", "a-1", "a_1", "Statement-list", "expr_NoIn", "HTMLParser", "x86", "i18n", "a", "Z", "_a", "a_", "_1", "__x", "a__b",
	"kw-2x", "If", "IF", "iF", "char_a", "CHAR_A", "plus", "PLUS", "x7f", "u00789a", "esc", "Esc_",
}

var c28Punct = []string{"+", "++", "+=", "<<=", ">>>", "->", "=>", "::", "...", "?.", "&&", "||", "!", "!==", "{", "}", "[", "]", "(", ")",
	"<", ">", ",", ";", ".", "/", "/*", "%", "^", "~", "@", "#", "$", "`", " ", "\t", "|", "=", "*", "**", "-", "--", ":", "?", "&", "\\"}

func c28RandID(r *rand.Rand) string {
	const start = "abcdefghijklmnopqrstuvwxyzABCDEFGHIJKLMNOPQRSTUVWXYZ_"
	n := 1 + r.Intn(10)
	var sb strings.Builder
	// biased alphabets: humps, digits, separators
	alpha := []string{
		"abcdefghijklmnopqrstuvwxyzABCDEFGHIJKLMNOPQRSTUVWXYZ0123456789_-",
		"abAB01_-", "ABCab", "ab_-", "aB9", "_-", "_-a", "XYz0_",
	}[r.Intn(8)]
	for i := 0; i < n; i++ {
		var ch byte
		for {
			if i == 0 {
				if r.Intn(3) == 0 {
					ch = start[r.Intn(len(start))]
				} else {
					ch = alpha[r.Intn(len(alpha))]
				}
				if ch == '-' || ch >= '0' && ch <= '9' {
					continue
				}
			} else {
				ch = alpha[r.Intn(len(alpha))]
				if i == n-1 && ch == '-' {
					continue
				}
			}
			break
		}
		sb.WriteByte(ch)
	}
	return sb.String()
}

// c28UniAlnum: Arabic-Indic, extended Arabic-Indic, Devanagari, Bengali, Thai, fullwidth and mathematical digits
// (category Nd), superscripts / fractions / Roman numerals (No, Nl), fullwidth, Greek, Cyrillic, CJK letters.
var c28UniAlnum = []rune{0x0660, 0x0663, 0x0669, 0x06F0, 0x06F5, 0x0966, 0x096F, 0x09E7, 0x0E53, 0xFF10, 0xFF13, 0xFF19, 0x1D7CE, 0x1D7FF,
	0x00B2, 0x00B3, 0x00B9, 0x2074, 0x00BD, 0x2160, 0xFF21, 0xFF41, 0xFF3A, 0x0391, 0x03C9, 0x0416, 0x044F, 0x00C0, 0x00DF, 0x4E2D, 0x3042, 0x05D0, 0x0627}

var c28Exotic = []string{"é", "É", "碚", "ß", "Ω", "\U0001F600", " ", " ", "�", "\xff", "\xc3", "\x80", "\xe2\x82", "\xed\xa0\x80", "\xf4\x90\x80\x80", "\xc0\x80", "\x00", "\x7f", "\x1b"}

// c28QuotedBody produces the contents of a quoted name that the lexer admits for quote q (no newline,
// backslash only as an escape of a non-newline rune, no bare q).
func c28QuotedBody(r *rand.Rand, q byte) string {
	var sb strings.Builder
	n := 1 + r.Intn(4)
	if r.Intn(4) == 0 {
		n = 1
	}
	for i := 0; i < n; i++ {
		var piece string
		switch r.Intn(11) {
		case 9:
			piece = string(rune(0x80 + r.Intn(0x100))) // Latin-1 / Latin Extended-A (x%02x vs u%06x boundary)
		case 10:
			piece = string(rune(r.Intn(0x110000)))
			if r.Intn(2) == 0 {
				piece = string(c28UniAlnum[r.Intn(len(c28UniAlnum))])
			}
		case 0, 1:
			piece = c28Punct[r.Intn(len(c28Punct))]
		case 2:
			piece = c28Words[r.Intn(len(c28Words))]
		case 3:
			piece = c28RandID(r)
		case 4:
			piece = string(rune(0x20 + r.Intn(0x5f)))
		case 5:
			piece = c28Exotic[r.Intn(len(c28Exotic))]
		case 6:
			piece = "\\" + string(rune(0x20+r.Intn(0x5f)))
		case 7:
			piece = []string{"_", "__", "0", "00", "9a", "A", "AB", "Ab", "aB"}[r.Intn(9)]
		case 8:
			piece = "\\" + c28Exotic[r.Intn(len(c28Exotic))]
		}
		// keep the body lexer-admissible: escape bare quotes/backslashes, drop newlines
		var fixed strings.Builder
		for j := 0; j < len(piece); j++ {
			ch := piece[j]
			switch {
			case ch == '\n':
				fixed.WriteByte(' ')
			case ch == '\\':
				fixed.WriteByte('\\')
				if j+1 < len(piece) && piece[j+1] != '\n' {
					j++
					fixed.WriteByte(piece[j])
				} else {
					fixed.WriteByte('\\')
				}
			case ch == q:
				fixed.WriteByte('\\')
				fixed.WriteByte(q)
			default:
				fixed.WriteByte(ch)
			}
		}
		sb.WriteString(fixed.String())
	}
	return sb.String()
}

func c28Quoted(r *rand.Rand) string {
	q := byte('\'')
	if r.Intn(4) == 0 {
		q = '"'
	}
	return string(q) + c28QuotedBody(r, q) + string(q)
}

// c28Malformed: strings the lexer does not admit as one name (the model of Produce is total).
func c28Malformed(r *rand.Rand) string {
	switch r.Intn(8) {
	case 0:
		n := r.Intn(6)
		b := make([]byte, n)
		for i := range b {
			b[i] = byte(r.Intn(256))
		}
		return string(b)
	case 1:
		return []string{"", "'", "\"", "'\\'", "\"\\\"", "'a", "a'", "'a\"", "-", "-a", "a-", "1", "1a", "a b", "a$1", "A$1", "abc_def$12", "$", "$$", "a$", "'\n'", "'a\nb'"}[r.Intn(22)]
	case 2:
		return c28RandID(r) + "$" + fmt.Sprint(r.Intn(20))
	case 3:
		return "'" + c28Exotic[r.Intn(len(c28Exotic))]
	case 4:
		return c28Exotic[r.Intn(len(c28Exotic))] + c28RandID(r)
	case 5:
		return c28RandID(r) + c28Exotic[r.Intn(len(c28Exotic))] + c28RandID(r)
	case 6:
		return "'" + c28RandID(r) + "'" + c28RandID(r) + "'"
	default:
		return c28RandID(r) + "-"
	}
}

func (c *Ctx) c28Ident(name string, findings bool, bucket string) {
	tmName := c28TmName(name)
	for st := ident.CamelCase; st <= ident.UpperUnderscores; st++ {
		id, panicked := c28Produce(name, st)
		line := fmt.Sprintf("ident %d %s", int(st), hexs([]byte(name)))
		ans := fmt.Sprintf("%s %s %s", hexs([]byte(id)), b2s(tmName), c28Printable(id))
		if panicked {
			ans = "panic"
		}
		key := ""
		if tmName && len(name) > 1 {
			key = line
		}
		c.Count(bucket + " tm=" + b2s(tmName))
		c.Case(line, ans, key)
		if tmName && !panicked && !c28ValidIdent(id) {
			if c28KnownBad(name, st) && !findings {
				c.Count("known-bad class (reported as known finding)")
				if c.Dist["known-bad class (reported as known finding)"] <= 3 {
					c.Violate(fmt.Sprintf("ident.Produce(%q, style %d) = %q: the tm lexer admits the name, the result is not a non-blank identifier [C28-degenerate-name]", name, int(st), id), line)
				}
				continue
			}
			c.Violate(fmt.Sprintf("ident.Produce(%q, style %d) = %q: the tm lexer admits the name, the result is not a non-blank identifier valid in Go, C++ and TypeScript", name, int(st), id), line)
		}
	}
}

// ---- whole grammars ----

// c28ExplicitID generates the text of an explicit `(ID)` clause: a tm identifier (ID token incl. keywords) mixing
// upper and lower case, '-' and '_' at various places and digits, built from the grammar's stems so that
// explicit IDs collide with each other and with derived IDs.
func c28ExplicitID(r *rand.Rand, stems []string) string {
	up := strings.ToUpper
	title := func(s string) string { return up(s[:1]) + s[1:] }
	w1 := stems[r.Intn(len(stems))]
	w2 := stems[r.Intn(len(stems))]
	d := fmt.Sprint(r.Intn(10))
	for {
		var id string
		switch r.Intn(30) {
		case 0:
			id = w1 + "_" + w2
		case 1:
			id = w1 + "-" + w2
		case 2:
			id = w1 + w2
		case 3:
			id = w1 + d
		case 4:
			id = w1 + title(w2) // thinArrow
		case 5:
			id = title(w1) + "-" + title(w2)
		case 6:
			id = w1 + "-" + title(w2) // fat-Arrow
		case 7:
			id = title(w1) + w2
		case 8:
			id = up(w1) + "_" + w2
		case 9:
			id = w1 + "_" + up(w2)
		case 10:
			id = "_" + title(w1)
		case 11:
			id = title(w1) + d
		case 12:
			id = w1[:1] + up(w2) + "-" + d
		case 13:
			id = up(w1) + "_" + up(w2)
		case 14:
			id = up(w1) + up(w2)
		case 15:
			id = up(w1) + "-" + up(w2) // verbatim, not an identifier (known class)
		case 16:
			id = "_" // verbatim blank identifier (known class)
		case 17:
			id = "_" + up(w1)
		case 18:
			id = up(w1) + "_"
		case 19:
			id = up(w1) + "__" + up(w2)
		case 20:
			id = up(w1) + d
		case 21:
			id = up(w1) + "-" + d // verbatim, not an identifier (known class)
		case 22:
			id = []string{"true", "false", "set", "as", "import", "separator", "no-eoi", "expect-rr", "s", "x", "input", "class", "Set", "AS", "No-Eoi"}[r.Intn(15)]
		case 23:
			id = up(w1[:1]) + w1[1:] + "_" + title(w2) + "-" + d + "x"
		case 24:
			id = w1 + "--" + up(w2)
		case 25:
			id = "__"
		case 26:
			id = "_" + d
		case 27:
			id = w1[:1] + "_" + "-" + up(w2) + "_"
		default:
			id = c28RandID(r)
		}
		if id != "" && id[0] != '\'' && id[0] != '"' && c28TmName(id) {
			return id
		}
	}
}

// c28ExplicitBad is exactly the class of admitted explicit `(ID)` clauses for which the unchanged compiler is
// known to emit a non-identifier without reporting an error: no lower-case letter (such IDs are taken verbatim)
// and either a '-' inside or the lone blank identifier `_`.
func c28ExplicitBad(id string) bool {
	if id == "" || strings.ContainsFunc(id, func(r rune) bool { return r >= 'a' && r <= 'z' }) {
		return false
	}
	return id == "_" || strings.Contains(id, "-")
}

var c28UpperRE = regexp.MustCompile(`^[A-Z0-9_]+$`)

type c28Tok struct {
	name, id string
	space    bool // the lexeme carries the (space) attribute
}

func c28Variant(r *rand.Rand, w1, w2 string, nonterm bool) (name, id string) {
	up := strings.ToUpper
	title := func(s string) string { return up(s[:1]) + s[1:] }
	k := r.Intn(14)
	if nonterm {
		k = r.Intn(8)
	}
	switch k {
	case 0:
		return w1 + "_" + w2, ""
	case 1:
		return w1 + "-" + w2, ""
	case 2:
		return w1 + title(w2), ""
	case 3:
		return w1 + w2, ""
	case 4:
		return up(w1) + up(w2), ""
	case 5:
		return title(w1) + title(w2), ""
	case 6:
		return up(w1) + "_" + w2, ""
	case 7:
		return w1 + "__" + w2, ""
	case 8:
		return "'" + w1 + w2 + "'", ""
	case 9:
		return "\"" + w1 + "_" + w2 + "\"", ""
	case 10:
		return "'" + w1 + title(w2) + "'", ""
	case 11: // explicit upper-case ID, used verbatim (a '-' or a lone '_' makes it a non-identifier: filtered unless findings mode)
		sep := []string{"_", "_", "_", "", "-"}[r.Intn(5)]
		if r.Intn(12) == 0 {
			return c28RandID(r) + "x", "_"
		}
		return c28RandID(r) + "x", up(w1) + sep + up(w2)
	case 12: // explicit ID with lower-case letters: goes through Produce(UpperCase)
		return "y" + c28RandID(r), w1 + "_" + w2
	default:
		return "'" + w1 + "-" + w2 + "'", ""
	}
}

var c28Stems = []string{"a", "b", "ab", "foo", "bar", "id", "x", "s", "plus", "char", "eoi", "invalid", "token", "input", "esc", "lt", "e", "o", "i"}
var c28Hard = map[string]bool{"true": true, "false": true, "separator": true, "as": true, "import": true, "set": true}

// c28GramName picks a symbol name (and for some variants an explicit ID) for the whole-grammar stream. The
// known defect classes are NOT filtered out: the oracle classifies them per symbol (see c28CheckSyms).
func c28GramName(r *rand.Rand, stems []string, nonterm, findings bool) (name, id string) {
	for {
		name, id = "", ""
		switch k := r.Intn(10); {
		case k < 6:
			w1 := stems[r.Intn(len(stems))]
			w2 := stems[r.Intn(len(stems))]
			name, id = c28Variant(r, w1, w2, nonterm)
		case k < 7:
			name = c28Words[r.Intn(len(c28Words))]
		case k < 8 && !nonterm:
			name = c28Quoted(r)
			if r.Intn(3) == 0 {
				name = "'" + c28Punct[r.Intn(len(c28Punct))] + "'"
				if name == "'\\'" {
					name = "'\\\\'"
				}
			}
		case k < 9 && !nonterm:
			// pairs colliding through the char-name table: 'X' vs its spelled-out name
			p := c28Punct[r.Intn(len(c28Punct))]
			if p == "\\" {
				p = "\\\\"
			}
			name = "'" + p + "'"
			if r.Intn(2) == 0 {
				name = strings.ToLower(ident.Produce(name, ident.UpperUnderscores))
			}
		default:
			name = c28RandID(r)
		}
		if name == "" || name == "input" || c28Hard[name] || !c28TmName(name) || strings.ContainsAny(name, "\n\r") {
			continue
		}
		if nonterm && (name[0] == '\'' || name[0] == '"') {
			continue
		}
		if nonterm && (name == "error" || name == "eoi" || name == "invalid_token") && r.Intn(4) != 0 {
			continue
		}
		return name, id
	}
}

func c28ErrKind(e *status.Error) string {
	msg := e.Msg
	if strings.HasSuffix(msg, " get the same ID in generated code") {
		body := strings.TrimSuffix(msg, " get the same ID in generated code")
		// "%v and %v": names may contain " and " themselves; the harness knows the candidates
		return "dup\x00" + body
	}
	if strings.HasPrefix(msg, "redeclaration of '") {
		return "redecl:" + hexs([]byte(strings.TrimSuffix(strings.TrimPrefix(msg, "redeclaration of '"), "'")))
	}
	if strings.Contains(msg, " is redeclared with a different ID (") {
		return "reid:" + hexs([]byte(msg[:strings.Index(msg, " is redeclared with a different ID (")]))
	}
	if strings.HasSuffix(msg, " is declared as both a space and non-space terminal") {
		return "spacemix:" + hexs([]byte(strings.TrimSuffix(msg, " is declared as both a space and non-space terminal")))
	}
	if strings.HasPrefix(msg, "duplicate name ") {
		return "dupname:" + hexs([]byte(strings.TrimPrefix(msg, "duplicate name ")))
	}
	return "other:" + hexs([]byte(msg))
}

func (c *Ctx) c28Grammar(findings bool) {
	r := c.Rng
	nt := 1 + r.Intn(5)
	nn := r.Intn(5)
	toks := []c28Tok{{"tok", "", false}}
	// few stems per grammar, so that variants of the same words meet
	stems := make([]string, 1+r.Intn(3))
	for i := range stems {
		stems[i] = c28Stems[r.Intn(len(c28Stems))]
	}
	for i := 0; i < nt; i++ {
		if len(toks) > 1 && r.Intn(12) == 0 {
			// the same token declared twice (allowed), sometimes with another explicit ID
			t := toks[r.Intn(len(toks))]
			if r.Intn(3) == 0 {
				t.id = "OTHER_ID"
			}
			if r.Intn(4) == 0 {
				t.space = !t.space // "declared as both a space and non-space terminal"
			}
			toks = append(toks, t)
			continue
		}
		name, id := c28GramName(r, stems, false, findings)
		if id == "" && r.Intn(3) == 0 {
			id = c28ExplicitID(r, stems)
		}
		toks = append(toks, c28Tok{name, id, r.Intn(4) == 0})
	}
	nts := []string{"input"}
	for i := 0; i < nn; i++ {
		switch {
		case r.Intn(25) == 0:
			nts = append(nts, nts[r.Intn(len(nts))]) // redeclared nonterminal
		case r.Intn(25) == 0:
			t := toks[r.Intn(len(toks))].name // nonterminal named like a token
			if t[0] != '\'' && t[0] != '"' {
				nts = append(nts, t)
			}
		default:
			name, _ := c28GramName(r, stems, true, findings)
			nts = append(nts, name)
		}
	}
	c.c28GrammarCase(toks, nts, r.Intn(5) == 0, findings)
}

// c28GrammarCase renders the declarations as a .tm grammar, runs compiler.Compile and records the case.
// flex: a C++ grammar with flexMode = true (lexemes are declared without patterns and go through
// lexerCompiler.parseFlexDeclarations, which has its own copy of the explicit-ID code).
func (c *Ctx) c28GrammarCase(toks []c28Tok, nts []string, flex, findings bool) {
	var src strings.Builder
	op := "gram"
	if flex {
		op = "gramf"
		src.WriteString("language x(cc);\n\nflexMode = true\n\n:: lexer\n\n")
	} else {
		src.WriteString("language x(go);\n\n:: lexer\n\n")
	}
	var tparts []string
	for i, t := range toks {
		src.WriteString(t.name)
		if t.id != "" {
			fmt.Fprintf(&src, " (%s)", t.id)
		}
		attr := ""
		if t.space {
			attr = " (space)"
		}
		if flex {
			src.WriteString(":" + attr + "\n")
		} else {
			fmt.Fprintf(&src, ": /q%dz/%s\n", i, attr)
		}
		id := "-"
		if t.id != "" {
			id = hexs([]byte(t.id))
		}
		if t.space {
			id += ":s"
		}
		tparts = append(tparts, hexs([]byte(t.name))+":"+id)
	}
	src.WriteString("\n:: parser\n\n")
	var nparts []string
	for _, n := range nts {
		fmt.Fprintf(&src, "%s: tok ;\n", n)
		nparts = append(nparts, hexs([]byte(n)))
	}
	line := fmt.Sprintf("%s %s %s", op, strings.Join(tparts, ","), strings.Join(nparts, ","))

	ans, syms, numTokens := c28Compile(src.String(), toks, nts)
	kind := strings.SplitN(ans, " ", 2)[0]
	if kind == "err" {
		kind = "err " + strings.SplitN(strings.SplitN(ans, " ", 2)[1], ":", 2)[0]
	}
	if flex {
		kind = "(flex) " + kind
	}
	c.Count("grammar " + kind)
	if strings.HasPrefix(ans, "err dup:") {
		// who collides with whom (first error)
		f := strings.Split(strings.SplitN(ans[4:], ";", 2)[0], ":")
		isNt := func(h string) string {
			for _, n := range nparts {
				if n == h {
					return "nonterm"
				}
			}
			return "token"
		}
		c.Count("first dup: " + isNt(f[1]) + " vs " + isNt(f[2]))
	}
	c.Case(line, ans, line)
	if len(c.Samples) < 8 && c.Dist["grammar "+kind] == 1 {
		c.Samples = append(c.Samples, strings.ReplaceAll(src.String(), "\n", "\\n")+" => "+ans)
	}
	c.c28CheckSyms(ans, syms, numTokens, toks, src.String(), findings)
}

type c28Sym struct{ name, id string }

// c28CheckSyms is the oracle of the whole-grammar stream, stated from the property text: when compiler.Compile
// reports no error, EVERY symbol of the compiled grammar (terminals with derived and explicit IDs,
// nonterminals) has an ID that is a non-empty, non-blank identifier valid in Go, C++ and TypeScript, in the
// requested casing style (terminals: upper-case, i.e. [A-Z0-9_]+; nonterminals: camel-case with an upper-case
// initial, i.e. not starting with a lower-case letter), and distinct symbols have distinct IDs.
// Symbols in the two known defect classes are reported with their stable tokens (a few times only).
func (c *Ctx) c28CheckSyms(ans string, syms []c28Sym, numTokens int, toks []c28Tok, src string, findings bool) {
	c.c28CheckSymsMid(ans, syms, numTokens, toks, nil, src, findings)
}

// midrule: names of the mid-rule action nonterminals among syms (third known defect class: their IDs are
// never compared with those of other symbols).
func (c *Ctx) c28CheckSymsMid(ans string, syms []c28Sym, numTokens int, toks []c28Tok, midrule []string, src string, findings bool) {
	if !strings.HasPrefix(ans, "ok ") {
		return
	}
	explicit := map[string]string{}
	for _, t := range toks {
		if _, ok := explicit[t.name]; !ok {
			explicit[t.name] = t.id
		}
	}
	known := func(token, what string) {
		c.Count("known class " + token)
		if c.Dist["known class "+token] <= 2 || findings {
			c.Violate(what+" "+token, src)
		}
	}
	isMid := map[string]bool{}
	for _, m := range midrule {
		isMid[m] = true
	}
	seen := map[string]string{}
	for i, s := range syms {
		if prev, ok := seen[s.id]; ok {
			what := fmt.Sprintf("compiler.Compile reports no error although the symbols %q and %q get the same ID %q", prev, s.name, s.id)
			if isMid[s.name] || isMid[prev] {
				known("[C28-midrule-id-unchecked]", what)
			} else {
				c.Violate(what, src)
			}
		}
		seen[s.id] = s.name
		terminal := i < numTokens
		if terminal && s.name == "error" && s.id == "YYerror" {
			continue // the built-in bison error token of flex mode
		}
		valid := c28ValidIdent(s.id)
		styleOK := s.id == "" || !(s.id[0] >= 'a' && s.id[0] <= 'z')
		kind, style := "nonterminal", "camel-case with an upper-case initial"
		if terminal {
			styleOK = c28UpperRE.MatchString(s.id) || !valid
			kind, style = "terminal", "upper-case"
		}
		if valid && styleOK {
			continue
		}
		what := fmt.Sprintf("compiler.Compile reports no error although the %s %q gets the ID %q", kind, s.name, s.id)
		if !valid {
			what += " (not a valid non-blank identifier)"
		} else {
			what += " (a valid identifier but not in the " + style + " style)"
		}
		switch {
		case terminal && explicit[s.name] != "":
			if c28ExplicitBad(explicit[s.name]) && s.id == explicit[s.name] {
				known("[C28-explicit-id-verbatim]", what)
				continue
			}
		case terminal && c28KnownBad(s.name, ident.UpperCase), !terminal && c28KnownBad(s.name, ident.CamelCase):
			known("[C28-degenerate-name]", what)
			continue
		}
		c.Violate(what, src)
	}
}

func c28Compile(src string, toks []c28Tok, nts []string) (ans string, syms []c28Sym, numTokens int) {
	defer func() {
		if e := recover(); e != nil {
			ans = "panic"
		}
	}()
	g, err := compiler.Compile(context.Background(), "x.tm", src, compiler.Params{})
	if err == nil {
		var parts []string
		for _, s := range g.Syms {
			parts = append(parts, hexs([]byte(s.ID)))
			syms = append(syms, c28Sym{s.Name, s.ID})
		}
		return "ok " + strings.Join(parts, ","), syms, g.NumTokens
	}
	if g == nil {
		return "syntax " + hexs([]byte(err.Error())), nil, 0
	}
	names := []string{"eoi", "error", "invalid_token"}
	for _, t := range toks {
		names = append(names, t.name)
	}
	names = append(names, nts...)
	var parts []string
	for _, e := range status.FromError(err) {
		k := c28ErrKind(e)
		if strings.HasPrefix(k, "dup\x00") {
			body := k[4:]
			k = "other:" + hexs([]byte(e.Msg))
			// split "%v and %v" at a position where both sides are declared names
		search:
			for _, a := range names {
				for _, b := range names {
					if body == a+" and "+b {
						k = "dup:" + hexs([]byte(a)) + ":" + hexs([]byte(b))
						break search
					}
				}
			}
		}
		parts = append(parts, k)
	}
	return "err " + strings.Join(parts, ";"), nil, 0
}

func c28(c *Ctx) {
	findings := os.Getenv("VERIF_FINDINGS") != ""
	c.Rule = "ident: every name goes through ident.Produce in all 4 styles and through the real tm lexer (is it one ID/keyword/quoted_id/scon token?); " +
		"names = exhaustive one-byte and escaped one-byte quoted names in both quote kinds (covers the charName table), every single rune U+0080..U+017F quoted, 33 non-ASCII digits/letters (Arabic-Indic, Devanagari, fullwidth, mathematical, superscripts, Greek, Cyrillic, CJK) alone and next to ASCII letters/digits, keyword-like words, random ID spellings over biased alphabets " +
		"(humps, digits, '_', '-'), quoted names built from punctuation/words/escapes/non-ASCII/invalid UTF-8, and a malformed stream (random bytes, unbalanced quotes, '$' names); " +
		"non-trivial = lexer-admitted name longer than one byte, distinct by (style,name). " +
		"gram: .tm grammars (1-6 lexemes, a quarter of them with the (space) attribute in either declaration order, 1-5 nonterminals; one in five as a C++ flexMode grammar = the second copy of the explicit-ID code) whose names are variants of shared stems so that IDs collide " +
		"(a_b/a-b/aB/AB/'ab'/char-name spellings/eoi/invalid_token); a third of the lexemes (ID-named and quoted) carry an explicit (ID) clause built from the same stems: " +
		"all-lower, all-upper and MIXED case (thinArrow, fat-Arrow, Foo-Bar, FOO_bar, _Foo), '-'/'_'/'--'/'__' inside, leading/trailing '_', digits, keywords (set, as, No-Eoi); " +
		"run through compiler.Compile; answer = Syms[].ID or the classified error list. " +
		"Harness oracle (from the property text): a lexer-admitted name whose Produce result is not a valid identifier; for a grammar compiled without error, EVERY symbol " +
		"(terminals with derived and explicit IDs, nonterminals) must have a non-blank identifier valid in Go/C++/TS in the requested style (terminals [A-Z0-9_]+, nonterminals not starting with a lower-case letter) " +
		"and distinct symbols distinct IDs. " +
		"gen: grammars whose nonterminals are generated after declaration — template instances (x<+B> → x_B, two flags instantiated several ways), groups (y$1), lists (D_list, B_list_C_separated, C_optlist), " +
		"optionals (copt) and mid-rule action nonterminals (u$1) from 12 rule shapes over short names; each grammar is compiled once to learn the generated names and IDs, then again with an added terminal " +
		"(name spelled so that its upper-case ID equals a generated ID, or an explicit ID) or an added declared nonterminal with a colliding camel-case ID; the model gets the declarations plus the names of the expanded model " +
		"(the expander is not modelled) and must reproduce Syms[].ID / the error list; the every-symbol oracle runs on ALL of g.Syms incl. generated ones. " +
		"Known defect classes stay in the streams, are compared against the model and reported with stable tokens: [C28-degenerate-name] (names '' \"\" and unquoted names of '_'/'-' only) and " +
		"[C28-explicit-id-verbatim] (explicit (ID) without lower-case letters containing '-' or being '_' is taken verbatim), [C28-midrule-id-unchecked] (mid-rule nonterminal IDs such as U_1 are never compared with other IDs); VERIF_FINDINGS=1 reports every occurrence."
	// 0. probes of the known defect classes on the real compiler.Compile (reported once, with stable tokens)
	for _, pr := range []struct {
		toks []c28Tok
		nts  []string
	}{
		{[]c28Tok{{"tok", "", false}, {"foo", "A-B", false}, {"'=>'", "FAT-ARROW", false}, {"b", "_", false}}, []string{"input"}},
		{[]c28Tok{{"tok", "", false}, {"_", "", false}, {"''", "", false}}, []string{"input", "_"}},
	} {
		c.c28GrammarCase(pr.toks, pr.nts, false, findings)
		c.c28GrammarCase(pr.toks, pr.nts, true, findings)
	}
	c.c28GenProbe(findings)
	// 1. exhaustive single-byte quoted names
	for b := 0; b < 256; b++ {
		if b == '\n' {
			continue
		}
		for _, q := range []string{"'", "\""} {
			c.c28Ident(q+string([]byte{byte(b)})+q, findings, "quoted1")
			c.c28Ident(q+"\\"+string([]byte{byte(b)})+q, findings, "quoted-esc1")
		}
	}
	for cp := 0x80; cp < 0x180; cp++ {
		c.c28Ident("'"+string(rune(cp))+"'", findings, "quoted-rune1")
		c.c28Ident("'A"+string(rune(cp))+"B'", findings, "quoted-rune1")
	}
	// non-ASCII digits and letters (Unicode Nd / L outside ASCII): must be escaped, never copied
	for _, cp := range c28UniAlnum {
		u := string(cp)
		for _, n := range []string{"'" + u + "'", "'a" + u + "'", "'" + u + "1'", "'A" + u + "B'", "\"" + u + u + "\"", "'\\" + u + "'"} {
			c.c28Ident(n, findings, "quoted-unicode-alnum")
		}
	}
	for _, w := range c28Words {
		c.c28Ident(w, findings, "word")
		c.c28Ident("'"+w+"'", findings, "quoted-word")
	}
	for _, p := range c28Punct {
		for _, p2 := range []string{"", "=", p} {
			s := p + p2
			s = strings.ReplaceAll(s, "\\", "\\\\")
			c.c28Ident("'"+s+"'", findings, "quoted-punct")
		}
	}
	for _, w := range []string{"_", "__", "___", "_-_", "_--_", "''", `""`, "'_'", "'__'", "'-'", "'\\_'"} {
		c.c28Ident(w, findings, "degenerate")
	}
	if c.Tier == "thorough" {
		const a1 = "abcdefghijklmnopqrstuvwxyzABCDEFGHIJKLMNOPQRSTUVWXYZ_"
		const a2 = "abcdefghijklmnopqrstuvwxyzABCDEFGHIJKLMNOPQRSTUVWXYZ_0123456789"
		for i := 0; i < len(a1); i++ {
			for j := 0; j < len(a2); j++ {
				c.c28Ident(string([]byte{a1[i], a2[j]}), findings, "id2-exhaustive")
			}
		}
	}
	n := c.N(5000, 300000)
	for i := 0; i < n; i++ {
		switch k := c.Rng.Intn(10); {
		case k < 4:
			c.c28Ident(c28RandID(c.Rng), findings, "id")
		case k < 8:
			c.c28Ident(c28Quoted(c.Rng), findings, "quoted")
		default:
			c.c28Ident(c28Malformed(c.Rng), findings, "malformed")
		}
	}
	// 2. whole grammars
	g := c.N(1500, 60000)
	for i := 0; i < g; i++ {
		c.c28Grammar(findings)
	}
	// 3. grammars with generated nonterminals (template instances, groups, lists, optionals, mid-rule actions)
	g = c.N(1200, 40000)
	for i := 0; i < g; i++ {
		c.c28Generated(findings)
	}
}
