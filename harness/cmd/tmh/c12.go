package main

// C12: tokenization always progresses, tiles the input and tracks lines.
//
// Shipped lexers (parsers/{tm,js,json,test,simple}) are called in-process; generated lexers of random
// grammars run through the same batch runner as C11. The Go side checks the contract DIRECTLY on every
// token sequence (progress, EOI repeats, order/disjointness, gaps tiled by space-rule matches of the
// real lex.Tables.Scan, Line()/Column() recomputed from the text) and reports failures through
// c.Violate, independently of the Lean model. The Lean side evaluates TablesWF on the real tables of
// all five shipped lexers (exported by parsers/<x>/verif_export_c12.go and compared here with the
// tables the compiler regenerates from the .tm source) and replays the table-driven lexers (json,
// simple, generated) with the model of the template. tm/js/test contain hand-written actions that
// are outside the table model: for them only the stated contract is checked.

import (
	"context"
	"fmt"
	"math/rand"
	"os"
	"path/filepath"
	"reflect"
	"strings"
	"time"

	"github.com/inspirer/textmapper/compiler"
	"github.com/inspirer/textmapper/grammar"
	"github.com/inspirer/textmapper/parsers/js"
	tmjson "github.com/inspirer/textmapper/parsers/json"
	"github.com/inspirer/textmapper/parsers/simple"
	"github.com/inspirer/textmapper/parsers/test"
	"github.com/inspirer/textmapper/parsers/tm"
)

func init() { props["C12"] = c12 }

type lexObs struct {
	lexTok
	State int // l.State before the call (0 when the lexer has no State field)
}

// exported tables in one shape (the five packages have identical VerifLexTables declarations)
type shippedTables struct {
	NumClasses, RuneClassLen, FirstRule int
	RuneClass, StateMap, Token, Action  []int
	Backtracking                        []int
	HasMapRune                          bool
	Ranges                              [][]int // lo, hi, default, vals...
}

func convTables(v any) shippedTables {
	rv := reflect.ValueOf(v)
	geti := func(n string) int { return int(rv.FieldByName(n).Int()) }
	getl := func(n string) []int {
		f := rv.FieldByName(n)
		var r []int
		for i := 0; i < f.Len(); i++ {
			r = append(r, int(f.Index(i).Int()))
		}
		return r
	}
	t := shippedTables{NumClasses: geti("NumClasses"), RuneClassLen: geti("RuneClassLen"), FirstRule: geti("FirstRule"),
		RuneClass: getl("RuneClass"), StateMap: getl("StateMap"), Token: getl("Token"), Action: getl("Action"),
		Backtracking: getl("Backtracking"), HasMapRune: rv.FieldByName("HasMapRune").Bool()}
	rs := rv.FieldByName("Ranges")
	for i := 0; i < rs.Len(); i++ {
		r := rs.Index(i)
		row := []int{int(r.FieldByName("Lo").Int()), int(r.FieldByName("Hi").Int()), int(r.FieldByName("DefaultVal").Int())}
		vs := r.FieldByName("Val")
		for k := 0; k < vs.Len(); k++ {
			row = append(row, int(vs.Index(k).Int()))
		}
		t.Ranges = append(t.Ranges, row)
	}
	return t
}

type shippedLexer struct {
	name     string
	tmFile   string
	hasState bool
	hasLine  bool
	hasCol   bool
	replay   bool // no hand-written code that touches positions: replayed by the Lean model
	tables   func() shippedTables
	run      func(text string) ([]lexObs, string)
	frags    []string
}

// runLoop drives any of the lexers through closures: tokens until the first EOI (at most len+3), then
// two further calls (the same shape as the generated-lexer runner).
func runLoop(text string, next func() (tok, s, e, line, col, state int)) (obs []lexObs, fail string) {
	defer func() {
		if r := recover(); r != nil {
			fail = fmt.Sprint("panic: ", r)
		}
	}()
	n, extra := len(text)+3, 2
	for n > 0 {
		tok, s, e, line, col, st := next()
		obs = append(obs, lexObs{lexTok{tok, s, e, line, col}, st})
		if tok == 0 {
			if extra == 0 {
				break
			}
			n = extra
			extra--
		} else {
			n--
		}
	}
	return obs, ""
}

func shippedLexers() []*shippedLexer {
	return []*shippedLexer{
		{name: "tm", tmFile: "parsers/tm/textmapper.tm", hasState: true, hasLine: true, hasCol: true,
			tables: func() shippedTables { return convTables(tm.VerifTables()) },
			run: func(text string) ([]lexObs, string) {
				var l tm.Lexer
				l.Init(text)
				return runLoop(text, func() (int, int, int, int, int, int) {
					st := l.State
					tok := l.Next()
					s, e := l.Pos()
					return int(tok), s, e, l.Line(), l.Column(), st
				})
			},
			frags: []string{"language", "a", "b1", "::", "lexer", "parser", ":", "=", ";", "|", "/re[a-z]+/", "/x\\/y/", "'q'", "\"s\"", "(", ")", "<", ">", "initial",
				"{", "}", "{ x }", "{ \"}\" }", "{ '{' }", "{ // c\n }", "{ /* } */ }", "{\n}", "{ a {b} c }", "{ \"\\\"\" }", "{ /* unterminated }", "{ // no newline }",
				"{ \"unterminated }", "%%", "%left", "%input", "->", "# comment\n", "// c\n", "/* c */", "123", "-1", "true", "set", "(class)", "(space)", "[", "]", "$", "@", "\\", "%", "é", "\xff"}},
		{name: "js", tmFile: "parsers/js/js.tm", hasState: true, hasLine: true,
			tables: func() shippedTables { return convTables(js.VerifTables()) },
			run: func(text string) ([]lexObs, string) {
				var l js.Lexer
				l.Init(text)
				return runLoop(text, func() (int, int, int, int, int, int) {
					st := l.State
					tok := l.Next()
					s, e := l.Pos()
					return int(tok), s, e, l.Line(), 0, st
				})
			},
			frags: []string{"var", "x", "=", "1", ";", "a/b", "/re/g", "/[/]/", "\"s\"", "'s'", "\"unterminated", "'un\n", "`t${x}t`", "`unterminated", "`a${", "}", "{", "(", ")", "=>", "?.", "?.5", "?", "...", ".",
				"// c\n", "/* c */", "/* unterminated", "/*\n*/", "<!--", "<a>", "</a>", "<a b=\"c\">t</a>", "0x1f", "1e5", "1n", "0b2", "\\u0041", "\\u{41}x", "#priv", "@", "é", "π", "\u2028", "\u00a0", "\ufeff", "\xff", "\xc3", "async", "function", "class", "return", "<", ">", ">>>=", "**", "??=", "&&", "!"}},
		{name: "json", tmFile: "parsers/json/json.tm", hasLine: true, replay: true,
			tables: func() shippedTables { return convTables(tmjson.VerifTables()) },
			run: func(text string) ([]lexObs, string) {
				var l tmjson.Lexer
				l.Init(text)
				return runLoop(text, func() (int, int, int, int, int, int) {
					tok := l.Next()
					s, e := l.Pos()
					return int(tok), s, e, l.Line(), 0, 0
				})
			},
			frags: []string{"{", "}", "[", "]", ":", ",", "\"s\"", "\"a\\nb\"", "\"\\u00e9\"", "\"\\u00\"", "\"unterminated", "\"x\ny\"", "null", "true", "false", "nul", "A", "B", "AB", "abc1",
				"1", "-1", "0.5", "1e", "1e+", "1.5e-7", "-", "01", "/* c */", "/*\n*/", "/* unterminated", "/**/", "/*/", "/", "*", "é", "\xff", "\x00"}},
		{name: "test", tmFile: "parsers/test/test.tm", hasState: true,
			tables: func() shippedTables { return convTables(test.VerifTables()) },
			run: func(text string) ([]lexObs, string) {
				var l test.Lexer
				l.Init(text)
				return runLoop(text, func() (int, int, int, int, int, int) {
					st := l.State
					tok := l.Next()
					s, e := l.Pos()
					return int(tok), s, e, 0, 0, st
				})
			},
			frags: []string{"test", "decl1", "decl2", "eval", "as", "if", "else", "x", "y", "z", "abc", "a-b", "a--", "Zfoo", "Zab", "Z\\u0041", "Z\\u00", "Z\\", "Z", "123", "12\n", "12",
				"{", "}", "(", ")", "[", "]", ".", "..", "...", ",", ":", "-", "->", "+", "\\", "_", "foo_", "f_a", "\"", "'", "%q\n%q", "% q", "%q", "testfoo->", "testfoo--", "test-",
				"// c\n", "//", "/* c */", "/* a /* nested */ b */", "/* unterminated", "/* a /* b */", "*/", "/*", "/", "*", "é", "Ä", "\xff", "\x00"}},
		{name: "simple", tmFile: "parsers/simple/simple.tm", hasLine: true, replay: true,
			tables: func() shippedTables { return convTables(simple.VerifTables()) },
			run: func(text string) ([]lexObs, string) {
				var l simple.Lexer
				l.Init(text)
				return runLoop(text, func() (int, int, int, int, int, int) {
					tok := l.Next()
					s, e := l.Pos()
					return int(tok), s, e, l.Line(), 0, 0
				})
			},
			frags: []string{"simple", "a", "b", "c", "\\id", "\\é1", "\\中_x", "\\", "\\1", "\\_", "\\a\u0301", "d", "simpl", "é", "\xff", "\xe2\x82", "1", "+"}},
	}
}

// ---- contract checks on the Go side ----

type contractCfg struct {
	line, col     bool
	colAfterNL    bool                                         // columns are checked on lines > 1 as well
	gapScan       func(state int, text string) (size, act int) // nil: gaps are not examined
	spaceAct      map[int]bool
	bomSkipped    bool
	skipGapIfText string // gaps containing this text are left alone (hand-written multi-call logic)
}

// checkContract returns "" when the observed sequence satisfies the contract of C12.
func checkContract(text string, obs []lexObs, cfg contractCfg) string {
	prevEnd := 0
	if cfg.bomSkipped && strings.HasPrefix(text, "\xef\xbb\xbf") {
		prevEnd = 3
	}
	sawEOI := false
	for i, o := range obs {
		if o.S < 0 || o.E > len(text) || o.S > o.E {
			return fmt.Sprintf("call %d: token %d has offsets [%d,%d) outside the input of length %d", i, o.Tok, o.S, o.E, len(text))
		}
		if sawEOI {
			if o.Tok != 0 || o.S != len(text) || o.E != len(text) {
				return fmt.Sprintf("call %d after EOI returns token %d [%d,%d): EOI does not repeat", i, o.Tok, o.S, o.E)
			}
			continue
		}
		if o.S < prevEnd {
			return fmt.Sprintf("call %d: token %d starts at %d inside or before the previous token ending at %d", i, o.Tok, o.S, prevEnd)
		}
		if cfg.gapScan != nil && !(cfg.skipGapIfText != "" && strings.Contains(text[prevEnd:o.S], cfg.skipGapIfText)) {
			pos := prevEnd
			for pos < o.S {
				size, act := cfg.gapScan(o.State, text[pos:])
				if !cfg.spaceAct[act] || size <= 0 || pos+size > o.S {
					return fmt.Sprintf("call %d: the text %q between the tokens at %d and %d is not a sequence of space-rule matches (at %d the rules give action %d of size %d)", i, text[prevEnd:o.S], prevEnd, o.S, pos, act, size)
				}
				pos += size
			}
		}
		nl := strings.Count(text[:o.S], "\n")
		if cfg.line && o.Line != 1+nl {
			return fmt.Sprintf("call %d: token %d at offset %d: Line() = %d, want %d", i, o.Tok, o.S, o.Line, 1+nl)
		}
		if cfg.col && (cfg.colAfterNL || nl == 0) {
			want := o.S - (strings.LastIndexByte(text[:o.S], '\n') + 1) + 1
			if o.Col != want {
				return fmt.Sprintf("call %d: token %d at offset %d: Column() = %d, want %d", i, o.Tok, o.S, o.Col, want)
			}
		}
		if o.Tok == 0 {
			if o.S != len(text) || o.E != len(text) {
				return fmt.Sprintf("call %d: EOI reported at [%d,%d), the input has %d bytes", i, o.S, o.E, len(text))
			}
			sawEOI = true
			continue
		}
		if o.S == o.E {
			return fmt.Sprintf("call %d: empty token %d at %d", i, o.Tok, o.S)
		}
		prevEnd = o.E
	}
	if !sawEOI {
		return fmt.Sprintf("no EOI within %d calls", len(obs))
	}
	return ""
}

func obsString(obs []lexObs) string {
	var p []string
	for _, o := range obs {
		p = append(p, fmt.Sprintf("%d:%d:%d:%d:%d", o.Tok, o.S, o.E, o.Line, o.Col))
	}
	return strings.Join(p, ",")
}

func flattenBT(t *grammar.Lexer) []int {
	var r []int
	for _, b := range t.Tables.Backtrack {
		r = append(r, b.Action, b.NextState)
	}
	return r
}

func intsEq(a, b []int) bool {
	if len(a) != len(b) {
		return false
	}
	for i := range a {
		if a[i] != b[i] {
			return false
		}
	}
	return true
}

func genBytesText(r *rand.Rand, frags []string) string {
	var sb strings.Builder
	if r.Intn(8) == 0 {
		sb.WriteString("\xef\xbb\xbf")
	}
	n := r.Intn(16)
	for i := 0; i < n; i++ {
		switch k := r.Intn(20); {
		case k < 13:
			sb.WriteString(pick(r, frags))
		case k < 16:
			sb.WriteString([]string{" ", "\n", "\t", "\r\n", "  "}[r.Intn(5)])
		case k < 19:
			sb.WriteByte(byte(r.Intn(256)))
		default:
			sb.WriteRune(rune(r.Intn(0x11000)))
		}
	}
	return sb.String()
}

func randBytes(r *rand.Rand) string {
	n := r.Intn(24)
	b := make([]byte, n)
	for i := range b {
		if r.Intn(3) == 0 {
			b[i] = " \n{}\"'/*\\"[r.Intn(9)]
		} else {
			b[i] = byte(r.Intn(256))
		}
	}
	return string(b)
}

func c12(c *Ctx) {
	c.Rule = "shipped lexers tm/js/json/test/simple called in-process on (a) 0-15 fragments of their language incl. unterminated strings/comments/templates/code blocks, nested comments, BOM, invalid UTF-8, (b) random byte strings biased to quotes/braces/slashes/newlines, (c) their own grammar sources (tm lexer); generated lexers of sampled grammars (the C11 families, half of them forced to rule ids) on fragments and random bytes, every start condition; skipAction called directly (hook) on code-block texts with quotes, escapes, comments, nested braces, unterminated forms. Go-side contract checks (independent of the model): EOI within len+3 calls at [len,len) and repeating, non-empty tokens, order/disjointness, gaps tiled by space-rule matches of the real lex.Tables.Scan in the start condition of the call (test lexer: gaps containing a block comment are skipped, its comment states are hand-written), Line() = 1+newlines before the token, Column() (tm). Lean side: TablesWF + class-map enumeration on the exported tables of all five shipped lexers (compared first with the tables the compiler regenerates from the .tm file), replay of json/simple/generated lexers by the template model, mirror of skipAction. Defect classes probed at start: C12-skipaction-line (backslash-newline inside a quoted string of a code block) and the column bookkeeping (C11-column; skipAction never updates lineOffset): while a probe fails the witness is reported and exactly that class is left out of the random streams / oracles. non-trivial = input with at least one space gap and a multi-byte or invalid sequence, or a code block (tm); distinct by lexer+input"
	r := c.Rng
	repo := os.Getenv("VERIF_REPO")
	if repo == "" {
		repo = "/repo"
	}
	variant := lexVariant{}

	// ---- probes (tm lexer, in-process) ----
	sl := shippedLexers()
	tml := sl[0]
	{
		obs, _ := tml.run("a\nb\n  c")
		variant.ColFix = len(obs) >= 3 && obs[1].Col == 1 && obs[2].Col == 3
		w := "a: {\"\\\n\"}\nb"
		obs, _ = tml.run(w)
		last := lexObs{}
		for _, o := range obs {
			if o.Tok != 0 {
				last = o
			}
		}
		lineOK := last.Line == 3
		// lineOffset after a multi-line code block
		obs2, _ := tml.run("a: {\n} b")
		last2 := lexObs{}
		for _, o := range obs2 {
			if o.Tok != 0 {
				last2 = o
			}
		}
		colOK := last2.Col == 3
		variant.SkipFix = lineOK && colOK
		if !lineOK {
			c.Violate("tm lexer: after a code block containing a backslash-newline inside a quoted string every later token reports a line one too small (parsers/tm/lexer_actions.go skipAction: the skipNext path bypasses line++)",
				fmt.Sprintf("C12-skipaction-line input %q: token at offset %d reports line %d, want 3 (tokens %s)", w, last.S, last.Line, obsString(obs)))
		} else if !colOK {
			c.Violate("tm lexer: a token that follows a multi-line code block on the same line reports a column computed from the line where the block started (skipAction does not maintain lineOffset)",
				fmt.Sprintf("C12-skipaction-column input %q: token at offset %d reports column %d, want 3", "a: {\n} b", last2.S, last2.Col))
		}
		if !variant.ColFix {
			c.Notes = append(c.Notes, "C11-column is present (Column() after the first line is one too large): tm columns are checked on the first line only; the witness is reported by ./check C11")
		}
		c.Extra["variant_observed"] = map[string]bool{"colFix": variant.ColFix, "skipFix": variant.SkipFix}
	}

	// ---- shipped lexers ----
	for _, l := range sl {
		src, err := os.ReadFile(filepath.Join(repo, l.tmFile))
		if err != nil {
			c.Notes = append(c.Notes, "cannot read "+l.tmFile)
			continue
		}
		g, err := compiler.Compile(context.Background(), l.tmFile, string(src), compiler.Params{})
		if err != nil || g.Lexer == nil || g.Lexer.Tables == nil {
			c.Violate("shipped grammar does not compile: "+errSummary(err), l.tmFile)
			continue
		}
		lx := g.Lexer
		t := lx.Tables
		st := l.tables()
		// exported arrays vs regenerated tables
		useMap := t.LastMapEntry().Start > 2048
		var wantClass []int
		if useMap {
			wantClass = t.SymbolArr(256)
		} else {
			wantClass = t.SymbolArr(0)
		}
		same := intsEq(st.Action, t.Dfa) && intsEq(st.Backtracking, flattenBT(lx)) && st.NumClasses == t.NumSymbols &&
			st.FirstRule == t.ActionStart() && intsEq(st.RuneClass, wantClass) && st.HasMapRune == useMap &&
			(len(lx.StartConditions) <= 1 || intsEq(st.StateMap, t.StateMap)) && intsEq(st.Token, lx.RuleToken)
		if useMap {
			cm := t.CompressedMap(256)
			if len(cm) != len(st.Ranges) {
				same = false
			} else {
				for i, e := range cm {
					row := append([]int{int(e.Lo), int(e.Hi), e.DefaultVal}, e.Vals...)
					if !intsEq(row, st.Ranges[i]) {
						same = false
					}
				}
			}
		}
		if !same {
			c.Violate("the tables compiled into parsers/"+l.name+" differ from the tables the compiler regenerates from "+l.tmFile+" (stale generated files)", l.tmFile)
			continue
		}
		c.Count("shipped tables == regenerated: " + l.name)
		// exempt rules: hand-written code (tm/js/test), explicit eoi rules
		var exempt []int
		spaceM, spaces := spaceSet(g)
		if !l.replay {
			for _, a := range lx.Actions {
				if a.Code != "" {
					exempt = append(exempt, a.Action)
				}
			}
			for a, tok := range lx.RuleToken {
				if a >= 1 && tok == 0 {
					exempt = append(exempt, a)
				}
			}
		}
		// inputs
		nIn := c.N(150, 4000)
		var inputs []string
		inputs = append(inputs, "", "\xef\xbb\xbf", "\n", "\xef\xbb\xbf\n")
		for i := 0; i < nIn; i++ {
			switch r.Intn(4) {
			case 0:
				inputs = append(inputs, randBytes(r))
			default:
				inputs = append(inputs, genBytesText(r, l.frags))
			}
		}
		if l.name == "tm" {
			for _, f := range []string{"parsers/json/json.tm", "parsers/simple/simple.tm", "parsers/test/test.tm", "parsers/tm/textmapper.tm"} {
				if b, err := os.ReadFile(filepath.Join(repo, f)); err == nil {
					inputs = append(inputs, string(b))
				}
			}
		}
		cfg := contractCfg{line: l.hasLine, col: l.hasCol, colAfterNL: variant.ColFix && variant.SkipFix, bomSkipped: g.Options.SkipByteOrderMark, spaceAct: spaceM}
		cfg.gapScan = func(state int, text string) (int, int) { return t.Scan(state, text) }
		if l.name == "test" {
			cfg.skipGapIfText = "/*"
		}
		var replayIns, replayOuts []string
		for _, in := range inputs {
			if l.name == "tm" && !variant.SkipFix && strings.Contains(in, "\\\n") {
				// class of C12-skipaction-line: left out until fixed
				in = strings.ReplaceAll(in, "\\\n", "\\ \n")
			}
			obs, fail := l.run(in)
			if fail != "" {
				c.Violate("parsers/"+l.name+" lexer: "+fail, fmt.Sprintf("%q", in))
				continue
			}
			mycfg := cfg
			if l.name == "tm" && !variant.SkipFix {
				// skipAction leaves lineOffset stale: columns only before the first code block with a newline
				mycfg.colAfterNL = false
			}
			if msg := checkContract(in, obs, mycfg); msg != "" {
				c.Violate("parsers/"+l.name+" lexer: "+msg, fmt.Sprintf("input %q tokens %s", in, obsString(obs)))
			}
			c.Evaluations++
			key := ""
			if len(obs) > 4 && !lexIsASCII(in) || strings.Contains(in, "{") && l.name == "tm" {
				key = l.name + in
			}
			if key != "" {
				c.distinct[key] = true
			}
			if l.replay && len(in) < 400 {
				replayIns = append(replayIns, "0:"+hexs([]byte(in)))
				replayOuts = append(replayOuts, obsString(obs))
			}
		}
		c.Count(fmt.Sprintf("shipped %s: inputs", l.name))
		// Lean: TablesWF (+ replay)
		line := lexProto(variant, g.Options, lx, spaces, exempt)
		ans := fmt.Sprintf("wf=1 map=1 eoif=%s", b2s(eoiFinalGo(t)))
		if l.replay {
			c.Case(line+" "+strings.Join(replayIns, " "), ans+" "+strings.Join(replayOuts, "|"), l.name)
		} else {
			c.Case(line, ans, l.name)
		}
	}

	// ---- skipAction directly ----
	c12Skip(c, variant)

	// ---- generated lexers ----
	c12Generated(c, variant)
}

var c12SkipFrags = []string{"{", "}", "\"", "'", "\\", "\\\"", "\\'", "/", "/*", "*/", "//", "\n", "x", " ", "\"}\"", "'{'", "/* } */", "// }\n", "{}", "\\\\", "é", "\xff", "*", "/**/", "/*/", "\"\\\"}\"", "a\nb"}

func c12Skip(c *Ctx, v lexVariant) {
	n := c.N(1500, 60000)
	for i := 0; i < n; i++ {
		var sb strings.Builder
		if c.Rng.Intn(10) == 0 {
			sb.WriteString("\xef\xbb\xbf")
		}
		pre := []string{"", "a: ", "x\ny = ", "\n\n"}[c.Rng.Intn(4)]
		sb.WriteString(pre)
		sb.WriteString("{")
		off := sb.Len()
		k := c.Rng.Intn(12)
		for j := 0; j < k; j++ {
			sb.WriteString(pick(c.Rng, c12SkipFrags))
		}
		if c.Rng.Intn(3) != 0 {
			sb.WriteString("}")
		}
		if c.Rng.Intn(2) == 0 {
			sb.WriteString(" tail\n}")
		}
		text := sb.String()
		if !v.SkipFix {
			text = strings.ReplaceAll(text, "\\\n", "\\ \n")
		}
		ok, o, line, lo := tm.VerifSkipAction(text, off)
		ans := fmt.Sprintf("%s:%d:%d:%d", b2s(ok), o, line, lo)
		key := ""
		if strings.ContainsAny(text[off:], "\"'") && strings.Contains(text[off:], "\n") {
			key = text
		}
		c.Case(fmt.Sprintf("skip %s %d %s", v, off, hexs([]byte(text))), ans, key)
		// oracle
		if o < 0 || o > len(text) {
			c.Violate("skipAction leaves the offset outside the input", fmt.Sprintf("%q offset %d", text, o))
			continue
		}
		if want := 1 + strings.Count(text[:o], "\n"); line != want {
			c.Violate(fmt.Sprintf("skipAction: line = %d at offset %d, want %d", line, o, want), fmt.Sprintf("input %q entered at %d", text, off))
		}
		if v.SkipFix {
			if want := 1 + strings.LastIndexByte(text[:o], '\n'); lo != want {
				c.Violate(fmt.Sprintf("skipAction: lineOffset = %d at offset %d, want %d", lo, o, want), fmt.Sprintf("input %q entered at %d", text, off))
			}
		}
		if ok {
			c.Count("skipAction: closed")
		} else {
			c.Count("skipAction: unterminated")
		}
	}
}

func c12Generated(c *Ctx, v lexVariant) {
	r := c.Rng
	nG := c.N(10, 120)
	b, err := newLexBatch()
	if err != nil {
		c.Notes = append(c.Notes, "cannot create scratch dir: "+err.Error())
		return
	}
	defer b.Close()
	type item struct {
		g      *lexGram
		gp     *GenParser
		inputs []lexReq
	}
	var items []*item
	// ---- probes: rules that accept the empty text / {eoi} under a repetition ----
	var probeReqs []lexReq
	var probeDesc []string
	emptyPats := []string{"()", "a{0}", "(a{0})", "()()", "(|)", "(b{0})?", "b*", "(a|)", "b?"}
	for i, pat := range emptyPats {
		name := fmt.Sprintf("pe%d", i)
		src := fmt.Sprintf("language %s(go);\nlang = %q\npackage = \"gp/%s\"\n:: lexer\nws: /[ ]+/ (space)\na: /a/\ne: /%s/\n", name, name, name, pat)
		gp := compileTM(name, src, TMOpts{})
		if gp.Err != nil {
			c.Count("empty-text pattern rejected by the compiler")
			continue
		}
		if gp.G.Lexer == nil || gp.G.Lexer.Tables == nil {
			continue
		}
		b.Add(gp)
		probeReqs = append(probeReqs, lexReq{name, 0, "a b"})
		probeDesc = append(probeDesc, "C12-empty-pattern grammar: ws: /[ ]+/ (space); a: /a/; e: /"+pat+"/  (compiles without `accepts empty text`)")
		_, sp := spaceSet(gp.G)
		c.Case(lexProto(v, gp.G.Options, gp.G.Lexer, sp, nil), fmt.Sprintf("wf=0 map=1 eoif=%s", b2s(eoiFinalGo(gp.G.Lexer.Tables))), "")
	}
	eoiLoop := lexEoiLoopDefect()
	c.Extra["eoi_loop_probe_static"] = eoiLoop
	if gp := compileTM("pq", lexEoiLoopProbe, TMOpts{}); gp.Err == nil && gp.G.Lexer != nil && gp.G.Lexer.Tables != nil {
		b.Add(gp)
		probeReqs = append(probeReqs, lexReq{"pq", 0, "ab"})
		probeDesc = append(probeDesc, "C12-eoi-loop grammar: ws: /[ ]+/ (space); a: /a/; q: /b{eoi}+/")
		if eoiLoop {
			_, sp := spaceSet(gp.G)
			c.Case(lexProto(v, gp.G.Options, gp.G.Lexer, sp, nil), "wf=0 map=1 eoif=0", "")
		}
	}
	for k := 0; k < nG; k++ {
		name := fmt.Sprintf("h%d", k)
		g := genLexGram(r, name, true)
		gp := compileTM(name, g.TM(r.Intn(2) == 0), TMOpts{})
		if gp.Err != nil || gp.G.Lexer == nil || gp.G.Lexer.Tables == nil {
			c.Count("generated grammar rejected")
			continue
		}
		b.Add(gp)
		items = append(items, &item{g: g, gp: gp})
	}
	if len(items) == 0 {
		return
	}
	if err := b.Build(); err != nil {
		c.Violate("generated lexers do not build: "+err.Error(), items[0].gp.TM)
		return
	}
	// the probe lexers run one by one with a deadline: a lexer that does not return is a finding
	for i, rq := range probeReqs {
		out := b.RunTimeout([]lexReq{rq}, 10*time.Second)[0]
		seq, ok := parseSeq(out)
		switch {
		case out == "crash":
			c.Violate("the generated Next() does not return: at the end of the input the state reached after `b` loops on the EOI column (an {eoi} under a repetition is an ordinary consumable symbol of the DFA)",
				fmt.Sprintf("%s  input %q: no answer within 10s", probeDesc[i], rq.Text))
		case !ok:
			c.Violate("probe lexer failed: "+out, probeDesc[i])
		default:
			var obs []lexObs
			for _, t := range seq {
				obs = append(obs, lexObs{t, 0})
			}
			if msg := checkContract(rq.Text, obs, contractCfg{line: true, bomSkipped: true}); msg != "" {
				c.Violate("a rule whose pattern matches the empty text is compiled into the lexer (lex/compile.go addPattern only inspects the links of the first instruction): "+msg,
					fmt.Sprintf("%s  input %q tokens %s", probeDesc[i], rq.Text, out))
			}
		}
	}
	nIn := c.N(40, 80)
	var reqs []lexReq
	for _, it := range items {
		for i := 0; i < nIn; i++ {
			st := 0
			if it.g.NState > 1 {
				st = r.Intn(it.g.NState)
			}
			var text string
			if r.Intn(3) == 0 {
				text = randBytes(r)
			} else {
				text = genLexText(r, it.g.Frags)
			}
			it.inputs = append(it.inputs, lexReq{it.gp.Name, st, text})
		}
		reqs = append(reqs, it.inputs...)
	}
	outs := b.Run(reqs)
	pos := 0
	for _, it := range items {
		lx := it.gp.G.Lexer
		o := it.gp.G.Options
		spaceM, spaces := spaceSet(it.gp.G)
		my := outs[pos : pos+len(it.inputs)]
		pos += len(it.inputs)
		var ins []string
		for _, in := range it.inputs {
			ins = append(ins, fmt.Sprintf("%d:%s", in.State, hexs([]byte(in.Text))))
		}
		key := ""
		if len(lx.Tables.Backtrack) > 0 || len(lx.StartConditions) > 1 {
			key = it.gp.TM
		}
		c.Case(lexProto(v, o, lx, spaces, nil)+" "+strings.Join(ins, " "),
			fmt.Sprintf("wf=1 map=1 eoif=%s %s", b2s(eoiFinalGo(lx.Tables)), strings.Join(my, "|")), key)
		cfg := contractCfg{line: o.TokenLine, col: o.TokenColumn, colAfterNL: v.ColFix, bomSkipped: o.SkipByteOrderMark, spaceAct: spaceM}
		if (lx.RuleToken != nil || len(lx.Tables.Backtrack) == 0) && eoiFinalGo(lx.Tables) {
			t := lx.Tables
			multi := len(lx.StartConditions) > 1
			inv := 0
			if lx.RuleToken == nil {
				inv = lx.InvalidToken
			}
			cfg.gapScan = func(state int, text string) (int, int) {
				if !multi {
					state = 0
				}
				size, act := t.Scan(state, text)
				if act == inv {
					return 0, -1
				}
				return size, act
			}
			c.Count("generated: gaps checked with lex.Tables.Scan")
		}
		for i, in := range it.inputs {
			seq, ok := parseSeq(my[i])
			if !ok {
				c.Violate("generated lexer failed: "+my[i], fmt.Sprintf("grammar:\n%s\nstate=%d input=%q", it.gp.TM, in.State, in.Text))
				continue
			}
			var obs []lexObs
			for _, t := range seq {
				obs = append(obs, lexObs{t, in.State})
			}
			if msg := checkContract(in.Text, obs, cfg); msg != "" {
				c.Violate("generated lexer: "+msg, fmt.Sprintf("grammar:\n%s\nstate=%d input=%q tokens %s", it.gp.TM, in.State, in.Text, my[i]))
			}
		}
		c.Count("generated lexers")
	}
}
