package main

// C21 end-to-end runner: builds the generated `ast` packages (eventFields + eventAST) of a batch of
// grammars into ONE binary whose per-package code parses a text with the real ast.Parse, walks the whole
// tree and calls EVERY typed accessor of EVERY node (calls generated from Parser.Types, each under
// recover). The output is a canonical description of the tree and of what each accessor returned
// (indices into the parent's child list), judged in c21.go against Parser.Types.

import (
	"bufio"
	"bytes"
	"context"
	"fmt"
	"os"
	"os/exec"
	"path/filepath"
	"strings"
	"time"
)

type astBatch struct {
	Dir     string
	Parsers []*GenParser
	bin     string
}

func newAstBatch() (*astBatch, error) {
	dir, err := os.MkdirTemp("", "tmverif-ast-")
	if err != nil {
		return nil, err
	}
	return &astBatch{Dir: dir}, nil
}

func (b *astBatch) Close() { os.RemoveAll(b.Dir) }

func (b *astBatch) Add(gp *GenParser) { b.Parsers = append(b.Parsers, gp) }

// c21Title mirrors the template pipeline `title .Name | escape_reserved` for field names produced by
// the generator of this check (never Go keywords).
func c21Title(s string) string { return strings.Title(s) }

// c21VerifParseSrc: `VerifParse(input, content)` inside the scratch copy of the generated ast package: the
// body of the generated Parse with Parse<Input> of the chosen user input (ast.Parse only knows the first).
func c21VerifParseSrc(gp *GenParser) string {
	var sb strings.Builder
	p := gp.G.Parser
	fmt.Fprintf(&sb, "package ast\n\nimport p \"gp/%s\"\n\nfunc VerifParse(input int, content string) (*Tree, error) {\n", gp.Name)
	sb.WriteString("\tb := newBuilder(\"\", content)\n\tvar l p.Lexer\n\tl.Init(content)\n\tvar ps p.Parser\n\tps.Init(b.addNode)\n\tvar err error\n\tswitch input {\n")
	multi := 0
	for _, in := range p.Inputs {
		if !in.Synthetic {
			multi++
		}
	}
	k := 0
	for _, in := range p.Inputs {
		if in.Synthetic {
			continue
		}
		method := "Parse"
		if multi > 1 {
			method += gp.G.Syms[p.NumTerminals+in.Nonterm].ID
		}
		fmt.Fprintf(&sb, "\tcase %d:\n\t\terr = ps.%s(&l)\n", k, method)
		k++
	}
	sb.WriteString("\tdefault:\n\t\tpanic(\"no such input\")\n\t}\n\tif err != nil {\n\t\treturn nil, err\n\t}\n\treturn b.build()\n}\n")
	return sb.String()
}

func c21RunnerSrc(gp *GenParser) string {
	var sb strings.Builder
	name := gp.Name
	base := strings.Title(name) + "Node"
	types := gp.G.Parser.Types
	fmt.Fprintf(&sb, "func run_%s(input int, text string) (out string) {\n", name)
	sb.WriteString("\tvar sb strings.Builder\n\tdefer func() { if r := recover(); r != nil { out = \"outerpanic \" + sb.String() } }()\n")
	// input 0 goes through the generated ast.Parse; further user inputs through VerifParse (a file this
	// harness adds to its scratch copy of the generated package: the generated builder + Parse<Input>)
	fmt.Fprintf(&sb, "\tvar tree *ast_%s.Tree\n\tvar err error\n\tif input == 0 {\n\t\ttree, err = ast_%s.Parse(\"\", text)\n\t} else {\n\t\ttree, err = ast_%s.VerifParse(input, text)\n\t}\n", name, name, name)
	fmt.Fprintf(&sb, "\tif err != nil {\n\t\tif _, ok := err.(p_%s.SyntaxError); ok { return \"syntax\" }\n\t\treturn \"error:\" + strings.ReplaceAll(err.Error(), \" \", \"_\")\n\t}\n", name)
	fmt.Fprintf(&sb, "\tsb.WriteString(\"ok\")\n\twalk_%s(&sb, tree.Root())\n\treturn sb.String()\n}\n\n", name)

	fmt.Fprintf(&sb, "func walk_%s(sb *strings.Builder, n *ast_%s.Node) {\n", name, name)
	fmt.Fprintf(&sb, "\tkids := n.Children(sel_%s.Any)\n", name)
	sb.WriteString("\tfmt.Fprintf(sb, \" %d|%d|%d|\", int(n.Type()), n.Offset(), n.Endoffset())\n")
	sb.WriteString("\tif len(kids) == 0 { sb.WriteString(\"-\") }\n")
	sb.WriteString("\tfor i, k := range kids { if i > 0 { sb.WriteString(\",\") }; fmt.Fprintf(sb, \"%d\", int(k.Type())) }\n")
	sb.WriteString("\tsb.WriteString(\"|\")\n")
	fmt.Fprintf(&sb, "\tidx := func(x *ast_%s.Node) string {\n\t\tif x == nil { return \"-\" }\n\t\tfor i, k := range kids { if k == x { return strconv.Itoa(i) } }\n\t\treturn \"?\"\n\t}\n\t_ = idx\n", name)
	fmt.Fprintf(&sb, "\tfunc() {\n\t\tdefer func() { if r := recover(); r != nil { sb.WriteString(\"F=!;\") } }()\n\t\t_ = ast_%s.To%s(n)\n\t}()\n", name, base)
	sb.WriteString("\tswitch n.Type() {\n")
	for _, t := range types.RangeTypes {
		fmt.Fprintf(&sb, "\tcase p_%s.%s:\n", name, t.Name)
		if len(t.Fields) == 0 {
			continue
		}
		fmt.Fprintf(&sb, "\t\tw := ast_%s.%s{Node: n}\n", name, t.Name)
		for _, f := range t.Fields {
			m := c21Title(f.Name)
			fmt.Fprintf(&sb, "\t\tfunc() {\n\t\t\tdefer func() { if r := recover(); r != nil { sb.WriteString(\"%s=!;\") } }()\n", m)
			switch {
			case f.IsList:
				fmt.Fprintf(&sb, "\t\t\trs := w.%s()\n\t\t\tvar ps []string\n\t\t\tfor _, r := range rs { ps = append(ps, idx(r.%s())) }\n", m, base)
				fmt.Fprintf(&sb, "\t\t\tif len(ps) == 0 { ps = []string{\".\"} }\n\t\t\tsb.WriteString(\"%s=\" + strings.Join(ps, \",\") + \";\")\n", m)
			case !f.IsRequired:
				fmt.Fprintf(&sb, "\t\t\tr, ok := w.%s()\n\t\t\tfl := \"~\"\n\t\t\tif ok { fl = \"+\" }\n\t\t\tsb.WriteString(\"%s=\" + idx(r.%s()) + fl + \";\")\n", m, m, base)
			default:
				fmt.Fprintf(&sb, "\t\t\tr := w.%s()\n\t\t\tsb.WriteString(\"%s=\" + idx(r.%s()) + \";\")\n", m, m, base)
			}
			sb.WriteString("\t\t}()\n")
		}
	}
	sb.WriteString("\t}\n")
	fmt.Fprintf(&sb, "\tfor _, k := range kids { walk_%s(sb, k) }\n}\n\n", name)
	return sb.String()
}

func (b *astBatch) Build() error {
	if err := os.WriteFile(filepath.Join(b.Dir, "go.mod"), []byte("module gp\n\ngo 1.25\n"), 0o644); err != nil {
		return err
	}
	var main strings.Builder
	main.WriteString("package main\n\nimport (\n\t\"bufio\"\n\t\"fmt\"\n\t\"os\"\n\t\"strconv\"\n\t\"strings\"\n")
	for _, gp := range b.Parsers {
		fmt.Fprintf(&main, "\tp_%s \"gp/%s\"\n\tast_%s \"gp/%s/ast\"\n\tsel_%s \"gp/%s/selector\"\n", gp.Name, gp.Name, gp.Name, gp.Name, gp.Name, gp.Name)
	}
	main.WriteString(")\n\nvar _ = strconv.Itoa\n\n")
	for _, gp := range b.Parsers {
		for fn, content := range gp.Files {
			p := filepath.Join(b.Dir, gp.Name, fn)
			if err := os.MkdirAll(filepath.Dir(p), 0o755); err != nil {
				return err
			}
			if err := os.WriteFile(p, []byte(content), 0o644); err != nil {
				return err
			}
		}
		vp := filepath.Join(b.Dir, gp.Name, "ast", "verif_parse.go")
		if err := os.WriteFile(vp, []byte(c21VerifParseSrc(gp)), 0o644); err != nil {
			return err
		}
		main.WriteString(c21RunnerSrc(gp))
	}
	main.WriteString("var runners = map[string]func(int, string) string{\n")
	for _, gp := range b.Parsers {
		fmt.Fprintf(&main, "\t%q: run_%s,\n", gp.Name, gp.Name)
	}
	main.WriteString("}\n\n")
	main.WriteString(`func main() {
	sc := bufio.NewScanner(os.Stdin)
	sc.Buffer(make([]byte, 1<<20), 1<<26)
	w := bufio.NewWriter(os.Stdout)
	defer w.Flush()
	for sc.Scan() {
		parts := strings.SplitN(sc.Text(), "\t", 3)
		if len(parts) != 3 {
			fmt.Fprintln(w, "badline")
			continue
		}
		input, _ := strconv.Atoi(parts[1])
		text, err := strconv.Unquote(parts[2])
		if err != nil {
			fmt.Fprintln(w, "badquote")
			continue
		}
		r, ok := runners[parts[0]]
		if !ok {
			fmt.Fprintln(w, "norunner")
			continue
		}
		fmt.Fprintln(w, r(input, text))
		w.Flush()
	}
}
`)
	if err := os.WriteFile(filepath.Join(b.Dir, "main.go"), []byte(main.String()), 0o644); err != nil {
		return err
	}
	b.bin = filepath.Join(b.Dir, "runner")
	cmd := exec.Command("go", "build", "-o", b.bin, ".")
	cmd.Dir = b.Dir
	cmd.Env = append(os.Environ(), "GOFLAGS=-mod=mod", "GOPROXY=off")
	out, err := cmd.CombinedOutput()
	if err != nil {
		return fmt.Errorf("go build of generated ast packages failed: %v\n%s", err, tail(string(out), 3000))
	}
	return nil
}

type astReq struct {
	Parser string
	Text   string
	Input  int // index among the user (non-synthetic) inputs
}

func (b *astBatch) Run(reqs []astReq) []string {
	var in bytes.Buffer
	for _, r := range reqs {
		fmt.Fprintf(&in, "%s\t%d\t%s\n", r.Parser, r.Input, strconvQuote(r.Text))
	}
	ctx, cancel := context.WithTimeout(context.Background(), 10*time.Minute)
	defer cancel()
	cmd := exec.CommandContext(ctx, b.bin)
	cmd.Stdin = &in
	cmd.Env = append(os.Environ(), "GOMEMLIMIT=2GiB")
	out, _ := cmd.Output()
	res := make([]string, 0, len(reqs))
	sc := bufio.NewScanner(bytes.NewReader(out))
	sc.Buffer(make([]byte, 1<<20), 1<<26)
	for sc.Scan() {
		res = append(res, sc.Text())
	}
	for len(res) < len(reqs) {
		res = append(res, "crash")
	}
	return res
}
