package main

// C18 — generation is deterministic. Empirical side of the Mode F + M check (DESIGN.md §4 C18):
//
//  1. regenerates the five shipped grammars with gen.GenerateFile and compares with the committed files
//     (this clause is part of the property);
//  2. for the shipped grammars, the other .tm files of the repository, mutations of them and random
//     feature-rich grammars: generates several times in this process and in child processes
//     (`tmh C18-child <file>…`, GOMAXPROCS=1 and 16) and compares the digests of everything passed to
//     Writer.Write (names, order, contents); a differing file is a violation (grammar + file name);
//  3. checks on every compiled grammar the data invariants that two order-independence lemmas assume
//     (ActionVars.Remap injective; ArgRefs[k].Pos == k);
//  4. runs tools/factgen on the tree under test and asks the Lean side whether every map-range site is
//     classified (the same question is a kernel-checked obligation, `C18_all_sites_covered`; this keeps
//     the harness useful when that obligation no longer builds).
//
// The search for a failing input when an obligation breaks is exactly (2): Go randomises the start of
// every map iteration, so each repetition is an independent draw of all map orders.

import (
	"bytes"
	"context"
	"crypto/sha256"
	"fmt"
	"math/rand"
	"os"
	"os/exec"
	"path/filepath"
	"regexp"
	"runtime"
	"sort"
	"strings"
	"sync"

	"github.com/inspirer/textmapper/compiler"
	"github.com/inspirer/textmapper/gen"
	"github.com/inspirer/textmapper/grammar"
)

func init() {
	props["C18"] = c18
	if len(os.Args) >= 3 && os.Args[1] == "C18-child" {
		c18Child(os.Args[2:])
		os.Exit(0)
	}
}

var c18Shipped = []string{
	"parsers/json/json.tm",
	"parsers/simple/simple.tm",
	"parsers/test/test.tm",
	"parsers/tm/textmapper.tm",
	"parsers/js/js.tm",
}

// other grammars of the repository (have committed outputs too, but are not part of the statement)
var c18Extra = []string{
	"testing/ts/json/json.tm",
	"testing/cpp/json/json.tm",
	"testing/cpp/json_flex/json.tm",
	"compiler/testdata/model1.tm",
	"compiler/testdata/debug.tm",
	"compiler/testdata/debug_conflicts.tm",
}

// c18Out records the Writer.Write calls of one generation.
type c18Out struct {
	files   []string
	content map[string]string
}

func (w *c18Out) Write(filename, content string) error {
	w.files = append(w.files, filename)
	w.content[filename] = content
	return nil
}

// c18Run is the observable result of one generation: per-file hashes in Write order, or an error.
type c18Run struct {
	Files  []string // in Write order
	Hash   map[string]string
	Err    string // non-empty: generation failed (nothing compared but the fact)
	Digest string // hash of everything above
}

func c18Digest(w *c18Out, err error) c18Run {
	r := c18Run{Hash: map[string]string{}}
	h := sha256.New()
	if err != nil {
		// Which of several errors comes first may depend on map order (outside the property): keep the fact only.
		r.Err = "error"
		fmt.Fprintf(h, "error\n")
	}
	for _, f := range w.files {
		fh := fmt.Sprintf("%x", sha256.Sum256([]byte(w.content[f])))[:16]
		r.Files = append(r.Files, f)
		r.Hash[f] = fh
		fmt.Fprintf(h, "%s %s\n", f, fh)
	}
	r.Digest = fmt.Sprintf("%x", h.Sum(nil))[:16]
	return r
}

func c18GenerateFile(path string) (r c18Run, w *c18Out) {
	w = &c18Out{content: map[string]string{}}
	defer func() {
		if p := recover(); p != nil {
			r = c18Run{Err: "panic", Digest: "panic", Hash: map[string]string{}}
		}
	}()
	_, err := gen.GenerateFile(context.Background(), path, w, gen.Options{})
	return c18Digest(w, err), w
}

// c18CompileGenerate does what gen.GenerateFile does but keeps the compiled grammar for the invariants.
func c18CompileGenerate(path string) (r c18Run, g *grammar.Grammar) {
	w := &c18Out{content: map[string]string{}}
	defer func() {
		if p := recover(); p != nil {
			r = c18Run{Err: "panic", Digest: "panic", Hash: map[string]string{}}
		}
	}()
	content, err := os.ReadFile(path)
	if err != nil {
		return c18Digest(w, err), nil
	}
	g, err = compiler.Compile(context.Background(), path, string(content), compiler.Params{})
	if err != nil {
		return c18Digest(w, err), nil
	}
	if g.TargetLang == "" {
		return c18Digest(w, fmt.Errorf("no target language")), g
	}
	err = gen.Generate(g, w, gen.Options{})
	return c18Digest(w, err), g
}

// c18Child: `tmh C18-child <grammar>…` generates the grammars in the given order in this (fresh) process and
// prints the run of the LAST one in a line format parsed by c18ParseChild. One argument: a fresh-process run;
// several: the last grammar with the others as process history.
func c18Child(paths []string) {
	for _, p := range paths[:len(paths)-1] {
		c18GenerateFile(p)
	}
	path := paths[len(paths)-1]
	r, _ := c18GenerateFile(path)
	if r.Err != "" && os.Getenv("C18_DUMP") != "" {
		_, err := gen.GenerateFile(context.Background(), path, &c18Out{content: map[string]string{}}, gen.Options{})
		fmt.Fprintln(os.Stderr, err)
	}
	fmt.Printf("digest %s %s\n", r.Digest, r.Err)
	for _, f := range r.Files {
		fmt.Printf("file %s %s\n", r.Hash[f], f)
	}
}

func c18ParseChild(out string) c18Run {
	r := c18Run{Hash: map[string]string{}}
	for _, line := range strings.Split(out, "\n") {
		f := strings.SplitN(line, " ", 3)
		switch {
		case len(f) >= 2 && f[0] == "digest":
			r.Digest = f[1]
			if len(f) == 3 {
				r.Err = f[2]
			}
		case len(f) == 3 && f[0] == "file":
			r.Files = append(r.Files, f[2])
			r.Hash[f[2]] = f[1]
		}
	}
	if r.Digest == "" {
		r.Digest, r.Err = "child-failed", "child-failed"
	}
	return r
}

type c18Gram struct {
	Name  string // token without blanks
	Path  string
	Text  string // "" for files of the repository
	Kind  string // shipped / repo / mutated / random / witness
	Heavy bool   // js.tm: several seconds per generation
}

var c18NameRE = regexp.MustCompile(`[^A-Za-z0-9_./-]`)

func c18(c *Ctx) {
	repo := os.Getenv("VERIF_REPO")
	if repo == "" {
		repo = "/repo"
	}
	c.Rule = "grammars: the 5 shipped grammars (regenerated with gen.GenerateFile and compared byte-for-byte with the committed files), " +
		"the other .tm files of the repository (ts and cc targets, compiler testdata), textual mutations of them (consistent symbol renames, shuffled keyword rules, toggled options) " +
		"and random feature grammars for go/ts/cc (class rule + keywords, aliases and named references in semantic actions, typed symbols, lists with separators, optionals and opt-suffix instantiation, nested choices with mid-rule actions, " +
		"precedence, several inputs, lalr(2) conflicts resolved by the lookahead trie, state markers incl. .greedy, token sets, template flags); mutated/random grammars that do not compile are dropped. " +
		"Dedicated shapes: cc grammars with 2-6 distinct implicit casts of default actions (flexMode on/off); lalr(2) grammars with 2-4 reduce/reduce conflict groups in ONE state, each resolved at depth 2; rules whose mid-rule actions are preceded by >= 2 symbols and followed by optionals/choices (go and cc); nodePrefix variants. " +
		"Each grammar: generated k times in this process and in child processes with GOMAXPROCS=1 and 16 (every run draws fresh random map orders), digests of all Writer.Write calls (names, order, content) compared; " +
		"hist cases: grammar B generated after grammar A in ONE fresh process vs B alone in a fresh process (nodePrefix variants and consecutive grammars of one target language, both directions; also after a FAILED generation: a grammar that compiles but fails while the templates are rendered); cli cases: cmd/textmapper built from the tree under test, revision 2 of a grammar (same-length edit) generated over the files of revision 1 vs into an empty directory; reduce-ties: optimizeTables + defaultReduce with states whose reductions tie; cwd cases: the same content as relative path g.tm generated from two different working directories; " +
		"non-trivial = a grammar that generated at least one file; distinct by grammar text. inv cases: Remap injective / ArgRefs[k].Pos==k on the compiled grammars; site cases: inventory of tools/factgen on the tree under test vs the Lean classification. " +
		"The class of the fixed finding C18-opt-alias-collision (aliasIncludesOptSuffix = false with a rule naming both `x` and `x<optsuffix>`) is generated: the witness grammar (40 in-process + 24 child runs) and about a third of the random grammars."

	tmp, err := os.MkdirTemp("", "tmh-c18-")
	must(err)
	defer os.RemoveAll(tmp)

	// ---- 4. site inventory of the tree under test
	c18Sites(c, repo, tmp)

	// ---- grammar pool
	var pool []c18Gram
	for _, rel := range c18Shipped {
		pool = append(pool, c18Gram{Name: rel, Path: filepath.Join(repo, rel), Kind: "shipped", Heavy: strings.Contains(rel, "/js/")})
	}
	for _, rel := range c18Extra {
		if _, err := os.Stat(filepath.Join(repo, rel)); err == nil {
			pool = append(pool, c18Gram{Name: rel, Path: filepath.Join(repo, rel), Kind: "repo"})
		}
	}
	self, err := os.Executable()
	must(err)
	// Candidates are first generated in a child process: the compiler may log.Fatal on odd input (C22's
	// subject), which must not take the harness down.
	addText := func(kind, name, text string) bool {
		p := filepath.Join(tmp, name+".tm")
		must(os.WriteFile(p, []byte(text), 0o644))
		cmd := exec.Command(self, "C18-child", p)
		var out, errb bytes.Buffer
		cmd.Stdout, cmd.Stderr = &out, &errb
		runErr := cmd.Run()
		r := c18ParseChild(out.String())
		if runErr != nil || r.Err != "" || len(r.Files) == 0 {
			c.Count(kind + "-rejected")
			if runErr != nil {
				c.Count(kind + "-crashed-generator")
				if len(c.Notes) < 4 {
					msg := strings.TrimSpace(errb.String())
					if len(msg) > 200 {
						msg = msg[:200]
					}
					c.Notes = append(c.Notes, fmt.Sprintf("candidate grammar %s (%s) made the generator exit abnormally (%v: %s); dropped here, see C22", name, kind, runErr, msg))
				}
			}
			if d := os.Getenv("C18_DUMP"); d != "" {
				os.WriteFile(filepath.Join(d, fmt.Sprintf("%s-%d.tm", name, c.Dist[kind+"-rejected"])), []byte(fmt.Sprintf("# %v %s\n%s", runErr, strings.TrimSpace(errb.String()), text)), 0o644)
			}
			return false
		}
		pool = append(pool, c18Gram{Name: name, Path: p, Text: text, Kind: kind})
		return true
	}
	nMut, nRand := c.N(8, 40), c.N(14, 80)
	var pairs [][2]int // history pairs (a, b): b is generated after a in one fresh process
	mutSources := []string{"parsers/test/test.tm", "parsers/json/json.tm", "parsers/simple/simple.tm", "testing/ts/json/json.tm", "testing/cpp/json/json.tm", "parsers/tm/textmapper.tm"}
	for i, tries := 0, 0; i < nMut && tries < 4*nMut; tries++ {
		src := mutSources[c.Rng.Intn(len(mutSources))]
		b, err := os.ReadFile(filepath.Join(repo, src))
		if err != nil {
			continue
		}
		text := c18Mutate(c.Rng, string(b))
		if addText("mutated", fmt.Sprintf("mut%d-%s", i, strings.TrimSuffix(filepath.Base(src), ".tm")), text) {
			i++
		}
	}
	for i, tries := 0, 0; i < nRand && tries < 4*nRand; tries++ {
		text, feats := c18RandGrammar(c.Rng, fmt.Sprintf("g%d", i))
		if addText("random", fmt.Sprintf("rand%d", i), text) {
			for _, f := range feats {
				c.Count("feature-" + f)
			}
			i++
		}
	}
	// C++ grammars with several distinct implicit casts of default actions (static_assert list), flexMode on/off
	for i, tries := 0, 0; i < c.N(5, 16) && tries < 4*c.N(5, 16); tries++ {
		if addText("cc-casts", fmt.Sprintf("casts%d", i), c18CastGrammar(c.Rng, fmt.Sprintf("c%d", i))) {
			i++
		}
	}
	// lalr(2) grammars with several reduce/reduce conflict groups in ONE state, each resolved at depth 2
	// (one lookahead trie per group is appended to the tables, in the order of the state's conflict list)
	for i, tries := 0, 0; i < c.N(4, 12) && tries < 4*c.N(4, 12); tries++ {
		if addText("la2-groups", fmt.Sprintf("groups%d", i), c18GroupsGrammar(c.Rng, fmt.Sprintf("q%d", i))) {
			i++
		}
	}
	// mid-rule actions preceded by >= 2 symbols and followed by optionals / choices, several per rule: the
	// expansions of one rule share (or not) the extracted mid-rule nonterminal via the ActionVars digest
	for i, tries := 0, 0; i < c.N(5, 16) && tries < 4*c.N(5, 16); tries++ {
		if addText("midrule", fmt.Sprintf("midrule%d", i), c18MidruleGrammar(c.Rng, fmt.Sprintf("m%d", i))) {
			i++
		}
	}
	// default-reduction ties: optimizeTables + defaultReduce and a state where several reductions are taken
	// on the same number of terminals
	for i, tries := 0, 0; i < c.N(4, 12) && tries < 4*c.N(4, 12); tries++ {
		if addText("reduce-ties", fmt.Sprintf("ties%d", i), c18TieGrammar(c.Rng, fmt.Sprintf("t%d", i))) {
			i++
		}
	}
	// variants: the same grammar with another nodePrefix (same node names, different rendered ids)
	nv := 0
	for gi := range pool {
		g := pool[gi]
		if g.Kind != "random" || nv >= c.N(4, 12) {
			continue
		}
		if addText("variant", "var-"+g.Name, c18PrefixVariant(g.Text)) {
			pairs = append(pairs, [2]int{gi, len(pool) - 1}, [2]int{len(pool) - 1, gi})
			nv++
		}
	}
	// witness of the fixed finding C18-opt-alias-collision: must be deterministic now
	must(os.WriteFile(filepath.Join(tmp, "witness.tm"), []byte(c18Witness), 0o644))
	pool = append(pool, c18Gram{Name: "witness-opt-alias", Path: filepath.Join(tmp, "witness.tm"), Text: c18Witness, Kind: "witness"})

	// ---- 2. children first (they run in parallel with the in-process work below)
	// history pairs: consecutive grammars of one target language (random order), both directions
	byLang := map[string][]int{}
	for gi, g := range pool {
		if !g.Heavy {
			byLang[c18Lang(g.Path)] = append(byLang[c18Lang(g.Path)], gi)
		}
	}
	for _, lang := range []string{"go", "ts", "cc"} {
		l := byLang[lang]
		c.Rng.Shuffle(len(l), func(a, b int) { l[a], l[b] = l[b], l[a] })
		for k := 0; k+1 < len(l) && k < c.N(10, 40); k++ {
			pairs = append(pairs, [2]int{l[k], l[k+1]}, [2]int{l[k+1], l[k]})
		}
	}
	type childJob struct {
		g     int
		after int    // >= 0: history job, grammar `after` is generated first in the same process
		fail  int    // >= 0: history job whose predecessor is failing grammar c18Failing[fail] (fails while rendering)
		dir   string // != "": working-directory job, the grammar is `g.tm` in this directory, given as a relative path
		procs int
		out   c18Run
	}
	var jobs []*childJob
	for _, pr := range pairs {
		jobs = append(jobs, &childJob{g: pr[1], after: pr[0], fail: -1, procs: 1})
	}
	// history with a FAILED generation first: grammars that compile but fail while the templates are rendered
	// (after part of a file has been produced), followed by a good grammar in the same process
	var failPaths []string
	for i, text := range c18Failing {
		fp := filepath.Join(tmp, fmt.Sprintf("failing%d.tm", i))
		must(os.WriteFile(fp, []byte(text), 0o644))
		failPaths = append(failPaths, fp)
	}
	{
		var cand []int
		for gi, g := range pool {
			if !g.Heavy {
				cand = append(cand, gi)
			}
		}
		c.Rng.Shuffle(len(cand), func(a, b int) { cand[a], cand[b] = cand[b], cand[a] })
		for k := 0; k < len(cand) && k < c.N(12, 40); k++ {
			jobs = append(jobs, &childJob{g: cand[k], after: -1, fail: k % len(c18Failing), procs: 1})
		}
	}
	// working directory: the same relative path `g.tm` (same content) generated from two different directories
	for gi, g := range pool {
		if g.Heavy {
			continue
		}
		content, err := os.ReadFile(g.Path)
		if err != nil {
			continue
		}
		for _, d := range []string{"wd-a", "wd-another-longer-name/nested"} {
			dir := filepath.Join(tmp, d, fmt.Sprint(gi))
			must(os.MkdirAll(dir, 0o755))
			must(os.WriteFile(filepath.Join(dir, "g.tm"), content, 0o644))
			jobs = append(jobs, &childJob{g: gi, after: -1, fail: -1, dir: dir, procs: 1})
		}
	}
	for gi, g := range pool {
		n := c.N(2, 4)
		if g.Heavy {
			n = c.N(1, 2)
		}
		if g.Kind == "witness" {
			n = 12
		}
		for _, procs := range []int{1, 16} {
			for k := 0; k < n; k++ {
				jobs = append(jobs, &childJob{g: gi, after: -1, fail: -1, procs: procs})
			}
		}
	}
	workers := runtime.NumCPU() / 2
	if workers < 2 {
		workers = 2
	}
	if workers > 8 {
		workers = 8
	}
	var wg sync.WaitGroup
	ch := make(chan *childJob)
	for i := 0; i < workers; i++ {
		wg.Add(1)
		go func() {
			defer wg.Done()
			for j := range ch {
				args := []string{"C18-child"}
				if j.after >= 0 {
					args = append(args, pool[j.after].Path)
				}
				if j.fail >= 0 {
					args = append(args, failPaths[j.fail])
				}
				cmd := exec.Command(self, append(args, pool[j.g].Path)...)
				if j.dir != "" {
					cmd = exec.Command(self, "C18-child", "g.tm")
					cmd.Dir = j.dir
				}
				cmd.Env = append(os.Environ(), fmt.Sprintf("GOMAXPROCS=%d", j.procs))
				var out bytes.Buffer
				cmd.Stdout = &out
				cmd.Run()
				j.out = c18ParseChild(out.String())
			}
		}()
	}
	done := make(chan struct{})
	go func() {
		for _, j := range jobs {
			ch <- j
		}
		close(ch)
		wg.Wait()
		close(done)
	}()

	// ---- 1./2./3. in-process runs
	type result struct {
		runs   []c18Run
		labels []string
	}
	results := make([]result, len(pool))
	for gi, g := range pool {
		res := &results[gi]
		// run 1: gen.GenerateFile (for shipped grammars also compared with the committed files)
		r1, w := c18GenerateFile(g.Path)
		res.runs, res.labels = append(res.runs, r1), append(res.labels, "in-process#1 (after every grammar generated earlier by this harness process)")
		if g.Kind == "shipped" {
			ndiff := 0
			var bad []string
			for _, f := range w.files {
				ondisk, err := os.ReadFile(filepath.Join(filepath.Dir(g.Path), f))
				if err != nil || string(ondisk) != w.content[f] {
					ndiff++
					bad = append(bad, f)
				}
			}
			if r1.Err != "" {
				ndiff++
				bad = append(bad, "<generation failed>")
			}
			c.Case(fmt.Sprintf("shipped %s %d %d", g.Name, len(w.files), ndiff), "match", "shipped:"+g.Name)
			c.Count("shipped-files-compared-" + fmt.Sprint(len(w.files) > 0))
			if ndiff > 0 {
				c.Violate(fmt.Sprintf("regenerating the shipped grammar %s does not reproduce the committed file(s) %s", g.Name, strings.Join(bad, ", ")), g.Name)
			}
		}
		// run 2: compiler.Compile + gen.Generate, grammar kept for the invariants
		r2, gr := c18CompileGenerate(g.Path)
		res.runs, res.labels = append(res.runs, r2), append(res.labels, "in-process#2")
		if gr != nil {
			c18Invariants(c, g.Name, gr)
		}
		extra := c.N(1, 3)
		if g.Heavy {
			extra = c.N(0, 1)
		}
		if g.Kind == "witness" {
			extra = 40
		}
		if g.Kind == "cc-casts" || g.Kind == "la2-groups" || g.Kind == "midrule" || g.Kind == "reduce-ties" {
			extra = 6
		}
		for k := 0; k < extra; k++ {
			r, _ := c18GenerateFile(g.Path)
			res.runs, res.labels = append(res.runs, r), append(res.labels, fmt.Sprintf("in-process#%d", k+3))
		}
	}
	<-done
	fresh := map[int]c18Run{} // first fresh-process run of each grammar
	wd := map[int][]c18Run{}
	for _, j := range jobs {
		if j.dir != "" {
			wd[j.g] = append(wd[j.g], j.out)
			continue
		}
		if j.after >= 0 || j.fail >= 0 {
			continue
		}
		res := &results[j.g]
		res.runs = append(res.runs, j.out)
		res.labels = append(res.labels, fmt.Sprintf("fresh child process (GOMAXPROCS=%d)", j.procs))
		if _, ok := fresh[j.g]; !ok {
			fresh[j.g] = j.out
		}
	}
	// ---- compare
	nondet := map[int]bool{}
	for gi, g := range pool {
		res := results[gi]
		var ds []string
		for _, r := range res.runs {
			ds = append(ds, r.Digest)
		}
		key := ""
		if len(res.runs[0].Files) > 0 {
			key = "gen:" + g.Name + ":" + fmt.Sprintf("%x", sha256.Sum256([]byte(g.Text+g.Path)))[:8]
		}
		c.Count("grammars-" + g.Kind)
		c.Count(fmt.Sprintf("runs-per-grammar-%d", len(res.runs)))
		name := c18NameRE.ReplaceAllString(g.Name, "_")
		c.Case("gen "+name+" "+strings.Join(ds, " "), "same", key)
		// locate the differing file for the report
		for k := 1; k < len(res.runs); k++ {
			if res.runs[k].Digest == res.runs[0].Digest {
				continue
			}
			what := c18Describe(res.runs[0], res.runs[k])
			nondet[gi] = true
			tag := ""
			if g.Kind == "witness" {
				tag = " [C18-opt-alias-collision]"
			}
			input := g.Name
			if g.Text != "" {
				input = g.Name + tag + "\n" + g.Text
			}
			c.Violate(fmt.Sprintf("non-deterministic generation%s: grammar %s, %s: %s vs %s", tag, g.Name, what, res.labels[0], res.labels[k]), input)
			break
		}
	}
	// ---- history dependence: B after A in one process vs B alone in a fresh process
	// ---- working-directory dependence
	for gi, g := range pool {
		runs := wd[gi]
		if len(runs) != 2 {
			continue
		}
		if nondet[gi] {
			continue // already reported
		}
		c.Count("cwd-pairs-" + c18Lang(g.Path))
		key := ""
		if len(runs[0].Files) > 0 {
			key = "cwd:" + g.Name
		}
		c.Case(fmt.Sprintf("cwd %s %s %s", c18NameRE.ReplaceAllString(g.Name, "_"), runs[0].Digest, runs[1].Digest), "same", key)
		if runs[0].Digest != runs[1].Digest {
			input := g.Name + " (file of the repository)"
			if g.Text != "" {
				input = g.Name + "\n" + g.Text
			}
			c.Violate(fmt.Sprintf("working-directory dependence: grammar %s given as the relative path g.tm and generated in two different directories (same content, same command line): %s",
				g.Name, c18Describe(runs[0], runs[1])), input)
		}
	}
	for _, j := range jobs {
		if j.fail < 0 || nondet[j.g] {
			continue
		}
		b := pool[j.g]
		fr := fresh[j.g]
		c.Count("history-after-failed-generation")
		c.Case(fmt.Sprintf("hist %s failing%d %s %s", c18NameRE.ReplaceAllString(b.Name, "_"), j.fail, fr.Digest, j.out.Digest), "same", fmt.Sprintf("histfail:%d>%s", j.fail, b.Name))
		if fr.Digest != j.out.Digest {
			show := b.Name + " (file of the repository)"
			if b.Text != "" {
				show = b.Name + "\n" + b.Text
			}
			c.Violate(fmt.Sprintf("history dependence: grammar %s generated after a FAILED generation (grammar failing%d: compiles, fails while rendering the templates) in one process differs from %s generated alone in a fresh process: %s",
				b.Name, j.fail, b.Name, c18Describe(fr, j.out)),
				fmt.Sprintf("history: first failing%d\n%s\n---- then %s", j.fail, c18Failing[j.fail], show))
		}
	}
	for _, j := range jobs {
		if j.after < 0 || j.dir != "" {
			continue
		}
		a, b := pool[j.after], pool[j.g]
		if nondet[j.g] {
			c.Count("history-pairs-skipped-nondeterministic")
			continue // already reported: the grammar differs between runs without any history
		}
		fr := fresh[j.g]
		c.Count("history-pairs-" + c18Lang(b.Path))
		c.Case(fmt.Sprintf("hist %s %s %s %s", c18NameRE.ReplaceAllString(b.Name, "_"), c18NameRE.ReplaceAllString(a.Name, "_"), fr.Digest, j.out.Digest),
			"same", "hist:"+a.Name+">"+b.Name)
		if fr.Digest != j.out.Digest {
			show := func(g c18Gram) string {
				if g.Text != "" {
					return g.Name + "\n" + g.Text
				}
				return g.Name + " (file of the repository)"
			}
			c.Violate(fmt.Sprintf("history dependence: grammar %s generated after grammar %s in one process differs from %s generated alone in a fresh process: %s",
				b.Name, a.Name, b.Name, c18Describe(fr, j.out)),
				"history: first "+show(a)+"\n---- then "+show(b))
		}
	}

	c18CLI(c, repo, tmp)
	c.Extra["grammars"] = len(pool)
	c.Extra["child_runs"] = len(jobs)
}

var c18LangRE = regexp.MustCompile(`(?m)^language\s+\w+\s*\(\s*(\w+)\s*\)`)

// c18Lang: target language of a grammar file ("" when unknown).
func c18Lang(path string) string {
	b, err := os.ReadFile(path)
	if err != nil {
		return ""
	}
	if m := c18LangRE.FindSubmatch(b); m != nil {
		return string(m[1])
	}
	return ""
}

var c18PrefixRE = regexp.MustCompile(`(?m)^nodePrefix = "[^"]*"\n`)

// c18PrefixVariant: the same grammar with another (or a first) nodePrefix.
func c18PrefixVariant(text string) string {
	if c18PrefixRE.MatchString(text) {
		return c18PrefixRE.ReplaceAllString(text, "")
	}
	return strings.Replace(text, "eventBased = true\n", "eventBased = true\nnodePrefix = \"Vr\"\n", 1)
}

// c18CastGrammar: a C++ grammar in which typed nonterminals forward the value of their first right-hand side
// symbol without a semantic action although the types differ: one implicit cast (static_assert in the
// generated parser) per distinct (rhs type, lhs type) pair; 2–6 of them.
func c18CastGrammar(r *rand.Rand, name string) string {
	flex := r.Intn(3) == 0
	var sb strings.Builder
	fmt.Fprintf(&sb, "language %s(cc);\n\nnamespace = %q\nincludeGuardPrefix = \"%s_\"\nfilenamePrefix = \"%s_\"\n", name, name, strings.ToUpper(name), name)
	if flex {
		sb.WriteString("flexMode = true\n")
	}
	if r.Intn(3) == 0 {
		sb.WriteString("eventBased = true\n")
	}
	if r.Intn(4) == 0 {
		sb.WriteString("optimizeTables = true\n")
	}
	ttypes := []string{"int", "std::string", "double", "bool", "char", "int64_t"}
	r.Shuffle(len(ttypes), func(a, b int) { ttypes[a], ttypes[b] = ttypes[b], ttypes[a] })
	nt := 3 + r.Intn(3)
	pats := []string{"/[0-9]+/", `/"[^"]*"/`, "/[a-z]+/", "/#[a-f]+/", "/@[A-Z]+/"}
	sb.WriteString("\n:: lexer\n\n")
	for i := 0; i < nt; i++ {
		if flex {
			fmt.Fprintf(&sb, "tok%d {%s}:\n", i, ttypes[i])
		} else {
			fmt.Fprintf(&sb, "tok%d {%s}: %s\n", i, ttypes[i], pats[i])
		}
	}
	sb.WriteString("';': /;/\n',': /,/\n")
	if flex {
		sb.WriteString("space: (space)\n")
	} else {
		sb.WriteString("space: /[ \\t\\r\\n]+/ (space)\n")
	}
	sb.WriteString("\n:: parser\n\n%input file;\n\nfile :\n    stmt\n  | file stmt\n;\n\n")
	// wrappers: each wraps 1-2 tokens; stmt wraps the wrappers
	nw := 2 + r.Intn(2)
	wtypes := []string{"Value", "Name", "Item", "Leaf"}
	var stmtAlts []string
	tok := 0
	for w := 0; w < nw; w++ {
		var alts []string
		for k := 0; k < 1+r.Intn(2) && tok < nt; k++ {
			alts = append(alts, fmt.Sprintf("tok%d", tok))
			tok++
		}
		if len(alts) == 0 {
			alts = append(alts, fmt.Sprintf("tok%d ','", r.Intn(nt)))
		}
		fmt.Fprintf(&sb, "wrap%d {%s} :\n    %s\n;\n\n", w, wtypes[w], strings.Join(alts, "\n  | "))
		stmtAlts = append(stmtAlts, fmt.Sprintf("wrap%d ';'", w))
	}
	r.Shuffle(len(stmtAlts), func(a, b int) { stmtAlts[a], stmtAlts[b] = stmtAlts[b], stmtAlts[a] })
	fmt.Fprintf(&sb, "stmt {Node} :\n    %s\n;\n", strings.Join(stmtAlts, "\n  | "))
	return sb.String()
}

// c18GroupsGrammar: `input: G0a 'g0' 'u0' | G0b 'g0' 'u1' | G1a 'g1' 'u0' | G1b 'g1' 'u1' ; Gxy: 'e' ;` — after
// 'e' one state reduces every Gxy; lookahead 'g0' leaves the rules of group 0 in conflict, 'g1' those of group 1:
// 2–4 distinct reduce/reduce groups in one state, each resolved by the second token.
func c18GroupsGrammar(r *rand.Rand, name string) string {
	groups := 2 + r.Intn(3)
	var sb strings.Builder
	fmt.Fprintf(&sb, "language %s(go);\n\npackage = \"example.com/%s\"\n", name, name)
	if r.Intn(2) == 0 {
		sb.WriteString("eventBased = true\n")
	}
	sb.WriteString("\n:: lexer\n\n'e': /e/\n'p': /p/\n")
	for g := 0; g < groups; g++ {
		fmt.Fprintf(&sb, "'g%d': /g%d/\n", g, g)
	}
	for u := 0; u < 3; u++ {
		fmt.Fprintf(&sb, "'u%d': /u%d/\n", u, u)
	}
	sb.WriteString("\n:: parser lalr(2)\n\n")
	var alts, nts []string
	prefix := ""
	if r.Intn(2) == 0 {
		prefix = "'p' "
	}
	for g := 0; g < groups; g++ {
		m := 2 + r.Intn(2)
		for k := 0; k < m; k++ {
			nt := fmt.Sprintf("G%dR%d", g, k)
			alts = append(alts, fmt.Sprintf("%s%s 'g%d' 'u%d'", prefix, nt, g, k))
			nts = append(nts, nt+": 'e' ;")
		}
	}
	r.Shuffle(len(alts), func(a, b int) { alts[a], alts[b] = alts[b], alts[a] })
	r.Shuffle(len(nts), func(a, b int) { nts[a], nts[b] = nts[b], nts[a] })
	fmt.Fprintf(&sb, "input:\n    %s\n;\n\n%s\n", strings.Join(alts, "\n  | "), strings.Join(nts, "\n"))
	return sb.String()
}

// c18MidruleGrammar: rules `kw t t [t] { mid } t? t { mid } (t | t) ';'`: every mid-rule action is preceded by
// at least two symbols and followed by an optional or a choice, so it ends up in several expanded rules.
func c18MidruleGrammar(r *rand.Rand, name string) string {
	lang := "go"
	if r.Intn(3) == 0 {
		lang = "cc"
	}
	var sb strings.Builder
	fmt.Fprintf(&sb, "language %s(%s);\n\n", name, lang)
	if lang == "go" {
		fmt.Fprintf(&sb, "package = \"example.com/%s\"\n", name)
		if r.Intn(2) == 0 {
			sb.WriteString("eventBased = true\n")
		}
	} else {
		fmt.Fprintf(&sb, "namespace = %q\nincludeGuardPrefix = \"%s_\"\nfilenamePrefix = \"%s_\"\n", name, strings.ToUpper(name), name)
	}
	sb.WriteString("\n:: lexer\n\n")
	toks := []string{"a", "b", "c", "d", "e", "f"}
	for _, t := range toks {
		fmt.Fprintf(&sb, "'%s': /%s/\n", t, t)
	}
	nalt := 1 + r.Intn(3)
	for k := 0; k < nalt; k++ {
		fmt.Fprintf(&sb, "'k%d': /k%d/\n", k, k)
	}
	sb.WriteString("';': /;/\nspace: /[ \\t\\r\\n]+/ (space)\n\n:: parser\n\n%input input;\n\n")
	t := func() string { return "'" + toks[r.Intn(len(toks))] + "'" }
	act := func(i int) string {
		if lang == "cc" {
			return fmt.Sprintf("{ mid(%d); }", i)
		}
		return fmt.Sprintf("{ println(\"mid %d\") }", i)
	}
	var alts []string
	for k := 0; k < nalt; k++ {
		var parts []string
		if nalt > 1 || r.Intn(2) == 0 {
			parts = append(parts, fmt.Sprintf("'k%d'", k))
		}
		nmid := 1 + r.Intn(2)
		for m := 0; m < nmid; m++ {
			for n := 0; n < 2+r.Intn(2); n++ {
				parts = append(parts, t())
			}
			parts = append(parts, act(m))
			x, y := t(), t()
			for y == x {
				y = t()
			}
			if r.Intn(2) == 0 {
				parts = append(parts, x+"?", y)
			} else {
				z := t()
				for z == x || z == y {
					z = t()
				}
				parts = append(parts, "("+x+" | "+y+")", z)
			}
		}
		parts = append(parts, "';'")
		alts = append(alts, strings.Join(parts, " "))
	}
	if r.Intn(2) == 0 {
		fmt.Fprintf(&sb, "input:\n    item+ ;\n\nitem:\n    %s\n;\n", strings.Join(alts, "\n  | "))
	} else {
		fmt.Fprintf(&sb, "input:\n    %s\n;\n", strings.Join(alts, "\n  | "))
	}
	return sb.String()
}

// c18Failing: grammars that compile but fail while the templates are rendered (an action refers to a symbol
// that does not exist), after part of the output has been produced.
var c18Failing = []string{
	`language failgo(go);

package = "example.com/failgo"
eventBased = true

:: lexer

'a': /a/
'b': /b/

:: parser

%input S;

S {int}: A 'b' { $$ = $A } ;
A {int}: 'a' { $$ = 1 } | 'b' 'a' { $$ = $nosuchsymbol } ;
`,
	`language failcc(cc);

namespace = "failcc"
includeGuardPrefix = "FAILCC_"
filenamePrefix = "failcc_"

:: lexer

'a': /a/
'b': /b/

:: parser

%input S;

S {int}: A 'b' { $$ = $A; } ;
A {int}: 'a' { $$ = 1; } | 'b' 'a' { $$ = $nosuchsymbol; } ;
`,
}

// c18TieGrammar: `input: N0 't0' | N1 't1' | …; Ni: 'a' [x];` with optimizeTables + defaultReduce: after 'a' the
// state reduces Ni on ti only, so all reductions tie for the default.
func c18TieGrammar(r *rand.Rand, name string) string {
	lang := []string{"go", "go", "cc", "ts"}[r.Intn(4)]
	var sb strings.Builder
	fmt.Fprintf(&sb, "language %s(%s);\n\n", name, lang)
	switch lang {
	case "go":
		fmt.Fprintf(&sb, "package = \"example.com/%s\"\n", name)
	case "cc":
		fmt.Fprintf(&sb, "namespace = %q\nincludeGuardPrefix = \"%s_\"\nfilenamePrefix = \"%s_\"\n", name, strings.ToUpper(name), name)
	}
	if lang != "cc" || r.Intn(2) == 0 {
		sb.WriteString("eventBased = true\n")
	}
	sb.WriteString("optimizeTables = true\ndefaultReduce = true\n\n:: lexer\n\n'a': /a/\n'b': /b/\n")
	n := 2 + r.Intn(3)
	for i := 0; i < n; i++ {
		fmt.Fprintf(&sb, "'t%d': /t%d/\n", i, i)
	}
	sb.WriteString("\n:: parser\n\n%input input;\n\n")
	var alts, nts []string
	two := r.Intn(2) == 0 // a second tie state after 'b'
	for i := 0; i < n; i++ {
		alts = append(alts, fmt.Sprintf("N%d 't%d'", i, i))
		if two {
			nts = append(nts, fmt.Sprintf("N%d: 'a' | 'b' ;", i))
		} else {
			nts = append(nts, fmt.Sprintf("N%d: 'a' ;", i))
		}
	}
	r.Shuffle(len(alts), func(a, b int) { alts[a], alts[b] = alts[b], alts[a] })
	r.Shuffle(len(nts), func(a, b int) { nts[a], nts[b] = nts[b], nts[a] })
	fmt.Fprintf(&sb, "input:\n    %s\n;\n\n%s\n", strings.Join(alts, "\n  | "), strings.Join(nts, "\n"))
	return sb.String()
}

// c18CLIGrammars: (name, text with the placeholder @@) pairs; @@ is replaced by two different strings of the
// same length, which changes a generated file without changing its length.
var c18CLIGrammars = []struct{ name, text, rev1, rev2 string }{
	{"go-action-constant", `language cli(go);

package = "example.com/cli"
eventBased = true

:: lexer

'a': /a/
'b': /b/

:: parser

%input S;

S {int}: A 'b' { $$ = $A } ;
A {int}: 'a' { $$ = @@ } ;
`, "1", "7"},
	{"cc-action-constant", `language cli(cc);

namespace = "cli"
includeGuardPrefix = "CLI_"
filenamePrefix = "cli_"

:: lexer

'a': /a/
'b': /b/

:: parser

%input S;

S {int}: A 'b' { $$ = $A; } ;
A {int}: 'a' { $$ = @@; } ;
`, "10", "42"},
	{"go-keyword-text", `language cli(go);

package = "example.com/cli"
eventBased = true

:: lexer

'kw': /@@/
'b': /b/

:: parser

%input S;

S: 'kw' 'b' ;
`, "let", "lot"},
	{"ts-node-prefix", `language cli(ts);

eventBased = true
nodePrefix = "@@"

:: lexer

'a': /a/
'b': /b/

:: parser

%input S;

S -> Root: 'a' 'b' -> Pair ;
`, "Aa", "Bb"},
}

// c18CLI runs the real command-line code path (cmd/textmapper built from the tree under test, its file
// writer included): revision 1 of a grammar is generated into a directory, the grammar gets a same-length edit,
// revision 2 is generated into the SAME directory; the files on disk must equal those of revision 2 generated
// into an empty directory.
func c18CLI(c *Ctx, repo, tmp string) {
	bin := filepath.Join(tmp, "textmapper-cli")
	build := exec.Command("go", "build", "-o", bin, "./cmd/textmapper")
	build.Dir = repo
	if out, err := build.CombinedOutput(); err != nil {
		msg := string(out)
		if len(msg) > 300 {
			msg = msg[:300]
		}
		c.Notes = append(c.Notes, "cmd/textmapper could not be built from the tree under test; cli cases skipped: "+msg)
		return
	}
	dirDigest := func(dir string) (string, map[string]string) {
		files := map[string]string{}
		filepath.WalkDir(dir, func(p string, d os.DirEntry, err error) error {
			if err == nil && !d.IsDir() {
				b, _ := os.ReadFile(p)
				rel, _ := filepath.Rel(dir, p)
				files[rel] = fmt.Sprintf("%x", sha256.Sum256(b))[:16]
			}
			return nil
		})
		var names []string
		for n := range files {
			names = append(names, n)
		}
		sort.Strings(names)
		h := sha256.New()
		for _, n := range names {
			fmt.Fprintf(h, "%s %s\n", n, files[n])
		}
		return fmt.Sprintf("%x", h.Sum(nil))[:16], files
	}
	for i, sc := range c18CLIGrammars {
		work := filepath.Join(tmp, fmt.Sprintf("cli%d", i))
		reused, empty := filepath.Join(work, "reused"), filepath.Join(work, "empty")
		must(os.MkdirAll(reused, 0o755))
		must(os.MkdirAll(empty, 0o755))
		gpath := filepath.Join(work, "cli.tm")
		run := func(rev, outDir string) error {
			must(os.WriteFile(gpath, []byte(strings.ReplaceAll(sc.text, "@@", rev)), 0o644))
			cmd := exec.Command(bin, "generate", "-o", outDir, "cli.tm")
			cmd.Dir = work
			out, err := cmd.CombinedOutput()
			if err != nil {
				return fmt.Errorf("%v: %s", err, out)
			}
			return nil
		}
		err1 := run(sc.rev1, reused)
		err2 := run(sc.rev2, reused)
		err3 := run(sc.rev2, empty)
		if err1 != nil || err2 != nil || err3 != nil {
			c.Count("cli-scenario-failed")
			c.Notes = append(c.Notes, fmt.Sprintf("cli scenario %s: the command failed (%v / %v / %v)", sc.name, err1, err2, err3))
			continue
		}
		d1, f1 := dirDigest(reused)
		d2, f2 := dirDigest(empty)
		c.Count("cli-scenarios")
		key := ""
		if len(f2) > 0 {
			key = "cli:" + sc.name
		}
		c.Case(fmt.Sprintf("cli %s %s %s", sc.name, d1, d2), "same", key)
		if d1 != d2 {
			var bad []string
			for n, h := range f2 {
				if f1[n] != h {
					bad = append(bad, n)
				}
			}
			for n := range f1 {
				if _, ok := f2[n]; !ok {
					bad = append(bad, n+" (left over)")
				}
			}
			sort.Strings(bad)
			c.Violate(fmt.Sprintf("output depends on what an earlier generation left on disk: `textmapper generate -o dir cli.tm` of revision 2 (%q instead of %q, same length) into the directory that holds the files of revision 1 leaves file(s) %s different from generating revision 2 into an empty directory",
				sc.rev2, sc.rev1, strings.Join(bad, ", ")),
				"scenario "+sc.name+": revision 1 = text below with @@ := "+sc.rev1+", revision 2 = with @@ := "+sc.rev2+"\n"+sc.text)
		}
	}
}

func c18Describe(a, b c18Run) string {
	if a.Err != b.Err {
		return fmt.Sprintf("outcome %q vs %q", a.Err, b.Err)
	}
	if strings.Join(a.Files, ",") != strings.Join(b.Files, ",") {
		return fmt.Sprintf("files written [%s] vs [%s]", strings.Join(a.Files, ","), strings.Join(b.Files, ","))
	}
	var bad []string
	for _, f := range a.Files {
		if a.Hash[f] != b.Hash[f] {
			bad = append(bad, f)
		}
	}
	return "file(s) " + strings.Join(bad, ", ") + " differ"
}

// c18Invariants emits the hypotheses of the lemmas for reverseLookup (Remap injective) and addTypes
// (ArgRefs[k].Pos == k) as cases; at most 12 distinct ones per grammar plus every failing one.
func c18Invariants(c *Ctx, name string, g *grammar.Grammar) {
	if g.Parser == nil {
		return
	}
	name = c18NameRE.ReplaceAllString(name, "_")
	seen := map[string]bool{}
	emitted := 0
	emit := func(line string, ok bool) {
		if seen[line] || (ok && emitted >= 12) {
			return
		}
		seen[line] = true
		emitted++
		c.Case(line, "holds", "")
	}
	for _, act := range g.Parser.Actions {
		v := act.Vars
		if v == nil {
			continue
		}
		if len(v.Remap) > 0 {
			var ks []int
			for k := range v.Remap {
				ks = append(ks, k)
			}
			sort.Ints(ks)
			var vals []int
			dup := map[int]bool{}
			ok := true
			for _, k := range ks {
				vals = append(vals, v.Remap[k])
				if dup[v.Remap[k]] {
					ok = false
				}
				dup[v.Remap[k]] = true
			}
			emit(fmt.Sprintf("inv remap %s %s", name, ints(vals)), ok)
			c.Count("inv-remap")
		}
		if len(v.CmdArgs.ArgRefs) > 0 {
			var ks, ps []int
			for k := range v.CmdArgs.ArgRefs {
				ks = append(ks, k)
			}
			sort.Ints(ks)
			ok := true
			for _, k := range ks {
				ps = append(ps, v.CmdArgs.ArgRefs[k].Pos)
				if v.CmdArgs.ArgRefs[k].Pos != k {
					ok = false
				}
			}
			emit(fmt.Sprintf("inv argrefs %s %s %s", name, ints(ks), ints(ps)), ok)
			c.Count("inv-argrefs")
		}
	}
}

var c18SiteRE = regexp.MustCompile(`⟨"([^"]*)", "([^"]*)", "([^"]*)", "([^"]*)", "([^"]*)"⟩`)

// c18Sites runs tools/factgen on the tree under test (private output file) and emits one case per site.
func c18Sites(c *Ctx, repo, tmp string) {
	root := ""
	for _, start := range []string{c.Out, func() string { s, _ := os.Executable(); return s }(), func() string { s, _ := os.Getwd(); return s }()} {
		d, _ := filepath.Abs(start)
		for d != "/" && d != "." && d != "" {
			if _, err := os.Stat(filepath.Join(d, "tools", "factgen", "main.go")); err == nil {
				root = d
				break
			}
			d = filepath.Dir(d)
		}
		if root != "" {
			break
		}
	}
	if root == "" {
		c.Notes = append(c.Notes, "tools/factgen not found from the output directory: site cases skipped (the Lean obligations still check the inventory)")
		return
	}
	out := filepath.Join(tmp, "Generated.lean")
	cmd := exec.Command("go", "run", ".", "-repo", repo, "-out", out, "-force")
	cmd.Dir = filepath.Join(root, "tools", "factgen")
	if b, err := cmd.CombinedOutput(); err != nil {
		c.Notes = append(c.Notes, "tools/factgen failed: "+string(b))
		return
	}
	b, err := os.ReadFile(out)
	if err != nil {
		return
	}
	text := string(b)
	for _, def := range []string{"mapRangeSites", "unresolvedRangeSites"} {
		i := strings.Index(text, "def "+def+" ")
		if i < 0 {
			continue
		}
		body := text[i:]
		if j := strings.Index(body, "\n\n"); j >= 0 { // definitions are separated by a blank line
			body = body[:j]
		}
		for _, m := range c18SiteRE.FindAllStringSubmatch(body, -1) {
			c.Case(fmt.Sprintf("site %s %s %s %s", m[1], m[2], m[3], m[5]), "covered", "site:"+m[1]+":"+m[2]+":"+m[3])
			c.Count("sites-" + def)
		}
	}
}

// ---- grammar mutation -------------------------------------------------------------------------

var (
	c18KwLineRE  = regexp.MustCompile(`^'[a-z]+':\s+/[a-z]+/\s*$`)
	c18NontermRE = regexp.MustCompile(`(?m)^([A-Za-z][A-Za-z0-9]*)(<[^>]*>)?(\s*\{[^}]*\})?\s*(->\s*[A-Za-z0-9_/,]+\s*)?:\s*$|(?m)^([A-Za-z][A-Za-z0-9]*)(\s*\{[^}]*\})?\s*(->\s*[A-Za-z0-9_/,]+)?\s*:\s`)
	c18BoolOptRE = regexp.MustCompile(`(?m)^(eventFields|tokenLine|tokenLineOffset|tokenColumn|cancellable|cancellableFetch|recursiveLookaheads|optimizeTables|fixWhitespace|genSelector|debugParser|writeBison|scanBytes)\s*=\s*(true|false)\s*$`)
)

// c18Mutate: consistent renames of nonterminals, shuffled blocks of keyword rules, toggled / added options.
func c18Mutate(r *rand.Rand, text string) string {
	// 1. toggle existing boolean options, add new ones after the `language` line
	text = c18BoolOptRE.ReplaceAllStringFunc(text, func(s string) string {
		if r.Intn(3) != 0 {
			return s
		}
		if strings.Contains(s, "true") {
			return strings.Replace(s, "true", "false", 1)
		}
		return strings.Replace(s, "false", "true", 1)
	})
	for _, opt := range []string{"optimizeTables", "defaultReduce", "minimizeDFA", "tokenColumn", "tokenLineOffset"} {
		if opt == "optimizeTables" && strings.Contains(text, "lalr(") {
			continue // not supported together (compile error since /repo e607f20, a crash before)
		}
		if r.Intn(3) == 0 && !regexp.MustCompile(`(?m)^`+opt+`\s*=`).MatchString(text) {
			if i := strings.Index(text, "\n::"); i >= 0 {
				text = text[:i] + "\n" + opt + " = true" + text[i:]
			}
		}
	}
	// 2. shuffle maximal runs of keyword rules `'kw': /kw/`
	lines := strings.Split(text, "\n")
	for i := 0; i < len(lines); {
		j := i
		for j < len(lines) && c18KwLineRE.MatchString(lines[j]) {
			j++
		}
		if j-i >= 2 {
			r.Shuffle(j-i, func(a, b int) { lines[i+a], lines[i+b] = lines[i+b], lines[i+a] })
		}
		if j == i {
			j++
		}
		i = j
	}
	text = strings.Join(lines, "\n")
	// 3. rename some nonterminals consistently (identifier-boundary replace outside the templates section)
	head, body, tail := "", text, ""
	if i := strings.Index(body, "\n%%"); i >= 0 {
		body, tail = body[:i], body[i:]
	}
	if i := strings.Index(body, ":: parser"); i >= 0 {
		head, body = body[:i], body[i:]
	} else if i := strings.Index(body, "::parser"); i >= 0 {
		head, body = body[:i], body[i:]
	} else {
		return text
	}
	names := map[string]bool{}
	for _, m := range c18NontermRE.FindAllStringSubmatch(body, -1) {
		n := m[1]
		if n == "" {
			n = m[5]
		}
		if len(n) >= 4 && n != "error" && n != "invalid_token" && n != "input" && !strings.Contains(head, "\n"+n) {
			names[n] = true
		}
	}
	var list []string
	for n := range names {
		list = append(list, n)
	}
	sort.Strings(list)
	r.Shuffle(len(list), func(a, b int) { list[a], list[b] = list[b], list[a] })
	if len(list) > 3 {
		list = list[:3]
	}
	for _, n := range list {
		suffix := []string{"X", "Zz", "Q7"}[r.Intn(3)]
		re := regexp.MustCompile(`(^|[^A-Za-z0-9_.'"/\\-])` + regexp.QuoteMeta(n) + `($|[^A-Za-z0-9_'"/\\-])`)
		for k := 0; k < 2; k++ { // twice: adjacent occurrences share a separator
			body = re.ReplaceAllString(body, "${1}"+n+suffix+"${2}")
		}
		body = regexp.MustCompile(`([^A-Za-z0-9_.'"/\\-])`+regexp.QuoteMeta(n)+`(_?-?[oO]pt[^A-Za-z0-9_])`).ReplaceAllString(body, "${1}"+n+suffix+"${2}")
	}
	return head + body + tail
}

// ---- random feature grammars --------------------------------------------------------------------

const c18Witness = `language witness(go);

package = "example.com/witness"
eventBased = true
aliasIncludesOptSuffix = false

:: lexer

'x': /x/
'y': /y/
'z': /z/

:: parser

%input S;

S {int}: a aopt 'z' { $$ = $a };

a {int}: 'x' { $$ = 1 } | 'y' { $$ = 2 };
`

var c18Words = []string{"let", "call", "when", "loop", "stop", "emit", "load", "save", "open", "shut", "pick", "drop", "make", "take", "give", "bind", "case", "else", "then", "done"}

// c18RandGrammar renders a random statement-language grammar. The shape keeps it LALR(1) (every statement
// alternative starts with its own keyword) except for the deliberate lalr(2) idiom.
func c18RandGrammar(r *rand.Rand, name string) (string, []string) {
	var feats []string
	feat := func(f string) { feats = append(feats, f) }
	pick := func(p int) bool { return r.Intn(100) < p }
	lang := "go"
	switch x := r.Intn(10); {
	case x < 2:
		lang = "ts"
	case x < 4:
		lang = "cc"
	}
	feat("lang-" + lang)
	typed := lang != "ts" && pick(60) // semantic values + `$$ = …` actions
	words := append([]string(nil), c18Words...)
	r.Shuffle(len(words), func(a, b int) { words[a], words[b] = words[b], words[a] })
	nextWord := func() string { w := words[0]; words = words[1:]; return w }

	var sb strings.Builder
	fmt.Fprintf(&sb, "language %s(%s);\n\n", name, lang)
	switch lang {
	case "go":
		fmt.Fprintf(&sb, "lang = %q\npackage = \"example.com/%s\"\n", name, name)
	case "cc":
		fmt.Fprintf(&sb, "namespace = %q\nincludeGuardPrefix = \"EX_%s_\"\nfilenamePrefix = \"%s_\"\n", name, strings.ToUpper(name), name)
	}
	sb.WriteString("eventBased = true\n")
	opts := []string{"tokenLine", "tokenLineOffset", "tokenColumn", "optimizeTables", "defaultReduce", "scanBytes", "minimizeDFA"}
	if lang != "cc" {
		opts = append(opts, "fixWhitespace")
	}
	if lang == "go" {
		opts = append(opts, "eventFields", "cancellable", "recursiveLookaheads", "genSelector", "writeBison", "debugParser", "tokenStream")
	}
	if lang == "ts" {
		opts = append(opts, "genSelector", "tokenStream")
	}
	r.Shuffle(len(opts), func(a, b int) { opts[a], opts[b] = opts[b], opts[a] })
	// Two generator crashes recorded under C22 are kept out of the stream (they would only be dropped by the
	// child-process pre-check): optimizeTables with lalr(k) (was a log.Fatal in lalr/optimize.go, a compile error since /repo e607f20) and writeBison with a
	// nested choice carrying a mid-rule action (grammar/gen.go log.Fatalf).
	la2 := lang == "go" && pick(35)
	chosen := map[string]bool{}
	for _, o := range opts[:r.Intn(5)] {
		v := pick(70)
		if o == "optimizeTables" && la2 {
			v = false
		}
		chosen[o] = v
		fmt.Fprintf(&sb, "%s = %v\n", o, v)
	}
	if !la2 && pick(25) {
		if _, ok := chosen["optimizeTables"]; !ok {
			sb.WriteString("optimizeTables = true\n")
		}
		if _, ok := chosen["defaultReduce"]; !ok {
			sb.WriteString("defaultReduce = true\n")
		}
		feat("optimize+defaultReduce")
	}
	optSuffix := "opt"
	if pick(25) {
		optSuffix = []string{"_opt", "-opt", "Opt"}[r.Intn(3)]
		fmt.Fprintf(&sb, "optInstantiationSuffix = %q\n", optSuffix)
		feat("custom-opt-suffix")
	}
	if pick(35) {
		// rendered node ids depend on it: grammars sharing node names but not the prefix expose caches
		fmt.Fprintf(&sb, "nodePrefix = %q\n", []string{"Nd", "X", "T_"}[r.Intn(3)])
		feat("node-prefix")
	}
	if pick(30) {
		sb.WriteString("aliasIncludesOptSuffix = false\n")
		feat("alias-without-opt-suffix")
	}
	if pick(30) {
		sb.WriteString("extraTypes = [\"Extra1\", \"Extra2\"]\n")
		feat("extra-types")
	}

	// ---- lexer
	sb.WriteString("\n:: lexer\n\n")
	sb.WriteString("WhiteSpace: /[ \\t\\r\\n]+/ (space)\n")
	useClass := pick(80)
	if useClass {
		sb.WriteString("Ident: /[a-zA-Z_][a-zA-Z_0-9]*/ (class)\n")
		feat("class-rule")
	} else {
		sb.WriteString("Ident: /[A-Z][a-zA-Z_0-9]*/\n")
	}
	switch {
	case typed && lang == "go":
		sb.WriteString("Number {int}: /[0-9]+/ { $$ = len(l.Text()) }\n")
	case typed && lang == "cc":
		sb.WriteString("Number {int}: /[0-9]+/ { $$ = 1; }\n")
	default:
		sb.WriteString("Number: /[0-9]+/\n")
	}
	if pick(40) {
		sb.WriteString("hex = /[0-9a-fA-F]/\nHexNumber: /0x{hex}+/\n")
		feat("named-pattern")
	}
	nkw := 6 + r.Intn(6)
	kws := make([]string, nkw)
	for i := range kws {
		kws[i] = nextWord()
	}
	kwLines := make([]string, nkw)
	for i, k := range kws {
		kwLines[i] = fmt.Sprintf("'%s': /%s/", k, k)
	}
	r.Shuffle(nkw, func(a, b int) { kwLines[a], kwLines[b] = kwLines[b], kwLines[a] })
	sb.WriteString(strings.Join(kwLines, "\n") + "\n")
	puncts := []string{`'(': /\(/`, `')': /\)/`, `'{': /\{/`, `'}': /\}/`, `'[': /\[/`, `']': /\]/`, `',': /,/`, `';': /;/`, `'=': /=/`, `'+': /\+/`, `'*': /\*/`, `':': /:/`, `'.': /\./`, `'?': /\?/`, `'!': /!/`}
	r.Shuffle(len(puncts), func(a, b int) { puncts[a], puncts[b] = puncts[b], puncts[a] })
	sb.WriteString(strings.Join(puncts, "\n") + "\n")
	sb.WriteString("error:\n")
	if pick(50) {
		sb.WriteString("invalid_token:\n")
	}

	// ---- parser
	if la2 {
		sb.WriteString("\n:: parser lalr(2)\n\n")
		feat("lalr2-trie")
	} else {
		sb.WriteString("\n:: parser\n\n")
	}
	multiInput := pick(35)
	if multiInput {
		sb.WriteString("%input File, Block no-eoi;\n\n")
		feat("multi-input")
	} else {
		sb.WriteString("%input File;\n\n")
	}
	precExpr := pick(50)
	useFlag := pick(30)
	useSet := pick(35)
	if useSet {
		fmt.Fprintf(&sb, "%%generate after%s = set(follow '%s');\n\n", strings.ToUpper(kws[0][:1])+kws[0][1:], kws[0])
		feat("generate-set")
	}
	if useFlag {
		sb.WriteString("%flag Wide;\n\n")
		feat("template-flag")
	}

	// action code helpers
	valAct := func(expr string) string { // `$$ = expr`
		if !typed {
			return ""
		}
		if lang == "cc" {
			return " { $$ = " + expr + "; }"
		}
		return " { $$ = " + expr + " }"
	}
	posAct := func(node, a, b string) string { // an action that references named symbols by position
		switch lang {
		case "go":
			return fmt.Sprintf(" { p.listener(%s, 0, ${%s.offset}, ${%s.endoffset}) }", node, a, b)
		case "cc":
			return fmt.Sprintf(" { @$.begin = @%s.begin; @$.end = @%s.end; }", a, b)
		}
		return ""
	}
	ty := func(t string) string {
		if !typed {
			return ""
		}
		if lang == "cc" {
			return " {" + t + " v}"
		}
		return " {" + t + "}"
	}

	var stmts []string
	kw := func(i int) string { return "'" + kws[i%nkw] + "'" }
	// 0: assignment with aliases and named references
	stmts = append(stmts, fmt.Sprintf("%s Ident[name] '=' Expr[value] ';'%s  -> Assign", kw(0), posAct("Assign", "name", "value")))
	feat("aliases")
	// 1: call with a separated list
	listForm := []string{"(Expr separator ',')*", "(Expr separator ',')+", "Expr*", "Expr+?"}[r.Intn(4)]
	stmts = append(stmts, fmt.Sprintf("%s '(' %s ')' ';'  -> Call", kw(1), listForm))
	feat("list")
	// 2: if / else with optional group
	if pick(70) {
		stmts = append(stmts, fmt.Sprintf("%s Expr[cond] Block[then] (%s Block[otherwise])?%s  -> If", kw(2), kw(3), posAct("If", "cond", "then")))
		feat("optional-group")
	}
	// 3: opt-suffix instantiation
	if pick(70) {
		stmts = append(stmts, fmt.Sprintf("%s Ident%s ';'  -> Jump", kw(4), optSuffix))
		feat("opt-suffix")
		if pick(50) {
			// class of the fixed finding: both `Ident` and `Ident<suffix>` named in one rule
			feat("name-and-opt-name-in-one-rule")
			stmts = append(stmts, fmt.Sprintf("%s Ident Ident%s ':'%s  -> Jump2", kw(4), optSuffix, posAct("Jump2", "Ident", "Ident")))
		}
	}
	// 4: nested choice with mid-rule actions
	if pick(60) && lang != "ts" && !chosen["writeBison"] {
		mid := " { /* mid */ }"
		stmts = append(stmts, fmt.Sprintf("%s ( Ident[id]%s '!' | Number[num] '?' ) ';'  -> Choice", kw(5), mid))
		feat("nested-choice-midrule")
	}
	// 5: the lalr(2) idiom of parsers/test/test.tm
	if la2 {
		stmts = append(stmts, fmt.Sprintf("'.' LaX '.' '!'  -> ViaX"), fmt.Sprintf("'.' LaY '.' '?'  -> ViaY"))
	}
	// 6: token set
	if pick(35) {
		stmts = append(stmts, "'[' set(~(eoi | ']' | '['))* ']'  -> Raw")
		feat("token-set")
	}
	// 7: state marker (+ greedy)
	if pick(40) {
		stmts = append(stmts, fmt.Sprintf("%s .afterKw Ident (':' .greedy Ident)?  ';' -> Marked", kw(6)))
		feat("state-markers")
	}
	// 8: template flag use
	if useFlag {
		stmts = append(stmts, fmt.Sprintf("%s Item<+Wide> ';'  -> WideItem", kw(7)), fmt.Sprintf("%s Item<~Wide> ';'  -> NarrowItem", kw(8)))
	}
	stmts = append(stmts, "Block")
	r.Shuffle(len(stmts), func(a, b int) { stmts[a], stmts[b] = stmts[b], stmts[a] })

	var nts []string
	fileBody := []string{"Stmt+", "Stmt*", "Stmt+?"}[r.Intn(3)]
	nts = append(nts, fmt.Sprintf("File -> File:\n    %s ;\n", fileBody))
	if pick(40) {
		nts = append(nts, "%interface Stmt;\n\nStmt -> Stmt:\n    "+strings.Join(stmts, "\n  | ")+"\n;\n")
		feat("interface")
	} else {
		nts = append(nts, "Stmt -> Stmt:\n    "+strings.Join(stmts, "\n  | ")+"\n;\n")
	}
	nts = append(nts, "Block -> Block:\n    '{' Stmt* '}' ;\n")
	if precExpr {
		nts = append(nts, fmt.Sprintf("%%left '+';\n%%left '*';\n\nExpr%s -> Expr:\n    Expr[left] '+' Expr[right]%s  -> Sum\n  | Expr[left] '*' Expr[right]%s  -> Product\n  | Primary\n;\n",
			ty("int"), valAct("$left + $right"), valAct("$left * $right")))
		feat("precedence")
	} else {
		nts = append(nts, fmt.Sprintf("Expr%s -> Expr:\n    Expr[left] '+' Term[right]%s  -> Sum\n  | Term\n;\n\nTerm%s -> Expr:\n    Term[left] '*' Primary[right]%s  -> Product\n  | Primary\n;\n",
			ty("int"), valAct("$left + $right"), ty("int"), valAct("$left * $right")))
	}
	nts = append(nts, fmt.Sprintf("Primary%s -> Expr:\n    Number%s  -> Literal\n  | Ident%s  -> Name\n  | '(' Expr[inner] ')'%s  -> Parens\n;\n",
		ty("int"), valAct("$Number"), valAct("0"), valAct("$inner")))
	if la2 {
		nts = append(nts, "LaX -> LaX: ':' ;\n", "LaY -> LaY: ':' ;\n")
	}
	if useFlag {
		nts = append(nts, "Item<Wide> -> Item:\n    [Wide] Number Number\n  | [!Wide] Number\n  | Ident\n;\n")
	}
	// declaration order is free: shuffle everything but the first (File)
	rest := nts[1:]
	r.Shuffle(len(rest), func(a, b int) { rest[a], rest[b] = rest[b], rest[a] })
	sb.WriteString(strings.Join(nts, "\n"))
	return sb.String(), feats
}
