package main

import (
	"encoding/hex"
	"fmt"
	"math/rand"
	"sort"
	"strconv"
	"strings"
	"unicode"
	"unicode/utf8"

	"github.com/inspirer/textmapper/lex"
)

// C10 — regular expressions and character classes denote their documented sets.
//
// Leaf functions of lex/charset.go and lex/regexp.go are called through the hooks of
// lex/verif_export_c10.go and compared with their Lean mirrors; lex.ParseRegexp is run on generated
// well-formed and malformed patterns under fold x bytes and its result (accept/reject, error range, AST)
// is handed to the Lean reference parser, which compares canonical forms.
func init() { props["C10"] = c10 }

// ---- protocol helpers ----

func c10Runes(l []rune) string {
	if len(l) == 0 {
		return "-"
	}
	var sb strings.Builder
	for i, v := range l {
		if i > 0 {
			sb.WriteByte(',')
		}
		sb.WriteString(strconv.Itoa(int(v)))
	}
	return sb.String()
}

func c10Hex(s string) string {
	if s == "" {
		return "-"
	}
	return hex.EncodeToString([]byte(s))
}

// c10TableRanges expands a unicode.RangeTable into sorted, merged, flattened ranges
// (independent of the repository's appendTable).
func c10TableRanges(t *unicode.RangeTable) []rune {
	if t == nil {
		return nil
	}
	var pairs [][2]rune
	add := func(lo, hi, stride rune) {
		if stride == 1 {
			pairs = append(pairs, [2]rune{lo, hi})
			return
		}
		for c := lo; c <= hi; c += stride {
			pairs = append(pairs, [2]rune{c, c})
		}
	}
	for _, r := range t.R16 {
		add(rune(r.Lo), rune(r.Hi), rune(r.Stride))
	}
	for _, r := range t.R32 {
		add(rune(r.Lo), rune(r.Hi), rune(r.Stride))
	}
	sort.Slice(pairs, func(i, j int) bool { return pairs[i][0] < pairs[j][0] })
	var out []rune
	for _, p := range pairs {
		if n := len(out); n > 0 && p[0] <= out[n-1]+1 {
			if p[1] > out[n-1] {
				out[n-1] = p[1]
			}
			continue
		}
		out = append(out, p[0], p[1])
	}
	return out
}

// c10TabRow renders one Unicode table for the model: name:kind:ranges:foldranges.
func c10TabRow(name string) (string, bool) {
	if t := unicode.Categories[name]; t != nil {
		return fmt.Sprintf("%s:c:%s:%s", name, c10Runes(c10TableRanges(t)), c10Runes(c10TableRanges(unicode.FoldCategory[name]))), true
	}
	if t := unicode.Scripts[name]; t != nil {
		return fmt.Sprintf("%s:s:%s:%s", name, c10Runes(c10TableRanges(t)), c10Runes(c10TableRanges(unicode.FoldScript[name]))), true
	}
	if t := unicode.Properties[name]; t != nil {
		return fmt.Sprintf("%s:p:%s:-", name, c10Runes(c10TableRanges(t))), true
	}
	return "", false
}

func c10IsID(b byte) bool {
	return b >= 'a' && b <= 'z' || b == '_' || b >= '0' && b <= '9' || b >= 'A' && b <= 'Z'
}

// c10Tabs collects the tables of every name the pattern could look up: an identifier after `p{` / `p{^`
// or the single rune after `p` / `P` (over-approximation: the backslash is not required).
func c10Tabs(src string) string {
	seen := map[string]bool{}
	var rows []string
	add := func(name string) {
		if name == "" || seen[name] || strings.ContainsAny(name, ":| \n\r\t") {
			return
		}
		seen[name] = true
		if row, ok := c10TabRow(name); ok {
			rows = append(rows, row)
		}
	}
	for i := 0; i < len(src); i++ {
		if src[i] != 'p' && src[i] != 'P' {
			continue
		}
		j := i + 1
		if j < len(src) && src[j] == '{' {
			j++
			if j < len(src) && src[j] == '^' {
				j++
			}
			k := j
			for k < len(src) && c10IsID(src[k]) {
				k++
			}
			add(src[j:k])
		}
		if i+1 < len(src) {
			r, w := utf8.DecodeRuneInString(src[i+1:])
			if !(r == utf8.RuneError && w == 1) {
				add(src[i+1 : i+1+w])
			}
		}
	}
	if len(rows) == 0 {
		return "_"
	}
	return strings.Join(rows, "|")
}

// c10Dump prints the Go AST in prefix form.
func c10Dump(v *lex.VerifRegexp, sb *strings.Builder) {
	switch v.Op {
	case 0:
		sb.WriteString("lit," + c10Hex(v.Text))
	case 1:
		sb.WriteString("blit," + c10Hex(v.Text))
	case 2:
		fmt.Fprintf(sb, "cc,%d", len(v.Charset))
		for _, r := range v.Charset {
			fmt.Fprintf(sb, ",%d", r)
		}
	case 3:
		fmt.Fprintf(sb, "rep,%d,%d,", v.Min, v.Max)
		c10Dump(v.Sub[0], sb)
	case 4, 5:
		if v.Op == 4 {
			fmt.Fprintf(sb, "cat,%d", len(v.Sub))
		} else {
			fmt.Fprintf(sb, "alt,%d", len(v.Sub))
		}
		for _, s := range v.Sub {
			sb.WriteByte(',')
			c10Dump(s, sb)
		}
	case 6:
		sb.WriteString("ext," + c10Hex(v.Text))
	default:
		fmt.Fprintf(sb, "unknown-op-%d", v.Op)
	}
}

// ---- the real code, wrapped ----

type c10Variant struct{ laxHex, wrap32, scriptFold, bytesFoldAny bool }

func (v c10Variant) String() string {
	return b2s(v.laxHex) + b2s(v.wrap32) + b2s(v.scriptFold) + b2s(v.bytesFoldAny)
}

func c10Parse(src string, opts lex.CharsetOptions) (res string, ok bool, e lex.ParseError) {
	defer func() {
		if r := recover(); r != nil {
			res, ok = "panic", false
		}
	}()
	re, err := lex.ParseRegexp(src, opts)
	if err != nil {
		e = err.(lex.ParseError)
		return fmt.Sprintf("err:%d:%d", e.Offset, e.EndOffset), false, e
	}
	var sb strings.Builder
	sb.WriteString("ok:")
	c10Dump(lex.VerifView(re), &sb)
	return sb.String(), true, e
}

func c10Accepts(src string, fold, bytes bool) bool {
	_, ok, _ := c10Parse(src, lex.CharsetOptions{Fold: fold, ScanBytes: bytes})
	return ok
}

func c10Contains(cs []rune, r rune) bool {
	for i := 0; i+1 < len(cs); i += 2 {
		if cs[i] <= r && r <= cs[i+1] {
			return true
		}
	}
	return false
}

// ---- generators ----

type c10Gen struct {
	rng   *rand.Rand
	bytes bool
}

func (g *c10Gen) pick(l []string) string { return l[g.rng.Intn(len(l))] }

var c10Lits = []string{"a", "b", "c", "k", "s", "K", "S", "Z", "z", "0", "1", "7", "9", "_", " ", "-", ",", ":", "i", "Q", "E", "x", "]", "}", "=", "!", "~", "\"", "'", "/", "#"}
var c10NonASCII = []string{"é", "à", "ÿ", "µ", "ß", "γ", "Σ", "σ", "ς", "ſ", "K", "Å", "ǅ", "€", "中", "😀", "\u0345", "\u00a0", "\u0100", "\u00ff",
	// raw characters at the UTF-8 encoding boundaries and around U+FFFD (utf8.RuneError is also a valid character)
	"\ufffd", "\ufffd", "\ufffc", "\ufffe", "\uffff", "\U0010ffff", "\U00010000", "\u0080", "\u07ff", "\u0800", "\ud7ff", "\ue000", "\ufff0"}
var c10EscPunct = []string{`\.`, `\*`, `\+`, `\?`, `\(`, `\)`, `\[`, `\]`, `\{`, `\}`, `\|`, `\\`, `\-`, `\^`, `\$`, `\/`, `\_`, `\ `, `\"`, `\a`, `\f`, `\n`, `\r`, `\t`, `\v`}
var c10Sets = []string{`\d`, `\D`, `\w`, `\W`, `\s`, `\S`}
var c10Names = []string{"Any", "Ascii", "L", "Lu", "Ll", "Lt", "Lm", "Lo", "LC", "M", "Mn", "Nd", "N", "Nl", "Zs", "Zl", "Zp", "Z", "P", "Pd", "Sm", "S", "Cc", "C",
	"Greek", "Latin", "Cyrillic", "Common", "Inherited", "Han", "Hebrew", "Armenian", "Cherokee",
	"White_Space", "Hex_Digit", "ASCII_Hex_Digit", "Soft_Dotted", "Other_Lowercase", "Dash", "Quotation_Mark", "Nope", "z", "greek", "Lx"}

func (g *c10Gen) named() string {
	r := g.rng
	n := g.pick(c10Names)
	switch r.Intn(8) {
	case 0:
		return `\P{` + n + `}`
	case 1:
		return `\p{^` + n + `}`
	case 2:
		return `\P{^` + n + `}`
	case 3:
		return `\p` + g.pick([]string{"L", "N", "Z", "P", "S", "M", "C", "x", "é"})
	case 4:
		return `\P` + g.pick([]string{"L", "N", "Z"})
	}
	return `\p{` + n + `}`
}

// hexDigits returns n random hexadecimal digits (mixed case).
func (g *c10Gen) hexDigits(n int) string {
	const d = "0123456789abcdefABCDEF"
	b := make([]byte, n)
	for i := range b {
		b[i] = d[g.rng.Intn(len(d))]
	}
	return string(b)
}

// codepoint picks a code point biased toward interesting values.
func (g *c10Gen) codepoint() int {
	r := g.rng
	switch r.Intn(12) {
	case 0:
		return r.Intn(0x80)
	case 1:
		return 0x41 + r.Intn(26)
	case 2:
		return 0x61 + r.Intn(26)
	case 3:
		return 0x80 + r.Intn(0x80)
	case 4:
		return []int{0, 9, 10, 11, 0x7f, 0x80, 0xff, 0x100, 0x17f, 0x212a, 0x212b, 0xb5, 0x3bc, 0x39c, 0x345, 0x1c4, 0x1c5, 0x1c6, 0xd7ff, 0xd800, 0xdfff, 0xe000, 0xffff, 0x10000, 0x10ffff, 0x110000, 0x1fffff}[r.Intn(27)]
	case 5:
		return 0x370 + r.Intn(0x90)
	case 6:
		return r.Intn(0x110000)
	case 7:
		return 0x100 + r.Intn(0x300)
	}
	return 0x20 + r.Intn(0x5f)
}

// hexEscape produces \xHH \uHHHH \UHHHHHHHH \x{…} \u{…} \U{…} for a code point (when it fits).
func (g *c10Gen) hexEscape() string {
	r := g.rng
	cp := g.codepoint()
	mix := func(s string) string {
		b := []byte(s)
		for i := range b {
			if r.Intn(2) == 0 {
				b[i] = byte(unicode.ToUpper(rune(b[i])))
			}
		}
		return string(b)
	}
	switch r.Intn(7) {
	case 0:
		return `\x` + mix(fmt.Sprintf("%02x", cp&0xff))
	case 1:
		return `\u` + mix(fmt.Sprintf("%04x", cp&0xffff))
	case 2:
		return `\U` + mix(fmt.Sprintf("%08x", cp))
	case 3:
		return `\x{` + mix(fmt.Sprintf("%x", cp)) + `}`
	case 4:
		return `\u{` + mix(fmt.Sprintf("%0*x", 1+r.Intn(7), cp)) + `}`
	case 5:
		return `\U{` + mix(fmt.Sprintf("%x", cp)) + `}`
	}
	return fmt.Sprintf(`\%03o`, cp&0xff)
}

// wrapEscape produces escapes whose value does not fit into 31 bits (never exactly 0x80000000 mod 2^32:
// the model does not mirror the int32 overflow of `lo-1` inside invert for that one value).
func (g *c10Gen) wrapEscape() string {
	r := g.rng
	low := uint64(r.Intn(0x110000))
	switch r.Intn(4) {
	case 0:
		return fmt.Sprintf(`\U%08X`, uint32(0x80000001+r.Intn(0x7ffffffe)))
	case 1:
		return fmt.Sprintf(`\x{%x}`, uint64(1+r.Intn(15))<<32|low)
	case 2:
		return fmt.Sprintf(`\u{%x}`, uint64(0xffffffff)-uint64(r.Intn(0x100)))
	}
	return fmt.Sprintf(`\x{%x%08x}`, 1+r.Intn(0xfff), low)
}

func (g *c10Gen) classChar() string {
	r := g.rng
	switch k := r.Intn(20); {
	case k < 8:
		return string(rune('a' + r.Intn(26)))
	case k < 10:
		return string(rune('A' + r.Intn(26)))
	case k < 12:
		return string(rune('0' + r.Intn(10)))
	case k < 13:
		return g.pick([]string{" ", "_", ",", ":", "+", "*", "?", "(", ")", "{", "}", "|", "$", "/", "!", "~"})
	case k < 15:
		return g.pick(c10NonASCII)
	case k < 17:
		return g.hexEscape()
	case k < 18:
		return g.pick([]string{`\]`, `\[`, `\-`, `\^`, `\\`, `\n`, `\t`, `\.`})
	}
	return g.pick(c10Lits)
}

func (g *c10Gen) class(depth int) string {
	r := g.rng
	var sb strings.Builder
	sb.WriteByte('[')
	if r.Intn(4) == 0 {
		sb.WriteByte('^')
	}
	if r.Intn(12) == 0 {
		sb.WriteByte(']')
	}
	if r.Intn(12) == 0 {
		sb.WriteByte('-')
	}
	n := 1 + r.Intn(4)
	if r.Intn(20) == 0 {
		n = 0
	}
	for i := 0; i < n; i++ {
		switch k := r.Intn(20); {
		case k < 6:
			sb.WriteString(g.classChar())
		case k < 11:
			lo, hi := g.classChar(), g.classChar()
			if r.Intn(3) > 0 && len(lo) == 1 && len(hi) == 1 && lo[0] > hi[0] {
				lo, hi = hi, lo
			}
			sb.WriteString(lo + "-" + hi)
		case k < 13:
			sb.WriteString(g.pick(c10Sets))
		case k < 15:
			sb.WriteString(g.named())
		case k < 16:
			sb.WriteByte('.')
		case k < 18 && depth < 2:
			sb.WriteString("-" + g.class(depth+1))
		case k < 19:
			sb.WriteString("-" + g.pick([]string{`\d`, `\w`, `\s`, `\p{Lu}`, `\p{L}`, `\pN`, `\P{Ll}`, `\x41`, `\n`}))
		default:
			sb.WriteString(g.pick([]string{"-", "--", "a-", "-a", "[", "^", "a-z-", `\d-z`, `a-\d`}))
		}
	}
	if r.Intn(12) == 0 {
		sb.WriteByte('-')
	}
	sb.WriteByte(']')
	return sb.String()
}

func (g *c10Gen) quant() string {
	r := g.rng
	switch k := r.Intn(16); {
	case k < 3:
		return "*"
	case k < 6:
		return "+"
	case k < 9:
		return "?"
	case k < 11:
		return fmt.Sprintf("{%d}", r.Intn(5))
	case k < 12:
		return fmt.Sprintf("{%d,}", r.Intn(5))
	case k < 14:
		a := r.Intn(5)
		return fmt.Sprintf("{%d,%d}", a, a+r.Intn(4))
	case k < 15:
		return fmt.Sprintf("{%d,%d}", 1+r.Intn(5), r.Intn(3)) // often max < min
	}
	return g.pick([]string{"{007}", "{0}", "{0,0}", "{9223372036854775807}", "{9223372036854775808}", "{1,9223372036854775808}", "{99999999999999999999}", "{1,2", "{1", "{,2}", "{1,2,3}", "{ 1}", "{}"})
}

func (g *c10Gen) atom(depth int) string {
	r := g.rng
	switch k := r.Intn(40); {
	case k < 10:
		return g.pick(c10Lits)
	case k < 13:
		return g.pick(c10NonASCII)
	case k < 15:
		return g.pick(c10EscPunct)
	case k < 16:
		return "."
	case k < 22:
		return g.class(0)
	case k < 24:
		return g.pick(c10Sets)
	case k < 26:
		return g.named()
	case k < 30:
		return g.hexEscape()
	case k < 31:
		q := g.pick([]string{"", "a", "a+b", "(x)*", "é", `\`, `[a-z]`, `\\`, "{a}", "|"})
		if r.Intn(3) == 0 {
			return `\Q` + q // unterminated: quotes to the end of the pattern
		}
		return `\Q` + q + `\E`
	case k < 33:
		return "{" + g.pick([]string{"name", "a", "_x1", "eoi", "Name_2", "A"}) + "}"
	case k < 38 && depth < 3:
		open := g.pick([]string{"(", "(", "(", "(?:", "(?i:", "(?-i:", "(?i-:", "(?ii:", "(?-:"})
		return open + g.regex(depth+1) + ")"
	case k < 39:
		return g.pick([]string{"(?i)", "(?-i)", "(?i-)", "(?)", "(?-)", "(?ii-i)"})
	}
	return g.pick(c10Lits)
}

func (g *c10Gen) regex(depth int) string {
	r := g.rng
	nb := 1
	if r.Intn(4) == 0 {
		nb = 2 + r.Intn(2)
	}
	var branches []string
	for b := 0; b < nb; b++ {
		n := r.Intn(5)
		if depth == 0 {
			n = 1 + r.Intn(5)
		}
		var sb strings.Builder
		for i := 0; i < n; i++ {
			sb.WriteString(g.atom(depth))
			if r.Intn(3) == 0 {
				sb.WriteString(g.quant())
				if r.Intn(8) == 0 {
					sb.WriteString(g.quant())
				}
			}
		}
		branches = append(branches, sb.String())
	}
	return strings.Join(branches, "|")
}

var c10Nasty = []string{"(", ")", "[", "]", "{", "}", "|", "*", "+", "?", `\`, "-", "^", ".", ",", ":", "i", "Q", "E", "p", "P", "x", "u", "U", "d", "0", "7", "8", "9", "a", "f", "F", "}", "{", "(?", `\x`, `\u`, `\U`, `\p{`, `\x{`, "[^", "-[", "]]", "\xff", "\xc3", "\x80", "\xe2\x82", "é", "(?i", "{1", `\E`, `\Q`}

func (g *c10Gen) mutate(s string) string {
	r := g.rng
	n := 1 + r.Intn(2)
	for i := 0; i < n; i++ {
		pos := 0
		if len(s) > 0 {
			pos = r.Intn(len(s) + 1)
		}
		switch r.Intn(4) {
		case 0: // delete a byte
			if pos < len(s) {
				s = s[:pos] + s[pos+1:]
			}
		case 1: // truncate
			s = s[:pos]
		default: // insert
			s = s[:pos] + g.pick(c10Nasty) + s[pos:]
		}
	}
	return s
}

// Hand-written patterns: the repository's own test inputs and the corner cases met while reading the code.
var c10Corpus = []string{
	``, `a()`, `(a)`, `((())a())`, `a`, `ab`, `+`, `++`, `|+`, `a|+`, `.+`, `([.a-z])+`, `a.b`, `ab+`, `ab?`, `ab*`, `αβ+`,
	`{abc}`, `{abc}{5}`, `{abc}{5,}`, `{abc}{5,8}`, `{abc}{123,543}`, `ab{1,3}`, `a(b)`, `a(b|c)`, `a(b|c)+`, `[]]`, `[^]]`,
	`[\000-\010\012-\025]`, `[arz\n-]`, `[a-z]`, `[\000-\n\014-\125]`, `[-\n\014-\125]`, `[-a-zA-Z-]`, `0o7(_*7)*_+`,
	`[-[a-z]]`, `[--[a-z]]`, `[A-Z-[D-F]]`, `[A-Z-[D]-[EF]]`, `[\p{Lu}\xc0-\U0010ffff]`, `[\p{Lu}-[\u0100-\U0010ffff]]`,
	`[\p{L}-\p{Lu}-[\u0100-\U0010ffff]]`, `[\p{L}-[\u0100-\U0010ffff]-\p{Lu}]`, `[\p{Any}]`, `[\p{Any}-[\x00\x01\x02]]`,
	`[\p{Any}-[\x00\x01\x02]-[\x80-\U0010ffff]-\p{Lu}]`, `[\p{Any}-\p{L}-[\u0100-\U0010ffff]]`,
	`(?i)abC`, `(?i)[a-en-q]`, `(?i)\u0041`, `(?i)\101b`, `(?i)[^b-e]`, `(?i)+[^]]`, `abc((?i)ab)`, `abc(?i:ab)`, `abc(((?i:ab)))`,
	`abc(((?:ab)))`, `abc(?i)`, `a(?i:a)a`, `(?i)a(?-i:a)a`, `(?i)a(?i-:a(?i)b)a`, `(?i)a(?i-)a(?i)ba`,
	`\(\)`, `\a+\f\n\r\t\v`, `\123\000`, `\x00\x01`, `\_`, `\Q+?-\Eabc`, `\Q+abc+`, `+\Q+*+\E+`, `\d\D`, `\w`, `[^\W]`, `[\W]`, `[\s]`,
	`[^\s]`, `\S`, `[\S]`, `+\+`, `\p{Any}+\pZ`, `\P{Any}+`, `\p{^Any}+`, `\pZ`, `\u1234`, `\u{1234}a`, `\u{123}`, `\u{aBcD}`, `\U00001234`,
	`\U00012345`, "\u0370", "\u0370\u0371+", `(?i)γ`, "\xfe\xfe", "\\Q\xfe\xfe\\E", "\\Q\u0370\xfe\xfe\\E", `(`, `(a`, `)`, `a\`, `\T`, `(a))`,
	`\p{`, `\p{}`, `\p{Lu}`, `\p{z}`, `{1,3}`, `{abc}{543,123}`, `{abc}{,123}`, `{abc}{99999999999999999999}`, `{abc}{1,99999999999999999999}`,
	`{abc}{1,`, `ab{`, `{`, `[a-z`, `[\p{L}-z`, `[qa-\p{L}]`, `[z-a]`, `\00`, `\00a`, `\400`, `\u123`, `\u{ }`, `\U0010ffff`, `\U00110000`,
	`\u0abc`, `[\u0abc]`, `\u00ff`, `\u0100`, `[\u0100]`, `abc(?`, `abc(?ie`, `\u00a0`, `[\u03b1-\u03b3]`, `[α-\u03b3]`, `[0-\u03b3]`, `[α-γ]`, `[0-γ]`,
	`\xff`, `[\xff]`, `(?i)\xe0`, `a{0}`, `(a{0})+`, `a{2,1}`, `a{007}`, `\pL`, `\pé`, `(?)`, `(?-)a`, `[a-\d]`, `[\d-a]`, `[\d-\n]`, `[-\n-\r]`, `[a-]`, `[a-`,
	`[]`, `[^]`, `[]a]`, `{a}{`, `a{1`, `a{1,2`, `}`, `]`, `a|`, `a||b`, `(|)`, `()*`, `(?i:`, `(?i`, "\\\x01", `\p{Greek}`, `(?i)\p{Greek}`, `[\p{Greek}]`,
	`(?i)\w`, `(?i)[\w]`, `(?i)\p{Ascii}`, `\Q\E*`, `*a`, `a{1}{2}`, `(?i)[a-z-[A]]`, `[a-z-[b-c]-\d]`, `[a-z-b]`, `[a-z-]`, `[\d-z]`, `[\d-[5]]`,
	`[a-\x{7a}]`, `[.]`, `é`, `[é]`, `[Ā]`, `\p{Any}`, `\P{^Any}`, `\p{^`, `\p`, `\pZx`, `a{1,}`, `a{9223372036854775807}`, `a{9223372036854775808}`,
	`(?i)(?-i)`, `((?i)a)a`, `(?i)(a(?-i)a)a`, `(?i:a|b)c`, `(?ii--i:a)`, `(?:a)`, `(?é)`, `[^\n-\x{10ffff}]`, `\777`, `\377`, `\378`, `\08`,
	`[^\x00-\xfe]`, `[^\x01-\xff]`, `[^\x00-\x{10fffe}]`, `[^\x00-\x{10ffff}]`, `[^\x01-\x{10fffd}]`, `\P{Any}`, `[^\x00-\xfd\xff]`,
	"\ufffd", `\ufffd`, "[\ufffd]", `[\ufffd]`, "[\ufff0-\ufffd]", `[\ufff0-\ufffd]`, "[\ufffd-\uffff]", "[^\ufffd]", `[^\ufffd]`, "(?i)\ufffd", "(?i)[\ufffd]", "a\ufffdb*", "\ufffd+", "\\Q\ufffd\\E",
	"[\ufffc-\ufffe]", "\ufffe\uffff", "[\uffff]", "\U0010ffff", "[\U0010ffff]", "[\U00010000-\U0010ffff]", `[\U00010000-\U0010ffff]`, "[\u0080-\u07ff]", `[\x80-\u07ff]`, "\u0080", "\u07ff\u0800", "[\u0800-\ud7ff]",
	"[\ud7ff-\ue000]", `[\ud7ff-\ue000]`, "\ud7ff\ue000", "[^\ue000-\ufffd]", "[a-\ufffd]", "[\ufffd-a]", "\\p\ufffd", "{\ufffd}", "(?\ufffd)", "a{1,\ufffd}", "\\\ufffd", "[\\\ufffd]",
	`[A-[B]]`, `[a-[b]]`, `[\p{Zl}-\p{Zp}]`, `\ud800`, `[\ud800-\udfff]`, `\x{0}`, `\x{}`, `\x{10FFFF}`, `\x{110000}`, `\x{0000000041}`, `(?i)k`, `(?i)[k]`,
	`(?i)[^k]`, `(?i)ǅ`, `(?i)\x{1c5}`, `(?i)ß`, `(?i)µ`, `(?i)[µ]`, `(a(?i)b|c)d`, `(?i)\Qabc\E`, `\Qab\Ec*`, `a\Q\E*`, `x\Qab`, `[[:alpha:]]`, `[a&&b]`,
	`\b`, `\z`, `\E`, `\-`, `\ `, `a{,5}`, `a{}`, `{1a}`, `{_a1}`, `{eoi}`, `[\Qa\E]`, `[{a}]`, `\p{Lu}{2}`, `(?i)\p{Lu}`, `(?i)\P{Lu}`, `(?i)\p{Nd}`, `\p{Soft_Dotted}`,
}

// ---- the property function ----

func c10(c *Ctx) {
	rng := c.Rng

	// 1. which of the known deviations does the tree under test show? (each one is a violation of the
	// property on a concrete input; the mirror follows the observed behaviour so that everything else is tied)
	var v c10Variant
	v.laxHex = lex.VerifHexval('Z') != -1
	v.wrap32 = c10Accepts(`\UFFFFFFFF`, false, false) || c10Accepts(`\x{100000041}`, false, false)
	if g, err := lex.VerifAppendNamedSet("Greek", lex.CharsetOptions{}); err == nil {
		v.scriptFold = c10Contains(g, 0xb5)
	}
	if re, err := lex.ParseRegexp(`\u212a`, lex.CharsetOptions{Fold: true, ScanBytes: true}); err == nil {
		vw := lex.VerifView(re)
		v.bytesFoldAny = vw.Op == 2 && c10Contains(vw.Charset, 0x212a)
	}
	c.Extra["observed_variant(laxHex,wrap32,scriptFold,bytesFoldAny)"] = v.String()
	if v.laxHex {
		c.Violate(`C10-hexval: hexval accepts 'G'..'Z' as hexadecimal digits, so the malformed escape \xZZ is accepted and denotes U+0253 (expected: "invalid escape sequence")`,
			`C10-hexval ParseRegexp(`+"`"+`\xZZ`+"`"+`, {}) => `+c10Show(`\xZZ`, false, false))
	}
	if v.wrap32 {
		c.Violate(`C10-escape-wrap: \x{…}/\UHHHHHHHH accumulate in an int32 that wraps around; \UFFFFFFFF is accepted as the rune -1 and \x{100000041} as 'A' (expected: "exceeds unicode.MaxRune")`,
			`C10-escape-wrap ParseRegexp(`+"`"+`\UFFFFFFFF`+"`"+`, {}) => `+c10Show(`\UFFFFFFFF`, false, false)+`; ParseRegexp(`+"`"+`\x{100000041}`+"`"+`, {}) => `+c10Show(`\x{100000041}`, false, false))
	}
	if v.scriptFold {
		c.Violate(`C10-foldscript: appendNamedSet adds unicode.FoldScript[name] even without case folding: \p{Greek} contains U+00B5 (MICRO SIGN, script Common) and U+0345 (COMBINING GREEK YPOGEGRAMMENI, script Inherited) although Fold is off`,
			`C10-foldscript ParseRegexp(`+"`"+`\p{Greek}`+"`"+`, {}) contains U+00B5`)
	}
	if v.bytesFoldAny {
		c.Violate(`C10-bytes-fold: in byte mode with case folding the escape \u212a (KELVIN SIGN) becomes the class {K, k, U+212A}: a rune above 0xff inside a byte-mode class, the UTF-8 bytes of U+212A are no longer matched (expected: the bytes literal e2 84 aa, "no case folding for non-ASCII in bytes mode")`,
			`C10-bytes-fold ParseRegexp(`+"`"+`\u212a`+"`"+`, {Fold, ScanBytes}) => `+c10Show(`\u212a`, true, true))
	}

	c.Rule = "leaf functions (hexval/octval exhaustively over all runes; newCharset/appendRange/invert/subtract/intersect/fold on random range lists " +
		"over small and full code-point universes incl. adjacent, nested, empty and (for newCharset/appendRange) inverted ranges; appendNamedSet on every " +
		"Unicode category/script/property x fold x bytes; parseEscape on generated well-formed and malformed escapes) through lex/verif_export_c10.go; " +
		"lex.ParseRegexp on the repository's test inputs, hand-written corner cases, grammar-generated patterns (literals, escapes, classes with ranges/negation/" +
		"subtraction/sets, groups with flags, \\Q..\\E, {name}, quantifiers) and byte-level mutations of them (unbalanced brackets, bad quantifiers, invalid UTF-8) " +
		"under fold x bytes; non-trivial = pattern of at least 2 bytes / non-empty operands, distinct by (op, options, input). " +
		"Known deviations (C10-hexval, C10-escape-wrap, C10-foldscript, C10-bytes-fold) are probed on the real code, reported as violations while present, " +
		"and followed by the model's Variant switch so the remaining behaviour is still compared on these inputs. Avoided: a quantifier directly after a flags-only " +
		"group such as `ab(?i)*` (Go applies it to the merged literal `ab`), and the escape value 0x80000000 (int32 overflow of lo-1 in invert is not mirrored)."

	c10Leaves(c, v)
	c10Escapes(c, v)

	// 3. ParseRegexp
	run := func(src string, fold, bytes bool, kind string) {
		if c10Avoid(src) {
			c.Count("parse:avoided")
			return
		}
		opts := lex.CharsetOptions{Fold: fold, ScanBytes: bytes}
		res, ok, e := c10Parse(src, opts)
		ans := "err"
		if ok {
			ans = "ok"
		} else if res == "panic" {
			ans = "panic"
			res = "err:0:0"
		} else if e.Offset < 0 || e.Offset > e.EndOffset || e.EndOffset > len(src) {
			c.Violate(fmt.Sprintf("ParseRegexp reports the error %q at [%d,%d], outside the pattern of length %d", e.Msg, e.Offset, e.EndOffset, len(src)),
				fmt.Sprintf("%q %v", src, opts))
		}
		line := fmt.Sprintf("parse %s %s %s %s %s %s", v, b2s(fold), b2s(bytes), c10Hex(src), c10Tabs(src), res)
		key := ""
		if len(src) >= 2 {
			key = fmt.Sprintf("%s|%v|%v", src, fold, bytes)
		}
		c.Count(fmt.Sprintf("parse:%s:%s fold=%s bytes=%s", kind, ans, b2s(fold), b2s(bytes)))
		c10Features(c, src, ok)
		c.Case(line, ans, key)
	}
	for _, src := range c10Corpus {
		for m := 0; m < 4; m++ {
			run(src, m&1 != 0, m&2 != 0, "corpus")
		}
	}
	n := c.N(2500, 60000)
	for i := 0; i < n; i++ {
		fold, bytes := rng.Intn(2) == 0, rng.Intn(3) == 0
		g := &c10Gen{rng: rng, bytes: bytes}
		src := g.regex(0)
		kind := "gen"
		switch k := rng.Intn(10); {
		case k < 3:
			src = g.mutate(src)
			kind = "mutated"
		case k < 4:
			src = src + g.wrapEscape()
			if rng.Intn(2) == 0 {
				src = "[" + g.wrapEscape() + "a]" + src
			}
			kind = "wrap"
		}
		run(src, fold, bytes, kind)
	}
}

func c10Show(src string, fold, bytes bool) string {
	res, _, e := c10Parse(src, lex.CharsetOptions{Fold: fold, ScanBytes: bytes})
	if strings.HasPrefix(res, "err") {
		return "error " + strconv.Quote(e.Msg)
	}
	return res
}

// c10Avoid: inputs outside the compared domain (see c.Rule).
func c10Avoid(src string) bool {
	// a quantifier directly after a flags-only group
	for i := 0; i+1 < len(src); i++ {
		if src[i] == '(' && src[i+1] == '?' {
			j := i + 2
			for j < len(src) && (src[j] == 'i' || src[j] == '-') {
				j++
			}
			if j+1 < len(src) && src[j] == ')' && strings.IndexByte("*+?{", src[j+1]) >= 0 {
				return true
			}
		}
	}
	// the one escape value whose negation overflows in invert
	low := strings.ToLower(src)
	for _, bad := range []string{"80000000"} {
		if strings.Contains(low, bad) {
			return true
		}
	}
	return false
}

func c10Features(c *Ctx, src string, ok bool) {
	if !ok {
		return
	}
	feat := func(name string, present bool) {
		if present {
			c.Count("feature:" + name)
		}
	}
	feat("class", strings.Contains(src, "["))
	feat("negated-class", strings.Contains(src, "[^"))
	feat("subtraction", strings.Contains(src, "-[") || strings.Contains(src, `-\p`) || strings.Contains(src, `-\d`) || strings.Contains(src, `-\w`))
	feat("named-set", strings.Contains(src, `\p`) || strings.Contains(src, `\P`))
	feat("hex-escape", strings.Contains(src, `\x`) || strings.Contains(src, `\u`) || strings.Contains(src, `\U`))
	feat("quoted", strings.Contains(src, `\Q`))
	feat("flags", strings.Contains(src, "(?"))
	feat("group", strings.Contains(src, "("))
	feat("alternation", strings.Contains(src, "|"))
	feat("counted-quantifier", strings.Contains(src, "{0") || strings.Contains(src, "{1") || strings.Contains(src, "{2") || strings.Contains(src, "{3") || strings.Contains(src, "{4"))
	feat("non-ascii", !isASCII(src))
}

func isASCII(s string) bool {
	for i := 0; i < len(s); i++ {
		if s[i] >= 0x80 {
			return false
		}
	}
	return true
}

// ---- leaf functions ----

// c10RandSet returns a normalized range list inside [0,max].
func c10RandSet(r *rand.Rand, max rune) []rune {
	var out []rune
	var next rune
	if r.Intn(3) > 0 {
		next = rune(r.Intn(int(max)/4 + 1))
	}
	n := r.Intn(6)
	for i := 0; i < n && next <= max; i++ {
		lo := next
		var span rune
		switch r.Intn(4) {
		case 0:
			span = 0
		case 1:
			span = rune(r.Intn(4))
		default:
			span = rune(r.Intn(int(max)/3 + 1))
		}
		hi := lo + span
		if hi > max {
			hi = max
		}
		out = append(out, lo, hi)
		gap := rune(2 + r.Intn(3))
		if r.Intn(3) == 0 {
			gap += rune(r.Intn(int(max)/3 + 1))
		}
		next = hi + gap
	}
	return out
}

// c10RandRanges returns an arbitrary (unsorted, overlapping) list of ranges.
func c10RandRanges(r *rand.Rand, max rune, allowInverted bool) []rune {
	var out []rune
	n := r.Intn(7)
	for i := 0; i < n; i++ {
		lo := rune(r.Intn(int(max) + 1))
		hi := lo
		switch r.Intn(4) {
		case 0:
		case 1:
			hi = lo + rune(r.Intn(3))
		default:
			hi = lo + rune(r.Intn(int(max)/2+1))
		}
		if allowInverted && r.Intn(10) == 0 {
			lo, hi = hi+rune(r.Intn(3)), lo
		}
		out = append(out, lo, hi)
		if r.Intn(5) == 0 { // duplicates and neighbours
			out = append(out, hi+1, hi+1+rune(r.Intn(3)))
		}
	}
	return out
}

func c10Max(r *rand.Rand) rune {
	return []rune{12, 40, 255, 0x10ffff}[r.Intn(4)]
}

func c10Clone(l []rune) []rune { return append([]rune(nil), l...) }

func c10Leaves(c *Ctx, v c10Variant) {
	rng := c.Rng
	// hexval / octval: every rune, in chunks
	table := func(f func(rune) rune, lo, hi int) string {
		var parts []string
		for r := lo; r <= hi; r++ {
			if d := f(rune(r)); d != -1 {
				parts = append(parts, fmt.Sprintf("%d:%d", r, d))
			}
		}
		if len(parts) == 0 {
			return "-"
		}
		return strings.Join(parts, ",")
	}
	const chunk = 0x8000
	for lo := -0x8000; lo <= 0x110000; lo += chunk {
		hi := lo + chunk - 1
		key := ""
		if lo == 0 {
			key = "hexval-ascii"
		}
		c.Case(fmt.Sprintf("hexval %s %d %d", b2s(v.laxHex), lo, hi), table(lex.VerifHexval, lo, hi), key)
		c.Case(fmt.Sprintf("octval %d %d", lo, hi), table(lex.VerifOctval, lo, hi), "")
		c.Count("leaf:hexval/octval chunk")
	}
	for _, lo := range []int{-1 << 31, 1<<31 - 0x1000} {
		c.Case(fmt.Sprintf("hexval %s %d %d", b2s(v.laxHex), lo, lo+0xfff), table(lex.VerifHexval, lo, lo+0xfff), "")
	}

	// SimpleFold orbits of the toolchain against the table embedded in the model
	{
		var rows [][]int
		for r := rune(0); r <= unicode.MaxRune; r++ {
			f := unicode.SimpleFold(r)
			if f == r {
				continue
			}
			orbit := []int{int(r)}
			min := r
			for ; f != r; f = unicode.SimpleFold(f) {
				orbit = append(orbit, int(f))
				if f < min {
					min = f
				}
			}
			if min == r {
				sort.Ints(orbit)
				rows = append(rows, orbit)
			}
		}
		c.Case("foldtable", intss(rows), "foldtable")
		c.Extra["simplefold_orbits"] = len(rows)
		c.Extra["unicode_version"] = unicode.Version
	}

	n := c.N(2500, 60000)
	for i := 0; i < n; i++ {
		max := c10Max(rng)
		switch op := rng.Intn(6); op {
		case 0:
			in := c10RandRanges(rng, max, true)
			out := lex.VerifNewCharset(c10Clone(in))
			key := ""
			if len(in) >= 4 {
				key = "newcs " + c10Runes(in)
			}
			c.Count("leaf:newCharset")
			c.Case("newcs "+c10Runes(in), c10Runes(out), key)
		case 1:
			var in []rune
			if rng.Intn(2) == 0 {
				in = c10RandSet(rng, max)
			} else {
				in = c10RandRanges(rng, max, true)
			}
			var lo, hi rune
			if len(in) >= 2 && rng.Intn(3) > 0 { // near the last range
				lo = in[len(in)-2] - 2 + rune(rng.Intn(5))
				hi = in[len(in)-1] - 2 + rune(rng.Intn(5))
				if rng.Intn(3) == 0 {
					lo = in[len(in)-1] + rune(rng.Intn(3))
					hi = lo + rune(rng.Intn(3))
				}
			} else {
				lo = rune(rng.Intn(int(max) + 1))
				hi = lo + rune(rng.Intn(4))
			}
			out := lex.VerifAppendRange(c10Clone(in), lo, hi)
			key := ""
			if len(in) >= 2 {
				key = fmt.Sprintf("append %s %d %d", c10Runes(in), lo, hi)
			}
			c.Count("leaf:appendRange")
			c.Case(fmt.Sprintf("append %s %d %d", c10Runes(in), lo, hi), c10Runes(out), key)
		case 2:
			bytes := rng.Intn(2) == 0
			m := rune(unicode.MaxRune)
			if bytes {
				m = 255
			}
			u := max
			if u > m {
				u = m
			}
			in := c10RandSet(rng, u)
			if rng.Intn(3) == 0 && len(in) >= 2 { // reach the upper bound, or stop one or two short of it
				in[len(in)-1] = m - rune(rng.Intn(3))
				if in[len(in)-2] > in[len(in)-1] {
					in[len(in)-2] = in[len(in)-1]
				}
			}
			if rng.Intn(3) == 0 && len(in) >= 2 && in[1] >= 2 { // start at the lower bound, or just after it
				in[0] = rune(rng.Intn(3))
			}
			out := lex.VerifInvert(c10Clone(in), lex.CharsetOptions{ScanBytes: bytes})
			key := ""
			if len(in) >= 2 {
				key = fmt.Sprintf("invert %v %s", bytes, c10Runes(in))
			}
			c.Count("leaf:invert")
			c.Case(fmt.Sprintf("invert %s %s", b2s(bytes), c10Runes(in)), c10Runes(out), key)
			// direct oracle on witness points
			for _, x := range c10Points(m, in, out) {
				want := x >= 0 && x <= m && !c10Contains(in, x)
				if c10Contains(out, x) != want {
					c.Violate(fmt.Sprintf("invert: code point %d has the wrong membership", x), fmt.Sprintf("invert bytes=%v %v", bytes, in))
					break
				}
			}
		case 3, 4:
			a, b := c10RandSet(rng, max), c10RandSet(rng, max)
			if rng.Intn(5) == 0 {
				b = c10Clone(a)
				if len(b) >= 2 {
					b[len(b)-1] += rune(rng.Intn(2))
					b[0] += rune(rng.Intn(2))
				}
				if len(b) >= 2 && b[0] > b[1] {
					b[0] = b[1]
				}
			}
			name := "subtract"
			var out []rune
			if op == 3 {
				out = lex.VerifSubtract(c10Clone(a), c10Clone(b))
			} else {
				name = "intersect"
				out = lex.VerifIntersect(c10Clone(a), c10Clone(b))
			}
			key := ""
			if len(a) >= 2 && len(b) >= 2 {
				key = fmt.Sprintf("%s %s %s", name, c10Runes(a), c10Runes(b))
			}
			c.Count("leaf:" + name)
			c.Case(fmt.Sprintf("%s %s %s", name, c10Runes(a), c10Runes(b)), c10Runes(out), key)
			for _, x := range c10Points(max, a, b, out) {
				want := c10Contains(a, x) && (c10Contains(b, x) == (op == 4))
				if c10Contains(out, x) != want {
					c.Violate(fmt.Sprintf("%s: code point %d has the wrong membership", name, x), fmt.Sprintf("%v %v", a, b))
					break
				}
			}
		case 5:
			ascii := rng.Intn(2) == 0
			var in []rune
			switch rng.Intn(4) {
			case 0:
				in = c10RandSet(rng, 0x250)
			case 1:
				in = c10RandSet(rng, 0x10ffff)
			case 2: // single runes with interesting orbits
				for _, x := range []rune{'K', 'k', 0x212a, 's', 0x17f, 0xb5, 0x39c, 0x3bc, 0x1c4, 0x1c5, 0x1c6, 0xdf, 0x1e9e, 0x345, 0x399, 0x3b9, 0x1fbe, 'A', 'z', '0', 0xe0, 0xff, 0x178} {
					if rng.Intn(4) == 0 {
						in = append(in, x, x)
					}
				}
				in = lex.VerifNewCharset(in)
			default:
				in = c10RandSet(rng, 0x7f)
			}
			if ascii && rng.Intn(2) == 0 { // byte-mode classes stay below 0x100
				in = lex.VerifIntersect(in, []rune{0, 255})
			}
			out := lex.VerifFold(c10Clone(in), ascii)
			key := ""
			if len(in) >= 2 {
				key = fmt.Sprintf("fold %v %s", ascii, c10Runes(in))
			}
			c.Count("leaf:fold")
			c.Case(fmt.Sprintf("fold %s %s", b2s(ascii), c10Runes(in)), c10Runes(out), key)
		}
	}

	// appendNamedSet: every table of the unicode package (quick tier: a sample of the large maps)
	var names []string
	for n := range unicode.Categories {
		names = append(names, n)
	}
	for n := range unicode.Scripts {
		names = append(names, n)
	}
	for n := range unicode.Properties {
		names = append(names, n)
	}
	sort.Strings(names)
	if c.Tier != "thorough" {
		rng.Shuffle(len(names), func(i, j int) { names[i], names[j] = names[j], names[i] })
		names = append([]string{"L", "Lu", "LC", "Greek", "Common", "Inherited", "Latin", "Soft_Dotted"}, names[:40]...)
	}
	names = append(names, "Any", "Ascii", "Nope", "", "greek", "any")
	for _, name := range names {
		for m := 0; m < 4; m++ {
			fold, bytes := m&1 != 0, m&2 != 0
			if bytes && m == 3 && name != "Any" && name != "Ascii" {
				continue
			}
			out, err := lex.VerifAppendNamedSet(name, lex.CharsetOptions{Fold: fold, ScanBytes: bytes})
			ans := "err"
			if err == nil {
				ans = "ok " + c10Runes(out)
			}
			row, ok := c10TabRow(name)
			if !ok {
				row = "_"
			}
			nm := name
			if nm == "" {
				nm = "\"\""
			}
			c.Count("leaf:appendNamedSet")
			c.Case(fmt.Sprintf("named %s %s %s %s %s", b2s(v.scriptFold), b2s(fold), b2s(bytes), nm, row), ans, "named "+name+b2s(fold)+b2s(bytes))
		}
	}
}

func c10Points(max rune, sets ...[]rune) []rune {
	pts := []rune{-1, 0, 1, max - 1, max, max + 1}
	for _, s := range sets {
		for _, x := range s {
			pts = append(pts, x-1, x, x+1)
		}
	}
	return pts
}

// ---- escapes ----

func c10Escapes(c *Ctx, v c10Variant) {
	rng := c.Rng
	g := &c10Gen{rng: rng}
	tails := []string{"", "", "a", "}", "0", "-z", "]"}
	n := c.N(1500, 40000)
	for i := 0; i < n; i++ {
		var src string
		switch k := rng.Intn(20); {
		case k < 6:
			src = g.hexEscape()
		case k < 8:
			src = g.wrapEscape()
		case k < 10:
			src = g.named()
		case k < 11:
			src = g.pick(c10Sets)
		case k < 13:
			src = g.pick(c10EscPunct)
		case k < 14:
			src = `\` + string(rune(rng.Intn(0x80)))
		case k < 15:
			src = `\` + g.pick(c10NonASCII)
		case k < 16: // octal, valid and not
			src = `\` + fmt.Sprintf("%d%d%d", rng.Intn(10), rng.Intn(10), rng.Intn(10))[:1+rng.Intn(3)]
		case k < 18: // hex digits drawn from a wider alphabet (G..Z, g..z, punctuation)
			const d = "0123456789abcdefABCDEFGgZz:@`/ {}"
			l := []int{2, 4, 8}[rng.Intn(3)]
			b := make([]byte, l)
			for j := range b {
				b[j] = d[rng.Intn(len(d))]
			}
			src = `\` + string("xuU"[rng.Intn(3)]) + string(b)
			if rng.Intn(3) == 0 {
				src = `\x{` + string(b[:1+rng.Intn(l)]) + "}"
			}
		default:
			src = g.mutate(g.hexEscape())
			if !strings.HasPrefix(src, `\`) {
				src = `\` + src
			}
		}
		src += g.pick(tails)
		if !utf8.ValidString(src) || c10Avoid(src) {
			continue
		}
		fold, bytes, standalone := rng.Intn(2) == 0, rng.Intn(3) == 0, rng.Intn(2) == 0
		opts := lex.CharsetOptions{Fold: fold, ScanBytes: bytes}
		ans := func() (ans string) {
			defer func() {
				if r := recover(); r != nil {
					ans = "panic"
				}
			}()
			set, consumed, err := lex.VerifParseEscape(src, opts, standalone)
			if err != nil {
				if err.Offset < 0 || err.Offset > err.EndOffset || err.EndOffset > len(src) {
					c.Violate(fmt.Sprintf("parseEscape reports %q at [%d,%d], outside the text of length %d", err.Msg, err.Offset, err.EndOffset, len(src)), fmt.Sprintf("%q %v", src, opts))
				}
				return "err"
			}
			return fmt.Sprintf("ok %d %s", consumed, c10Runes(set))
		}()
		c.Count("escape:" + strings.SplitN(ans, " ", 2)[0])
		c.Case(fmt.Sprintf("esc %s %s %s %s %s %s", v, b2s(fold), b2s(bytes), b2s(standalone), c10Hex(src), c10Tabs(src)), ans,
			fmt.Sprintf("esc %s %v %v %v", src, fold, bytes, standalone))
	}
}
