package main

import (
	"fmt"
	"math/rand"
	"strings"
)

func init() { props["C02"] = c02 }

// tmArrows renders g with nested `-> T<k>` annotations: every rule gets `-> R<i>` and, randomly, one
// or two parenthesised sub-ranges of its right-hand side get their own arrow, possibly nested and
// possibly optional (`( … -> T)?`, which the compiler expands into two rules).
func tmArrows(r *rand.Rand, g *Gram, name string, o TMOpts) string {
	var sb strings.Builder
	fmt.Fprintf(&sb, "language %s(go);\n\nlang = %q\npackage = \"gp/%s\"\neventBased = true\n", name, name, name)
	if o.Optimize {
		sb.WriteString("optimizeTables = true\n")
	}
	if o.FixWhitespace {
		sb.WriteString("fixWhitespace = true\n")
	}
	sb.WriteString("\n::lexer\n\n")
	if o.Space {
		sb.WriteString("WhiteSpace: /[ ]+/ (space)\n")
	}
	for t := 1; t < g.NT; t++ {
		fmt.Fprintf(&sb, "'%s': /%s/\n", g.SymName(t), g.SymName(t))
	}
	sb.WriteString("\n::parser\n\n")
	var ins []string
	for _, in := range g.Inputs {
		s := g.SymName(in.Sym)
		if !in.Eoi {
			s += " no-eoi"
		}
		ins = append(ins, s)
	}
	fmt.Fprintf(&sb, "%%input %s;\n\n", strings.Join(ins, ", "))
	sym := func(s int) string {
		if s < g.NT {
			return "'" + g.SymName(s) + "'"
		}
		return g.SymName(s)
	}
	nextT := 0
	var order []int
	seen := map[int]bool{}
	for _, rl := range g.Rules {
		if !seen[rl.LHS] {
			seen[rl.LHS] = true
			order = append(order, rl.LHS)
		}
	}
	var render func(rhs []int, depth int) string
	render = func(rhs []int, depth int) string {
		if len(rhs) == 0 {
			return ""
		}
		// maybe wrap a sub-range
		if depth < 2 && r.Intn(2) == 0 {
			s := r.Intn(len(rhs))
			e := s + 1 + r.Intn(len(rhs)-s)
			inner := render(rhs[s:e], depth+1)
			nextT++
			wrapped := fmt.Sprintf("(%s -> T%d)", inner, nextT)
			if r.Intn(4) == 0 {
				wrapped += "?"
			}
			var parts []string
			if s > 0 {
				parts = append(parts, render(rhs[:s], depth+1))
			}
			parts = append(parts, wrapped)
			if e < len(rhs) {
				parts = append(parts, render(rhs[e:], depth+1))
			}
			return strings.Join(parts, " ")
		}
		var parts []string
		for _, s := range rhs {
			parts = append(parts, sym(s))
		}
		return strings.Join(parts, " ")
	}
	for _, lhs := range order {
		fmt.Fprintf(&sb, "%s :\n", g.SymName(lhs))
		first := true
		for i, rl := range g.Rules {
			if rl.LHS != lhs {
				continue
			}
			if first {
				sb.WriteString("    ")
				first = false
			} else {
				sb.WriteString("  | ")
			}
			if len(rl.RHS) == 0 {
				sb.WriteString("%empty")
			} else {
				sb.WriteString(render(rl.RHS, 0))
			}
			if r.Intn(5) != 0 {
				fmt.Fprintf(&sb, " -> R%d", i)
			}
			sb.WriteString("\n")
		}
		sb.WriteString(";\n")
	}
	return sb.String()
}

// spaced inserts random blanks between the characters of text (token offsets then have gaps).
func spaced(r *rand.Rand, text string) string {
	var sb strings.Builder
	for i := 0; i < len(text); i++ {
		if r.Intn(3) == 0 {
			sb.WriteString(strings.Repeat(" ", 1+r.Intn(2)))
		}
		sb.WriteByte(text[i])
	}
	if r.Intn(3) == 0 {
		sb.WriteString(" ")
	}
	return sb.String()
}

// c02XInfo is xinfoStr with the per-rule "trim trailing whitespace" flag computed by an own nullable
// analysis of the compiled rules (NOT by the repository's Grammar.HasTrailingNulls): a rule needs
// trimming iff fixWhitespace is on and its last non-marker right-hand side symbol is nullable.
func c02XInfo(gp *GenParser) string {
	g := gp.G
	p := g.Parser
	nullable := make([]bool, len(g.Syms))
	for ch := true; ch; {
		ch = false
		for _, r := range p.Rules {
			if int(r.LHS) >= len(nullable) || nullable[r.LHS] {
				continue
			}
			all := true
			for _, s := range r.RHS {
				if s.IsStateMarker() {
					continue
				}
				if int(s) >= len(nullable) || !nullable[s] {
					all = false
					break
				}
			}
			if all {
				nullable[r.LHS] = true
				ch = true
			}
		}
	}
	var rules []string
	for _, r := range p.Rules {
		ty := 0
		if r.Type >= 0 {
			ty = r.Type + 1
		}
		fw := false
		if g.Options.FixWhitespace && !g.Options.TokenStream {
			for i := len(r.RHS) - 1; i >= 0; i-- {
				if s := r.RHS[i]; !s.IsStateMarker() {
					fw = int(s) < len(nullable) && nullable[s]
					break
				}
			}
		}
		reps := "-"
		if r.Action != 0 && r.Action < len(p.Actions) {
			var rs []string
			for _, rep := range p.Actions[r.Action].Report {
				rs = append(rs, fmt.Sprintf("%d:%d:%d", rep.Type+1, rep.Start, rep.End))
			}
			if len(rs) > 0 {
				reps = strings.Join(rs, ",")
			}
		}
		rules = append(rules, fmt.Sprintf("%d/%s/%s", ty, b2s(fw), reps))
	}
	rs := "_"
	if len(rules) > 0 {
		rs = strings.Join(rules, ";")
	}
	return fmt.Sprintf("%s %s %s %d %s %s", rs, b2s(g.Options.FixWhitespace), "false", -1, "-", b2s(g.Options.Cancellable))
}

// c02Names translates the runner's `typeId:off:end … ok` into `Name:off:end …` (names from the
// generated listener's node type table) and the final status.
func c02Names(gp *GenParser, out string) (evs string, status string) {
	fs := strings.Fields(out)
	if len(fs) == 0 {
		return "", out
	}
	types := gp.G.Parser.Types.RangeTypes
	var parts []string
	for _, f := range fs[:len(fs)-1] {
		var id, o, e int
		if _, err := fmt.Sscanf(f, "%d:%d:%d", &id, &o, &e); err == nil && id >= 1 && id <= len(types) {
			parts = append(parts, fmt.Sprintf("%s:%d:%d", types[id-1].Name, o, e))
		} else {
			parts = append(parts, "?"+f)
		}
	}
	return strings.Join(parts, " "), fs[len(fs)-1]
}

// c02Spaced: blanks in front of every other token on average and mostly a trailing blank.
func c02Spaced(r *rand.Rand, text string) string {
	var sb strings.Builder
	for i := 0; i < len(text); i++ {
		if r.Intn(2) == 0 {
			sb.WriteString(strings.Repeat(" ", 1+r.Intn(2)))
		}
		sb.WriteByte(text[i])
	}
	if r.Intn(3) != 0 {
		sb.WriteString(" ")
	}
	return sb.String()
}

const c02Rule = "conflict-free random CFGs turned into an annotated SOURCE grammar (c02src.go): rule-level arrows on most rules, groups `( … -> T)` nested up to depth 2 and optionally `?`, arrows around parts that can be syntactically absent, nested choices with arrows on alternatives and on the choice, lists `x+ x* (x -> E)+ ((x -> E) separator 'c')* (x y -> E)+` with an arrow on the element and/or `(list -> L)` on the whole list, two or more lists over the SAME element with the same quantifier/separator that differ only in their arrow, node names reused at two places, state markers (mostly at the very end of a rule, behind nullable nonterminals/star lists), nullable nonterminals inside and at the ends of annotated parts, value types `{int}`/`{string}`/`{[]int}`/… on most terminals and on the nonterminals that are not inputs in three quarters of the grammars (2-3 types per grammar, so a rule's first symbol has the type of its left-hand side in some rules and another one in others: the compiler's default cast-action pass runs next to nested arrows), end-of-rule action code `{ $$ = … }` on about one rule in eight, nonterminal-level arrows `N -> D : …` on some definitions/extend clauses with most alternatives of that clause left without an arrow of their own (they inherit D, the BARE empty alternative - written `%empty` or as nothing - included; an own arrow overrides D), the alternatives of some nonterminals split into the definition and one or two `extend N : …;` clauses rendered further down (preferably so that one clause is a single bare empty alternative; the oracle takes the union), a `number` nonterminal with single-terminal alternatives over two dedicated terminals carrying DIFFERENT rule-level arrows, typed so that the alternatives share one default cast action, `minimizeDFA = true` on a third of the typed grammars, 1-3 inputs incl. `no-eoi` ones (a quarter of the grammars have ONLY a no-eoi input, others have node names reachable only from a no-eoi input); whitespace between tokens and fixWhitespace on/off; the real toolchain compiles the rendered .tm and generates the parsers. For all strings up to length 3, random sentences of the source grammar and mutations: (A) generated parser's listener stream vs the Lean runtime model and vs the stack-free specification Events.eventsOf on the compiled rules (Lean answers SPEC-MISMATCH when they differ; the per-rule trim flag handed to Lean comes from an own nullable analysis, not from Grammar.HasTrailingNulls); (B) SOURCE-LEVEL ORACLE, independent of everything the compiler produced: brute-force derivation counting of the token string against the source grammar (skip if not a sentence or ambiguous; no-eoi inputs: the unique prefix that is a sentence), then the expected events by this rule: every arrow whose part is present yields one node (an absent `?` part yields none; an arrow AROUND an absent optional yields an empty node); range start = offset of the first token of the part; range end = end of its last token, except that a part whose derivation ENDS in an empty nonterminal or empty star list extends to the offset of the following token when fixWhitespace is off (never with fixWhitespace); a part deriving the empty string sits at the following token (start = end = its offset, the text length at end of input); delivery order: nodes of nested nonterminals and list iterations in text order as they complete, then the inline arrows of the enclosing rule (or list iteration) inner before outer and left to right, the rule's own arrow last. The generated parser's stream (type NAMES) must equal the oracle's events on every such sentence. non-trivial = accepted input whose stream contains a nested (non rule-level) node; distinct by (grammar, input)"

func c02(c *Ctx) {
	c.Rule = c02Rule
	nG := c.N(80, 400)
	batchSize := 40
	cfg := GramCfg{MaxNT: 4, MaxNN: 4, MaxRules: 3, MaxRHS: 4, MultiInput: true, PEmpty: 0.25}
	for done := 0; done < nG; done += batchSize {
		b, err := NewBatch()
		if err != nil {
			c.Notes = append(c.Notes, err.Error())
			return
		}
		type item struct {
			sg *SGram
			gp *GenParser
		}
		var items []item
		for k := 0; k < batchSize && done+k < nG; k++ {
			template := k%8 == 3
			var g *Gram
			if !template {
				if g = genConflictFree(c, cfg, true); g == nil {
					continue
				}
			}
			o := TMOpts{Optimize: c.Rng.Intn(3) == 0, Space: c.Rng.Intn(3) != 0}
			if template {
				o.Space = true
			}
			o.FixWhitespace = o.Space && c.Rng.Intn(5) < 3
			minimize := c.Rng.Intn(3) == 0
			name := fmt.Sprintf("e%d", done+k)
			var sg *SGram
			var gp *GenParser
			var feats map[string]bool
			for tries := 0; tries < 8; tries++ {
				if template {
					sg, feats = tmplSrc(c.Rng)
				} else {
					sg, feats = decorateSrc(c.Rng, g, o.FixWhitespace)
				}
				o.Minimize = sg.Types != nil && minimize
				gp = compileTM(name, sg.TM(name, o), o)
				if gp.Err == nil {
					break
				}
				c.Count("decoration rejected by the compiler: " + firstWords(errSummary(gp.Err), 1))
			}
			if gp.Err != nil {
				continue
			}
			for f := range feats {
				c.Count("grammar with " + f)
			}
			if o.FixWhitespace {
				c.Count("grammar with fixWhitespace")
			}
			if o.Minimize {
				c.Count("grammar with minimizeDFA")
				if feats["typed number nonterminal sharing one cast action"] {
					c.Count("grammar with minimizeDFA and a typed number nonterminal sharing one cast action")
				}
			}
			if o.FixWhitespace && feats["marker behind a nullable tail"] {
				c.Count("grammar with fixWhitespace and a marker behind a nullable tail")
			}
			b.Add(gp)
			items = append(items, item{sg, gp})
		}
		if len(items) == 0 {
			b.Close()
			continue
		}
		if err := b.Build(); err != nil {
			c.Violate("generated parsers do not build: "+err.Error(), items[0].gp.TM)
			b.Close()
			continue
		}
		var reqs []RunReq
		type meta struct {
			it    item
			input int
		}
		var metas []meta
		for _, it := range items {
			for idx, in := range it.sg.Inputs {
				var ws [][]int
				cnt := 0
				it.sg.names.AllStrings(2, func(w []int) bool {
					ws = append(ws, w)
					cnt++
					return cnt < 400
				})
				for i := 0; i < 24; i++ {
					if s, ok := it.sg.RandSentence(c.Rng, in.Sym, 3+c.Rng.Intn(9)); ok {
						ws = append(ws, s)
						if i%3 == 0 {
							ws = append(ws, it.sg.names.Mutate(c.Rng, s))
						}
					}
				}
				for _, w := range ws {
					text := wordText(it.sg.names, w)
					if it.gp.Opts.Space {
						if it.gp.Opts.FixWhitespace && len(w) > 2 {
							// a second, denser spacing of the same sentence
							reqs = append(reqs, RunReq{Parser: it.gp.Name, Input: idx, Text: c02Spaced(c.Rng, text)})
							metas = append(metas, meta{it, idx})
						}
						text = spaced(c.Rng, text)
					}
					reqs = append(reqs, RunReq{Parser: it.gp.Name, Input: idx, Text: text})
					metas = append(metas, meta{it, idx})
				}
			}
		}
		outs := b.Run(reqs)
		b.Close()
		for i, m := range metas {
			gp := m.it.gp
			t := gp.G.Parser.Tables
			nt := gp.G.Parser.NumTerminals
			text := reqs[i].Text
			toks, _ := tokenize(gp, text)
			out := outs[i]
			key := ""
			real, status := c02Names(gp, out)
			if status == "ok" {
				c.Count("accepted")
				for _, f := range strings.Fields(real) {
					if !strings.HasPrefix(f, "R") {
						key = gp.TM + "\x00" + text
					}
				}
			} else {
				c.Count("rejected input")
			}
			c.Debugf("input %d %q of %s", m.input, text, gp.TM)
			c.Case(fmt.Sprintf("events %s %s %s %d %s %d", tablesStr(t, nt), b2s(t.Optimized != nil), c02XInfo(gp), m.input, toks, len(text)), out, key)
			if out == "crash" || strings.HasSuffix(out, "panic") {
				c.Violate("parser panicked: "+out, fmt.Sprintf("%q with %s", text, gp.TM))
				continue
			}
			// (B) the source-level oracle
			in := m.it.sg.Inputs[m.input]
			stoks := srcTokens(text)
			or := newSrcOracle(m.it.sg, stoks, len(text), gp.Opts.FixWhitespace)
			exp, consumed, verdict := or.Expect(in)
			c.Count("oracle: " + verdict)
			if verdict != "unique" {
				continue
			}
			where := fmt.Sprintf("input %q through %s of grammar:\n%s", text, m.it.sg.names.SymName(in.Sym), gp.TM)
			if status != "ok" {
				if consumed == len(stoks) {
					c.Violate(fmt.Sprintf("a sentence of the source grammar (unique derivation) is rejected by the generated parser: %s; expected events %s", out, showSrcEvents(exp)), where)
				} else {
					c.Count("oracle: prefix sentence, parser went on (skipped)")
				}
				continue
			}
			c.Count("oracle: compared")
			if want := showSrcEvents(exp); want != real {
				c.Violate(fmt.Sprintf("listener events differ from the source-level derivation: expected [%s] actual [%s]", want, real), where)
			}
		}
	}
}
