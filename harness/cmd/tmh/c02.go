package main

import (
	"fmt"
	"math/rand"
	"strings"
)

func init() { props["C02"] = c02 }

// tmArrows renders g with nested `-> T<k>` annotations: every rule gets `-> R<i>` and, randomly, one
// or two parenthesised sub-ranges of its right-hand side get their own arrow, possibly nested and
// possibly optional (`( … -> T)?`, which the compiler expands into two rules).
func tmArrows(r *rand.Rand, g *Gram, name string, o TMOpts) string {
	var sb strings.Builder
	fmt.Fprintf(&sb, "language %s(go);\n\nlang = %q\npackage = \"gp/%s\"\neventBased = true\n", name, name, name)
	if o.Optimize {
		sb.WriteString("optimizeTables = true\n")
	}
	if o.FixWhitespace {
		sb.WriteString("fixWhitespace = true\n")
	}
	sb.WriteString("\n::lexer\n\n")
	if o.Space {
		sb.WriteString("WhiteSpace: /[ ]+/ (space)\n")
	}
	for t := 1; t < g.NT; t++ {
		fmt.Fprintf(&sb, "'%s': /%s/\n", g.SymName(t), g.SymName(t))
	}
	sb.WriteString("\n::parser\n\n")
	var ins []string
	for _, in := range g.Inputs {
		s := g.SymName(in.Sym)
		if !in.Eoi {
			s += " no-eoi"
		}
		ins = append(ins, s)
	}
	fmt.Fprintf(&sb, "%%input %s;\n\n", strings.Join(ins, ", "))
	sym := func(s int) string {
		if s < g.NT {
			return "'" + g.SymName(s) + "'"
		}
		return g.SymName(s)
	}
	nextT := 0
	var order []int
	seen := map[int]bool{}
	for _, rl := range g.Rules {
		if !seen[rl.LHS] {
			seen[rl.LHS] = true
			order = append(order, rl.LHS)
		}
	}
	var render func(rhs []int, depth int) string
	render = func(rhs []int, depth int) string {
		if len(rhs) == 0 {
			return ""
		}
		// maybe wrap a sub-range
		if depth < 2 && r.Intn(2) == 0 {
			s := r.Intn(len(rhs))
			e := s + 1 + r.Intn(len(rhs)-s)
			inner := render(rhs[s:e], depth+1)
			nextT++
			wrapped := fmt.Sprintf("(%s -> T%d)", inner, nextT)
			if r.Intn(4) == 0 {
				wrapped += "?"
			}
			var parts []string
			if s > 0 {
				parts = append(parts, render(rhs[:s], depth+1))
			}
			parts = append(parts, wrapped)
			if e < len(rhs) {
				parts = append(parts, render(rhs[e:], depth+1))
			}
			return strings.Join(parts, " ")
		}
		var parts []string
		for _, s := range rhs {
			parts = append(parts, sym(s))
		}
		return strings.Join(parts, " ")
	}
	for _, lhs := range order {
		fmt.Fprintf(&sb, "%s :\n", g.SymName(lhs))
		first := true
		for i, rl := range g.Rules {
			if rl.LHS != lhs {
				continue
			}
			if first {
				sb.WriteString("    ")
				first = false
			} else {
				sb.WriteString("  | ")
			}
			if len(rl.RHS) == 0 {
				sb.WriteString("%empty")
			} else {
				sb.WriteString(render(rl.RHS, 0))
			}
			if r.Intn(5) != 0 {
				fmt.Fprintf(&sb, " -> R%d", i)
			}
			sb.WriteString("\n")
		}
		sb.WriteString(";\n")
	}
	return sb.String()
}

// spaced inserts random blanks between the characters of text (token offsets then have gaps).
func spaced(r *rand.Rand, text string) string {
	var sb strings.Builder
	for i := 0; i < len(text); i++ {
		if r.Intn(3) == 0 {
			sb.WriteString(strings.Repeat(" ", 1+r.Intn(2)))
		}
		sb.WriteByte(text[i])
	}
	if r.Intn(3) == 0 {
		sb.WriteString(" ")
	}
	return sb.String()
}

func c02(c *Ctx) {
	c.Rule = "conflict-free random CFGs decorated with nested arrow annotations: `-> R<i>` on most rules plus parenthesised sub-ranges `( … -> T<k>)`, nested up to depth 2 and optionally `?` (expanded by the compiler), with nullable nonterminals inside and at the ends of annotated parts; whitespace between tokens and fixWhitespace on/off; the real toolchain generates the parsers; for sentences (random derivations + all strings up to length 4): the generated parser's listener stream vs (1) the Lean runtime model and (2) the stack-free specification Events.eventsOf evaluated on the derivation tree (Lean answers SPEC-MISMATCH when model and specification differ); non-trivial = accepted input whose stream contains a nested (T) node; distinct by (grammar, input)"
	nG := c.N(20, 300)
	batchSize := 20
	cfg := GramCfg{MaxNT: 4, MaxNN: 4, MaxRules: 3, MaxRHS: 4, MultiInput: true, PEmpty: 0.25}
	for done := 0; done < nG; done += batchSize {
		b, err := NewBatch()
		if err != nil {
			c.Notes = append(c.Notes, err.Error())
			return
		}
		type item struct {
			g  *Gram
			gp *GenParser
		}
		var items []item
		for k := 0; k < batchSize && done+k < nG; k++ {
			g := genConflictFree(c, cfg, true)
			if g == nil {
				continue
			}
			o := TMOpts{Optimize: c.Rng.Intn(3) == 0, Space: c.Rng.Intn(2) == 0}
			o.FixWhitespace = o.Space && c.Rng.Intn(2) == 0
			name := fmt.Sprintf("e%d", done+k)
			gp := compileTM(name, tmArrows(c.Rng, g, name, o), o)
			if gp.Err != nil {
				c.Count("rejected: " + firstWords(errSummary(gp.Err), 6))
				continue
			}
			b.Add(gp)
			items = append(items, item{g, gp})
		}
		if len(items) == 0 {
			b.Close()
			continue
		}
		if err := b.Build(); err != nil {
			c.Violate("generated parsers do not build: "+err.Error(), items[0].gp.TM)
			b.Close()
			continue
		}
		var reqs []RunReq
		type meta struct {
			it    item
			input int
		}
		var metas []meta
		for _, it := range items {
			for idx, in := range it.g.Inputs {
				for _, w := range sampleWords(c, it.g, in.Sym, 3, 10) {
					text := wordText(it.g, w)
					if it.gp.Opts.Space {
						text = spaced(c.Rng, text)
					}
					reqs = append(reqs, RunReq{Parser: it.gp.Name, Input: idx, Text: text})
					metas = append(metas, meta{it, idx})
				}
			}
		}
		outs := b.Run(reqs)
		b.Close()
		for i, m := range metas {
			gp := m.it.gp
			t := gp.G.Parser.Tables
			nt := gp.G.Parser.NumTerminals
			text := reqs[i].Text
			toks, _ := tokenize(gp, text)
			out := outs[i]
			key := ""
			if strings.HasSuffix(out, "ok") {
				c.Count("accepted")
				// nested node present?
				types := gp.G.Parser.Types.RangeTypes
				for _, f := range strings.Fields(out) {
					var id int
					if _, err := fmt.Sscanf(f, "%d:", &id); err == nil && id >= 1 && id <= len(types) && strings.HasPrefix(types[id-1].Name, "T") {
						key = gp.TM + "\x00" + text
					}
				}
			} else {
				c.Count("rejected input")
			}
			c.Debugf("input %d %q of %s", m.input, text, gp.TM)
			c.Case(fmt.Sprintf("events %s %s %s %d %s %d", tablesStr(t, nt), b2s(t.Optimized != nil), xinfoStr(gp), m.input, toks, len(text)), out, key)
			if out == "crash" || strings.HasSuffix(out, "panic") {
				c.Violate("parser panicked: "+out, fmt.Sprintf("%q with %s", text, gp.TM))
			}
		}
	}
}
