package main

import (
	"bytes"
	"fmt"
	"os"
	"os/exec"
	"sort"
	"strconv"
	"strings"

	"github.com/inspirer/textmapper/lalr"
	"github.com/inspirer/textmapper/status"
)

func init() { props["C08"] = c08 }

// ---- alternatives and their protocol encoding ----

type c08Lit struct {
	in  int
	neg bool
}

type c08Alt struct {
	lits   []c08Lit
	target int
}

func c08Encode(alts []c08Alt) string {
	if len(alts) == 0 {
		return "_"
	}
	rows := make([]string, len(alts))
	for i, a := range alts {
		var parts []string
		for _, l := range a.lits {
			v := 2 * l.in
			if l.neg {
				v++
			}
			parts = append(parts, strconv.Itoa(v))
		}
		parts = append(parts, strconv.Itoa(a.target))
		rows[i] = strings.Join(parts, ",")
	}
	return strings.Join(rows, ";")
}

func c08ToLalr(alts []c08Alt) []lalr.Lookahead {
	ret := make([]lalr.Lookahead, len(alts))
	for i, a := range alts {
		la := lalr.Lookahead{Nonterminal: lalr.Sym(a.target), Origin: c08Node(i)}
		for _, l := range a.lits {
			la.Predicates = append(la.Predicates, lalr.Predicate{Input: int32(l.in), Negated: l.neg})
		}
		ret[i] = la
	}
	return ret
}

type c08Node int

func (n c08Node) SourceRange() status.SourceRange {
	return status.SourceRange{Filename: "c08", Line: int(n) + 1, Column: 1}
}

func c08NumInputs(alts []c08Alt) int {
	n := 0
	for _, a := range alts {
		for _, l := range a.lits {
			if l.in+1 > n {
				n = l.in + 1
			}
		}
	}
	return n
}

func c08Sat(a c08Alt, m int) bool {
	for _, l := range a.lits {
		if (m>>uint(l.in)&1 == 1) == l.neg {
			return false
		}
	}
	return true
}

// c08Eval evaluates the real rule the way the generated `if … else if … else` chain does.
func c08Eval(r lalr.LookaheadRule, m int) int {
	for _, c := range r.Cases {
		if (m>>uint(c.Input)&1 == 1) != c.Negated {
			return int(c.Target)
		}
	}
	return int(r.DefaultTarget)
}

// c08Table is the semantic observable: the target selected under every valuation that
// satisfies exactly one alternative (-1 elsewhere).
func c08Table(alts []c08Alt, r lalr.LookaheadRule) string {
	n := c08NumInputs(alts)
	tab := make([]int, 1<<uint(n))
	for m := range tab {
		cnt := 0
		for _, a := range alts {
			if c08Sat(a, m) {
				cnt++
			}
		}
		tab[m] = -1
		if cnt == 1 {
			tab[m] = c08Eval(r, m)
		}
	}
	return ints(tab)
}

func c08Exact(r lalr.LookaheadRule) string {
	var parts []string
	for _, c := range r.Cases {
		v := 2 * int(c.Input)
		if c.Negated {
			v++
		}
		parts = append(parts, fmt.Sprintf("%d:%d", v, int(c.Target)))
	}
	cs := "-"
	if len(parts) > 0 {
		cs = strings.Join(parts, ",")
	}
	return fmt.Sprintf("ok %s %d", cs, int(r.DefaultTarget))
}

// c08Run calls the real constructor; panics become the answer "panic".
func c08Run(alts []c08Alt) (rule lalr.LookaheadRule, kind string) {
	defer func() {
		if r := recover(); r != nil {
			kind = "panic"
		}
	}()
	return lalr.VerifNewLookaheadRule(c08ToLalr(alts))
}

// c08Oracle brute-forces the property on an accepted set: every valuation satisfying exactly one
// alternative selects its target, no valuation satisfies two alternatives, and the orders in
// which the alternatives list the predicate inputs determine exactly one total order.
func c08Oracle(c *Ctx, alts []c08Alt, r lalr.LookaheadRule, line string) {
	n := c08NumInputs(alts)
	for m := 0; m < 1<<uint(n); m++ {
		var sat []int
		for i, a := range alts {
			if c08Sat(a, m) {
				sat = append(sat, i)
			}
		}
		if len(sat) >= 2 {
			c.Violate(fmt.Sprintf("accepted although valuation %d satisfies alternatives #%d and #%d (not mutually exclusive)", m, sat[0], sat[1]), line)
			return
		}
		if len(sat) == 1 {
			if got := c08Eval(r, m); got != alts[sat[0]].target {
				c.Violate(fmt.Sprintf("valuation %d satisfies only alternative #%d (target %d) but the decision chain %s selects %d", m, sat[0], alts[sat[0]].target, c08Exact(r), got), line)
				return
			}
		}
	}
	// order: transitive closure of "listed before"
	var before [8][8]bool
	used := map[int]bool{}
	for _, a := range alts {
		for i, x := range a.lits {
			used[x.in] = true
			for _, y := range a.lits[i+1:] {
				before[x.in][y.in] = true
			}
		}
	}
	for k := 0; k < n; k++ {
		for i := 0; i < n; i++ {
			for j := 0; j < n; j++ {
				if before[i][k] && before[k][j] {
					before[i][j] = true
				}
			}
		}
	}
	for i := 0; i < n; i++ {
		if before[i][i] {
			c.Violate(fmt.Sprintf("accepted although predicate input %d is ordered inconsistently (cycle)", i), line)
			return
		}
		for j := 0; j < i; j++ {
			if used[i] && used[j] && !before[i][j] && !before[j][i] {
				c.Violate(fmt.Sprintf("accepted although the relative order of predicate inputs %d and %d is not determined", j, i), line)
				return
			}
		}
	}
}

// ---- generators ----

func c08SortBy(lits []c08Lit, rank []int) {
	sort.SliceStable(lits, func(i, j int) bool { return rank[lits[i].in] < rank[lits[j].in] })
}

// decision-list shaped: alternative i is separated from all later ones by literal x_i.
func c08GenList(c *Ctx, nIn, k int) []c08Alt {
	r := c.Rng
	perm := r.Perm(nIn)
	nUsed := k - 1 + r.Intn(nIn-(k-1)+1)
	used := perm[:nUsed]
	rank := make([]int, nIn)
	for i, x := range r.Perm(nIn) {
		rank[x] = i
	}
	xs := used[:k-1]
	pol := make([]bool, k-1)
	for i := range pol {
		pol[i] = r.Intn(2) == 0
	}
	pExtra := []float64{0, 0.3, 0.7, 1}[r.Intn(4)]
	full := r.Intn(10) < 7
	fullAlt := r.Intn(k)
	alts := make([]c08Alt, k)
	for i := range alts {
		var lits []c08Lit
		have := map[int]bool{}
		for j := 0; j < i && j < k-1; j++ {
			lits = append(lits, c08Lit{xs[j], !pol[j]})
			have[xs[j]] = true
		}
		if i < k-1 {
			lits = append(lits, c08Lit{xs[i], pol[i]})
			have[xs[i]] = true
		}
		for _, x := range used {
			if !have[x] && (r.Float64() < pExtra || (full && i == fullAlt)) {
				lits = append(lits, c08Lit{x, r.Intn(2) == 0})
			}
		}
		c08SortBy(lits, rank)
		alts[i] = c08Alt{lits, 10 + i}
	}
	return alts
}

// decision-tree shaped: leaves of a random binary tree whose inner nodes test inputs in an
// order compatible with one global ranking.
func c08GenTree(c *Ctx, nIn, k int) []c08Alt {
	r := c.Rng
	order := r.Perm(nIn) // global ranking: order[0] first
	var alts []c08Alt
	var build func(path []c08Lit, from, leaves int)
	build = func(path []c08Lit, from, leaves int) {
		if leaves <= 1 || from >= nIn {
			alts = append(alts, c08Alt{append([]c08Lit(nil), path...), 10 + len(alts)})
			return
		}
		pos := from
		if r.Intn(3) == 0 {
			pos = from + r.Intn(nIn-from)
		}
		x := order[pos]
		left := 1
		if r.Intn(3) == 0 {
			left = 1 + r.Intn(leaves-1)
		}
		neg := r.Intn(2) == 0
		if r.Intn(2) == 0 {
			left = leaves - left
		}
		build(append(path, c08Lit{x, neg}), pos+1, left)
		build(append(path, c08Lit{x, !neg}), pos+1, leaves-left)
	}
	build(nil, 0, k)
	return alts
}

func c08GenRandom(c *Ctx, nIn, k int) []c08Alt {
	r := c.Rng
	rank := make([]int, nIn)
	for i, x := range r.Perm(nIn) {
		rank[x] = i
	}
	sorted := r.Intn(3) > 0
	alts := make([]c08Alt, k)
	for i := range alts {
		var lits []c08Lit
		for _, x := range r.Perm(nIn)[:r.Intn(nIn+1)] {
			lits = append(lits, c08Lit{x, r.Intn(2) == 0})
		}
		if sorted {
			c08SortBy(lits, rank)
		}
		alts[i] = c08Alt{lits, 10 + i}
	}
	return alts
}

func c08Mutate(c *Ctx, alts []c08Alt, nIn int) {
	r := c.Rng
	a := &alts[r.Intn(len(alts))]
	switch r.Intn(7) {
	case 0: // flip a negation
		if len(a.lits) > 0 {
			i := r.Intn(len(a.lits))
			a.lits[i].neg = !a.lits[i].neg
		}
	case 1: // drop a literal
		if len(a.lits) > 0 {
			i := r.Intn(len(a.lits))
			a.lits = append(append([]c08Lit(nil), a.lits[:i]...), a.lits[i+1:]...)
		}
	case 2: // swap two adjacent literals (order inconsistency)
		if len(a.lits) > 1 {
			i := r.Intn(len(a.lits) - 1)
			a.lits[i], a.lits[i+1] = a.lits[i+1], a.lits[i]
		}
	case 3: // insert a literal anywhere (possibly a duplicate input)
		i := r.Intn(len(a.lits) + 1)
		l := c08Lit{r.Intn(nIn), r.Intn(2) == 0}
		a.lits = append(append(append([]c08Lit(nil), a.lits[:i]...), l), a.lits[i:]...)
	case 4: // retarget a literal
		if len(a.lits) > 0 {
			a.lits[r.Intn(len(a.lits))].in = r.Intn(nIn)
		}
	case 5: // share a target
		a.target = alts[r.Intn(len(alts))].target
	case 6: // copy another alternative's literals
		b := alts[r.Intn(len(alts))]
		a.lits = append([]c08Lit(nil), b.lits...)
	}
}

func c08Shuffle(c *Ctx, alts []c08Alt) {
	c.Rng.Shuffle(len(alts), func(i, j int) { alts[i], alts[j] = alts[j], alts[i] })
}

// ---- the planner path: lalr.Compile on a grammar whose states reduce several lookahead nonterminals ----

// c08Compile builds
//
//	S : L_i t_j f (i in relA[j]) | 'b' L_i t_j f (i in relB[j]) ;  P_x : t_0 ;  L_i : (?= …) ;
//
// with inputs P_0 … P_{n-1}, S.  The start state of S reduces L_i on terminal t_j for every
// i in relA[j], the state after 'b' for every i in relB[j]: different terminals of one state see
// different subsets of the lookahead nonterminals.  ruleAction/addRule merge them terminal by
// terminal and planner.compile builds one LookaheadRule per distinct set.  For every
// (state, terminal) the action is read back from Tables.Action/Lalr and the decision list found
// there is checked against the alternatives that really conflict on THAT terminal.
func c08Compile(c *Ctx, alts []c08Alt, nIn int, relA, relB [][]int, laOrder []int, family string) {
	m := len(relA)
	if len(relB) > m {
		m = len(relB)
	}
	const tB = 1
	tT := func(j int) int { return 2 + j }
	nFollow := 0
	for _, r := range relA {
		nFollow += len(r)
	}
	for _, r := range relB {
		nFollow += len(r)
	}
	terms := 2 + m + nFollow
	symS := terms
	symP := func(x int) int { return terms + 1 + x }
	symL := func(i int) int { return terms + 1 + nIn + i }
	g := &lalr.Grammar{Terminals: terms, Origin: c08Node(1000)}
	g.Symbols = append(g.Symbols, "EOI", "b")
	for j := 0; j < m; j++ {
		g.Symbols = append(g.Symbols, fmt.Sprintf("t%d", j))
	}
	for i := 0; i < nFollow; i++ {
		g.Symbols = append(g.Symbols, fmt.Sprintf("f%d", i))
	}
	g.Symbols = append(g.Symbols, "S")
	for x := 0; x < nIn; x++ {
		g.Symbols = append(g.Symbols, fmt.Sprintf("P%d", x))
		g.Inputs = append(g.Inputs, lalr.Input{Nonterminal: lalr.Sym(symP(x)), Eoi: false})
	}
	g.Inputs = append(g.Inputs, lalr.Input{Nonterminal: lalr.Sym(symS), Eoi: true})
	for i := range alts {
		g.Symbols = append(g.Symbols, fmt.Sprintf("L%d", i))
	}
	f := 0
	type prod struct {
		i, j int
		b    bool
	}
	var prods []prod
	for j, r := range relA {
		for _, i := range r {
			prods = append(prods, prod{i, j, false})
		}
	}
	for j, r := range relB {
		for _, i := range r {
			prods = append(prods, prod{i, j, true})
		}
	}
	// rule order decides the order in which ruleAction meets the conflicting reductions
	c.Rng.Shuffle(len(prods), func(a, b int) { prods[a], prods[b] = prods[b], prods[a] })
	for _, p := range prods {
		rhs := []lalr.Sym{lalr.Sym(symL(p.i)), lalr.Sym(tT(p.j)), lalr.Sym(2 + m + f)}
		if p.b {
			rhs = append([]lalr.Sym{tB}, rhs...)
		}
		g.Rules = append(g.Rules, lalr.Rule{LHS: lalr.Sym(symS), RHS: rhs, Type: -1, Origin: c08Node(100 + f)})
		f++
	}
	for x := 0; x < nIn; x++ {
		g.Rules = append(g.Rules, lalr.Rule{LHS: lalr.Sym(symP(x)), RHS: []lalr.Sym{lalr.Sym(tT(0))}, Type: -1, Origin: c08Node(200 + x)})
	}
	pos := make([]int, len(alts))       // alternative -> index in g.Lookaheads
	emptyRule := make([]int, len(alts)) // alternative -> its empty rule L_i :
	for p, i := range laOrder {
		pos[i] = p
		la := lalr.Lookahead{Nonterminal: lalr.Sym(symL(i)), Origin: c08Node(i)}
		for _, l := range alts[i].lits {
			la.Predicates = append(la.Predicates, lalr.Predicate{Input: int32(l.in), Negated: l.neg})
		}
		g.Lookaheads = append(g.Lookaheads, la)
		emptyRule[i] = len(g.Rules)
		g.Rules = append(g.Rules, lalr.Rule{LHS: lalr.Sym(symL(i)), Type: -1, Origin: c08Node(i)})
	}

	var t *lalr.Tables
	var err error
	panicked := false
	func() {
		defer func() {
			if r := recover(); r != nil {
				panicked = true
			}
		}()
		t, err = lalr.Compile(g, lalr.Options{})
	}()
	laErr := false
	if err != nil {
		for _, e := range status.FromError(err) {
			if strings.Contains(e.Msg, "Lookaheads must use mutually exclusive conditions") {
				laErr = true
			}
		}
	}
	describe := func() string {
		var sb strings.Builder
		fmt.Fprintf(&sb, "lalr.Compile grammar: inputs P0..P%d,S; lookaheads(in g.Lookaheads order):", nIn-1)
		for _, i := range laOrder {
			fmt.Fprintf(&sb, " L%d=%s", i, c08Encode([]c08Alt{alts[i]}))
		}
		sb.WriteString("; S rules:")
		for _, p := range prods {
			if p.b {
				sb.WriteString(" b")
			}
			fmt.Fprintf(&sb, " L%d t%d f |", p.i, p.j)
		}
		return sb.String()
	}
	anyPlaceholder := false
	for si, rel := range [][][]int{relA, relB} {
		for j, members := range rel {
			if len(members) == 0 {
				continue
			}
			// planner order: sorted by index in g.Lookaheads
			sorted := append([]int(nil), members...)
			sort.Slice(sorted, func(a, b int) bool { return pos[sorted[a]] < pos[sorted[b]] })
			var in []c08Alt
			for _, i := range sorted {
				in = append(in, c08Alt{alts[i].lits, symL(i)})
			}
			line := "rule " + c08Encode(in)
			key := "compile " + line
			if len(members) >= 2 {
				c.Count(fmt.Sprintf("%s state%d conflict size=%d", family, si+1, len(members)))
			}
			if panicked || t == nil {
				if len(members) >= 2 {
					c.Case(line, "panic", key)
				}
				continue
			}
			state := nIn // start state of input #nIn (S)
			if si == 1 {
				state = lalr.VerifGotoState(t, nIn, tB)
			}
			ruleNo := -1
			if state >= 0 && state < len(t.Action) {
				if a := t.Action[state]; a >= 0 {
					ruleNo = a
				} else if a < -2 {
					for i := -3 - a; i+1 < len(t.Lalr) && t.Lalr[i] >= 0; i += 2 {
						if t.Lalr[i] == tT(j) {
							ruleNo = t.Lalr[i+1]
						}
					}
				}
			}
			if len(members) == 1 {
				// no conflict on this terminal: the lookahead nonterminal is reduced unconditionally
				if ruleNo != emptyRule[members[0]] {
					c.Violate(fmt.Sprintf("state %d terminal t%d: only L%d can be reduced but the table action is %d (expected rule %d)", state, j, members[0], ruleNo, emptyRule[members[0]]), describe())
				}
				continue
			}
			idx := ruleNo - len(g.Rules)
			if idx < 0 || idx >= len(t.Lookaheads) {
				c.Case(line, fmt.Sprintf("no-lookahead-rule state=%d action=%d", state, ruleNo), key)
				continue
			}
			rule := t.Lookaheads[idx]
			if len(rule.Cases) == 0 {
				// the placeholder planner.compile installs after an error
				anyPlaceholder = true
				c.Count(family + " result=err")
				if !laErr {
					c.Case(line, "err-without-diagnostic", key)
					continue
				}
				c.Case(line, "err", key)
				continue
			}
			if t.RuleLen[ruleNo] != 0 || t.RuleSymbol[ruleNo] != int(rule.DefaultTarget) {
				c.Case(line, "bad-rule-tables", key)
				continue
			}
			c.Count(family + " result=ok")
			c.Case(line, "ok "+c08Table(in, rule), key)
			before := len(c.Violations)
			c08Oracle(c, in, rule, line)
			if len(c.Violations) > before {
				v := &c.Violations[len(c.Violations)-1]
				v.What = fmt.Sprintf("state %d terminal t%d (conflicting: %v): %s", state, j, sorted, v.What)
				v.Input = v.Input + " ## " + describe()
			}
		}
	}
	if laErr && !anyPlaceholder && !panicked {
		c.Violate("lalr.Compile reported a lookahead error but every merged rule was built", describe())
	}
}

func c08(c *Ctx) {
	c.Rule = "(A) constructor: sets of 0-6 alternatives over 1-5 predicate inputs: 40% decision-list shaped (accepted by construction when the order is total), " +
		"20% decision-tree shaped (exclusive, often not decidable by a list), 30% unconstrained random, 10% degenerate (0/1 alternatives, empty conjunctions, repeated inputs); " +
		"35% get 1-2 mutations (flip/drop/swap/insert/retarget literal, shared target, copied conjunction); alternatives shuffled; " +
		"plus every pair of alternatives with <=2 literals over 2 inputs (thorough: also triples, and pairs over 3 inputs with <=3 literals); " +
		"real lalr.newLookaheadRule via hook, answer = accept/reject + target chosen on every valuation satisfying exactly one alternative. " +
		"(B) planner through lalr.Compile: grammars S: L_i t_j f | b L_i t_j f where every terminal t_j of a state is followed by its own subset of the lookahead nonterminals " +
		"(ruleAction/addRule/planner.compile); for every (state, terminal) the action is read back from Tables.Action/Lalr/Lookaheads and the decision list is checked against the alternatives conflicting on THAT terminal " +
		"(single candidate: must be the plain empty rule). " +
		"(C) end to end: grammars Input: (?= P & !Q ...) F_i T T -> R<i> with 2-4 alternatives (decision-list shaped, 15% mutated; first-token sets F_i all terminals or random subsets; predicates = random prefix-free finite languages) " +
		"(some predicate nonterminals are ALSO declared as regular `%input P;` with eoi or as `%input P no-eoi;`) plus four fixed shapes (negated case inside the list; per-terminal subsets; predicate that is also an eoi input; nested lookahead with recursiveLookaheads so that the template function lookaheadRule runs) go through the real compiler+generator, each as cancellable and non-cancellable parser with/without optimizeTables; " +
		"the generated parsers run on all token strings of length 3; oracle: predicate outcomes by brute-force prefix recognition, expected alternative = the unique one (among those that can start with the first token) whose conjunction holds; " +
		"the same (alternatives, outcomes) go to the Lean mirror's decision chain. " +
		"table level: every case of Tables.Lookaheads of the compiled grammar must be bound to a NO-EOI entry point of its predicate nonterminal and, read that way, decide correctly under all predicate outcomes. " +
		"Brute-force oracle over all valuations in (A),(B). non-trivial = at least 2 alternatives with a predicate; distinct by alternative list (A,B) / parser+input (C)"
	n := c.N(4000, 300000)
	var exactLines, exactGo []string
	emit := func(alts []c08Alt, gen string) {
		line := "rule " + c08Encode(alts)
		rule, kind := c08Run(alts)
		nontrivial := 0
		for _, a := range alts {
			if len(a.lits) > 0 {
				nontrivial++
			}
		}
		key := ""
		if nontrivial >= 2 {
			key = line
		}
		res := kind
		if kind == "" {
			res = "ok"
		}
		c.Count("gen=" + gen + " result=" + res)
		c.Count(fmt.Sprintf("alternatives=%d", len(alts)))
		switch {
		case kind == "":
			c.Case(line, "ok "+c08Table(alts, rule), key)
			c08Oracle(c, alts, rule, line)
			exactGo = append(exactGo, c08Exact(rule))
		case kind == "panic":
			c.Case(line, "panic", key)
			exactGo = append(exactGo, "panic")
		default:
			c.Case(line, "err", key)
			exactGo = append(exactGo, "err "+kind)
		}
		exactLines = append(exactLines, "C08 exact "+c08Encode(alts))
	}

	// exhaustive small universes: every k-tuple of alternatives with at most maxLits literals
	// (repeated inputs allowed) over nIn inputs
	exhaustive := func(nIn, maxLits, k int) {
		var all [][]c08Lit
		var rec func(cur []c08Lit)
		rec = func(cur []c08Lit) {
			all = append(all, append([]c08Lit(nil), cur...))
			if len(cur) == maxLits {
				return
			}
			for code := 0; code < 2*nIn; code++ {
				rec(append(cur, c08Lit{code / 2, code%2 == 1}))
			}
		}
		rec(nil)
		idx := make([]int, k)
		for {
			alts := make([]c08Alt, k)
			for i, j := range idx {
				alts[i] = c08Alt{all[j], 10 + i}
			}
			emit(alts, fmt.Sprintf("exhaustive(%d inputs,<=%d literals,%d alternatives)", nIn, maxLits, k))
			i := k - 1
			for i >= 0 {
				idx[i]++
				if idx[i] < len(all) {
					break
				}
				idx[i] = 0
				i--
			}
			if i < 0 {
				return
			}
		}
	}
	exhaustive(2, 2, 2)
	if c.Tier == "thorough" {
		exhaustive(2, 2, 3)
		exhaustive(3, 2, 2)
		exhaustive(3, 3, 2)
	}

	for it := 0; it < n; it++ {
		r := c.Rng
		nIn := 1 + r.Intn(5)
		k := 2 + r.Intn(5)
		var alts []c08Alt
		gen := ""
		switch p := r.Intn(10); {
		case p < 4:
			gen = "list"
			if k > nIn+1 {
				k = nIn + 1
			}
			alts = c08GenList(c, nIn, k)
		case p < 6:
			gen = "tree"
			alts = c08GenTree(c, nIn, k)
		case p < 9:
			gen = "random"
			alts = c08GenRandom(c, nIn, k)
		default:
			gen = "degenerate"
			switch r.Intn(4) {
			case 0:
				alts = nil
			case 1:
				alts = c08GenRandom(c, nIn, 1)
			case 2:
				alts = c08GenRandom(c, nIn, k)
				alts[r.Intn(len(alts))].lits = nil
			case 3:
				alts = c08GenList(c, nIn, min(k, nIn+1))
				a := &alts[r.Intn(len(alts))]
				if len(a.lits) > 0 {
					l := a.lits[r.Intn(len(a.lits))]
					if r.Intn(2) == 0 {
						l.neg = !l.neg
					}
					a.lits = append(a.lits, l)
				}
			}
		}
		if len(alts) > 0 && r.Intn(100) < 35 {
			for m := 1 + r.Intn(2); m > 0; m-- {
				c08Mutate(c, alts, nIn)
			}
		}
		c08Shuffle(c, alts)

		emit(alts, gen)
	}

	// planner path
	nc := c.N(300, 15000)
	for it := 0; it < nc; it++ {
		r := c.Rng
		nIn := 1 + r.Intn(5)
		k1 := 2 + r.Intn(4)
		var alts []c08Alt
		if r.Intn(3) > 0 {
			k1 = min(k1, nIn+1)
			alts = c08GenList(c, nIn, k1)
		} else {
			alts = c08GenTree(c, nIn, k1)
		}
		if r.Intn(100) < 25 {
			c08Mutate(c, alts, nIn)
		}
		for i := range alts {
			alts[i].target = 10 + i
		}
		c08Shuffle(c, alts)
		g1 := make([]int, len(alts))
		for i := range g1 {
			g1[i] = i
		}
		var g2 []int
		if r.Intn(2) == 0 && len(alts) >= 2 {
			// second state: a sub- or overlapping set (shares lookahead nonterminals with group 1)
			m := 2 + r.Intn(len(alts)-1)
			g2 = r.Perm(len(alts))[:m]
			if r.Intn(2) == 0 {
				k2 := min(2+r.Intn(3), nIn+1)
				extra := c08GenList(c, nIn, k2)
				base := len(alts)
				alts = append(alts, extra...)
				g2 = nil
				for i := range extra {
					g2 = append(g2, base+i)
				}
				if r.Intn(2) == 0 {
					g2 = append(g2, r.Intn(base))
				}
			}
		}
		var relB [][]int
		if len(g2) > 0 {
			relB = [][]int{g2}
		}
		c08Compile(c, alts, nIn, [][]int{g1}, relB, r.Perm(len(alts)), "compile")
	}

	// planner path, per-terminal conflict sets: every alternative is followed by its own subset of
	// 2-3 terminals, so the terminals of the state see different subsets of the alternatives
	np := c.N(400, 15000)
	for it := 0; it < np; it++ {
		r := c.Rng
		nIn := 1 + r.Intn(4)
		k := min(3+r.Intn(3), nIn+1)
		if k < 2 {
			k = 2
		}
		alts := c08GenList(c, nIn, k)
		if r.Intn(100) < 15 {
			c08Mutate(c, alts, nIn)
		}
		for i := range alts {
			alts[i].target = 10 + i
		}
		c08Shuffle(c, alts)
		m := 2 + r.Intn(2)
		mkRel := func() [][]int {
			rel := make([][]int, m)
			for i := range alts {
				n := 0
				for j := 0; j < m; j++ {
					if r.Intn(100) < 60 {
						rel[j] = append(rel[j], i)
						n++
					}
				}
				if n == 0 {
					j := r.Intn(m)
					rel[j] = append(rel[j], i)
				}
			}
			return rel
		}
		relA := mkRel()
		var relB [][]int
		if r.Intn(3) == 0 {
			relB = mkRel()
		}
		c08Compile(c, alts, nIn, relA, relB, r.Perm(len(alts)), "compile-per-terminal")
	}

	// generated decision code, end to end
	c08EndToEnd(c)

	// Informational: literal (case list) agreement of the mirror with the real function.
	// Not part of the verdict: a different but equivalent case order is not a violation.
	if tmv := os.Getenv("TMV"); tmv != "" && len(exactLines) > 0 {
		cmd := exec.Command(tmv)
		cmd.Stdin = strings.NewReader(strings.Join(exactLines, "\n") + "\n")
		var out bytes.Buffer
		cmd.Stdout = &out
		if err := cmd.Run(); err == nil {
			got := strings.Split(strings.TrimRight(out.String(), "\n"), "\n")
			mism, first := 0, ""
			for i := range exactGo {
				if i >= len(got) || got[i] != exactGo[i] {
					mism++
					if first == "" {
						g := "<missing>"
						if i < len(got) {
							g = got[i]
						}
						first = exactLines[i] + " => go `" + exactGo[i] + "` mirror `" + g + "`"
					}
				}
			}
			c.Extra["literal_mirror_compared"] = len(exactGo)
			c.Extra["literal_mirror_mismatches"] = mism
			if mism > 0 {
				c.Extra["literal_mirror_first_mismatch"] = first
				c.Notes = append(c.Notes, fmt.Sprintf("mirror differs literally (same decisions) on %d of %d rules, e.g. %s", mism, len(exactGo), first))
			}
		}
	}
}
