package main

// C08 end to end: grammars whose start state reduces 2-4 lookahead nonterminals `(?= A & !B …)` go
// through the REAL compiler + generator; the generated Go parsers (cancellable and not, with and
// without optimizeTables) are run on every token string of the right length, and the alternative
// they reduce (visible through `-> R<i>`) is compared with the unique alternative whose
// conjunction holds, the truth of each predicate being decided by a brute-force recogniser on the
// remaining input.

import (
	"fmt"
	"strconv"
	"strings"

	"github.com/inspirer/textmapper/lalr"
)

type c08Gram struct {
	terms []string   // terminal spellings (single letters)
	alts  []c08Alt   // target = index of the alternative
	first [][]int    // first[i]: terminals alternative i may start with
	preds [][]string // preds[x]: finite prefix-free language of predicate input x
	entry []int      // entry[x]: 0 = P_x only used in predicates, 1 = also `%input P_x;` (eoi), 2 = also `%input P_x no-eoi;`
	label string
	// nested lookaheads (recursiveLookaheads): predicate x is given by a raw rule text and an oracle
	rawRule  map[int]string
	rawHolds map[int]func(g *c08Gram, w string) bool
	alsoUsed []int
	options  string
}

const c08BodyLen = 3 // every alternative derives F_i T T

func (g *c08Gram) TM(name string, cancellable, optimize bool) string {
	var sb strings.Builder
	fmt.Fprintf(&sb, "language %s(go);\n\nlang = %q\npackage = \"gp/%s\"\neventBased = true\n", name, name, name)
	if optimize {
		sb.WriteString("optimizeTables = true\n")
	}
	if cancellable {
		sb.WriteString("cancellable = true\n")
	}
	sb.WriteString(g.options)
	sb.WriteString("\n::lexer\n\n")
	for _, t := range g.terms {
		fmt.Fprintf(&sb, "'%s': /%s/\n", t, t)
	}
	used := map[int]bool{}
	for _, a := range g.alts {
		for _, l := range a.lits {
			used[l.in] = true
		}
	}
	for _, x := range g.alsoUsed {
		used[x] = true
	}
	sb.WriteString("\n::parser\n\n%input Input")
	for x := range g.preds {
		if used[x] && x < len(g.entry) {
			switch g.entry[x] {
			case 1:
				fmt.Fprintf(&sb, ", P%d", x)
			case 2:
				fmt.Fprintf(&sb, ", P%d no-eoi", x)
			}
		}
	}
	sb.WriteString(";\n\nInput :\n")
	for i, a := range g.alts {
		if i == 0 {
			sb.WriteString("    ")
		} else {
			sb.WriteString("  | ")
		}
		sb.WriteString("(?= ")
		for j, l := range a.lits {
			if j > 0 {
				sb.WriteString(" & ")
			}
			if l.neg {
				sb.WriteString("!")
			}
			fmt.Fprintf(&sb, "P%d", l.in)
			used[l.in] = true
		}
		fmt.Fprintf(&sb, ") F%d T T -> R%d\n", i, i)
	}
	sb.WriteString(";\n")
	alt := func(ts []string) string {
		q := make([]string, len(ts))
		for i, t := range ts {
			q[i] = "'" + t + "'"
		}
		return strings.Join(q, " | ")
	}
	for i := range g.alts {
		var ts []string
		for _, t := range g.first[i] {
			ts = append(ts, g.terms[t])
		}
		fmt.Fprintf(&sb, "F%d : %s ;\n", i, alt(ts))
	}
	fmt.Fprintf(&sb, "T : %s ;\n", alt(g.terms))
	for x, lang := range g.preds {
		if !used[x] {
			continue
		}
		if raw, ok := g.rawRule[x]; ok {
			sb.WriteString(raw + "\n")
			continue
		}
		var ss []string
		for _, w := range lang {
			q := make([]string, len(w))
			for i := range w {
				q[i] = "'" + string(w[i]) + "'"
			}
			ss = append(ss, strings.Join(q, " "))
		}
		fmt.Fprintf(&sb, "P%d : %s ;\n", x, strings.Join(ss, " | "))
	}
	return sb.String()
}

// holdsOn: "the remaining tokens start with a sentence of P_x" (brute force over the finite language).
func (g *c08Gram) holdsOn(x int, w string) bool {
	if f, ok := g.rawHolds[x]; ok {
		return f(g, w)
	}
	for _, s := range g.preds[x] {
		if strings.HasPrefix(w, s) {
			return true
		}
	}
	return false
}

func c08PrefixFree(c *Ctx, terms []string) []string {
	r := c.Rng
	var out []string
	for n := 1 + r.Intn(3); n > 0; n-- {
		var sb strings.Builder
		for l := 1 + r.Intn(c08BodyLen); l > 0; l-- {
			sb.WriteString(terms[r.Intn(len(terms))])
		}
		w := sb.String()
		ok := true
		for _, o := range out {
			if strings.HasPrefix(o, w) || strings.HasPrefix(w, o) {
				ok = false
			}
		}
		if ok {
			out = append(out, w)
		}
	}
	return out
}

func c08RandGram(c *Ctx) *c08Gram {
	r := c.Rng
	g := &c08Gram{label: "random"}
	nT := 3 + r.Intn(2)
	g.terms = strings.Split("abcd", "")[:nT]
	nIn := 1 + r.Intn(3)
	k := min(2+r.Intn(3), nIn+1)
	g.alts = c08GenList(c, nIn, k)
	if r.Intn(100) < 15 {
		c08Mutate(c, g.alts, nIn)
	}
	c08Shuffle(c, g.alts)
	for i := range g.alts {
		g.alts[i].target = i
		if len(g.alts[i].lits) == 0 {
			g.alts[i].lits = []c08Lit{{r.Intn(nIn), r.Intn(2) == 0}}
		}
	}
	all := r.Intn(2) == 0
	for range g.alts {
		var f []int
		for t := 0; t < nT; t++ {
			if all || r.Intn(100) < 60 {
				f = append(f, t)
			}
		}
		if len(f) == 0 {
			f = []int{r.Intn(nT)}
		}
		g.first = append(g.first, f)
	}
	for x := 0; x < nIn; x++ {
		g.preds = append(g.preds, c08PrefixFree(c, g.terms))
		g.entry = append(g.entry, []int{0, 1, 1, 2}[r.Intn(4)])
	}
	return g
}

// c08Corpus: the two shapes that need (a) a negated case inside the decision list, (b) terminals
// of one state that see different subsets of the alternatives.
func c08Corpus() []*c08Gram {
	lit := func(in int, neg bool) c08Lit { return c08Lit{in, neg} }
	return []*c08Gram{
		{
			label: "corpus:negated-case",
			terms: []string{"x", "y", "a", "b"},
			alts: []c08Alt{
				{[]c08Lit{lit(0, true)}, 0},
				{[]c08Lit{lit(0, false), lit(1, false)}, 1},
				{[]c08Lit{lit(0, false), lit(1, true)}, 2},
			},
			first: [][]int{{0, 1}, {0, 1}, {0, 1}},
			preds: [][]string{{"x"}, {"xb", "yb"}},
		},
		{
			label: "corpus:per-terminal-sets",
			terms: []string{"x", "y", "a", "b"},
			alts: []c08Alt{
				{[]c08Lit{lit(0, false)}, 0},
				{[]c08Lit{lit(1, false)}, 1},
				{[]c08Lit{lit(0, true), lit(1, true)}, 2},
			},
			first: [][]int{{0}, {1}, {0, 1}},
			preds: [][]string{{"xa"}, {"yb"}},
		},
		{
			label: "corpus:predicate-is-also-eoi-input",
			terms: []string{"a", "b", "c"},
			alts: []c08Alt{
				{[]c08Lit{lit(0, false)}, 0},
				{[]c08Lit{lit(0, true)}, 1},
			},
			first: [][]int{{0, 1, 2}, {0, 1, 2}},
			preds: [][]string{{"ab"}},
			entry: []int{1},
		},
		{
			// P1 itself starts with a runtime lookahead decision on P0, so while (?= P1) is evaluated the
			// decision list runs inside the lookahead parser (template function lookaheadRule)
			label:   "corpus:nested-lookahead",
			options: "recursiveLookaheads = true\n",
			terms:   []string{"a", "b", "c"},
			alts: []c08Alt{
				{[]c08Lit{lit(1, false)}, 0},
				{[]c08Lit{lit(1, true)}, 1},
			},
			first:    [][]int{{0, 1, 2}, {0, 1, 2}},
			preds:    [][]string{{"aa"}, nil},
			entry:    []int{1, 0},
			alsoUsed: []int{0},
			rawRule:  map[int]string{1: "P1 : (?= P0) 'a' 'a' | (?= !P0) 'a' 'b' ;"},
			rawHolds: map[int]func(g *c08Gram, w string) bool{1: func(g *c08Gram, w string) bool {
				if g.holdsOn(0, w) {
					return strings.HasPrefix(w, "aa")
				}
				return strings.HasPrefix(w, "ab")
			}},
		},
	}
}

func c08EndToEnd(c *Ctx) {
	nG := c.N(10, 46)
	batchSize := 12
	grams := c08Corpus()
	for i := 0; i < nG; i++ {
		grams = append(grams, c08RandGram(c))
	}
	type item struct {
		g  *c08Gram
		gp *GenParser
	}
	serial := 0
	for done := 0; done < len(grams); done += batchSize {
		b, err := NewBatch()
		if err != nil {
			c.Notes = append(c.Notes, "cannot create scratch dir: "+err.Error())
			return
		}
		var items []item
		for k := done; k < done+batchSize && k < len(grams); k++ {
			g := grams[k]
			// conflict sets per first terminal, as the constructor sees them
			allAccepted := true
			for t := range g.terms {
				var cs []c08Alt
				for i, a := range g.alts {
					for _, f := range g.first[i] {
						if f == t {
							cs = append(cs, a)
						}
					}
				}
				if len(cs) >= 2 {
					if _, kind := c08Run(cs); kind != "" {
						allAccepted = false
					}
				}
			}
			optFirst := c.Rng.Intn(2) == 0
			for v := 0; v < 2; v++ {
				cancellable := v == 1
				optimize := optFirst != cancellable
				if g.label != "random" {
					optimize = c.Rng.Intn(2) == 0
				}
				name := fmt.Sprintf("c08e%d", serial)
				serial++
				o := TMOpts{Cancellable: cancellable, Optimize: optimize}
				gp := compileTM(name, g.TM(name, cancellable, optimize), o)
				if gp.Err != nil {
					if allAccepted {
						c.Count("e2e front end rejected although every conflict set is accepted by newLookaheadRule: " + firstWords(errSummary(gp.Err), 8))
					} else {
						c.Count("e2e rejected (a conflict set is not decidable)")
					}
					break
				}
				if !allAccepted {
					c.Violate("the compiler accepted a grammar although the alternatives conflicting on one terminal are rejected by newLookaheadRule", gp.TM)
					break
				}
				if gp.G.Parser == nil || gp.G.Parser.Types == nil {
					c.Count("e2e no parser types")
					break
				}
				c08CheckTables(c, g, gp)
				b.Add(gp)
				items = append(items, item{g, gp})
			}
		}
		if len(items) == 0 {
			b.Close()
			continue
		}
		if err := b.Build(); err != nil {
			c.Violate("generated parsers do not build: "+err.Error(), items[0].gp.TM)
			b.Close()
			continue
		}
		var reqs []RunReq
		type meta struct {
			it item
			w  string
		}
		var metas []meta
		for _, it := range items {
			inputIdx := 0
			for i, in := range it.gp.G.Parser.Inputs {
				if !in.Synthetic {
					inputIdx = i
					break
				}
			}
			n := len(it.g.terms)
			total := 1
			for i := 0; i < c08BodyLen; i++ {
				total *= n
			}
			for code := 0; code < total; code++ {
				var sb strings.Builder
				for i, v := 0, code; i < c08BodyLen; i, v = i+1, v/n {
					sb.WriteString(it.g.terms[v%n])
				}
				reqs = append(reqs, RunReq{Parser: it.gp.Name, Input: inputIdx, Text: sb.String()})
				metas = append(metas, meta{it, sb.String()})
			}
		}
		outs := b.Run(reqs)
		b.Close()
		for qi, m := range metas {
			g, gp := m.it.g, m.it.gp
			variant := fmt.Sprintf("cancellable=%v optimizeTables=%v", gp.Opts.Cancellable, gp.Opts.Optimize)
			// which alternative did the generated parser reduce?
			got := "fail(" + strings.ReplaceAll(outs[qi], " ", "_") + ")"
			fs := strings.Fields(outs[qi])
			if len(fs) == 2 && fs[1] == "ok" {
				parts := strings.SplitN(fs[0], ":", 2)
				types := gp.G.Parser.Types.RangeTypes
				if id, err := strconv.Atoi(parts[0]); err == nil && id >= 1 && id <= len(types) && strings.HasPrefix(types[id-1].Name, "R") {
					got = types[id-1].Name[1:]
				}
			}
			// oracle
			t := -1
			for i, s := range g.terms {
				if strings.HasPrefix(m.w, s) {
					t = i
				}
			}
			var cs []c08Alt
			for i, a := range g.alts {
				for _, f := range g.first[i] {
					if f == t {
						cs = append(cs, a)
					}
				}
			}
			mask := 0
			for x := range g.preds {
				if g.holdsOn(x, m.w) {
					mask |= 1 << uint(x)
				}
			}
			describe := func() string {
				return fmt.Sprintf("input %q (predicate outcomes mask %d) on the parser generated (%s) from: %s", m.w, mask, variant, strings.ReplaceAll(gp.TM, "\n", "\\n"))
			}
			switch {
			case len(cs) == 0:
				c.Count("e2e input: no alternative starts with the first token")
				if !strings.HasPrefix(got, "fail") {
					c.Violate("the generated parser accepted an input no alternative can start with (reduced R"+got+")", describe())
				}
			case len(cs) == 1:
				c.Count("e2e input: single candidate (no decision)")
				if got != strconv.Itoa(cs[0].target) {
					c.Violate(fmt.Sprintf("only alternative R%d can start with the first token but the generated parser answered %s", cs[0].target, got), describe())
				}
			default:
				var sat []int
				for _, a := range cs {
					if c08Sat(a, mask) {
						sat = append(sat, a.target)
					}
				}
				if len(sat) != 1 {
					c.Count(fmt.Sprintf("e2e input: %d conjunctions hold (skipped)", len(sat)))
					continue
				}
				c.Count(fmt.Sprintf("e2e decision among %d alternatives, %s", len(cs), variant))
				line := fmt.Sprintf("chain %s %d", c08Encode(cs), mask)
				c.Case(line, got, "e2e "+gp.Name+":"+m.w)
				if got != strconv.Itoa(sat[0]) {
					c.Violate(fmt.Sprintf("only the conjunction of alternative R%d holds but the generated parser answered %s", sat[0], got), describe())
				}
			}
		}
	}
}

// c08CheckTables: table-level check of the compiled grammar.  Every case of every
// Tables.Lookaheads rule must test a NO-EOI entry point of a predicate nonterminal P_x ("the
// remaining input starts with a sentence of P_x", not "is a sentence of P_x followed by the end of
// input"), and, read that way, the decision list must select the right alternative among the
// alternatives it mentions under every combination of predicate outcomes.
func c08CheckTables(c *Ctx, g *c08Gram, gp *GenParser) {
	p := gp.G.Parser
	t := p.Tables
	nt := p.NumTerminals
	describe := strings.ReplaceAll(gp.TM, "\n", "\\n")
	// lookahead nonterminal symbol -> alternative (through the `-> R<i>` rule type)
	altOf := map[int]int{}
	for _, r := range p.Rules {
		if r.Type < 0 || r.Type >= len(p.Types.RangeTypes) {
			continue
		}
		name := p.Types.RangeTypes[r.Type].Name
		i, err := strconv.Atoi(strings.TrimPrefix(name, "R"))
		if err != nil || !strings.HasPrefix(name, "R") || i >= len(g.alts) {
			continue
		}
		for _, s := range r.RHS {
			if !s.IsStateMarker() {
				altOf[int(s)] = i
				break
			}
		}
	}
	for ri, rule := range t.Lookaheads {
		var conv lalr.LookaheadRule
		bad := false
		for _, cs := range rule.Cases {
			idx := int(cs.Input)
			if idx < 0 || idx >= len(p.Inputs) {
				c.Violate(fmt.Sprintf("Tables.Lookaheads[%d]: case refers to input #%d which does not exist", ri, idx), describe)
				bad = true
				break
			}
			inp := p.Inputs[idx]
			name := gp.G.Syms[nt+inp.Nonterm].Name
			x, err := strconv.Atoi(strings.TrimPrefix(name, "P"))
			if err != nil || !strings.HasPrefix(name, "P") {
				c.Violate(fmt.Sprintf("Tables.Lookaheads[%d]: case tests input #%d (%s) which is not a predicate nonterminal", ri, idx, name), describe)
				bad = true
				break
			}
			if !inp.NoEoi {
				c.Violate(fmt.Sprintf("Tables.Lookaheads[%d]: the case for predicate %s is bound to input #%d = `%s` followed by END OF INPUT (final state %d); it must use the no-eoi entry point, otherwise (?= %s) is false whenever the input continues after %s", ri, name, idx, name, t.FinalStates[idx], name, name), describe)
				bad = true
				break
			}
			c.Count("e2e table case bound to a no-eoi input")
			conv.Cases = append(conv.Cases, lalr.LookaheadCase{Predicate: lalr.Predicate{Input: int32(x), Negated: cs.Negated}, Target: cs.Target})
		}
		if bad {
			continue
		}
		conv.DefaultTarget = rule.DefaultTarget
		var in []c08Alt
		seen := map[int]bool{}
		ok := true
		for _, sym := range append(func() []int {
			var l []int
			for _, cs := range rule.Cases {
				l = append(l, int(cs.Target))
			}
			return l
		}(), int(rule.DefaultTarget)) {
			i, found := altOf[sym]
			if !found {
				ok = false
				break
			}
			if !seen[i] {
				seen[i] = true
				in = append(in, c08Alt{g.alts[i].lits, sym})
			}
		}
		if (!ok || len(in) < 2) && g.rawRule != nil {
			c.Count("e2e table rule of a nested lookahead (cases checked for no-eoi binding only)")
			continue
		}
		if !ok || len(in) < 2 {
			c.Violate(fmt.Sprintf("Tables.Lookaheads[%d] selects a symbol that is not one of the lookahead nonterminals of the alternatives", ri), describe)
			continue
		}
		before := len(c.Violations)
		c08Oracle(c, in, conv, "rule "+c08Encode(in))
		if len(c.Violations) > before {
			v := &c.Violations[len(c.Violations)-1]
			v.What = fmt.Sprintf("Tables.Lookaheads[%d] of the compiled grammar: %s", ri, v.What)
			v.Input = v.Input + " ## " + describe
		}
	}
}
