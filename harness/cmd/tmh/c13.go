package main

// C13 — desugaring the extended notation preserves the language.
//
// A random SURFACE tree of the textmapper rule syntax (optional parts, nested choices, +/* lists with
// and without separators, nested lists, set(...), lookahead markers, state markers, arrows, %prec,
// assignments, commands, `Xopt` references) is rendered (1) as .tm text, compiled by the REAL
// compiler.Compile, and (2) as the protocol form of the Lean model (lean/TmVerif/Model/Expand.lean),
// using this file's own reading of the notation (convPart below mirrors what the notation MEANS, not
// syntax/expand.go). A second path builds syntax.Model values directly (the only way to reach
// right-recursive lists) and runs the real Expand/ResolveSets/generateTables through the hook
// compiler.VerifModelGrammar.
//
// Checks per grammar:
//   struct : real expanded rules vs the rules of the Lean mirror, up to renaming / rule order.
//   sem    : for every string up to length L, for every user nonterminal: derivability in the REAL rules
//            (brute force, Gram.Derives) vs membership in the DENOTATION evaluated in Lean.
//   mem    : the same for random longer strings.

import (
	"context"
	"fmt"
	"math/rand"
	"os"
	"sort"
	"strings"

	"github.com/inspirer/textmapper/compiler"
	"github.com/inspirer/textmapper/grammar"
	"github.com/inspirer/textmapper/syntax"
	"github.com/inspirer/textmapper/util/ident"
)

func init() { props["C13"] = c13 }

// ---------------------------------------------------------------------------------------------
// surface syntax

type xKind int

const (
	xSym xKind = iota
	xNested
	xOpt
	xQuant
	xList
	xSetK
	xLookahead
	xMarker
	xCommand
	xAssign
)

type xPred struct {
	neg bool
	nt  int
}

type xSetE struct {
	op   byte // 't' terminal, 'f' first N, 'l' last N, 'a' any N, '|', '&', '~'
	t    int
	nt   int
	subs []*xSetE
	mp   bool // root only: render with minimal parentheses
}

type xPart struct {
	kind   xKind
	term   bool // xSym
	sym    int
	optRef bool // xSym: written `N<sym>opt`
	rules  []*xRule
	inner  *xPart
	plus   bool
	parts  []*xPart
	sep    []int
	set    *xSetE
	preds  []xPred
	name   string
	append bool
	cmd    int
}

type xRule struct {
	parts []*xPart
	arrow string
	prec  int // terminal index or -1
}

type xGram struct {
	k   int // number of character terminals 'a'..
	nts [][]*xRule
	// cc: rendered as `language x(cc)` (syntax.CcExpandOptions: typed list / optional values) with
	// declared value types on some terminals and nonterminals ("" = untyped)
	cc       bool
	termType []string
	ntType   []string
}

// c13RenderCC is set while a grammar is rendered for the cc target (noEmptyRules is on there: a rule made
// of state markers / commands only needs an %empty marker).
var c13RenderCC bool

func termText(t int) string { return "'" + string(rune('a'+t)) + "'" }

func (s *xSetE) String() string { return s.render(s.mp) }

func setPrec(op byte) int {
	switch op {
	case '|':
		return 1
	case '&':
		return 2
	}
	return 3
}

// render writes the set expression; with mp only the parentheses the tm grammar needs are written
// (`&` binds tighter than `|`, both left-associative, `~` applies to a primary).
func (s *xSetE) render(mp bool) string {
	switch s.op {
	case 't':
		return termText(s.t)
	case 'f':
		return fmt.Sprintf("first N%d", s.nt)
	case 'l':
		return fmt.Sprintf("last N%d", s.nt)
	case 'a':
		return fmt.Sprintf("N%d", s.nt)
	case '~':
		sub := s.subs[0].render(mp)
		if s.subs[0].op == '|' || s.subs[0].op == '&' {
			sub = "(" + sub + ")"
		}
		return "~" + sub
	}
	var parts []string
	for i, sub := range s.subs {
		t := sub.render(mp)
		if sub.op == '|' || sub.op == '&' {
			need := !mp || setPrec(sub.op) < setPrec(s.op) || (i > 0 && setPrec(sub.op) == setPrec(s.op))
			if need {
				t = "(" + t + ")"
			}
		}
		parts = append(parts, t)
	}
	return strings.Join(parts, " "+string(s.op)+" ")
}

func (p *xPart) isPrimary() bool {
	switch p.kind {
	case xSym, xNested, xQuant, xList, xSetK:
		return true
	}
	return false
}

func (p *xPart) String() string {
	switch p.kind {
	case xSym:
		if p.term {
			return termText(p.sym)
		}
		if p.optRef {
			return fmt.Sprintf("N%dopt", p.sym)
		}
		return fmt.Sprintf("N%d", p.sym)
	case xNested:
		var alts []string
		for _, r := range p.rules {
			alts = append(alts, r.String())
		}
		return "(" + strings.Join(alts, " | ") + ")"
	case xOpt:
		return p.inner.String() + "?"
	case xQuant:
		if p.plus {
			return p.inner.String() + "+"
		}
		return p.inner.String() + "*"
	case xList:
		var ps, ss []string
		for _, q := range p.parts {
			ps = append(ps, q.String())
		}
		for _, t := range p.sep {
			ss = append(ss, termText(t))
		}
		q := "*"
		if p.plus {
			q = "+"
		}
		return "(" + strings.Join(ps, " ") + " separator " + strings.Join(ss, " ") + ")" + q
	case xSetK:
		return "set(" + p.set.String() + ")"
	case xLookahead:
		var ps []string
		for _, q := range p.preds {
			n := fmt.Sprintf("N%d", q.nt)
			if q.neg {
				n = "!" + n
			}
			ps = append(ps, n)
		}
		return "(?= " + strings.Join(ps, " & ") + ")"
	case xMarker:
		return "." + p.name
	case xCommand:
		return fmt.Sprintf("{ /*c%d*/ }", p.cmd)
	case xAssign:
		op := "="
		if p.append {
			op = "+="
		}
		return p.name + op + p.inner.String()
	}
	return "?"
}

func (r *xRule) String() string {
	var ps []string
	for _, p := range r.parts {
		ps = append(ps, p.String())
	}
	if len(ps) == 0 {
		ps = append(ps, "%empty")
	} else if c13RenderCC {
		only := true
		for _, p := range r.parts {
			if p.kind != xMarker && p.kind != xCommand {
				only = false
			}
		}
		if only {
			ps = append([]string{"%empty"}, ps...)
		}
	}
	if r.prec >= 0 {
		ps = append(ps, "%prec "+termText(r.prec))
	}
	if r.arrow != "" {
		ps = append(ps, "-> "+r.arrow)
	}
	return strings.Join(ps, " ")
}

func (g *xGram) TM(name string) string {
	var sb strings.Builder
	c13RenderCC = g.cc
	defer func() { c13RenderCC = false }()
	typ := func(l []string, i int) string {
		if g.cc && i < len(l) && l[i] != "" {
			return " {" + l[i] + "}"
		}
		return ""
	}
	if g.cc {
		fmt.Fprintf(&sb, "language %s(cc);\n\nnamespace = %q\n\n::lexer\n\n", name, name)
	} else {
		fmt.Fprintf(&sb, "language %s(go);\n\nlang = %q\npackage = \"gp/%s\"\n\n::lexer\n\n", name, name, name)
	}
	for t := 0; t < g.k; t++ {
		fmt.Fprintf(&sb, "%s%s: /%c/\n", termText(t), typ(g.termType, t), rune('a'+t))
	}
	sb.WriteString("\n::parser\n\n%input N0;\n\n")
	for i, rules := range g.nts {
		fmt.Fprintf(&sb, "N%d%s :\n", i, typ(g.ntType, i))
		for j, r := range rules {
			if j == 0 {
				sb.WriteString("    ")
			} else {
				sb.WriteString("  | ")
			}
			sb.WriteString(r.String() + "\n")
		}
		sb.WriteString(";\n")
	}
	return sb.String()
}

func (g *xGram) Pretty() string {
	var sb strings.Builder
	c13RenderCC = g.cc
	defer func() { c13RenderCC = false }()
	for i, rules := range g.nts {
		var alts []string
		for _, r := range rules {
			alts = append(alts, r.String())
		}
		ty := ""
		if g.cc && g.ntType[i] != "" {
			ty = " {" + g.ntType[i] + "}"
		}
		fmt.Fprintf(&sb, "N%d%s: %s; ", i, ty, strings.Join(alts, " | "))
	}
	if g.cc {
		sb.WriteString("(cc) ")
		for t, ty := range g.termType {
			if ty != "" {
				fmt.Fprintf(&sb, "%s{%s} ", termText(t), ty)
			}
		}
	}
	return sb.String()
}

// ---------------------------------------------------------------------------------------------
// random generation

type xGen struct {
	r        *rand.Rand
	k, nn    int
	cmds     int
	findings bool
	feat     map[string]bool
	pool     []*xPart // symbols already used as list elements
}

func (x *xGen) rule(depth int, top bool) *xRule {
	r := &xRule{prec: -1}
	n := 0
	switch v := x.r.Intn(100); {
	case v < 6:
		n = 0
	case v < 30:
		n = 1
	case v < 65:
		n = 2
	case v < 90:
		n = 3
	default:
		n = 4
	}
	if !top && n > 3 {
		n = 3
	}
	for i := 0; i < n; i++ {
		r.parts = append(r.parts, x.part(depth))
	}
	if x.r.Intn(100) < 12 {
		r.arrow = fmt.Sprintf("A%d", x.r.Intn(3))
		x.feat["arrow"] = true
	}
	if top && x.r.Intn(100) < 4 {
		r.prec = x.r.Intn(x.k)
		x.feat["prec"] = true
	}
	return r
}

func (x *xGen) sym() *xPart {
	if x.r.Intn(100) < 70 {
		return &xPart{kind: xSym, term: true, sym: x.r.Intn(x.k)}
	}
	p := &xPart{kind: xSym, sym: x.r.Intn(x.nn)}
	if x.r.Intn(100) < 12 {
		p.optRef = true
		x.feat["Xopt"] = true
	}
	return p
}

func (x *xGen) nested(depth int, minRules int) *xPart {
	p := &xPart{kind: xNested}
	n := minRules + x.r.Intn(2)
	if n < 1 {
		n = 1
	}
	for i := 0; i < n; i++ {
		p.rules = append(p.rules, x.rule(depth-1, false))
	}
	if n > 1 {
		x.feat["nested-choice"] = true
	}
	return p
}

// primary: something a quantifier or `?` may follow
func (x *xGen) primary(depth int) *xPart {
	if depth <= 0 {
		return x.sym()
	}
	switch v := x.r.Intn(100); {
	case v < 45:
		return x.sym()
	case v < 75:
		return x.nested(depth, 1+x.r.Intn(2))
	case v < 85:
		return x.quant(depth - 1)
	case v < 93:
		return x.list(depth - 1)
	default:
		return x.setPart()
	}
}

// variant returns a list element whose provisional NAME equals that of `p` (a reference): the same
// element (reuse must happen), or one that differs in language or structure (reuse must not happen).
func (x *xGen) variant(p *xPart) *xPart {
	cp := *p
	switch x.r.Intn(5) {
	case 0:
		return &cp
	case 1: // (.m X)
		return &xPart{kind: xNested, rules: []*xRule{{prec: -1, parts: []*xPart{{kind: xMarker, name: "m0"}, &cp}}}}
	case 2: // (X | %empty)
		x.feat["nested-choice"] = true
		return &xPart{kind: xNested, rules: []*xRule{{prec: -1, parts: []*xPart{&cp}}, {prec: -1}}}
	case 3: // (X -> A1)
		x.feat["arrow"] = true
		return &xPart{kind: xNested, rules: []*xRule{{prec: -1, arrow: "A1", parts: []*xPart{&cp}}}}
	default: // (X { })
		x.feat["command"] = true
		x.cmds++
		return &xPart{kind: xNested, rules: []*xRule{{prec: -1, parts: []*xPart{&cp, {kind: xCommand, cmd: x.cmds}}}}}
	}
}

func (x *xGen) quant(depth int) *xPart {
	p := &xPart{kind: xQuant, plus: x.r.Intn(2) == 0, inner: x.primary(depth)}
	// bias toward name collisions in extractNonterm: lists over the same symbol, equal or slightly different
	if p.inner.kind == xSym && !p.inner.optRef {
		if len(x.pool) > 0 && x.r.Intn(100) < 40 {
			p.inner = x.variant(x.pool[x.r.Intn(len(x.pool))])
			x.feat["name-collision"] = true
		} else {
			x.pool = append(x.pool, p.inner)
		}
	}
	if p.inner.kind == xQuant || p.inner.kind == xList {
		x.feat["nested-list"] = true
	}
	if p.plus {
		x.feat["list+"] = true
	} else {
		x.feat["list*"] = true
	}
	return p
}

func (x *xGen) list(depth int) *xPart {
	p := &xPart{kind: xList, plus: x.r.Intn(2) == 0}
	n := 1 + x.r.Intn(2)
	if x.r.Intn(100) < 30 {
		// the element IS a separator-less list: (a+ separator b)+, ((a | b)* separator c)*
		inner := x.sym()
		if depth > 0 && x.r.Intn(3) == 0 {
			inner = x.nested(depth, 1+x.r.Intn(2))
		}
		p.parts = []*xPart{{kind: xQuant, plus: x.r.Intn(2) == 0, inner: inner}}
		x.feat["nested-list"] = true
		x.feat["separated list of a plain list"] = true
		n = 0
	}
	for i := 0; i < n; i++ {
		p.parts = append(p.parts, x.part(depth))
	}
	p.sep = []int{x.r.Intn(x.k)}
	if x.r.Intn(5) == 0 {
		p.sep = append(p.sep, x.r.Intn(x.k))
	}
	if p.plus {
		x.feat["seplist+"] = true
	} else {
		x.feat["seplist*"] = true
	}
	return p
}

func (x *xGen) setExpr(depth int) *xSetE {
	if depth <= 0 || x.r.Intn(100) < 45 {
		switch v := x.r.Intn(100); {
		case v < 60:
			return &xSetE{op: 't', t: x.r.Intn(x.k)}
		case v < 80:
			return &xSetE{op: 'f', nt: x.r.Intn(x.nn)}
		case v < 90:
			return &xSetE{op: 'l', nt: x.r.Intn(x.nn)}
		default:
			return &xSetE{op: 'a', nt: x.r.Intn(x.nn)}
		}
	}
	switch v := x.r.Intn(100); {
	case v < 55:
		return &xSetE{op: '|', subs: []*xSetE{x.setExpr(depth - 1), x.setExpr(depth - 1)}}
	case v < 75:
		return &xSetE{op: '&', subs: []*xSetE{x.setExpr(depth - 1), x.setExpr(depth - 1)}}
	default:
		return &xSetE{op: '~', subs: []*xSetE{x.setExpr(depth - 1)}}
	}
}

func (x *xGen) setPart() *xPart {
	x.feat["set"] = true
	return &xPart{kind: xSetK, set: x.setExpr(2)}
}

func (x *xGen) part(depth int) *xPart {
	if depth <= 0 {
		return x.sym()
	}
	switch v := x.r.Intn(100); {
	case v < 46:
		return x.sym()
	case v < 58:
		x.feat["optional"] = true
		return &xPart{kind: xOpt, inner: x.primary(depth - 1)}
	case v < 68:
		return x.nested(depth, 1+x.r.Intn(2))
	case v < 78:
		return x.quant(depth - 1)
	case v < 86:
		return x.list(depth - 1)
	case v < 90:
		return x.setPart()
	case v < 92:
		x.feat["lookahead"] = true
		p := &xPart{kind: xLookahead}
		n := 1 + x.r.Intn(2)
		for i := 0; i < n; i++ {
			p.preds = append(p.preds, xPred{neg: x.r.Intn(3) == 0, nt: x.r.Intn(x.nn)})
		}
		return p
	case v < 94:
		x.feat["marker"] = true
		return &xPart{kind: xMarker, name: fmt.Sprintf("m%d", x.r.Intn(2))}
	case v < 96:
		x.feat["command"] = true
		x.cmds++
		return &xPart{kind: xCommand, cmd: x.cmds}
	default:
		x.feat["assign"] = true
		inner := x.primary(depth - 1)
		if x.r.Intn(3) == 0 {
			inner = &xPart{kind: xOpt, inner: inner}
		}
		return &xPart{kind: xAssign, name: fmt.Sprintf("x%d", x.r.Intn(2)), append: x.r.Intn(2) == 0, inner: inner}
	}
}

func genXGram(r *rand.Rand, findings bool) (*xGram, map[string]bool) {
	x := &xGen{r: r, k: 2 + r.Intn(3), nn: 1 + r.Intn(4), findings: findings, feat: map[string]bool{}}
	g := &xGram{k: x.k}
	for i := 0; i < x.nn; i++ {
		// a nonterminal that IS a set / a lookahead (kept as such by Expand, no nonterminal extracted)
		if v := r.Intn(100); i > 0 && v < 6 {
			p := x.setPart()
			x.feat["top-level set"] = true
			if v < 2 {
				delete(x.feat, "top-level set")
				x.feat["top-level lookahead"] = true
				p = &xPart{kind: xLookahead, preds: []xPred{{neg: r.Intn(3) == 0, nt: r.Intn(x.nn)}}}
			}
			g.nts = append(g.nts, []*xRule{{prec: -1, parts: []*xPart{p}}})
			continue
		}
		n := 1 + r.Intn(3)
		var rules []*xRule
		for j := 0; j < n; j++ {
			rules = append(rules, x.rule(2+r.Intn(2), true))
		}
		g.nts = append(g.nts, rules)
	}
	if r.Intn(100) < 14 {
		x.setNameFamily(g)
	}
	if r.Intn(100) < 14 {
		x.separatorFamily(g)
	}
	return g, x.feat
}

// inject puts a part into the body of a random rule (never as the whole body of a nonterminal)
func (x *xGen) inject(g *xGram, p *xPart) {
	var cands []*xRule
	for _, rules := range g.nts {
		if len(rules) == 1 && len(rules[0].parts) == 1 && (rules[0].parts[0].kind == xSetK || rules[0].parts[0].kind == xLookahead) {
			continue // a nonterminal that is a set / lookahead stays one
		}
		cands = append(cands, rules...)
	}
	if len(cands) == 0 {
		return
	}
	rl := cands[x.r.Intn(len(cands))]
	if len(rl.parts) == 0 {
		rl.parts = append(rl.parts, &xPart{kind: xSym, term: true, sym: x.r.Intn(x.k)})
	}
	at := x.r.Intn(len(rl.parts) + 1)
	rl.parts = append(rl.parts[:at:at], append([]*xPart{p}, rl.parts[at:]...)...)
}

// simple value of a terminal-only set expression (bit t+2 = terminal 'a'+t; universe = eoi, invalid_token, chars)
func (x *xGen) setVal(s *xSetE) uint64 {
	switch s.op {
	case 't':
		return 1 << uint(2+s.t)
	case '|':
		return x.setVal(s.subs[0]) | x.setVal(s.subs[1])
	case '&':
		return x.setVal(s.subs[0]) & x.setVal(s.subs[1])
	}
	return ^x.setVal(s.subs[0]) & (1<<uint(2+x.k) - 1)
}

// setNameFamily adds 2-3 set(...) clauses to ONE grammar that share the flat sequence of atoms,
// operators and `~` marks — hence the provisional name, which drops parentheses (`~(a | b)` vs `~a | b`,
// `(a | b) & (b | c)` vs `a | b & b | c`) — but are grouped differently, so they are different sets.
func (x *xGen) setNameFamily(g *xGram) {
	for try := 0; try < 30; try++ {
		n := 2 + x.r.Intn(3)
		atoms := make([]int, n)
		ops := make([]byte, n-1)
		nots := make([]bool, n)
		for i := range atoms {
			atoms[i] = x.r.Intn(x.k)
			nots[i] = x.r.Intn(100) < 25
		}
		for i := range ops {
			ops[i] = '|'
			if x.r.Intn(100) < 45 {
				ops[i] = '&'
			}
		}
		var build func(lo, hi int, pending bool) *xSetE
		build = func(lo, hi int, pending bool) *xSetE {
			// pending: a `~` mark at atom lo that has not been placed yet
			var t *xSetE
			if lo == hi {
				t = &xSetE{op: 't', t: atoms[lo]}
				if pending {
					t = &xSetE{op: '~', subs: []*xSetE{t}}
				}
				return t
			}
			here := pending && x.r.Intn(2) == 0 // the mark covers this whole group
			p := lo + x.r.Intn(hi-lo)
			t = &xSetE{op: ops[p], subs: []*xSetE{build(lo, p, pending && !here), build(p+1, hi, nots[p+1])}}
			if here {
				t = &xSetE{op: '~', subs: []*xSetE{t}}
			}
			return t
		}
		var fam []*xSetE
		seen := map[string]bool{}
		vals := map[uint64]bool{}
		for i := 0; i < 8 && len(fam) < 3; i++ {
			t := build(0, n-1, nots[0])
			t.mp = x.r.Intn(2) == 0
			full := t.render(false)
			v := x.setVal(t)
			if seen[full] || v == 0 || t.aliasClass() {
				continue
			}
			seen[full] = true
			vals[v] = true
			fam = append(fam, t)
		}
		if len(fam) < 2 || (len(vals) < 2 && try < 20) {
			continue
		}
		for _, t := range fam {
			x.inject(g, &xPart{kind: xSetK, set: t})
		}
		x.feat["set"] = true
		x.feat["family: sets with one name, different grouping"] = true
		if len(vals) > 1 {
			x.feat["family: sets with one name, different terminals"] = true
		}
		return
	}
}

// separatorFamily adds lists over the SAME element to one grammar whose separators differ: two
// different multi-terminal separators of equal length (both named only `_withsep`), or two different
// single terminals.
func (x *xGen) separatorFamily(g *xGram) {
	elem := []*xPart{{kind: xSym, term: true, sym: x.r.Intn(x.k)}}
	if x.r.Intn(4) == 0 {
		elem = []*xPart{{kind: xSym, sym: x.r.Intn(x.nn)}}
	}
	ln := 1
	if x.r.Intn(100) < 70 {
		ln = 2 + x.r.Intn(2)
	}
	var seps [][]int
	seen := map[string]bool{}
	for i := 0; i < 20 && len(seps) < 2+x.r.Intn(2); i++ {
		sp := make([]int, ln)
		for j := range sp {
			sp[j] = x.r.Intn(x.k)
		}
		if len(seps) > 0 && x.r.Intn(2) == 0 {
			// a permutation of the first separator
			sp = append([]int(nil), seps[0]...)
			x.r.Shuffle(len(sp), func(a, b int) { sp[a], sp[b] = sp[b], sp[a] })
		}
		if seen[ints(sp)] {
			continue
		}
		seen[ints(sp)] = true
		seps = append(seps, sp)
	}
	if len(seps) < 2 {
		return
	}
	plus := x.r.Intn(2) == 0
	for _, sp := range seps {
		var cp []*xPart
		for _, e := range elem {
			c := *e
			cp = append(cp, &c)
		}
		pl := plus
		if x.r.Intn(5) == 0 {
			pl = !pl
		}
		x.inject(g, &xPart{kind: xList, plus: pl, parts: cp, sep: sp})
	}
	if ln > 1 {
		x.feat["family: lists with different multi-terminal separators"] = true
	} else {
		x.feat["family: lists with different single separators"] = true
	}
}

// ---------------------------------------------------------------------------------------------
// the model form (what the notation means) and its protocol text

type mE struct {
	k      byte // e r o s c l t k a g p P x m
	n      int
	subs   []*mE
	ne, rr bool
	preds  []xPred
}

func (e *mE) String() string {
	args := func() string {
		var ps []string
		for _, s := range e.subs {
			ps = append(ps, s.String())
		}
		return "(" + strings.Join(ps, ",") + ")"
	}
	switch e.k {
	case 'e':
		return "e"
	case 'r', 't', 'x', 'm':
		return fmt.Sprintf("%c%d", e.k, e.n)
	case 'o', 's', 'c':
		return string(e.k) + args()
	case 'l':
		f := 0
		if e.ne {
			f |= 1
		}
		if e.rr {
			f |= 2
		}
		return fmt.Sprintf("l%d%s", f, args())
	case 'k':
		var ps []string
		for _, p := range e.preds {
			ps = append(ps, fmt.Sprintf("%s.%d", b2s(p.neg), p.nt))
		}
		return "k(" + strings.Join(ps, ",") + ")"
	case 'a', 'g', 'p', 'P':
		return fmt.Sprintf("%c%d%s", e.k, e.n, args())
	}
	return "?"
}

type xConv struct {
	k, nT     int
	userNames []string
	users     []*mE
	optIdx    map[int]int // nonterminal -> user index of its `opt` instance
	sets      []*xSetE
	arrows    map[string]int
	names     map[string]int
	markers   map[string]int
}

func (c *xConv) termSym(t int) int { return 2 + t }
func (c *xConv) userSym(u int) int { return c.nT + u }

func (c *xConv) intern(m map[string]int, s string) int {
	if v, ok := m[s]; ok {
		return v
	}
	m[s] = len(m)
	return m[s]
}

func (c *xConv) seq(parts []*xPart) *mE {
	var subs []*mE
	for _, p := range parts {
		if e := c.part(p); e.k != 'e' {
			subs = append(subs, e)
		}
	}
	switch len(subs) {
	case 0:
		return &mE{k: 'e'}
	case 1:
		return subs[0]
	}
	return &mE{k: 's', subs: subs}
}

func (c *xConv) rules(rs []*xRule, top bool) *mE {
	var subs []*mE
	for _, r := range rs {
		e := c.seq(r.parts)
		if r.arrow != "" {
			e = &mE{k: 'a', n: c.intern(c.arrows, r.arrow), subs: []*mE{e}}
		}
		if r.prec >= 0 && top {
			e = &mE{k: 'P', n: c.termSym(r.prec), subs: []*mE{e}}
		}
		subs = append(subs, e)
	}
	switch len(subs) {
	case 0:
		return &mE{k: 'e'}
	case 1:
		return subs[0]
	}
	return &mE{k: 'c', subs: subs}
}

func (c *xConv) part(p *xPart) *mE {
	switch p.kind {
	case xSym:
		if p.term {
			return &mE{k: 'r', n: c.termSym(p.sym)}
		}
		if p.optRef {
			u, ok := c.optIdx[p.sym]
			if !ok {
				u = len(c.userNames)
				c.optIdx[p.sym] = u
				c.userNames = append(c.userNames, fmt.Sprintf("N%dopt", p.sym))
				c.users = append(c.users, &mE{k: 'o', subs: []*mE{{k: 'r', n: c.userSym(p.sym)}}})
			}
			return &mE{k: 'r', n: c.userSym(u)}
		}
		return &mE{k: 'r', n: c.userSym(p.sym)}
	case xNested:
		return c.rules(p.rules, false)
	case xOpt:
		return &mE{k: 'o', subs: []*mE{c.part(p.inner)}}
	case xQuant:
		return &mE{k: 'l', ne: p.plus, subs: []*mE{c.part(p.inner), {k: 'e'}}}
	case xList:
		var ss []*mE
		for _, t := range p.sep {
			ss = append(ss, &mE{k: 'r', n: c.termSym(t)})
		}
		sep := ss[0]
		if len(ss) > 1 {
			sep = &mE{k: 's', subs: ss}
		}
		return &mE{k: 'l', ne: p.plus, subs: []*mE{c.seq(p.parts), sep}}
	case xSetK:
		c.sets = append(c.sets, p.set)
		return &mE{k: 't', n: len(c.sets) - 1}
	case xLookahead:
		e := &mE{k: 'k'}
		for _, q := range p.preds {
			e.preds = append(e.preds, xPred{neg: q.neg, nt: c.userSym(q.nt)})
		}
		return e
	case xMarker:
		return &mE{k: 'm', n: c.intern(c.markers, p.name)}
	case xCommand:
		return &mE{k: 'x', n: p.cmd}
	case xAssign:
		k := byte('g')
		if p.append {
			k = 'p'
		}
		return &mE{k: k, n: c.intern(c.names, p.name), subs: []*mE{c.part(p.inner)}}
	}
	panic("unreachable")
}

func convert(g *xGram) *xConv {
	c := &xConv{k: g.k, nT: 2 + g.k, optIdx: map[int]int{}, arrows: map[string]int{}, names: map[string]int{}, markers: map[string]int{}}
	for i := range g.nts {
		c.userNames = append(c.userNames, fmt.Sprintf("N%d", i))
		c.users = append(c.users, nil)
	}
	for i, rs := range g.nts {
		c.users[i] = c.rules(rs, true)
	}
	return c
}

// ---- independent evaluation of token sets over the extended notation (syntactic nullable/first/last/any)

type setEval struct {
	c                 *xConv
	nullable          []bool
	first, last, any_ []uint64
	setBits           []uint64
}

func (s *setEval) nul(e *mE) bool {
	switch e.k {
	case 'e', 'o', 'k', 'x', 'm':
		return true
	case 'r':
		return e.n >= s.c.nT && s.nullable[e.n-s.c.nT]
	case 's':
		for _, sub := range e.subs {
			if !s.nul(sub) {
				return false
			}
		}
		return true
	case 'c':
		for _, sub := range e.subs {
			if s.nul(sub) {
				return true
			}
		}
		return false
	case 'l':
		return !e.ne || s.nul(e.subs[0])
	case 't':
		return false
	}
	return s.nul(e.subs[0]) // wrappers
}

// dir: 0 first, 1 last, 2 any
func (s *setEval) bits(e *mE, dir int) uint64 {
	switch e.k {
	case 'e', 'k', 'x', 'm':
		return 0
	case 'r':
		if e.n < s.c.nT {
			return 1 << uint(e.n)
		}
		return [][]uint64{s.first, s.last, s.any_}[dir][e.n-s.c.nT]
	case 't':
		return s.setBits[e.n]
	case 'c':
		var r uint64
		for _, sub := range e.subs {
			r |= s.bits(sub, dir)
		}
		return r
	case 's':
		var r uint64
		subs := e.subs
		if dir == 1 {
			subs = nil
			for i := len(e.subs) - 1; i >= 0; i-- {
				subs = append(subs, e.subs[i])
			}
		}
		for _, sub := range subs {
			r |= s.bits(sub, dir)
			if dir != 2 && !s.nul(sub) {
				break
			}
		}
		return r
	case 'l':
		r := s.bits(e.subs[0], dir)
		if dir == 2 || s.nul(e.subs[0]) {
			r |= s.bits(e.subs[1], dir)
		}
		return r
	}
	return s.bits(e.subs[0], dir)
}

func (s *setEval) evalSet(x *xSetE) uint64 {
	switch x.op {
	case 't':
		return 1 << uint(s.c.termSym(x.t))
	case 'f':
		return s.first[x.nt]
	case 'l':
		return s.last[x.nt]
	case 'a':
		return s.any_[x.nt]
	case '|':
		return s.evalSet(x.subs[0]) | s.evalSet(x.subs[1])
	case '&':
		return s.evalSet(x.subs[0]) & s.evalSet(x.subs[1])
	}
	return ^s.evalSet(x.subs[0]) & (1<<uint(s.c.nT) - 1)
}

func (x *xSetE) hasCompl() bool {
	if x.op == '~' {
		return true
	}
	for _, s := range x.subs {
		if s.hasCompl() {
			return true
		}
	}
	return false
}

// inverse: is the IntSet of this expression kept as a complement (container.IntSet.Inverse)?
func (x *xSetE) inverse() bool {
	switch x.op {
	case '~':
		return !x.subs[0].inverse()
	case '|':
		return x.subs[0].inverse() || x.subs[1].inverse()
	case '&':
		return x.subs[0].inverse() && x.subs[1].inverse()
	}
	return false
}

// aliasClass: an intersection whose first operand is an inverse set (known defect of util/set closure)
func (x *xSetE) aliasClass() bool {
	if x.op == '&' && x.subs[0].inverse() {
		return true
	}
	for _, s := range x.subs {
		if s.aliasClass() {
			return true
		}
	}
	return false
}

func (x *xSetE) hasNT() bool {
	if x.op == 'f' || x.op == 'l' || x.op == 'a' {
		return true
	}
	for _, s := range x.subs {
		if s.hasNT() {
			return true
		}
	}
	return false
}

// evalSets computes the terminal list of every set by iteration from below (monotone: a complement
// over nonterminal-dependent sets is not generated).
func evalSets(c *xConv) [][]int {
	n := len(c.users)
	s := &setEval{c: c, nullable: make([]bool, n), first: make([]uint64, n), last: make([]uint64, n), any_: make([]uint64, n), setBits: make([]uint64, len(c.sets))}
	for ch := true; ch; {
		ch = false
		for u, e := range c.users {
			if v := s.nul(e); v != s.nullable[u] {
				s.nullable[u] = v
				ch = true
			}
		}
	}
	for ch := true; ch; {
		ch = false
		for i, x := range c.sets {
			if v := s.evalSet(x); v != s.setBits[i] {
				s.setBits[i] = v
				ch = true
			}
		}
		for u, e := range c.users {
			for dir, arr := range [][]uint64{s.first, s.last, s.any_} {
				if v := s.bits(e, dir); v != arr[u] {
					arr[u] = v
					ch = true
				}
			}
		}
	}
	out := make([][]int, len(c.sets))
	for i, b := range s.setBits {
		for t := 0; t < c.nT; t++ {
			if b&(1<<uint(t)) != 0 {
				out[i] = append(out[i], t)
			}
		}
	}
	return out
}

// set name as appendSetName writes it (terminal names are the IDs)
func setName(x *xSetE, termID func(t int) string) string {
	switch x.op {
	case 't':
		return termID(x.t)
	case 'f':
		return fmt.Sprintf("first_N%d", x.nt)
	case 'l':
		return fmt.Sprintf("last_N%d", x.nt)
	case 'a':
		return fmt.Sprintf("N%d", x.nt)
	case '~':
		return "not_" + setName(x.subs[0], termID)
	case '|':
		return setName(x.subs[0], termID) + "_or_" + setName(x.subs[1], termID)
	}
	return setName(x.subs[0], termID) + "_" + setName(x.subs[1], termID)
}

// reachable user nonterminals from N0 (through references, sets and lookaheads)
func (c *xConv) reach() []bool {
	seen := make([]bool, len(c.users))
	var visitE func(e *mE)
	var visitS func(x *xSetE)
	var visit func(u int)
	visitS = func(x *xSetE) {
		if x.op == 'f' || x.op == 'l' || x.op == 'a' {
			visit(x.nt)
		}
		for _, s := range x.subs {
			visitS(s)
		}
	}
	visitE = func(e *mE) {
		switch e.k {
		case 'r':
			if e.n >= c.nT {
				visit(e.n - c.nT)
			}
		case 't':
			visitS(c.sets[e.n])
		case 'k':
			for _, p := range e.preds {
				visit(p.nt - c.nT)
			}
		}
		for _, s := range e.subs {
			visitE(s)
		}
	}
	visit = func(u int) {
		if !seen[u] {
			seen[u] = true
			visitE(c.users[u])
		}
	}
	visit(0)
	return seen
}

func (c *xConv) protoExt(termNames []string, setTerms [][]int) string {
	var sets []string
	for i, x := range c.sets {
		sets = append(sets, "setof_"+setName(x, func(t int) string { return strings.ToUpper("char_" + string(rune('a'+t))) })+":"+ints(setTerms[i]))
	}
	ss := "_"
	if len(sets) > 0 {
		ss = strings.Join(sets, ";")
	}
	var us []string
	for i, e := range c.users {
		us = append(us, c.userNames[i]+"="+e.String())
	}
	return fmt.Sprintf("%d %s %s %s", c.nT, strings.Join(termNames, ","), ss, strings.Join(us, ";"))
}

// ---------------------------------------------------------------------------------------------
// the direct path: model form -> syntax.Model

func (c *xConv) toSyntax(e *mE, m *syntax.Model, rr func() bool) *syntax.Expr {
	o := dummyNode(0)
	subs := func() []*syntax.Expr {
		var r []*syntax.Expr
		for _, s := range e.subs {
			r = append(r, c.toSyntax(s, m, rr))
		}
		return r
	}
	switch e.k {
	case 'e':
		return &syntax.Expr{Kind: syntax.Empty, Origin: o}
	case 'r':
		return &syntax.Expr{Kind: syntax.Reference, Symbol: e.n, Model: m, Origin: o}
	case 'o':
		return &syntax.Expr{Kind: syntax.Optional, Sub: subs(), Origin: o}
	case 's':
		return &syntax.Expr{Kind: syntax.Sequence, Sub: subs(), Origin: o}
	case 'c':
		return &syntax.Expr{Kind: syntax.Choice, Sub: subs(), Origin: o}
	case 'l':
		ret := &syntax.Expr{Kind: syntax.List, Origin: o}
		ret.Sub = []*syntax.Expr{c.toSyntax(e.subs[0], m, rr)}
		if e.subs[1].k != 'e' {
			ret.Sub = append(ret.Sub, c.toSyntax(e.subs[1], m, rr))
		}
		if e.ne {
			ret.ListFlags |= syntax.OneOrMore
		}
		if rr() {
			e.rr = true
			ret.ListFlags |= syntax.RightRecursive
		}
		return ret
	case 't':
		return &syntax.Expr{Kind: syntax.Set, SetIndex: e.n, Model: m, Origin: o}
	case 'k':
		ret := &syntax.Expr{Kind: syntax.Lookahead, Origin: o}
		for _, p := range e.preds {
			r := &syntax.Expr{Kind: syntax.Reference, Symbol: p.nt, Model: m, Origin: o}
			if p.neg {
				r = &syntax.Expr{Kind: syntax.LookaheadNot, Sub: []*syntax.Expr{r}, Origin: o}
			}
			ret.Sub = append(ret.Sub, r)
		}
		return ret
	case 'a':
		return &syntax.Expr{Kind: syntax.Arrow, Name: fmt.Sprintf("A%d", e.n), Sub: subs(), Origin: o}
	case 'g':
		return &syntax.Expr{Kind: syntax.Assign, Name: fmt.Sprintf("x%d", e.n), Sub: subs(), Origin: o}
	case 'p':
		return &syntax.Expr{Kind: syntax.Append, Name: fmt.Sprintf("x%d", e.n), Sub: subs(), Origin: o}
	case 'P':
		return &syntax.Expr{Kind: syntax.Prec, Symbol: e.n, Sub: subs(), Model: m, Origin: o}
	case 'x':
		return &syntax.Expr{Kind: syntax.Command, Name: fmt.Sprintf("{ /*c%d*/ }", e.n), Origin: o}
	case 'm':
		return &syntax.Expr{Kind: syntax.StateMarker, Name: fmt.Sprintf("m%d", e.n), Origin: o}
	}
	panic("unreachable")
}

func (c *xConv) toTokenSet(x *xSetE) *syntax.TokenSet {
	o := dummyNode(0)
	switch x.op {
	case 't':
		return &syntax.TokenSet{Kind: syntax.Any, Symbol: c.termSym(x.t), Origin: o}
	case 'f':
		return &syntax.TokenSet{Kind: syntax.First, Symbol: c.userSym(x.nt), Origin: o}
	case 'l':
		return &syntax.TokenSet{Kind: syntax.Last, Symbol: c.userSym(x.nt), Origin: o}
	case 'a':
		return &syntax.TokenSet{Kind: syntax.Any, Symbol: c.userSym(x.nt), Origin: o}
	case '~':
		return &syntax.TokenSet{Kind: syntax.Complement, Sub: []*syntax.TokenSet{c.toTokenSet(x.subs[0])}, Origin: o}
	}
	k := syntax.Union
	if x.op == '&' {
		k = syntax.Intersection
	}
	return &syntax.TokenSet{Kind: k, Sub: []*syntax.TokenSet{c.toTokenSet(x.subs[0]), c.toTokenSet(x.subs[1])}, Origin: o}
}

func (c *xConv) toModel(rr func() bool) *syntax.Model {
	m := &syntax.Model{}
	m.Terminals = append(m.Terminals, syntax.Terminal{Name: "EOI"}, syntax.Terminal{Name: "INVALID_TOKEN"})
	for t := 0; t < c.k; t++ {
		m.Terminals = append(m.Terminals, syntax.Terminal{Name: strings.ToUpper("char_" + string(rune('a'+t)))})
	}
	for _, x := range c.sets {
		m.Sets = append(m.Sets, c.toTokenSet(x))
	}
	for i, e := range c.users {
		m.Nonterms = append(m.Nonterms, &syntax.Nonterm{Name: c.userNames[i], Value: c.toSyntax(e, m, rr), Origin: dummyNode(0)})
	}
	m.Inputs = []syntax.Input{{Nonterm: 0}}
	return m
}

// ---------------------------------------------------------------------------------------------
// observing the real output

type c13Real struct {
	full, erased *Gram
	pinned       []int
	termNames    []string
	extracted    int
}

func c13Observe(g *grammar.Grammar, userNames []string) (*c13Real, string) {
	if g == nil || g.Parser == nil || len(g.Parser.Rules) == 0 || g.Parser.NumTerminals == 0 {
		return nil, "no rules"
	}
	p := g.Parser
	nt := p.NumTerminals
	ret := &c13Real{}
	byName := map[string]int{}
	for i, s := range g.Syms {
		byName[s.Name] = i
	}
	user := map[string]bool{}
	for _, n := range userNames {
		user[n] = true
		i, ok := byName[n]
		if !ok || i < nt {
			return nil, "user nonterminal " + n + " missing"
		}
		ret.pinned = append(ret.pinned, i)
	}
	for i := 0; i < nt; i++ {
		ret.termNames = append(ret.termNames, ident.Produce(g.Syms[i].ID, ident.CamelCase))
	}
	mid := map[int]bool{}
	for j, n := range p.Nonterms {
		if n.Value != nil && n.Value.Kind == syntax.Choice && len(n.Value.Sub) == 1 && n.Value.Sub[0].Kind == syntax.Command && !user[n.Name] {
			mid[nt+j] = true
		}
	}
	ret.full = &Gram{NT: nt, NN: len(g.Syms) - nt, Inputs: []GInput{{Sym: nt, Eoi: true}}}
	ret.erased = &Gram{NT: nt, NN: len(g.Syms) - nt, Inputs: []GInput{{Sym: nt, Eoi: true}}}
	for _, r := range p.Rules {
		var rhs, rhsE []int
		for _, s := range r.RHS {
			if s.IsStateMarker() {
				continue
			}
			rhs = append(rhs, int(s))
			if !mid[int(s)] {
				rhsE = append(rhsE, int(s))
			}
		}
		ret.full.Rules = append(ret.full.Rules, GRule{LHS: int(r.LHS), RHS: rhs})
		if !mid[int(r.LHS)] {
			ret.erased.Rules = append(ret.erased.Rules, GRule{LHS: int(r.LHS), RHS: rhsE})
		}
	}
	ret.extracted = len(g.Syms) - nt - len(userNames) - len(mid)
	return ret, ""
}

func c13Compile(text string) (g *grammar.Grammar, err error) {
	defer func() {
		if r := recover(); r != nil {
			err = fmt.Errorf("panic: %v", r)
		}
	}()
	return compiler.Compile(context.Background(), "c13.tm", text, compiler.Params{CheckOnly: true})
}

func c13Model(m *syntax.Model) (g *grammar.Grammar, err error) {
	defer func() {
		if r := recover(); r != nil {
			err = fmt.Errorf("panic: %v", r)
		}
	}()
	return compiler.VerifModelGrammar(m, dummyNode(0))
}

// all strings over alphabet up to length n: by length, then lexicographic (first symbol most significant)
func c13Strings(alphabet []int, n int) [][]int {
	var out [][]int
	var rec func(w []int, ln int)
	rec = func(w []int, ln int) {
		if len(w) == ln {
			out = append(out, append([]int(nil), w...))
			return
		}
		for _, a := range alphabet {
			rec(append(w, a), ln)
		}
	}
	for ln := 0; ln <= n; ln++ {
		rec(nil, ln)
	}
	return out
}

func c13Hex(bits []bool) string {
	var sb strings.Builder
	for i := 0; i < len(bits); i += 4 {
		v := 0
		for j := 0; j < 4; j++ {
			v <<= 1
			if i+j < len(bits) && bits[i+j] {
				v |= 1
			}
		}
		sb.WriteByte("0123456789abcdef"[v])
	}
	return sb.String()
}

// derivesAll: table of the brute-force recogniser for one string, all nonterminals (same algorithm as
// Gram.Derives, kept for all start symbols at once).
func c13DerivesAll(g *Gram, w []int) func(sym int) bool {
	type key struct{ sym, i, j int }
	table := map[key]bool{}
	byLHS := map[int][]int{}
	for i, r := range g.Rules {
		byLHS[r.LHS] = append(byLHS[r.LHS], i)
	}
	n := len(w)
	sym := func(s, i, j int) bool {
		if s < g.NT {
			return j == i+1 && w[i] == s
		}
		return table[key{s, i, j}]
	}
	var seq func(rhs []int, i, j int) bool
	seq = func(rhs []int, i, j int) bool {
		if len(rhs) == 0 {
			return i == j
		}
		for k := i; k <= j; k++ {
			if sym(rhs[0], i, k) && seq(rhs[1:], k, j) {
				return true
			}
		}
		return false
	}
	for ch := true; ch; {
		ch = false
		for ln := 0; ln <= n; ln++ {
			for i := 0; i+ln <= n; i++ {
				j := i + ln
				for s := g.NT; s < g.NT+g.NN; s++ {
					if table[key{s, i, j}] {
						continue
					}
					for _, ri := range byLHS[s] {
						if seq(g.Rules[ri].RHS, i, j) {
							table[key{s, i, j}] = true
							ch = true
							break
						}
					}
				}
			}
		}
	}
	return func(s int) bool { return sym(s, 0, n) }
}

// ---------------------------------------------------------------------------------------------

func c13MaxLen(k int, thorough bool) int {
	switch k {
	case 2:
		if thorough {
			return 7
		}
		return 6
	case 3:
		return 5
	}
	if thorough {
		return 5
	}
	return 4
}

// c13Probe compiles a fixed one-nonterminal grammar over 'a'..'d' with the real compiler and reports
// whether N0 derives the given string in the real expanded rules.
func c13Probe(rule string, word string) (derives bool, ok bool) {
	text := "language c13p(go);\n\nlang = \"c13p\"\npackage = \"gp/c13p\"\n\n::lexer\n\n'a': /a/\n'b': /b/\n'c': /c/\n'd': /d/\n\n::parser\n\n%input N0;\n\nN0 : " + rule + " ;\n"
	g, _ := c13Compile(text)
	real, _ := c13Observe(g, []string{"N0"})
	if real == nil {
		return false, false
	}
	var w []int
	for _, ch := range word {
		w = append(w, 2+int(ch-'a'))
	}
	return c13DerivesAll(real.full, w)(real.pinned[0]), true
}

func c13(c *Ctx) {
	findings := os.Getenv("VERIF_FINDINGS") != ""
	// Probes of the two known defect classes on fixed witnesses; a class is kept out of the random stream
	// only while its probe shows the defect in the code under test.
	emptySetBroken, aliasBroken := false, false
	if d, ok := c13Probe("'a' set('a' & 'b') 'c'", "ac"); ok && d {
		emptySetBroken = true
		c.Violate("[C13-empty-set] a set(...) that resolves to no terminal becomes an empty rule (syntax/set.go ResolveSets: Choice[Empty]): the expanded rules derive \"a c\" although the notation denotes no string (a choice of zero terminals); Lean: C13_empty_set_counterexample", "N0: 'a' set('a' & 'b') 'c';  string: a c")
	}
	if d, ok := c13Probe("set(~'c' & ('a' | 'c')) 'b'", "cb"); ok && d {
		aliasBroken = true
		c.Violate("[C13-set-intersect-alias] set(~'c' & ('a' | 'c')) resolves to {'a','c'} instead of {'a'} (util/set/closure.go slowClosure: the running intersection aliases the shared buffer; same defect as [C25-closure-buf-alias]): the expanded rules derive \"c b\"", "N0: set(~'c' & ('a' | 'c')) 'b';  string: c b")
	}
	c.Extra["probe_empty_set_defect_present"] = emptySetBroken
	c.Extra["probe_set_intersect_alias_defect_present"] = aliasBroken
	c.Rule = "random surface trees of the rule notation over 2-4 single-character terminals and 1-4 nonterminals (rules of 0-4 parts, depth <= 3: optional parts, nested choices and sequences in parentheses, + and * quantifiers, (.. separator ..)+/* lists with 1-2 separator terminals, lists of lists, set(...) with terminals / first / last / any / | & ~, lookahead markers, state markers, arrows, %prec, assignments, commands, Xopt references; 40% of the quantified lists over a plain symbol reuse an earlier list element verbatim or as (.m X) / (X | %empty) / (X -> A) / (X {}) so that extractNonterm sees equal provisional names with equal and with different expressions; 14% of the grammars get a FAMILY of 2-3 set(...) clauses with the same flat atom/operator/~ sequence but different grouping (same provisional name, e.g. set(~('a' | 'b')) and set(~'a' | 'b')), 14% a family of lists over one element with different separators of equal length (multi-terminal separators are all named _withsep); 30% of the separated lists have a separator-less list as their whole element ((a+ separator b)+)); " +
		"path tm (half of the grammars) / tm-cc (a quarter: `language x(cc)`, i.e. syntax.CcExpandOptions with typed list and optional values, 65% of the terminals and 55% of the nonterminals with a declared value type): rendered as .tm text and compiled by the REAL compiler.Compile (LALR conflicts ignored, the rules are read from grammar.Parser.Rules); path model: the same trees as syntax.Model values with a random subset of lists right-recursive, through the real Expand/ResolveSets/generateTables (hook VerifModelGrammar); " +
		"per grammar: struct (real rules vs Lean mirror, canonical form up to renaming of extracted nonterminals and rule order; mid-rule action nonterminals erased), sem (every string up to length 4-7 depending on alphabet size, every user nonterminal: brute-force derivability in the REAL rules vs the denotation evaluated in Lean), mem (random sentences of the real rules and their mutations, length up to 12); non-trivial = uses at least one extended construct, distinct by grammar text. " +
		"Known defect classes, each probed on ONE fixed witness at start-up, reported through that witness and kept out of the random stream only while the probe shows the defect (VERIF_FINDINGS=1 keeps them in): [C13-empty-set] a set(...) that resolves to no terminal becomes an EMPTY RULE (derives the empty string) instead of deriving nothing; [C13-set-intersect-alias] an intersection whose first operand is a complement, e.g. set(~'c' & ('a' | 'c')), resolves to wrong terminals (util/set closure reuses its buffer). Also skipped: complements of nonterminal-dependent sets (may be cyclic); grammars on which the compiler panics (mid-rule action inside a list element next to a nested list; a C22 matter) are counted as rejected."
	nG := c.N(90, 1000)
	thorough := c.Tier == "thorough"
	panicNoted := false
	for gi := 0; gi < nG; gi++ {
		xg, feat := genXGram(c.Rng, findings)
		if os.Getenv("C13_TRACE") != "" {
			fmt.Fprintf(os.Stderr, "%d %s\n", gi, xg.Pretty())
		}
		direct := gi%4 == 2
		if gi%4 == 3 {
			// the C++ target: CcExpandOptions (typed list / optional values) and declared value types
			xg.cc = true
			types := []string{"int", "std::string"}
			for t := 0; t < xg.k; t++ {
				ty := ""
				if c.Rng.Intn(100) < 65 {
					ty = types[c.Rng.Intn(2)]
				}
				xg.termType = append(xg.termType, ty)
			}
			for range xg.nts {
				ty := ""
				if c.Rng.Intn(100) < 55 {
					ty = types[c.Rng.Intn(2)]
				}
				xg.ntType = append(xg.ntType, ty)
			}
		}
		cv := convert(xg)
		// make every nonterminal reachable from the first input (sets are computed over the part of the
		// grammar reachable from it)
		for changed := true; changed; {
			changed = false
			seen := cv.reach()
			for u := range xg.nts {
				if !seen[u] {
					xg.nts[0] = append(xg.nts[0], &xRule{prec: -1, parts: []*xPart{{kind: xSym, sym: u}}})
					cv = convert(xg)
					changed = true
					break
				}
			}
		}
		// a complement over a nonterminal-dependent set may be cyclic ("cannot depend on itself"): skip
		skip := false
		for _, x := range cv.sets {
			if x.hasCompl() && x.hasNT() {
				skip = true
			}
		}
		if skip {
			c.Count("skipped: complement of a nonterminal-dependent set")
			continue
		}
		setTerms := evalSets(cv)
		emptySet, aliasSet := false, false
		for i, ts := range setTerms {
			if len(ts) == 0 {
				emptySet = true
			}
			if cv.sets[i].aliasClass() {
				aliasSet = true
			}
		}
		if emptySet && emptySetBroken && !findings {
			c.Count("skipped: empty set (known class, probe shows the defect)")
			continue
		}
		if aliasSet && aliasBroken && !findings {
			c.Count("skipped: intersection with a complement as first operand (known class of util/set, probe shows the defect)")
			continue
		}
		var g *grammar.Grammar
		var err error
		path := "tm"
		if xg.cc {
			path = "tm-cc"
		}
		if direct {
			path = "model"
			rrUsed := false
			m := cv.toModel(func() bool {
				if c.Rng.Intn(2) == 0 {
					rrUsed = true
					return true
				}
				return false
			})
			if rrUsed {
				feat["right-recursive"] = true
			}
			g, err = c13Model(m)
		} else {
			g, err = c13Compile(xg.TM("c13g"))
		}
		real, why := c13Observe(g, cv.userNames)
		if real == nil {
			msg := why
			if err != nil {
				msg = firstWords(errSummary(err), 7)
				if strings.HasPrefix(err.Error(), "panic") {
					msg = err.Error()
				}
			}
			c.Count("rejected (" + path + "): " + msg)
			if strings.HasPrefix(msg, "panic") && !panicNoted {
				// a crash of the compiler is not a C13 matter (C22); recorded once
				panicNoted = true
				c.Notes = append(c.Notes, "compiler panic ("+msg+") on: "+xg.Pretty())
			}
			continue
		}
		c.Count("path " + path)
		if err != nil {
			c.Count("compiled with LALR errors (ignored)")
		}
		var fs []string
		for f := range feat {
			fs = append(fs, f)
			c.Count("feature " + f)
		}
		sort.Strings(fs)
		c.Count(fmt.Sprintf("extracted nonterminals %d", min(real.extracted, 8)))
		key := ""
		if len(fs) > 0 {
			key = xg.Pretty() + fmt.Sprint(direct)
		}
		ext := cv.protoExt(real.termNames, setTerms)
		var alphabet []int
		for t := 0; t < xg.k; t++ {
			alphabet = append(alphabet, cv.termSym(t))
		}
		L := c13MaxLen(xg.k, thorough)
		// the grammar as written, for replays (a `#…` token is ignored by the Lean driver)
		tag := " #src:" + strings.ReplaceAll(strings.TrimSpace(xg.Pretty()), " ", "\u00b7") + "[" + path + "]"
		if emptySet {
			tag += " #[C13-empty-set]"
		}
		if aliasSet {
			tag += " #[C13-set-intersect-alias]"
		}
		c.Debugf("%s path=%s", xg.Pretty(), path)
		// structural tie
		c.Case(fmt.Sprintf("struct %s :: %s %s %s %d", ext, real.erased.String(), ints(real.pinned), ints(alphabet), L)+tag, "ok", key)
		// semantic search
		strs := c13Strings(alphabet, L)
		bits := make([][]bool, len(cv.users))
		for _, w := range strs {
			d := c13DerivesAll(real.full, w)
			for u := range cv.users {
				bits[u] = append(bits[u], d(real.pinned[u]))
			}
		}
		var hx []string
		for u := range cv.users {
			hx = append(hx, c13Hex(bits[u]))
		}
		c.Debugf("%s path=%s%s", xg.Pretty(), path, tag)
		c.Case(fmt.Sprintf("sem %s %s %d", ext, ints(alphabet), L)+tag, strings.Join(hx, ";"), "")
		// longer strings
		nMem := c.N(6, 10)
		for i := 0; i < nMem; i++ {
			u := c.Rng.Intn(len(cv.users))
			var w []int
			if s, ok := real.full.RandSentence(c.Rng, real.pinned[u], L+1+c.Rng.Intn(6)); ok && c.Rng.Intn(4) != 0 {
				w = s
			} else {
				w = make([]int, L+1+c.Rng.Intn(4))
				for j := range w {
					w[j] = alphabet[c.Rng.Intn(len(alphabet))]
				}
			}
			if c.Rng.Intn(3) == 0 && len(w) > 0 {
				// mutate within the character alphabet
				switch j := c.Rng.Intn(len(w)); c.Rng.Intn(3) {
				case 0:
					w = append(w[:j:j], w[j+1:]...)
				case 1:
					w[j] = alphabet[c.Rng.Intn(len(alphabet))]
				default:
					w = append(w[:j:j], append([]int{alphabet[c.Rng.Intn(len(alphabet))]}, w[j:]...)...)
				}
			}
			ok := true
			for _, s := range w {
				if s < 2 {
					ok = false
				}
			}
			if !ok || len(w) > 12 {
				continue
			}
			d := c13DerivesAll(real.full, w)
			c.Debugf("%s path=%s%s", xg.Pretty(), path, tag)
			c.Case(fmt.Sprintf("mem %s %d %s", ext, u, ints(w))+tag, b2s(d(real.pinned[u])), "")
		}
	}
}
