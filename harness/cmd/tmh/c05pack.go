package main

// C05, packer level: lalr.pack (through the hook lalr.VerifPack) on random sparse lines, including
// pairs of DIFFERENT lines of equal length whose base-31 hashes collide (the packer deduplicates
// lines through a hash map) and lines that are equal; Lean evaluates the decode specification
// Pack.packOk on the real output.

import (
	"fmt"
	"strings"

	"github.com/inspirer/textmapper/lalr"
)

func c05Pack(c *Ctx) {
	n := c.N(400, 10000)
	for i := 0; i < n; i++ {
		width := 3 + c.Rng.Intn(12)
		if i%4 == 0 {
			width = 30 + c.Rng.Intn(40)
		}
		var lines [][][2]int
		randLine := func() [][2]int {
			var l [][2]int
			for p := 0; p < width; p++ {
				if c.Rng.Intn(3) == 0 {
					l = append(l, [2]int{p, c.Rng.Intn(70) - 8})
				}
			}
			if len(l) == 0 {
				l = append(l, [2]int{c.Rng.Intn(width), c.Rng.Intn(70) - 8})
			}
			return l
		}
		for k := 2 + c.Rng.Intn(10); k > 0; k-- {
			lines = append(lines, randLine())
		}
		kind := "random"
		switch c.Rng.Intn(4) {
		case 0: // an exact duplicate (must share its base or decode equally)
			lines = append(lines, append([][2]int(nil), lines[c.Rng.Intn(len(lines))]...))
			kind = "duplicate line"
		case 1, 2: // a different line with the same length and the same hash
			// hash = fold(h*31+pos, h*31+val): (pos+1, val-31) at one cell leaves it unchanged; so do
			// (val+1 at cell j, pos-31 at cell j+1) when the positions allow it
			src := lines[c.Rng.Intn(len(lines))]
			dup := append([][2]int(nil), src...)
			j := c.Rng.Intn(len(dup))
			ok := false
			if j+1 < len(dup) && dup[j+1][0]-31 > dup[j][0] && c.Rng.Intn(2) == 0 {
				dup[j][1]++
				dup[j+1][0] -= 31
				ok = true
				kind = "hash collision (val+1, next pos-31)"
			} else if j+1 == len(dup) || dup[j][0]+1 < dup[j+1][0] {
				dup[j][0]++
				dup[j][1] -= 31
				ok = true
				kind = "hash collision (pos+1, val-31)"
			}
			if ok {
				at := c.Rng.Intn(len(lines) + 1)
				lines = append(lines[:at], append([][][2]int{dup}, lines[at:]...)...)
			}
		}
		c.Count("pack: " + kind)
		var idx, table, check []int
		pan := ""
		func() {
			defer func() {
				if r := recover(); r != nil {
					pan = fmt.Sprint(r)
				}
			}()
			idx, table, check = lalr.VerifPack(lines)
		}()
		var ls []string
		for _, l := range lines {
			var cs []string
			for _, p := range l {
				cs = append(cs, fmt.Sprintf("%d,%d", p[0], p[1]))
			}
			ls = append(ls, strings.Join(cs, ","))
		}
		if pan != "" {
			c.Violate("lalr.pack panicked: "+pan, strings.Join(ls, ";"))
			continue
		}
		key := ""
		if len(table) < width*len(lines) {
			key = strings.Join(ls, ";")
		}
		c.Case(fmt.Sprintf("pack %s %s %s %s", strings.Join(ls, ";"), ints(idx), ints(table), ints(check)), "ok", key)
	}
}
