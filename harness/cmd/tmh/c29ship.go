package main

// C29, part 2: the SHIPPED cancellable parsers (tm, js, test). The context is cancelled inside the k-th
// listener call of a run; the result must be the context's error or exactly the result and events of the
// uncancelled run, and after the cancellation at most 512 further tokens may be shifted. The second
// clause is measured on long token lists built here (tokens separated by single blanks, no comments, so
// the token boundaries are known without the repository's lexers): a non-empty event's end offset is
// the end of the last token shifted so far (a reduction pops the top of the stack), hence the number of
// tokens shifted at the moment of cancellation is known, and every later event (or the normal
// completion of the run) bounds the number of tokens shifted afterwards from below.

import (
	"context"
	"fmt"
	"strings"

	"github.com/inspirer/textmapper/parsers/js"
	tmtest "github.com/inspirer/textmapper/parsers/test"
	"github.com/inspirer/textmapper/parsers/tm"
)

// c29StopCtx: a context whose Err() is a sentinel of the harness.
type c29StopCtx struct {
	context.Context
	done chan struct{}
	err  error
}

func (c *c29StopCtx) Done() <-chan struct{} { return c.done }
func (c *c29StopCtx) Err() error {
	if c.err != nil {
		return c.err
	}
	return c.Context.Err()
}

type c29StopErr struct{}

func (c29StopErr) Error() string { return "ctxstop" }

var errC29Stop error = c29StopErr{}

type c29sOut struct {
	evs      []c20Ev
	err      string
	panicVal string
	timeout  bool
}

// c29sRun parses src with the named shipped parser; cancelAt > 0 cancels the context inside the
// cancelAt-th listener call.
func c29sRun(parser, src string, cancelAt int) c29sOut {
	return c29sRunAfter(parser, "", 0, src, cancelAt)
}

// c29sRunAfter: when prev != "", the SAME Parser object first parses prev with a context that is
// cancelled inside its prevCancelAt-th listener call (result discarded), then parses src.
func c29sRunAfter(parser, prev string, prevCancelAt int, src string, cancelAt int) c29sOut {
	r := c20sGuard(func(ctx0 context.Context, r *c20sRun) {
		var cancel context.CancelFunc
		n, at := 0, 0
		record := false
		ev := func(t, off, end int) {
			if record {
				r.evs = append(r.evs, c20Ev{t, off, end})
			}
			n++
			if n == at {
				cancel()
			}
		}
		texts := []string{src}
		cancels := []int{cancelAt}
		if prev != "" {
			texts = []string{prev, src}
			cancels = []int{prevCancelAt, cancelAt}
		}
		var tmP tm.Parser
		var jsP js.Parser
		testP := new(tmtest.Parser)
		tmL := func(nt tm.NodeType, off, end int) { ev(int(nt), off, end) }
		jsL := func(nt js.NodeType, off, end int) { ev(int(nt), off, end) }
		switch parser {
		case "tm":
			tmP.Init(func(se tm.SyntaxError) bool { return true }, tmL)
		case "js":
			jsP.Init(func(se js.SyntaxError) bool { return true }, jsL)
		case "test":
			testP.Init(func(nt tmtest.NodeType, flags tmtest.NodeFlags, off, end int) { ev(int(nt), off, end) })
		}
		for i, text := range texts {
			// a context of our own: its error is not context.Canceled, so "the context's error" has to
			// come from ctx.Err()
			sc := &c29StopCtx{Context: ctx0, done: make(chan struct{})}
			var ctx context.Context = sc
			cancel = func() {
				if sc.err == nil {
					sc.err = errC29Stop
					close(sc.done)
				}
			}
			n, at = 0, cancels[i]
			record = i == len(texts)-1
			var err error
			switch parser {
			case "tm":
				var s tm.TokenStream
				s.Init(text, tmL)
				err = tmP.ParseFile(ctx, &s)
			case "js":
				var s js.TokenStream
				s.Init(text, jsL)
				s.SetDialect(js.Typescript)
				err = jsP.ParseModule(ctx, &s)
			case "test":
				l := new(tmtest.Lexer)
				l.Init(text)
				err = testP.ParseTest(ctx, l)
			}
			cancel()
			if record {
				r.err = err
			}
		}
	})
	out := c29sOut{evs: r.evs, panicVal: r.panicVal, timeout: r.timeout}
	if r.panicked && out.panicVal == "" {
		out.panicVal = "panic"
	}
	if r.err != nil {
		out.err = r.err.Error()
	}
	return out
}

func c29sEvs(evs []c20Ev) string {
	var sb strings.Builder
	for _, e := range evs {
		fmt.Fprintf(&sb, "%d:%d:%d ", e.Ty, e.Off, e.End)
	}
	return sb.String()
}

// c29sLong: a long valid input of blank-separated tokens for the parser, and its token end offsets.
func c29sLong(c *Ctx, parser string, units int, broken bool) (string, []int, int) {
	var head string
	var unit []string
	switch parser {
	case "tm":
		head = "language x ( go ) ; :: lexer id : /a/ :: parser "
		unit = []string{"r : id id ; ", "q : id | r id ; ", "r : ; "}
	case "js":
		unit = []string{"a = b + 1 ; ", "f ( a , b ) ; ", "if ( a ) b = 2 ; ", "var c = [ 1 , 2 ] ; ", "x = ( a ) => a ; ", "x = ( a , b ) ; "}
	case "test":
		unit = []string{"decl2 ", "decl1 ( a ) ", "{ decl2 } ", "if ( as ) decl2 ", "{ - decl2 } ", "eval ( 1.2 ) decl2 decl2 decl2 ", "eval ( 1.2 ) "}
	}
	// units with a syntax error the parser recovers from (tm and js have error recovery)
	bad := map[string][]string{"tm": {"r : : id ; ", "r id ; "}, "js": {"a = = 1 ; ", "f ( , ) ; "}}[parser]
	nBad := 0
	var sb strings.Builder
	sb.WriteString(head)
	for i := 0; i < units; i++ {
		if broken && len(bad) > 0 && c.Rng.Intn(12) == 0 {
			sb.WriteString(bad[c.Rng.Intn(len(bad))])
			nBad++
			continue
		}
		sb.WriteString(unit[c.Rng.Intn(len(unit))])
	}
	src := sb.String()
	var ends []int
	for i := 0; i < len(src); i++ {
		if src[i] != ' ' && (i+1 == len(src) || src[i+1] == ' ') {
			ends = append(ends, i+1)
		}
	}
	return src, ends, nBad
}

var c29sSeeds = map[string][]string{
	"tm": {
		"language a(go);\n:: lexer\nid: /[a-z]+/\n'+': /\\+/\n:: parser\ninput: expr ;\nexpr: id | expr '+' id ;\n",
		"language a(go);\nlang = \"x\"\n:: lexer\n%s initial;\n<initial> { ws: /[ ]+/ (space) }\n:: parser\n%input a;\na -> A: b=id? (c separator ',')+ %prec id ;\n",
		"language a(go);\n:: lexer\nid: /a/\n:: parser\na<flag X>: [X] id | (id -> N)* { foo($1) } ;\n",
	},
	"js": {
		"function f(a, b) { return a + b * 2; }\nclass A extends B { m() { if (x) y(); else z = [1, 2]; } }\n",
		"let x: number = 1;\nfor (const k of xs) { foo(k ? 1 : 2) }\nvar s = `a${b}c`\n",
		"a = b\n++c\nexport default {a, b: 1}; import x from 'y';\n",
	},
	"test": {
		"decl2 decl1(a) {decl2} if(as) decl2 else decl2 ",
		"{-decl2} {--} 42 7 9 {42[]} decl1(a.b.c.d123) ",
		"if(as f_a) decl2 /* c */ decl2 // x\n decl2 ",
	},
}

// c29sShort: one of the seed texts, usually damaged by a few character edits.
func c29sShort(c *Ctx, parser string) string {
	seeds := c29sSeeds[parser]
	b := []byte(seeds[c.Rng.Intn(len(seeds))])
	const alpha = "{}()[];:,'\"/*<>=+-|& \n%?.a1"
	for n := c.Rng.Intn(4); n > 0 && len(b) > 2; n-- {
		i := c.Rng.Intn(len(b))
		switch c.Rng.Intn(3) {
		case 0:
			b = append(b[:i], b[i+1:]...)
		case 1:
			b = append(b[:i], append([]byte{alpha[c.Rng.Intn(len(alpha))]}, b[i:]...)...)
		default:
			b = b[:i]
		}
	}
	return string(b)
}

// tokens ending at or before off
func c29sTokensUpTo(ends []int, off int) int {
	lo, hi := 0, len(ends)
	for lo < hi {
		m := (lo + hi) / 2
		if ends[m] <= off {
			lo = m + 1
		} else {
			hi = m
		}
	}
	return lo
}

func c29Shipped(c *Ctx) {
	restore := c20sQuietStderr() // a semantic action of parsers/test prints
	defer restore()
	c29ShippedLookahead(c)
	for _, parser := range []string{"tm", "js", "test"} {
		// (1) short inputs: seeds and mutations of the parser's own tests, every k
		nShort := c.N(25, 300)
		for i := 0; i < nShort; i++ {
			src := c29sShort(c, parser)
			ref := c29sRun(parser, src, 0)
			if ref.timeout {
				c.Count("shipped " + parser + ": reference run timed out (skipped)")
				continue
			}
			if ref.panicVal != "" {
				continue // panics of the shipped parsers are C20/C19's business
			}
			c.Count("shipped " + parser + ": short input")
			for k := 1; k <= len(ref.evs) && k <= 60; k++ {
				c29sCompare(c, parser, src, k, ref, nil)
			}
		}
		// (2) long inputs: sampled k, bounded stop
		nLong := c.N(4, 16)
		for i := 0; i < nLong; i++ {
			broken := i%2 == 1 && parser != "test"
			src, ends, nBad := c29sLong(c, parser, 300+c.Rng.Intn(400), broken)
			ref := c29sRun(parser, src, 0)
			if ref.timeout || ref.panicVal != "" {
				c.Violate(fmt.Sprintf("shipped %s parser does not finish a long valid input (timeout=%v panic=%q)", parser, ref.timeout, ref.panicVal), firstN(src, 200))
				continue
			}
			if ref.err != "" && !broken {
				c.Notes = append(c.Notes, fmt.Sprintf("c29 shipped %s: long input rejected (%s); generator out of date", parser, ref.err))
				continue
			}
			c.Count(fmt.Sprintf("shipped %s: long input (%d tokens, with recovered errors: %v)", parser, len(ends)/500*500, broken))
			c29sSlack = 4 * nBad // tokens skipped by error recovery are not shifted
			ks := []int{1, 2, 3, len(ref.evs) / 2, len(ref.evs) - 1, len(ref.evs)}
			for j := 0; j < c.N(10, 40); j++ {
				ks = append(ks, 1+c.Rng.Intn(len(ref.evs)))
			}
			for _, k := range ks {
				if k >= 1 && k <= len(ref.evs) {
					c29sCompare(c, parser, src, k, ref, ends)
				}
			}
		}
	}
}

// c29sSlack: allowance of the bounded-stop measurement for tokens that error recovery skips.
var c29sSlack int

func c29sCompare(c *Ctx, parser, src string, k int, ref c29sOut, ends []int) {
	out := c29sRun(parser, src, k)
	desc := fmt.Sprintf("shipped %s parser, context cancelled inside listener call %d, input of %d bytes %q", parser, k, len(src), firstN(src, 120))
	if out.panicVal != "" || out.timeout {
		c.Violate(fmt.Sprintf("cancelled run panicked or hung (panic=%q timeout=%v)", out.panicVal, out.timeout), desc)
		return
	}
	cancelled := out.err == errC29Stop.Error()
	if out.err == context.Canceled.Error() || out.err == context.DeadlineExceeded.Error() {
		c.Violate(fmt.Sprintf("the parser returned %q, which is not the error of the context it was given (ctx.Err() is %q)", out.err, errC29Stop.Error()), desc)
		return
	}
	if cancelled {
		c.Count("shipped " + parser + ": cancelled")
	} else {
		c.Count("shipped " + parser + ": completed")
		if out.err != ref.err || c29sEvs(out.evs) != c29sEvs(ref.evs) {
			c.Violate(fmt.Sprintf("a run that did not return the context's error differs from the uncancelled run: err %q vs %q, %d vs %d events", out.err, ref.err, len(out.evs), len(ref.evs)), desc)
			return
		}
	}
	if ends == nil || k > len(out.evs) {
		return
	}
	ek := out.evs[k-1]
	if ek.End <= ek.Off {
		return // an empty node sits at the lookahead token: no information about the shifted tokens
	}
	// Tokens that error recovery skips are consumed without being shifted (recovery does not poll
	// the context): every token inside a reported SyntaxProblem node is left out of the count
	// (some of them were shifted before the error and then discarded, so this under-counts).
	errType := map[string]int{"tm": int(tm.SyntaxProblem), "js": int(js.SyntaxProblem), "test": -1}[parser]
	skipped := make([]bool, len(ends))
	for _, e := range out.evs {
		if e.Ty == errType {
			for i := c29sTokensUpTo(ends, e.Off); i < len(ends) && ends[i] <= e.End; i++ {
				skipped[i] = true
			}
		}
	}
	count := func(from, to int) int { // shifted tokens with index in [from, to)
		n := 0
		for i := from; i < to && i < len(ends); i++ {
			if !skipped[i] {
				n++
			}
		}
		return n
	}
	at := c29sTokensUpTo(ends, ek.End)
	last := at
	for _, e := range out.evs[k:] {
		if e.Ty == errType {
			continue
		}
		if n := c29sTokensUpTo(ends, e.End); n > last {
			last = n
		}
	}
	if !cancelled {
		last = len(ends)
	}
	after := count(at, last)
	c.Count("shipped " + parser + ": bounded-stop measured")
	if after > 512+c29sSlack {
		c.Violate(fmt.Sprintf("cancelled after token %d, but at least %d further tokens were shifted before the parse stopped (more than 512; tokens inside reported syntax-problem nodes not counted; result %q)", at, after, out.err), desc)
	}
}
