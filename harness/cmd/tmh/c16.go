package main

// C16 — semantic action references bind to the right symbols.
//
// Three layers, all against the REAL code of /repo:
//  1. unit: random action strings over random ActionVars through gen.goParserAction (hook
//     gen.VerifGoParserAction) vs the Lean mirror `ActionRefs.action` (ops `rewrite`, `meta`);
//  2. compiled rules: for every rule of grammars compiled by the real compiler, the traversal order of the
//     expanded rule expression vs the real rule.RHS / Remap / SymRefCount / extracted mid-rule
//     nonterminals (op `remap`, mirror `ActionRefs.build`);
//  3. end to end: the real generator produces parsers whose tokens carry `<text>@<offset>` as value and
//     whose actions log what every reference evaluated to; the harness derives sentences from the SOURCE
//     grammar, predicts every logged value from the source-level reading of the rule (which symbol a
//     reference names, which tokens it matched in this derivation; no Remap, no mirror) and compares
//     (c.Violate on a mismatch); the real parser stack at every action goes to Lean (op `eval`).

import (
	"bufio"
	"bytes"
	"context"
	"fmt"
	"math/rand"
	"os"
	"os/exec"
	"path/filepath"
	"sort"
	"strconv"
	"strings"
	"time"

	"github.com/inspirer/textmapper/gen"
	"github.com/inspirer/textmapper/grammar"
	"github.com/inspirer/textmapper/lalr"
	"github.com/inspirer/textmapper/syntax"
)

func init() { props["C16"] = c16 }

// ---------------------------------------------------------------------------------------------
// protocol rendering of ActionVars

func c16hex(s string) string { return hexs([]byte(s)) }

func c16Vars(v *grammar.ActionVars) string {
	var names []string
	for _, k := range sortedKeysL(v.Names) {
		names = append(names, fmt.Sprintf("%s:%s", c16hex(k), ints(v.Names[k])))
	}
	ns := "_"
	if len(names) > 0 {
		ns = strings.Join(names, ";")
	}
	var rm []string
	for _, p := range sortedIntKeys(v.Remap) {
		rm = append(rm, fmt.Sprintf("%d:%d", p, v.Remap[p]))
	}
	rs := "-"
	if len(rm) > 0 {
		rs = strings.Join(rm, ",")
	}
	var ty []string
	var tk []int
	for p := range v.Types {
		tk = append(tk, p)
	}
	sort.Ints(tk)
	for _, p := range tk {
		ty = append(ty, fmt.Sprintf("%d:%s", p, c16hex(v.Types[p])))
	}
	ts := "-"
	if len(ty) > 0 {
		ts = strings.Join(ty, ",")
	}
	return fmt.Sprintf("%s %d %s %d %s %s", ns, v.MaxPos, rs, v.SymRefCount, ts, c16hex(v.LHSType))
}

func sortedKeysL(m map[string][]int) []string {
	var ks []string
	for k := range m {
		ks = append(ks, k)
	}
	sort.Strings(ks)
	return ks
}

func sortedIntKeys(m map[int]int) []int {
	var ks []int
	for k := range m {
		ks = append(ks, k)
	}
	sort.Ints(ks)
	return ks
}

func c16ErrKind(err error) string {
	m := err.Error()
	switch {
	case strings.Contains(m, "found $ at the end"):
		return "err:eos"
	case strings.Contains(m, "cannot find the matching }"):
		return "err:brace"
	case strings.Contains(m, "unrecognized property"):
		return "err:prop"
	case strings.Contains(m, "unrecognized sequence after $"):
		return "err:seq"
	case strings.Contains(m, "invalid self reference"):
		return "err:self"
	case strings.Contains(m, "is out of range"):
		return "err:range"
	case strings.Contains(m, "invalid reference"):
		return "err:name"
	case strings.Contains(m, "internal error"):
		return "err:internal"
	case strings.Contains(m, "spans multiple symbols"):
		return "err:span"
	}
	return "err:other:" + strings.ReplaceAll(m, " ", "_")
}

func c16Rewrite(s string, v *grammar.ActionVars) (ans string) {
	defer func() {
		if r := recover(); r != nil {
			ans = "panic"
		}
	}()
	out, err := gen.VerifGoParserAction(s, v)
	if err != nil {
		return c16ErrKind(err)
	}
	return "ok " + c16hex(out)
}

// ---------------------------------------------------------------------------------------------
// layer 1: random ActionVars and action strings

var c16NamePool = []string{"a", "b", "expr", "x-y", "Foo_1", "q#0", "q#1", "left", "self", "val"}
var c16TypePool = []string{"", "", "int", "string", "*Node", "[]ast.Expr"}

func c16RandVars(r *rand.Rand) *grammar.ActionVars {
	v := &grammar.ActionVars{Remap: map[int]int{}, Types: map[int]string{}}
	v.MaxPos = 1 + r.Intn(7)
	n := v.MaxPos - 1 // positions 1..n
	// injective partial map position -> index, indices increasing with the position most of the time
	idx := 0
	var present []int
	for p := 1; p <= n; p++ {
		if r.Intn(10) < 3 {
			continue // absent in this expansion
		}
		if r.Intn(6) == 0 {
			idx++ // a symbol without position (mid-rule nonterminal, lookahead) takes a slot
		}
		v.Remap[p] = idx
		present = append(present, p)
		idx++
	}
	if r.Intn(8) == 0 && len(present) >= 2 {
		// a permuted (still injective) map
		i, j := r.Intn(len(present)), r.Intn(len(present))
		v.Remap[present[i]], v.Remap[present[j]] = v.Remap[present[j]], v.Remap[present[i]]
	}
	v.SymRefCount = idx
	switch r.Intn(12) {
	case 0:
		v.SymRefCount = idx + 1 + r.Intn(2) // trailing symbols without position
	case 1:
		if idx > 0 {
			v.SymRefCount = r.Intn(idx) // mid-rule environment whose Remap already holds later symbols
		}
	}
	for p := 1; p <= n; p++ {
		if r.Intn(5) != 0 {
			v.Types[p] = c16TypePool[r.Intn(len(c16TypePool))]
		}
	}
	if r.Intn(3) != 0 {
		v.LHSType = c16TypePool[r.Intn(len(c16TypePool))]
	}
	if r.Intn(8) != 0 {
		v.Names = map[string][]int{}
		k := r.Intn(4)
		for i := 0; i < k; i++ {
			name := c16NamePool[r.Intn(len(c16NamePool))]
			var ps []int
			for p := 1; p <= n; p++ {
				if r.Intn(3) == 0 {
					ps = append(ps, p)
				}
			}
			if len(ps) == 0 && r.Intn(4) != 0 && n > 0 {
				ps = []int{1 + r.Intn(n)}
			}
			if len(ps) > 0 || r.Intn(6) == 0 {
				v.Names[name] = ps // rarely empty: treated as unknown
			}
		}
	}
	return v
}

func c16RandAction(r *rand.Rand, v *grammar.ActionVars) string {
	var sb strings.Builder
	plain := []string{"x := ", " + ", "foo(", ")", "; ", "\n", "a.b", "{ }", "%d", "-", "\"s\"", " ", "é", "}", "{"}
	var names []string
	for k := range v.Names {
		names = append(names, k)
	}
	sort.Strings(names)
	known := len(names)
	if len(names) == 0 || r.Intn(6) == 0 {
		names = append(names, "zz", "a")
	}
	num := func() string {
		switch r.Intn(10) {
		case 0:
			if r.Intn(3) == 0 {
				return fmt.Sprint(v.MaxPos - 1 + r.Intn(3)) // around the upper bound
			}
		case 1:
			if v.MaxPos > 1 {
				return "0" + fmt.Sprint(r.Intn(v.MaxPos-1))
			}
		}
		if v.MaxPos > 1 {
			return fmt.Sprint(r.Intn(v.MaxPos - 1))
		}
		return "0"
	}
	props := []string{"", ".value", ".sym", ".offset", ".endoffset", ".offset", ".endoffset"}
	n := 1 + r.Intn(6)
	for i := 0; i < n; i++ {
		if r.Intn(3) == 0 {
			sb.WriteString(plain[r.Intn(len(plain))])
		}
		k := r.Intn(30)
		if k >= 7 && k < 14 && known == 0 && r.Intn(5) != 0 {
			k = 14 // no alias known: use a number
		}
		switch {
		case k < 3:
			sb.WriteString("$$")
		case k < 7:
			sb.WriteString("$" + num())
		case k < 10:
			nm := names[r.Intn(len(names))]
			if strings.Contains(nm, "#") {
				sb.WriteString("${" + nm + "}")
			} else {
				sb.WriteString("$" + nm)
			}
		case k < 14:
			sb.WriteString("${" + names[r.Intn(len(names))] + props[r.Intn(len(props))] + "}")
		case k < 18:
			sb.WriteString("${" + num() + props[r.Intn(len(props))] + "}")
		case k < 20:
			sb.WriteString("${self[" + num() + "]" + props[r.Intn(len(props))] + "}")
		case k < 23:
			sb.WriteString("${" + []string{"left()", "leftRaw()", "first()", "last()"}[r.Intn(4)] + props[r.Intn(len(props))] + "}")
		case k < 24 && r.Intn(3) == 0:
			sb.WriteString("$" + []string{"left()", "first()", "a-", "a--b", "_", "_1", "A9-", "9a"}[r.Intn(8)])
		case k < 29 || r.Intn(2) == 0:
			sb.WriteString("$$ = ")
		default:
			// malformed / unusual forms
			bad := []string{"$", "${", "${a", "${a.foo}", "${a.}", "${.offset}", "$ ", "$-", "$.", "${}", "${self[x]}", "${self[]}",
				"${self[-1]}", "${self[+1]}", "${self[4294967296]}", "${self[1}", "$99999999999999999999", "${+1}", "${-1}", "${+0.offset}",
				"${9223372036854775807}", "${1_0}", "${ 1}", "${left().value}", "${leftRaw().sym}", "${a.b.c}", "$é", "$(", "${1.offset.x}", "${-0}", "${00}"}
			sb.WriteString(bad[r.Intn(len(bad))])
		}
		if r.Intn(4) == 0 {
			sb.WriteString(plain[r.Intn(len(plain))])
		}
	}
	return sb.String()
}

func c16Unit(c *Ctx) {
	n := c.N(4000, 60000)
	for i := 0; i < n; i++ {
		v := c16RandVars(c.Rng)
		s := c16RandAction(c.Rng, v)
		ans := c16Rewrite(s, v)
		key := ""
		if strings.HasPrefix(ans, "ok") && strings.Contains(s, "$") {
			key = "rw:" + c16Vars(v) + s
			c.Count("rewrite: ok")
		} else {
			c.Count("rewrite: " + ans)
		}
		c.Case(fmt.Sprintf("rewrite %s %s", c16Vars(v), c16hex(s)), ans, key)
	}
	// parseMeta alone, including arbitrary bytes
	m := c.N(1000, 10000)
	alphabet := "a9_-{}.$ []()vosetfndlu#+"
	for i := 0; i < m; i++ {
		var b []byte
		l := 1 + c.Rng.Intn(10)
		for k := 0; k < l; k++ {
			if c.Rng.Intn(12) == 0 {
				b = append(b, byte(c.Rng.Intn(256)))
			} else {
				b = append(b, alphabet[c.Rng.Intn(len(alphabet))])
			}
		}
		if c.Rng.Intn(3) == 0 {
			ids := []string{"a", "left()", "1", "self[2]", "a-b", ""}
			ps := []string{"value", "sym", "offset", "endoffset", "off", ""}
			b = []byte("{" + ids[c.Rng.Intn(len(ids))] + "." + ps[c.Rng.Intn(len(ps))] + "}" + string(b))
		}
		ans := func() (ans string) {
			defer func() {
				if r := recover(); r != nil {
					ans = "panic"
				}
			}()
			d, id, prop, err := gen.VerifParseMeta(string(b))
			if err != nil {
				return c16ErrKind(err)
			}
			return fmt.Sprintf("%d %s %s", d, c16hex(id), prop)
		}()
		if strings.HasPrefix(ans, "err") || ans == "panic" {
			c.Count("meta: " + ans)
		} else {
			c.Count("meta: ok")
		}
		key := ""
		if !strings.HasPrefix(ans, "err") {
			key = "meta:" + string(b)
		}
		c.Case("meta "+c16hex(string(b)), ans, key)
	}
}

// ---------------------------------------------------------------------------------------------
// layer 3 (and 2): source grammars with actions

const (
	pkSym = iota
	pkOpt
	pkChoice
	pkList
	pkMid
	pkMarker
	pkSet
)

type c16Ref struct {
	id   string // text inside ${…}: number, name, first(), last(), left()
	prop byte   // 'v' value, 'o' offset, 'e' endoffset
	self bool   // written as self[N]
}

type c16Act struct {
	label string
	kind  int // 0 end of a nonterminal rule, 1 mid-rule, 2 list body
	refs  []c16Ref
	// filled by the scope walk: what the documented semantics makes visible at this point
	maxPos  int
	visible map[string][]int
	inList  bool
	lhsType string // kind 0: declared type of the nonterminal
}

type c16Part struct {
	kind  int
	sym   string // pkSym: symbol name
	nt    int    // pkSym: nonterminal index or -1
	alias string
	group bool         // pkOpt: written `( … )?` (own scope) instead of `X?`
	alts  [][]*c16Part // pkOpt: one alternative; pkChoice: all; pkList: the body
	sep   bool         // pkList: `separator COMMA`
	plus  bool         // pkList
	pos   int          // pkSym, pkList
	act   *c16Act      // pkMid; pkList: body action (may be nil)
	mark  string
	opt   bool     // pkSym written `Xopt`: the auto-instantiated optional nonterminal of X
	set   []string // pkSet: `set(A | B)`
	probe bool     // the actions that see this part always look at it (by number, alias and name)
}

type c16Rule struct {
	parts []*c16Part
	end   *c16Act
}

type c16Gram struct {
	nts      [][]*c16Rule // nts[i] = alternatives of nonterminal N<i>
	terms    []string
	acts     map[string]*c16Act
	nact     int
	termType map[string]string // Go value type of every terminal (string, int, *TV)
	ntType   []string          // Go value type of every nonterminal
	flag     bool              // declares a template parameter: the compiler runs the instantiation pass
	optOff   bool              // aliasIncludesOptSuffix = false: the default name of `Xopt` is `X` (an exact `X` wins)
}

// c16Trim is the name table an action sees: with aliasIncludesOptSuffix = false names lose their `opt` suffix,
// and a symbol that is literally called like the trimmed name keeps it.
func c16Trim(names map[string][]int, optOff bool) map[string][]int {
	out := map[string][]int{}
	if optOff {
		for k, v := range names {
			if len(k) > 3 && strings.HasSuffix(k, "opt") {
				out[strings.TrimSuffix(k, "opt")] = append([]int(nil), v...)
			}
		}
	}
	for k, v := range names {
		if optOff && len(k) > 3 && strings.HasSuffix(k, "opt") {
			continue
		}
		out[k] = append([]int(nil), v...)
	}
	return out
}

var c16Types = []string{"string", "int", "*TV"}

// c16Hash is the int carried by int-typed symbols (the same function is compiled into the generated package).
func c16Hash(core string) int {
	h := 7
	for i := 0; i < len(core); i++ {
		h = (h*31 + int(core[i])) % 1000000007
	}
	return h
}

// c16Show is what VShow prints for a value of the given declared type built from `core`.
func c16Show(ty, core string) string {
	switch ty {
	case "int":
		return fmt.Sprintf("i=%d", c16Hash(core))
	case "*TV":
		return "t=" + core
	}
	return "s=" + core
}

func c16Conv(ty string) string {
	switch ty {
	case "int":
		return "VI"
	case "*TV":
		return "VT"
	}
	return "VS"
}

func (g *c16Gram) ntName(i int) string { return fmt.Sprintf("N%d", i) }

type c16Gen struct {
	r      *rand.Rand
	g      *c16Gram
	alias  int
	hasMid bool
	marks  int
	pool   []string // terminals not yet used in the current rule
	used   []string
}

// term draws a terminal; inside one rule terminals are not reused most of the time, which keeps the
// grammars LALR(1) often enough (the compiler rejects the others) and makes `A#k` names the exception.
func (gn *c16Gen) term() string {
	if len(gn.used) > 0 && gn.r.Intn(12) == 0 {
		return gn.used[gn.r.Intn(len(gn.used))]
	}
	if len(gn.pool) == 0 {
		return gn.g.terms[gn.r.Intn(len(gn.g.terms))]
	}
	t := gn.pool[0]
	gn.pool = gn.pool[1:]
	gn.used = append(gn.used, t)
	return t
}

func (gn *c16Gen) symPart(cur int, lead string) *c16Part {
	p := &c16Part{kind: pkSym, nt: -1}
	if lead != "" {
		p.sym = lead
	} else if cur+1 < len(gn.g.nts) && gn.r.Intn(10) < 4 {
		p.nt = cur + 1 + gn.r.Intn(len(gn.g.nts)-cur-1)
		p.sym = gn.g.ntName(p.nt)
	} else {
		p.sym = gn.term()
	}
	if gn.r.Intn(3) == 0 {
		gn.alias++
		p.alias = fmt.Sprintf("x%d", gn.alias)
	}
	return p
}

func (gn *c16Gen) newAct(kind int) *c16Act {
	gn.g.nact++
	pre := []string{"r", "m", "l"}[kind]
	a := &c16Act{label: fmt.Sprintf("%s%d", pre, gn.g.nact), kind: kind}
	gn.g.acts[a.label] = a
	return a
}

// seq generates a sequence of parts; depth 0 = top level of a rule.
func (gn *c16Gen) seq(cur, depth, n int, lead string) []*c16Part {
	var out []*c16Part
	r := gn.r
	for i := 0; i < n; i++ {
		if i == 0 && lead != "" {
			out = append(out, gn.symPart(cur, lead))
			continue
		}
		k := r.Intn(20)
		if depth == 0 && r.Intn(6) == 0 {
			switch r.Intn(3) {
			case 0:
				// the SAME list expression several times in one rule (and, with the fixed element L, in other rules at
				// other positions): the compiler extracts one nonterminal and reuses it
				occ := 2 + r.Intn(3)
				for o := 0; o < occ; o++ {
					lp := &c16Part{kind: pkList, plus: r.Intn(4) != 0, probe: true,
						alts: [][]*c16Part{{{kind: pkSym, sym: "L", nt: -1}}}}
					if r.Intn(2) == 0 {
						gn.alias++
						lp.alias = fmt.Sprintf("l%d", gn.alias)
					}
					out = append(out, lp, gn.symPart(cur, ""))
				}
			case 1:
				// X and its auto-instantiated optional Xopt in one rule, both referenced by name
				x := gn.symPart(cur, "")
				x.alias = ""
				x.probe = true
				xo := &c16Part{kind: pkSym, sym: x.sym, nt: x.nt, opt: true, probe: true}
				switch r.Intn(4) {
				case 0:
					out = append(out, xo) // alone
				case 1:
					out = append(out, xo, gn.symPart(cur, ""), x)
				case 2:
					out = append(out, x, xo)
				default:
					out = append(out, x, gn.symPart(cur, ""), xo)
				}
			default:
				// the same set expression twice
				// (members of different declared types: a set of equally typed terminals is itself typed, and since
				// rules without action do not forward values its `$alias` is the zero value, not nil)
				a, b := gn.term(), gn.term()
				if a != b && gn.g.termType[a] != gn.g.termType[b] {
					for o := 0; o < 2; o++ {
						sp := &c16Part{kind: pkSet, set: []string{a, b}, probe: true}
						if r.Intn(2) == 0 {
							gn.alias++
							sp.alias = fmt.Sprintf("s%d", gn.alias)
						}
						out = append(out, sp, gn.symPart(cur, ""))
					}
				}
			}
			continue
		}
		switch {
		case k < 8 || depth >= 2 && k < 15:
			out = append(out, gn.symPart(cur, ""))
		case k < 11:
			p := &c16Part{kind: pkOpt}
			if r.Intn(2) == 0 || depth >= 2 {
				p.alts = [][]*c16Part{{gn.symPart(cur, "")}}
			} else {
				p.group = true
				p.alts = [][]*c16Part{gn.seq(cur, depth+1, 1+r.Intn(3), "")}
				if r.Intn(3) == 0 {
					gn.alias++
					p.alias = fmt.Sprintf("g%d", gn.alias)
				}
			}
			out = append(out, p)
		case k < 14:
			p := &c16Part{kind: pkChoice}
			na := 2 + r.Intn(2)
			if r.Intn(2) == 0 {
				// an aliased choice of single symbols (their declared types differ most of the time): `$alias` is the
				// value of whichever member is present
				for a := 0; a < na; a++ {
					sp := gn.symPart(cur, "")
					sp.alias = ""
					p.alts = append(p.alts, []*c16Part{sp})
				}
				gn.alias++
				p.alias = fmt.Sprintf("c%d", gn.alias)
				out = append(out, p)
				continue
			}
			for a := 0; a < na; a++ {
				p.alts = append(p.alts, gn.seq(cur, depth+1, 1+r.Intn(2), ""))
			}
			if r.Intn(2) == 0 {
				gn.alias++
				p.alias = fmt.Sprintf("c%d", gn.alias)
			}
			out = append(out, p)
		case k < 17:
			p := &c16Part{kind: pkList, plus: r.Intn(2) == 0, sep: r.Intn(3) == 0}
			nb := 1 + r.Intn(2)
			var body []*c16Part
			for b := 0; b < nb; b++ {
				sp := gn.symPart(cur, "")
				body = append(body, sp)
			}
			p.alts = [][]*c16Part{body}
			if r.Intn(2) == 0 {
				p.act = gn.newAct(2)
				p.act.inList = true
			}
			if r.Intn(2) == 0 {
				gn.alias++
				p.alias = fmt.Sprintf("l%d", gn.alias)
			}
			out = append(out, p)
		default:
			// mid-rule action: not first at the top level, always followed by a plain symbol
			if (depth == 0 && len(out) == 0) || (len(out) > 0 && out[len(out)-1].kind == pkMid) {
				out = append(out, gn.symPart(cur, ""))
				continue
			}
			out = append(out, &c16Part{kind: pkMid, act: gn.newAct(1)})
			out = append(out, gn.symPart(cur, ""))
			gn.hasMid = true
		}
	}
	return out
}

func c16GenGram(r *rand.Rand) *c16Gram {
	g := &c16Gram{acts: map[string]*c16Act{}}
	nt := 2 + r.Intn(3)
	inner := []string{"A", "B", "C", "D", "E", "F", "G", "H"}
	leads := []string{"P", "Q", "R", "S", "T", "U", "V", "W", "X", "Y", "Z"}
	g.terms = inner[:4+r.Intn(5)]
	g.nts = make([][]*c16Rule, nt)
	g.flag = r.Intn(2) == 0
	g.optOff = r.Intn(2) == 0
	g.termType = map[string]string{}
	for _, t := range append(append(append([]string{}, inner...), leads...), "COMMA", "L") {
		g.termType[t] = c16Types[r.Intn(len(c16Types))]
	}
	for i := 0; i < nt; i++ {
		g.ntType = append(g.ntType, c16Types[r.Intn(len(c16Types))])
	}
	gn := &c16Gen{r: r, g: g}
	nl := 0
	for i := 0; i < nt; i++ {
		na := 1 + r.Intn(3)
		for a := 0; a < na && nl < len(leads); a++ {
			gn.alias = 0
			gn.hasMid = false
			gn.used = nil
			gn.pool = nil
			for _, k := range r.Perm(len(g.terms)) {
				gn.pool = append(gn.pool, g.terms[k])
			}
			rule := &c16Rule{}
			n := 2 + r.Intn(5)
			if i == 0 {
				n = 3 + r.Intn(4)
			}
			rule.parts = gn.seq(i, 0, n, leads[nl])
			nl++
			rule.end = gn.newAct(0)
			rule.end.lhsType = g.ntType[i]
			if !gn.hasMid && r.Intn(3) == 0 && len(rule.parts) > 1 {
				// a state marker somewhere after the first symbol
				at := 1 + r.Intn(len(rule.parts))
				gn.marks++
				mk := &c16Part{kind: pkMarker, mark: fmt.Sprintf("mk%d", gn.marks)}
				rule.parts = append(rule.parts[:at:at], append([]*c16Part{mk}, rule.parts[at:]...)...)
			}
			g.nts[i] = append(g.nts[i], rule)
		}
	}
	g.terms = append(g.terms, leads[:nl]...)
	for i := range g.nts {
		for _, rule := range g.nts[i] {
			c16Scope(g, rule)
		}
	}
	for i := range g.nts {
		for _, rule := range g.nts[i] {
			c16PickRefs(r, g, rule)
		}
	}
	return g
}

// ---- the documented scoping: positions and visible names (harness's own reading of the semantics)

type c16Sc struct {
	names  map[string][]int
	top    *c16Sc
	ctr    *int
	optOff bool
}

func (s *c16Sc) topNames() map[string][]int {
	if s.top != nil {
		return s.top.names
	}
	return s.names
}

func (s *c16Sc) push(name string, pos ...int) {
	tn := s.topNames()
	index := 0
	if _, ok := tn[name+"#0"]; ok {
		for {
			index++
			if _, ok := tn[fmt.Sprintf("%s#%d", name, index)]; !ok {
				break
			}
		}
	} else if val, ok := tn[name]; ok {
		tn[name+"#0"] = val
		s.names[name+"#0"] = val
		delete(tn, name)
		delete(s.names, name)
		index = 1
	}
	if index > 0 {
		name = fmt.Sprintf("%s#%d", name, index)
	}
	tn[name] = pos
	s.names[name] = pos
}

func c16CollectPos(parts []*c16Part, out *[]int) {
	for _, p := range parts {
		switch p.kind {
		case pkSym, pkList, pkSet:
			*out = append(*out, p.pos)
		case pkOpt, pkChoice:
			for _, a := range p.alts {
				c16CollectPos(a, out)
			}
		}
	}
}

func copyNames(m map[string][]int) map[string][]int {
	out := map[string][]int{}
	for k, v := range m {
		out[k] = append([]int(nil), v...)
	}
	return out
}

func c16WalkSeq(parts []*c16Part, sc *c16Sc) {
	for _, p := range parts {
		switch p.kind {
		case pkSym:
			p.pos = *sc.ctr
			*sc.ctr++
			if p.opt {
				sc.push(p.sym+"opt", p.pos)
			} else {
				sc.push(p.sym, p.pos)
			}
			if p.alias != "" {
				sc.push(p.alias, p.pos)
			}
		case pkSet:
			p.pos = *sc.ctr
			*sc.ctr++
			if p.alias != "" {
				sc.push(p.alias, p.pos)
			}
		case pkOpt, pkChoice:
			if p.kind == pkOpt && !p.group {
				c16WalkSeq(p.alts[0], sc)
				continue
			}
			top := sc.top
			if top == nil {
				top = sc
			}
			for _, a := range p.alts {
				sub := &c16Sc{names: map[string][]int{}, top: top, ctr: sc.ctr, optOff: sc.optOff}
				c16WalkSeq(a, sub)
				if sc.top != nil {
					for k, v := range sub.names {
						sc.names[k] = v
					}
				}
			}
			if p.alias != "" {
				var ps []int
				for _, a := range p.alts {
					c16CollectPos(a, &ps)
				}
				if len(ps) > 0 {
					sc.push(p.alias, ps...)
				}
			}
		case pkList:
			ctr := 1
			body := &c16Sc{names: map[string][]int{}, ctr: &ctr, optOff: sc.optOff}
			c16WalkSeq(p.alts[0], body)
			if p.act != nil {
				p.act.maxPos = ctr
				p.act.visible = c16Trim(body.names, sc.optOff)
			}
			p.pos = *sc.ctr
			*sc.ctr++
			if p.alias != "" {
				sc.push(p.alias, p.pos)
			}
		case pkMid:
			p.act.maxPos = *sc.ctr
			p.act.visible = c16Trim(sc.names, sc.optOff)
		}
	}
}

func c16Scope(g *c16Gram, rule *c16Rule) {
	ctr := 1
	sc := &c16Sc{names: map[string][]int{}, ctr: &ctr, optOff: g.optOff}
	c16WalkSeq(rule.parts, sc)
	rule.end.maxPos = ctr
	rule.end.visible = c16Trim(sc.names, g.optOff)
}

// maxActive: the largest number of positions of ps that can be present in one expansion of the rule
func c16MaxActive(parts []*c16Part, ps map[int]bool) int {
	n := 0
	for _, p := range parts {
		switch p.kind {
		case pkSym, pkList, pkSet:
			if ps[p.pos] {
				n++
			}
		case pkOpt:
			n += c16MaxActive(p.alts[0], ps)
		case pkChoice:
			best := 0
			for _, a := range p.alts {
				if k := c16MaxActive(a, ps); k > best {
					best = k
				}
			}
			n += best
		}
	}
	return n
}

func c16PickRefsFor(r *rand.Rand, a *c16Act, scopeParts []*c16Part, firstOK bool) {
	var names []string
	for k := range a.visible {
		names = append(names, k)
	}
	sort.Strings(names)
	n := 2 + r.Intn(4)
	for i := 0; i < n; i++ {
		var ref c16Ref
		switch k := r.Intn(12); {
		case k < 4 && a.maxPos > 1:
			ref.id = fmt.Sprint(r.Intn(a.maxPos - 1))
			ref.prop = "vvoe"[r.Intn(4)]
			ref.self = r.Intn(4) == 0
		case k < 9 && len(names) > 0:
			ref.id = names[r.Intn(len(names))]
			ref.prop = "vvoe"[r.Intn(4)]
			if ref.prop == 'v' {
				ps := map[int]bool{}
				for _, p := range a.visible[ref.id] {
					ps[p] = true
				}
				if c16MaxActive(scopeParts, ps) > 1 {
					ref.prop = "oe"[r.Intn(2)]
				}
			}
		case k < 10:
			ref.id = "left()"
			ref.prop = "oe"[r.Intn(2)]
		case k < 11 && firstOK:
			ref.id = "first()"
			ref.prop = "voe"[r.Intn(3)]
		default:
			// last() of a list body is its last element, which always has a position
			ref.id = "last()"
			ref.prop = "voe"[r.Intn(3)]
		}
		if ref.id == "" {
			ref = c16Ref{id: "left()", prop: 'o'}
		}
		a.refs = append(a.refs, ref)
	}
	// aliases that span several positions (groups, choices): always look at both ends, and at the VALUE when at
	// most one member can be present (the members have different declared types)
	ends := false
	for _, nm := range names {
		if len(a.visible[nm]) <= 1 {
			continue
		}
		if !ends && r.Intn(3) != 0 {
			a.refs = append(a.refs, c16Ref{id: nm, prop: 'e'}, c16Ref{id: nm, prop: 'o'})
			ends = true
		}
		ps := map[int]bool{}
		for _, p := range a.visible[nm] {
			ps[p] = true
		}
		if c16MaxActive(scopeParts, ps) <= 1 && r.Intn(4) != 0 {
			a.refs = append(a.refs, c16Ref{id: nm, prop: 'v'})
		}
	}
	// repeated lists / sets, X next to Xopt: every occurrence by number, by alias and by name
	extra := 0
	for _, p := range scopeParts {
		if !p.probe || p.pos == 0 || p.pos >= a.maxPos || extra >= 10 {
			continue
		}
		a.refs = append(a.refs, c16Ref{id: fmt.Sprint(p.pos - 1), prop: "oe"[r.Intn(2)]})
		extra++
		for _, nm := range names {
			if ps := a.visible[nm]; len(ps) == 1 && ps[0] == p.pos {
				a.refs = append(a.refs, c16Ref{id: nm, prop: 'v'}, c16Ref{id: nm, prop: "oe"[r.Intn(2)]})
				extra += 2
			}
		}
	}
	// next to an inline list: the VALUES at the positions that also exist inside the list element (the element has
	// a numbering of its own; its symbols have other types)
	if a.kind != 2 {
		for _, p := range scopeParts {
			if p.kind == pkList && r.Intn(3) != 0 {
				for k := 0; k < len(p.alts[0]) && k+1 < a.maxPos; k++ {
					a.refs = append(a.refs, c16Ref{id: fmt.Sprint(k), prop: 'v'})
				}
				break
			}
		}
	}
}

func c16PickRefs(r *rand.Rand, g *c16Gram, rule *c16Rule) {
	firstOK := len(rule.parts) > 0 && rule.parts[0].kind == pkSym
	var walk func(parts []*c16Part)
	walk = func(parts []*c16Part) {
		for _, p := range parts {
			switch p.kind {
			case pkMid:
				c16PickRefsFor(r, p.act, rule.parts, firstOK)
			case pkOpt, pkChoice:
				for _, a := range p.alts {
					walk(a)
				}
			case pkList:
				if p.act != nil {
					c16PickRefsFor(r, p.act, p.alts[0], false)
				}
			}
		}
	}
	walk(rule.parts)
	c16PickRefsFor(r, rule.end, rule.parts, firstOK)
}

// ---- rendering as .tm

func (ref c16Ref) src() string {
	id := ref.id
	if ref.self {
		id = "self[" + id + "]"
	}
	simple := !ref.self && !strings.ContainsAny(id, "#()")
	switch ref.prop {
	case 'v':
		if simple {
			return "$" + id
		}
		return "${" + id + "}"
	case 'o':
		return "${" + id + ".offset}"
	}
	return "${" + id + ".endoffset}"
}

func (a *c16Act) src() string {
	var f, args []string
	for _, ref := range a.refs {
		if ref.prop == 'v' {
			f = append(f, "%s")
			args = append(args, "VShow("+ref.src()+")")
		} else {
			f = append(f, "%d")
			args = append(args, ref.src())
		}
	}
	pre := "vid := VNew(\"" + a.label + "\"); "
	switch a.kind {
	case 0:
		pre += "$$ = " + c16Conv(a.lhsType) + "(vid); "
	case 1:
		pre += "$$ = vid; " // the extracted nonterminal is untyped
	}
	// list bodies (kind 2) only log: the value of a list nonterminal stays nil
	return "{ " + pre + "VLog = append(VLog, \"fmt\".Sprintf(\"%s@%d(" + strings.Join(f, ",") + ")|%s\", vid, rule, " +
		strings.Join(args, ", ") + ", VStack(stack, lhs))) }"
}

func c16RenderSeq(parts []*c16Part) string {
	var out []string
	for _, p := range parts {
		al := ""
		if p.alias != "" {
			al = "[" + p.alias + "]"
		}
		switch p.kind {
		case pkSym:
			if p.opt {
				out = append(out, p.sym+"opt"+al)
			} else {
				out = append(out, p.sym+al)
			}
		case pkSet:
			out = append(out, "set("+strings.Join(p.set, " | ")+")"+al)
		case pkOpt:
			if p.group {
				out = append(out, "("+c16RenderSeq(p.alts[0])+")"+al+"?")
			} else {
				out = append(out, c16RenderSeq(p.alts[0])+"?")
			}
		case pkChoice:
			var as []string
			for _, a := range p.alts {
				as = append(as, c16RenderSeq(a))
			}
			out = append(out, "("+strings.Join(as, " | ")+")"+al)
		case pkList:
			body := c16RenderSeq(p.alts[0])
			if p.act != nil {
				body += " " + p.act.src()
			}
			if p.sep {
				body += " separator COMMA"
			}
			q := "*"
			if p.plus {
				q = "+"
			}
			out = append(out, "("+body+")"+q+al)
		case pkMid:
			out = append(out, p.act.src())
		case pkMarker:
			out = append(out, "."+p.mark)
		}
	}
	return strings.Join(out, " ")
}

func (g *c16Gram) TM(name string, optimize bool) string {
	var sb strings.Builder
	fmt.Fprintf(&sb, "language %s(go);\n\nlang = %q\npackage = \"gp/%s\"\neventBased = true\n", name, name, name)
	if optimize {
		sb.WriteString("optimizeTables = true\n")
	}
	if g.optOff {
		sb.WriteString("aliasIncludesOptSuffix = false\n")
	}
	sb.WriteString("\n::lexer\n\nWhiteSpace: /[ ]+/ (space)\n")
	for _, t := range append(append([]string{}, g.terms...), "COMMA", "L") {
		re := strings.ToLower(t)
		if t == "COMMA" {
			re = ","
		}
		val := re
		if t == "COMMA" {
			val = "sep"
		}
		ty := g.termType[t]
		fmt.Fprintf(&sb, "%s {%s}: /%s/ { $$ = %s(\"fmt\".Sprintf(\"%s@%%d\", l.tokenOffset)) }\n", t, ty, re, c16Conv(ty), val)
	}
	sb.WriteString("\n::parser\n\n%input N0;\n")
	if g.flag {
		sb.WriteString("%flag WithX;\n")
	}
	sb.WriteString("\n")
	for i, alts := range g.nts {
		fmt.Fprintf(&sb, "%s {%s}:\n", g.ntName(i), g.ntType[i])
		for k, rule := range alts {
			if k == 0 {
				sb.WriteString("    ")
			} else {
				sb.WriteString("  | ")
			}
			sb.WriteString(c16RenderSeq(rule.parts) + " " + rule.end.src() + "\n")
		}
		sb.WriteString(";\n")
	}
	return sb.String()
}

// ---------------------------------------------------------------------------------------------
// derivations of the source grammar and the source-level oracle

type c16Entry struct {
	val      string
	off, end int
}

type c16Child struct {
	kind   int // 0 token, 1 nonterminal, 2 list, 3 mid action
	tok    int // token index (kind 0); index of the next token at the start of the child (others)
	rule   *c16Rule
	sub    *c16Inst   // kind 1
	part   *c16Part   // kind 2, 3
	iters  []*c16Inst // kind 2
	sepTok []int      // kind 2: separator token before iteration k>0
	inner  *c16Child  // kind 4 (Xopt): the X inside, nil when absent
	pos    int
	e      c16Entry
}

type c16Inst struct {
	children []*c16Child
	byPos    map[int]*c16Child
	startTok int
}

type c16Deriv struct {
	g    *c16Gram
	r    *rand.Rand
	toks []string // terminal names
}

func (d *c16Deriv) seq(parts []*c16Part, in *c16Inst) {
	for _, p := range parts {
		switch p.kind {
		case pkSym:
			ch := &c16Child{pos: p.pos, tok: len(d.toks)}
			present := !p.opt || d.r.Intn(2) == 0
			if present && p.nt >= 0 {
				ch.kind = 1
				alts := d.g.nts[p.nt]
				ch.rule = alts[d.r.Intn(len(alts))]
				ch.sub = d.inst(ch.rule.parts)
			} else if present {
				d.toks = append(d.toks, p.sym)
			}
			if p.opt {
				// the nonterminal Xopt: one stack entry (value nil) around X or around nothing
				outer := &c16Child{kind: 4, pos: p.pos, tok: ch.tok}
				if present {
					ch.pos = 0
					outer.inner = ch
				}
				ch = outer
			}
			in.children = append(in.children, ch)
			in.byPos[p.pos] = ch
		case pkSet:
			ch := &c16Child{kind: 5, pos: p.pos, tok: len(d.toks)}
			d.toks = append(d.toks, p.set[d.r.Intn(len(p.set))])
			in.children = append(in.children, ch)
			in.byPos[p.pos] = ch
		case pkOpt:
			if d.r.Intn(2) == 0 {
				d.seq(p.alts[0], in)
			}
		case pkChoice:
			d.seq(p.alts[d.r.Intn(len(p.alts))], in)
		case pkList:
			ch := &c16Child{kind: 2, part: p, pos: p.pos, tok: len(d.toks)}
			n := d.r.Intn(4)
			if p.plus && n == 0 {
				n = 1
			}
			for k := 0; k < n; k++ {
				st := -1
				if k > 0 && p.sep {
					st = len(d.toks)
					d.toks = append(d.toks, "COMMA")
				}
				ch.sepTok = append(ch.sepTok, st)
				ch.iters = append(ch.iters, d.inst(p.alts[0]))
			}
			in.children = append(in.children, ch)
			in.byPos[p.pos] = ch
		case pkMid:
			in.children = append(in.children, &c16Child{kind: 3, part: p, tok: len(d.toks)})
		}
	}
}

func (d *c16Deriv) inst(parts []*c16Part) *c16Inst {
	in := &c16Inst{byPos: map[int]*c16Child{}, startTok: len(d.toks)}
	d.seq(parts, in)
	return in
}

// evaluation (second pass, offsets known)
type c16Eval struct {
	tokOff, tokEnd []int // tokOff has one more element: the offset of EOI
	toks           []string
	g              *c16Gram
	seq            int
	log            []string // expected `label#seq(vals)`
	acts           []*c16Act
}

// tokEntry is the stack entry of a shifted token: its value has the declared type of the terminal.
func (ev *c16Eval) tokEntry(t int) c16Entry {
	name := ev.toks[t]
	core := fmt.Sprintf("%s@%d", strings.ToLower(name), ev.tokOff[t])
	if name == "COMMA" {
		core = fmt.Sprintf("sep@%d", ev.tokOff[t])
	}
	return c16Entry{c16Show(ev.g.termType[name], core), ev.tokOff[t], ev.tokEnd[t]}
}

func (ev *c16Eval) span(entries []c16Entry, nextTok int) (int, int) {
	if len(entries) == 0 {
		return ev.tokOff[nextTok], ev.tokOff[nextTok]
	}
	return entries[0].off, entries[len(entries)-1].end
}

// fire evaluates one action by the source-level reading: byPos tells which positions are present.
func (ev *c16Eval) fire(a *c16Act, prefix []c16Entry, byPos map[int]*c16Entry, lhs c16Entry) string {
	ev.seq++
	id := fmt.Sprintf("%s#%d", a.label, ev.seq)
	var vals []string
	for _, ref := range a.refs {
		var first, last *c16Entry
		switch ref.id {
		case "left()":
			first, last = &lhs, &lhs
		case "first()":
			if len(prefix) > 0 {
				first, last = &prefix[0], &prefix[0]
			}
		case "last()":
			if len(prefix) > 0 {
				first, last = &prefix[len(prefix)-1], &prefix[len(prefix)-1]
			}
		default:
			var ps []int
			if n, err := strconv.Atoi(ref.id); err == nil {
				ps = []int{n + 1}
			} else {
				ps = a.visible[ref.id]
			}
			for _, p := range ps {
				if e, ok := byPos[p]; ok {
					if first == nil {
						first = e
					}
					last = e
				}
			}
		}
		switch {
		case first == nil && ref.prop == 'v':
			vals = append(vals, "<nil>")
		case first == nil:
			vals = append(vals, "-1")
		case ref.prop == 'v':
			vals = append(vals, first.val)
		case ref.prop == 'o':
			vals = append(vals, fmt.Sprint(first.off))
		default:
			vals = append(vals, fmt.Sprint(last.end))
		}
	}
	ev.log = append(ev.log, id+"("+strings.Join(vals, ",")+")")
	ev.acts = append(ev.acts, a)
	return id
}

// inst evaluates the children of a rule instance left to right; `pre` are entries already on the stack that
// belong to the same expanded rule (the list built so far and the separator, for list bodies).
func (ev *c16Eval) inst(in *c16Inst, pre []c16Entry) (entries []c16Entry, byPos map[int]*c16Entry) {
	entries = append(entries, pre...)
	byPos = map[int]*c16Entry{}
	for _, ch := range in.children {
		var e c16Entry
		switch ch.kind {
		case 0:
			e = ev.tokEntry(ch.tok)
		case 1:
			sub, subPos := ev.inst(ch.sub, nil)
			o, en := ev.span(sub, ch.tok)
			id := ev.fire(ch.rule.end, sub, subPos, c16Entry{"", o, en})
			e = c16Entry{c16Show(ch.rule.end.lhsType, id), o, en}
		case 2:
			have := false
			var list c16Entry
			list.val = "<nil>"
			for k, it := range ch.iters {
				var pre2 []c16Entry
				if have {
					pre2 = append(pre2, list)
					if ch.sepTok[k] >= 0 {
						t := ch.sepTok[k]
						pre2 = append(pre2, ev.tokEntry(t))
					}
				}
				ents, bp := ev.inst(it, pre2)
				o, en := ev.span(ents, ch.tok)
				if ch.part.act != nil {
					ev.fire(ch.part.act, ents, bp, c16Entry{"", o, en})
				}
				list.off, list.end = o, en
				have = true
			}
			if !have {
				list.off, list.end = ev.tokOff[ch.tok], ev.tokOff[ch.tok]
			}
			e = list
		case 4:
			// Xopt: `Xopt: X | %empty` has no action, its value stays nil; it spans X or is empty at the next token
			e = c16Entry{"<nil>", ev.tokOff[ch.tok], ev.tokOff[ch.tok]}
			if ch.inner != nil {
				ie, _ := ev.inst(&c16Inst{children: []*c16Child{ch.inner}}, nil)
				e.off, e.end = ie[0].off, ie[0].end
			}
		case 5:
			// set(A | B): the extracted nonterminal has no action either
			e = c16Entry{"<nil>", ev.tokOff[ch.tok], ev.tokEnd[ch.tok]}
		case 3:
			o := ev.tokOff[ch.tok]
			id := ev.fire(ch.part.act, entries, byPos, c16Entry{"", o, o})
			e = c16Entry{"s=" + id, o, o}
		}
		entries = append(entries, e)
		if ch.pos > 0 {
			ee := e
			byPos[ch.pos] = &ee
		}
	}
	return
}

// ---------------------------------------------------------------------------------------------
// runner for the generated parsers (one binary per batch)

const c16Support = `package %s

import "fmt"

var VLog []string
var vSeq int

func VReset() { VLog = nil; vSeq = 0 }

func VNew(label string) string {
	vSeq++
	return fmt.Sprintf("%%s#%%d", label, vSeq)
}

// values of the three declared types, all built from a recognisable core text
type TV struct{ S string }

func VS(core string) string { return core }
func VT(core string) *TV    { return &TV{core} }
func VI(core string) int {
	h := 7
	for i := 0; i < len(core); i++ {
		h = (h*31 + int(core[i])) %% 1000000007
	}
	return h
}

// VShow prints a value together with its dynamic type.
func VShow(x interface{}) string {
	switch v := x.(type) {
	case nil:
		return "<nil>"
	case string:
		return "s=" + v
	case int:
		return fmt.Sprintf("i=%%d", v)
	case *TV:
		if v == nil {
			return "t=nil"
		}
		return "t=" + v.S
	}
	return fmt.Sprintf("?%%T", x)
}

// VStack prints the parser stack above the bottom sentinel (symbol:value:offset:endoffset) and the new entry.
func VStack(stack []stackEntry, lhs *stackEntry) string {
	s := ""
	for i, e := range stack {
		if i == 0 {
			continue
		}
		if len(s) > 0 {
			s += ","
		}
		s += fmt.Sprintf("%%d:%%s:%%d:%%d", e.sym.symbol, VShow(e.value), e.sym.offset, e.sym.endoffset)
	}
	if s == "" {
		s = "-"
	}
	return s + "|" + fmt.Sprintf("%%d:%%s:%%d:%%d", lhs.sym.symbol, VShow(lhs.value), lhs.sym.offset, lhs.sym.endoffset)
}
`

type c16Batch struct {
	dir   string
	names []string
	bin   string
}

func c16BuildBatch(gps []*GenParser) (*c16Batch, error) {
	dir, err := os.MkdirTemp("", "tmverif-c16-")
	if err != nil {
		return nil, err
	}
	b := &c16Batch{dir: dir}
	if err := os.WriteFile(filepath.Join(dir, "go.mod"), []byte("module gp\n\ngo 1.25\n"), 0o644); err != nil {
		return b, err
	}
	var main strings.Builder
	main.WriteString("package main\n\nimport (\n\t\"bufio\"\n\t\"fmt\"\n\t\"os\"\n\t\"strconv\"\n\t\"strings\"\n")
	for _, gp := range gps {
		fmt.Fprintf(&main, "\t%s \"gp/%s\"\n", gp.Name, gp.Name)
	}
	main.WriteString(")\n\n")
	for _, gp := range gps {
		for fn, content := range gp.Files {
			p := filepath.Join(dir, gp.Name, fn)
			if err := os.MkdirAll(filepath.Dir(p), 0o755); err != nil {
				return b, err
			}
			if err := os.WriteFile(p, []byte(content), 0o644); err != nil {
				return b, err
			}
		}
		if err := os.WriteFile(filepath.Join(dir, gp.Name, "vsupport.go"), []byte(fmt.Sprintf(c16Support, gp.Name)), 0o644); err != nil {
			return b, err
		}
		n := gp.Name
		fmt.Fprintf(&main, `func run_%s(text string) (out string) {
	defer func() {
		if r := recover(); r != nil {
			out = strings.Join(%s.VLog, " ") + " => panic:" + strings.ReplaceAll(fmt.Sprint(r), " ", "_")
		}
	}()
	%s.VReset()
	var l %s.Lexer
	l.Init(text)
	var p %s.Parser
	p.Init(func(t %s.NodeType, s, e int) {})
	v, err := p.Parse(&l)
	if err != nil {
		if se, ok := err.(%s.SyntaxError); ok {
			return strings.Join(%s.VLog, " ") + fmt.Sprintf(" => err:%%d:%%d", se.Offset, se.Endoffset)
		}
		return strings.Join(%s.VLog, " ") + " => error"
	}
	return strings.Join(%s.VLog, " ") + " => " + %s.VShow(v)
}

`, n, n, n, n, n, n, n, n, n, n, n)
	}
	main.WriteString("var runners = map[string]func(string) string{\n")
	for _, gp := range gps {
		fmt.Fprintf(&main, "\t%q: run_%s,\n", gp.Name, gp.Name)
	}
	main.WriteString("}\n\n")
	main.WriteString(`func main() {
	sc := bufio.NewScanner(os.Stdin)
	sc.Buffer(make([]byte, 1<<20), 1<<26)
	w := bufio.NewWriter(os.Stdout)
	defer w.Flush()
	for sc.Scan() {
		parts := strings.SplitN(sc.Text(), "\t", 2)
		if len(parts) != 2 {
			fmt.Fprintln(w, "badline")
			continue
		}
		text, err := strconv.Unquote(parts[1])
		if err != nil {
			fmt.Fprintln(w, "badquote")
			continue
		}
		r, ok := runners[parts[0]]
		if !ok {
			fmt.Fprintln(w, "norunner")
			continue
		}
		fmt.Fprintln(w, r(text))
		w.Flush()
	}
}
`)
	if err := os.WriteFile(filepath.Join(dir, "main.go"), []byte(main.String()), 0o644); err != nil {
		return b, err
	}
	b.bin = filepath.Join(dir, "runner")
	cmd := exec.Command("go", "build", "-o", b.bin, ".")
	cmd.Dir = dir
	cmd.Env = append(os.Environ(), "GOFLAGS=-mod=mod", "GOPROXY=off")
	out, err := cmd.CombinedOutput()
	if err != nil {
		return b, fmt.Errorf("go build of generated parsers failed: %v\n%s", err, tail(string(out), 3000))
	}
	return b, nil
}

func (b *c16Batch) run(reqs [][2]string) []string {
	var in bytes.Buffer
	for _, r := range reqs {
		fmt.Fprintf(&in, "%s\t%s\n", r[0], strconvQuote(r[1]))
	}
	ctx, cancel := context.WithTimeout(context.Background(), 5*time.Minute)
	defer cancel()
	cmd := exec.CommandContext(ctx, b.bin)
	cmd.Stdin = &in
	cmd.Env = append(os.Environ(), "GOMEMLIMIT=2GiB")
	out, _ := cmd.Output()
	res := make([]string, 0, len(reqs))
	sc := bufio.NewScanner(bytes.NewReader(out))
	sc.Buffer(make([]byte, 1<<20), 1<<26)
	for sc.Scan() {
		res = append(res, sc.Text())
	}
	for len(res) < len(reqs) {
		res = append(res, "crash")
	}
	return res
}

// ---------------------------------------------------------------------------------------------
// layer 2: compiled rules vs the mirror of traverse

// c16Linear lists the leaves of an expanded rule expression in the order traverse visits them.
func c16Linear(e *syntax.Expr, out *[]*syntax.Expr) {
	switch e.Kind {
	case syntax.Prec, syntax.Arrow, syntax.Sequence, syntax.Assign, syntax.Append:
		for _, s := range e.Sub {
			c16Linear(s, out)
		}
	case syntax.Reference, syntax.StateMarker, syntax.Command:
		*out = append(*out, e)
	}
}

type c16Compiled struct {
	gp      *GenParser
	midSyms map[lalr.Sym]int // extracted nonterminal -> its rule index
}

func c16Analyse(gp *GenParser) *c16Compiled {
	cc := &c16Compiled{gp: gp, midSyms: map[lalr.Sym]int{}}
	for i, r := range gp.G.Parser.Rules {
		if r.Value != nil && r.Value.Kind == syntax.Choice {
			cc.midSyms[r.LHS] = i
		}
	}
	return cc
}

func stackSyms(r *grammar.Rule) []lalr.Sym {
	var out []lalr.Sym
	for _, s := range r.RHS {
		if !s.IsStateMarker() {
			out = append(out, s)
		}
	}
	return out
}

// remapCases emits one `remap` case per user rule with an end-of-rule action and checks the decidable
// hypotheses of the Lean theorems on the real data (distinct positions, scoping of commands, names below MaxPos).
func (cc *c16Compiled) remapCases(c *Ctx) {
	p := cc.gp.G.Parser
	for ri, r := range p.Rules {
		if r.Value == nil || r.Value.Kind == syntax.Choice {
			continue
		}
		var leaves []*syntax.Expr
		c16Linear(r.Value, &leaves)
		var elems, refPos []string
		var refSyms []int
		seen := map[int]bool{}
		hasCmd := false
		pendingMax := -1
		for _, l := range leaves {
			switch l.Kind {
			case syntax.Reference:
				elems = append(elems, fmt.Sprintf("r%d", l.Pos))
				refPos = append(refPos, fmt.Sprintf("s%d", l.Pos))
				refSyms = append(refSyms, l.Symbol)
				if l.Pos > 0 {
					if seen[l.Pos] {
						c.Violate("model hypothesis broken: a position occurs twice in one expanded rule", cc.gp.TM)
					}
					seen[l.Pos] = true
					if pendingMax >= 0 && l.Pos < pendingMax {
						c.Violate(fmt.Sprintf("model hypothesis broken (Scoped): position %d < MaxPos %d follows the command in rule %d", l.Pos, pendingMax, ri), cc.gp.TM)
					}
				}
			case syntax.StateMarker:
				elems = append(elems, "m")
			case syntax.Command:
				mp := 0
				if l.CmdArgs != nil {
					mp = l.CmdArgs.MaxPos
					for n, ps := range l.CmdArgs.Names {
						for _, q := range ps {
							if q >= mp {
								c.Violate(fmt.Sprintf("model hypothesis broken: name %s has position %d >= MaxPos %d", n, q, mp), cc.gp.TM)
							}
						}
					}
				}
				if mp > pendingMax {
					pendingMax = mp
				}
				elems = append(elems, fmt.Sprintf("c%d", mp))
				hasCmd = true
			}
		}
		if !hasCmd || r.Action == 0 || p.Actions[r.Action].Vars == nil {
			continue
		}
		vars := p.Actions[r.Action].Vars
		// the implementation's RHS
		var rhs, mids []string
		k, ref := 0, 0
		ok := true
		for _, s := range stackSyms(r) {
			if mr, isMid := cc.midSyms[s]; isMid {
				rhs = append(rhs, fmt.Sprintf("x%d", k))
				k++
				mv := p.Actions[p.Rules[mr].Action].Vars
				if mv != nil {
					mids = append(mids, fmt.Sprintf("%d:%d", mv.SymRefCount, mv.MaxPos))
				} else {
					mids = append(mids, "nil")
				}
				continue
			}
			if ref >= len(refPos) || refSyms[ref] != int(s) {
				ok = false
				break
			}
			rhs = append(rhs, refPos[ref])
			ref++
		}
		if !ok || ref != len(refPos) {
			c.Violate(fmt.Sprintf("rule %d: right-hand side does not consist of the references of the rule expression in order", ri), cc.gp.TM)
			continue
		}
		var rm []string
		for _, q := range sortedIntKeys(vars.Remap) {
			rm = append(rm, fmt.Sprintf("%d:%d", q, vars.Remap[q]))
		}
		j := func(l []string, empty string) string {
			if len(l) == 0 {
				return empty
			}
			return strings.Join(l, ",")
		}
		ms := "_"
		if len(mids) > 0 {
			ms = strings.Join(mids, ";")
		}
		line := "remap " + j(elems, "-")
		ans := fmt.Sprintf("%s %s %d %s", j(rhs, "-"), j(rm, "-"), vars.SymRefCount, ms)
		key := ""
		if k > 0 || len(vars.Remap) < vars.MaxPos-1 {
			key = line
			c.Count("remap: rule with mid-rule nonterminal or absent positions")
		} else {
			c.Count("remap: plain rule")
		}
		c.Case(line, ans, key)
	}
}

// ---------------------------------------------------------------------------------------------

type c16Item struct {
	g  *c16Gram
	gp *GenParser
	cc *c16Compiled
}

func c16Text(r *rand.Rand, toks []string) (text string, off, end []int) {
	var sb strings.Builder
	for _, t := range toks {
		if sb.Len() > 0 && r.Intn(3) == 0 || r.Intn(8) == 0 {
			sb.WriteString(strings.Repeat(" ", 1+r.Intn(2)))
		}
		off = append(off, sb.Len())
		if t == "COMMA" {
			sb.WriteString(",")
		} else {
			sb.WriteString(strings.ToLower(t))
		}
		end = append(end, sb.Len())
	}
	if r.Intn(3) == 0 {
		sb.WriteString(strings.Repeat(" ", 1+r.Intn(2)))
	}
	off = append(off, sb.Len()) // EOI is reported at the end of the input
	return sb.String(), off, end
}

func c16(c *Ctx) {
	c.Rule = "(1) unit: random action strings ($$, $N, $name, ${id.prop}, self[N], left()/leftRaw()/first()/last(), malformed forms, numbers around MaxPos, overflowing and signed numbers) over random ActionVars (injective Remap with gaps for symbols without position, absent positions, multi-position aliases, typed and untyped positions, mid-rule environments) through the real gen.goParserAction vs the Lean mirror, and random byte strings through gen.parseMeta; (2) every rule of randomly generated grammars compiled by the real compiler: leaves of the expanded rule expression vs real RHS / Remap / SymRefCount / extracted mid-rule nonterminals; the hypotheses of the theorems (distinct positions, commands see only earlier positions) are checked on these; (3) end to end: grammars (half of them declaring a %flag, so that the template instantiation pass runs) whose terminals and 2-4 nonterminals carry DIFFERENT Go value types (string, int, *TV; lexer actions and rule actions produce recognisable values of the declared type, printed with their dynamic type), whose rules mix symbols, aliases, X?, (…)?, nested choices with aliases spanning alternatives (also aliased choices of differently typed single symbols whose VALUE is read), values read at the positions that also exist inside an inline list element, the SAME list expression (L+ / L*) 2-4 times in one rule and in several rules at different positions and the same set(...) twice (every occurrence referenced by number, alias and offsets), a symbol X together with its auto-instantiated Xopt (either order, or Xopt alone) referenced by name with aliasIncludesOptSuffix on and off, lists (+,*, separator, with body actions), mid-rule actions (also inside alternatives) and state markers; every action logs fmt.Sprintf of 2-5 references ($N, $name, offsets, first()/last()/left(), self[N]) plus the real parser stack; generated by the real generator, built in one batch; sentences derived from the SOURCE grammar with random spacing; the logged values and the returned start value are compared with the source-level prediction (no Remap involved) and, per executed action, the real stack + real ActionVars go to the Lean evaluator; non-trivial = action instance with an absent reference, a mid-rule/list-body action or a multi-position alias; distinct by (grammar, action, values)"
	c16Unit(c)

	nG := c.N(12, 120)
	batchSize := c.N(12, 24)
	made := 0
	var tCompile, tBuild, tRun time.Duration
	defer func() {
		c.Extra["seconds_compile_build_run"] = fmt.Sprintf("%.1f %.1f %.1f", tCompile.Seconds(), tBuild.Seconds(), tRun.Seconds())
	}()
	for done := 0; done < nG; done += batchSize {
		var items []*c16Item
		var gps []*GenParser
		tries := 0
		t0 := time.Now()
		for len(items) < batchSize && done+len(items) < nG && tries < 40*batchSize {
			tries++
			g := c16GenGram(c.Rng)
			name := fmt.Sprintf("a%d", made)
			opt := c.Rng.Intn(3) == 0
			gp := compileTM(name, g.TM(name, opt), TMOpts{Optimize: opt})
			if gp.Err != nil {
				c.Count("grammar rejected: " + firstWords(errSummary(gp.Err), 5))
				if !strings.Contains(errSummary(gp.Err), "conflicts: ") {
					// every reference of the generated grammars names a symbol of its rule: only LALR conflicts are a
					// legitimate reason to reject them
					c.Violate("compiler/generator rejected a grammar whose references are all well-formed: "+errSummary(gp.Err), gp.TM)
				}
				continue
			}
			if len(gp.G.Parser.Rules) > 150 {
				c.Count("grammar skipped: more than 150 expanded rules")
				continue
			}
			made++
			c.Count("grammar accepted")
			c.Debugf("grammar %s:\n%s", name, gp.TM)
			items = append(items, &c16Item{g, gp, c16Analyse(gp)})
			gps = append(gps, gp)
		}
		if len(items) == 0 {
			continue
		}
		for _, it := range items {
			it.cc.remapCases(c)
		}
		tCompile += time.Since(t0)
		t0 = time.Now()
		b, err := c16BuildBatch(gps)
		tBuild += time.Since(t0)
		if err != nil {
			c.Violate("generated parsers do not build: "+err.Error(), gps[0].TM)
			if b != nil {
				os.RemoveAll(b.dir)
			}
			continue
		}
		type sent struct {
			it   *c16Item
			text string
			ev   *c16Eval
			want string
		}
		var sents []*sent
		var reqs [][2]string
		for _, it := range items {
			for s := 0; s < c.N(12, 20); s++ {
				d := &c16Deriv{g: it.g, r: c.Rng}
				rule := it.g.nts[0][c.Rng.Intn(len(it.g.nts[0]))]
				root := d.inst(rule.parts)
				text, off, end := c16Text(c.Rng, d.toks)
				ev := &c16Eval{tokOff: off, tokEnd: end, toks: d.toks, g: it.g}
				ents, bp := ev.inst(root, nil)
				o, en := ev.span(ents, 0)
				id := ev.fire(rule.end, ents, bp, c16Entry{"", o, en})
				sents = append(sents, &sent{it, text, ev, c16Show(rule.end.lhsType, id)})
				reqs = append(reqs, [2]string{it.gp.Name, text})
			}
		}
		t0 = time.Now()
		outs := b.run(reqs)
		tRun += time.Since(t0)
		os.RemoveAll(b.dir)
		for i, s := range sents {
			c.Debugf("%s %q -> %s", s.it.gp.Name, s.text, c16StripDumps(strings.Split(outs[i], " ")))
			c16Compare(c, s.it, s.text, s.ev, s.want, outs[i])
		}
	}
}

// c16Compare checks one run against the source-level prediction and emits the Lean cases.
func c16Compare(c *Ctx, it *c16Item, text string, ev *c16Eval, want, out string) {
	where := fmt.Sprintf("input %q with grammar:\n%s", text, it.gp.TM)
	logS, ret, ok := strings.Cut(out, " => ")
	if !ok {
		c.Violate("runner failed: "+out, where)
		return
	}
	var entries []string
	if logS != "" {
		entries = strings.Split(logS, " ")
	}
	if ret != want {
		c.Violate(fmt.Sprintf("Parse returned %q, the derivation of the source grammar gives %q (log %s; expected %s)", ret, want, c16StripDumps(entries), strings.Join(ev.log, " ")), where)
		c.Count("e2e: result mismatch")
		return
	}
	if len(entries) != len(ev.log) {
		c.Violate(fmt.Sprintf("%d actions ran, %d expected (log %s; expected %s)", len(entries), len(ev.log), c16StripDumps(entries), strings.Join(ev.log, " ")), where)
		return
	}
	p := it.gp.G.Parser
	for k, e := range entries {
		// label#seq@rule(vals)|stack|lhs
		head, rest, _ := strings.Cut(e, "(")
		vals, dumps, _ := strings.Cut(rest, ")|")
		id, ruleS, _ := strings.Cut(head, "@")
		stackS, lhsS, _ := strings.Cut(dumps, "|")
		got := id + "(" + vals + ")"
		a := ev.acts[k]
		wantVals := strings.TrimSuffix(strings.SplitN(ev.log[k], "(", 2)[1], ")")
		ri, _ := strconv.Atoi(ruleS)
		if ri < 0 || ri >= len(p.Rules) || p.Rules[ri].Action == 0 || p.Actions[p.Rules[ri].Action].Vars == nil {
			c.Violate("log entry names a rule without action variables: "+e, where)
			continue
		}
		vars := p.Actions[p.Rules[ri].Action].Vars
		// the LR invariant assumed by the slot theorem: the top SymRefCount entries are the rule's prefix
		var stackSym []int
		var stackEnt []string
		if stackS != "-" {
			for _, se := range strings.Split(stackS, ",") {
				f := strings.SplitN(se, ":", 2)
				sy, _ := strconv.Atoi(f[0])
				stackSym = append(stackSym, sy)
				stackEnt = append(stackEnt, f[1])
			}
		}
		if !c16StackHolds(it.cc, ri, vars.SymRefCount, stackSym) {
			c.Violate(fmt.Sprintf("hypothesis StackHolds fails at action %s: the top %d stack symbols %v are not the prefix of rule %d", id, vars.SymRefCount, stackSym, ri), where)
		}
		if got != ev.log[k] {
			c.Violate(fmt.Sprintf("action %s (rule %d, `%s`) evaluated its references to (%s); by the source-level reading of the rule they are (%s)", id, ri, a.src(), vals, wantVals), where)
			c.Count("e2e: value mismatch")
		}
		var refs []string
		nontrivial := a.kind != 0
		for j, ref := range a.refs {
			rid := ref.id
			if ref.self {
				rid = "self[" + rid + "]"
			}
			refs = append(refs, fmt.Sprintf("%s:%c", c16hex(rid), ref.prop))
			wv := strings.Split(wantVals, ",")
			if j < len(wv) && (wv[j] == "<nil>" || wv[j] == "-1") {
				nontrivial = true
			}
			if len(a.visible[ref.id]) > 1 {
				nontrivial = true
			}
		}
		st := "-"
		if len(stackEnt) > 0 {
			st = strings.Join(stackEnt, ",")
		}
		_, lhsE, _ := strings.Cut(lhsS, ":")
		line := fmt.Sprintf("eval %s %s %s %s %s", c16Vars(vars), strings.Join(refs, ";"), st, lhsE, wantVals)
		key := ""
		if nontrivial {
			key = it.gp.Name + a.label + vals
			c.Count("e2e: action instance (absent reference / mid-rule / list body / multi-position alias)")
		} else {
			c.Count("e2e: action instance (all references present)")
		}
		if strings.ContainsAny(vals, " ") {
			c.Violate("unexpected blank in logged values: "+vals, where)
			continue
		}
		c.Case(line, vals, key)
	}
}

func c16StripDumps(entries []string) string {
	var out []string
	for _, e := range entries {
		h, _, _ := strings.Cut(e, "|")
		out = append(out, h)
	}
	return strings.Join(out, " ")
}

// c16StackHolds: rule ri is either a user rule (SymRefCount = its stack length) or the rule of an extracted
// mid-rule nonterminal: then some user rule must contain the nonterminal at stack index n with that prefix.
func c16StackHolds(cc *c16Compiled, ri, n int, stack []int) bool {
	p := cc.gp.G.Parser
	if n > len(stack) {
		return false
	}
	top := stack[len(stack)-n:]
	match := func(rhs []lalr.Sym) bool {
		for i := 0; i < n; i++ {
			if int(rhs[i]) != top[i] {
				return false
			}
		}
		return true
	}
	r := p.Rules[ri]
	if _, isMid := cc.midSyms[r.LHS]; !isMid {
		rhs := stackSyms(r)
		return len(rhs) == n && match(rhs)
	}
	for _, u := range p.Rules {
		rhs := stackSyms(u)
		if n < len(rhs) && rhs[n] == r.LHS && match(rhs) {
			return true
		}
	}
	return false
}
