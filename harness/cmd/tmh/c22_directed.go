package main

// C22, part 2: diagnostics aimed at.
//
//   - c22ErrorSites: inventory of the diagnostic sites (`….Errorf(node, "format", …)`) of compiler/, syntax/,
//     lalr/ and lex/ of the tree under test (go/parser at run time), grouped by format string. Every
//     diagnostic returned by a run is attributed to the most specific format that matches its message, so the
//     evidence shows which sites were reached at least once and which never.
//   - c22Directed: one hand-written input (often several) per reachable site of compiler/, with the optional
//     sub-nodes of the construct absent and present, and redeclarations in BOTH orders; plus two systematic
//     families: pairs of lexeme declarations of one terminal and pairs of declarations of one nonterminal
//     that differ in their optional parts (type, ID, attribute, priority, start conditions, command;
//     parameters, type, report clause, alias).

import (
	"fmt"
	"go/ast"
	"go/parser"
	"go/token"
	"math/rand"
	"os"
	"path/filepath"
	"regexp"
	"sort"
	"strconv"
	"strings"
)

type c22ErrFormat struct {
	Format string
	Sites  []string // file:line
	re     *regexp.Regexp
	weight int // number of literal bytes: the most specific matching format wins
	Hits   int
}

var c22VerbRE = regexp.MustCompile(`%[-+# 0-9.]*[a-zA-Z]`)

func c22FormatRE(format string) (*regexp.Regexp, int) {
	var sb strings.Builder
	weight := 0
	sb.WriteString(`(?s)^`)
	rest := format
	for {
		loc := c22VerbRE.FindStringIndex(rest)
		// %% is a literal percent sign
		if i := strings.Index(rest, "%%"); i >= 0 && (loc == nil || i <= loc[0]) {
			sb.WriteString(regexp.QuoteMeta(rest[:i] + "%"))
			weight += i + 1
			rest = rest[i+2:]
			continue
		}
		if loc == nil {
			sb.WriteString(regexp.QuoteMeta(rest))
			weight += len(rest)
			break
		}
		sb.WriteString(regexp.QuoteMeta(rest[:loc[0]]))
		weight += loc[0]
		sb.WriteString(`.*`)
		rest = rest[loc[1]:]
	}
	sb.WriteString(`$`)
	re, err := regexp.Compile(sb.String())
	if err != nil {
		return nil, 0
	}
	return re, weight
}

// c22ErrorSites lists the Errorf sites with a literal format of the diagnostic-producing packages.
func c22ErrorSites(repo string) []*c22ErrFormat {
	byFormat := map[string]*c22ErrFormat{}
	fset := token.NewFileSet()
	for _, dir := range []string{"compiler", "syntax", "lalr", "lex"} {
		ents, err := os.ReadDir(filepath.Join(repo, dir))
		if err != nil {
			continue
		}
		for _, e := range ents {
			name := e.Name()
			if !strings.HasSuffix(name, ".go") || strings.HasSuffix(name, "_test.go") || strings.HasPrefix(name, "verif_export") {
				continue
			}
			f, err := parser.ParseFile(fset, filepath.Join(repo, dir, name), nil, parser.SkipObjectResolution)
			if err != nil || f == nil {
				continue
			}
			ast.Inspect(f, func(n ast.Node) bool {
				call, ok := n.(*ast.CallExpr)
				if !ok || len(call.Args) < 2 {
					return true
				}
				sel, ok := call.Fun.(*ast.SelectorExpr)
				if !ok || sel.Sel.Name != "Errorf" {
					return true
				}
				if x, ok := sel.X.(*ast.Ident); ok && x.Name == "fmt" {
					return true
				}
				lit, ok := call.Args[1].(*ast.BasicLit)
				if !ok || lit.Kind != token.STRING {
					return true
				}
				format, err := strconv.Unquote(lit.Value)
				if err != nil {
					return true
				}
				ef := byFormat[format]
				if ef == nil {
					re, w := c22FormatRE(format)
					if re == nil {
						return true
					}
					ef = &c22ErrFormat{Format: format, re: re, weight: w}
					byFormat[format] = ef
				}
				ef.Sites = append(ef.Sites, fmt.Sprintf("%s/%s:%d", dir, name, fset.Position(call.Pos()).Line))
				return true
			})
		}
	}
	var out []*c22ErrFormat
	for _, ef := range byFormat {
		sort.Strings(ef.Sites)
		out = append(out, ef)
	}
	sort.Slice(out, func(i, j int) bool { return out[i].Sites[0]+out[i].Format < out[j].Sites[0]+out[j].Format })
	return out
}

// c22Attribute finds the most specific format matching the message ("" when none does).
func c22Attribute(formats []*c22ErrFormat, msg string) *c22ErrFormat {
	var best *c22ErrFormat
	for _, ef := range formats {
		if (best == nil || ef.weight > best.weight) && ef.re.MatchString(msg) {
			best = ef
		}
	}
	if best != nil && best.weight == 0 && !strings.Contains(msg, "conflict") {
		return nil // "%s" carries the conflict reports of lalr/compile.go only
	}
	return best
}

// ---- directed inputs ---------------------------------------------------------------------------------

const c22DefLexer = "a: /a/\nb: /b/\nc: /c/\n"

// dg renders a grammar: options, lexer section (default: terminals a, b, c), parser section ("" = none).
func dg(lang, opts, lexer, parserSec string) string {
	if lexer == "" {
		lexer = c22DefLexer
	}
	s := "language d(" + lang + ");\n\n" + opts + "\n:: lexer\n\n" + lexer
	if parserSec != "" {
		hdr := ":: parser"
		if strings.HasPrefix(parserSec, "lalr(") {
			i := strings.Index(parserSec, "\n")
			hdr += " " + parserSec[:i]
			parserSec = parserSec[i+1:]
		}
		s += "\n" + hdr + "\n\n" + parserSec
	}
	return s
}

type c22Aimed struct {
	aim  string // substring of the format the input is aimed at
	text string
}

func c22DirectedTable() []c22Aimed {
	go_ := func(opts, lexer, p string) string { return dg("go", opts, lexer, p) }
	ev := "eventBased = true\n"
	var t []c22Aimed
	add := func(aim string, texts ...string) {
		for _, x := range texts {
			t = append(t, c22Aimed{aim, x})
		}
	}
	// ---- compiler/compiler.go
	add("is unbounded", go_("maxLookahead = 2\n", "", "%input S;\nS : (?= L) a ;\nL : a L | b ;\n"), go_("maxLookahead = 1\n", "", "%input S;\nS : (?= !L) a ;\nL : a* ;\n"))
	add("is too long", go_("maxLookahead = 1\n", "", "%input S;\nS : (?= L) a ;\nL : a b c ;\n"), go_("maxLookahead = 2\n", "", "%input S;\nS : (?= L & !M) a ;\nL : a ;\nM : a b c ;\n"))
	add("parenthesized Choice", go_("disableSyntax = [\"NestedChoice\"]\n", "", "%input S;\nS : (a | b) c ;\n"))
	for _, k := range []string{"Optional", "List", "Set", "Lookahead", "Arrow", "Command", "Assign", "Append", "StateMarker", "Sequence", "Reference", "Choice", "Prec", "Empty"} {
		add("is not supported", go_("disableSyntax = [\""+k+"\"]\n"+ev, "", "%left a;\n%input S;\nS : x=a? y+=b* set(c) (?= T) .m { } -> N | %empty | a a %prec a ;\nT : a ;\n"))
	}
	add("templates are not supported", go_("disableSyntax = [\"Templates\"]\n", "", "%flag F;\n%input S;\nS : T<+F> ;\nT<F> : [F] a | b ;\n"))
	add("is spelled like the ID", go_("writeBison = true\n", "'a': /a/\n", "%input S;\nS : CHAR_A ;\nCHAR_A : 'a' ;\n"))
	add("is out of the", go_("", "", "lalr(9)\n%input S;\nS : a ;\n"), go_("", "", "lalr(0)\n%input S;\nS : a ;\n"))
	add("LALR(k) is supported", dg("ts", "", "", "lalr(2)\n%input S;\nS : a ;\n"), dg("cc", "", "", "lalr(2)\n%input S;\nS : a ;\n"))
	add("mixing mid-rule actions", go_("", "", "%input S;\nS : .m a { } b ;\n"), go_("", "", "%input S;\nS : a { } .m b { } ;\n"))
	add("reporting empty ranges", go_(ev, "", "%input S;\nS : a ( -> Foo) ;\n"), go_(ev, "", "%input S;\nS -> R : a (%empty -> Foo) ;\n"))
	// ---- compiler/lexer.go
	add("unused pattern", go_("", "p = /a/\na: /b/\n", ""), go_("", "<*> { p = /a/\n a: /b/ }\n", ""))
	add("redeclaration of", go_("", "%s x, x;\na: /a/\n", ""), go_("", "%x y;\n%s y;\na: /a/\n", ""), go_("", "%s initial;\n%x initial;\na: /a/\n", ""))
	add("unresolved reference", go_("", "<nope> a: /a/\n", ""), go_("", "%s x;\n<x, nope> a: /a/\n<nope> { b: /b/ }\n", ""))
	add("syntax error", go_("", "a: /a/\n%brackets a a;\n", ""), go_("", "%s x;\n<x> { %s y; a: /a/ }\n", ""), go_("", "%s x;\n<x> { %x y; a: /a/ }\n", ""))
	add("must be applicable in the same set", go_("", "%s x;\nid: /[a-z]+/ (class)\n<x> kw: /kw/\n", ""), go_("", "%s x;\n<x> kw: /kw/\nid: /[a-z]+/ (class)\n", ""), go_("", "%s x;\n<x> id: /[a-z]+/ (class)\n<initial, x> kw: /kw/\n", ""), go_("", "%x x;\n<initial, x> id: /[a-z]+/ (class)\nkw: /kw/\n", ""))
	add("class rule without specializations", go_("", "id: /[a-z]+/ (class)\nn: /[0-9]+/\n", ""), go_("", "id: /[a-z]+/ (class) { x }\n", ""))
	add("redeclaration of", go_("", "p = /a/\np = /b/\na: /{p}/\n", ""), go_("", "p = /a/\n<*> { p = /b/\n p = /c/ }\na: /{p}/\n", ""))
	// flex mode
	fl := func(lexer string) string { return dg("cc", "flexMode = true\n", lexer, "") }
	add("unsupported attribute (flex mode)", fl("id: /a/ (class)\n"), fl("id: (class)\n"))
	add("priorities are not supported", fl("a: /a/ -1\n"), fl("a: /a/ 2 (space)\n"))
	add("start conditions are not supported", fl("<x> a: /a/\n"), fl("%s x;\na: /a/\n"), fl("%x x;\n"), fl("<*> { a: /a/ }\n"))
	add("commands are not supported", fl("a: /a/ { x }\n"), fl("a {int}: /a/ (space) { x }\n"))
	add("redeclaration of", fl("a: /a/\na: /b/\n"), fl("a:\na: /b/\n"), fl("a {int}: /a/\na:\n"))
	add("only individual ASCII", fl("a: /ab/\n"), fl("a: /[ab]/\n"), fl("a: /é/\n"), fl("a: /\\x01/\n"))
	add("named patterns are not supported", fl("p = /a/\n"))
	add("syntax error", fl("a: /a/\n%brackets a a;\n"))
	// ---- compiler/options.go
	add("reinitialization of", go_("eventBased = true\neventBased = false\n", "", ""), go_("package = \"a\"\n\n\npackage = \"b\"\n", "", ""))
	add("unknown option", go_("noSuchOption = true\n", "", ""), go_("x = []\n", "", ""))
	add("cannot be used when generating into", dg("ts", "package = \"a\"\n", "", ""), dg("go", "namespace = \"a\"\n", "", ""), dg("cc", "eventFields = true\n", "", ""))
	add("string is expected", go_("disableSyntax = [1]\n", "", ""), go_("customImpl = [true, \"a\"]\n", "", ""), go_("extraTypes = [1]\n", "", ""), go_("extraTypes = [[\"a\"]]\n", "", ""))
	add("cannot parse string literal", go_("disableSyntax = [\"\\x\"]\n", "", ""), go_("extraTypes = [\"\\x\"]\n", "", ""), go_("package = \"\\x\"\n", "", ""))
	add("is not a valid identifier", go_("extraTypes = [\"9x\"]\n", "", ""), go_("extraTypes = [\"A -> \"]\n", "", ""), go_("extraTypes = [\"->\"]\n", "", ""), go_("extraTypes = [\"\"]\n", "", ""))
	add("cannot parse integer literal", go_("expansionLimit = 99999999999999999999\n", "", ""), go_("maxLookahead = 9223372036854775808\n", "", ""))
	add("list of strings with names", go_("extraTypes = 5\n", "", ""), go_("extraTypes = \"A\"\n", "", ""), go_("extraTypes = true\n", "", ""))
	add("is expected", go_("package = 5\n", "", ""), go_("eventBased = \"x\"\n", "", ""), go_("maxLookahead = true\n", "", ""), go_("disableSyntax = \"x\"\n", "", ""), go_("eventBased = []\n", "", ""), go_("maxLookahead = [1]\n", "", ""))
	// ---- compiler/resolver.go: see also c22LexemePairs
	add("terminal type redeclaration", go_("", "id {string}: /[a-z]+/\nn: /[0-9]+/\nid: /_[a-z]+/\n", ""), go_("", "id: /[a-z]+/\nid {string}: /_[a-z]+/\n", ""), go_("", "id {int}: /[a-z]+/\nid {string}: /_[a-z]+/\n", ""),
		go_("", "id {int}:\nid: /_[a-z]+/\n", ""), go_("", "id {int}: /a/\nid:\n", ""), go_("", "eoi {int}: /a/\n", ""), go_("", "invalid_token {int}: /a/\n", ""))
	add("is declared as both a space", go_("", "a: /a/ (space)\na: /b/\n", ""), go_("", "a: /a/\na: /b/ (space)\n", ""), go_("", "a: (space)\na: /b/\n", ""), go_("", "a: /b/\na: (space)\n", ""), go_("", "eoi: /b/ (space)\n", ""))
	add("is redeclared with a different ID", go_("", "a (A1): /a/\na (A2): /b/\n", ""), go_("", "a (A1): /a/\na: /b/\n", ""), go_("", "a: /a/\na (A2): /b/\n", ""), go_("", "eoi (X): /a/\n", ""), go_("", "a (A1):\na: /b/\n", ""))
	add("get the same ID in generated code", go_("", "x (SAME): /a/\ny (SAME): /b/\n", ""), go_("", "'a': /a/\nchar_a: /b/\n", ""), go_("", "x (EOI): /a/\n", ""), go_("", "Eoi: /a/\n", ""), go_("", "x (same): /a/\nsame: /b/\n", ""))
	add("duplicate name", go_("", "a: /a/\nA_list: /b/\n", "%input S;\nS : a+ ;\n"), go_("", "a: /a/\nA_optlist: /b/\n", "%input S;\nS : a* ;\n"), go_("", "a: /a/\nb: /b/\nA_list_B_separated: /c/\n", "%input S;\nS : (a separator b)+ ;\n"))
	add("get the same ID in generated code", go_("", "", "%input foo_bar;\nfoo_bar : a ;\nfooBar : b ;\n"), go_("", "", "%input S;\nS : A ;\nA : a ;\n"), go_("", "", "%input S;\nS : a_b+ ;\na_b : a ;\nAB_list : b ;\n"))
	// ---- compiler/syntax.go: declarations
	p := func(body string) string { return go_("", "", body) }
	add("redeclaration of", p("%flag F;\n%flag F;\n%input S;\nS : a ;\n"), p("%flag F = true;\n%lookahead flag F;\n%input S;\nS : a ;\n"))
	add("template parameters cannot be named after terminals", p("%flag a;\n%input S;\nS : a ;\n"), p("%lookahead flag b = true;\n%input S;\nS : a ;\n"))
	add("unsupported default value", p("%flag F = 5;\n%input S;\nS : a ;\n"), p("%flag F = \"x\";\n%input S;\nS : a ;\n"), p("%param P = G;\n%input S;\nS : a ;\n"), p("%input S;\nS : T ;\nT<flag X = 5> : a ;\n"), p("%input S;\nS : T ;\nT<param X = \"s\"> : a ;\n"))
	add("to extend", p("%input S;\nS : a ;\nextend Nope : b ;\n"), p("%input S;\nextend S : b ;\nS : a ;\n"))
	add("redeclaration of", p("%input S;\nS : a ;\na : b ;\n"), p("%input S;\nS : a ;\nS : b ;\n"), p("%input S;\nS : a ;\nS {int} -> N : b ;\n"), p("%input S;\nS<flag X> : a ;\nS : b ;\n"), p("%input S;\nS : a ;\ninline S : b ;\n"), p("%input S;\nS : a ;\nextend a : b ;\n"))
	add("redeclaration of a template parameter", p("%flag F;\n%input S;\nS : a ;\nF : b ;\n"))
	add("duplicate parameter reference", p("%flag F;\n%input S;\nS : T<+F> ;\nT<F, F> : a ;\n"))
	add("lookahead parameters cannot be declared", p("%lookahead flag L;\n%input S;\nS : T ;\nT<L> : a ;\n"))
	add("unresolved parameter reference", p("%input S;\nS : T ;\nT<Nope> : a ;\n"), p("%flag F;\n%input S;\nS : T<+F> ;\nT<F, Nope> : a ;\n"))
	add("redeclaration of", p("%flag F;\n%input S;\nS : T ;\nT<flag F> : a ;\n"), p("%flag F = true;\n%input S;\nS : T ;\nT<param F = false> : a ;\n"))
	// inputs
	// compiler/syntax.go:212 "named sets cannot be used as input nonterminals" cannot be reached: collectInputs runs
	// before collectDirectives fills c.namedSets, so the message is always "unresolved nonterminal"
	add("unresolved nonterminal", p("%generate s = set(a);\n%input s;\nS : a ;\n"), p("%input s no-eoi;\n%generate s = set(a);\nS : a ;\n"))
	add("unresolved nonterminal", p("%input Nope;\nS : a ;\n"), p("%input S, Nope no-eoi;\nS : a ;\n"), p("%input a;\nS : a ;\n"))
	add("input nonterminals cannot be parametrized", p("%flag F;\n%input S;\nS<F> : a ;\n"), p("%input S no-eoi;\nS<flag X = true> : a ;\n"))
	add("input nonterminals cannot have an 'inline'", p("%input S;\ninline S : a ;\n"), p("%input T, S no-eoi;\nT : S ;\ninline S : a ;\n"))
	add("the 'input' nonterminal cannot be parametrized", p("%flag F;\ninput<F> : a ;\n"), p("input<flag X> : a ;\n"))
	add("the 'input' nonterminal cannot have an 'inline'", p("inline input : a ;\n"))
	add("does not specify an input nonterminal", p("S : a ;\n"), p("%input Nope;\nS : a ;\n"), go_("", "", "%flag F;\n"))
	// directives
	add("duplicate interface declaration", p("%interface A, A;\n%input S;\nS : a ;\n"), p("%interface A;\n%interface B, A;\n%input S;\nS : a ;\n"))
	add("named sets cannot be used as terminals", p("%generate s = set(a);\n%left s;\n%input S;\nS : a ;\n"), p("%generate s = set(a);\n%right a s b;\n%input S;\nS : a ;\n"))
	add("unresolved reference", p("%right a s;\n%generate s = set(a);\n%input S;\nS : a ;\n")) // the set is declared later
	add("unresolved reference", p("%left nope;\n%input S;\nS : a ;\n"), p("%nonassoc a S;\n%input S;\nS : a ;\n"))
	add("second precedence rule", p("%left a a;\n%input S;\nS : a ;\n"), p("%left a;\n%right b a;\n%input S;\nS : a ;\n"))
	add("duplicate %expect directive", p("%expect 0;\n%expect 1;\n%input S;\nS : a ;\n"))
	add("duplicate %expect-rr directive", p("%expect-rr 0;\n%expect-rr 0;\n%input S;\nS : a ;\n"))
	add("named sets cannot be injected", go_(ev, "", "%generate s = set(a);\n%inject s -> N;\n%input S;\nS : a ;\n"))
	add("unresolved reference", go_(ev, "", "%inject nope -> N;\n%input S;\nS : a ;\n"), go_(ev, "", "%inject S -> N/f;\n%input S;\nS : a ;\n"))
	add("second %inject directive", go_(ev, "", "%inject a -> N;\n%inject a -> M/f;\n%input S;\nS : a ;\n"))
	add("reporting terminals 'as' some category", go_(ev, "", "%interface C;\n%inject a -> N as C;\n%input S;\nS : a ;\n"), go_(ev, "", "%inject a -> N/f,g as C;\n%input S;\nS : a ;\n"))
	add("'afterErr' is reserved", p("%generate afterErr = set(a);\n%input S;\nS : a ;\n"), go_("", "a: /a/\nerror:\n", "%generate afterErr = set(a);\n%input S;\nS : a ;\n"))
	add("redeclaration of token set", p("%generate s = set(a);\n%generate s = set(b);\n%input S;\nS : a ;\n"))
	add("cannot be used with injected terminals", go_(ev, "", "%interface C;\n%inject a -> C;\n%input S;\nS : a ;\n"), go_(ev, "", "%inject a -> C/f;\n%interface C;\n%input S;\nS : a ;\n"))
	// sets
	add("named sets cannot have arguments", p("%flag F;\n%generate s = set(a);\n%input S;\nS : set(s<+F>) ;\n"), p("%generate s = set(a);\n%generate t = set(s<>);\n%input S;\nS : a ;\n"))
	add("cannot be applied to a named set", p("%generate s = set(a);\n%input S;\nS : set(first s) ;\n"), p("%generate s = set(a);\n%generate t = set(follow s | b);\n%input S;\nS : a ;\n"))
	add("operator must be one of", p("%input S;\nS : set(bogus a) ;\n"), p("%generate t = set(~(x S));\n%input S;\nS : a ;\n"), p("%assert empty set(foo a & b);\n%input S;\nS : a ;\n"))
	// predicates
	add("string is expected", p("%flag F;\n%input S;\nS : T<+F> ;\nT<F> : [F == 5] a | b ;\n"), p("%flag F;\n%input S;\nS : T<+F> ;\nT<F> : [F != true] a | b ;\n"))
	add("cannot parse string literal", p("%flag F;\n%input S;\nS : T<+F> ;\nT<F> : [F == \"\\x\"] a | b ;\n"), p("%flag F;\n%input S;\nS : T<+F> ;\nT<F> : [F != \"\\u12\"] a | b ;\n"))
	add("unresolved parameter reference", p("%input S;\nS : [Nope] a | b ;\n"), p("%flag F;\n%input S;\nS : [F] a | b ;\n"), p("%flag F;\n%input S;\nS : T<+F> ;\nT<F> : [!G] a | [F && G] b ;\n"), p("%flag F;\n%input S;\nS : T<+F> ;\nT<F> : [G == \"x\"] a | [F || G != \"y\"] b ;\n"))
	// references
	add("named sets must be referenced using", p("%generate s = set(a);\n%input S;\nS : s ;\n"), p("%input S;\nS : s+ ;\n%generate s = set(a);\n"))
	add("unresolved reference", p("%input S;\nS : nope ;\n"), p("%input S;\nS : nope<+F> ;\n"), p("%input S;\nS : (nope separator a)+ ;\n"), p("%input S;\nS : set(nope) ;\n"), p("%input S;\nS : (?= nope) a ;\n"), p("%input S;\nS : a %prec nope ;\n"), p("%input S;\nS : optopt ;\n"))
	add("terminals cannot be parametrized", p("%flag F;\n%input S;\nS : a<+F> ;\n"), p("%input S;\nS : a<> ;\n"), p("%input S;\nS : set(a<+F>) ;\n"))
	add("unresolved parameter reference", p("%flag F;\n%flag G;\n%input S;\nS : set(first T<F: G>) ;\nT<F> : a ;\n"), p("%flag F;\n%generate s = set(T<F: F>);\n%input S;\nS : T<+F> ;\nT<F> : a ;\n"))
	add("unsupported value", p("%flag F;\n%input S;\nS : T<F: 5> ;\nT<F> : a ;\n"), p("%flag F;\n%input S;\nS : T<F: \"s\"> ;\nT<F> : a ;\n"))
	add("missing value", p("%flag F;\n%input S;\nS : set(T<F>) ;\nT<F> : a ;\n"), p("%flag F;\n%generate s = set(precede T<F>);\n%input S;\nS : T<+F> ;\nT<F> : a ;\n"))
	add("second argument for", p("%flag F;\n%input S;\nS : T<+F, ~F> ;\nT<F> : a ;\n"), p("%flag F;\n%input S;\nS : T<F: true, F: false> ;\nT<F> : a ;\n"))
	add("uninitialized parameters", p("%flag F;\n%input S;\nS : T ;\nT<F> : a ;\n"), p("%flag F;\n%flag G;\n%input S;\nS : T<+F> ;\nT<F, G> : a ;\n"), p("%flag F;\n%input S;\nS : set(T) ;\nT<F> : a ;\n"))
	add("is not used in", p("%lookahead flag L;\n%input S;\nS : T<+L> ;\nT : a ;\n"))
	// report clauses
	add("selector clauses cannot be used together with flags", go_(ev, "", "%interface C;\n%input S;\nS -> C/f : a ;\n"), go_(ev, "", "%interface C;\n%input S;\nS : a -> C/f,g ;\n"))
	add("reporting a selector 'as' some other node", go_(ev, "", "%interface C, D;\n%input S;\nS -> C as D : a ;\n"), go_(ev, "", "%interface C;\n%input S;\nS : a -> C as C ;\n"))
	add("'as' expects a selector", go_(ev, "", "%input S;\nS -> N as M : a ;\n"), go_(ev, "", "%interface C;\n%input S;\nS : a -> N/f as M ;\n"))
	// rule parts
	add("separators must be terminals", p("%input S;\nS : (a separator S)+ ;\n"), p("%input S;\nS : (a separator b S c)* ;\n"))
	add("lookahead expressions do not support terminals", p("%input S;\nS : (?= a) b ;\n"), p("%input S;\nS : (?= !a & S) b ;\n"), p("%input S;\nS : (?= a & b) ;\n"))
	add("unsupported syntax", p("%input S;\nS : a as b ;\n"), p("%input S;\nS : $(a b) c ;\n"), p("%input S;\nS : x=(a as S)? ;\n"))
	add("duplicate %empty marker", p("%input S;\nS : %empty %empty ;\n"), p("%input S;\nS : a | %empty { } %empty ;\n"))
	add("precedence markers are only allowed", p("%left a;\n%input S;\nS : (a %prec a) b ;\n"), p("%left a;\n%input S;\nS : (b %prec a separator c)+ ;\n"), p("%left a;\n%input S;\nS : (b %prec a | c) ;\n"))
	add("empty alternative without an %empty marker", dg("cc", "", "", "%input S;\nS : a | ;\n"), go_("noEmptyRules = true\n", "", "%input S;\nS : ;\n"), go_("noEmptyRules = true\n", "", "%input S;\nS : a ( | b) ;\n"), go_("noEmptyRules = true\n", "", "%input S;\nS : { } | .m ;\n"))
	add("%empty marker found inside a non-empty", p("%input S;\nS : a %empty ;\n"), p("%input S;\nS : %empty a | b ;\n"), p("%input S;\nS : (a %empty)? ;\n"))
	add("duplicate %prec marker", p("%left a b;\n%input S;\nS : a %prec a %prec b ;\n"))
	add("terminal is expected", p("%input S;\nS : a %prec S ;\n"), p("%input S;\nS : a %prec T ;\nT : b ;\n"))
	add("nonterminal aliases are not yet supported", p("%input S;\nS [x] : a ;\n"), p("%input S;\nS : T ;\nT [y] {int} -> N : a ;\n"))
	// ---- syntax/, lalr/
	add("exeeds the limit", go_("expansionLimit = 3\n", "", "%input S;\nS : a? b? c? ;\n"), go_("expansionLimit = 0\n", "", "%input S;\nS : a ;\n"))
	add("set complement cannot transitively depend", p("%generate s = set(~s);\n%input S;\nS : set(s) ;\n"), p("%input S;\nS : set(~first S) ;\n"))
	add("cannot propagate lookahead flag", p("%lookahead flag L;\n%input S;\nS : T<+L> ;\nT : U? a ;\nU : [L] b | c ;\n"))
	add("is never provided", p("%lookahead flag L;\n%input S;\nS : T ;\nT : [L] b | c ;\n"))
	add("multiple fields found behind an assignment", go_(ev+"eventFields = true\n", "", "%input S;\nS -> S : x=(X Y) ;\nX -> X : a ;\nY -> Y : b ;\n"))
	add("must produce exactly one node", go_(ev+"eventFields = true\n", "", "%interface C;\n%input S;\nS -> S : D ;\nD -> C : X X | Y ;\nX -> X : a ;\nY -> Y : b ;\n"))
	add("is not a valid category reference", go_(ev+"eventFields = true\nextraTypes = [\"X -> Nope\"]\n", "", "%input S;\nS -> S : a ;\n"))
	add("Found an lr0 marker", p("%input S;\nS : a .lr0 b a | a .lr0 c .lr0 | a .lr0 c a ;\n"), p("%input S;\nS : T .lr0 | T .lr0 a ;\nT : b ;\n"))
	add("conflicts:", p("%input S;\nS : S S | a ;\n"), p("%input S;\nS : X | Y ;\nX : a ;\nY : a ;\n"))
	add("cannot be used inside a category expression", go_(ev+"eventFields = true\n", "", "%interface C;\n%input S;\nS -> S : D ;\nD -> C : X? | Y ;\nX -> X : a ;\nY -> Y : b ;\n"), go_(ev+"eventFields = true\n", "", "%interface C;\n%input S;\nS -> S : D ;\nD -> C : X* ;\nX -> X : a ;\n"))
	add("is recursive and cannot be used", go_(ev+"eventFields = true\n", "", "%interface C;\n%input S;\nS -> S : D ;\nD -> C : X | E ;\nE : c D | Y ;\nX -> X : a ;\nY -> Y : b ;\n"), go_(ev+"genSelector = true\n", "", "%interface C;\n%input S;\nS -> S : D ;\nD -> C : X | E ;\nE : c D | Y ;\nX -> X : a ;\nY -> Y : b ;\n"))
	add("contain overlapping sets of node types", go_(ev+"eventFields = true\n", "", "%input S;\nS -> S : X (X | Y) ;\nX -> X : a ;\nY -> Y : b ;\n"), go_(ev+"eventFields = true\n", "", "%input S;\nS -> S : p=X q=(X | Y) ;\nX -> X : a ;\nY -> Y : b ;\n"))
	return t
}

// c22LexemePairs: two declarations of the same terminal that differ in their optional parts, in both orders.
func c22LexemePairs(r *rand.Rand, n int) []c22Aimed {
	types := []string{"", " {int}", " {string}"}
	ids := []string{"", " (A1)", " (A2)"}
	attrs := []string{"", " (space)", " (class)"}
	prios := []string{"", " -1", " 2"}
	scs := []string{"", "<x> ", "<*> "}
	cmds := []string{"", " { foo() }"}
	decl := func(ty, id, at, pr, sc, cm int, pat string) string {
		if pat == "" { // declaration without a pattern: only attributes may follow
			return scs[sc] + "t" + ids[id] + types[ty] + ":" + attrs[at] + "\n"
		}
		return scs[sc] + "t" + ids[id] + types[ty] + ": /" + pat + "/" + prios[pr] + attrs[at] + cmds[cm] + "\n"
	}
	var out []c22Aimed
	emit := func(d1, d2 string) {
		lex := "%s x;\n" + d1 + "u: /u/\n" + d2
		out = append(out, c22Aimed{"", dg("go", "", lex, "%input S;\nS : t u ;\n")})
	}
	// every single-feature difference, both orders
	for dim := 0; dim < 6; dim++ {
		max := []int{3, 3, 3, 3, 3, 2}[dim]
		for v := 1; v < max; v++ {
			base := [6]int{}
			other := base
			other[dim] = v
			d1 := decl(base[0], base[1], base[2], base[3], base[4], base[5], "[a-z]+")
			d2 := decl(other[0], other[1], other[2], other[3], other[4], other[5], "_[a-z]+")
			emit(d1, d2)
			emit(d2, d1)
			// with the pattern absent in one of the two
			emit(decl(base[0], base[1], base[2], 0, base[4], 0, ""), d2)
			emit(d2, decl(base[0], base[1], base[2], 0, base[4], 0, ""))
			emit(decl(other[0], other[1], other[2], 0, other[4], 0, ""), d1)
			emit(d1, decl(other[0], other[1], other[2], 0, other[4], 0, ""))
		}
	}
	for i := 0; i < n; i++ {
		pat1, pat2 := "[a-z]+", "_[a-z]+"
		if r.Intn(5) == 0 {
			pat1 = ""
		}
		if r.Intn(5) == 0 {
			pat2 = ""
		}
		emit(decl(r.Intn(3), r.Intn(3), r.Intn(3), r.Intn(3), r.Intn(3), r.Intn(2), pat1), decl(r.Intn(3), r.Intn(3), r.Intn(3), r.Intn(3), r.Intn(3), r.Intn(2), pat2))
	}
	return out
}

// c22NontermPairs: two declarations of one nonterminal (or a nonterminal and something else of that name).
func c22NontermPairs(r *rand.Rand, n int) []c22Aimed {
	kws := []string{"", "inline ", "extend "}
	params := []string{"", "<F>", "<flag X>", "<flag X = true>", "<F, F>"}
	aliases := []string{"", " [al]"}
	types := []string{"", " {int}"}
	reports := []string{"", " -> N", " -> N/f", " -> C as C"}
	head := func(kw, pa, al, ty, re int) string {
		h := kws[kw] + "T"
		if kws[kw] != "extend " {
			h += params[pa]
		}
		h += aliases[al]
		if kws[kw] == "" {
			h += types[ty]
		}
		return h + reports[re] + " : a ;\n"
	}
	var out []c22Aimed
	emit := func(h1, h2 string, inputFirst bool) {
		body := "%flag F;\n%interface C;\n"
		if inputFirst {
			body += "%input S;\n"
		}
		body += "S : T" + []string{"", "<+F>"}[r.Intn(2)] + " ;\n" + h1 + "U : b ;\n" + h2
		if !inputFirst {
			body += "%input S;\n"
		}
		out = append(out, c22Aimed{"", dg("go", "eventBased = true\n", "", body)})
	}
	for kw := 0; kw < 3; kw++ {
		for pa := 0; pa < len(params); pa++ {
			emit(head(0, 0, 0, 0, 0), head(kw, pa, 0, 0, 0), true)
			emit(head(kw, pa, 0, 0, 0), head(0, 0, 0, 0, 0), false)
		}
	}
	for i := 0; i < n; i++ {
		emit(head(r.Intn(3), r.Intn(5), r.Intn(2), r.Intn(2), r.Intn(4)), head(r.Intn(3), r.Intn(5), r.Intn(2), r.Intn(2), r.Intn(4)), r.Intn(2) == 0)
	}
	return out
}
