package main

import (
	"fmt"
	"strings"

	"github.com/inspirer/textmapper/lalr"
	"github.com/inspirer/textmapper/status"
)

// tablesStr serialises lalr.Tables for the Lean driver (see lean/TmVerif/Model/LRProto.lean).
func tablesStr(t *lalr.Tables, nTerms int) string {
	var sb strings.Builder
	fmt.Fprintf(&sb, "%d %s %s %s %s %s %s %s", nTerms, ints(t.Action), ints(t.Lalr), ints(t.Goto), ints(t.FromTo),
		ints(t.RuleLen), ints(t.RuleSymbol), ints(t.FinalStates))
	if o := t.Optimized; o != nil {
		fmt.Fprintf(&sb, " opt %s %s %s %s %d %s %s", ints(o.DefGoto), ints(o.Goto), ints(o.DefAct), ints(o.Action), o.Base, ints(o.Table), ints(o.Check))
	} else {
		sb.WriteString(" noopt")
	}
	return sb.String()
}

// compileLalr runs the real lalr.Compile, converting panics and log.Fatal-free errors.
func compileLalr(g *lalr.Grammar, opts lalr.Options) (t *lalr.Tables, err error, panicked string) {
	defer func() {
		if r := recover(); r != nil {
			panicked = fmt.Sprint(r)
		}
	}()
	t, err = lalr.Compile(g, opts)
	return
}

func errCount(err error) int {
	if err == nil {
		return 0
	}
	return len(status.FromError(err))
}
