package main

import (
	"fmt"
	"strings"

	"math/rand"

	"github.com/inspirer/textmapper/lalr"
	"github.com/inspirer/textmapper/status"
)

// tablesStr serialises lalr.Tables for the Lean driver (see lean/TmVerif/Model/LRProto.lean).
func tablesStr(t *lalr.Tables, nTerms int) string {
	var sb strings.Builder
	fmt.Fprintf(&sb, "%d %s %s %s %s %s %s %s", nTerms, ints(t.Action), ints(t.Lalr), ints(t.Goto), ints(t.FromTo),
		ints(t.RuleLen), ints(t.RuleSymbol), ints(t.FinalStates))
	if o := t.Optimized; o != nil {
		fmt.Fprintf(&sb, " opt %s %s %s %s %d %s %s", ints(o.DefGoto), ints(o.Goto), ints(o.DefAct), ints(o.Action), o.Base, ints(o.Table), ints(o.Check))
	} else {
		sb.WriteString(" noopt")
	}
	return sb.String()
}

// compileLalr runs the real lalr.Compile, converting panics and log.Fatal-free errors.
func compileLalr(g *lalr.Grammar, opts lalr.Options) (t *lalr.Tables, err error, panicked string) {
	defer func() {
		if r := recover(); r != nil {
			panicked = fmt.Sprint(r)
		}
	}()
	t, err = lalr.Compile(g, opts)
	return
}

func errCount(err error) int {
	if err == nil {
		return 0
	}
	return len(status.FromError(err))
}

// sentenceSpec computes, with the brute-force recogniser (search oracle), what a correct parser for
// input `in` must do on `w`: "A" accept (eoi input), "P<n>/<n>…" accept after exactly one of these
// prefix lengths (no-eoi input), "E<k>" syntax error at token index k.
func sentenceSpec(g *Gram, in GInput, w []int) string {
	if in.Eoi {
		if g.Derives(in.Sym, w) {
			return "A"
		}
	} else {
		var ns []string
		for n := 0; n <= len(w); n++ {
			if g.Derives(in.Sym, w[:n]) {
				ns = append(ns, fmt.Sprint(n))
			}
		}
		if len(ns) > 0 {
			return "P" + strings.Join(ns, "/")
		}
	}
	for k := 0; k < len(w); k++ {
		if !g.IsPrefix(in.Sym, w[:k+1]) {
			return fmt.Sprintf("E%d", k)
		}
	}
	return fmt.Sprintf("E%d", len(w))
}

// sampleWords returns short token strings: all strings up to maxAll, random sentences and mutations.
func sampleWords(c *Ctx, g *Gram, start int, maxAll, nRand int) [][]int {
	var ws [][]int
	cnt := 0
	g.AllStrings(maxAll, func(w []int) bool {
		ws = append(ws, w)
		cnt++
		return cnt < 400
	})
	for i := 0; i < nRand; i++ {
		if s, ok := g.RandSentence(c.Rng, start, 4+c.Rng.Intn(8)); ok && len(s) <= 14 {
			ws = append(ws, s)
			ws = append(ws, g.Mutate(c.Rng, s))
		}
	}
	return ws
}

// errPos=false: only accept/reject is specified ("E*" = any syntax error).
func wordSpecs(g *Gram, in GInput, ws [][]int, errPos bool) string {
	parts := make([]string, 0, len(ws))
	for _, w := range ws {
		sp := sentenceSpec(g, in, w)
		if !errPos && strings.HasPrefix(sp, "E") {
			sp = "E*"
		}
		parts = append(parts, ints(w)+":"+sp)
	}
	return strings.Join(parts, " ")
}

// xinfoStr serialises what the extended runtime model needs beyond the tables
// (lean/TmVerif/Model/LRXProto.lean): `<rules> <fixWhitespace> <recovering> <errSym> <afterErr> <cancellable>`.
func xinfoStr(gp *GenParser) string {
	g := gp.G
	p := g.Parser
	var rules []string
	for _, r := range p.Rules {
		ty := 0
		if r.Type >= 0 {
			ty = r.Type + 1
		}
		fw := g.Options.FixWhitespace && g.HasTrailingNulls(*r) && !g.Options.TokenStream
		reps := "-"
		if r.Action != 0 && r.Action < len(p.Actions) {
			var rs []string
			for _, rep := range p.Actions[r.Action].Report {
				rs = append(rs, fmt.Sprintf("%d:%d:%d", rep.Type+1, rep.Start, rep.End))
			}
			if len(rs) > 0 {
				reps = strings.Join(rs, ",")
			}
		}
		rules = append(rules, fmt.Sprintf("%d/%s/%s", ty, b2s(fw), reps))
	}
	rs := "_"
	if len(rules) > 0 {
		rs = strings.Join(rules, ";")
	}
	var afterErr []int
	for _, s := range g.Sets {
		if s.Name == "afterErr" {
			afterErr = s.Terminals
		}
	}
	errSym := -1
	if p.IsRecovering {
		errSym = p.ErrorSymbol
	}
	return fmt.Sprintf("%s %s %s %d %s %s", rs, b2s(g.Options.FixWhitespace), b2s(p.IsRecovering), errSym, ints(afterErr), b2s(g.Options.Cancellable))
}

// addMarkers sprinkles state markers (erased from the tables, present in Rule.RHS) into a grammar:
// at random positions, with a bias toward the very start of a rule in front of a nonterminal.
func addMarkers(r *rand.Rand, lg *lalr.Grammar) int {
	if len(lg.Rules) == 0 {
		return 0
	}
	lg.Markers = []string{"m0", "m1"}
	n := 1 + r.Intn(3)
	for k := 0; k < n; k++ {
		ri := r.Intn(len(lg.Rules))
		rhs := lg.Rules[ri].RHS
		pos := r.Intn(len(rhs) + 1)
		if r.Intn(2) == 0 {
			pos = 0
			// prefer a rule that starts with a nonterminal
			for tries := 0; tries < 8; tries++ {
				rj := r.Intn(len(lg.Rules))
				if rr := lg.Rules[rj].RHS; len(rr) > 0 && int(rr[0]) >= lg.Terminals {
					ri, rhs = rj, rr
					break
				}
			}
		}
		nr := append([]lalr.Sym(nil), rhs[:pos]...)
		nr = append(nr, lalr.Marker(r.Intn(2)))
		nr = append(nr, rhs[pos:]...)
		lg.Rules[ri].RHS = nr
	}
	return n
}
