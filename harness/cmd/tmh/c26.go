package main

import (
	"fmt"
	"math/rand"

	"github.com/inspirer/textmapper/util/container"
	"github.com/inspirer/textmapper/util/graph"
)

func init() { props["C26"] = c26 }

// c26 ties util/graph (Transpose, Matrix.Closure/Graph, LongestPath, Tarjan) to the Lean mirrors
// and lets the Lean validator checkScc judge the components the real Tarjan reports.
func c26(c *Ctx) {
	upto := c.N(3, 4)
	c.Extra["exhaustive_upto"] = upto
	c.Extra["max_vertices"] = 130
	c.Extra["bit_layout"] = "model has one Bool per matrix cell / onStack entry; the 32-bit word packing is tied by correspondence only (word-boundary generators)"
	c.Rule = fmt.Sprintf("every directed graph (self loops allowed, sorted adjacency, no parallel edges) on 0..%d vertices, exhaustively; "+
		"then random graphs on 2..40 vertices: dense, sparse, DAGs (random topological order, shuffled adjacency), unions of cycles and chains, "+
		"with self loops, with duplicate edges, shuffled adjacency order; then word-boundary graphs on 31..34, 40, 63..66, 95..98, 127..130 (and random 33..130) vertices "+
		"(the matrix is n*n bits in 32-bit words, cell i*n+e; Tarjan's onStack is a 32-bit-word bit set): the shape j->i->e with cell (i,e) on bit 0/31 of a word for every aligned e, "+
		"random edges on bits 0/1/30/31 with predecessors, very sparse graphs with whole words empty, rows filling one aligned word, chains/cycles/back-edge chains that keep >32/64/96 vertices on the stack; "+
		"plus a small malformed stream (successor >= len) where the real code must panic "+
		"(Tarjan: only from 2 vertices on). Each graph is fed to Transpose, NewMatrix+AddEdge (+HasEdge, Graph), NewMatrix+AddEdge+Closure (+HasEdge, Graph; except on the 0x0 matrix where Graph() indexes ret[0]), "+
		"LongestPath and Tarjan (callback sequence with the onStack set at callback time). Non-trivial = at least 2 vertices and 1 edge; distinct by (op, graph). "+
		"The Tarjan case line carries the real component sequence so that the Lean side runs the verified validator checkScc on it.", upto)

	// exhaustive part
	for n := 0; n <= upto; n++ {
		bits := n * n
		for mask := 0; mask < 1<<uint(bits); mask++ {
			g := make([][]int, n)
			for i := 0; i < n; i++ {
				for e := 0; e < n; e++ {
					if mask&(1<<uint(i*n+e)) != 0 {
						g[i] = append(g[i], e)
					}
				}
			}
			c26graph(c, g, fmt.Sprintf("exhaustive n=%d", n))
		}
	}
	// small graphs with permuted adjacency / duplicates (order matters for Tarjan and LongestPath)
	for i, n := 0, c.N(300, 40000); i < n; i++ {
		nv := 2 + c.Rng.Intn(3)
		g := randGraph(c.Rng, nv, 0.2+0.6*c.Rng.Float64(), true)
		mess(c.Rng, g, true)
		c26graph(c, g, "small shuffled+dups")
	}
	// random part
	for i, n := 0, c.N(400, 12000); i < n; i++ {
		nv := 2 + c.Rng.Intn(39)
		if c.Rng.Intn(3) == 0 {
			nv = 2 + c.Rng.Intn(9)
		}
		var g [][]int
		var kind string
		switch c.Rng.Intn(7) {
		case 0:
			kind = "dense"
			g = randGraph(c.Rng, nv, 0.3+0.5*c.Rng.Float64(), true)
		case 1:
			kind = "sparse"
			g = randGraph(c.Rng, nv, 1.5/float64(nv), false)
		case 2:
			kind = "very sparse"
			g = randGraph(c.Rng, nv, 0.7/float64(nv), false)
		case 3:
			kind = "dag"
			g = randDag(c.Rng, nv, []float64{0.05, 0.15, 0.4, 0.9}[c.Rng.Intn(4)])
		case 4:
			kind = "cycles+chains"
			g = randCycles(c.Rng, nv)
		case 5:
			kind = "dag+one back edge"
			g = randDag(c.Rng, nv, 0.2)
			a, b := c.Rng.Intn(nv), c.Rng.Intn(nv)
			g[a] = append(g[a], b)
		default:
			kind = "self loops"
			g = randDag(c.Rng, nv, 0.15)
			for k := 0; k < 1+c.Rng.Intn(3); k++ {
				v := c.Rng.Intn(nv)
				g[v] = append(g[v], v)
			}
		}
		if c.Rng.Intn(2) == 0 {
			mess(c.Rng, g, c.Rng.Intn(2) == 0)
			kind += " (shuffled)"
		}
		c26graph(c, g, "random "+kind)
	}
	// word boundaries: the bit matrix (n*n bits, cell i*n+e) and Tarjan's onStack set are packed in
	// 32-bit words; the Lean model has one Bool per cell, so the layout is tied here only.
	wordSizes := []int{31, 32, 33, 34, 40, 63, 64, 65, 66, 95, 96, 97, 98, 127, 128, 129, 130}
	for _, nv := range wordSizes {
		// the shape j -> i -> e with cell (i,e) on bit 0 / bit 31 of a word, everything else empty
		for _, r := range []int{0, 31} {
			for i := 0; i < 3; i++ {
				for e := ((r-i*nv)%32 + 32) % 32; e < nv; e += 32 {
					g := make([][]int, nv)
					g[i] = []int{e}
					j := (i + 1) % nv
					g[j] = append(g[j], i)
					c26graph(c, g, "word boundary: j->i->e, cell (i,e) on bit 0/31")
				}
			}
		}
	}
	for i, n := 0, c.N(160, 1500); i < n; i++ {
		nv := wordSizes[c.Rng.Intn(len(wordSizes))]
		if c.Rng.Intn(4) == 0 {
			nv = 33 + c.Rng.Intn(98)
		}
		var g [][]int
		var kind string
		switch c.Rng.Intn(6) {
		case 0, 1:
			kind = "aligned cells + sparse"
			g = make([][]int, nv)
			for k := 1 + c.Rng.Intn(4); k > 0; k-- {
				// an edge whose cell lies on bit 0, 31, 1 or 30 of a word, with predecessors and a successor
				r := []int{0, 0, 31, 31, 1, 30}[c.Rng.Intn(6)]
				v := c.Rng.Intn(nv)
				e0 := ((r-v*nv)%32 + 32) % 32
				if e0 >= nv {
					continue
				}
				e := e0 + 32*c.Rng.Intn((nv-e0+31)/32)
				g[v] = append(g[v], e)
				for p := 1 + c.Rng.Intn(2); p > 0; p-- {
					j := c.Rng.Intn(nv)
					g[j] = append(g[j], v)
				}
				if c.Rng.Intn(2) == 0 {
					g[e] = append(g[e], c.Rng.Intn(nv))
				}
			}
			for k := c.Rng.Intn(4); k > 0; k-- {
				a := c.Rng.Intn(nv)
				g[a] = append(g[a], c.Rng.Intn(nv))
			}
		case 2:
			kind = "very sparse (whole words empty)"
			g = randGraph(c.Rng, nv, []float64{0.3, 0.7, 1.2}[c.Rng.Intn(3)]/float64(nv), c.Rng.Intn(2) == 0)
		case 3:
			kind = "full words: a few rows with 32 aligned targets"
			g = make([][]int, nv)
			for k := 1 + c.Rng.Intn(3); k > 0; k-- {
				v := c.Rng.Intn(nv)
				e0 := ((-v*nv)%32 + 32) % 32
				for e := e0; e < e0+32 && e < nv; e++ {
					g[v] = append(g[v], e)
				}
				j := c.Rng.Intn(nv)
				g[j] = append(g[j], v)
			}
		case 4:
			kind = "chain / cycle / chain with back edges (deep stack across onStack words)"
			g = make([][]int, nv)
			perm := c.Rng.Perm(nv)
			if c.Rng.Intn(2) == 0 {
				for k := range perm {
					perm[k] = k
				}
			}
			for k := 0; k+1 < nv; k++ {
				g[perm[k]] = append(g[perm[k]], perm[k+1])
			}
			switch c.Rng.Intn(3) {
			case 0:
				g[perm[nv-1]] = append(g[perm[nv-1]], perm[0])
			case 1:
				for b := 1 + c.Rng.Intn(3); b > 0; b-- {
					hi := c.Rng.Intn(nv)
					g[perm[hi]] = append(g[perm[hi]], perm[c.Rng.Intn(hi+1)])
				}
			}
		default:
			kind = "sparse dag"
			g = randDag(c.Rng, nv, 1.5/float64(nv))
		}
		if c.Rng.Intn(3) == 0 {
			mess(c.Rng, g, c.Rng.Intn(2) == 0)
		}
		c26graph(c, g, "word boundary: "+kind)
	}
	// malformed stream
	for i, n := 0, c.N(30, 300); i < n; i++ {
		nv := c.Rng.Intn(6)
		g := randGraph(c.Rng, nv, 0.3, true)
		if nv == 0 {
			g = [][]int{}
		} else {
			v := c.Rng.Intn(nv)
			g[v] = append(g[v], nv+c.Rng.Intn(3))
			c.Rng.Shuffle(len(g[v]), func(a, b int) { g[v][a], g[v][b] = g[v][b], g[v][a] })
		}
		c26graph(c, g, "malformed")
	}
}

func randGraph(r *rand.Rand, n int, p float64, selfLoops bool) [][]int {
	g := make([][]int, n)
	for i := 0; i < n; i++ {
		for e := 0; e < n; e++ {
			if (selfLoops || i != e) && r.Float64() < p {
				g[i] = append(g[i], e)
			}
		}
	}
	return g
}

func randDag(r *rand.Rand, n int, p float64) [][]int {
	perm := r.Perm(n)
	g := make([][]int, n)
	for i := 0; i < n; i++ {
		for e := i + 1; e < n; e++ {
			if r.Float64() < p {
				g[perm[i]] = append(g[perm[i]], perm[e])
			}
		}
	}
	return g
}

// randCycles: disjoint cycles and chains over a random permutation, plus a few cross edges.
func randCycles(r *rand.Rand, n int) [][]int {
	perm := r.Perm(n)
	g := make([][]int, n)
	for i := 0; i < n; {
		l := 1 + r.Intn(5)
		if i+l > n {
			l = n - i
		}
		for k := 0; k+1 < l; k++ {
			g[perm[i+k]] = append(g[perm[i+k]], perm[i+k+1])
		}
		if r.Intn(2) == 0 {
			g[perm[i+l-1]] = append(g[perm[i+l-1]], perm[i])
		}
		i += l
	}
	for k := r.Intn(n); k > 0; k-- {
		a, b := r.Intn(n), r.Intn(n)
		g[a] = append(g[a], b)
	}
	return g
}

// mess shuffles adjacency rows and optionally duplicates edges.
func mess(r *rand.Rand, g [][]int, dups bool) {
	for v := range g {
		if dups {
			for _, e := range g[v] {
				if r.Intn(4) == 0 {
					g[v] = append(g[v], e)
				}
			}
		}
		row := g[v]
		r.Shuffle(len(row), func(a, b int) { row[a], row[b] = row[b], row[a] })
	}
}

func cloneGraph(g [][]int) [][]int {
	ret := make([][]int, len(g))
	for i, r := range g {
		ret[i] = append([]int(nil), r...)
	}
	return ret
}

func guarded(f func() string) (ans string) {
	defer func() {
		if r := recover(); r != nil {
			ans = "panic"
		}
	}()
	return f()
}

func c26graph(c *Ctx, g [][]int, bucket string) {
	n := len(g)
	edges := 0
	wf := true
	for _, r := range g {
		edges += len(r)
		for _, e := range r {
			if e < 0 || e >= n {
				wf = false
			}
		}
	}
	gs := intss(g)
	key := func(op string) string {
		if n >= 2 && edges >= 1 {
			return op + " " + gs
		}
		return ""
	}
	c.Count(bucket)

	// Transpose
	c.Case("transpose "+gs, guarded(func() string {
		tr := graph.Transpose(cloneGraph(g))
		if why := transposeOracle(g, tr); wf && why != "" {
			c.Violate("Transpose: "+why, "transpose "+gs)
		}
		return intss(tr)
	}), key("transpose"))

	// Matrix without and with Closure (only well-formed graphs: AddEdge(i, e) with e >= n aliases another cell)
	if wf {
		dump := func(m graph.Matrix) string {
			adj := make([][]int, n)
			for i := 0; i < n; i++ {
				for e := 0; e < n; e++ {
					if m.HasEdge(i, e) {
						adj[i] = append(adj[i], e)
					}
				}
			}
			gr := "_"
			if n > 0 {
				gr = intss(m.Graph(nil))
			}
			return intss(adj) + " " + gr
		}
		build := func() graph.Matrix {
			m := graph.NewMatrix(n)
			for i, r := range g {
				for _, e := range r {
					m.AddEdge(i, e)
				}
			}
			return m
		}
		c.Case("matrix "+gs, guarded(func() string {
			m := build()
			for i := 0; i < n; i++ {
				has := make([]bool, n)
				for _, e := range g[i] {
					has[e] = true
				}
				for e := 0; e < n; e++ {
					if has[e] != m.HasEdge(i, e) {
						c.Violate(fmt.Sprintf("Matrix: HasEdge(%d,%d)=%v after AddEdge of exactly the listed edges", i, e, m.HasEdge(i, e)), "matrix "+gs)
						i, e = n, n
					}
				}
			}
			return dump(m)
		}), key("matrix"))
		c.Case("closure "+gs, guarded(func() string {
			m := build()
			m.Closure()
			reach := reachMatrix(g)
			for i := 0; i < n; i++ {
				for e := 0; e < n; e++ {
					want := false
					for _, w := range g[i] {
						want = want || reach[w][e]
					}
					if want != m.HasEdge(i, e) {
						c.Violate(fmt.Sprintf("Closure: HasEdge(%d,%d)=%v but a non-empty path exists=%v", i, e, m.HasEdge(i, e), want), "closure "+gs)
						i, e = n, n
					}
				}
			}
			return dump(m)
		}), key("closure"))
	}

	// LongestPath
	c.Case("lpath "+gs, guarded(func() string {
		p := graph.LongestPath(cloneGraph(g))
		if wf {
			if why := pathOracle(g, p); why != "" {
				c.Violate("LongestPath: "+why, "lpath "+gs)
			}
		}
		if p == nil {
			return "nil"
		}
		return ints(p)
	}), key("lpath"))

	// Tarjan
	var comps, snaps [][]int
	panicked := guarded(func() string {
		graph.Tarjan(cloneGraph(g), func(vs []int, onStack container.BitSet) {
			comps = append(comps, append([]int(nil), vs...))
			snaps = append(snaps, onStack.Slice(nil))
		})
		return ""
	})
	if panicked != "" {
		c.Case("tarjan "+gs+" _", "panic", key("tarjan"))
	} else {
		verdict := "ok"
		if n < 2 {
			verdict = "skip"
		}
		c.Case("tarjan "+gs+" "+intss(comps), intss(comps)+" "+intss(snaps)+" "+verdict, key("tarjan"))
		if wf && n >= 2 {
			if why := sccOracle(g, comps); why != "" {
				c.Violate("Tarjan: "+why, "tarjan "+gs+" "+intss(comps))
			}
		}
	}
}

// transposeOracle: edge multiset of tr is the reversed edge multiset of g.
func transposeOracle(g, tr [][]int) string {
	if len(tr) != len(g) {
		return "vertex count changed"
	}
	cnt := map[[2]int]int{}
	for v, r := range g {
		for _, w := range r {
			cnt[[2]int{w, v}]++
		}
	}
	for u, r := range tr {
		for _, v := range r {
			cnt[[2]int{u, v}]--
		}
	}
	for k, d := range cnt {
		if d != 0 {
			return fmt.Sprintf("edge %d->%d of the result has multiplicity off by %d", k[0], k[1], -d)
		}
	}
	return ""
}

// pathOracle (well-formed graphs only; called before a possible panic would be observed): nil iff
// cyclic (or no vertices), otherwise a path whose length is the maximum (memoised DFS on the DAG).
func pathOracle(g [][]int, p []int) string {
	n := len(g)
	reach := reachMatrix(g)
	cyclic := false
	for v := 0; v < n; v++ {
		for _, w := range g[v] {
			if reach[w][v] {
				cyclic = true
			}
		}
	}
	if cyclic {
		if p != nil {
			return "a path is returned for a cyclic graph"
		}
		return ""
	}
	if p == nil {
		if n == 0 {
			return ""
		}
		return "nil for an acyclic graph"
	}
	for i := 0; i+1 < len(p); i++ {
		ok := false
		for _, w := range g[p[i]] {
			ok = ok || w == p[i+1]
		}
		if !ok {
			return fmt.Sprintf("%d->%d is not an edge", p[i], p[i+1])
		}
	}
	memo := make([]int, n)
	var h func(v int) int
	h = func(v int) int {
		if memo[v] == 0 {
			best := 1
			for _, w := range g[v] {
				if x := h(w) + 1; x > best {
					best = x
				}
			}
			memo[v] = best
		}
		return memo[v]
	}
	best := 0
	for v := 0; v < n; v++ {
		if x := h(v); x > best {
			best = x
		}
	}
	if len(p) != best {
		return fmt.Sprintf("path has %d vertices, the maximum is %d", len(p), best)
	}
	return ""
}

// reachMatrix: reach[v][w] iff w is reachable from v by zero or more edges (DFS from every vertex).
func reachMatrix(g [][]int) [][]bool {
	n := len(g)
	reach := make([][]bool, n)
	for v := 0; v < n; v++ {
		reach[v] = make([]bool, n)
		stack := []int{v}
		reach[v][v] = true
		for len(stack) > 0 {
			x := stack[len(stack)-1]
			stack = stack[:len(stack)-1]
			for _, w := range g[x] {
				if !reach[v][w] {
					reach[v][w] = true
					stack = append(stack, w)
				}
			}
		}
	}
	return reach
}

// sccOracle is an independent brute-force check (search oracle only; the verdict that counts is the
// Lean validator's).
func sccOracle(g [][]int, comps [][]int) string {
	n := len(g)
	reach := reachMatrix(g)
	comp := make([]int, n)
	for i := range comp {
		comp[i] = -1
	}
	for ci, c := range comps {
		if len(c) == 0 {
			return "empty component reported"
		}
		for _, v := range c {
			if v < 0 || v >= n {
				return "vertex out of range reported"
			}
			if comp[v] != -1 {
				return fmt.Sprintf("vertex %d reported twice", v)
			}
			comp[v] = ci
		}
	}
	for v := 0; v < n; v++ {
		if comp[v] == -1 {
			return fmt.Sprintf("vertex %d never reported", v)
		}
	}
	for v := 0; v < n; v++ {
		for w := 0; w < n; w++ {
			same := reach[v][w] && reach[w][v]
			if same != (comp[v] == comp[w]) {
				return fmt.Sprintf("vertices %d and %d: mutually reachable=%v but same component=%v", v, w, same, comp[v] == comp[w])
			}
			if reach[v][w] && comp[w] > comp[v] {
				return fmt.Sprintf("%d reaches %d but the component of %d is reported later", v, w, w)
			}
		}
	}
	return ""
}
