package main

import (
	"fmt"
	"strings"

	"github.com/inspirer/textmapper/lalr"
)

func init() { props["C01"] = c01 }

// tokenize maps a text over 'a'.. (one character per token, optional spaces) to (sym:off:end) triples
// using the symbol numbering of the compiled grammar.
func tokenize(gp *GenParser, text string) (toks string, n int) {
	var parts []string
	for i := 0; i < len(text); i++ {
		ch := text[i]
		if ch == ' ' {
			continue
		}
		id := gp.TermID("'" + string(ch) + "'")
		parts = append(parts, fmt.Sprintf("%d:%d:%d", id, i, i+1))
	}
	if len(parts) == 0 {
		return "-", 0
	}
	return strings.Join(parts, ","), len(parts)
}

func wordText(g *Gram, w []int) string {
	var sb strings.Builder
	for _, s := range w {
		sb.WriteString(g.SymName(s))
	}
	return sb.String()
}

// translate the runner's listener trace (type names) into compiled rule indices
func translateTrace(gp *GenParser, out string) string {
	fs := strings.Fields(out)
	for i, f := range fs {
		if i == len(fs)-1 {
			break
		}
		parts := strings.SplitN(f, ":", 2)
		if r, ok := gp.RuleOfType[parts[0]]; ok && len(parts) == 2 {
			fs[i] = fmt.Sprintf("%d:%s", r, parts[1])
		}
	}
	return strings.Join(fs, " ")
}

type c01Item struct {
	g  *Gram
	gp *GenParser
}

// genConflictFree draws grammars until lalr.Compile reports no error.
func genConflictFree(c *Ctx, cfg GramCfg, productive bool) *Gram {
	for tries := 0; tries < 200; tries++ {
		g := RandGram(c.Rng, cfg)
		if productive && !g.AllProductive() {
			continue
		}
		_, err, pan := compileLalr(g.Lalr(), lalr.Options{})
		if pan == "" && err == nil {
			return g
		}
	}
	return nil
}

// unproductiveWitness is `S: a | b X; X: X c` (X derives no terminal string). The parser shifts `b`
// and reports the error at token 1 although "b" is not a prefix of any sentence: the error-position
// clause of C01 needs "all nonterminals productive" (hypothesis productiveOk of C01_lr_error_position).
func unproductiveWitness() *Gram {
	return &Gram{NT: 4, NN: 2, Shape: "unproductive-witness",
		Rules:  []GRule{{LHS: 4, RHS: []int{1}}, {LHS: 4, RHS: []int{2, 5}}, {LHS: 5, RHS: []int{5, 3}}},
		Inputs: []GInput{{Sym: 4, Eoi: true}}}
}

func c01(c *Ctx) {
	c.Rule = "conflict-free random CFGs without precedence (1-5 nonterminals, 1-4 terminals, empty rules, several inputs, eoi/no-eoi, expression/list shapes; all nonterminals productive) rendered as .tm with `-> R<i>` on every rule and a random subset of optimizeTables/defaultReduce/minimizeDFA; the REAL compiler+generator produce Go parsers, built in one batch; per grammar: (1) Lean soundness, completeness and viable-prefix certificate checks on the real tables (the hypotheses of C01_lr_sound, C01_lr_complete, C01_lr_error_position; minimized tables: soundness only), (2) canonical LALR(1) cell comparison (unminimized only), (3) for every token string up to length 4-5 plus random sentences and mutations: the generated parser's listener trace and result/error offset vs the Lean runtime model on the real tables, and vs a brute-force recogniser (membership and error position); start-up probe: the fixed grammar 'S: a | b X; X: X c' with an unproductive nonterminal (excluded from the sample) is compiled and run on 'b' [C01-unproductive-error-position]; non-trivial = grammar with at least one lookahead state; distinct by grammar+options"
	nG := c.N(24, 400)
	batchSize := 24
	cfg := GramCfg{MaxNT: 4, MaxNN: 5, MaxRules: 3, MaxRHS: 4, MultiInput: true, PEmpty: 0.15}
	for done := 0; done < nG; done += batchSize {
		b, err := NewBatch()
		if err != nil {
			c.Notes = append(c.Notes, "cannot create scratch dir: "+err.Error())
			return
		}
		var items []c01Item
		for k := 0; k < batchSize && done+k < nG; k++ {
			g := genConflictFree(c, cfg, true)
			if g == nil {
				continue
			}
			if c.Rng.Intn(12) == 0 {
				// one nonterminal listed as two inputs: the front end must reject it (the generated package
				// would declare its Parse method twice; before fix 544df62 it did not build)
				in := g.Inputs[c.Rng.Intn(len(g.Inputs))]
				if c.Rng.Intn(2) == 0 {
					in.Eoi = !in.Eoi
				}
				g.Inputs = append(g.Inputs, in)
				c.Count("grammar with a nonterminal used as two inputs")
			}
			o := TMOpts{ArrowPerRule: true, Optimize: c.Rng.Intn(2) == 0, Minimize: c.Rng.Intn(3) == 0, Markers: c.Rng.Intn(2) == 0, Extend: c.Rng.Intn(3) == 0}
			o.DefaultReduce = o.Optimize && c.Rng.Intn(2) == 0
			name := fmt.Sprintf("g%d", done+k)
			gp := compileTM(name, g.TM(name, o), o)
			if gp.Err != nil {
				// conflict-free by lalr.Compile but rejected by the front end: record, not a C01 matter
				c.Count("front-end rejected: " + firstWords(errSummary(gp.Err), 6))
				continue
			}
			b.Add(gp)
			items = append(items, c01Item{g, gp})
		}
		// start-up probe: does the real compiler accept a grammar with an unproductive nonterminal?
		var wit *c01Item
		if done == 0 {
			wg := unproductiveWitness()
			_, werr, wpan := compileLalr(wg.Lalr(), lalr.Options{})
			wo := TMOpts{ArrowPerRule: true}
			if wpan == "" && werr == nil {
				if wgp := compileTM("gwit", wg.TM("gwit", wo), wo); wgp.Err == nil {
					b.Add(wgp)
					wit = &c01Item{wg, wgp}
				} else {
					c.Count("unproductive witness rejected by the front end: " + firstWords(errSummary(wgp.Err), 8))
				}
			} else {
				c.Count("unproductive witness rejected by lalr.Compile")
			}
		}
		if len(items) == 0 {
			b.Close()
			continue
		}
		if err := b.Build(); err != nil {
			c.Violate("generated parsers do not build: "+err.Error(), items[0].gp.TM)
			b.Close()
			continue
		}
		// inputs
		var reqs []RunReq
		type meta struct {
			it    c01Item
			input int
			w     []int
		}
		var metas []meta
		for _, it := range items {
			for idx, in := range it.g.Inputs {
				ws := sampleWords(c, it.g, in.Sym, 4, 5)
				for _, w := range ws {
					reqs = append(reqs, RunReq{Parser: it.gp.Name, Input: idx, Text: wordText(it.g, w)})
					metas = append(metas, meta{it, idx, w})
				}
			}
		}
		if wit != nil {
			// last request, after those described by metas
			reqs = append(reqs, RunReq{Parser: wit.gp.Name, Input: 0, Text: "b"})
		}
		outs := b.Run(reqs)
		b.Close()
		if wit != nil {
			gp := wit.gp
			t := gp.G.Parser.Tables
			nt := gp.G.Parser.NumTerminals
			goAns := translateTrace(gp, outs[len(outs)-1])
			toks, _ := tokenize(gp, "b")
			c.Debugf("unproductive witness %s: validate %s %s %s", wit.g.Pretty(), gp.ProtoGrammar(), tablesStr(t, nt), b2s(t.Optimized != nil))
			// the model agrees with the generated parser on the witness
			c.Case(fmt.Sprintf("run %s %s 0 %s 1", tablesStr(t, nt), b2s(t.Optimized != nil), toks), goAns, "")
			spec := sentenceSpec(wit.g, wit.g.Inputs[0], []int{2})
			res := goAns[strings.LastIndex(goAns, " ")+1:]
			c.Count("unproductive witness compiles: spec " + spec + " parser " + res)
			if spec == "E0" && res != "err:0:1" {
				c.Violate(fmt.Sprintf("grammar with an unproductive nonterminal compiles without error and its parser reports the syntax error on %q at %s although the consumed prefix %q is not a prefix of any sentence (property text expects the error at token 0) [C01-unproductive-error-position]", "b", res, "b"), wit.g.Pretty())
			}
			reqs = reqs[:len(reqs)-1]
			outs = outs[:len(outs)-1]
		}
		// per grammar: validation cases
		knownClass := map[string]bool{}
		for _, it := range items {
			t := it.gp.G.Parser.Tables
			nt := it.gp.G.Parser.NumTerminals
			opt := t.Optimized != nil
			key := ""
			for _, a := range t.Action {
				if a < -2 {
					key = it.gp.TM
				}
			}
			c.Count(fmt.Sprintf("opts opt=%v defred=%v min=%v", it.gp.Opts.Optimize, it.gp.Opts.DefaultReduce, it.gp.Opts.Minimize))
			c.Count(fmt.Sprintf("inputs=%d", len(it.g.Inputs)))
			c.Debugf("%s", it.g.Pretty())
			vline := fmt.Sprintf("validate %s %s %s", it.gp.ProtoGrammar(), tablesStr(t, nt), b2s(opt))
			if it.gp.Opts.Minimize {
				// merged states are not the canonical LR(0) collection: completeness certificate skipped
				vline += " nocompl"
			}
			v := c.Lean([]string{vline})
			switch {
			case strings.Contains(v[0], "[C01-shared-final-state]"):
				knownClass[it.gp.Name] = true
				c.Count("known class: shared final state")
			case v[0] == "ok" && !it.gp.Opts.Minimize:
				c.Count("certificates: soundness + completeness + viable-prefix all hold (hypotheses of every C01 theorem)")
			case v[0] == "ok":
				c.Count("certificates: soundness only (minimized tables: item certificates skipped)")
			default:
				c.Count("certificates: rejected")
			}
			c.Case(vline, "ok", key)
			if !it.gp.Opts.Minimize {
				c.Debugf("%s", it.g.Pretty())
				c.Case(fmt.Sprintf("lalr1 %s %s %d %d 0 0 0", it.gp.ProtoGrammar(), tablesStr(t, nt), t.SR, t.RR), "ok", "")
			}
		}
		// per input string: trace comparison + oracle
		for i, m := range metas {
			gp := m.it.gp
			t := gp.G.Parser.Tables
			nt := gp.G.Parser.NumTerminals
			text := reqs[i].Text
			toks, _ := tokenize(gp, text)
			goAns := translateTrace(gp, outs[i])
			c.Debugf("input %d %q of %s", m.input, text, m.it.g.Pretty())
			c.Case(fmt.Sprintf("run %s %s %d %s %d", tablesStr(t, nt), b2s(t.Optimized != nil), m.input, toks, len(text)), goAns, "")
			// independent oracle on the real parser's answer
			spec := sentenceSpec(m.it.g, m.it.g.Inputs[m.input], m.w)
			res := goAns[strings.LastIndex(goAns, " ")+1:]
			ok := false
			switch {
			case spec == "A":
				ok = res == "ok"
			case strings.HasPrefix(spec, "P"):
				ok = res == "ok" // the consumed length is checked through the model run (accept op) below
			case strings.HasPrefix(spec, "E"):
				ok = res == fmt.Sprintf("err:%s:%s", spec[1:], errEnd(spec[1:], len(m.w)))
			}
			if !ok {
				tag := ""
				if knownClass[gp.Name] {
					tag = " [C01-shared-final-state]"
				}
				c.Violate(fmt.Sprintf("generated parser on %q (input %d): brute-force recogniser expects %s, parser returned %q [opts %+v]%s", text, m.input, spec, res, gp.Opts, tag), m.it.g.Pretty())
			}
		}
	}
}

// errEnd: the error token's end offset: k+1, or k when the error is at end of input.
func errEnd(k string, n int) string {
	var ki int
	fmt.Sscan(k, &ki)
	if ki >= n {
		return fmt.Sprint(ki)
	}
	return fmt.Sprint(ki + 1)
}

func firstWords(s string, n int) string {
	f := strings.Fields(s)
	if len(f) > n {
		f = f[:n]
	}
	return strings.Join(f, " ")
}
