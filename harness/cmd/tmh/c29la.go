package main

// C29, part 3: cancellation that is noticed INSIDE a lookahead sub-parse. The generated parsers poll the
// context every 512 shift attempts, and attempts made while evaluating a `(?= …)` predicate count too, so
// the poll can fall into a predicate. The family below makes that happen near the END of the input (fewer
// than 512 attempts remain, so no later poll can turn the result into context.Canceled): whatever the
// predicate evaluation did with the cancellation, the parse then completes, and by the property its
// result and events must be exactly those of the uncancelled parse.
//
//   - generated: `Input: Item+ ; Item: (?= P0) X T T T T -> R0 | (?= !P0 & P1) … -> R1 | (?= !P0 & !P1) … -> R2`
//     (multi-case lookahead rules), cancellable, optimizeTables on/off, items chosen so that every
//     alternative occurs; the number of leading items is varied so that the 512th attempt lands on every
//     phase of an item, inside and outside the predicates.
//   - shipped js: arrow functions / parenthesised expressions (StartOfArrowFunction etc.) with a varied
//     prefix; shipped test: the `eval(…)` lookaheads of test.tm.

import (
	"fmt"
	"strings"
)

const c29laTM = `language %[1]s(go);

lang = %[1]q
package = "gp/%[1]s"
eventBased = true
cancellable = true
%[2]s
::lexer

'x': /x/
'a': /a/
'b': /b/

::parser

%%input Input;

Input : Item+ ;
Item :
    (?= P0) X T T T T -> R0
  | (?= !P0 & P1) X T T T T -> R1
  | (?= !P0 & !P1) X T T T T -> R2
;
X : 'x' ;
T : 'a' | 'b' ;
P0 : 'x' 'a' 'a' 'a' 'a' ;
P1 : 'x' T T T 'a' ;
`

func c29Lookahead(c *Ctx) {
	b, err := NewBatch()
	if err != nil {
		c.Notes = append(c.Notes, err.Error())
		return
	}
	defer b.Close()
	var gps []*GenParser
	for v := 0; v < 2; v++ {
		name := fmt.Sprintf("c29la%d", v)
		opt := ""
		if v == 1 {
			opt = "optimizeTables = true"
		}
		o := TMOpts{Cancellable: true, Optimize: v == 1}
		gp := compileTM(name, fmt.Sprintf(c29laTM, name, opt), o)
		if gp.Err != nil {
			c.Notes = append(c.Notes, "c29 lookahead family rejected by the compiler: "+errSummary(gp.Err))
			return
		}
		b.Add(gp)
		gps = append(gps, gp)
	}
	if err := b.Build(); err != nil {
		c.Violate("generated cancellable parsers with lookahead rules do not build: "+err.Error(), gps[0].TM)
		return
	}
	items := []string{"xaaaa", "xabba", "xbbbb", "xaaab", "xbaaa"}
	var reqs []RunReq
	type meta struct {
		gp    *GenParser
		first bool
		k     int
	}
	var metas []meta
	nTexts := c.N(14, 60)
	for _, gp := range gps {
		for i := 0; i < nTexts; i++ {
			// 45-75 items: 450-1000 shift attempts, so that exactly one or two polls happen
			n := 45 + c.Rng.Intn(30)
			var sb strings.Builder
			for j := 0; j < n; j++ {
				if c.Rng.Intn(3) == 0 {
					sb.WriteString(items[c.Rng.Intn(len(items))])
				} else {
					sb.WriteString(items[0])
				}
			}
			text := sb.String()
			reqs = append(reqs, RunReq{Parser: gp.Name, Input: 0, Text: text})
			metas = append(metas, meta{gp, true, 0})
			for _, k := range []int{1, 2, 1 + c.Rng.Intn(20), 1 + c.Rng.Intn(n)} {
				reqs = append(reqs, RunReq{Parser: gp.Name, Input: 0, CancelAt: k, Text: text})
				metas = append(metas, meta{gp, false, k})
			}
		}
	}
	outs := b.Run(reqs)
	ref := ""
	for i, m := range metas {
		out := outs[i]
		if m.first {
			ref = out
			if !strings.HasSuffix(out, " ok") {
				c.Violate("uncancelled run of the lookahead family does not accept its input: "+firstN(out, 100), reqs[i].Text)
			}
			continue
		}
		desc := fmt.Sprintf("generated parser with multi-case lookahead rules (optimizeTables=%v), context cancelled inside listener call %d, input of %d items %q, grammar: %s",
			m.gp.Opts.Optimize, m.k, len(reqs[i].Text)/5, reqs[i].Text, strings.ReplaceAll(m.gp.TM, "\n", "\\n"))
		if out == "crash" || strings.HasSuffix(out, "panic") {
			c.Violate("cancellable parser panicked or died: "+firstN(out, 80), desc)
			continue
		}
		if strings.HasSuffix(out, "error:ctxstop") {
			c.Count("lookahead family: cancelled")
			continue
		}
		if i := strings.LastIndex(out, "error:context"); i >= 0 {
			c.Violate("the parser returned `"+out[i+6:]+"`, which is not the error of the context it was given (ctx.Err() is `ctxstop`)", desc)
			continue
		}
		c.Count("lookahead family: completed")
		if out != ref {
			c.Violate(fmt.Sprintf("a run that did not return the context's error differs from the uncancelled run: %s", c29FirstDiff(m.gp, out, ref)), desc)
		}
	}
}

// c29FirstDiff names the first event in which two traces differ.
func c29FirstDiff(gp *GenParser, out, ref string) string {
	a, _ := c02Names(gp, out)
	b, _ := c02Names(gp, ref)
	fa, fb := strings.Fields(a), strings.Fields(b)
	for i := 0; i < len(fa) && i < len(fb); i++ {
		if fa[i] != fb[i] {
			return fmt.Sprintf("event %d is %s, uncancelled run has %s (results %q vs %q)", i+1, fa[i], fb[i], lastField(out), lastField(ref))
		}
	}
	return fmt.Sprintf("%d vs %d events (results %q vs %q)", len(fa), len(fb), lastField(out), lastField(ref))
}

func lastField(s string) string {
	fs := strings.Fields(s)
	if len(fs) == 0 {
		return ""
	}
	return fs[len(fs)-1]
}

// c29ShippedLookahead: medium-sized inputs of the shipped js and test parsers in which most shift
// attempts happen inside lookahead predicates.
func c29ShippedLookahead(c *Ctx) {
	type fam struct {
		parser string
		pre    []string // phase-shifting units without lookahead
		units  []string // lookahead-heavy units
	}
	fams := []fam{
		{"js", []string{"y ; "}, []string{"x = ( a ) => a ; ", "x = ( a , b ) => ( a ) ; ", "x = ( a ) ; ", "x = async ( a ) => 1 ; ", "x = ( p = ( a , b ) => 1 ) => 2 ; ", "x = ( p = ( q = ( a ) => 1 ) => 2 , c ) => 3 ; "}},
		{"test", []string{"decl2 "}, []string{"eval ( 1.2 ) decl2 decl2 ", "eval ( 1.2 ) ", "eval ( a ) decl2 "}},
	}
	for _, f := range fams {
		probe := c29sRun(f.parser, f.units[0], 0)
		if probe.err != "" || probe.panicVal != "" {
			c.Notes = append(c.Notes, fmt.Sprintf("c29 shipped %s lookahead unit %q is not accepted (%s): generator out of date", f.parser, f.units[0], probe.err))
			continue
		}
		n := c.N(14, 60)
		for i := 0; i < n; i++ {
			var sb strings.Builder
			for j := c.Rng.Intn(14); j > 0; j-- {
				sb.WriteString(f.pre[0])
			}
			for j := 30 + c.Rng.Intn(40); j > 0; j-- {
				if c.Rng.Intn(3) == 0 {
					sb.WriteString(f.units[c.Rng.Intn(len(f.units))])
				} else {
					sb.WriteString(f.units[0])
				}
			}
			src := sb.String()
			ref := c29sRun(f.parser, src, 0)
			if ref.timeout || ref.panicVal != "" {
				continue
			}
			c.Count("shipped " + f.parser + ": lookahead-heavy input")
			for _, k := range []int{1, 2, 1 + c.Rng.Intn(10)} {
				if k <= len(ref.evs) {
					c29sCompare(c, f.parser, src, k, ref, nil)
				}
			}
			// the same Parser object after a cancelled parse of the same or a look-alike text: nothing of
			// the abandoned parse (memoised lookahead answers, counters, pending tokens) may leak
			prev := src
			if i%2 == 1 {
				// same offsets everywhere, but the first arrow functions are parenthesised expressions
				// here: every lookahead answer memoised at their offsets is the opposite one
				prev = strings.Replace(src, "=>", "+ ", 1+c.Rng.Intn(6))
			}
			for _, pk := range []int{1, 3, 1 + c.Rng.Intn(len(ref.evs)+1)} {
				out := c29sRunAfter(f.parser, prev, pk, src, 0)
				c.Count("shipped " + f.parser + ": parser reused after a cancelled parse")
				where := fmt.Sprintf("%s parser: first %q cancelled inside listener call %d, then (same Parser) %q", f.parser, firstN(prev, 300), pk, firstN(src, 300))
				if out.panicVal != "" || out.timeout {
					c.Violate(fmt.Sprintf("parse with a Parser reused after a cancelled parse panicked or hung (panic=%q timeout=%v)", out.panicVal, out.timeout), where)
				} else if out.err != ref.err || c29sEvs(out.evs) != c29sEvs(ref.evs) {
					c.Violate(fmt.Sprintf("an uncancelled parse differs from a fresh parser's when the Parser object was used for a cancelled parse before: err %q vs %q, %d vs %d events", out.err, ref.err, len(out.evs), len(ref.evs)), where)
				}
			}
		}
	}
}
