package main

// C20 part 4: GENERATED AST builders (eventAST = true), with and without the fileNode option: the tree
// returned by the generated ast.Parse must consist of exactly the reported nodes, nested as the mirror
// of the builder says (single root without fileNode, File root with it).

import (
	"bufio"
	"bytes"
	"context"
	"fmt"
	"os"
	"os/exec"
	"path/filepath"
	"strings"
	"time"
)

func init() { c20Parts["ast"] = c20GeneratedAST }

// c20AstTM: the declaration family with an AST, comments and invalid tokens injected.
func c20AstTM(c *Ctx, name string, depth int, fileNode bool) string {
	tm := c20DeclTM(c.Rng, name, depth, false, c.Rng.Intn(3) == 0)
	opts := "eventBased = true\neventFields = true\neventAST = true\n"
	if fileNode {
		opts += "fileNode = \"File\"\nextraTypes = [\"File\"]\n"
	}
	return strings.Replace(tm, "eventBased = true\n", opts, 1)
}

// c20NodeTypeID reads the value of a NodeType constant from the generated listener.go.
func c20NodeTypeID(gp *GenParser, name string) int {
	src := gp.Files["listener.go"]
	i := strings.Index(src, "NoType NodeType = iota")
	if i < 0 {
		return -1
	}
	id := 0
	for _, line := range strings.Split(src[i:], "\n")[1:] {
		id++
		f := strings.Fields(line)
		if len(f) == 0 || f[0] == ")" {
			break
		}
		if f[0] == name {
			return id
		}
	}
	return -1
}

func c20AstRunner(gps []*GenParser) string {
	var sb strings.Builder
	sb.WriteString("package main\n\nimport (\n\t\"bufio\"\n\t\"fmt\"\n\t\"os\"\n\t\"strconv\"\n\t\"strings\"\n")
	for _, gp := range gps {
		fmt.Fprintf(&sb, "\t%s \"gp/%s\"\n\t%sast \"gp/%s/ast\"\n\t%ssel \"gp/%s/selector\"\n", gp.Name, gp.Name, gp.Name, gp.Name, gp.Name, gp.Name)
	}
	sb.WriteString(")\n\n")
	for _, gp := range gps {
		n := gp.Name
		fmt.Fprintf(&sb, `func tree_%[1]s(n *%[1]sast.Node, sb *strings.Builder) {
	fmt.Fprintf(sb, "(%%d %%d %%d", int(n.Type()), n.Offset(), n.Endoffset())
	for _, k := range n.Children(%[1]ssel.Any) {
		sb.WriteByte(' ')
		tree_%[1]s(k, sb)
	}
	sb.WriteByte(')')
}

func run_%[1]s(text string) (out string) {
	var sb strings.Builder
	defer func() { if r := recover(); r != nil { out = sb.String() + "panic" } }()
	var l %[1]s.Lexer
	l.Init(text)
	var p %[1]s.Parser
	p.Init(func(t %[1]s.NodeType, s, e int) { fmt.Fprintf(&sb, "%%d:%%d:%%d ", int(t), s, e) })
	if err := p.Parse(&l); err != nil {
		return sb.String() + "| parse-error"
	}
	tree, err := %[1]sast.Parse("x", text)
	if err != nil || tree == nil || tree.Root() == nil {
		return sb.String() + "| none"
	}
	sb.WriteString("| ")
	tree_%[1]s(tree.Root(), &sb)
	return sb.String()
}

`, n)
	}
	sb.WriteString("var runners = map[string]func(string) string{\n")
	for _, gp := range gps {
		fmt.Fprintf(&sb, "\t%q: run_%s,\n", gp.Name, gp.Name)
	}
	sb.WriteString(`}

func main() {
	sc := bufio.NewScanner(os.Stdin)
	sc.Buffer(make([]byte, 1<<20), 1<<26)
	w := bufio.NewWriter(os.Stdout)
	defer w.Flush()
	for sc.Scan() {
		parts := strings.SplitN(sc.Text(), "\t", 2)
		if len(parts) != 2 {
			fmt.Fprintln(w, "badline")
			continue
		}
		text, err := strconv.Unquote(parts[1])
		r, ok := runners[parts[0]]
		if err != nil || !ok {
			fmt.Fprintln(w, "badline")
			continue
		}
		fmt.Fprintln(w, r(text))
	}
}
`)
	return sb.String()
}

func c20GeneratedAST(c *Ctx) {
	nG := c.N(6, 40)
	dir, err := os.MkdirTemp("", "tmverif-ast-")
	if err != nil {
		c.Notes = append(c.Notes, err.Error())
		return
	}
	defer os.RemoveAll(dir)
	type item struct {
		gp       *GenParser
		depth    int
		fileNode bool
	}
	var items []item
	var gps []*GenParser
	for k := 0; k < nG; k++ {
		name := fmt.Sprintf("t%d", k)
		depth := 1 + c.Rng.Intn(3)
		fileNode := k%2 == 1
		gp := compileTM(name, c20AstTM(c, name, depth, fileNode), TMOpts{Space: true, FixWhitespace: true})
		if gp.Err != nil {
			c.Violate("C20 harness: AST grammar rejected: "+errSummary(gp.Err), gp.TM)
			continue
		}
		items = append(items, item{gp, depth, fileNode})
		gps = append(gps, gp)
	}
	if len(items) == 0 {
		return
	}
	write := func(rel, content string) error {
		p := filepath.Join(dir, rel)
		if err := os.MkdirAll(filepath.Dir(p), 0o755); err != nil {
			return err
		}
		return os.WriteFile(p, []byte(content), 0o644)
	}
	write("go.mod", "module gp\n\ngo 1.25\n")
	for _, gp := range gps {
		for fn, content := range gp.Files {
			write(filepath.Join(gp.Name, fn), content)
		}
	}
	write("main.go", c20AstRunner(gps))
	bin := filepath.Join(dir, "runner")
	cmd := exec.Command("go", "build", "-o", bin, ".")
	cmd.Dir = dir
	cmd.Env = append(os.Environ(), "GOFLAGS=-mod=mod", "GOPROXY=off")
	if out, err := cmd.CombinedOutput(); err != nil {
		c.Violate("generated AST packages do not build: "+tail(string(out), 2000), items[0].gp.TM)
		return
	}
	var in bytes.Buffer
	type req struct {
		it   item
		text string
	}
	var reqs []req
	for _, it := range items {
		for n := 0; n < 50; n++ {
			text := c20DeclText(c.Rng, it.depth, false)
			switch c.Rng.Intn(4) {
			case 0:
				text = fmt.Sprintf("#%s# ", strings.Repeat("9", c.Rng.Intn(4))) + text // leading comment
			case 1:
				text += fmt.Sprintf(" #%s#", strings.Repeat("8", c.Rng.Intn(4))) // comment at the very end
			}
			reqs = append(reqs, req{it, text})
			fmt.Fprintf(&in, "%s\t%s\n", it.gp.Name, strconvQuote(text))
		}
	}
	ctx, cancel := context.WithTimeout(context.Background(), 5*time.Minute)
	defer cancel()
	run := exec.CommandContext(ctx, bin)
	run.Stdin = &in
	outBytes, _ := run.Output()
	var outs []string
	sc := bufio.NewScanner(bytes.NewReader(outBytes))
	sc.Buffer(make([]byte, 1<<20), 1<<26)
	for sc.Scan() {
		outs = append(outs, sc.Text())
	}
	for i, rq := range reqs {
		out := "crash"
		if i < len(outs) {
			out = outs[i]
		}
		gp := rq.it.gp
		desc := fmt.Sprintf("%q with %s", rq.text, gp.TM)
		fam := "generated AST without fileNode"
		if rq.it.fileNode {
			fam = "generated AST with fileNode"
		}
		if out == "crash" || out == "badline" || strings.HasSuffix(out, "panic") {
			c.Violate(fam+": parser or builder panicked: "+out, desc)
			continue
		}
		parts := strings.SplitN(out, "| ", 2)
		if len(parts) != 2 {
			c.Violate(fam+": unexpected runner output "+out, desc)
			continue
		}
		evs, _ := c20TraceEvents(parts[0])
		tree := strings.TrimSpace(parts[1])
		if tree == "parse-error" {
			c.Count(fam + ": syntax error")
			continue
		}
		if msg := c20Direct(evs, len(rq.text)); msg != "" {
			c.Violate(fam+": "+msg, desc)
		}
		want := len(evs)
		line := "buildsingle " + c20EvsStr(evs)
		if rq.it.fileNode {
			want++
			fileTy := c20NodeTypeID(gp, "File")
			line = fmt.Sprintf("%s %d %d %s", c20BuildFileOp(), fileTy, len(rq.text), c20EvsStr(evs))
		}
		if tree == "none" {
			c.Count(fam + ": no tree (not exactly one root)")
		} else {
			c.Count(fam + ": tree")
			// Go-side check, independent of the mirror: the tree has exactly the reported nodes
			atEnd := false
			for _, e := range evs {
				if e.Off >= len(rq.text) {
					atEnd = true
				}
			}
			if got := c20CountNodes(tree); got != want && !(rq.it.fileNode && atEnd && c20EndOffsetDropped) {
				c.Violate(fmt.Sprintf("%s: the tree returned by the generated ast.Parse has %d nodes, %d were reported (tree %s, events %s)", fam, got, len(evs), tree, c20EvsStr(evs)), desc)
			}
		}
		c.Case(line, tree, gp.TM+"\x00"+rq.text)
	}
}
