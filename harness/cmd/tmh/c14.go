package main

// C14 — template instantiation preserves meaning.
//
// Templated grammars are generated at index level (the form of lean/TmVerif/Model/Templates.lean),
// rendered as .tm text and compiled by the REAL compiler.Compile in a worker child process (the
// template code calls log.Fatal on inconsistent models; a dead child is answer `fatal`).
//
//  1. structural: `inst <src> :: <real plain rules>` — the Lean mirror pipeline must produce the same
//     rules up to nonterminal naming / order of nonterminal blocks (compared inside Lean).
//  2. semantic (search for a failing input, independent of the mirror): for every terminal string up to
//     length L, membership in the source-level template semantics at the inputs' default valuation
//     (bounded fixpoint over (nonterminal, valuation) pairs, c14Sem below) vs derivability in the REAL
//     instantiated rules (Gram.Derives). A disagreement is a concrete failing input (c.Violate).
//     The same languages are computed by the Lean executable semantics (`sem L <src>`) and compared.

import (
	"bufio"
	"context"
	"fmt"
	"hash/fnv"
	"io"
	"math/rand"
	"os"
	"os/exec"
	"sort"
	"strconv"
	"strings"

	"github.com/inspirer/textmapper/compiler"
	"github.com/inspirer/textmapper/syntax"
)

func init() {
	props["C14"] = c14
	props["C14-worker"] = c14WorkerMain
}

// ---- index-level templated grammar ----

type c14Param struct {
	Name   string
	Dflt   int // -1 none, 0 false, 1 true
	LA     bool
	Global bool
}

type c14Arg struct {
	Param int
	From  bool // TakeFrom X, else value X
	X     int
	Style int // 0: +P / ~P, 1: P: true|false, 2: P: Q, 3: P
}

type c14Sym struct {
	Term int // > 0: terminal id; 0: nonterminal reference
	NT   int
	Args []c14Arg
	// Look != nil: a runtime lookahead predicate `(?= X<args> & !Y)` (predicate family; not representable in
	// the index-level protocol of the Lean mirror, checked by the Go oracle only)
	Look []c14LookRef
	// Set != nil: a token-set symbol `set(leaf | leaf …)` (set family; Go oracle only)
	Set []c14SetLeaf
}

// c14SetLeaf: one operand of a token-set union: a terminal, `first N<args>` / `last N<args>`, or a NAMED set
// (`%generate sK = set(…);`, index in c14Gram.Sets).
type c14SetLeaf struct {
	Term  int    // > 0: terminal
	Op    string // "first" | "last"
	NT    int
	Args  []c14Arg // explicit values only (token sets have no enclosing nonterminal)
	Named int      // >= 0: reference to a named set (then the other fields are unused); -1 otherwise
}

type c14LookRef struct {
	Neg  bool
	NT   int
	Args []c14Arg
}

type c14Pred struct {
	Op   byte // 'E' 'N' 'A' 'O'
	P, V int
	Sub  []*c14Pred
}

type c14Alt struct {
	Pred     *c14Pred
	PredText string
	RHS      []c14Sym
	// decorations that wrap the alternative without changing its language (text only; the index-level model
	// does not see them): `%prec 't'`, `-> Node`, state markers `.m` before the symbol at the given positions
	Prec    int
	Arrow   string
	Markers map[int]string
}

type c14NT struct {
	Name   string
	Params []int
	Alts   []c14Alt
}

type c14In struct {
	NT  int
	Eoi bool
}

type c14Gram struct {
	Assoc  string // "%left 'a' 'b';" lines (needed by %prec)
	NT     int // terminals incl. EOI
	Params []c14Param
	NTs    []c14NT
	Inputs []c14In
	Feat   map[string]bool
	Pred   bool // predicate family: contains `(?= …)` symbols
	Sets   [][]c14SetLeaf // named sets `%generate s<i> = set(…);` (set family)
	HasSet bool
}

var c14ValText = []string{`"false"`, `"true"`, `"x"`}

func c14TermName(t int) string { return string(rune('a' + t - 1)) }

func (g *c14Gram) TM(name string) string {
	var sb strings.Builder
	fmt.Fprintf(&sb, "language %s(go);\n\nlang = %q\npackage = \"gp/%s\"\neventBased = true\n\n::lexer\n\n", name, name, name)
	for t := 1; t < g.NT; t++ {
		fmt.Fprintf(&sb, "'%s': /%s/\n", c14TermName(t), c14TermName(t))
	}
	sb.WriteString("\n::parser\n\n")
	var ins []string
	for _, in := range g.Inputs {
		s := g.NTs[in.NT].Name
		if !in.Eoi {
			s += " no-eoi"
		}
		ins = append(ins, s)
	}
	fmt.Fprintf(&sb, "%%input %s;\n", strings.Join(ins, ", "))
	sb.WriteString(g.Assoc)
	for i, st := range g.Sets {
		fmt.Fprintf(&sb, "%%generate s%d = set(%s);\n", i, g.setText(st))
	}
	for _, p := range g.Params {
		if !p.Global {
			continue
		}
		sb.WriteString("%")
		if p.LA {
			sb.WriteString("lookahead ")
		}
		fmt.Fprintf(&sb, "flag %s", p.Name)
		if p.Dflt >= 0 {
			fmt.Fprintf(&sb, " = %v", p.Dflt == 1)
		}
		sb.WriteString(";\n")
	}
	sb.WriteString("\n")
	for _, nt := range g.NTs {
		sb.WriteString(nt.Name)
		if len(nt.Params) > 0 {
			var ps []string
			for _, p := range nt.Params {
				pp := g.Params[p]
				if pp.Global {
					ps = append(ps, pp.Name)
				} else {
					s := "flag " + pp.Name
					if pp.Dflt >= 0 {
						s += fmt.Sprintf(" = %v", pp.Dflt == 1)
					}
					ps = append(ps, s)
				}
			}
			fmt.Fprintf(&sb, "<%s>", strings.Join(ps, ", "))
		}
		sb.WriteString(" :\n")
		for i, a := range nt.Alts {
			if i == 0 {
				sb.WriteString("    ")
			} else {
				sb.WriteString("  | ")
			}
			if a.Pred != nil {
				fmt.Fprintf(&sb, "[%s] ", a.PredText)
			}
			if len(a.RHS) == 0 {
				sb.WriteString("%empty")
			}
			for k, s := range a.RHS {
				if k > 0 {
					sb.WriteString(" ")
				}
				if m, ok := a.Markers[k]; ok {
					sb.WriteString("." + m + " ")
				}
				if s.Term > 0 {
					fmt.Fprintf(&sb, "'%s'", c14TermName(s.Term))
					continue
				}
				if s.Set != nil {
					fmt.Fprintf(&sb, "set(%s)", g.setText(s.Set))
					continue
				}
				if s.Look != nil {
					var ps []string
					for _, l := range s.Look {
						ps = append(ps, map[bool]string{true: "!", false: ""}[l.Neg]+g.refText(l.NT, l.Args))
					}
					fmt.Fprintf(&sb, "(?= %s)", strings.Join(ps, " & "))
					continue
				}
				sb.WriteString(g.NTs[s.NT].Name)
				if len(s.Args) > 0 {
					var as []string
					for _, x := range s.Args {
						pn := g.Params[x.Param].Name
						switch x.Style {
						case 0:
							as = append(as, map[bool]string{true: "+", false: "~"}[x.X == 1]+pn)
						case 1:
							as = append(as, fmt.Sprintf("%s: %v", pn, x.X == 1))
						case 2:
							as = append(as, fmt.Sprintf("%s: %s", pn, g.Params[x.X].Name))
						default:
							as = append(as, pn)
						}
					}
					fmt.Fprintf(&sb, "<%s>", strings.Join(as, ", "))
				}
			}
			if m, ok := a.Markers[len(a.RHS)]; ok && len(a.RHS) > 0 {
				sb.WriteString(" ." + m)
			}
			if a.Prec > 0 {
				fmt.Fprintf(&sb, " %%prec '%s'", c14TermName(a.Prec))
			}
			if a.Arrow != "" {
				sb.WriteString(" -> " + a.Arrow)
			}
			sb.WriteString("\n")
		}
		sb.WriteString(";\n")
	}
	return sb.String()
}

func (g *c14Gram) setText(l []c14SetLeaf) string {
	var ps []string
	for _, x := range l {
		switch {
		case x.Named >= 0:
			ps = append(ps, fmt.Sprintf("s%d", x.Named))
		case x.Term > 0:
			ps = append(ps, "'"+c14TermName(x.Term)+"'")
		default:
			ps = append(ps, x.Op+" "+g.refText(x.NT, x.Args))
		}
	}
	return strings.Join(ps, " | ")
}

func (g *c14Gram) refText(nt int, args []c14Arg) string {
	t := g.NTs[nt].Name
	if len(args) == 0 {
		return t
	}
	var as []string
	for _, x := range args {
		pn := g.Params[x.Param].Name
		switch x.Style {
		case 0:
			as = append(as, map[bool]string{true: "+", false: "~"}[x.X == 1]+pn)
		case 1:
			as = append(as, fmt.Sprintf("%s: %v", pn, x.X == 1))
		case 2:
			as = append(as, fmt.Sprintf("%s: %s", pn, g.Params[x.X].Name))
		default:
			as = append(as, pn)
		}
	}
	return t + "<" + strings.Join(as, ", ") + ">"
}

func (p *c14Pred) proto(out *[]string) {
	switch p.Op {
	case 'E':
		*out = append(*out, "E", strconv.Itoa(p.P), strconv.Itoa(p.V))
	case 'N':
		*out = append(*out, "N")
		p.Sub[0].proto(out)
	default:
		*out = append(*out, string(p.Op), strconv.Itoa(len(p.Sub)))
		for _, s := range p.Sub {
			s.proto(out)
		}
	}
}

// Proto is the token stream read by DriverC14.pGrammar.
func (g *c14Gram) Proto() string {
	var o []string
	add := func(v ...int) {
		for _, x := range v {
			o = append(o, strconv.Itoa(x))
		}
	}
	names := map[string]int{}
	add(g.NT, len(g.Params))
	for _, p := range g.Params {
		id, ok := names[p.Name]
		if !ok {
			id = len(names)
			names[p.Name] = id
		}
		add(id)
		if p.Dflt < 0 {
			o = append(o, "-")
		} else {
			add(p.Dflt)
		}
		add(map[bool]int{true: 1, false: 0}[p.LA])
	}
	add(len(g.NTs))
	for _, nt := range g.NTs {
		add(len(nt.Params))
		add(nt.Params...)
		add(len(nt.Alts))
		for _, a := range nt.Alts {
			if a.Pred == nil {
				o = append(o, "-")
			} else {
				a.Pred.proto(&o)
			}
			add(len(a.RHS))
			for _, s := range a.RHS {
				if s.Term > 0 {
					o = append(o, "T")
					add(s.Term)
					continue
				}
				o = append(o, "R")
				add(s.NT, len(s.Args))
				for _, x := range s.Args {
					add(x.Param)
					if x.From {
						o = append(o, "F")
					} else {
						o = append(o, "V")
					}
					add(x.X)
				}
			}
		}
	}
	add(len(g.Inputs))
	for _, in := range g.Inputs {
		add(in.NT, map[bool]int{true: 1, false: 0}[in.Eoi])
	}
	return strings.Join(o, " ")
}

// ---- source-level semantics (search oracle; written directly from the documented meaning) ----

func (p *c14Pred) eval(env []int) bool {
	switch p.Op {
	case 'E':
		return env[p.P] == p.V
	case 'N':
		return !p.Sub[0].eval(env)
	case 'A':
		for _, s := range p.Sub {
			if !s.eval(env) {
				return false
			}
		}
		return true
	default:
		for _, s := range p.Sub {
			if s.eval(env) {
				return true
			}
		}
		return false
	}
}

func c14Has(l []int, x int) bool {
	for _, y := range l {
		if y == x {
			return true
		}
	}
	return false
}

// callEnv: the valuation a referenced nonterminal is evaluated under.
//   - explicit argument: its value / the caller's value of the named parameter
//   - lookahead flag without argument: the caller's value if the reference starts the alternative, else false
//   - declared parameter of the target without argument: the caller's parameter of the same NAME, else the default
func (g *c14Gram) callEnv(caller int, first bool, s c14Sym, env []int) []int {
	out := make([]int, len(g.Params))
	for p := range g.Params {
		done := false
		for _, a := range s.Args {
			if a.Param == p {
				if a.From {
					out[p] = env[a.X]
				} else {
					out[p] = a.X
				}
				done = true
				break
			}
		}
		if done {
			continue
		}
		if g.Params[p].LA {
			if first {
				out[p] = env[p]
			}
			continue
		}
		if c14Has(g.NTs[s.NT].Params, p) {
			q := -1
			for _, c := range g.NTs[caller].Params {
				if g.Params[c].Name == g.Params[p].Name {
					q = c
					break
				}
			}
			if q >= 0 {
				out[p] = env[q]
			} else if g.Params[p].Dflt >= 0 {
				out[p] = g.Params[p].Dflt
			}
		}
	}
	return out
}

// ---- equation systems with runtime lookahead predicates and a position-based recogniser (predicate family) ----

type c14LAp struct {
	Neg bool
	Key int
}

type c14Item struct {
	Term int // > 0 terminal
	Key  int // nonterminal key (when Term == 0 and LA == nil)
	LA   []c14LAp
}

type c14Sys struct {
	Alts [][][]c14Item
}

// plain: the keys reachable from predicate targets; ok = none of them contains a predicate (stratified).
func (s *c14Sys) plain() (map[int]bool, bool) {
	pl := map[int]bool{}
	var stack []int
	for _, alts := range s.Alts {
		for _, alt := range alts {
			for _, it := range alt {
				for _, p := range it.LA {
					if !pl[p.Key] {
						pl[p.Key] = true
						stack = append(stack, p.Key)
					}
				}
			}
		}
	}
	for len(stack) > 0 {
		k := stack[len(stack)-1]
		stack = stack[:len(stack)-1]
		if k >= len(s.Alts) {
			continue
		}
		for _, alt := range s.Alts[k] {
			for _, it := range alt {
				if it.LA != nil {
					return pl, false
				}
				if it.Term == 0 && !pl[it.Key] {
					pl[it.Key] = true
					stack = append(stack, it.Key)
				}
			}
		}
	}
	return pl, true
}

// ends computes, for every key and start position, the set of end positions (bit mask) of derivations over w;
// `(?= X)` holds at a position iff some prefix of the remaining input is derived by X. Two strata: plain keys first.
func (s *c14Sys) ends(w []int, pl map[int]bool) [][]uint32 {
	n := len(w)
	T := make([][]uint32, len(s.Alts))
	for k := range T {
		T[k] = make([]uint32, n+1)
	}
	pass := func(sel func(k int) bool) {
		for ch := true; ch; {
			ch = false
			for k, alts := range s.Alts {
				if !sel(k) {
					continue
				}
				for i := 0; i <= n; i++ {
					var res uint32
					for _, alt := range alts {
						cur := uint32(1) << uint(i)
						for _, it := range alt {
							var nxt uint32
							for j := i; j <= n; j++ {
								if cur&(1<<uint(j)) == 0 {
									continue
								}
								switch {
								case it.Term > 0:
									if j < n && w[j] == it.Term {
										nxt |= 1 << uint(j+1)
									}
								case it.LA != nil:
									ok := true
									for _, p := range it.LA {
										m := p.Key < len(T) && T[p.Key][j] != 0
										if m == p.Neg {
											ok = false
										}
									}
									if ok {
										nxt |= 1 << uint(j)
									}
								default:
									if it.Key < len(T) {
										nxt |= T[it.Key][j]
									}
								}
							}
							cur = nxt
							if cur == 0 {
								break
							}
						}
						res |= cur
					}
					if res|T[k][i] != T[k][i] {
						T[k][i] |= res
						ch = true
					}
				}
			}
		}
	}
	pass(func(k int) bool { return pl[k] })
	pass(func(k int) bool { return !pl[k] })
	return T
}

type c14Sem struct {
	offPath  bool // some operand `first/last N<args>` names an instance that the input does not reach through references
	emptySet bool // some token-set symbol denotes the empty set (then `Expand` produces an empty rule: C13's finding class)
	sys   c14Sys // the same system with predicate items (alts below has no entry for them)
	keys  []string
	index map[string]int
	nts   []int
	envs  [][]int
	alts  [][][]int // per key: alternatives: symbols (terminal t > 0, key k as -(k+1))
	dead  []bool
}

func (g *c14Gram) sem() *c14Sem {
	s := &c14Sem{index: map[string]int{}}
	get := func(nt int, env []int) int {
		k := fmt.Sprint(nt, env)
		if i, ok := s.index[k]; ok {
			return i
		}
		i := len(s.keys)
		s.index[k] = i
		s.keys = append(s.keys, k)
		s.nts = append(s.nts, nt)
		s.envs = append(s.envs, env)
		return i
	}
	zero := make([]int, len(g.Params))
	for _, in := range g.Inputs {
		get(in.NT, zero)
	}
	// token sets: a set symbol is a key of its own (nt = -1) whose alternatives (one terminal each) are filled in
	// when all nonterminal keys are expanded; leaves of named sets are flattened
	type setKey struct {
		key    int
		leaves []c14SetLeaf
	}
	var setKeys []setKey
	var flat func(l []c14SetLeaf, depth int) []c14SetLeaf
	flat = func(l []c14SetLeaf, depth int) []c14SetLeaf {
		var out []c14SetLeaf
		for _, x := range l {
			if x.Named >= 0 {
				if depth < 8 && x.Named < len(g.Sets) {
					out = append(out, flat(g.Sets[x.Named], depth+1)...)
				}
			} else {
				out = append(out, x)
			}
		}
		return out
	}
	leafEnv := func(x c14SetLeaf) []int { // explicit values, defaults for the other declared parameters
		env := make([]int, len(g.Params))
		for _, p := range g.NTs[x.NT].Params {
			if g.Params[p].Dflt >= 0 {
				env[p] = g.Params[p].Dflt
			}
		}
		for _, a := range x.Args {
			env[a.Param] = a.X
		}
		return env
	}
	// the named sets are instantiated whether used or not
	for _, st := range g.Sets {
		for _, x := range flat(st, 0) {
			if x.Term == 0 {
				get(x.NT, leafEnv(x))
			}
		}
	}
	for i := 0; i < len(s.keys) && i < 5000; i++ {
		nt, env := s.nts[i], s.envs[i]
		var alts [][]int
		var sysAlts [][]c14Item
		if nt < 0 {
			s.alts = append(s.alts, nil)
			s.sys.Alts = append(s.sys.Alts, nil)
			s.dead = append(s.dead, false)
			continue
		}
		for _, a := range g.NTs[nt].Alts {
			if a.Pred != nil && !a.Pred.eval(env) {
				continue
			}
			rhs := []int{}
			var items []c14Item
			first := true // entryPoints skips predicates: the first real symbol starts the alternative
			for _, sym := range a.RHS {
				switch {
				case sym.Term > 0:
					rhs = append(rhs, sym.Term)
					items = append(items, c14Item{Term: sym.Term})
					first = false
				case sym.Set != nil:
					leaves := flat(sym.Set, 0)
					for _, x := range leaves {
						if x.Term == 0 {
							get(x.NT, leafEnv(x))
						}
					}
					k := get(-1, []int{len(setKeys)})
					setKeys = append(setKeys, setKey{k, leaves})
					rhs = append(rhs, -(k + 1))
					items = append(items, c14Item{Key: k})
					first = false
				case sym.Look != nil:
					var la []c14LAp
					for _, l := range sym.Look {
						// lookahead FLAGS never flow into a predicate target (entryPoints does not look inside)
						la = append(la, c14LAp{l.Neg, get(l.NT, g.callEnv(nt, false, c14Sym{NT: l.NT, Args: l.Args}, env))})
					}
					items = append(items, c14Item{LA: la})
				default:
					k := get(sym.NT, g.callEnv(nt, first, sym, env))
					rhs = append(rhs, -(k + 1))
					items = append(items, c14Item{Key: k})
					first = false
				}
			}
			alts = append(alts, rhs)
			sysAlts = append(sysAlts, items)
		}
		s.alts = append(s.alts, alts)
		s.sys.Alts = append(s.sys.Alts, sysAlts)
		s.dead = append(s.dead, len(alts) == 0)
	}
	for changedSets := len(setKeys) > 0; changedSets; {
		changedSets = false
		// nullable / first / last of every key by the usual fixpoints over the enabled alternatives (the set keys take part
		// with the terminals found so far: sets may refer to nonterminals that contain set symbols)
		n := len(s.alts)
		nullable := make([]bool, n)
		first := make([]map[int]bool, n)
		last := make([]map[int]bool, n)
		for k := range first {
			first[k], last[k] = map[int]bool{}, map[int]bool{}
		}
		for ch := true; ch; {
			ch = false
			for k, alts := range s.alts {
				for _, alt := range alts {
					all := true
					for _, x := range alt {
						if x > 0 || !nullable[-x-1] {
							all = false
							break
						}
					}
					if all && !nullable[k] {
						nullable[k] = true
						ch = true
					}
					scan := func(dst map[int]bool, src []map[int]bool, seq []int) {
						for _, x := range seq {
							if x > 0 {
								if !dst[x] {
									dst[x] = true
									ch = true
								}
								return
							}
							for t := range src[-x-1] {
								if !dst[t] {
									dst[t] = true
									ch = true
								}
							}
							if !nullable[-x-1] {
								return
							}
						}
					}
					scan(first[k], first, alt)
					rev := make([]int, len(alt))
					for i, x := range alt {
						rev[len(alt)-1-i] = x
					}
					scan(last[k], last, rev)
				}
			}
		}
		for _, sk := range setKeys {
			ts := map[int]bool{}
			for _, x := range sk.leaves {
				if x.Term > 0 {
					ts[x.Term] = true
					continue
				}
				src := first
				if x.Op == "last" {
					src = last
				}
				for t := range src[s.index[fmt.Sprint(x.NT, leafEnv(x))]] {
					ts[t] = true
				}
			}
			var list []int
			for t := range ts {
				list = append(list, t)
			}
			sort.Ints(list)
			if len(list) != len(s.alts[sk.key]) {
				changedSets = true
				s.alts[sk.key], s.sys.Alts[sk.key] = nil, nil
				for _, t := range list {
					s.alts[sk.key] = append(s.alts[sk.key], []int{t})
					s.sys.Alts[sk.key] = append(s.sys.Alts[sk.key], []c14Item{{Term: t}})
				}
			}
		}
	}
	for _, sk := range setKeys {
		if len(s.alts[sk.key]) == 0 {
			s.emptySet = true
		}
	}
	if len(setKeys) > 0 || len(g.Sets) > 0 {
		reach := make([]bool, len(s.alts))
		var st []int
		for _, in := range g.Inputs {
			k := s.index[fmt.Sprint(in.NT, zero)]
			reach[k] = true
			st = append(st, k)
		}
		for len(st) > 0 {
			k := st[len(st)-1]
			st = st[:len(st)-1]
			for _, alt := range s.alts[k] {
				for _, x := range alt {
					if x < 0 && !reach[-x-1] {
						reach[-x-1] = true
						st = append(st, -x-1)
					}
				}
			}
		}
		chk := func(l []c14SetLeaf) {
			for _, x := range flat(l, 0) {
				if x.Term == 0 && !reach[s.index[fmt.Sprint(x.NT, leafEnv(x))]] {
					s.offPath = true
				}
			}
		}
		for _, st := range g.Sets {
			chk(st)
		}
		for _, sk := range setKeys {
			chk(sk.leaves)
		}
	}
	return s
}

func (s *c14Sem) anyDead() bool {
	for _, d := range s.dead {
		if d {
			return true
		}
	}
	return false
}

// langs: the strings up to length L of every key (least fixpoint).
func (s *c14Sem) langs(L int) []map[string]bool {
	ls := make([]map[string]bool, len(s.alts))
	for i := range ls {
		ls[i] = map[string]bool{}
	}
	for ch := true; ch; {
		ch = false
		for i, alts := range s.alts {
			for _, alt := range alts {
				cur := []string{""}
				for _, x := range alt {
					var nxt []string
					if x > 0 {
						for _, u := range cur {
							if len(u)+1 <= L {
								nxt = append(nxt, u+string(rune('0'+x)))
							}
						}
					} else {
						for _, u := range cur {
							for v := range ls[-x-1] {
								if len(u)+len(v) <= L {
									nxt = append(nxt, u+v)
								}
							}
						}
					}
					cur = nxt
					if len(cur) == 0 {
						break
					}
				}
				for _, w := range cur {
					if !ls[i][w] {
						ls[i][w] = true
						ch = true
					}
				}
			}
		}
	}
	return ls
}

func c14ShowLang(m map[string]bool) string {
	if len(m) == 0 {
		return "-"
	}
	var ws []string
	for w := range m {
		ws = append(ws, w)
	}
	sort.Slice(ws, func(i, j int) bool {
		if len(ws[i]) != len(ws[j]) {
			return len(ws[i]) < len(ws[j])
		}
		return ws[i] < ws[j]
	})
	for i, w := range ws {
		if w == "" {
			ws[i] = "e"
		}
	}
	return strings.Join(ws, ",")
}

// ---- worker child process: the real compiler ----

func c14Compile(text string) (ans string) {
	defer func() {
		if r := recover(); r != nil {
			ans = "panic"
		}
	}()
	g, err := compiler.Compile(context.Background(), "c14.tm", text, compiler.Params{})
	if g == nil || g.Parser == nil || g.Parser.Rules == nil {
		if err != nil {
			return "err " + strings.ReplaceAll(errSummary(err), "\n", " ")
		}
		return "err no-rules"
	}
	gp := &GenParser{G: g}
	return "ok " + c14Renumber(gp)
}

// c14Renumber rewrites gp.ProtoGrammar() so that terminal 'a' is 1, 'b' is 2, ... (the compiled grammar
// numbers invalid_token etc. in between); other terminals do not occur in the rules of these grammars.
func c14Renumber(gp *GenParser) string {
	p := gp.G.Parser
	realNT := p.NumTerminals
	m := map[int]int{0: 0}
	myNT := 1
	for i := 0; i < realNT; i++ {
		n := gp.G.Syms[i].Name
		if len(n) == 3 && n[0] == '\'' && n[2] == '\'' {
			m[i] = int(n[1]-'a') + 1
			if m[i]+1 > myNT {
				myNT = m[i] + 1
			}
		}
	}
	ren := func(s int) int {
		if s >= realNT {
			return s - realNT + myNT
		}
		if v, ok := m[s]; ok {
			return v
		}
		return 0 // never a rule symbol in well-formed output; shows up as a disagreement
	}
	f := strings.Fields(gp.ProtoGrammar())
	var rs []string
	if f[2] != "_" {
		for _, r := range strings.Split(f[2], ";") {
			lr := strings.SplitN(r, ":", 2)
			l, _ := strconv.Atoi(lr[0])
			var rhs []int
			if lr[1] != "-" {
				for _, x := range strings.Split(lr[1], ",") {
					v, _ := strconv.Atoi(x)
					rhs = append(rhs, ren(v))
				}
			}
			rs = append(rs, fmt.Sprintf("%d:%s", ren(l), ints(rhs)))
		}
		f[2] = strings.Join(rs, ";")
	}
	var is []string
	for _, in := range strings.Split(f[3], ";") {
		lr := strings.SplitN(in, ":", 2)
		l, _ := strconv.Atoi(lr[0])
		is = append(is, fmt.Sprintf("%d:%s", ren(l), lr[1]))
	}
	f[3] = strings.Join(is, ";")
	f[0] = strconv.Itoa(myNT)
	// 7th token (only when present): the lookahead nonterminals `sym:[n|p]target&…;…`
	var las []string
	for i, nt := range p.Nonterms {
		if nt.Value == nil || nt.Value.Kind != syntax.Lookahead {
			continue
		}
		var ps []string
		for _, sub := range nt.Value.Sub {
			neg := "p"
			if sub.Kind == syntax.LookaheadNot {
				neg = "n"
				sub = sub.Sub[0]
			}
			ps = append(ps, neg+strconv.Itoa(ren(sub.Symbol)))
		}
		las = append(las, fmt.Sprintf("%d:%s", ren(realNT+i), strings.Join(ps, "&")))
	}
	if len(las) > 0 {
		f = append(f, "la="+strings.Join(las, ";"))
	}
	return strings.Join(f, " ")
}

// c14RealSys: the compiled rules as a system with predicates (key = nonterminal symbol - NT).
func c14RealSys(real *Gram, la string) c14Sys {
	sys := c14Sys{Alts: make([][][]c14Item, real.NN)}
	isLA := map[int]bool{}
	if la != "" {
		for _, e := range strings.Split(la, ";") {
			lr := strings.SplitN(e, ":", 2)
			if len(lr) != 2 {
				continue
			}
			sym, _ := strconv.Atoi(lr[0])
			var it c14Item
			for _, pt := range strings.Split(lr[1], "&") {
				if len(pt) < 2 {
					continue
				}
				t, _ := strconv.Atoi(pt[1:])
				it.LA = append(it.LA, c14LAp{Neg: pt[0] == 'n', Key: t - real.NT})
			}
			if k := sym - real.NT; k >= 0 && k < real.NN {
				isLA[k] = true
				sys.Alts[k] = [][]c14Item{{it}}
			}
		}
	}
	for _, r := range real.Rules {
		k := r.LHS - real.NT
		if k < 0 || k >= real.NN || isLA[k] {
			continue
		}
		items := []c14Item{}
		for _, x := range r.RHS {
			if x < real.NT {
				items = append(items, c14Item{Term: x})
			} else {
				items = append(items, c14Item{Key: x - real.NT})
			}
		}
		sys.Alts[k] = append(sys.Alts[k], items)
	}
	return sys
}

// c14SemanticPred: as c14Semantic for grammars with runtime lookahead predicates: both sides are run through the
// position-based recogniser (template system built from the SOURCE semantics vs the compiled rules, in which every
// lookahead nonterminal tests its instantiated target).
func c14SemanticPred(g *c14Gram, s *c14Sem, real *Gram, la string, L int) (string, string) {
	if len(real.Inputs) < len(g.Inputs) {
		return "inputs", fmt.Sprintf("%d inputs declared, %d instantiated", len(g.Inputs), len(real.Inputs))
	}
	rs := c14RealSys(real, la)
	spl, ok1 := s.sys.plain()
	rpl, ok2 := rs.plain()
	if !ok1 || !ok2 {
		return "", "unstratified"
	}
	var bad, why string
	real.AllStrings(L, func(w []int) bool {
		st := s.sys.ends(w, spl)
		rt := rs.ends(w, rpl)
		for k := range g.Inputs {
			sk := s.index[fmt.Sprint(g.Inputs[k].NT, make([]int, len(g.Params)))]
			rk := real.Inputs[k].Sym - real.NT
			want := st[sk][0]&(1<<uint(len(w))) != 0
			got := rk >= 0 && rk < len(rt) && rt[rk][0]&(1<<uint(len(w))) != 0
			if want != got {
				for _, t := range w {
					bad += c14TermName(t)
				}
				if bad == "" {
					bad = "<empty string>"
				}
				if want {
					why = fmt.Sprintf("input %s: `%s` is in the template language at the default valuation (lookahead predicates evaluated on the template of their target) but is NOT accepted by the instantiated rules (predicates evaluated on the instantiated target)", g.NTs[g.Inputs[k].NT].Name, bad)
				} else {
					why = fmt.Sprintf("input %s: `%s` is accepted by the instantiated rules (predicates evaluated on the instantiated target) but is NOT in the template language at the default valuation", g.NTs[g.Inputs[k].NT].Name, bad)
				}
				return false
			}
		}
		return true
	})
	return bad, why
}

func c14WorkerMain(c *Ctx) {
	in := bufio.NewReaderSize(os.Stdin, 1<<20)
	out := bufio.NewWriterSize(os.Stdout, 1<<20)
	for {
		line, err := in.ReadString('\n')
		if line = strings.TrimSpace(line); line != "" {
			text, uerr := strconv.Unquote(line)
			if uerr != nil {
				fmt.Fprintln(out, "bad-request")
			} else {
				fmt.Fprintln(out, c14Compile(text))
			}
			out.Flush()
		}
		if err != nil {
			return
		}
	}
}

type c14Worker struct {
	cmd *exec.Cmd
	in  io.WriteCloser
	out *bufio.Reader
}

func (w *c14Worker) start() {
	exe, err := os.Executable()
	must(err)
	w.cmd = exec.Command(exe, "C14-worker", "-out", os.TempDir())
	w.in, err = w.cmd.StdinPipe()
	must(err)
	o, err := w.cmd.StdoutPipe()
	must(err)
	w.out = bufio.NewReaderSize(o, 1<<20)
	must(w.cmd.Start())
}

func (w *c14Worker) stop() {
	if w.cmd != nil {
		w.in.Close()
		w.cmd.Wait()
		w.cmd = nil
	}
}

func (w *c14Worker) call(text string) string {
	if w.cmd == nil {
		w.start()
	}
	_, werr := io.WriteString(w.in, strconv.Quote(text)+"\n")
	line, rerr := w.out.ReadString('\n')
	if werr != nil || rerr != nil {
		w.in.Close()
		w.cmd.Wait()
		w.cmd = nil
		return "fatal"
	}
	return strings.TrimSpace(line)
}

// ---- generator ----

type c14Cfg struct {
	bad  float64 // probability of each deliberately invalid choice
	pred bool    // predicate family: runtime lookahead predicates `(?= X)` with templated targets, no lookahead flags
	sets bool    // set family: `%generate` named sets and `set(…)` symbols over templated nonterminals, no lookahead flags
}

func c14GenPred(r *rand.Rand, g *c14Gram, avail []int) (*c14Pred, string) {
	lit := func() (*c14Pred, string) {
		p := avail[r.Intn(len(avail))]
		n := g.Params[p].Name
		switch r.Intn(8) {
		case 0, 1, 2:
			return &c14Pred{Op: 'E', P: p, V: 1}, n
		case 3, 4:
			return &c14Pred{Op: 'N', Sub: []*c14Pred{{Op: 'E', P: p, V: 1}}}, "!" + n
		case 5:
			v := r.Intn(3)
			return &c14Pred{Op: 'E', P: p, V: v}, n + " == " + c14ValText[v]
		default:
			v := r.Intn(3)
			return &c14Pred{Op: 'N', Sub: []*c14Pred{{Op: 'E', P: p, V: v}}}, n + " != " + c14ValText[v]
		}
	}
	nOr := 1
	if r.Intn(3) == 0 {
		nOr = 2 + r.Intn(2)
	}
	var or *c14Pred
	var orText []string
	for i := 0; i < nOr; i++ {
		nAnd := 1
		if r.Intn(3) == 0 {
			nAnd = 2 + r.Intn(2)
		}
		var and *c14Pred
		var andText []string
		for j := 0; j < nAnd; j++ {
			l, t := lit()
			andText = append(andText, t)
			if and == nil {
				and = l
			} else {
				and = &c14Pred{Op: 'A', Sub: []*c14Pred{and, l}} // left associative
			}
		}
		orText = append(orText, strings.Join(andText, " && "))
		if or == nil {
			or = and
		} else {
			or = &c14Pred{Op: 'O', Sub: []*c14Pred{or, and}}
		}
	}
	return or, strings.Join(orText, " || ")
}

func c14Gen(r *rand.Rand, cfg c14Cfg) *c14Gram {
	g := &c14Gram{Feat: map[string]bool{}}
	g.NT = 3 + r.Intn(3) // 2..4 real terminals
	bad := func() bool { return r.Float64() < cfg.bad }
	// global parameters
	nGlobal := r.Intn(3)
	nLA := 0
	switch r.Intn(5) {
	case 0, 1:
		nLA = 1
	case 2:
		if r.Intn(3) == 0 {
			nLA = 2
		}
	}
	if cfg.pred || cfg.sets {
		nLA = 0
		if nGlobal == 0 {
			nGlobal = 1
		}
	}
	for i := 0; i < nGlobal; i++ {
		g.Params = append(g.Params, c14Param{Name: string(rune('A' + i)), Dflt: r.Intn(3) - 1, Global: true})
	}
	var las []int
	for i := 0; i < nLA; i++ {
		d := 0
		switch r.Intn(6) {
		case 0:
			d = -1
		case 1:
			d = 1
		}
		las = append(las, len(g.Params))
		g.Params = append(g.Params, c14Param{Name: string(rune('L' + i)), Dflt: d, LA: true, Global: true})
	}
	nGlob := len(g.Params)
	nNT := 2 + r.Intn(4)
	nIn := 1
	if nNT >= 3 && r.Intn(3) == 0 && !cfg.sets {
		nIn = 2 // (token sets are computed on what the first input reaches: one input in the set family)
	}
	// by-name mode: most nonterminals declare an inline `flag X = v` of their own (one parameter index each),
	// references between them mostly leave X out (propagation by NAME), its value is made visible
	byName := r.Intn(5) == 0 || (cfg.pred && r.Intn(4) != 0)
	if byName {
		g.Feat["by-name mode"] = true
	}
	// headers
	inline := []string{"X", "Y"}
	for n := 0; n < nNT; n++ {
		nt := c14NT{Name: fmt.Sprintf("N%d", n)}
		isInput := n < nIn
		if !isInput || bad() {
			// global non-lookahead flags in a random order, inline flags
			var cand []int
			for p := 0; p < nGlob; p++ {
				if !g.Params[p].LA && r.Intn(2) == 0 {
					cand = append(cand, p)
				}
			}
			r.Shuffle(len(cand), func(i, j int) { cand[i], cand[j] = cand[j], cand[i] })
			nInl := 0
			switch r.Intn(4) {
			case 0:
				nInl = 1
			case 1:
				if r.Intn(2) == 0 {
					nInl = 2
				}
			}
			if nGlobal == 0 && nLA == 0 && nInl == 0 && r.Intn(4) != 0 {
				nInl = 1
			}
			pos := 0
			names := append([]string(nil), inline...)
			r.Shuffle(len(names), func(i, j int) { names[i], names[j] = names[j], names[i] })
			forceX := byName && !isInput && r.Intn(5) != 0
			if forceX {
				names = []string{"X", "Y"}
				if nInl == 0 {
					nInl = 1
				}
			}
			for k := 0; k < nInl; k++ {
				idx := len(g.Params)
				d := r.Intn(3) - 1
				if forceX && k == 0 {
					d = r.Intn(2)
				}
				g.Params = append(g.Params, c14Param{Name: names[k], Dflt: d})
				// insert at a random position (indices are assigned in order of appearance: keep inline ones in order)
				pos = pos + r.Intn(len(cand)-pos+1)
				cand = append(cand[:pos], append([]int{idx}, cand[pos:]...)...)
				pos++
			}
			nt.Params = cand
		}
		g.NTs = append(g.NTs, nt)
	}
	for i := 0; i < nIn; i++ {
		g.Inputs = append(g.Inputs, c14In{NT: i, Eoi: r.Intn(5) != 0 || cfg.sets})
	}
	// which nonterminals look at a lookahead flag in a predicate
	usesLA := make([][]int, nNT)
	for n := nIn; n < nNT; n++ {
		for _, l := range las {
			if r.Intn(3) == 0 {
				usesLA[n] = append(usesLA[n], l)
			}
		}
	}
	mkArgs := func(caller, target int) []c14Arg {
		var args []c14Arg
		cp := g.NTs[caller].Params
		sameName := func(p int) int {
			for _, c := range cp {
				if g.Params[c].Name == g.Params[p].Name {
					return c
				}
			}
			return -1
		}
		var fromCand []int
		fromCand = append(fromCand, cp...)
		tp := append([]int(nil), g.NTs[target].Params...)
		r.Shuffle(len(tp), func(i, j int) { tp[i], tp[j] = tp[j], tp[i] })
		for _, p := range tp {
			canOmit := sameName(p) >= 0 || g.Params[p].Dflt >= 0
			k := r.Intn(10)
			if byName && !g.Params[p].Global && sameName(p) >= 0 && r.Intn(3) != 0 {
				k = 0 // leave it out: propagated by name
			}
			switch {
			case k < 3 && (canOmit || bad()):
				if sameName(p) >= 0 {
					g.Feat["propagated"] = true
				} else {
					g.Feat["default"] = true
				}
				// omitted
			case k < 4 && sameName(p) >= 0:
				args = append(args, c14Arg{Param: p, From: true, X: sameName(p), Style: 3})
				g.Feat["propagated"] = true
			case k < 6 && len(fromCand) > 0:
				args = append(args, c14Arg{Param: p, From: true, X: fromCand[r.Intn(len(fromCand))], Style: 2})
				g.Feat["takefrom"] = true
			case k < 8:
				args = append(args, c14Arg{Param: p, X: r.Intn(2), Style: 0})
			default:
				args = append(args, c14Arg{Param: p, X: r.Intn(2), Style: 1})
			}
		}
		return args
	}
	for n := 0; n < nNT; n++ {
		nt := &g.NTs[n]
		nAlts := 1 + r.Intn(3)
		avail := append([]int(nil), nt.Params...)
		avail = append(avail, usesLA[n]...)
		if bad() && nGlob > 0 {
			avail = append(avail, r.Intn(nGlob))
		}
		// make the value of a lookahead flag visible: `[L] 't'` / `[!L] 't'` with a terminal-only body
		for _, l := range usesLA[n] {
			if r.Intn(10) < 7 {
				pr := &c14Pred{Op: 'E', P: l, V: 1}
				txt := g.Params[l].Name
				if r.Intn(3) == 0 {
					pr = &c14Pred{Op: 'N', Sub: []*c14Pred{pr}}
					txt = "!" + txt
				}
				alt := c14Alt{Pred: pr, PredText: txt}
				for k, ln := 0, 1+r.Intn(2); k < ln; k++ {
					alt.RHS = append(alt.RHS, c14Sym{Term: 1 + r.Intn(g.NT-1)})
				}
				nt.Alts = append(nt.Alts, alt)
				g.Feat["pred"] = true
			}
		}
		if byName {
			for _, p := range nt.Params {
				if !g.Params[p].Global && r.Intn(10) < 7 {
					pr := &c14Pred{Op: 'E', P: p, V: 1}
					txt := g.Params[p].Name
					if r.Intn(2) == 0 {
						pr = &c14Pred{Op: 'N', Sub: []*c14Pred{pr}}
						txt = "!" + txt
					}
					alt := c14Alt{Pred: pr, PredText: txt}
					for k, ln := 0, 1+r.Intn(2); k < ln; k++ {
						alt.RHS = append(alt.RHS, c14Sym{Term: 1 + r.Intn(g.NT-1)})
					}
					nt.Alts = append(nt.Alts, alt)
					g.Feat["pred"] = true
				}
			}
		}
		for a := 0; a < nAlts; a++ {
			var alt c14Alt
			if a == nAlts-1 && r.Intn(5) != 0 {
				// a productive base case: terminals only, no predicate
				for k, ln := 0, 1+r.Intn(2); k < ln; k++ {
					alt.RHS = append(alt.RHS, c14Sym{Term: 1 + r.Intn(g.NT-1)})
				}
				nt.Alts = append(nt.Alts, alt)
				continue
			}
			if len(avail) > 0 && r.Intn(5) < 3 {
				alt.Pred, alt.PredText = c14GenPred(r, g, avail)
				g.Feat["pred"] = true
			}
			ln := r.Intn(4)
			if len(usesLA[n]) > 0 && ln == 0 && !bad() {
				ln = 1 + r.Intn(3) // a nonterminal that takes a lookahead flag must not have empty alternatives
			}
			if a == nAlts-1 && ln == 0 && r.Intn(2) == 0 {
				ln = 1
			}
			for k := 0; k < ln; k++ {
				if r.Intn(100) < 50 {
					alt.RHS = append(alt.RHS, c14Sym{Term: 1 + r.Intn(g.NT-1)})
				} else {
					t := r.Intn(nNT)
					if t < nIn && r.Intn(3) != 0 {
						t = nIn + r.Intn(nNT-nIn)
					}
					alt.RHS = append(alt.RHS, c14Sym{NT: t, Args: mkArgs(n, t)})
				}
			}
			nt.Alts = append(nt.Alts, alt)
		}
	}
	// reachability (in 9 of 10 grammars): every nonterminal is referenced from something reachable from an input
	if r.Intn(10) != 0 {
		for {
			reach := make([]bool, nNT)
			var stack []int
			for i := 0; i < nIn; i++ {
				reach[i] = true
				stack = append(stack, i)
			}
			for len(stack) > 0 {
				n := stack[len(stack)-1]
				stack = stack[:len(stack)-1]
				for _, a := range g.NTs[n].Alts {
					for _, sy := range a.RHS {
						if sy.Term == 0 && sy.Look == nil && sy.Set == nil && !reach[sy.NT] {
							reach[sy.NT] = true
							stack = append(stack, sy.NT)
						}
					}
				}
			}
			u := -1
			var rs []int
			for n := 0; n < nNT; n++ {
				if reach[n] {
					rs = append(rs, n)
				} else if u < 0 {
					u = n
				}
			}
			if u < 0 {
				break
			}
			cn := rs[r.Intn(len(rs))]
			var alt c14Alt
			if r.Intn(2) == 0 {
				alt.RHS = append(alt.RHS, c14Sym{Term: 1 + r.Intn(g.NT-1)})
			}
			alt.RHS = append(alt.RHS, c14Sym{NT: u, Args: mkArgs(cn, u)})
			if r.Intn(2) == 0 {
				alt.RHS = append(alt.RHS, c14Sym{Term: 1 + r.Intn(g.NT-1)})
			}
			// keep a terminal-only last alternative last
			al := g.NTs[cn].Alts
			g.NTs[cn].Alts = append(al[:len(al)-1:len(al)-1], alt, al[len(al)-1])
		}
	}
	// recursive self-references that SWAP or RENAME the nonterminal's own parameters: `[P] 'a' N<P: Q, Q: P> | [Q] 'b' N<P: Q, Q: P>`,
	// entered from the input with different values for the two parameters
	for n := nIn; n < nNT; n++ {
		ps := g.NTs[n].Params
		if len(ps) < 2 || r.Intn(5) >= 2 {
			continue
		}
		pi := r.Perm(len(ps))
		p1, p2 := ps[pi[0]], ps[pi[1]]
		self := func() c14Sym {
			sy := c14Sym{NT: n}
			for _, p := range ps {
				from := p
				switch p {
				case p1:
					from = p2
				case p2:
					if r.Intn(4) != 0 { // swap; otherwise a renaming p1 := p2, p2 := p2
						from = p1
					}
				}
				sy.Args = append(sy.Args, c14Arg{Param: p, From: true, X: from, Style: 2})
			}
			r.Shuffle(len(sy.Args), func(i, j int) { sy.Args[i], sy.Args[j] = sy.Args[j], sy.Args[i] })
			return sy
		}
		var extra []c14Alt
		for k, p := range []int{p1, p2} {
			alt := c14Alt{Pred: &c14Pred{Op: 'E', P: p, V: 1}, PredText: g.Params[p].Name}
			alt.RHS = []c14Sym{{Term: 1 + (k+r.Intn(2))%(g.NT-1)}, self()}
			if r.Intn(3) == 0 {
				alt.RHS = []c14Sym{self(), {Term: 1 + r.Intn(g.NT-1)}}
			}
			extra = append(extra, alt)
		}
		g.NTs[n].Alts = append(extra, g.NTs[n].Alts...)
		g.Feat["self-reference swapping parameters"] = true
		g.Feat["pred"] = true
		for v := 0; v < 2; v++ {
			var args []c14Arg
			for _, x := range mkArgs(0, n) {
				if x.Param != p1 && x.Param != p2 {
					args = append(args, x)
				}
			}
			args = append(args, c14Arg{Param: p1, X: v, Style: r.Intn(2)}, c14Arg{Param: p2, X: 1 - v, Style: r.Intn(2)})
			in := c14Alt{RHS: []c14Sym{{Term: 1 + r.Intn(g.NT-1)}, {NT: n, Args: args}}}
			ia := g.NTs[0].Alts
			g.NTs[0].Alts = append(ia[:len(ia)-1:len(ia)-1], in, ia[len(ia)-1])
		}
	}
	// set family: named sets whose operands are terminals, `first N<args>` / `last N<args>` (explicit values, defaults)
	// and EARLIER NAMED SETS (also a named set that is just one leaf, referenced from another one); `set(…)` symbols
	// in alternatives refer to named sets or are written inline
	if cfg.sets {
		g.HasSet = true
		g.Feat["token sets"] = true
		// operands only over nonterminals that (transitively) contain no set symbol: pick the targets first, keep set symbols out of what they reach
		closureS := func(root int) map[int]bool {
			seen := map[int]bool{root: true}
			st := []int{root}
			for len(st) > 0 {
				n := st[len(st)-1]
				st = st[:len(st)-1]
				for _, a := range g.NTs[n].Alts {
					for _, sy := range a.RHS {
						if sy.Term == 0 && sy.Look == nil && sy.Set == nil && !seen[sy.NT] {
							seen[sy.NT] = true
							st = append(st, sy.NT)
						}
					}
				}
			}
			return seen
		}
		var setTargets []int
		plainS := map[int]bool{}
		for _, n := range r.Perm(nNT - nIn) {
			n += nIn
			cl := closureS(n)
			if !cl[0] && len(setTargets) < 2 {
				setTargets = append(setTargets, n)
				for k := range cl {
					plainS[k] = true
				}
			}
		}
		leaf := func(maxNamed int) c14SetLeaf {
			switch k := r.Intn(10); {
			case k < 2:
				return c14SetLeaf{Term: 1 + r.Intn(g.NT-1), Named: -1}
			case k < 5 && maxNamed > 0:
				return c14SetLeaf{Named: r.Intn(maxNamed)}
			}
			if len(setTargets) == 0 {
				return c14SetLeaf{Term: 1 + r.Intn(g.NT-1), Named: -1}
			}
			t := setTargets[r.Intn(len(setTargets))]
			x := c14SetLeaf{Op: []string{"first", "first", "last"}[r.Intn(3)], NT: t, Named: -1}
			for _, p := range g.NTs[t].Params {
				if g.Params[p].Dflt < 0 || r.Intn(3) != 0 {
					x.Args = append(x.Args, c14Arg{Param: p, X: r.Intn(2), Style: r.Intn(2)})
				}
			}
			// the same instance is also referenced from the input (sets are computed on the rules the input reaches)
			if r.Intn(8) != 0 {
				in := c14Alt{RHS: []c14Sym{{Term: 1 + r.Intn(g.NT-1)}, {NT: t, Args: append([]c14Arg(nil), x.Args...)}}}
				ia := g.NTs[0].Alts
				g.NTs[0].Alts = append(ia[:len(ia)-1:len(ia)-1], in, ia[len(ia)-1])
			}
			return x
		}
		expr := func(maxNamed int) []c14SetLeaf {
			var l []c14SetLeaf
			for k, cnt := 0, 1+r.Intn(3)/2+r.Intn(2); k < cnt; k++ {
				l = append(l, leaf(maxNamed))
			}
			return l
		}
		for k, cnt := 0, 1+r.Intn(3); k < cnt; k++ {
			if k == 0 || r.Intn(3) == 0 {
				// the whole body is ONE leaf over a nonterminal
				x := leaf(0)
				for tries := 0; x.Term > 0 && tries < 20; tries++ {
					x = leaf(0)
				}
				g.Sets = append(g.Sets, []c14SetLeaf{x})
			} else {
				g.Sets = append(g.Sets, expr(k))
			}
		}
		for n := range g.NTs {
			if plainS[n] {
				continue
			}
			for ai := range g.NTs[n].Alts {
				a := &g.NTs[n].Alts[ai]
				if len(a.RHS) == 0 || r.Intn(5) >= 3 {
					continue
				}
				var st []c14SetLeaf
				if r.Intn(3) != 0 {
					st = []c14SetLeaf{{Named: r.Intn(len(g.Sets))}}
					if r.Intn(3) == 0 {
						st = append(st, leaf(len(g.Sets)))
					}
				} else {
					st = expr(len(g.Sets))
				}
				pos := r.Intn(len(a.RHS) + 1)
				rhs := append([]c14Sym(nil), a.RHS[:pos]...)
				rhs = append(rhs, c14Sym{Set: st})
				a.RHS = append(rhs, a.RHS[pos:]...)
			}
		}
	}
	// predicate family: `(?= X<args> & !Y)` in front of / between the symbols of alternatives. Targets are templated
	// nonterminals; nothing reachable from a target gets a predicate (two strata), arguments as for any reference
	// (explicit, by name, by default).
	if cfg.pred {
		g.Pred = true
		g.Feat["lookahead predicates"] = true
		closure := func(root int) map[int]bool {
			seen := map[int]bool{root: true}
			st := []int{root}
			for len(st) > 0 {
				n := st[len(st)-1]
				st = st[:len(st)-1]
				for _, a := range g.NTs[n].Alts {
					for _, sy := range a.RHS {
						if sy.Term == 0 && sy.Look == nil && sy.Set == nil && !seen[sy.NT] {
							seen[sy.NT] = true
							st = append(st, sy.NT)
						}
					}
				}
			}
			return seen
		}
		var cands []int
		for n := nIn; n < nNT; n++ {
			cl := closure(n)
			inp := false
			for i := 0; i < nIn; i++ {
				inp = inp || cl[i]
			}
			if !inp && (len(g.NTs[n].Params) > 0 || r.Intn(4) == 0) {
				cands = append(cands, n)
			}
		}
		r.Shuffle(len(cands), func(i, j int) { cands[i], cands[j] = cands[j], cands[i] })
		if len(cands) > 2 {
			cands = cands[:1+r.Intn(2)]
		}
		plain := map[int]bool{}
		for _, t := range cands {
			for k := range closure(t) {
				plain[k] = true
			}
		}
		for n := range g.NTs {
			if plain[n] || len(cands) == 0 {
				continue
			}
			// an alternative whose body is copied from a terminal-only alternative of the target, so that the outcome
			// of the predicate decides whether it applies: `(?= X) 'p' 'x'` / `(?= !X) 'p' 'x'` for `X<T>: [T] 'p' 'x' | …`
			for _, t := range cands {
				if r.Intn(5) == 0 {
					continue
				}
				okArgs := true
				for _, p := range g.NTs[t].Params {
					same := false
					for _, q := range g.NTs[n].Params {
						same = same || g.Params[q].Name == g.Params[p].Name
					}
					okArgs = okArgs && (same || g.Params[p].Dflt >= 0)
				}
				var bodies [][]c14Sym
				for _, ta := range g.NTs[t].Alts {
					tonly := len(ta.RHS) > 0
					for _, sy := range ta.RHS {
						tonly = tonly && sy.Term > 0
					}
					if tonly && (ta.Pred != nil || r.Intn(3) == 0) {
						bodies = append(bodies, ta.RHS)
					}
				}
				if !okArgs || len(bodies) == 0 {
					continue
				}
				body := bodies[r.Intn(len(bodies))]
				alt := c14Alt{RHS: []c14Sym{{Look: []c14LookRef{{Neg: r.Intn(3) == 0, NT: t}}}}}
				alt.RHS = append(alt.RHS, body...)
				if r.Intn(3) == 0 {
					alt.RHS = append(alt.RHS, c14Sym{Term: 1 + r.Intn(g.NT-1)})
				}
				al := g.NTs[n].Alts
				g.NTs[n].Alts = append(al[:len(al)-1:len(al)-1], alt, al[len(al)-1])
				g.Feat["predicate on a copied body"] = true
				// the enclosing nonterminal is entered with BOTH values of a parameter it shares (by name) with the target
				if n >= nIn && !plain[0] && r.Intn(5) != 0 {
					for _, p := range g.NTs[t].Params {
						for _, q := range g.NTs[n].Params {
							if g.Params[q].Name != g.Params[p].Name {
								continue
							}
							for v := 0; v < 2; v++ {
								var args []c14Arg
								for _, x := range mkArgs(0, n) {
									if x.Param != q {
										args = append(args, x)
									}
								}
								args = append(args, c14Arg{Param: q, X: v, Style: r.Intn(2)})
								in := c14Alt{RHS: []c14Sym{{Term: 1 + r.Intn(g.NT-1)}, {NT: n, Args: args}}}
								ia := g.NTs[0].Alts
								g.NTs[0].Alts = append(ia[:len(ia)-1:len(ia)-1], in, ia[len(ia)-1])
							}
						}
					}
				}
			}
			for ai := range g.NTs[n].Alts {
				a := &g.NTs[n].Alts[ai]
				if len(a.RHS) == 0 || r.Intn(5) >= 3 {
					continue
				}
				// targets all of whose parameters can be left out here (same-named parameter of this nonterminal or a default)
				var okT []int
				for _, t := range cands {
					ok := true
					for _, p := range g.NTs[t].Params {
						same := false
						for _, q := range g.NTs[n].Params {
							same = same || g.Params[q].Name == g.Params[p].Name
						}
						ok = ok && (same || g.Params[p].Dflt >= 0)
					}
					if ok || bad() {
						okT = append(okT, t)
					}
				}
				if len(okT) == 0 {
					continue
				}
				var look []c14LookRef
				for k, cnt := 0, 1+r.Intn(4)/3; k < cnt; k++ {
					t := okT[r.Intn(len(okT))]
					// `lookahead_predicate: '!'? symref<~Args>`: no explicit arguments, everything by name / by default
					look = append(look, c14LookRef{Neg: r.Intn(3) == 0, NT: t})
				}
				pos := 0
				if r.Intn(3) == 0 {
					pos = r.Intn(len(a.RHS))
				}
				rhs := append([]c14Sym(nil), a.RHS[:pos]...)
				rhs = append(rhs, c14Sym{Look: look})
				a.RHS = append(rhs, a.RHS[pos:]...)
			}
		}
	}
	// lookahead arguments: targets that can use the flag (directly or through their first symbols)
	if nLA > 0 {
		g.Feat["lookahead"] = true
		for _, l := range las {
			can := make([]bool, nNT)
			for n := range can {
				can[n] = c14Has(usesLA[n], l)
			}
			for ch := true; ch; {
				ch = false
				for n, nt := range g.NTs {
					if can[n] || n < nIn {
						continue
					}
					for _, a := range nt.Alts {
						if len(a.RHS) > 0 && a.RHS[0].Term == 0 && can[a.RHS[0].NT] {
							can[n] = true
							ch = true
						}
					}
				}
			}
			placed := 0
			for n := range g.NTs {
				for ai := range g.NTs[n].Alts {
					for k := range g.NTs[n].Alts[ai].RHS {
						s := &g.NTs[n].Alts[ai].RHS[k]
						if s.Term > 0 {
							continue
						}
						ok := can[s.NT] && s.NT >= nIn
						p := 0.0
						switch {
						case ok && placed == 0:
							p = 0.7
						case ok:
							p = 0.3
						default:
							p = cfg.bad
						}
						if r.Float64() < p {
							placed++
							switch r.Intn(4) {
							case 0:
								s.Args = append(s.Args, c14Arg{Param: l, X: r.Intn(2), Style: 1})
							case 1:
								// from a parameter of the caller (or the flag itself when the caller looks at it)
								var from []int
								from = append(from, g.NTs[n].Params...)
								from = append(from, usesLA[n]...)
								if len(from) > 0 {
									s.Args = append(s.Args, c14Arg{Param: l, From: true, X: from[r.Intn(len(from))], Style: 2})
									break
								}
								fallthrough
							default:
								s.Args = append(s.Args, c14Arg{Param: l, X: map[bool]int{true: 1, false: 0}[r.Intn(4) != 0], Style: 0})
							}
							r.Shuffle(len(s.Args), func(i, j int) { s.Args[i], s.Args[j] = s.Args[j], s.Args[i] })
						}
					}
				}
			}
		}
		// a declared parameter may also be fed from a lookahead flag the caller looks at
		for n := range g.NTs {
			if len(usesLA[n]) == 0 {
				continue
			}
			for ai := range g.NTs[n].Alts {
				for k := range g.NTs[n].Alts[ai].RHS {
					s := &g.NTs[n].Alts[ai].RHS[k]
					for x := range s.Args {
						if s.Args[x].From && s.Args[x].Style == 2 && !g.Params[s.Args[x].Param].LA && r.Intn(4) == 0 {
							s.Args[x].X = usesLA[n][r.Intn(len(usesLA[n]))]
						}
					}
				}
			}
		}
	}
	// decorations that wrap alternatives (2 of 5 grammars): %prec, arrows, state markers, combined with predicates
	if r.Intn(5) < 2 {
		g.Feat["decorated alternatives"] = true
		var ts []string
		for t := 1; t < g.NT; t++ {
			ts = append(ts, "'"+c14TermName(t)+"'")
		}
		cut := r.Intn(len(ts))
		assoc := []string{"left", "right", "nonassoc"}
		if cut > 0 {
			g.Assoc += fmt.Sprintf("%%%s %s;\n", assoc[r.Intn(3)], strings.Join(ts[:cut], " "))
		}
		g.Assoc += fmt.Sprintf("%%%s %s;\n", assoc[r.Intn(3)], strings.Join(ts[cut:], " "))
		nm := 0
		for n := range g.NTs {
			for ai := range g.NTs[n].Alts {
				a := &g.NTs[n].Alts[ai]
				pp := 4
				if a.Pred != nil {
					pp = 2 // conditional alternatives get them more often
				}
				if r.Intn(pp) == 0 {
					a.Prec = 1 + r.Intn(g.NT-1)
					g.Feat["%prec"] = true
					if a.Pred != nil {
						g.Feat["%prec on a conditional alternative"] = true
					}
				}
				if r.Intn(pp) == 0 {
					a.Arrow = fmt.Sprintf("R%dx%d", n, ai)
					g.Feat["arrow"] = true
				}
				if len(a.RHS) > 0 && r.Intn(pp+1) == 0 {
					a.Markers = map[int]string{r.Intn(len(a.RHS) + 1): fmt.Sprintf("m%d", nm%3)}
					nm++
					g.Feat["state marker"] = true
				}
			}
		}
	}
	return g
}

// c14GenLAFam: the lookahead-FLAG family. Two or three lookahead flags; leaf nonterminals look at subsets of them in
// predicates of terminal-only alternatives; middle nonterminals have several alternatives that START with references
// pinning DIFFERENT flags (`C<~V> … | D<+W> | E`) in random order; a top nonterminal passes its context through; the
// input supplies every flag to every user somewhere (`'t' D<+V>`) and enters the chain with different pins.
func c14GenLAFam(r *rand.Rand) *c14Gram {
	g := &c14Gram{Feat: map[string]bool{"lookahead": true, "lookahead-flag family": true, "pred": true}}
	g.NT = 4 + r.Intn(2)
	nF := 2 + r.Intn(4)/3
	for i := 0; i < nF; i++ {
		d := -1
		if r.Intn(3) == 0 {
			d = 0
		}
		g.Params = append(g.Params, c14Param{Name: string(rune('V' + i)), Dflt: d, LA: true, Global: true})
	}
	term := func() c14Sym { return c14Sym{Term: 1 + r.Intn(g.NT-1)} }
	pin := func(fs []int, p float64) []c14Arg {
		var args []c14Arg
		for _, f := range fs {
			if r.Float64() < p {
				args = append(args, c14Arg{Param: f, X: r.Intn(2), Style: r.Intn(2)})
			}
		}
		return args
	}
	nLeaf := 2 + r.Intn(2)
	nMid := 1 + r.Intn(2)
	// indices: 0 = input, 1 = top, 2.. = middles, then leaves
	mid0, leaf0 := 2, 2+nMid
	nNT := leaf0 + nLeaf
	g.NTs = make([]c14NT, nNT)
	uses := make([][]int, nNT) // flags a nonterminal accepts (own predicates + unpinned flags of its leading references)
	for l := 0; l < nLeaf; l++ {
		n := leaf0 + l
		nt := c14NT{Name: fmt.Sprintf("N%d", n)}
		for f := 0; f < nF; f++ {
			if r.Intn(3) != 0 {
				uses[n] = append(uses[n], f)
				pr := &c14Pred{Op: 'E', P: f, V: 1}
				txt := g.Params[f].Name
				if r.Intn(4) == 0 {
					pr = &c14Pred{Op: 'N', Sub: []*c14Pred{pr}}
					txt = "!" + txt
				}
				alt := c14Alt{Pred: pr, PredText: txt, RHS: []c14Sym{term()}}
				if r.Intn(3) == 0 {
					alt.RHS = append(alt.RHS, term())
				}
				nt.Alts = append(nt.Alts, alt)
			}
		}
		nt.Alts = append(nt.Alts, c14Alt{RHS: []c14Sym{term()}})
		g.NTs[n] = nt
	}
	union := func(a, b []int) []int {
		for _, x := range b {
			if !c14Has(a, x) {
				a = append(a, x)
			}
		}
		return a
	}
	unpinned := func(fs []int, args []c14Arg) []int { // what flows up through a leading reference (step 1 masks the pinned flags)
		var out []int
		for _, f := range fs {
			pinned := false
			for _, a := range args {
				pinned = pinned || a.Param == f
			}
			if !pinned {
				out = append(out, f)
			}
		}
		return out
	}
	craftV := -1 // the flag pinned first in the crafted pair of the middle nonterminal right under the top
	for m := nMid - 1; m >= 0; m-- {
		n := mid0 + m
		nt := c14NT{Name: fmt.Sprintf("N%d", n)}
		craft := r.Intn(5) < 3
		na := 2 + r.Intn(2)
		if craft {
			na = r.Intn(2)
		}
		for a := 0; a < na; a++ {
			t := leaf0 + r.Intn(nLeaf)
			if m+1 < nMid && r.Intn(3) == 0 {
				t = mid0 + m + 1
			}
			lead := c14Sym{NT: t, Args: pin(uses[t], 0.45)}
			alt := c14Alt{RHS: []c14Sym{lead}}
			if r.Intn(2) == 0 {
				alt.RHS = append(alt.RHS, term())
			}
			if r.Intn(4) == 0 { // a second, non-leading reference
				t2 := leaf0 + r.Intn(nLeaf)
				alt.RHS = append(alt.RHS, c14Sym{NT: t2, Args: pin(uses[t2], 0.3)})
			}
			nt.Alts = append(nt.Alts, alt)
			uses[n] = union(uses[n], unpinned(uses[t], lead.Args))
		}
		// two leading references that pin DIFFERENT flags, the second target also accepting the first flag from its
		// context: `C<~V> … | D<+W>` (both orders)
		if craft {
			v := r.Intn(nF)
			wf := (v + 1 + r.Intn(nF-1)) % nF
			var t1s, t2s []int
			for t := leaf0; t < nNT; t++ {
				if c14Has(uses[t], v) {
					t1s = append(t1s, t)
					if c14Has(uses[t], wf) {
						t2s = append(t2s, t)
					}
				}
			}
			if len(t1s) > 0 && len(t2s) > 0 {
				l1 := c14Sym{NT: t1s[r.Intn(len(t1s))], Args: []c14Arg{{Param: v, X: r.Intn(2), Style: r.Intn(2)}}}
				l2 := c14Sym{NT: t2s[r.Intn(len(t2s))], Args: []c14Arg{{Param: wf, X: r.Intn(2), Style: r.Intn(2)}}}
				a1 := c14Alt{RHS: []c14Sym{l1, term()}}
				a2 := c14Alt{RHS: []c14Sym{l2}}
				if r.Intn(2) == 0 {
					a2.RHS = append(a2.RHS, term())
				}
				pair := []c14Alt{a1, a2}
				if r.Intn(4) == 0 {
					pair = []c14Alt{a2, a1}
				}
				if r.Intn(2) == 0 {
					nt.Alts = append(pair, nt.Alts...)
				} else {
					nt.Alts = append(nt.Alts, pair...)
				}
				uses[n] = union(uses[n], unpinned(uses[l1.NT], l1.Args))
				uses[n] = union(uses[n], unpinned(uses[l2.NT], l2.Args))
				if m == 0 {
					craftV = v
				}
			}
		}
		g.NTs[n] = nt
	}
	// top
	{
		nt := c14NT{Name: "N1"}
		for m := 0; m < nMid; m++ {
			if m == 0 || r.Intn(2) == 0 {
				lead := c14Sym{NT: mid0 + m, Args: pin(uses[mid0+m], 0.15)}
				if m == 0 && craftV >= 0 && r.Intn(10) != 0 {
					lead.Args = nil
				}
				nt.Alts = append(nt.Alts, c14Alt{RHS: []c14Sym{lead}})
				uses[1] = union(uses[1], unpinned(uses[mid0+m], lead.Args))
			}
		}
		for f := 0; f < nF; f++ { // the top looks at flags itself: it accepts them whatever its leading references pin
			if r.Intn(5) < 3 || (f == craftV && r.Intn(10) != 0) {
				uses[1] = union(uses[1], []int{f})
				nt.Alts = append(nt.Alts, c14Alt{Pred: &c14Pred{Op: 'E', P: f, V: 1}, PredText: g.Params[f].Name, RHS: []c14Sym{term()}})
			}
		}
		g.NTs[1] = nt
	}
	// input
	{
		nt := c14NT{Name: "N0"}
		for a, na := 0, 2+r.Intn(2); a < na; a++ {
			nt.Alts = append(nt.Alts, c14Alt{RHS: []c14Sym{term(), {NT: 1, Args: pin(uses[1], 0.6)}}})
		}
		if craftV >= 0 && c14Has(uses[1], craftV) && r.Intn(10) != 0 {
			nt.Alts = append(nt.Alts, c14Alt{RHS: []c14Sym{term(), {NT: 1, Args: []c14Arg{{Param: craftV, X: 1, Style: r.Intn(2)}}}}})
		}
		for n := 2; n < nNT; n++ {
			for _, f := range uses[n] {
				if n >= leaf0 && r.Intn(20) != 0 || n < leaf0 && r.Intn(3) == 0 {
					nt.Alts = append(nt.Alts, c14Alt{RHS: []c14Sym{term(), {NT: n, Args: []c14Arg{{Param: f, X: map[bool]int{true: 1, false: 0}[r.Intn(4) != 0]}}}}})
				}
			}
		}
		nt.Alts = append(nt.Alts, c14Alt{RHS: []c14Sym{term()}})
		g.NTs[0] = nt
	}
	g.Inputs = []c14In{{NT: 0, Eoi: true}}
	return g
}

// c14GenShareFam: a templated nonterminal with THREE declared parameters is referenced several times WITHOUT an
// argument list from one nonterminal (all arguments by name or by default), once as the first symbol and again later,
// while a lookahead flag flows through the first symbol only: `S<A, B, C>: T '+' T;  T<A, B, C>: [!L && A] 'a' | [L] 'b' | …`.
func c14GenShareFam(r *rand.Rand) *c14Gram {
	g := &c14Gram{NT: 5, Feat: map[string]bool{"lookahead": true, "shared implicit arguments family": true, "pred": true, "propagated": true}}
	for i := 0; i < 3; i++ {
		g.Params = append(g.Params, c14Param{Name: string(rune('A' + i)), Dflt: r.Intn(3) - 1, Global: true})
	}
	nF := 1 + r.Intn(4)/3
	for i := 0; i < nF; i++ {
		g.Params = append(g.Params, c14Param{Name: string(rune('L' + i)), Dflt: -1, LA: true, Global: true})
	}
	term := func() c14Sym { return c14Sym{Term: 1 + r.Intn(g.NT-1)} }
	// T
	t := c14NT{Name: "N2", Params: r.Perm(3)}
	for k, cnt := 0, 3+r.Intn(2); k < cnt; k++ {
		av := []int{0, 1, 2, 3}
		if nF > 1 {
			av = append(av, 4)
		}
		if k == 0 {
			av = []int{3}
		}
		pr, txt := c14GenPred(r, g, av)
		alt := c14Alt{Pred: pr, PredText: txt, RHS: []c14Sym{term()}}
		if r.Intn(3) == 0 {
			alt.RHS = append(alt.RHS, term())
		}
		t.Alts = append(t.Alts, alt)
	}
	t.Alts = append(t.Alts, c14Alt{RHS: []c14Sym{term()}})
	// S: declares the parameters of T that have no default (and some of the others)
	s := c14NT{Name: "N1"}
	for _, p := range r.Perm(3) {
		if g.Params[p].Dflt < 0 || r.Intn(3) != 0 {
			s.Params = append(s.Params, p)
		}
	}
	ref := func() c14Sym { return c14Sym{NT: 2} }
	a1 := c14Alt{RHS: []c14Sym{ref(), term(), ref()}}
	if r.Intn(3) == 0 {
		a1.RHS = append(a1.RHS, term(), ref())
	}
	s.Alts = append(s.Alts, a1)
	if r.Intn(2) == 0 {
		s.Alts = append(s.Alts, c14Alt{RHS: []c14Sym{term(), ref()}})
	}
	if r.Intn(3) == 0 {
		s.Alts = append(s.Alts, c14Alt{RHS: []c14Sym{ref()}})
	}
	// input
	in := c14NT{Name: "N0"}
	for k, cnt := 0, 2+r.Intn(2); k < cnt; k++ {
		sy := c14Sym{NT: 1}
		for _, p := range s.Params {
			sy.Args = append(sy.Args, c14Arg{Param: p, X: r.Intn(2), Style: r.Intn(2)})
		}
		for f := 0; f < nF; f++ {
			if k == 0 && f == 0 {
				sy.Args = append(sy.Args, c14Arg{Param: 3, X: 1, Style: r.Intn(2)})
			} else if r.Intn(2) == 0 {
				sy.Args = append(sy.Args, c14Arg{Param: 3 + f, X: r.Intn(2), Style: r.Intn(2)})
			}
		}
		alt := c14Alt{RHS: []c14Sym{sy}}
		if r.Intn(2) == 0 {
			alt.RHS = []c14Sym{term(), sy}
		}
		in.Alts = append(in.Alts, alt)
	}
	if nF > 1 { // the second flag has to reach T somewhere
		in.Alts = append(in.Alts, c14Alt{RHS: []c14Sym{term(), {NT: 2, Args: []c14Arg{{Param: 0, X: 1}, {Param: 1, X: 0}, {Param: 2, X: 1}, {Param: 4, X: 1}}}}})
	}
	in.Alts = append(in.Alts, c14Alt{RHS: []c14Sym{term()}})
	g.NTs = []c14NT{in, s, t}
	g.Inputs = []c14In{{NT: 0, Eoi: true}}
	return g
}

// ---- the fixed witness of the finding ----

const c14DeadToken = "[C14-dead-instance-epsilon]"

func c14DeadWitness() *c14Gram {
	// %flag V; input: 'a' B<+V> | 'b' B<~V>; B<V>: [V] 'c';
	g := &c14Gram{NT: 4, Feat: map[string]bool{}}
	g.Params = []c14Param{{Name: "V", Dflt: -1, Global: true}}
	g.NTs = []c14NT{
		{Name: "N0", Alts: []c14Alt{
			{RHS: []c14Sym{{Term: 1}, {NT: 1, Args: []c14Arg{{Param: 0, X: 1}}}}},
			{RHS: []c14Sym{{Term: 2}, {NT: 1, Args: []c14Arg{{Param: 0, X: 0}}}}},
		}},
		{Name: "B", Params: []int{0}, Alts: []c14Alt{
			{Pred: &c14Pred{Op: 'E', P: 0, V: 1}, PredText: "V", RHS: []c14Sym{{Term: 3}}},
		}},
	}
	g.Inputs = []c14In{{NT: 0, Eoi: true}}
	return g
}

const c14AliasToken = "[C14-la-required-alias]"

// c14AliasWitness: `%flag A = false; %lookahead flag L; %lookahead flag M;
// N0: N2<+L> | 'c' N3<~M>; N2: [L] 'a' | 'b'; N3: [!L] 'a' | [M] 'b';` — N3 looks at L but never receives it.
func c14AliasWitness() *c14Gram {
	g := &c14Gram{NT: 4, Feat: map[string]bool{}}
	g.Params = []c14Param{{Name: "A", Dflt: 0, Global: true}, {Name: "L", Dflt: -1, LA: true, Global: true}, {Name: "M", Dflt: -1, LA: true, Global: true}}
	l := &c14Pred{Op: 'E', P: 1, V: 1}
	g.NTs = []c14NT{
		{Name: "N0", Alts: []c14Alt{
			{RHS: []c14Sym{{NT: 2 - 1, Args: []c14Arg{{Param: 1, X: 1}}}}},
			{RHS: []c14Sym{{Term: 3}, {NT: 2, Args: []c14Arg{{Param: 2, X: 0}}}}},
		}},
		{Name: "N2", Alts: []c14Alt{
			{Pred: l, PredText: "L", RHS: []c14Sym{{Term: 1}}},
			{RHS: []c14Sym{{Term: 2}}},
		}},
		{Name: "N3", Alts: []c14Alt{
			{Pred: &c14Pred{Op: 'N', Sub: []*c14Pred{l}}, PredText: "!L", RHS: []c14Sym{{Term: 1}}},
			{Pred: &c14Pred{Op: 'E', P: 2, V: 1}, PredText: "M", RHS: []c14Sym{{Term: 2}}},
		}},
	}
	g.Inputs = []c14In{{NT: 0, Eoi: true}}
	return g
}

const c14ShortToken = "[C14-la-entry-shortcircuit]"

// c14ShortWitness: `%lookahead flag L; N0: N<+L> | 'd' U<~L>; N: T 'c' | [L] 'd' 'd'; T: X 'c'; X: %empty | U; U: [L] 'a' | 'b';`
// With `X: U | %empty` the compiler reports "cannot propagate lookahead flag L through nonterminal X"; in this
// order entryPoints stops scanning X at the empty alternative, the grammar compiles and L silently does not reach U.
func c14ShortWitness() *c14Gram {
	g := &c14Gram{NT: 5, Feat: map[string]bool{}}
	g.Params = []c14Param{{Name: "L", Dflt: -1, LA: true, Global: true}}
	l := &c14Pred{Op: 'E', P: 0, V: 1}
	g.NTs = []c14NT{
		{Name: "N0", Alts: []c14Alt{
			{RHS: []c14Sym{{NT: 1, Args: []c14Arg{{Param: 0, X: 1}}}}},
			{RHS: []c14Sym{{Term: 4}, {NT: 4, Args: []c14Arg{{Param: 0, X: 0}}}}},
		}},
		{Name: "N", Alts: []c14Alt{
			{RHS: []c14Sym{{NT: 2}, {Term: 3}}},
			{Pred: l, PredText: "L", RHS: []c14Sym{{Term: 4}, {Term: 4}}},
		}},
		{Name: "T", Alts: []c14Alt{{RHS: []c14Sym{{NT: 3}, {Term: 3}}}}},
		{Name: "X", Alts: []c14Alt{{}, {RHS: []c14Sym{{NT: 4}}}}},
		{Name: "U", Alts: []c14Alt{
			{Pred: l, PredText: "L", RHS: []c14Sym{{Term: 1}}},
			{RHS: []c14Sym{{Term: 2}}},
		}},
	}
	g.Inputs = []c14In{{NT: 0, Eoi: true}}
	return g
}

// c14ShortClass: the grammar has lookahead flags and some nonterminal has an alternative that starts with a
// nonterminal reference AFTER an empty alternative (entryPoints never looks at it).
func c14ShortClass(g *c14Gram) bool {
	la := false
	for _, p := range g.Params {
		la = la || p.LA
	}
	if !la {
		return false
	}
	for _, nt := range g.NTs {
		empty := false
		for _, a := range nt.Alts {
			if len(a.RHS) == 0 {
				empty = true
			} else if empty && a.RHS[0].Term == 0 {
				return true
			}
		}
	}
	return false
}

// c14SplitLA separates the optional `la=…` token from the six protocol tokens.
func c14SplitLA(p string) (string, string) {
	f := strings.Fields(p)
	if len(f) == 7 && strings.HasPrefix(f[6], "la=") {
		return strings.Join(f[:6], " "), strings.TrimPrefix(f[6], "la=")
	}
	return p, ""
}

func c14ParseProto(p string) (*Gram, bool) {
	p, _ = c14SplitLA(p)
	f := strings.Fields(p)
	if len(f) != 6 {
		return nil, false
	}
	g := &Gram{}
	g.NT, _ = strconv.Atoi(f[0])
	g.NN, _ = strconv.Atoi(f[1])
	if f[2] != "_" {
		for _, rs := range strings.Split(f[2], ";") {
			lr := strings.SplitN(rs, ":", 2)
			if len(lr) != 2 {
				return nil, false
			}
			var r GRule
			r.LHS, _ = strconv.Atoi(lr[0])
			if lr[1] != "-" {
				for _, s := range strings.Split(lr[1], ",") {
					v, _ := strconv.Atoi(s)
					r.RHS = append(r.RHS, v)
				}
			}
			g.Rules = append(g.Rules, r)
		}
	}
	for _, is := range strings.Split(f[3], ";") {
		lr := strings.SplitN(is, ":", 2)
		if len(lr) != 2 {
			return nil, false
		}
		var in GInput
		in.Sym, _ = strconv.Atoi(lr[0])
		in.Eoi = lr[1] == "1"
		g.Inputs = append(g.Inputs, in)
	}
	return g, true
}

func c14WordInts(w string) []int {
	out := make([]int, len(w))
	for i := range w {
		out[i] = int(w[i] - '0')
	}
	return out
}

// c14Semantic compares the template semantics with the real rules on every string up to length L.
// Returns the first disagreement ("" if none).
func c14Semantic(g *c14Gram, s *c14Sem, real *Gram, L int) (string, string) {
	if len(real.Inputs) < len(g.Inputs) {
		return "inputs", fmt.Sprintf("%d inputs declared, %d instantiated", len(g.Inputs), len(real.Inputs))
	}
	ls := s.langs(L)
	for k := range g.Inputs {
		want := ls[s.index[fmt.Sprint(g.Inputs[k].NT, make([]int, len(g.Params)))]]
		var bad, why string
		real.AllStrings(L, func(w []int) bool {
			var sb strings.Builder
			for _, t := range w {
				sb.WriteByte(byte('0' + t))
			}
			ws := sb.String()
			got := real.Derives(real.Inputs[k].Sym, w)
			if got != want[ws] {
				bad = ws
				if want[ws] {
					why = "is in the template language at the default valuation but is NOT derivable in the instantiated rules"
				} else {
					why = "is derivable in the instantiated rules but is NOT in the template language at the default valuation"
				}
				return false
			}
			return true
		})
		if why != "" {
			txt := ""
			for _, t := range c14WordInts(bad) {
				txt += c14TermName(t)
			}
			if txt == "" {
				txt = "<empty string>"
			}
			return txt, fmt.Sprintf("input %s: `%s` %s", g.NTs[g.Inputs[k].NT].Name, txt, why)
		}
	}
	return "", ""
}

func c14Hash(s string) string {
	h := fnv.New64a()
	h.Write([]byte(s))
	return fmt.Sprintf("%x", h.Sum64())
}

func c14OneLine(tm string) string {
	i := strings.Index(tm, "::parser")
	if i >= 0 {
		tm = tm[i+len("::parser"):]
	}
	return strings.Join(strings.Fields(tm), " ")
}

func c14(c *Ctx) {
	c.Rule = "templated .tm grammars generated at index level and rendered as text: 2-4 terminals, 2-6 nonterminals (1-2 inputs, with and without no-eoi), " +
		"0-2 global %flag parameters (no default / = true / = false), 0-2 %lookahead flags, 0-2 inline `flag X [= v]` parameters per nonterminal with names shared " +
		"between nonterminals (propagation by name), 1-3 alternatives of 0-3 symbols (the last one a predicate-free terminal-only base case in 4 of 5 nonterminals so that most " +
		"nonterminals are productive; nonterminals that look at a lookahead flag mostly get a terminal-only alternative guarded by the flag), predicates `P`, `!P`, `P == \"v\"`, `P != \"v\"` (v in true/false/x) combined with " +
		"&& and || (3/5 of the alternatives of parametrized nonterminals), references with arguments `+P`, `~P`, `P: true|false`, `P: Q`, `P`, omitted (propagated by name " +
		"or defaulted; in 1 of 5 grammars most nonterminals declare their own inline `flag X = v`, references between them mostly omit it and `[X]`/`[!X]` guard terminal-only " +
		"alternatives), in 2 of 5 grammars alternatives (conditional ones more often) carry `%prec 't'` (with %left/%right/%nonassoc declarations), `-> Node` and state markers " +
		"`.m` in any combination (text only: they must not change the rules), lookahead arguments placed preferably where the flag can be used; in 9 of 10 grammars every nonterminal is made reachable from an input; " +
		"2 grammars in 10 come from the lookahead-FLAG family (2-3 flags, leaves looking at subsets of them, middle nonterminals whose alternatives start with references pinning " +
		"different flags `C<~V> … | D<+W> | E` in random order, every flag supplied to its users somewhere); 1 in 10 from the family of shared implicit arguments (a nonterminal with three declared parameters referenced several times without an argument list from one nonterminal, first symbol and later, one lookahead flag flowing through); 1 in 10 from the token-set family (`%generate` named sets whose operands are terminals, `first N<args>` / `last N<args>` and earlier named sets, also a named set that is one leaf; `set(…)` symbols in alternatives; no lookahead flags; semantic comparison only: the sets computed on the templates vs the instantiated `setof_…` nonterminals); in 2 of 5 of the general grammars a nonterminal with two or more parameters gets guarded recursive self-references that swap or rename its own parameters and is entered with different values; 2 in 10 from the lookahead-PREDICATE family (`(?= X<args> & !Y)` with templated " +
		"targets, arguments explicit / by name / by default, no lookahead flags; compared semantically only, with a position-based recogniser that evaluates each predicate on the template of " +
		"its target resp. on the instantiated target of the compiled lookahead nonterminal, strings up to length 4-5); a small fraction of deliberately invalid choices (undeclared parameter in a " +
		"predicate, parametrized input, uninitialized parameter, unusable lookahead argument, nullable nonterminal on a lookahead path). Each grammar is compiled by the real " +
		"compiler.Compile in a child process (answers ok+rules / err / fatal). (1) `inst`: status and instantiated rules vs the Lean mirror pipeline, up to nonterminal " +
		"naming and block order, and the mirror's lookahead-propagation certificate (hypothesis of C14_propagate_args_sound_partial) must hold. (2) for every ok grammar every terminal string up to length 5 (6 with two terminals) is tested: template semantics at the default valuation " +
		"(Go oracle c14Sem, also compared with the Lean executable semantics `sem`) vs Gram.Derives on the REAL rules. non-trivial = ok grammar with a predicate that is " +
		"false for some reachable instance or a nonterminal instantiated at least twice; distinct by grammar text."

	w := &c14Worker{}
	defer w.stop()

	// ---- probes on the fixed witnesses of the three findings. While the real code misbehaves on a witness, ONE
	// violation carrying the finding's token is reported (./check prints KNOWN-FINDING once it is listed) and the
	// corresponding input class is treated as described in c.Rule; once a probe passes, the class is included fully.
	probe := func(g *c14Gram, name string) (string, *Gram) {
		ans := w.call(g.TM(name))
		if strings.HasPrefix(ans, "ok ") {
			if real, ok := c14ParseProto(strings.TrimPrefix(ans, "ok ")); ok && len(real.Inputs) > 0 {
				return ans, real
			}
		}
		return ans, nil
	}
	dg, ag, sg := c14DeadWitness(), c14AliasWitness(), c14ShortWitness()
	dAns, dReal := probe(dg, "c14probe")
	aAns, _ := probe(ag, "c14alias")
	sAns, sReal := probe(sg, "c14short")
	deadDefect := dReal != nil && dReal.Derives(dReal.Inputs[0].Sym, []int{2})          // accepts "b"
	aliasDefect := !strings.HasPrefix(aAns, "err")                                      // must be rejected: "lookahead flag L is never provided"
	shortDefect := sReal != nil && !sReal.Derives(sReal.Inputs[0].Sym, []int{1, 3, 3}) // compiles, and rejects "acc"
	c.Extra["dead_instance_probe_failed"] = deadDefect
	c.Extra["la_required_alias_probe_failed"] = aliasDefect
	c.Extra["la_entry_shortcircuit_probe_failed"] = shortDefect
	// which mirrored defects the Lean model has to reproduce
	quirks := map[bool]string{true: "A", false: "-"}[aliasDefect] + map[bool]string{true: "S", false: "-"}[shortDefect]
	c.Extra["model_quirks"] = quirks
	ansTail := func(ans string) string {
		switch {
		case ans == "fatal":
			return "fatal"
		case strings.HasPrefix(ans, "err"):
			return "err"
		case strings.HasPrefix(ans, "ok "):
			return strings.TrimPrefix(ans, "ok ")
		}
		return ans
	}
	c.Case("inst "+quirks+" "+dg.Proto()+" :: "+ansTail(dAns), "match", "")
	c.Case("inst "+quirks+" "+ag.Proto()+" :: "+ansTail(aAns), "match", "")
	if shortDefect {
		c.Case("instq "+quirks+" "+sg.Proto()+" :: "+ansTail(sAns), "match", "")
	} else {
		c.Case("inst "+quirks+" "+sg.Proto()+" :: "+ansTail(sAns), "match", "")
	}
	if deadDefect {
		c.Notes = append(c.Notes, "probe FAILED on the real compiler: `"+c14OneLine(dg.TM("c14probe"))+"` accepts `b` (B with V=false has no enabled alternative "+
			"and is instantiated as an EMPTY rule instead of having no rule) "+c14DeadToken)
		c.Rule += " AVOIDED CLASS (finding " + c14DeadToken + ", probe failed): grammars in which some reachable instance has NO enabled alternative are still compared " +
			"structurally (the mirror reproduces the empty rule) but are excluded from the semantic comparison while the probe fails."
		c.Violate(c14DeadToken+" an instance without enabled alternatives is instantiated as an EMPTY rule (doExpr: Kind = Empty) and derives the empty string: "+
			"input N0: `b` is derivable in the instantiated rules but is NOT in the template language at the default valuation",
			c14DeadToken+" "+c14OneLine(dg.TM("c14probe"))+" :: b")
	}
	if aliasDefect {
		c.Notes = append(c.Notes, "probe FAILED on the real compiler: `"+c14OneLine(ag.TM("c14alias"))+"` is answered `"+ansTail(aAns)+"` instead of the error "+
			"\"lookahead flag L is never provided\": PropagateLookaheads keeps every nonterminal's requiredFlags as a slice of ONE reuse buffer that later "+
			"BitSet.Slice calls overwrite, so step 3 checks clobbered data; Instantiate then dies in log.Fatal(\"grammar inconsistency on TakeFrom\") "+c14AliasToken)
		c.Rule += " MIRRORED DEFECT (finding " + c14AliasToken + ", probe failed): PropagateLookaheads' `never provided` check reads an aliased buffer; such grammars " +
			"end in err/ok/log.Fatal exactly as the model (Quirks.alias) predicts and stay in the stream."
		c.Violate(c14AliasToken+" PropagateLookaheads does not report `lookahead flag L is never provided` (requiredFlags aliases the reuse buffer); "+
			"the compiler then exits in log.Fatal(\"grammar inconsistency on TakeFrom\"): answer `"+ansTail(aAns)+"`, expected an error",
			c14AliasToken+" "+c14OneLine(ag.TM("c14alias")))
	}
	if shortDefect {
		c.Notes = append(c.Notes, "probe FAILED on the real compiler: `"+c14OneLine(sg.TM("c14short"))+"` compiles and rejects `acc` (with `X : U | %empty` it is "+
			"rejected with \"cannot propagate lookahead flag L through nonterminal X\"): entryPoints' `ret = ret && entryPoints(c)` stops at the first empty "+
			"alternative, later alternatives are never scanned, the flag silently does not reach U "+c14ShortToken)
		c.Rule += " AVOIDED CLASS (finding " + c14ShortToken + ", probe failed): grammars with lookahead flags in which an alternative starting with a nonterminal " +
			"comes after an empty alternative of the same nonterminal are compared structurally only (`instq`: the mirror (Quirks.short) reproduces the scan order; " +
			"no certificate, no semantic comparison) while the probe fails."
		c.Violate(c14ShortToken+" a lookahead flag is silently dropped behind an empty alternative (entryPoints: `ret = ret && entryPoints(c)`): "+
			"input N0: `acc` is in the template language at the default valuation but is NOT derivable in the instantiated rules; with `X : U | %empty` the grammar is rejected",
			c14ShortToken+" "+c14OneLine(sg.TM("c14short"))+" :: acc")
	}

	n := c.N(500, 8000)
	for i := 0; i < n; i++ {
		cfg := c14Cfg{bad: 0.01}
		if i%7 == 3 {
			cfg.bad = 0.06
		}
		var g *c14Gram
		switch {
		case i%10 == 7 || i%10 == 4:
			g = c14GenLAFam(c.Rng)
		case i%10 == 2 || i%10 == 8:
			cfg.pred = true
			g = c14Gen(c.Rng, cfg)
		case i%10 == 5:
			g = c14GenShareFam(c.Rng)
		case i%10 == 9:
			cfg.sets = true
			g = c14Gen(c.Rng, cfg)
		default:
			g = c14Gen(c.Rng, cfg)
		}
		name := "c14g"
		text := g.TM(name)
		ans := w.call(text)
		c.Debugf("%s", text)
		if g.Pred {
			// predicate family: no index-level protocol form; semantic comparison only
			switch {
			case ans == "fatal":
				c.Count("predicate family: status fatal")
				c.Violate("the compiler exits (log.Fatal) on a grammar with lookahead predicates on templated targets", c14OneLine(text))
				continue
			case !strings.HasPrefix(ans, "ok "):
				c.Count("predicate family: status err")
				continue
			}
			pproto, la := c14SplitLA(strings.TrimPrefix(ans, "ok "))
			real, ok := c14ParseProto(pproto)
			if !ok {
				continue
			}
			c.Count("predicate family: status ok")
			for f := range g.Feat {
				c.Count("feature " + f)
			}
			s := g.sem()
			if s.anyDead() && deadDefect {
				c.Count("dead-instance grammars")
				continue
			}
			L := 4
			if g.NT <= 4 {
				L = 5
			}
			bad, why := c14SemanticPred(g, s, real, la, L)
			switch {
			case why == "unstratified":
				c.Count("predicate family: unstratified (skipped)")
			case why != "":
				c.Count("predicate family: semantic comparisons")
				c.Violate("template instantiation changed the language: "+why, c14OneLine(text)+" :: "+bad)
			default:
				c.Count("predicate family: semantic comparisons")
			}
			continue
		}
		if g.HasSet {
			// set family: no index-level protocol form; semantic comparison only (the instantiated `setof_…` nonterminals
			// against the sets computed on the templates)
			switch {
			case ans == "fatal":
				c.Count("set family: status fatal")
				c.Violate("the compiler exits (log.Fatal) on a grammar with token sets over templated nonterminals", c14OneLine(text))
				continue
			case !strings.HasPrefix(ans, "ok "):
				c.Count("set family: status err")
				continue
			}
			pproto, _ := c14SplitLA(strings.TrimPrefix(ans, "ok "))
			real, ok := c14ParseProto(pproto)
			if !ok {
				continue
			}
			c.Count("set family: status ok")
			for f := range g.Feat {
				c.Count("feature " + f)
			}
			s := g.sem()
			if s.anyDead() && deadDefect {
				c.Count("dead-instance grammars")
				continue
			}
			L := 4
			if g.NT <= 4 {
				L = 5
			}
			if s.offPath {
				c.Count("set family: an operand instance is not reached from the input by references (skipped: C15 computes sets on the reachable rules)")
				continue
			}
			if s.emptySet {
				c.Count("set family: a set is empty (skipped: an empty set becomes an empty rule, C13's finding class)")
				continue
			}
			bad, why := c14Semantic(g, s, real, L)
			c.Count("set family: semantic comparisons")
			if why != "" {
				c.Violate("template instantiation changed the language (token sets over templated nonterminals): "+why, c14OneLine(text)+" :: "+bad)
			}
			continue
		}
		src := g.Proto()
		switch {
		case ans == "fatal":
			c.Count("status fatal")
			c.Case("inst "+quirks+" "+src+" :: fatal", "match", "")
			continue
		case strings.HasPrefix(ans, "err"):
			c.Count("status err")
			c.Case("inst "+quirks+" "+src+" :: err", "match", "")
			continue
		case !strings.HasPrefix(ans, "ok "):
			c.Count("status " + ans)
			c.Case("inst "+quirks+" "+src+" :: "+ans, "match", "")
			continue
		}
		proto, _ := c14SplitLA(strings.TrimPrefix(ans, "ok "))
		real, ok := c14ParseProto(proto)
		if !ok {
			c.Case("inst "+quirks+" "+src+" :: unparsable", "match", "")
			continue
		}
		c.Count("status ok")
		s := g.sem()
		// classification
		perNT := map[int]int{}
		multi := false
		for _, nt := range s.nts {
			perNT[nt]++
			if perNT[nt] >= 2 {
				multi = true
			}
		}
		disabled := false
		for k, nt := range s.nts {
			if len(s.alts[k]) < len(g.NTs[nt].Alts) {
				disabled = true
			}
		}
		key := ""
		if multi || disabled {
			key = c14Hash(text)
		}
		for f := range g.Feat {
			c.Count("feature " + f)
		}
		if multi {
			c.Count("feature several-instances")
		}
		if disabled {
			c.Count("feature disabled-alternative")
		}
		c.Count(fmt.Sprintf("instances %d", real.NN))
		short := shortDefect && c14ShortClass(g)
		if short {
			c.Count("entry-shortcircuit-class grammars")
		}
		if short {
			c.Case("instq "+quirks+" "+src+" :: "+proto, "match", key)
		} else {
			c.Case("inst "+quirks+" "+src+" :: "+proto, "match", key)
		}

		dead := s.anyDead()
		if dead {
			c.Count("dead-instance grammars")
		}
		L := 5
		if g.NT == 3 {
			L = 6
		}
		if (!dead || !deadDefect) && !short {
			bad, why := c14Semantic(g, s, real, L)
			c.Count("semantic comparisons")
			if why != "" {
				c.Violate("template instantiation changed the language: "+why, c14OneLine(text)+" :: "+bad)
			}
		}
		// the oracle's languages against the Lean executable semantics
		if i%2 == 0 {
			ls := s.langs(4)
			var parts []string
			for _, in := range g.Inputs {
				parts = append(parts, c14ShowLang(ls[s.index[fmt.Sprint(in.NT, make([]int, len(g.Params)))]]))
			}
			c.Case("sem 4 "+src, strings.Join(parts, ";"), "")
		}
	}
}
