package main

import (
	"fmt"
	"math/rand"
	"sort"
	"strings"

	"github.com/inspirer/textmapper/lex"
)

// C09 — lexer tables implement longest match with rule priority.
//
// Rule sets are generated as pattern texts, parsed by the real lex.ParseRegexp and compiled by the real
// lex.Compile. Each case carries the rules (ASTs as lex.ParseRegexp produced them, named patterns inlined the
// way reCompiler.serialize expands them, {eoi} as its own node; Precedence, Action, StartConditions) and the real
// tables. Lean answers with (1) the verdict of the verified validator (checkClasses, checkDfa), (2) the mirror of
// Tables.Scan and (3) scanSpec (derivative matcher) on every text; Go answers with what the real Tables.Scan
// returned. The spec-vs-real comparison does not depend on the validator.
func init() { props["C09"] = c09 }

type c09Rule struct {
	pattern string
	fold    bool
	action  int
	prec    int
	scs     []int
}

type c09Set struct {
	rules        []c09Rule
	named        map[string]string
	bytes        bool
	backtracking bool
	tags         []string
}

type c09Resolver struct {
	pats map[string]*lex.Pattern
}

func (r c09Resolver) Resolve(name string) *lex.Pattern { return r.pats[name] }

// ---- AST transport (C10 format, named patterns inlined, {eoi} as `eoi`) ----

func c09Dump(v *lex.VerifRegexp, res map[string]*lex.VerifRegexp, depth int, sb *strings.Builder) bool {
	if depth > 8 {
		return false
	}
	switch v.Op {
	case 0:
		sb.WriteString("lit," + c10Hex(v.Text))
	case 1:
		sb.WriteString("blit," + c10Hex(v.Text))
	case 2:
		fmt.Fprintf(sb, "cc,%d", len(v.Charset))
		for _, r := range v.Charset {
			fmt.Fprintf(sb, ",%d", r)
		}
	case 3:
		fmt.Fprintf(sb, "rep,%d,%d,", v.Min, v.Max)
		return c09Dump(v.Sub[0], res, depth, sb)
	case 4, 5:
		if v.Op == 4 {
			fmt.Fprintf(sb, "cat,%d", len(v.Sub))
		} else {
			fmt.Fprintf(sb, "alt,%d", len(v.Sub))
		}
		for _, s := range v.Sub {
			sb.WriteByte(',')
			if !c09Dump(s, res, depth, sb) {
				return false
			}
		}
	case 6:
		if v.Text == "eoi" {
			sb.WriteString("eoi")
			return true
		}
		sub, ok := res[v.Text]
		if !ok {
			return false
		}
		return c09Dump(sub, res, depth+1, sb)
	default:
		return false
	}
	return true
}

// ---- pattern generators ----

type c09Gen struct {
	rng   *rand.Rand
	empty bool // empty character classes may be generated
	bytes bool
	named []string
	eoi   bool
}

var c09ASCII = []string{"a", "b", "c", "d", "e", "0", "1", "_", `\-`, `\/`, `\*`, " ", `\n`, "A", "B", `\.`, `\+`, `"`, `\\`}
var c09Wide = []string{"é", "ж", "я", "€", "😀", "ß", "K"}

func (g *c09Gen) lit() string {
	r := g.rng
	if r.Intn(6) == 0 {
		return c09Wide[r.Intn(len(c09Wide))]
	}
	return c09ASCII[r.Intn(len(c09ASCII))]
}

func (g *c09Gen) class() string {
	r := g.rng
	var items []string
	n := 1 + r.Intn(3)
	for i := 0; i < n; i++ {
		switch k := r.Intn(12); {
		case k < 4:
			items = append(items, c09ASCII[r.Intn(len(c09ASCII))])
		case k < 7:
			lo := byte('a' + r.Intn(6))
			hi := lo + byte(r.Intn(6))
			items = append(items, fmt.Sprintf("%c-%c", lo, hi))
		case k < 8:
			items = append(items, "0-9")
		case k < 9:
			items = append(items, []string{`\w`, `\d`, `\s`, "A-Z"}[r.Intn(4)])
		case k < 10:
			if g.bytes {
				lo := 0x78 + r.Intn(0x88)
				hi := lo + r.Intn(0x100-lo)
				items = append(items, fmt.Sprintf(`\x%02x-\x%02x`, lo, hi))
			} else {
				items = append(items, []string{"а-я", "à-ÿ", `\x{80}-\x{7ff}`, `\x{fff0}-\x{10005}`, `\x{d7f0}-\x{e010}`, "€", `\x{10ffff}`, `\x{fffd}`}[r.Intn(8)])
			}
		case k < 11 && !g.bytes:
			items = append(items, []string{`\p{Lu}`, `\p{Greek}`, `\p{Nd}`}[r.Intn(3)])
		default:
			items = append(items, c09ASCII[r.Intn(len(c09ASCII))])
		}
	}
	neg := ""
	if r.Intn(5) == 0 {
		neg = "^"
	}
	return "[" + neg + strings.Join(items, "") + "]"
}

func (g *c09Gen) atom(depth int) string {
	r := g.rng
	if g.empty && r.Intn(40) == 0 {
		if g.bytes {
			return `[^\x00-\xff]`
		}
		return `[^\x00-\x{10ffff}]`
	}
	switch k := r.Intn(16); {
	case k < 6:
		return g.lit()
	case k < 9:
		return g.class()
	case k < 10:
		return "."
	case k < 11 && len(g.named) > 0:
		return "{" + g.named[r.Intn(len(g.named))] + "}"
	case k < 12 && r.Intn(3) == 0:
		return "(?i:" + g.seq(0) + ")"
	case k < 13 && r.Intn(3) == 0:
		return []string{`\w`, `\d`, `\s`, `\S`, `\W`}[r.Intn(5)]
	case depth > 0:
		return "(" + g.alt(depth-1) + ")"
	}
	return g.lit()
}

func (g *c09Gen) piece(depth int) string {
	a := g.atom(depth)
	switch k := g.rng.Intn(14); {
	case k < 2:
		return a + "*"
	case k < 5:
		return a + "+"
	case k < 6:
		return a + "?"
	case k < 8:
		return a + []string{"{2}", "{1,2}", "{2,3}", "{0,2}", "{3}", "{2,}", "{0,}", "{1,4}", "{0,1}"}[g.rng.Intn(9)]
	}
	return a
}

func (g *c09Gen) seq(depth int) string {
	n := 1 + g.rng.Intn(3)
	var sb strings.Builder
	for i := 0; i < n; i++ {
		sb.WriteString(g.piece(depth))
	}
	return sb.String()
}

func (g *c09Gen) alt(depth int) string {
	s := g.seq(depth)
	for g.rng.Intn(4) == 0 {
		s += "|" + g.seq(depth)
	}
	return s
}

func (g *c09Gen) pattern() string {
	depth := 1
	if g.rng.Intn(4) == 0 {
		depth = 2
	}
	p := g.alt(depth)
	if g.eoi && g.rng.Intn(3) == 0 {
		switch g.rng.Intn(3) {
		case 0:
			p = p + `(\n|{eoi})`
		case 1:
			p = p + `{eoi}`
		default:
			p = p + `{eoi}?`
		}
	}
	return p
}

// keyword family: words over a tiny alphabet sharing prefixes, so that a longer keyword extends a shorter one
// through non-keywords (forces backtracking) or through keywords.
func c09Keywords(r *rand.Rand) []string {
	alpha := "abc"
	if r.Intn(3) == 0 {
		alpha = "ifnt"
	}
	seen := map[string]bool{}
	var words []string
	base := string(alpha[r.Intn(len(alpha))])
	words = append(words, base)
	seen[base] = true
	n := 2 + r.Intn(5)
	for tries := 0; len(words) < n && tries < 40; tries++ {
		w := words[r.Intn(len(words))]
		if r.Intn(5) == 0 {
			w = w[:1+r.Intn(len(w))]
		}
		k := 1 + r.Intn(3)
		for i := 0; i < k; i++ {
			w += string(alpha[r.Intn(len(alpha))])
		}
		if !seen[w] && len(w) <= 8 {
			seen[w] = true
			words = append(words, w)
		}
	}
	return words
}

var c09Realistic = []struct {
	pattern string
	prec    int
}{
	{`[a-zA-Z_][a-zA-Z_0-9]*`, -1},
	{`[a-z]+`, -1},
	{`-?(0|[1-9][0-9]*)`, 0},
	{`[0-9]+(\.[0-9]+)?([eE][+\-]?[0-9]+)?`, 0},
	{`0[xX][0-9a-fA-F]+`, 0},
	{`\/\*([^*]|\*+[^*\/])*\*+\/`, 0},
	{`\/\/[^\n]*`, 0},
	{`"([^"\\\n]|\\.)*"`, 0},
	{`'([^'\\]|\\.)'`, 0},
	{`[ \t\r\n]+`, 0},
	{`\.`, 0}, {`\.\.\.`, 0}, {`\+`, 0}, {`\+\+`, 0}, {`\+=`, 0}, {`-`, 0}, {`->`, 0}, {`-->`, 0}, {`<`, 0}, {`<<=`, 0}, {`<!--`, 0},
	{`=`, 0}, {`===`, 0}, {`\/`, 0}, {`\*`, 0}, {`\*\*=`, 0},
	{`[a-z](-*[a-z])*`, 0},
	{`test(foo)?-+>`, 0},
	{`(abcd?)`, 0},
	{`aaaa`, 0},
	{`a{2,4}b`, 0},
	{`(ab){1,3}`, 0},
	{`(a|ab)(c|bcd)`, 0},
	{`\p{L}+`, -1},
	{`[^\x00-\x7f]+`, -1},
	{`é+|ée`, 0},
}

func c09Generate(r *rand.Rand, allowEmpty bool) c09Set {
	var s c09Set
	s.bytes = r.Intn(4) == 0
	s.backtracking = r.Intn(10) != 0
	s.named = map[string]string{}
	g := &c09Gen{rng: r, empty: allowEmpty, bytes: s.bytes, eoi: r.Intn(4) == 0}
	tag := func(t string) { s.tags = append(s.tags, t) }
	if r.Intn(4) == 0 {
		nn := 1 + r.Intn(3)
		for i := 0; i < nn; i++ {
			name := []string{"hex", "id", "ws", "dig", "x"}[i]
			// named patterns may refer to earlier ones
			s.named[name] = g.alt(1)
			g.named = append(g.named, name)
		}
		tag("named")
	}
	nsc := 1
	if r.Intn(5) == 0 {
		nsc = 2 + r.Intn(2)
		tag("multi-sc")
	}
	scs := func() []int {
		if nsc == 1 {
			return []int{0}
		}
		var l []int
		for i := 0; i < nsc; i++ {
			if r.Intn(2) == 0 {
				l = append(l, i)
			}
		}
		if len(l) == 0 {
			l = []int{r.Intn(nsc)}
		}
		return l
	}
	nextAction := 1
	action := func() int {
		if nextAction > 1 && r.Intn(6) == 0 {
			return 1 + r.Intn(nextAction-1) // shared with an earlier rule
		}
		nextAction++
		return nextAction - 1
	}
	add := func(p string, prec int) {
		fold := r.Intn(12) == 0
		if fold {
			tag("fold")
		}
		s.rules = append(s.rules, c09Rule{pattern: p, fold: fold, action: action(), prec: prec, scs: scs()})
	}
	switch k := r.Intn(10); {
	case k < 3:
		tag("keywords")
		for _, w := range c09Keywords(r) {
			add(w, 0)
		}
		if r.Intn(2) == 0 {
			add([]string{`[a-c]+`, `[a-z]+`, `[a-z_][a-z_0-9]*`, `[a-c]{1,3}`}[r.Intn(4)], -1)
		}
		if r.Intn(4) == 0 {
			add(g.pattern(), r.Intn(3)-1)
		}
	case k < 5:
		tag("realistic")
		n := 2 + r.Intn(6)
		for i := 0; i < n; i++ {
			x := c09Realistic[r.Intn(len(c09Realistic))]
			if s.bytes && strings.Contains(x.pattern, `\p`) {
				continue
			}
			add(x.pattern, x.prec)
		}
		if r.Intn(3) == 0 {
			for _, w := range c09Keywords(r) {
				add(w, 0)
			}
		}
	default:
		tag("random")
		n := 1 + r.Intn(4)
		if r.Intn(6) == 0 {
			n += r.Intn(3)
		}
		for i := 0; i < n; i++ {
			prec := 0
			switch r.Intn(6) {
			case 0:
				prec = -i
			case 1:
				prec = r.Intn(5) - 2
			}
			add(g.pattern(), prec)
		}
	}
	if g.eoi {
		tag("eoi")
		if r.Intn(3) == 0 {
			add(`{eoi}`, 0)
		}
	}
	if len(s.rules) > 1 && r.Intn(5) == 0 {
		r.Shuffle(len(s.rules), func(i, j int) { s.rules[i], s.rules[j] = s.rules[j], s.rules[i] })
	}
	if len(s.rules) > 1 && r.Intn(4) == 0 {
		// explicit priorities on overlapping rules
		tag("explicit-prec")
		for i := range s.rules {
			if r.Intn(2) == 0 {
				s.rules[i].prec = r.Intn(5) - 2
			}
		}
	}
	return s
}

// ---- compile with the real code ----

type c09Compiled struct {
	t     *lex.Tables
	rules string // serialised rules
	nsc   int
}

func c09Compile(s c09Set) (res *c09Compiled, why string) {
	defer func() {
		if r := recover(); r != nil {
			res, why = nil, "panic"
		}
	}()
	resolver := c09Resolver{pats: map[string]*lex.Pattern{}}
	views := map[string]*lex.VerifRegexp{}
	var names []string
	for n := range s.named {
		names = append(names, n)
	}
	sort.Strings(names)
	for _, n := range names {
		re, err := lex.ParseRegexp(s.named[n], lex.CharsetOptions{ScanBytes: s.bytes})
		if err != nil {
			return nil, "named pattern does not parse"
		}
		resolver.pats[n] = &lex.Pattern{Name: n, RE: re, Text: s.named[n], Origin: c24Node{"named", 0}}
		views[n] = lex.VerifView(re)
	}
	var in []*lex.Rule
	var sb strings.Builder
	fmt.Fprintf(&sb, "v %d", len(s.rules))
	maxSC := 0
	for i, r := range s.rules {
		re, err := lex.ParseRegexp(r.pattern, lex.CharsetOptions{ScanBytes: s.bytes, Fold: r.fold})
		if err != nil {
			return nil, "pattern does not parse"
		}
		in = append(in, &lex.Rule{
			Pattern:         &lex.Pattern{Name: fmt.Sprintf("rule%v", i), RE: re, Text: r.pattern, Origin: c24Node{"rules", i}},
			Resolver:        resolver,
			Precedence:      r.prec,
			Action:          r.action,
			StartConditions: r.scs,
			Origin:          c24Node{"rules", i},
		})
		var ast strings.Builder
		if !c09Dump(lex.VerifView(re), views, 0, &ast) {
			return nil, "unresolved or recursive named pattern"
		}
		fmt.Fprintf(&sb, " %d %d %s %s", r.prec, r.action, ints(r.scs), ast.String())
		for _, sc := range r.scs {
			if sc > maxSC {
				maxSC = sc
			}
		}
	}
	t, err := lex.Compile(in, s.bytes, s.backtracking)
	if err != nil {
		msg := err.Error()
		switch {
		case strings.Contains(msg, "accepts empty text"):
			return nil, "lex.Compile: accepts empty text"
		case strings.Contains(msg, "two rules are identical"):
			return nil, "lex.Compile: two rules are identical"
		case strings.Contains(msg, "Needs backtracking"):
			return nil, "lex.Compile: needs backtracking"
		case strings.Contains(msg, "too many entities"):
			return nil, "lex.Compile: repeat > 16"
		case strings.Contains(msg, "recursively"):
			return nil, "lex.Compile: recursive named pattern"
		case strings.Contains(msg, "cannot find named pattern"):
			return nil, "lex.Compile: unknown named pattern"
		}
		return nil, "lex.Compile: other error"
	}
	if t == nil {
		return nil, "lex.Compile: nil tables"
	}
	return &c09Compiled{t: t, rules: sb.String(), nsc: maxSC + 1}, ""
}

func c09Scan(t *lex.Tables, sc int, text string) (res string, action int) {
	defer func() {
		if r := recover(); r != nil {
			res, action = "panic", 0
		}
	}()
	size, act := t.Scan(sc, text)
	return fmt.Sprintf("%d:%d", size, act), act
}

// ---- texts ----

type c09Seg struct{ lo, hi rune }

func c09Segments(t *lex.Tables) map[int][]c09Seg {
	ret := map[int][]c09Seg{}
	max := rune(0x10ffff)
	if t.ScanBytes {
		max = 0xff
	}
	for i, e := range t.SymbolMap {
		hi := max
		if i+1 < len(t.SymbolMap) {
			hi = t.SymbolMap[i+1].Start - 1
		}
		ret[int(e.Target)] = append(ret[int(e.Target)], c09Seg{e.Start, hi})
	}
	return ret
}

func c09Encode(bytes bool, cp rune) string {
	if bytes {
		return string([]byte{byte(cp)})
	}
	return string(cp) // surrogates and out-of-range values become U+FFFD, as in the model's encoder
}

var c09Invalid = []string{"\x80", "\xff", "\xc3", "\xe2\x82", "\xc0\x80", "\xed\xa0\x80", "\xf4\x90\x80\x80", "\xf0\x9f\x98", "\xef\xbf\xbd"}

func c09Texts(r *rand.Rand, t *lex.Tables, nsc, n int) [][2]string {
	segs := c09Segments(t)
	pick := func(sym int) string {
		l := segs[sym]
		if len(l) == 0 {
			return "a"
		}
		sg := l[r.Intn(len(l))]
		cp := sg.lo
		switch r.Intn(4) {
		case 0:
			cp = sg.hi
		case 1:
			cp = sg.lo + rune(r.Int63n(int64(sg.hi-sg.lo)+1))
		}
		return c09Encode(t.ScanBytes, cp)
	}
	anyChar := func() string {
		switch k := r.Intn(6); {
		case k == 0:
			return c09Invalid[r.Intn(len(c09Invalid))]
		case k == 1:
			return c09Wide[r.Intn(len(c09Wide))]
		case k == 2:
			return string([]byte{byte(r.Intn(256))})
		}
		const pool = "abcde01_-/* \nAB.+\"\\ifnt"
		return string(pool[r.Intn(len(pool))])
	}
	var ret [][2]string
	for sc := 0; sc < nsc; sc++ {
		ret = append(ret, [2]string{fmt.Sprint(sc), ""})
	}
	for len(ret) < n {
		sc := r.Intn(nsc)
		var buf strings.Builder
		state := -1
		if sc < len(t.StateMap) {
			state = t.StateMap[sc]
		}
		l := r.Intn(12)
		if r.Intn(8) == 0 {
			l = 20 + r.Intn(30)
		}
		for i := 0; i < l; i++ {
			if state < 0 || (state+1)*t.NumSymbols > len(t.Dfa) || r.Intn(8) == 0 {
				buf.WriteString(anyChar())
				state = -1
				continue
			}
			var cont []int
			for sym := 1; sym < t.NumSymbols; sym++ {
				e := t.Dfa[state*t.NumSymbols+sym]
				if (e >= 0 || e > t.ActionStart()) && len(segs[sym]) > 0 {
					cont = append(cont, sym)
				}
			}
			if len(cont) == 0 {
				// token ends here; sometimes keep going with a fresh token
				if r.Intn(2) == 0 {
					break
				}
				buf.WriteString(anyChar())
				state = -1
				continue
			}
			sym := cont[r.Intn(len(cont))]
			buf.WriteString(pick(sym))
			e := t.Dfa[state*t.NumSymbols+sym]
			if e < 0 {
				e = t.Backtrack[-1-e].NextState
			}
			state = e
		}
		ret = append(ret, [2]string{fmt.Sprint(sc), buf.String()})
	}
	return ret
}

// c09Alphabet: one encoded representative per symbol class (>= 1), plus an invalid byte in rune mode.
func c09Alphabet(t *lex.Tables) []string {
	seen := map[int]bool{}
	var ret []string
	for _, e := range t.SymbolMap {
		if !seen[int(e.Target)] {
			seen[int(e.Target)] = true
			ret = append(ret, c09Encode(t.ScanBytes, e.Start))
		}
	}
	if !t.ScanBytes {
		ret = append(ret, "\xff")
	}
	return ret
}

func c09Words(alpha []string, n int) []string {
	if n == 0 {
		return []string{""}
	}
	sub := c09Words(alpha, n-1)
	var ret []string
	for _, a := range alpha {
		for _, w := range sub {
			ret = append(ret, a+w)
		}
	}
	return ret
}

// c09EoiProbe: does the real Tables.Scan follow an end-of-input transition?  (rules /a/ -> 2, /{eoi}/ -> 1, text "")
func c09EoiProbe() (ok bool, got string) {
	c, why := c09Compile(c09Set{rules: []c09Rule{{pattern: "a", action: 2, scs: []int{0}}, {pattern: "{eoi}", action: 1, scs: []int{0}}}, backtracking: true})
	if c == nil {
		return false, "probe did not compile: " + why
	}
	res, _ := c09Scan(c.t, 0, "")
	return res == "0:1", res
}

// c09DeadProbe: an empty character class must not leave a transition into a state without continuations
// (rules /a[^\x00-\x{10ffff}]b/ -> 2, /c/ -> 3, text "ab": no rule can extend "a", the invalid token is empty).
func c09DeadProbe() (ok bool, got string) {
	ds := c09Set{rules: []c09Rule{{pattern: `a[^\x00-\x{10ffff}]b`, action: 2, scs: []int{0}}, {pattern: "c", action: 3, scs: []int{0}}}, backtracking: true}
	comp, why := c09Compile(ds)
	if comp == nil {
		return false, "probe did not compile: " + why
	}
	res, _ := c09Scan(comp.t, 0, "ab")
	return res == "0:0", res
}

func c09(c *Ctx) {
	r := c.Rng
	// Two known defects are probed on the real code at start-up; while a probe fails the defect is reported once
	// (c.Violate with its token) and the random stream avoids exactly that input class.
	eoiOK, probe := c09EoiProbe()
	deadOK, deadGot := c09DeadProbe()
	avoidEoi := !eoiOK
	c.Extra["eoi_probe_ok"] = eoiOK
	c.Extra["dead_state_probe_ok"] = deadOK
	c.Rule = "rule sets of 1-12 rules generated as pattern texts: keyword families over a 3-4 letter alphabet with shared prefixes (with and without a lower-priority identifier class, " +
		"so that backtracking checkpoints are needed), realistic token sets (identifiers, numbers, comments, strings, operator families like . / ... and - / -> / -->), random expressions " +
		"(literals incl. non-ASCII, classes, negated classes, \\w \\d \\s \\p{..}, '.', groups, alternation, * + ? {n} {n,m} {n,}, (?i:..), named patterns {name} that may use other named patterns, {eoi}); " +
		"Precedence 0 / -1 for class rules / random -2..2, shared actions, 1-3 start conditions with random membership, fold option, byte mode (1/4), backtracking allowed (9/10); " +
		"parsed by the real lex.ParseRegexp, compiled by the real lex.Compile (rule sets it rejects are counted and skipped). " +
		"Texts per rule set: the empty text in every start condition and random walks through the real DFA (code points picked at the start / end / inside of a segment of the symbol map), " +
		"continued past token ends, with arbitrary characters, invalid UTF-8 (lone continuation bytes, truncated sequences, overlong forms, surrogates, > U+10FFFF) and raw bytes injected; " +
		"plus every string of up to L class representatives (L as large as fits the budget, <= 5) in every start condition. " +
		"Go answers: the real Tables.Scan on every text. Non-trivial = at least 2 DFA states; distinct by rules+texts."
	if !eoiOK {
		what := fmt.Sprintf("[C09-eoi-shift] end-of-input probe FAILED on the real Tables.Scan: rules /a/=>2 /{eoi}/=>1, Scan(0, \"\") returned %s, the property demands 0:1 (Scan does not follow a transition on end of input)", probe)
		c.Notes = append(c.Notes, what)
		c.Violate(what, "rules /a/=>2 /{eoi}/=>1 text \"\"")
		c.Rule += " AVOIDED CLASS [C09-eoi-shift] (probe failed): texts at whose end the DFA has a transition (or checkpoint) on end of input, i.e. an {eoi} of some rule could match there."
	}
	if !deadOK {
		what := "[C09-dead-state] empty-class probe FAILED on the real lex.Compile/Tables.Scan: rules /a[^\\x00-\\x{10ffff}]b/=>2 /c/=>3, Scan(0, \"ab\") returned " + deadGot +
			", the property demands 0:0 (no rule can extend \"a\": the class is empty, but the DFA keeps a transition on 'a' into a state without continuations)"
		c.Notes = append(c.Notes, what)
		c.Violate(what, "rules /a[^\\x00-\\x{10ffff}]b/=>2 /c/=>3 text \"ab\"")
		c.Rule += " AVOIDED CLASS [C09-dead-state] (probe failed): patterns containing an empty character class ([^\\x00-\\x{10ffff}], in byte mode [^\\x00-\\xff]); generated (1 atom in 40) only when the probe passes."
	}
	n := c.N(600, 6000)
	budget := c.N(250, 3000) // enumerated strings per rule set
	emitted := 0
	for attempt := 0; emitted < n && attempt < 40*n; attempt++ {
		s := c09Generate(r, deadOK)
		comp, why := c09Compile(s)
		if comp == nil {
			c.Count("skipped: " + why)
			continue
		}
		t := comp.t
		states := 0
		if t.NumSymbols > 0 {
			states = len(t.Dfa) / t.NumSymbols
		}
		if states > 400 || len(t.SymbolMap) > 1500 {
			c.Count("skipped: too large")
			continue
		}
		if !c24WF(t) {
			c.Count("REAL TABLE NOT WELL-FORMED")
		}
		nsc := len(t.StateMap)
		texts := c09Texts(r, t, nsc, c.N(14, 24))
		alpha := c09Alphabet(t)
		L := 0
		total, pow := 0, 1
		for k := 1; k <= 5 && len(alpha) > 0; k++ {
			pow *= len(alpha)
			if pow > budget || total+pow*nsc > budget {
				break
			}
			total += pow * nsc
			L = k
		}
		var enum [][2]string
		for sc := 0; sc < nsc; sc++ {
			for k := 1; k <= L; k++ {
				for _, w := range c09Words(alpha, k) {
					enum = append(enum, [2]string{fmt.Sprint(sc), w})
				}
			}
		}
		scan := func(x [2]string) (string, int) {
			var sc int
			fmt.Sscan(x[0], &sc)
			return c09Scan(t, sc, x[1])
		}
		// the defect class: the end-of-input lookup of Scan finds a transition (negative "action")
		hit := false
		if avoidEoi {
			for _, x := range enum {
				if _, a := scan(x); a < 0 {
					hit = true
					break
				}
			}
			var keep [][2]string
			for _, x := range texts {
				if _, a := scan(x); a < 0 {
					c.Count("text skipped: known defect class (end-of-input transition)")
					continue
				}
				keep = append(keep, x)
			}
			texts = keep
			if hit {
				// enumerate explicitly and filter
				for i, x := range enum {
					if i >= 400 {
						break
					}
					if _, a := scan(x); a >= 0 {
						texts = append(texts, x)
					}
				}
				enum, L = nil, 0
			}
		}
		var m, xm, tx []string
		for _, x := range texts {
			res, _ := scan(x)
			m = append(m, res)
			tx = append(tx, x[0]+":"+hexs([]byte(x[1])))
		}
		for _, x := range enum {
			res, _ := scan(x)
			xm = append(xm, res)
		}
		join := func(l []string) string {
			if len(l) == 0 {
				return "-"
			}
			return strings.Join(l, ",")
		}
		var ah []string
		for _, a := range alpha {
			ah = append(ah, hexs([]byte(a)))
		}
		line := comp.rules + " " + c24TablesLine(t) + fmt.Sprintf(" x %d %s", L, join(ah))
		if len(tx) > 0 {
			line += " " + strings.Join(tx, " ")
		}
		answer := fmt.Sprintf("wf=1 classes=1 dfa=ok m=%s s=%s xm=%s xs=%s", join(m), join(m), join(xm), join(xm))
		key := ""
		if states >= 2 {
			key = line
		}
		for _, tg := range s.tags {
			c.Count("tag " + tg)
		}
		c.Count(fmt.Sprintf("rules=%d", len(s.rules)))
		if s.bytes {
			c.Count("byte mode")
		} else {
			c.Count("rune mode")
		}
		if len(t.Backtrack) > 0 {
			c.Count("tables with checkpoints")
		}
		switch {
		case states < 5:
			c.Count("states <5")
		case states < 20:
			c.Count("states 5-19")
		case states < 80:
			c.Count("states 20-79")
		default:
			c.Count("states >=80")
		}
		c.Count(fmt.Sprintf("enumeration length L=%d", L))
		c.Debugf("rules %v named %v bytes=%v", s.rules, s.named, s.bytes)
		c.Case(line, answer, key)
		emitted++
	}
}
