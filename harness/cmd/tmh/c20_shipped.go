package main

// C20, part 2: the shipped event-based parsers (tm, js, json, test) on the inputs of their own tests,
// the grammars of the repository, mutations of both and random bytes.
//
// For every run the listener stream is checked directly (c20Direct), recorded as a `nest` case for the
// WellNested verdict of the model, and — for tm and js, which have generated AST builders — turned into
// the real tree through ast.VerifBuild (`buildfile` case for the mirror of the builder), compared with
// the tree of the public ast.Parse and checked for lost nodes.

import (
	"context"
	"fmt"
	goast "go/ast"
	goparser "go/parser"
	gotoken "go/token"
	"io/fs"
	"math/rand"
	"os"
	"path/filepath"
	"sort"
	"strconv"
	"strings"
	"syscall"
	"time"

	"github.com/inspirer/textmapper/parsers/js"
	jsast "github.com/inspirer/textmapper/parsers/js/ast"
	tmjson "github.com/inspirer/textmapper/parsers/json"
	tmtest "github.com/inspirer/textmapper/parsers/test"
	"github.com/inspirer/textmapper/parsers/tm"
	tmast "github.com/inspirer/textmapper/parsers/tm/ast"
)

const (
	c20sTimeout    = 5 * time.Second
	c20sMaxMutLen  = 2000 // mutation work happens on texts below this size
	c20sMaxFull    = 3000 // streams up to this many events get the full O(n²) check
	c20sMaxRecord  = 400  // streams up to this many events are recorded as cases
	c20sSamplePair = 200
)

// ---- seeds ----

type c20sSeed struct {
	src     string
	mode    int // js entry point: 0 module, 1 type snippet, 2 expression snippet
	dialect int // js dialect of the test table (-1 = unknown)
}

var c20sDialectNames = []string{"Javascript", "Typescript", "TypescriptJsx"}
var c20sDialects = []js.Dialect{js.Javascript, js.Typescript, js.TypescriptJsx}
var c20sModeNames = []string{"ParseModule", "ParseTypeSnippet", "ParseExpressionSnippet"}

// c20sEval evaluates a constant string expression: literals, +, parentheses, package-level names.
func c20sEval(e goast.Expr, env map[string]string) (string, bool) {
	switch e := e.(type) {
	case *goast.BasicLit:
		if e.Kind != gotoken.STRING {
			return "", false
		}
		s, err := strconv.Unquote(e.Value)
		return s, err == nil
	case *goast.ParenExpr:
		return c20sEval(e.X, env)
	case *goast.BinaryExpr:
		if e.Op != gotoken.ADD {
			return "", false
		}
		a, ok := c20sEval(e.X, env)
		if !ok {
			return "", false
		}
		b, ok := c20sEval(e.Y, env)
		return a + b, ok
	case *goast.Ident:
		s, ok := env[e.Name]
		return s, ok
	}
	return "", false
}

func c20sIsStringSlice(e goast.Expr) bool {
	at, ok := e.(*goast.ArrayType)
	if !ok || at.Len != nil {
		return false
	}
	id, ok := at.Elt.(*goast.Ident)
	return ok && id.Name == "string"
}

func c20sDialectOf(e goast.Expr) int {
	if kv, ok := e.(*goast.KeyValueExpr); ok {
		e = kv.Value
	}
	sel, ok := e.(*goast.SelectorExpr)
	if !ok {
		return -1
	}
	if x, ok := sel.X.(*goast.Ident); !ok || x.Name != "js" {
		return -1
	}
	for i, n := range c20sDialectNames {
		if sel.Sel.Name == n {
			return i
		}
	}
	return -1
}

// c20sStrip removes the expectation markers of parsertest (see splitInput).
func c20sStrip(s string) string {
	if !strings.ContainsAny(s, "«»§") {
		return s
	}
	var sb strings.Builder
	for _, ch := range s {
		switch ch {
		case '«', '»', '§':
			continue
		}
		sb.WriteRune(ch)
	}
	return sb.String()
}

// c20sExtract returns the test inputs found in one Go test file: every constant string that is an
// element of a []string literal, plus package-level string constants longer than 20 bytes (only the
// latter with constsOnly: the lexer tests hold token fragments, but also the benchmark texts).
func c20sExtract(path string, constsOnly bool) []c20sSeed {
	fset := gotoken.NewFileSet()
	f, err := goparser.ParseFile(fset, path, nil, 0)
	if err != nil || f == nil {
		return nil
	}
	env := map[string]string{}
	var names []string
	for pass := 0; pass < 4; pass++ {
		for _, d := range f.Decls {
			gd, ok := d.(*goast.GenDecl)
			if !ok || (gd.Tok != gotoken.CONST && gd.Tok != gotoken.VAR) {
				continue
			}
			for _, sp := range gd.Specs {
				vs, ok := sp.(*goast.ValueSpec)
				if !ok || len(vs.Names) != len(vs.Values) {
					continue
				}
				for i, n := range vs.Names {
					if _, seen := env[n.Name]; seen {
						continue
					}
					if s, ok := c20sEval(vs.Values[i], env); ok {
						env[n.Name] = s
						names = append(names, n.Name)
					}
				}
			}
		}
	}
	var ret []c20sSeed
	add := func(raw string, dialect int) {
		mode := 0
		switch {
		case strings.Contains(raw, "/*astype*/"):
			mode = 1
		case strings.Contains(raw, "/*asexpr*/"):
			mode = 2
		}
		ret = append(ret, c20sSeed{c20sStrip(raw), mode, dialect})
	}
	for _, n := range names {
		if len(env[n]) > 20 {
			add(env[n], -1)
		}
	}
	if constsOnly {
		return ret
	}
	dialectOf := map[*goast.CompositeLit]int{}
	goast.Inspect(f, func(n goast.Node) bool {
		cl, ok := n.(*goast.CompositeLit)
		if !ok {
			return true
		}
		d := -1
		for _, e := range cl.Elts {
			if v := c20sDialectOf(e); v >= 0 {
				d = v
			}
		}
		for _, e := range cl.Elts {
			if kv, ok := e.(*goast.KeyValueExpr); ok {
				e = kv.Value
			}
			if in, ok := e.(*goast.CompositeLit); ok && in.Type != nil && c20sIsStringSlice(in.Type) {
				dialectOf[in] = d
			}
		}
		if cl.Type != nil && c20sIsStringSlice(cl.Type) {
			d, ok := dialectOf[cl]
			if !ok {
				d = -1
			}
			for _, e := range cl.Elts {
				if s, ok := c20sEval(e, env); ok {
					add(s, d)
				}
			}
		}
		return true
	})
	return ret
}

func c20sDedup(in []c20sSeed) []c20sSeed {
	seen := map[c20sSeed]bool{}
	var ret []c20sSeed
	for _, s := range in {
		if !seen[s] {
			seen[s] = true
			ret = append(ret, s)
		}
	}
	return ret
}

// c20sGrammarFiles returns the .tm grammars (and the .tmerr compiler test inputs, markers removed)
// below root, smallest first.
func c20sGrammarFiles(root string) (tmFiles, errFiles []string) {
	type ent struct {
		path string
		size int64
	}
	var a, b []ent
	filepath.WalkDir(root, func(p string, d fs.DirEntry, err error) error {
		if err != nil {
			return nil
		}
		if d.IsDir() {
			if n := d.Name(); p != root && (n == ".git" || n == "node_modules") {
				return filepath.SkipDir
			}
			return nil
		}
		info, err := d.Info()
		if err != nil {
			return nil
		}
		switch filepath.Ext(p) {
		case ".tm":
			a = append(a, ent{p, info.Size()})
		case ".tmerr":
			b = append(b, ent{p, info.Size()})
		}
		return nil
	})
	for _, l := range [][]ent{a, b} {
		sort.Slice(l, func(i, j int) bool {
			if l[i].size != l[j].size {
				return l[i].size < l[j].size
			}
			return l[i].path < l[j].path
		})
	}
	for _, e := range a {
		tmFiles = append(tmFiles, e.path)
	}
	for _, e := range b {
		errFiles = append(errFiles, e.path)
	}
	return
}

func c20sCutAtLine(s string, limit int) string {
	if len(s) <= limit {
		return s
	}
	if i := strings.LastIndexByte(s[:limit], '\n'); i >= 0 {
		return s[:i+1]
	}
	return s[:limit]
}

// ---- guarded execution ----

type c20sRun struct {
	evs      []c20Ev
	errCalls int
	err      error
	panicked bool
	panicVal string
	timeout  bool
}

// c20sWorker is a goroutine that runs parser jobs one at a time (it keeps its grown stack between
// jobs). A worker whose job does not come back is abandoned and replaced.
type c20sWorker struct {
	jobs chan func()
	done chan struct{}
}

var c20sW *c20sWorker

// c20sMuts: the per-parser mutators (seeds of the shipped parsers), shared with the reuse family.
var c20sMuts map[string]*c20sMut

func c20sNewWorker() *c20sWorker {
	w := &c20sWorker{jobs: make(chan func()), done: make(chan struct{}, 1)}
	go func() {
		for j := range w.jobs {
			j()
			w.done <- struct{}{}
		}
	}()
	return w
}

// c20sGuard runs f on the worker goroutine with panic recovery and a timeout; the context is
// cancelled when the time is up. A run that does not even react to the cancellation is abandoned.
func c20sGuard(f func(ctx context.Context, r *c20sRun)) *c20sRun {
	if c20sW == nil {
		c20sW = c20sNewWorker()
	}
	w := c20sW
	ctx, cancel := context.WithCancel(context.Background())
	defer cancel()
	r := &c20sRun{}
	w.jobs <- func() {
		defer func() {
			if p := recover(); p != nil {
				r.panicked = true
				r.panicVal = strings.Join(strings.Fields(fmt.Sprint(p)), " ")
			}
		}()
		f(ctx, r)
	}
	t := time.NewTimer(c20sTimeout)
	defer t.Stop()
	select {
	case <-w.done:
		return r
	case <-t.C:
	}
	cancel()
	t2 := time.NewTimer(2 * time.Second)
	defer t2.Stop()
	select {
	case <-w.done:
		r.timeout = true
		return r
	case <-t2.C:
	}
	// r still belongs to the stuck goroutine: do not touch it.
	close(w.jobs)
	c20sW = nil
	return &c20sRun{timeout: true}
}

// c20sQuietStderr points file descriptor 2 to /dev/null until the returned function is called: a
// semantic action of parsers/test uses the builtin println.
func c20sQuietStderr() (restore func()) {
	null, err := os.OpenFile(os.DevNull, os.O_WRONLY, 0)
	if err != nil {
		return func() {}
	}
	saved, err := syscall.Dup(2)
	if err != nil {
		null.Close()
		return func() {}
	}
	if err := syscall.Dup3(int(null.Fd()), 2, 0); err != nil {
		syscall.Close(saved)
		null.Close()
		return func() {}
	}
	return func() {
		syscall.Dup3(saved, 2, 0)
		syscall.Close(saved)
		null.Close()
	}
}

func c20sRunTm(src string, keepGoing bool) *c20sRun {
	return c20sGuard(func(ctx context.Context, r *c20sRun) {
		l := func(nt tm.NodeType, off, end int) { r.evs = append(r.evs, c20Ev{int(nt), off, end}) }
		eh := func(se tm.SyntaxError) bool { r.errCalls++; return keepGoing }
		var s tm.TokenStream
		s.Init(src, l)
		var p tm.Parser
		p.Init(eh, l)
		r.err = p.ParseFile(ctx, &s)
	})
}

func c20sRunJs(src string, dialect, mode int, keepGoing bool) *c20sRun {
	return c20sGuard(func(ctx context.Context, r *c20sRun) {
		l := func(nt js.NodeType, off, end int) { r.evs = append(r.evs, c20Ev{int(nt), off, end}) }
		eh := func(se js.SyntaxError) bool { r.errCalls++; return keepGoing }
		var s js.TokenStream
		s.Init(src, l)
		s.SetDialect(c20sDialects[dialect])
		var p js.Parser
		p.Init(eh, l)
		switch mode {
		case 1:
			r.err = p.ParseTypeSnippet(ctx, &s)
		case 2:
			r.err = p.ParseExpressionSnippet(ctx, &s)
		default:
			r.err = p.ParseModule(ctx, &s)
		}
	})
}

func c20sRunJSON(src string) *c20sRun {
	return c20sGuard(func(ctx context.Context, r *c20sRun) {
		l := new(tmjson.Lexer)
		l.Init(src)
		p := new(tmjson.Parser)
		p.Init(func(nt tmjson.NodeType, off, end int) { r.evs = append(r.evs, c20Ev{int(nt), off, end}) })
		r.err = p.Parse(l)
	})
}

func c20sRunTest(src string) *c20sRun {
	return c20sGuard(func(ctx context.Context, r *c20sRun) {
		l := new(tmtest.Lexer)
		l.Init(src)
		p := new(tmtest.Parser)
		p.Init(func(nt tmtest.NodeType, flags tmtest.NodeFlags, off, end int) {
			r.evs = append(r.evs, c20Ev{int(nt), off, end})
		})
		r.err = p.ParseTest(ctx, l)
	})
}

// ---- trees ----

type c20sNode struct {
	ty, off, end int
	kids         []*c20sNode
}

func c20sFromTm(n *tmast.Node) *c20sNode {
	out := &c20sNode{ty: int(n.Type()), off: n.Offset(), end: n.Endoffset()}
	for _, k := range tmast.VerifChildren(n) {
		out.kids = append(out.kids, c20sFromTm(k))
	}
	return out
}

func c20sFromJs(n *jsast.Node) *c20sNode {
	out := &c20sNode{ty: int(n.Type()), off: n.Offset(), end: n.Endoffset()}
	for _, k := range jsast.VerifChildren(n) {
		out.kids = append(out.kids, c20sFromJs(k))
	}
	return out
}

func (n *c20sNode) write(sb *strings.Builder) {
	sb.WriteByte('(')
	sb.WriteString(strconv.Itoa(n.ty))
	sb.WriteByte(' ')
	sb.WriteString(strconv.Itoa(n.off))
	sb.WriteByte(' ')
	sb.WriteString(strconv.Itoa(n.end))
	for _, k := range n.kids {
		sb.WriteByte(' ')
		k.write(sb)
	}
	sb.WriteByte(')')
}

func (n *c20sNode) text() string {
	if n == nil {
		return "none"
	}
	var sb strings.Builder
	n.write(&sb)
	return sb.String()
}

func (n *c20sNode) each(f func(*c20sNode)) {
	f(n)
	for _, k := range n.kids {
		k.each(f)
	}
}

// c20sBuild builds the real tree from the stream through the verif hook (nil = builder error).
func c20sBuild(parser, src string, evs []c20Ev) (root *c20sNode, panicVal string) {
	defer func() {
		if p := recover(); p != nil {
			root, panicVal = nil, strings.Join(strings.Fields(fmt.Sprint(p)), " ")
			if panicVal == "" {
				panicVal = "panic"
			}
		}
	}()
	if parser == "tm" {
		l := make([]tmast.VerifEvent, len(evs))
		for i, e := range evs {
			l[i] = tmast.VerifEvent{Type: tm.NodeType(e.Ty), Offset: e.Off, Endoffset: e.End}
		}
		t, err := tmast.VerifBuild(src, l)
		if err != nil || t == nil || t.Root() == nil {
			return nil, ""
		}
		return c20sFromTm(t.Root()), ""
	}
	l := make([]jsast.VerifEvent, len(evs))
	for i, e := range evs {
		l[i] = jsast.VerifEvent{Type: js.NodeType(e.Ty), Offset: e.Off, Endoffset: e.End}
	}
	t, err := jsast.VerifBuild(src, l)
	if err != nil || t == nil || t.Root() == nil {
		return nil, ""
	}
	return c20sFromJs(t.Root()), ""
}

// c20sPublicParse calls the public ast.Parse and returns its tree text ("error: …" when it fails).
func c20sPublicParse(parser, src string, keepGoing bool) (string, *c20sRun) {
	var text string
	r := c20sGuard(func(ctx context.Context, r *c20sRun) {
		if parser == "tm" {
			t, err := tmast.Parse(ctx, "x", src, func(tm.SyntaxError) bool { return keepGoing })
			if err != nil {
				text = "error: " + err.Error()
				return
			}
			text = c20sFromTm(t.Root()).text()
			return
		}
		t, err := jsast.Parse(ctx, "x", src, func(js.SyntaxError) bool { return keepGoing })
		if err != nil {
			text = "error: " + err.Error()
			return
		}
		text = c20sFromJs(t.Root()).text()
	})
	if r.timeout {
		return "timeout", r
	}
	return text, r
}

// ---- the check of one run ----

type c20sRec struct {
	nestLine, verdict   string
	buildLine, treeText string // buildLine == "" when the parser has no ast builder
	key                 string
}

type c20sPool struct {
	cap  int
	seen int
	recs []c20sRec
}

func (p *c20sPool) offer(rng *rand.Rand, mk func() c20sRec) {
	p.seen++
	if p.cap <= 0 {
		return
	}
	if len(p.recs) < p.cap {
		p.recs = append(p.recs, mk())
		return
	}
	if j := rng.Intn(p.seen); j < p.cap {
		p.recs[j] = mk()
	}
}

type c20sState struct {
	c         *Ctx
	rng       *rand.Rand
	findings  bool
	runs      map[string]int
	timeouts  map[string]int // a parser with 3 runs that did not terminate is not run any more
	maxEvents int
	bigChecks int
	pools     map[string]*[3]c20sPool // per parser: non-trivial, trivial, not-nested
	fileType  map[string]int
	lossSeen  map[string]bool
}

var c20sParsers = []string{"tm", "js", "json", "test"}

// c20sCheckStream is c20Direct, restricted for very long streams to the bounds of all events, a
// random window of c20sMaxFull events and all pairs involving c20sSamplePair random events.
func (st *c20sState) checkStream(evs []c20Ev, n int) string {
	if len(evs) <= c20sMaxFull {
		return c20Direct(evs, n)
	}
	st.bigChecks++
	for i := range evs {
		if m := c20Direct(evs[i:i+1], n); m != "" {
			return m
		}
	}
	w := st.rng.Intn(len(evs) - c20sMaxFull + 1)
	if m := c20Direct(evs[w:w+c20sMaxFull], n); m != "" {
		return m
	}
	var pair [2]c20Ev
	for k := 0; k < c20sSamplePair; k++ {
		j := st.rng.Intn(len(evs))
		for i := range evs {
			switch {
			case i < j:
				pair[0], pair[1] = evs[i], evs[j]
			case i > j:
				pair[0], pair[1] = evs[j], evs[i]
			default:
				continue
			}
			if m := c20Direct(pair[:], n); m != "" {
				return m
			}
		}
	}
	return ""
}

func c20sShort(s string) string {
	if len(s) > 300 {
		return s[:300] + "…"
	}
	return s
}

// process checks one finished run. desc describes the input in violations; pub tells whether the
// public ast.Parse drives the parser the same way (tm always, js: module + Javascript dialect).
func (st *c20sState) process(parser, src, desc string, r *c20sRun, keepGoing, pub bool) {
	c := st.c
	st.runs[parser]++
	if r.timeout {
		c.Count(parser + ": timeout")
		st.timeouts[parser]++
		c.Violate(fmt.Sprintf("shipped %s parser does not terminate (no result after %v)", parser, c20sTimeout), desc)
		return
	}
	if len(r.evs) > st.maxEvents {
		st.maxEvents = len(r.evs)
	}
	failed := r.err != nil
	c.Debugf("shipped %s: %d events, handler calls %d, err %v, panic %v: %s", parser, len(r.evs), r.errCalls, r.err, r.panicked, c20sShort(desc))
	nontrivial := r.errCalls > 0 || failed || r.panicked
	switch {
	case r.panicked:
		c.Count(parser + ": panic")
		c.Violate(fmt.Sprintf("shipped %s parser panicked: %s", parser, r.panicVal), desc)
	case failed:
		c.Count(parser + ": syntax error, gave up")
	case r.errCalls > 0:
		c.Count(parser + ": syntax error recovered")
	default:
		c.Count(parser + ": accepted")
	}
	evs := r.evs
	msg := st.checkStream(evs, len(src))
	if msg != "" {
		c.Violate(parser+": "+msg, desc)
	}
	hasAst := parser == "tm" || parser == "js"

	var root *c20sNode
	var treeText string
	if hasAst {
		var pv string
		root, pv = c20sBuild(parser, src, evs)
		treeText = root.text()
		if pv != "" {
			treeText = "panic"
			if msg == "" {
				c.Violate("ast builder panicked on a well-nested listener stream: "+pv, desc)
			}
		}
		if root != nil && msg == "" {
			st.nodeLoss(parser, src, desc, evs, root)
		}
		if root != nil && pub && !failed && !r.panicked {
			pt, pr := c20sPublicParse(parser, src, keepGoing)
			switch {
			case pr.panicked:
				c.Violate("ast.Parse panicked: "+pr.panicVal, desc)
			case pt != treeText:
				c.Violate("ast.Parse tree differs from the tree built from the listener stream", desc+" ast.Parse="+c20sShort(pt)+" stream="+c20sShort(treeText))
			default:
				c.Count(parser + ": ast.Parse tree equals the tree of the stream")
			}
		}
	}

	// Correspondence cases.
	if len(evs) > c20sMaxRecord || r.panicked {
		if len(evs) > c20sMaxRecord {
			c.Count(parser + ": stream too long to record (checked only)")
		}
		return
	}
	if len(evs) == 0 {
		// Nothing was reported (usually an input rejected at its first token): keep few of these.
		nontrivial = false
		if msg == "" && st.rng.Intn(20) != 0 {
			return
		}
	}
	key := ""
	if nontrivial {
		key = parser + "\x00" + src
	}
	mk := func() c20sRec {
		es := c20EvsStr(evs)
		rec := c20sRec{nestLine: fmt.Sprintf("nest %d %s", len(src), es), verdict: "nested", key: key}
		if msg != "" {
			rec.verdict = "not-nested"
		}
		if hasAst {
			rec.buildLine = fmt.Sprintf("%s %d %d %s", c20BuildFileOp(), st.fileType[parser], len(src), es)
			rec.treeText = treeText
		}
		return rec
	}
	pools := st.pools[parser]
	switch {
	case msg != "":
		pools[2].offer(st.rng, mk)
	case nontrivial:
		pools[0].offer(st.rng, mk)
	default:
		pools[1].offer(st.rng, mk)
	}
}

// nodeLoss compares the nodes of the real tree with the reported ones (plus the File node).
func (st *c20sState) nodeLoss(parser, src, desc string, evs []c20Ev, root *c20sNode) {
	c := st.c
	count := 0
	root.each(func(*c20sNode) { count++ })
	if count == len(evs)+1 {
		return
	}
	want := map[c20Ev]int{{st.fileType[parser], 0, len(src)}: 1}
	for _, e := range evs {
		want[e]++
	}
	root.each(func(n *c20sNode) { want[c20Ev{n.ty, n.off, n.end}]-- })
	var missing, extra []c20Ev
	for e, k := range want {
		for ; k > 0; k-- {
			missing = append(missing, e)
		}
		for ; k < 0; k++ {
			extra = append(extra, e)
		}
	}
	less := func(l []c20Ev) func(i, j int) bool {
		return func(i, j int) bool {
			a, b := l[i], l[j]
			if a.Off != b.Off {
				return a.Off < b.Off
			}
			if a.End != b.End {
				return a.End < b.End
			}
			return a.Ty < b.Ty
		}
	}
	sort.Slice(missing, less(missing))
	sort.Slice(extra, less(extra))
	atEnd := len(extra) == 0
	for _, e := range missing {
		if e.Off != len(src) {
			atEnd = false
		}
	}
	details := fmt.Sprintf("tree has %d nodes, %d reported + File; missing %s", count, len(evs), c20EvsStr(missing))
	if len(extra) > 0 {
		details += "; not reported " + c20EvsStr(extra)
	}
	if atEnd && c20EndOffsetDropped {
		// Known defect (reported once by the start-up probe [C20-end-offset-node-dropped]): build() adds File (0,len) and takes stack[0]; empty nodes reported at
		// offset == len(content) stay outside of File and are dropped.
		c.Count(parser + ": FINDING-CLASS node at the end offset dropped by build()")
		if st.findings {
			c.Violate("tree built by ast builder lacks reported nodes: "+details, desc)
		} else if !st.lossSeen[parser] {
			st.lossSeen[parser] = true
			c.Notes = append(c.Notes, fmt.Sprintf("C20 shipped %s (finding class, first instance): %s; input %s", parser, details, c20sShort(desc)))
		}
		return
	}
	c.Violate("tree built by ast builder lacks reported nodes (none of them at the end offset): "+details, desc)
}

// ---- mutation ----

func c20sTokens(s string) []string {
	var ret []string
	class := func(b byte) int {
		switch {
		case b == ' ' || b == '\t' || b == '\n' || b == '\r':
			return 1
		case b == '_' || b >= '0' && b <= '9' || b >= 'a' && b <= 'z' || b >= 'A' && b <= 'Z':
			return 2
		case b >= 0x80:
			return 3
		}
		return 0
	}
	for i := 0; i < len(s); {
		k := class(s[i])
		j := i + 1
		if k != 0 {
			for j < len(s) && class(s[j]) == k {
				j++
			}
		}
		ret = append(ret, s[i:j])
		i = j
	}
	return ret
}

type c20sMut struct {
	rng      *rand.Rand
	seeds    []string
	alphabet string
	protect  func(rng *rand.Rand, s string) int // length of a prefix that most mutations leave alone
}

// c20sTmProtect: the tm grammar has no error rule in the header, so a damaged header ends the parse;
// keep `language x(y);` (and sometimes everything up to a section marker) intact.
func c20sTmProtect(rng *rand.Rand, s string) int {
	if !strings.HasPrefix(strings.TrimLeft(s, " \t\r\n"), "language") {
		return 0
	}
	k := strings.IndexByte(s, ';') + 1
	for _, marker := range []string{":: lexer", ":: parser"} {
		if i := strings.Index(s, marker); i >= k && rng.Intn(2) == 0 {
			k = i + len(marker)
		}
	}
	return k
}

// window returns the seed itself, or for a large seed its beginning or a random part of it (cut at
// line boundaries when possible).
func (m *c20sMut) window(s string) string {
	if len(s) <= c20sMaxMutLen {
		return s
	}
	size := 300 + m.rng.Intn(c20sMaxMutLen-300)
	if m.rng.Intn(2) == 0 {
		return c20sCutAtLine(s, size)
	}
	start := m.rng.Intn(len(s) - size)
	if i := strings.IndexByte(s[start:], '\n'); i >= 0 && start+i+1+size <= len(s) && i < 200 {
		start += i + 1
	}
	return c20sCutAtLine(s[start:], size)
}

func (m *c20sMut) seed() string { return m.window(m.seeds[m.rng.Intn(len(m.seeds))]) }

func (m *c20sMut) randToken() string {
	for try := 0; try < 4; try++ {
		toks := c20sTokens(m.seed())
		if len(toks) == 0 {
			continue
		}
		t := toks[m.rng.Intn(len(toks))]
		if strings.TrimSpace(t) != "" || try == 3 {
			return t
		}
	}
	return ""
}

func (m *c20sMut) once(s string) string {
	rng := m.rng
	n := len(s)
	pos := func() int { // a position 0..n
		return rng.Intn(n + 1)
	}
	rangeAt := func() (int, int) {
		if n == 0 {
			return 0, 0
		}
		a := rng.Intn(n)
		b := a + 1 + rng.Intn(8)
		if b > n {
			b = n
		}
		return a, b
	}
	switch op := rng.Intn(17); op {
	case 0: // delete a byte
		if n > 0 {
			i := rng.Intn(n)
			return s[:i] + s[i+1:]
		}
	case 1: // duplicate a byte
		if n > 0 {
			i := rng.Intn(n)
			return s[:i+1] + s[i:]
		}
	case 2: // swap two bytes
		if n > 1 {
			b := []byte(s)
			i, j := rng.Intn(n), rng.Intn(n)
			b[i], b[j] = b[j], b[i]
			return string(b)
		}
	case 3: // delete a short range
		a, b := rangeAt()
		return s[:a] + s[b:]
	case 4: // duplicate a short range
		a, b := rangeAt()
		return s[:b] + s[a:]
	case 5: // swap two adjacent short ranges
		a, b := rangeAt()
		e := b + 1 + rng.Intn(8)
		if e > n {
			e = n
		}
		return s[:a] + s[b:e] + s[a:b] + s[e:]
	case 6, 7, 8, 9: // token level
		toks := c20sTokens(s)
		if len(toks) == 0 {
			return m.randToken()
		}
		i := rng.Intn(len(toks))
		switch op {
		case 6: // delete
			toks = append(toks[:i:i], toks[i+1:]...)
		case 7: // duplicate
			toks = append(toks[:i+1:i+1], toks[i:]...)
		case 8: // swap with another token
			j := rng.Intn(len(toks))
			if rng.Intn(2) == 0 && i+2 < len(toks) {
				j = i + 2 // usually the next one after a blank
			}
			toks[i], toks[j] = toks[j], toks[i]
		case 9: // delete a run of tokens
			j := i + 1 + rng.Intn(6)
			if j > len(toks) {
				j = len(toks)
			}
			toks = append(toks[:i:i], toks[j:]...)
		}
		return strings.Join(toks, "")
	case 10, 11: // insert a token of another seed
		toks := c20sTokens(s)
		i := rng.Intn(len(toks) + 1)
		t := m.randToken()
		if op == 11 && i < len(toks) {
			toks[i] = t // replace instead
			return strings.Join(toks, "")
		}
		return strings.Join(toks[:i], "") + t + strings.Join(toks[i:], "")
	case 12: // truncate
		return s[:pos()]
	case 13: // concatenate with another seed
		o := m.seed()
		sep := []string{"", " ", "\n", ";", ","}[rng.Intn(5)]
		if rng.Intn(2) == 0 {
			return s + sep + o
		}
		return o + sep + s
	case 14: // replace a byte by a structural character
		if n > 0 {
			i := rng.Intn(n)
			return s[:i] + string(m.alphabet[rng.Intn(len(m.alphabet))]) + s[i+1:]
		}
	case 15: // insert a structural character
		i := pos()
		return s[:i] + string(m.alphabet[rng.Intn(len(m.alphabet))]) + s[i:]
	case 16: // drop the head
		return s[pos():]
	}
	return s + string(m.alphabet[rng.Intn(len(m.alphabet))])
}

func (m *c20sMut) mutate() string {
	s := m.seed()
	pre := ""
	if m.protect != nil && m.rng.Intn(10) < 7 {
		k := m.protect(m.rng, s)
		pre, s = s[:k], s[k:]
	}
	for k := 1 + m.rng.Intn(3); k > 0; k-- {
		s = m.once(s)
	}
	s = pre + s
	if len(s) > 2*c20sMaxMutLen {
		s = s[:2*c20sMaxMutLen]
	}
	return s
}

// random returns a random byte string of length 0..40: over all bytes, or over the structural
// alphabet plus letters, NUL and bytes that break UTF-8.
func (m *c20sMut) random() string {
	rng := m.rng
	b := make([]byte, rng.Intn(41))
	if rng.Intn(3) == 0 {
		for i := range b {
			b[i] = byte(rng.Intn(256))
		}
		return string(b)
	}
	const letters = "abcdefxyzABZ_0179 \n"
	const odd = "\x00\x80\xbf\xc0\xc3\xe2\xf0\xff"
	for i := range b {
		switch k := rng.Intn(20); {
		case k == 0:
			b[i] = odd[rng.Intn(len(odd))]
		case k < 8:
			b[i] = letters[rng.Intn(len(letters))]
		default:
			b[i] = m.alphabet[rng.Intn(len(m.alphabet))]
		}
	}
	return string(b)
}

// c20sRandJSON produces nested JSON-like text in the dialect of parsers/json (identifiers A and B,
// block comments), with occasional glitches.
func c20sRandJSON(rng *rand.Rand, depth int, sb *strings.Builder) {
	sp := func() {
		switch rng.Intn(8) {
		case 0:
			sb.WriteByte(' ')
		case 1:
			sb.WriteString("\n ")
		case 2:
			sb.WriteString("/* c */")
		case 3:
			if rng.Intn(6) == 0 {
				sb.WriteString("/* ** / */")
			}
		}
	}
	glitch := func() bool { return rng.Intn(40) == 0 }
	str := func() {
		l := []string{`"a"`, `""`, `"b c"`, `"\n"`, `"ኯ"`, `"\""`, `"é"`, `"/*"`}
		sb.WriteString(l[rng.Intn(len(l))])
	}
	sp()
	k := rng.Intn(12)
	if depth <= 0 && k < 5 {
		k += 5
	}
	switch k {
	case 0, 1: // object
		sb.WriteByte('{')
		n := rng.Intn(4)
		for i := 0; i < n; i++ {
			if i > 0 && !glitch() {
				sb.WriteByte(',')
			}
			sp()
			if glitch() {
				sb.WriteString("A")
			} else {
				str()
			}
			sp()
			if !glitch() {
				sb.WriteByte(':')
			}
			c20sRandJSON(rng, depth-1, sb)
		}
		sp()
		if !glitch() {
			sb.WriteByte('}')
		}
	case 2, 3, 4: // array
		sb.WriteByte('[')
		n := rng.Intn(4)
		for i := 0; i < n; i++ {
			if i > 0 && !glitch() {
				sb.WriteByte(',')
			}
			c20sRandJSON(rng, depth-1, sb)
		}
		sp()
		if !glitch() {
			sb.WriteByte(']')
		} else if rng.Intn(2) == 0 {
			sb.WriteByte('}')
		}
	case 5:
		str()
	case 6:
		l := []string{"0", "-1", "12.50", "1e9", "-0.5E-3", "01", "1.", "-"}
		sb.WriteString(l[rng.Intn(len(l))])
	case 7:
		sb.WriteString([]string{"null", "true", "false"}[rng.Intn(3)])
	case 8:
		sb.WriteString([]string{"A", "B", "A", "abc", "nul"}[rng.Intn(5)])
	case 9:
		sb.WriteString("{}")
	case 10:
		sb.WriteString("[]")
	default:
		sb.WriteString([]string{"%", "{ /* x */ }", "\"", "'", "{{}}", "\x00"}[rng.Intn(6)])
	}
	sp()
}

// ---- the generator ----

func init() { c20Parts["shipped"] = c20Shipped }

func c20Shipped(c *Ctx) {
	repo := os.Getenv("VERIF_REPO")
	if repo == "" {
		repo = "/repo"
	}
	rng := c.Rng
	thorough := c.Tier == "thorough"
	st := &c20sState{c: c, rng: rng, findings: false, runs: map[string]int{}, timeouts: map[string]int{},
		pools:    map[string]*[3]c20sPool{},
		fileType: map[string]int{"tm": int(tm.File), "js": int(js.File)},
		lossSeen: map[string]bool{}}
	perParser := c.N(300, 3000) / len(c20sParsers)
	for _, p := range c20sParsers {
		st.pools[p] = &[3]c20sPool{{cap: perParser}, {cap: perParser}, {cap: 5}}
	}

	// Seeds.
	pj := func(parts ...string) string { return filepath.Join(append([]string{repo, "parsers"}, parts...)...) }
	seeds := map[string][]c20sSeed{}
	for _, p := range c20sParsers {
		seeds[p] = append(seeds[p], c20sExtract(pj(p, "parser_test.go"), false)...)
		seeds[p] = append(seeds[p], c20sExtract(pj(p, "lexer_test.go"), true)...)
	}
	seeds["tm"] = append(seeds["tm"], c20sExtract(pj("tm", "ast", "parser_test.go"), false)...)
	seeds["tm"] = append(seeds["tm"], c20sExtract(pj("tm", "ast", "tree_test.go"), false)...)
	fromTests := map[string]int{}
	for _, p := range c20sParsers {
		if p != "js" {
			for i := range seeds[p] {
				seeds[p][i].mode, seeds[p][i].dialect = 0, -1
			}
		}
		seeds[p] = c20sDedup(seeds[p])
		fromTests[p] = len(seeds[p])
	}
	tmFiles, errFiles := c20sGrammarFiles(repo)
	grammars := 0
	mainGrammar := filepath.Join(repo, "parsers", "tm", "textmapper.tm")
	for i, f := range tmFiles {
		b, err := os.ReadFile(f)
		if err != nil {
			continue
		}
		s := string(b)
		if !thorough {
			if f == mainGrammar {
				s = c20sCutAtLine(s, 6000)
			} else if i >= 6 {
				continue
			}
		}
		seeds["tm"] = append(seeds["tm"], c20sSeed{s, 0, -1})
		grammars++
	}
	for _, f := range errFiles {
		b, err := os.ReadFile(f)
		if err != nil || (!thorough && len(b) > 4000) {
			continue
		}
		seeds["tm"] = append(seeds["tm"], c20sSeed{c20sStrip(string(b)), 0, -1})
		grammars++
	}
	seeds["tm"] = c20sDedup(seeds["tm"])
	for _, p := range c20sParsers {
		if len(seeds[p]) == 0 {
			c.Violate("C20 harness: no seed inputs found for the "+p+" parser below "+repo, "-")
			seeds[p] = []c20sSeed{{"", 0, -1}}
		}
	}

	texts := func(p string) []string {
		seen := map[string]bool{}
		var ret []string
		for _, s := range seeds[p] {
			if !seen[s.src] {
				seen[s.src] = true
				ret = append(ret, s.src)
			}
		}
		return ret
	}
	muts := map[string]*c20sMut{
		"tm":   {rng, texts("tm"), "{}()[];:,'\"/*<>=+-|&\n %?$@#~!.\\", c20sTmProtect},
		"js":   {rng, texts("js"), "{}()[];:,'\"/*<>=+-|&\n `$?.!~%^@#\\", nil},
		"json": {rng, texts("json"), "{}[]:,\"/*\\ \n-.0eAB%", nil},
		"test": {rng, texts("test"), "{}()[];:,.+-%\\ \n/*!<>=\"'", nil},
	}

	c20sMuts = muts
	q := func(s string) string { return fmt.Sprintf("%q", s) }
	dead := func(p string) bool {
		if st.timeouts[p] >= 3 {
			c.Count(p + ": not run after 3 runs that did not terminate")
			return true
		}
		return false
	}
	doTm := func(src string, keep bool) {
		if dead("tm") {
			return
		}
		desc := q(src)
		if !keep {
			desc = "handler=stop " + desc
		}
		st.process("tm", src, desc, c20sRunTm(src, keep), keep, true)
	}
	doJs := func(src string, dialect, mode int, keep bool) {
		if dead("js") {
			return
		}
		desc := fmt.Sprintf("dialect=%s entry=%s ", c20sDialectNames[dialect], c20sModeNames[mode])
		if !keep {
			desc += "handler=stop "
		}
		st.process("js", src, desc+q(src), c20sRunJs(src, dialect, mode, keep), keep, dialect == 0 && mode == 0)
	}
	doJSON := func(src string) {
		if !dead("json") {
			st.process("json", src, q(src), c20sRunJSON(src), false, false)
		}
	}
	doTest := func(src string) {
		if !dead("test") {
			st.process("test", src, q(src), c20sRunTest(src), false, false)
		}
	}

	// 1. Every seed as it is.
	for _, s := range seeds["tm"] {
		doTm(s.src, true)
		doTm(s.src, false)
	}
	for _, s := range seeds["js"] {
		for d := range c20sDialects {
			if s.dialect >= 0 && d != s.dialect && !thorough && rng.Intn(3) != 0 {
				continue // quick tier: the other dialects for a third of the inputs
			}
			doJs(s.src, d, s.mode, true)
		}
		if rng.Intn(4) == 0 {
			d := s.dialect
			if d < 0 {
				d = rng.Intn(3)
			}
			doJs(s.src, d, s.mode, false)
		}
	}
	for _, s := range seeds["json"] {
		doJSON(s.src)
	}
	restoreStderr := c20sQuietStderr()
	for _, s := range seeds["test"] {
		doTest(s.src)
	}
	restoreStderr()

	// 2. Mutations and random bytes.
	jsSeeds := seeds["js"]
	jsBySrc := map[string]c20sSeed{}
	for _, s := range jsSeeds {
		if _, ok := jsBySrc[s.src]; !ok {
			jsBySrc[s.src] = s
		}
	}
	gen := func(m *c20sMut) string {
		if rng.Intn(8) == 0 {
			return m.random()
		}
		return m.mutate()
	}
	for i, n := 0, c.N(22000, 660000); i < n; i++ {
		doTm(gen(muts["tm"]), rng.Intn(5) != 0)
	}
	for i, n := 0, c.N(22000, 660000); i < n; i++ {
		// js: mutate one seed and keep its dialect and entry point most of the time.
		m := muts["js"]
		var src string
		d, mode := rng.Intn(3), 0
		if rng.Intn(8) == 0 {
			src = m.random()
			if rng.Intn(4) == 0 {
				mode = rng.Intn(3)
			}
		} else {
			s := jsSeeds[rng.Intn(len(jsSeeds))]
			src = m.window(s.src)
			for k := 1 + rng.Intn(3); k > 0; k-- {
				src = m.once(src)
			}
			if len(src) > 2*c20sMaxMutLen {
				src = src[:2*c20sMaxMutLen]
			}
			if s.dialect >= 0 && rng.Intn(5) != 0 {
				d = s.dialect
			}
			mode = s.mode
			if rng.Intn(8) == 0 {
				mode = rng.Intn(3)
			}
		}
		doJs(src, d, mode, rng.Intn(6) != 0)
	}
	for i, n := 0, c.N(16000, 480000); i < n; i++ {
		var src string
		switch k := rng.Intn(10); {
		case k < 4:
			var sb strings.Builder
			c20sRandJSON(rng, 1+rng.Intn(5), &sb)
			src = sb.String()
			if rng.Intn(3) == 0 {
				m := muts["json"]
				src = m.once(src)
			}
		default:
			src = gen(muts["json"])
		}
		doJSON(src)
	}
	restoreStderr = c20sQuietStderr()
	for i, n := 0, c.N(16000, 480000); i < n; i++ {
		doTest(gen(muts["test"]))
	}
	restoreStderr()

	// 3. Correspondence cases: per parser the non-trivial ones first, then accepted inputs.
	recorded := 0
	for _, p := range c20sParsers {
		pools := st.pools[p]
		var recs []c20sRec
		recs = append(recs, pools[2].recs...)
		nt := pools[0].recs
		tr := pools[1].recs
		// keep a fifth of the budget for inputs without a syntax error when there are any
		keepTrivial := min(len(tr), perParser/5)
		if len(nt) > perParser-keepTrivial {
			nt = nt[:perParser-keepTrivial]
		}
		recs = append(recs, nt...)
		if room := perParser - len(nt); len(tr) > room {
			tr = tr[:room]
		}
		recs = append(recs, tr...)
		for _, r := range recs {
			c.Case(r.nestLine, r.verdict, r.key)
			recorded++
			if r.buildLine != "" {
				c.Case(r.buildLine, r.treeText, r.key)
			}
		}
	}

	extra := map[string]int{"max events in one stream": st.maxEvents, "streams checked by window and sample": st.bigChecks,
		"nest cases recorded": recorded, "grammar files (.tm, .tmerr) used as tm seeds": grammars}
	for _, p := range c20sParsers {
		extra["seeds "+p] = len(seeds[p])
		extra["seeds "+p+" from Go tests"] = fromTests[p]
		extra["runs "+p] = st.runs[p]
	}
	c.Extra["c20_shipped"] = extra
	c20RuleExtra += "Shipped parsers: nothing is excluded from generation; a tree that lacks only nodes reported at offset == len(input) " +
		"(empty node after the File range, dropped by builder.build()) is counted as FINDING-CLASS while the start-up probe fails, any other lost node is a violation; " +
		"the public ast.Parse is compared for tm and for js modules in the Javascript dialect only (it has no dialect or entry-point argument); " +
		"json and test have no error handler, their non-trivial cases are the rejected inputs; streams over 3000 events are checked on a random window plus 200 sampled events against all others. "
}
