package main

// C11: generated Go lexers tokenize exactly as the lexer rules specify.
//
// Sampled lexer grammars x options go through the REAL compiler.Compile + gen.Generate; the generated
// lexer packages are built into ONE runner binary (lexBatch in lexgen.go) which prints the
// (token, offset, endoffset, line, column) sequence per input. The Lean side replays every input
// with the model of go_lexer.go.tmpl (Model/LexRun.lean) on the real tables.
// Independent oracles on the Go side (c.Violate): token positions recomputed from the text,
// tokenization by the real lex.Tables.Scan + keyword map on a twin grammar compiled in rule mode,
// inline-mode lexer vs rule-mode twin.

import (
	"fmt"
	"sort"
	"strings"
	"time"
	"unicode/utf8"

	"github.com/inspirer/textmapper/gen"
)

func init() { props["C11"] = c11 }

// ---- probes for the known defect classes ----

const c11ColProbe = `language pc(go);
lang = "pc"
package = "gp/pc"
tokenColumn = true
:: lexer
ws: /[ \n]+/ (space)
id: /[a-z]+/
`

const c11ColProbe2 = `language pd(go);
lang = "pd"
package = "gp/pd"
tokenLine = false
tokenColumn = true
:: lexer
ws: /[ \n]+/ (space)
id: /[a-z]+/
`

const c11HashProbe = `language ph(go);
lang = "ph"
package = "gp/ph"
scanBytes = true
:: lexer
ws: /[ \n]+/ (space)
id: /[a-z\x80-\xff]+/ (class)
'if': /if/
'été': /été/
`

func c11(c *Ctx) {
	c.Rule = "lexer grammars sampled from rule families (whitespace as (space) rule or newline token, line/block comments, identifiers as (class) rule or low-priority rule over ASCII / \\p{L} (symbol map > 2048 entries, mapRune) / Cyrillic+Latin-1 / negated class / [a-z\\x80-\\xff] in byte mode, 0-20 keywords ASCII and non-ASCII (hash-bucket collisions, switch size 8-32), numbers with backtracking floats, two rules sharing one token (rule ids + tmToken), operator families needing backtracking, strings with explicit invalid_token rule, {eoi} inside a pattern, a code action, %s/%x start conditions with <a,b>/<*> prefixes) x options tokenLine/tokenLineOffset/tokenColumn/scanBytes/nonBacktracking/skipByteOrderMark/caseInsensitive; every grammar is compiled by the REAL compiler+generator twice (as is, and with one empty code action forcing rule ids) and built into one runner binary; inputs: 0-13 fragments exercising the rules plus multi-byte runes, invalid UTF-8 (lone continuation, truncated, surrogate, overlong, > U+10FFFF), BOM at the start and inside, random bytes; every start condition is entered through l.State. Per grammar one case: the Lean model of go_lexer.go.tmpl replays all inputs on the real tables (token, offsets, line, column compared exactly; TablesWF, the 0x110000-rune class-map enumeration and the no-{eoi} flag are part of the answer). Go-side oracles independent of the model: positions recomputed from the text, tokenization by the real lex.Tables.Scan + keyword maps on the rule-id twin, inline lexer == rule-id twin. Also utf8.DecodeRuneInString vs the Lean decoder (all 1-2 byte strings, sampled 3-4 byte) and asStringSwitch vs its mirror on random maps. Defect classes probed at start: C11-column (template stores the offset of the newline; lineOffset only maintained with tokenLine) and C11-bytes-hash (stringHash over runes for a byte-mode lexer); while the probe fails the witness is reported, the class is sampled only against the model (current-tree variant) and left out of the Go oracles. non-trivial = grammar with a class rule, backtracking, several start conditions or a symbol map > 2048; distinct by grammar text"
	r := c.Rng

	// 1. utf8 decoder
	c11Decode(c)
	// 2. keyword switch generator
	c11Switch(c)

	// 3. generated lexers
	nG := c.N(22, 360)
	perBatch := 24
	first := true
	variant := lexVariant{}
	for done := 0; done < nG; done += perBatch {
		b, err := newLexBatch()
		if err != nil {
			c.Notes = append(c.Notes, "cannot create scratch dir: "+err.Error())
			return
		}
		type item struct {
			g          *lexGram
			gp, twin   *GenParser
			inputs     []lexReq
			mirrorOnly bool
		}
		var probes []*GenParser
		if first {
			for i, src := range []string{c11ColProbe, c11ColProbe2, c11HashProbe} {
				gp := compileTM([]string{"pc", "pd", "ph"}[i], src, TMOpts{})
				if gp.Err != nil {
					c.Violate("probe grammar does not compile: "+errSummary(gp.Err), src)
					b.Close()
					return
				}
				probes = append(probes, gp)
				b.Add(gp)
			}
		}
		// variant needed by the generator: probe lexers are built together with the first batch, so the
		// first batch is generated under the pessimistic assumption and the probe decides afterwards.
		var items []*item
		t0 := time.Now()
		for k := 0; k < perBatch && done+k < nG; k++ {
			name := fmt.Sprintf("g%d", done+k)
			hashBuggy := first || !variant.HashFix
			g := genLexGram(r, name, hashBuggy)
			mirror := false
			if hashBuggy && k == 0 {
				// dedicated mirror grammar for the byte-mode keyword class (model only)
				g = &lexGram{Name: name, NState: 1, Opts: lexOpts{TokenLine: true, ScanBytes: true}, NonASCIIKwBytes: true,
					Tags: []string{"class-rule", "non-ascii-keyword", "mirror-bytes-hash"}}
				g.Rules = []lexRule{{name: "ws", pat: `[ \n]+`, attr: "(space)"}, {name: "id", pat: `[a-z\x80-\xff]+`, attr: "(class)"},
					{name: "'if'", pat: "if"}, {name: "'été'", pat: "été"}, {name: "'é'", pat: "é"}, {name: "'ça'", pat: "ça"}}
				g.Frags = []string{"if", "été", "é", "ça", " ", "\n", "x", "\xe9t\xe9", "\xc3"}
				mirror = true
			}
			gp := compileTM(name, g.TM(false), TMOpts{})
			if gp.Err != nil {
				c.Count("grammar rejected: " + lexFirstWords(errSummary(gp.Err), 5))
				continue
			}
			if gp.G.Lexer == nil || gp.G.Lexer.Tables == nil {
				c.Count("no lexer tables")
				continue
			}
			if t := gp.G.Lexer.Tables; t.LastMapEntry().Start > 2048 {
				// inputs at the ends of the compressed rune ranges (tmRuneRanges) +-1
				cm := t.CompressedMap(256)
				for k := 0; k < 8 && len(cm) > 0; k++ {
					e := cm[r.Intn(len(cm))]
					for _, x := range []rune{e.Lo - 1, e.Lo, e.Hi - 1, e.Hi, e.Hi + 1, e.Lo + rune(len(e.Vals)), e.Lo + rune(len(e.Vals)) - 1} {
						if x >= 0x80 && x <= 0x10ffff && (x < 0xd800 || x > 0xdfff) {
							g.Frags = append(g.Frags, string(x))
						}
					}
				}
			}
			it := &item{g: g, gp: gp, mirrorOnly: mirror}
			if gp.G.Lexer.RuleToken == nil {
				tg := *g
				tg.Name = name + "t"
				tw := compileTM(tg.Name, tg.TM(true), TMOpts{})
				if tw.Err == nil && tw.G.Lexer.RuleToken != nil {
					it.twin = tw
					b.Add(tw)
				}
			}
			b.Add(gp)
			items = append(items, it)
		}
		tCompile := time.Since(t0)
		t0 = time.Now()
		if err := b.Build(); err != nil {
			tm := ""
			if len(items) > 0 {
				tm = items[0].gp.TM
			}
			c.Violate("generated lexers do not build: "+err.Error(), tm)
			b.Close()
			return
		}
		if first {
			first = false
			outs := b.Run([]lexReq{{"pc", 0, "a\nb\n  c"}, {"pd", 0, "a\nb\n  c"}, {"ph", 0, "if été"}})
			pc, _ := parseSeq(outs[0])
			pd, _ := parseSeq(outs[1])
			ph, _ := parseSeq(outs[2])
			colOK := len(pc) >= 3 && pc[1].Col == 1 && pc[2].Col == 3
			colOK2 := len(pd) >= 3 && pd[1].Col == 1 && pd[2].Col == 3
			variant.ColFix = colOK && colOK2
			if !colOK {
				c.Violate("Column() of a token after the first line is one too large (go_lexer.go.tmpl stores l.lineOffset = l.offset, the offset of the newline itself)",
					"C11-column grammar: tokenColumn = true; ws: /[ \\n]+/ (space); id: /[a-z]+/  input \"a\\nb\\n  c\"  generated lexer: "+outs[0]+"  want columns 1,1,3")
			} else if !colOK2 {
				c.Violate("Column() ignores line breaks when tokenLine = false (lineOffset is maintained inside the tokenLine guard only)",
					"C11-column grammar: tokenLine = false, tokenColumn = true; input \"a\\nb\\n  c\"  generated lexer: "+outs[1]+"  want columns 1,1,3")
			}
			kw := lexTokenID(probes[2], "'été'")
			variant.HashFix = len(ph) >= 2 && ph[1].Tok == kw
			if !variant.HashFix {
				c.Violate("a byte-mode lexer never returns a non-ASCII keyword of a (class) rule (gen/funcs.go stringHash hashes runes, the generated lexer hashes bytes)",
					fmt.Sprintf("C11-bytes-hash grammar: scanBytes = true; id: /[a-z\\x80-\\xff]+/ (class); 'if': /if/; 'été': /été/  input \"if été\"  generated lexer: %s  want token %d for été", outs[2], kw))
			}
			c.Extra["variant_observed"] = map[string]bool{"colFix": variant.ColFix, "hashFix": variant.HashFix}
			c.Extra["class_map_enumeration"] = "exhaustive: for every table the Lean driver compares the generated class lookup (tmRuneClass / mapRune / default) with the symbol map on all 0x110000 runes (256 bytes in byte mode); the verdict is the `map=` field of every lex answer and the ClassOk hypothesis of C11_next_refines_scan"
			// the probe lexers are cases for the model as well (observed variant)
			for i, pr := range probes {
				_, sp := spaceSet(pr.G)
				in := []string{"a\nb\n  c", "a\nb\n  c", "if été"}[i]
				c.Case(lexProto(variant, pr.G.Options, pr.G.Lexer, sp, nil)+" 0:"+hexs([]byte(in)),
					fmt.Sprintf("wf=1 map=1 eoif=%s %s", b2s(eoiFinalGo(pr.G.Lexer.Tables)), outs[i]), "")
			}
		}
		// inputs
		nIn := c.N(40, 80)
		var reqs []lexReq
		type meta struct {
			it   *item
			twin bool
		}
		var metas []meta
		for _, it := range items {
			for i := 0; i < nIn; i++ {
				st := 0
				if it.g.NState > 1 {
					st = r.Intn(it.g.NState)
				}
				text := genLexText(r, it.g.Frags)
				it.inputs = append(it.inputs, lexReq{it.gp.Name, st, text})
			}
			for _, in := range it.inputs {
				reqs = append(reqs, in)
				metas = append(metas, meta{it, false})
			}
			if it.twin != nil {
				for _, in := range it.inputs {
					reqs = append(reqs, lexReq{it.twin.Name, in.State, in.Text})
					metas = append(metas, meta{it, true})
				}
			}
		}
		tBuild := time.Since(t0)
		t0 = time.Now()
		outs := b.Run(reqs)
		b.Close()
		c.Extra[fmt.Sprintf("timing_batch_%d", done)] = fmt.Sprintf("compile+generate %v, go build %v (incl. probe run), run %v", tCompile.Round(time.Millisecond), tBuild.Round(time.Millisecond), time.Since(t0).Round(time.Millisecond))
		// group outputs
		res := map[*item][2][]string{}
		for i, m := range metas {
			pair := res[m.it]
			if m.twin {
				pair[1] = append(pair[1], outs[i])
			} else {
				pair[0] = append(pair[0], outs[i])
			}
			res[m.it] = pair
		}
		for _, it := range items {
			pair := res[it]
			c11Judge(c, variant, it.g, it.gp, it.twin, it.inputs, pair[0], pair[1], it.mirrorOnly)
		}
	}
}

// c11Judge emits the case lines of one grammar and runs the Go-side oracles.
func c11Judge(c *Ctx, v lexVariant, g *lexGram, gp, twin *GenParser, inputs []lexReq, outs, twinOuts []string, mirrorOnly bool) {
	lx := gp.G.Lexer
	o := gp.G.Options
	_, spaces := spaceSet(gp.G)
	for _, tg := range g.Tags {
		c.Count("feature: " + tg)
	}
	if lx.RuleToken == nil {
		c.Count("mode: token ids inlined")
	} else {
		c.Count("mode: rule ids (tmToken)")
	}
	if len(lx.Tables.Backtrack) > 0 {
		c.Count("tables: backtracking")
	}
	if lx.Tables.LastMapEntry().Start > 2048 {
		c.Count("tables: mapRune (symbol map > 2048)")
	}
	if o.ScanBytes {
		c.Count("option: scanBytes")
	}
	if o.TokenColumn {
		c.Count("option: tokenColumn")
	}
	if !o.TokenLine {
		c.Count("option: tokenLine=false")
	}
	key := ""
	if len(lx.ClassActions) > 0 || len(lx.Tables.Backtrack) > 0 || len(lx.StartConditions) > 1 || lx.Tables.LastMapEntry().Start > 2048 {
		key = gp.TM
	}
	line := lexProto(v, o, lx, spaces, nil)
	var ins []string
	for _, in := range inputs {
		ins = append(ins, fmt.Sprintf("%d:%s", in.State, hexs([]byte(in.Text))))
	}
	// the model also reports wf / map / eoif; the Go side expects well-formed tables and a correct class map
	eoif := eoiFinalGo(lx.Tables)
	ans := fmt.Sprintf("wf=1 map=1 eoif=%s %s", b2s(eoif), strings.Join(outs, "|"))
	c.Case(line+" "+strings.Join(ins, " "), ans, key)
	if twin != nil {
		_, tsp := spaceSet(twin.G)
		tl := lexProto(v, twin.G.Options, twin.G.Lexer, tsp, nil)
		tans := fmt.Sprintf("wf=1 map=1 eoif=%s %s", b2s(eoiFinalGo(twin.G.Lexer.Tables)), strings.Join(twinOuts, "|"))
		c.Case(tl+" "+strings.Join(ins, " "), tans, "")
	}
	if mirrorOnly {
		return
	}
	// ---- oracles ----
	ruleG := gp
	ruleOuts := outs
	if lx.RuleToken == nil {
		ruleG = twin
		ruleOuts = twinOuts
	}
	var rspace map[int]bool
	if ruleG != nil {
		rspace, _ = spaceSet(ruleG.G)
	}
	// the rules themselves, without the grammar compiler
	ref, refErr := buildLexRef(g)
	if refErr != nil || !eoiFinalGo(ref.t) {
		ref = nil
		c.Count("rule-level reference: not applicable ({eoi} or rules rejected by lex.Compile)")
	} else {
		c.Count("rule-level reference: compared")
	}
	// the rules alone: own regular-expression reading, own case folding, derivative matcher
	rx, rxErr := buildRxLexer(g)
	if rxErr != nil {
		rx = nil
		c.Count("text-level oracle: pattern outside its subset")
	} else {
		c.Count("text-level oracle: compared")
	}
	for i, in := range inputs {
		seq, ok := parseSeq(outs[i])
		desc := fmt.Sprintf("grammar:\n%s\nstate=%d input=%q", gp.TM, in.State, in.Text)
		if !ok {
			c.Violate("generated lexer failed: "+outs[i], desc)
			continue
		}
		if msg := checkPositions(in.Text, untilEOI(seq), o.TokenLine, o.TokenColumn, v.ColFix); msg != "" {
			c.Violate("token position: "+msg, desc)
		}
		if rx != nil {
			if want, wok := rx.tokenize(in.State, in.Text, len(in.Text)+3); wok {
				got := untilEOI(seq)
				same := len(got) == len(want)
				var gs []string
				for k, t := range got {
					name := "?"
					if t.Tok >= 0 && t.Tok < len(gp.G.Syms) {
						name = gp.G.Syms[t.Tok].Name
					}
					gs = append(gs, fmt.Sprintf("%s[%d,%d)", name, t.S, t.E))
					if same && (want[k].Name != name || want[k].S != t.S || want[k].E != t.E) {
						same = false
					}
				}
				if !same {
					var ws []string
					for _, t := range want {
						ws = append(ws, fmt.Sprintf("%s[%d,%d)", t.Name, t.S, t.E))
					}
					c.Violate(fmt.Sprintf("generated lexer returns %s; the text of the rules (longest match of the patterns read by the harness's own matcher, own case folding, priorities, keyword over class rule) specifies %s", strings.Join(gs, " "), strings.Join(ws, " ")), desc)
				}
			} else {
				c.Count("text-level oracle: input with tied rules skipped")
			}
		}
		if ref != nil {
			want := ref.tokenize(in.State, in.Text, len(in.Text)+3)
			got := untilEOI(seq)
			same := len(got) == len(want)
			var gs []string
			for k, t := range got {
				name := "?"
				if t.Tok >= 0 && t.Tok < len(gp.G.Syms) {
					name = gp.G.Syms[t.Tok].Name
				}
				gs = append(gs, fmt.Sprintf("%s[%d,%d)", name, t.S, t.E))
				if same && (want[k].Name != name || want[k].S != t.S || want[k].E != t.E) {
					same = false
				}
			}
			if !same {
				var ws []string
				for _, t := range want {
					ws = append(ws, fmt.Sprintf("%s[%d,%d)", t.Name, t.S, t.E))
				}
				c.Violate(fmt.Sprintf("generated lexer returns %s; the lexer rules (each lexeme one lex.Rule in its start conditions, longest match, priority, keyword over its class rule) specify %s", strings.Join(gs, " "), strings.Join(ws, " ")), desc)
			}
		}
		if twin != nil {
			tseq, _ := parseSeq(twinOuts[i])
			if !sameTokens(seq, tseq) {
				c.Violate(fmt.Sprintf("the lexer with inlined token ids returns %s, the same grammar compiled with rule ids returns %s", fmtToks(seq), fmtToks(tseq)), desc)
			}
		}
		if ruleG != nil && eoiFinalGo(ruleG.G.Lexer.Tables) {
			rseq, _ := parseSeq(ruleOuts[i])
			want := scanTokenize(ruleG.G.Options, ruleG.G.Lexer, rspace, in.State, in.Text, len(in.Text)+3)
			if !sameTokens(untilEOI(rseq), want) {
				c.Violate(fmt.Sprintf("generated lexer returns %s, lex.Tables.Scan + keyword map specify %s", fmtToks(untilEOI(rseq)), fmtToks(want)), desc)
			}
		}
	}
}

// ---- utf8 ----

func c11Decode(c *Ctx) {
	emit := func(b []byte) {
		r, w := utf8.DecodeRune(b)
		c.Case("dec "+hexs(b), fmt.Sprintf("%d:%d", r, w), "")
	}
	// exhaustive 1 and 2 byte strings are cheap: 256 + 65536 would dominate; sample the 2-byte plane on lead >= 0x80
	emit(nil)
	for a := 0; a < 256; a++ {
		emit([]byte{byte(a)})
	}
	for a := 0x80; a < 256; a++ {
		for _, b := range []int{0x00, 0x7f, 0x80, 0x8f, 0x90, 0x9f, 0xa0, 0xbf, 0xc0, 0xff} {
			emit([]byte{byte(a), byte(b)})
			for _, d := range []int{0x7f, 0x80, 0xbf, 0xc0} {
				emit([]byte{byte(a), byte(b), byte(d)})
			}
		}
	}
	n := c.N(2000, 20000)
	for i := 0; i < n; i++ {
		var b []byte
		if c.Rng.Intn(2) == 0 {
			b = utf8.AppendRune(nil, rune(c.Rng.Intn(0x110000)))
			if c.Rng.Intn(4) == 0 && len(b) > 1 {
				b[c.Rng.Intn(len(b))] ^= byte(1 << c.Rng.Intn(8))
			}
			if c.Rng.Intn(6) == 0 {
				b = b[:c.Rng.Intn(len(b))+1]
			}
		} else {
			b = make([]byte, 1+c.Rng.Intn(4))
			for j := range b {
				b[j] = byte(0x80 + c.Rng.Intn(0x80))
			}
			b[0] = byte(0xc0 + c.Rng.Intn(0x40))
		}
		emit(b)
	}
	c.Count("utf8 decode cases")
}

// ---- asStringSwitch ----

func c11Switch(c *Ctx) {
	n := c.N(300, 3000)
	pool := append(append([]string{}, c11Keywords...), c11UniKeywords...)
	for i := 0; i < n; i++ {
		m := map[string]int{}
		k := []int{0, 1, 2, 5, 8, 9, 16, 17, 33, 40}[c.Rng.Intn(10)]
		for len(m) < k {
			var s string
			if c.Rng.Intn(3) == 0 {
				s = pick(c.Rng, pool)
			} else {
				l := 1 + c.Rng.Intn(4)
				var sb strings.Builder
				for j := 0; j < l; j++ {
					sb.WriteByte("abcxyz01"[c.Rng.Intn(8)])
				}
				s = sb.String()
			}
			m[s] = 2 + c.Rng.Intn(50)
		}
		size, cases := gen.VerifAsStringSwitch(m)
		var cs []string
		for _, hc := range cases {
			var subs []string
			for _, s := range hc.Subcases {
				subs = append(subs, fmt.Sprintf("%d.%s.%d", s.Hash, hexs([]byte(s.Str)), s.Action))
			}
			cs = append(cs, fmt.Sprintf("%d:%s", hc.Value, strings.Join(subs, "/")))
		}
		var kv []string
		keys := sortedKeys(m)
		// the association list is sent in a shuffled order: the result must not depend on it
		c.Rng.Shuffle(len(keys), func(a, b int) { keys[a], keys[b] = keys[b], keys[a] })
		for _, key := range keys {
			kv = append(kv, fmt.Sprintf("%s=%d", hexs([]byte(key)), m[key]))
		}
		ms := "-"
		if len(kv) > 0 {
			ms = strings.Join(kv, ",")
		}
		key := ""
		if len(cases) < len(m) {
			key = ms // some bucket has a collision
		}
		c.Case("sw 0 "+ms, fmt.Sprintf("%d;%s", size, strings.Join(cs, ";")), key)
	}
	c.Count("asStringSwitch cases")
	sort.Strings(pool)
}
