package main

import (
	"fmt"

	"github.com/inspirer/textmapper/lalr"
)

func init() {
	props["C05"] = c05
	props["C06"] = c06
}

// C05: real lalr.Compile with Optimize (and DefaultReduce); Lean decodes BOTH encodings from the real
// arrays and compares every (state, terminal) cell and every existing (state, nonterminal) goto.
func c05(c *Ctx) {
	c.Rule = "random CFGs incl. precedence/nonassoc (explicit error cells) compiled by the real lalr.Compile with Optimize=true, DefaultReduce on/off, MinimizeDFA on/off; every state x symbol cell of the displacement encoding is decoded in Lean and compared with the default encoding; non-trivial = packed table has at least 2 lines sharing cells (len(Table) < sum of line spans) ; distinct by grammar+options"
	c.Rule += "; packer level: lalr.pack itself (hook VerifPack) on random sparse lines incl. exact duplicates and DIFFERENT lines of equal length with colliding base-31 hashes, wide and narrow; Lean evaluates the decode specification Pack.packOk (every cell reads back, every other position reads as absent) on the real output"
	c05Pack(c)
	n := c.N(1200, 30000)
	for i := 0; i < n; i++ {
		cfg := GramCfg{MaxNT: 6, MaxNN: 6, MaxRules: 4, MaxRHS: 4, MultiInput: true, PEmpty: 0.15, Prec: c.Rng.Intn(2) == 0}
		if i%5 == 4 {
			cfg.MaxNN, cfg.MaxNT = 9, 8
		}
		g := RandGram(c.Rng, cfg)
		dr := c.Rng.Intn(2) == 0
		opts := lalr.Options{Optimize: true, DefaultReduce: dr, MinimizeDFA: c.Rng.Intn(3) == 0}
		lg := g.Lalr()
		lg.ExpectSR, lg.ExpectRR = -1, -1 // conflicts are fine here
		t, _, pan := compileLalr(lg, opts)
		if pan != "" {
			c.Violate("lalr.Compile(Optimize) panicked: "+pan, g.Pretty())
			continue
		}
		if t.Optimized == nil {
			c.Violate("Optimize requested but no displacement encoding produced", g.Pretty())
			continue
		}
		c.Count(fmt.Sprintf("defaultReduce=%v", dr))
		c.Count(fmt.Sprintf("states<=%d", (len(t.Action)/10+1)*10))
		key := ""
		if len(t.Optimized.Table) > 8 {
			key = g.String() + fmt.Sprint(opts.DefaultReduce, opts.MinimizeDFA)
		}
		c.Case(fmt.Sprintf("opt %s %s", tablesStr(t, g.NT), b2s(dr)), "ok", key)
	}
}

// C06: the same grammar compiled with and without MinimizeDFA; Lean builds the simulation relation
// seeded with (i,i) for every input and checks actions / acceptance on every related pair.
func c06(c *Ctx) {
	c.Rule = "random CFGs (several inputs, eoi/no-eoi; rules share semantic-action ids so that rule classes are non-trivial) compiled by the real lalr.Compile with and without MinimizeDFA; Lean checks a functional simulation from entry pairs (i,i): equal cells up to rule class on every terminal, same outgoing symbols, final states in correspondence; non-trivial = minimisation merged at least one pair of states"
	n := c.N(1200, 30000)
	for i := 0; i < n; i++ {
		cfg := GramCfg{MaxNT: 5, MaxNN: 6, MaxRules: 4, MaxRHS: 4, MultiInput: true, PEmpty: 0.15, Prec: c.Rng.Intn(4) == 0}
		g := RandGram(c.Rng, cfg)
		if cfg.Prec && c.Rng.Intn(2) == 0 {
			// ambiguous expression grammars with %left/%right/%nonassoc: states after `E op1 E` and
			// `E op2 E` whose rows differ only in shift / nonassoc-error entries
			g = exprGram(c.Rng, cfg)
			c.Count("expression grammar with precedence")
		}
		// duplicate-ish rules make mergeable states likely: copy a nonterminal's rules to another
		if g.NN >= 2 && c.Rng.Intn(2) == 0 {
			src, dst := g.NT+c.Rng.Intn(g.NN), g.NT+c.Rng.Intn(g.NN)
			if src != dst {
				for _, r := range g.Rules {
					if r.LHS == src && c.Rng.Intn(3) != 0 {
						g.Rules = append(g.Rules, GRule{LHS: dst, RHS: append([]int(nil), r.RHS...)})
					}
				}
			}
		}
		switch c.Rng.Intn(12) {
		case 0:
			// a long chain of look-alike shift states (longer than the number of symbols): partition
			// refinement needs as many rounds as the chain is long
			k := g.NT + g.NN + 2 + c.Rng.Intn(12)
			rhs := make([]int, 0, k+1)
			for j := 0; j < k; j++ {
				rhs = append(rhs, 1)
			}
			if g.NT > 2 {
				rhs = append(rhs, 2)
			}
			g.Rules = append(g.Rules, GRule{LHS: g.Inputs[0].Sym, RHS: rhs})
			c.Count("with a long chain rule")
		case 1:
			// two left-recursive lists; one is an eoi input AND a no-eoi input, the other a no-eoi input:
			// final states of no-eoi inputs that are passed through by another input
			if g.NT > 2 {
				la, lb := g.NT+g.NN, g.NT+g.NN+1
				g.NN += 2
				g.Rules = append(g.Rules,
					GRule{LHS: la, RHS: []int{la, 1}}, GRule{LHS: la, RHS: []int{1}},
					GRule{LHS: lb, RHS: []int{lb, 2}}, GRule{LHS: lb, RHS: []int{2}})
				if c.Rng.Intn(2) == 0 {
					g.Rules = append(g.Rules, GRule{LHS: lb, RHS: []int{lb, 1}})
				}
				g.Inputs = append(g.Inputs, GInput{Sym: la, Eoi: true}, GInput{Sym: la, Eoi: false}, GInput{Sym: lb, Eoi: false})
				c.Count("with left-recursive list inputs (eoi + no-eoi)")
			}
		}
		// the same nonterminal as two inputs (a user %input that is also a lookahead target, or
		// simply listed twice): their entry states are equivalent and must not be merged away
		if c.Rng.Intn(6) == 0 {
			in := g.Inputs[c.Rng.Intn(len(g.Inputs))]
			if c.Rng.Intn(2) == 0 {
				in.Eoi = !in.Eoi
			}
			g.Inputs = append(g.Inputs, in)
			c.Count("with a nonterminal used as two inputs")
		}
		// state markers inside rules (erased from the tables' RuleLen, but present in Rule.RHS)
		type mark struct{ rule, pos, marker int }
		var marks []mark
		if c.Rng.Intn(2) == 0 {
			for k := 0; k < 1+c.Rng.Intn(3); k++ {
				ri := c.Rng.Intn(len(g.Rules))
				marks = append(marks, mark{ri, c.Rng.Intn(len(g.Rules[ri].RHS) + 1), c.Rng.Intn(2)})
			}
			c.Count("with state markers")
		}
		mk := func() *lalr.Grammar {
			lg := g.Lalr()
			lg.ExpectSR, lg.ExpectRR = -1, -1
			if len(marks) > 0 {
				lg.Markers = []string{"m0", "m1"}
				for _, m := range marks {
					rhs := lg.Rules[m.rule].RHS
					pos := m.pos
					if pos > len(rhs) {
						pos = len(rhs)
					}
					nr := append([]lalr.Sym(nil), rhs[:pos]...)
					nr = append(nr, lalr.Marker(m.marker))
					nr = append(nr, rhs[pos:]...)
					lg.Rules[m.rule].RHS = nr
				}
			}
			return lg
		}
		lg := mk()
		acts := make([]int, len(lg.Rules))
		mode := c.Rng.Intn(3)
		for k := range lg.Rules {
			switch mode {
			case 0:
				lg.Rules[k].Action = 0
			case 1:
				lg.Rules[k].Action = c.Rng.Intn(3)
			}
			acts[k] = lg.Rules[k].Action
		}
		lg2 := mk()
		for k := range lg2.Rules {
			lg2.Rules[k].Action = acts[k]
		}
		t, _, pan := compileLalr(lg, lalr.Options{})
		t2, _, pan2 := compileLalr(lg2, lalr.Options{MinimizeDFA: true})
		if pan != "" || pan2 != "" {
			c.Violate("lalr.Compile panicked: "+pan+pan2, g.Pretty())
			continue
		}
		key := ""
		if len(t2.Action) < len(t.Action) {
			key = g.String() + ints(acts)
			c.Count("merged")
		} else {
			c.Count("nothing-to-merge")
		}
		c.Count(fmt.Sprintf("inputs=%d", len(g.Inputs)))
		c.Debugf("sr=%d rr=%d %s", t.SR, t.RR, g.Pretty())
		c.Case(fmt.Sprintf("min %s %s %s %s", g.String(), ints(acts), tablesStr(t, g.NT), tablesStr(t2, g.NT)), "ok", key)
	}
}
