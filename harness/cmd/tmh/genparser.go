package main

// Generated-parser pipeline: renders grammars as .tm text, runs the REAL compiler.Compile +
// gen.Generate (in-memory writer), writes the generated packages into a scratch Go module under
// $TMPDIR, builds ONE runner binary for the whole batch and feeds it inputs. This is what ties the
// Lean runtime model (lean/TmVerif/Model/LR.lean) to gen/templates/go_parser.go.tmpl.

import (
	"bufio"
	"bytes"
	"context"
	"fmt"
	"os"
	"os/exec"
	"path/filepath"
	"sort"
	"strings"
	"time"

	"github.com/inspirer/textmapper/compiler"
	"github.com/inspirer/textmapper/gen"
	"github.com/inspirer/textmapper/grammar"
	"github.com/inspirer/textmapper/status"
)

type TMOpts struct {
	Optimize, DefaultReduce, Minimize bool
	Cancellable                       bool
	Recovering                        bool // declares the `error` token
	FixWhitespace                     bool
	Space                             bool // add a whitespace (space) rule
	K                                 int  // lalr(k)
	ArrowPerRule                      bool // `-> R<i>` on every rule (listener = reduce trace)
	Markers                           bool // sprinkle state markers `.m0`/`.m1` into rules (deterministically)
	ExpectSR, ExpectRR                int
	Extend                            bool   // define some nonterminals in two places (`N: …;` + `extend N: …;`)
	Extra                             string // extra option lines
}

// TM renders the grammar as textmapper source. Rules are grouped by nonterminal in order of first
// appearance of the LHS (the compiled rule order is read back from grammar.Parser.Rules).
func (g *Gram) TM(name string, o TMOpts) string {
	var sb strings.Builder
	fmt.Fprintf(&sb, "language %s(go);\n\nlang = %q\npackage = \"gp/%s\"\neventBased = true\n", name, name, name)
	if o.Optimize {
		sb.WriteString("optimizeTables = true\n")
	}
	if o.DefaultReduce {
		sb.WriteString("defaultReduce = true\n")
	}
	if o.Minimize {
		sb.WriteString("minimizeDFA = true\n")
	}
	if o.Cancellable {
		sb.WriteString("cancellable = true\n")
	}
	if o.FixWhitespace {
		sb.WriteString("fixWhitespace = true\n")
	}
	sb.WriteString(o.Extra)
	sb.WriteString("\n::lexer\n\n")
	if o.Space {
		sb.WriteString("WhiteSpace: /[ \\t\\n]+/ (space)\n")
	}
	for t := 1; t < g.NT; t++ {
		fmt.Fprintf(&sb, "'%s': /%s/\n", g.SymName(t), g.SymName(t))
	}
	if o.Recovering {
		sb.WriteString("error:\ninvalid_token:\n")
	}
	if o.K > 1 {
		fmt.Fprintf(&sb, "\n::parser lalr(%d)\n\n", o.K)
	} else {
		sb.WriteString("\n::parser\n\n")
	}
	var ins []string
	for _, in := range g.Inputs {
		s := g.SymName(in.Sym)
		if !in.Eoi {
			s += " no-eoi"
		}
		ins = append(ins, s)
	}
	fmt.Fprintf(&sb, "%%input %s;\n", strings.Join(ins, ", "))
	if o.ExpectSR > 0 {
		fmt.Fprintf(&sb, "%%expect %d;\n", o.ExpectSR)
	}
	if o.ExpectRR > 0 {
		fmt.Fprintf(&sb, "%%expect-rr %d;\n", o.ExpectRR)
	}
	for _, p := range g.Prec {
		fmt.Fprintf(&sb, "%%%s", []string{"left", "right", "nonassoc"}[p.Assoc])
		for _, t := range p.Terms {
			fmt.Fprintf(&sb, " '%s'", g.SymName(t))
		}
		sb.WriteString(";\n")
	}
	sb.WriteString("\n")
	var order []int
	seen := map[int]bool{}
	for _, r := range g.Rules {
		if !seen[r.LHS] {
			seen[r.LHS] = true
			order = append(order, r.LHS)
		}
	}
	type block struct {
		lhs    int
		header string
		rules  map[int]bool // nil = all rules of lhs
	}
	var blocks, later []block
	for _, lhs := range order {
		var idx []int
		for i, r := range g.Rules {
			if r.LHS == lhs {
				idx = append(idx, i)
			}
		}
		if o.Extend && len(idx) >= 2 {
			// the nonterminal is defined in two places: `N : …;` and, further down, `extend N : …;`
			k := 1 + (lhs+idx[0])%(len(idx)-1)
			a, b := map[int]bool{}, map[int]bool{}
			empty := -1
			for _, i := range idx {
				if len(g.Rules[i].RHS) == 0 {
					empty = i
				}
			}
			for j, i := range idx {
				switch {
				case empty >= 0 && lhs%2 == 0: // the empty alternative alone in the first definition
					if i == empty {
						a[i] = true
					} else {
						b[i] = true
					}
				case empty >= 0: // … or alone in the `extend` clause
					if i == empty {
						b[i] = true
					} else {
						a[i] = true
					}
				case j < k:
					a[i] = true
				default:
					b[i] = true
				}
			}
			blocks = append(blocks, block{lhs, g.SymName(lhs) + " :", a})
			later = append(later, block{lhs, "extend " + g.SymName(lhs) + " :", b})
			continue
		}
		blocks = append(blocks, block{lhs, g.SymName(lhs) + " :", nil})
	}
	for _, bl := range append(blocks, later...) {
		lhs := bl.lhs
		fmt.Fprintf(&sb, "%s\n", bl.header)
		first := true
		for i, r := range g.Rules {
			if r.LHS != lhs || (bl.rules != nil && !bl.rules[i]) {
				continue
			}
			if first {
				sb.WriteString("    ")
				first = false
			} else {
				sb.WriteString("  | ")
			}
			if len(r.RHS) == 0 {
				sb.WriteString("%empty")
			}
			markAt := -1
			if o.Markers && (i%3 == 0 || (len(r.RHS) > 0 && r.RHS[0] >= g.NT && r.RHS[0] != errorSym && i%2 == 0)) {
				markAt = i % (len(r.RHS) + 1)
				if len(r.RHS) > 0 && r.RHS[0] >= g.NT && r.RHS[0] != errorSym {
					markAt = 0 // a marker in front of a leading nonterminal
				}
			}
			for k, s := range r.RHS {
				if k > 0 {
					sb.WriteString(" ")
				}
				if k == markAt {
					fmt.Fprintf(&sb, ".m%d ", i%2)
				}
				if s < g.NT {
					fmt.Fprintf(&sb, "'%s'", g.SymName(s))
				} else if s == errorSym {
					sb.WriteString("error")
				} else {
					sb.WriteString(g.SymName(s))
				}
			}
			if markAt == len(r.RHS) && len(r.RHS) > 0 {
				fmt.Fprintf(&sb, " .m%d", i%2)
			}
			if r.Prec != 0 {
				fmt.Fprintf(&sb, " %%prec '%s'", g.SymName(r.Prec))
			}
			if o.ArrowPerRule {
				fmt.Fprintf(&sb, " -> R%d", i)
			}
			sb.WriteString("\n")
		}
		sb.WriteString(";\n")
	}
	return sb.String()
}

// errorSym is a pseudo symbol id used in Gram.Rules to mean the `error` terminal in .tm rendering.
const errorSym = 1 << 20

type mapWriter struct{ files map[string]string }

func (w *mapWriter) Write(filename, content string) error {
	w.files[filename] = content
	return nil
}

type GenParser struct {
	Name  string
	TM    string
	G     *grammar.Grammar
	Files map[string]string
	Err   error
	Opts  TMOpts
	// RuleOfType maps a node type id (index in RangeTypes + 1, as printed by the runner) to the
	// compiled rule index carrying it as its rule type.
	RuleOfType map[string]int
}

// compileTM runs the real compiler and generator.
func compileTM(name, text string, o TMOpts) (gp *GenParser) {
	gp = &GenParser{Name: name, TM: text, Opts: o, Files: map[string]string{}, RuleOfType: map[string]int{}}
	defer func() {
		if r := recover(); r != nil {
			gp.Err = fmt.Errorf("panic: %v", r)
		}
	}()
	g, err := compiler.Compile(context.Background(), name+".tm", text, compiler.Params{CheckOnly: false})
	if err != nil {
		gp.Err = err
		return
	}
	gp.G = g
	w := &mapWriter{files: gp.Files}
	if err := gen.Generate(g, w, gen.Options{}); err != nil {
		gp.Err = err
		return
	}
	if g.Parser != nil && g.Parser.Types != nil {
		for i, r := range g.Parser.Rules {
			if r.Type >= 0 && r.Type < len(g.Parser.Types.RangeTypes) {
				gp.RuleOfType[fmt.Sprint(r.Type+1)] = i
			}
		}
	}
	return
}

func errSummary(err error) string {
	if err == nil {
		return ""
	}
	s := status.FromError(err)
	var parts []string
	for _, e := range s {
		parts = append(parts, e.Msg)
	}
	sort.Strings(parts)
	if len(parts) > 3 {
		parts = parts[:3]
	}
	return strings.Join(parts, " | ")
}

// LalrGram reconstructs the plain grammar the tables were built from (compiled rule order and
// symbol numbering) in protocol form.
func (gp *GenParser) ProtoGrammar() string {
	p := gp.G.Parser
	nt := p.NumTerminals
	nn := len(gp.G.Syms) - nt
	var rs []string
	var rp []int
	for _, r := range p.Rules {
		var rhs []int
		for _, s := range r.RHS {
			if !s.IsStateMarker() {
				rhs = append(rhs, int(s))
			}
		}
		rs = append(rs, fmt.Sprintf("%d:%s", int(r.LHS), ints(rhs)))
		rp = append(rp, int(r.Precedence))
	}
	var is []string
	for _, in := range p.Inputs {
		is = append(is, fmt.Sprintf("%d:%s", nt+in.Nonterm, b2s(!in.NoEoi)))
	}
	ps := "_"
	if len(p.Prec) > 0 {
		var pp []string
		for _, pr := range p.Prec {
			var ts []int
			for _, t := range pr.Terminals {
				ts = append(ts, int(t))
			}
			pp = append(pp, fmt.Sprintf("%d:%s", int(pr.Associativity), ints(ts)))
		}
		ps = strings.Join(pp, ";")
	}
	rsS := "_"
	if len(rs) > 0 {
		rsS = strings.Join(rs, ";")
	}
	return fmt.Sprintf("%d %d %s %s %s %s", nt, nn, rsS, strings.Join(is, ";"), ps, ints(rp))
}

// TermIDs maps a terminal name (as written in the .tm, e.g. "'a'") to its symbol number.
func (gp *GenParser) TermID(name string) int {
	for i, s := range gp.G.Syms {
		if i < gp.G.Parser.NumTerminals && s.Name == name {
			return i
		}
	}
	return -1
}

// ---- batch build & run ----

type Batch struct {
	Dir     string
	Parsers []*GenParser
	bin     string
}

func NewBatch() (*Batch, error) {
	dir, err := os.MkdirTemp("", "tmverif-gp-")
	if err != nil {
		return nil, err
	}
	return &Batch{Dir: dir}, nil
}

func (b *Batch) Close() { os.RemoveAll(b.Dir) }

func (b *Batch) Add(gp *GenParser) { b.Parsers = append(b.Parsers, gp) }

// runnerSrc generates the per-package runner function.
func runnerSrc(gp *GenParser) string {
	var sb strings.Builder
	name := gp.Name
	p := gp.G.Parser
	fmt.Fprintf(&sb, "func run_%s(input int, text string, cancelAt int, prev string) (out string) {\n", name)
	sb.WriteString("\tvar sb strings.Builder\n\tdefer func() { if r := recover(); r != nil { out = sb.String() + \"panic\" } }()\n")
	fmt.Fprintf(&sb, "\tvar l %s.Lexer\n\tl.Init(text)\n\tvar p %s.Parser\n", name, name)
	if gp.Opts.Cancellable {
		// a context of our own whose error is NOT context.Canceled: "the context's error" must come from ctx.Err()
		sb.WriteString("\tctx := &stopCtx{Context: context.Background(), done: make(chan struct{})}\n\tcancel := func() { if ctx.err == nil { ctx.err = errStop; close(ctx.done) } }\n\tdefer cancel()\n\tevents := 0\n")
	}
	listener := fmt.Sprintf("func(t %s.NodeType, s, e int) { fmt.Fprintf(&sb, \"%%d:%%d:%%d \", int(t), s, e)", name)
	if gp.Opts.Cancellable {
		listener += "; events++; if events == cancelAt { cancel() }"
	}
	listener += " }"
	if p.IsRecovering {
		fmt.Fprintf(&sb, "\tp.Init(func(se %s.SyntaxError) bool { fmt.Fprintf(&sb, \"E:%%d:%%d \", se.Offset, se.Endoffset); return true }, %s)\n", name, listener)
	} else {
		fmt.Fprintf(&sb, "\tp.Init(%s)\n", listener)
	}
	// parser reuse: one Init, a first Parse of `prev` (output discarded), then the real input
	sb.WriteString("\tif prev != \"\" {\n\t\tl.Init(prev)\n\t\tswitch input {\n")
	multi0 := 0
	for _, in := range p.Inputs {
		if !in.Synthetic {
			multi0++
		}
	}
	for i, in := range p.Inputs {
		if in.Synthetic {
			continue
		}
		method := "Parse"
		if multi0 > 1 {
			method += gp.G.Syms[p.NumTerminals+in.Nonterm].ID
		}
		ctx := ""
		if gp.Opts.Cancellable {
			ctx = "ctx, "
		}
		fmt.Fprintf(&sb, "\t\tcase %d:\n\t\t\tp.%s(%s&l)\n", i, method, ctx)
	}
	sb.WriteString("\t\t}\n\t\tsb.Reset()\n\t\tl.Init(text)\n\t}\n")
	sb.WriteString("\tvar err error\n\tswitch input {\n")
	multi := 0
	for _, in := range p.Inputs {
		if !in.Synthetic {
			multi++
		}
	}
	for i, in := range p.Inputs {
		if in.Synthetic {
			continue
		}
		method := "Parse"
		if multi > 1 {
			method += gp.G.Syms[p.NumTerminals+in.Nonterm].ID
		}
		ctx := ""
		if gp.Opts.Cancellable {
			ctx = "ctx, "
		}
		fmt.Fprintf(&sb, "\tcase %d:\n\t\terr = p.%s(%s&l)\n", i, method, ctx)
	}
	sb.WriteString("\tdefault:\n\t\treturn \"noinput\"\n\t}\n")
	fmt.Fprintf(&sb, "\tif err == nil {\n\t\treturn sb.String() + \"ok\"\n\t}\n\tif se, ok := err.(%s.SyntaxError); ok {\n\t\treturn sb.String() + fmt.Sprintf(\"err:%%d:%%d\", se.Offset, se.Endoffset)\n\t}\n\treturn sb.String() + \"error:\" + err.Error()\n}\n\n", name)
	return sb.String()
}

// Build writes all packages and the runner, and compiles the binary.
func (b *Batch) Build() error {
	if err := os.WriteFile(filepath.Join(b.Dir, "go.mod"), []byte("module gp\n\ngo 1.25\n"), 0o644); err != nil {
		return err
	}
	var main strings.Builder
	main.WriteString("package main\n\nimport (\n\t\"bufio\"\n\t\"context\"\n\t\"fmt\"\n\t\"os\"\n\t\"strconv\"\n\t\"strings\"\n")
	for _, gp := range b.Parsers {
		fmt.Fprintf(&main, "\t%s \"gp/%s\"\n", gp.Name, gp.Name)
	}
	main.WriteString(")\n\nvar _ = context.Background\n\n")
	main.WriteString("type stopCtx struct {\n\tcontext.Context\n\tdone chan struct{}\n\terr  error\n}\n\nfunc (c *stopCtx) Done() <-chan struct{} { return c.done }\nfunc (c *stopCtx) Err() error          { return c.err }\n\ntype stopErr struct{}\n\nfunc (stopErr) Error() string { return \"ctxstop\" }\n\nvar errStop error = stopErr{}\n\n")
	for _, gp := range b.Parsers {
		for fn, content := range gp.Files {
			p := filepath.Join(b.Dir, gp.Name, fn)
			if err := os.MkdirAll(filepath.Dir(p), 0o755); err != nil {
				return err
			}
			if err := os.WriteFile(p, []byte(content), 0o644); err != nil {
				return err
			}
		}
		main.WriteString(runnerSrc(gp))
	}
	main.WriteString("var runners = map[string]func(int, string, int, string) string{\n")
	for _, gp := range b.Parsers {
		fmt.Fprintf(&main, "\t%q: run_%s,\n", gp.Name, gp.Name)
	}
	main.WriteString("}\n\n")
	main.WriteString(`func main() {
	sc := bufio.NewScanner(os.Stdin)
	sc.Buffer(make([]byte, 1<<20), 1<<26)
	w := bufio.NewWriter(os.Stdout)
	defer w.Flush()
	for sc.Scan() {
		parts := strings.SplitN(sc.Text(), "\t", 5)
		if len(parts) != 5 {
			fmt.Fprintln(w, "badline")
			continue
		}
		input, _ := strconv.Atoi(parts[1])
		cancelAt, _ := strconv.Atoi(parts[2])
		text, err := strconv.Unquote(parts[3])
		if err != nil {
			fmt.Fprintln(w, "badquote")
			continue
		}
		r, ok := runners[parts[0]]
		if !ok {
			fmt.Fprintln(w, "norunner")
			continue
		}
		prev, err := strconv.Unquote(parts[4])
		if err != nil {
			fmt.Fprintln(w, "badquote")
			continue
		}
		fmt.Fprintln(w, r(input, text, cancelAt, prev))
		w.Flush()
	}
}
`)
	if err := os.WriteFile(filepath.Join(b.Dir, "main.go"), []byte(main.String()), 0o644); err != nil {
		return err
	}
	b.bin = filepath.Join(b.Dir, "runner")
	cmd := exec.Command("go", "build", "-o", b.bin, ".")
	cmd.Dir = b.Dir
	cmd.Env = append(os.Environ(), "GOFLAGS=-mod=mod", "GOPROXY=off")
	out, err := cmd.CombinedOutput()
	if err != nil {
		return fmt.Errorf("go build of generated parsers failed: %v\n%s", err, tail(string(out), 3000))
	}
	return nil
}

func tail(s string, n int) string {
	if len(s) > n {
		return s[len(s)-n:]
	}
	return s
}

type RunReq struct {
	Parser   string
	Input    int
	CancelAt int // 0 = never
	Text     string
	Prev     string // if non-empty: the same Parser object first parses this text (output discarded)
}

// Run feeds all requests to the runner binary and returns one output line per request. A crash or
// timeout of the runner yields "crash" for the remaining requests.
func (b *Batch) Run(reqs []RunReq) []string {
	var in bytes.Buffer
	for _, r := range reqs {
		fmt.Fprintf(&in, "%s\t%d\t%d\t%s\t%s\n", r.Parser, r.Input, r.CancelAt, strconvQuote(r.Text), strconvQuote(r.Prev))
	}
	ctx, cancel := context.WithTimeout(context.Background(), 10*time.Minute)
	defer cancel()
	cmd := exec.CommandContext(ctx, b.bin)
	cmd.Stdin = &in
	cmd.Env = append(os.Environ(), "GOMEMLIMIT=2GiB")
	out, _ := cmd.Output()
	res := make([]string, 0, len(reqs))
	sc := bufio.NewScanner(bytes.NewReader(out))
	sc.Buffer(make([]byte, 1<<20), 1<<26)
	for sc.Scan() {
		res = append(res, sc.Text())
	}
	for len(res) < len(reqs) {
		res = append(res, "crash")
	}
	return res
}

func strconvQuote(s string) string { return fmt.Sprintf("%q", s) }
