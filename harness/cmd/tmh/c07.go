package main

import (
	"fmt"
	"math/rand"
	"strings"

	"github.com/inspirer/textmapper/lalr"
)

func init() { props["C07"] = c07 }

// lalrkGram builds a grammar that needs k tokens of lookahead to choose between two reductions of
// the same right-hand side: S -> A ctx x | B ctx y ; A -> e ; B -> e, where ctx is a string of
// terminals and of nonterminals deriving terminals.
func lalrkGram(r *rand.Rand) (*Gram, int) {
	g := &Gram{Shape: "lalrk"}
	depth := 1 + r.Intn(3) // yield length of the shared context
	g.NT = 6               // a..e
	e, x, y := 1, 2, 3
	s, a, b := g.NT, g.NT+1, g.NT+2
	g.NN = 3
	var ctx []int
	for i := 0; i < depth; i++ {
		switch r.Intn(5) {
		case 0: // terminal
			ctx = append(ctx, 4+r.Intn(2))
		case 1: // nonterminal deriving one terminal
			nt := g.NT + g.NN
			g.NN++
			g.Rules = append(g.Rules, GRule{LHS: nt, RHS: []int{4 + r.Intn(2)}})
			ctx = append(ctx, nt)
		case 2: // nonterminal with two alternatives
			nt := g.NT + g.NN
			g.NN++
			g.Rules = append(g.Rules, GRule{LHS: nt, RHS: []int{4}}, GRule{LHS: nt, RHS: []int{5}})
			ctx = append(ctx, nt)
		case 3: // nonterminal ending in `terminal Nullable` (follow chains leave through a nullable tail)
			nt := g.NT + g.NN
			g.NN += 2
			g.Rules = append(g.Rules, GRule{LHS: nt, RHS: []int{4 + r.Intn(2), nt + 1}},
				GRule{LHS: nt + 1, RHS: nil}, GRule{LHS: nt + 1, RHS: []int{4}})
			ctx = append(ctx, nt)
		default: // nullable nonterminal followed by a terminal
			nt := g.NT + g.NN
			g.NN++
			g.Rules = append(g.Rules, GRule{LHS: nt, RHS: nil}, GRule{LHS: nt, RHS: []int{4}})
			ctx = append(ctx, nt, 5)
		}
	}
	ctx2 := ctx
	if r.Intn(3) == 0 {
		// the second alternative spells one terminal of the context through a nonterminal
		ctx2 = append([]int(nil), ctx...)
		for i, sym := range ctx2 {
			if sym < g.NT {
				nt := g.NT + g.NN
				g.NN++
				g.Rules = append(g.Rules, GRule{LHS: nt, RHS: []int{sym}})
				ctx2[i] = nt
				break
			}
		}
	} else if r.Intn(2) == 0 {
		// the second alternative uses a different nonterminal with the same yields
		ctx2 = append([]int(nil), ctx...)
		for i, sym := range ctx2 {
			if sym >= g.NT {
				nt := g.NT + g.NN
				g.NN++
				for _, rl := range g.Rules {
					if rl.LHS == sym {
						g.Rules = append(g.Rules, GRule{LHS: nt, RHS: append([]int(nil), rl.RHS...)})
					}
				}
				ctx2[i] = nt
				break
			}
		}
	}
	g.Rules = append(g.Rules,
		GRule{LHS: s, RHS: append(append([]int{a}, ctx...), x)},
		GRule{LHS: s, RHS: append(append([]int{b}, ctx2...), y)},
		GRule{LHS: a, RHS: []int{e}},
		GRule{LHS: b, RHS: []int{e}})
	if r.Intn(3) == 0 {
		g.Rules = append(g.Rules, GRule{LHS: s, RHS: []int{x, s, y}})
	}
	g.Inputs = []GInput{{Sym: s, Eoi: r.Intn(5) != 0}}
	return g, depth + 3
}

// lalrkGram2: the conflict state is reached from two left contexts, and on the lookahead path of one
// rule the same terminal is shifted from different states into one shared LR(0) state:
// S -> x A a P c | y A a P d | x B a b f | y B a b f ; A -> e ; B -> e ; P -> b   (needs k = 3).
func lalrkGram2(r *rand.Rand) (*Gram, int) {
	g := &Gram{Shape: "lalrk2", NT: 9}
	e, x, y, a, b, cc, d, f := 1, 2, 3, 4, 5, 6, 7, 8
	s, A, B, P := g.NT, g.NT+1, g.NT+2, g.NT+3
	g.NN = 4
	t1, t2 := cc, d
	if r.Intn(2) == 0 {
		t1, t2 = d, cc
	}
	g.Rules = []GRule{
		{LHS: s, RHS: []int{x, A, a, P, t1}}, {LHS: s, RHS: []int{y, A, a, P, t2}},
		{LHS: s, RHS: []int{x, B, a, b, f}}, {LHS: s, RHS: []int{y, B, a, b, f}},
		{LHS: A, RHS: []int{e}}, {LHS: B, RHS: []int{e}}, {LHS: P, RHS: []int{b}},
	}
	if r.Intn(2) == 0 { // a second shared sub-nonterminal
		Q := g.NT + g.NN
		g.NN++
		g.Rules[2].RHS = []int{x, B, a, Q, f}
		g.Rules[3].RHS = []int{y, B, a, Q, f}
		g.Rules = append(g.Rules, GRule{LHS: Q, RHS: []int{b}})
		if r.Intn(2) == 0 {
			g.Rules = append(g.Rules, GRule{LHS: Q, RHS: []int{b, b}})
		}
	}
	g.Inputs = []GInput{{Sym: s, Eoi: true}}
	return g, 3
}

// lalrkGram3: TWO conflict states whose lookahead rows differ only in the nested lookahead table they
// point to (the rules competing after the shared terminal differ per context).
func lalrkGram3(r *rand.Rand) (*Gram, int) {
	if r.Intn(2) == 0 {
		// input: A a b | B a c | C a d ; A: e | f ; B: e ; C: f
		g := &Gram{Shape: "lalrk3a", NT: 7}
		a, b, cc, d, e, f := 1, 2, 3, 4, 5, 6
		in, A, B, C := g.NT, g.NT+1, g.NT+2, g.NT+3
		g.NN = 4
		g.Rules = []GRule{
			{LHS: in, RHS: []int{A, a, b}}, {LHS: in, RHS: []int{B, a, cc}}, {LHS: in, RHS: []int{C, a, d}},
			{LHS: A, RHS: []int{e}}, {LHS: A, RHS: []int{f}}, {LHS: B, RHS: []int{e}}, {LHS: C, RHS: []int{f}},
		}
		g.Inputs = []GInput{{Sym: in, Eoi: true}}
		return g, 2
	}
	// input: p A1 t u | p B1 t v | q A2 t u | q B2 t v ; A1: x ; B1: x ; A2: y ; B2: y
	g := &Gram{Shape: "lalrk3b", NT: 8}
	pp, q, t, u, v, x, y := 1, 2, 3, 4, 5, 6, 7
	in, A1, B1, A2, B2 := g.NT, g.NT+1, g.NT+2, g.NT+3, g.NT+4
	g.NN = 5
	u2, v2 := u, v
	if r.Intn(2) == 0 {
		u2, v2 = v, u
	}
	g.Rules = []GRule{
		{LHS: in, RHS: []int{pp, A1, t, u}}, {LHS: in, RHS: []int{pp, B1, t, v}},
		{LHS: in, RHS: []int{q, A2, t, u2}}, {LHS: in, RHS: []int{q, B2, t, v2}},
		{LHS: A1, RHS: []int{x}}, {LHS: B1, RHS: []int{x}}, {LHS: A2, RHS: []int{y}}, {LHS: B2, RHS: []int{y}},
	}
	g.Inputs = []GInput{{Sym: in, Eoi: true}}
	return g, 2
}

// lalrkGram4: (a) a conflict whose rules also end a SECOND, no-eoi input (the "any terminal may
// follow" marker takes part in the lookahead computation): S -> A x | B a c ; N(no-eoi) -> A | B a b ;
// A -> e ; B -> e; (b) one alternative ENDS inside the lookahead window, so end-of-input is the
// deciding token: S -> A a | B a b ; A -> e ; B -> e, also with the short alternative behind a
// nonterminal and with a longer shared context.
func lalrkGram4(r *rand.Rand) (*Gram, int) {
	g := &Gram{Shape: "lalrk4", NT: 6}
	a, b, cc, e, x := 1, 2, 3, 4, 5
	s, A, B := g.NT, g.NT+1, g.NT+2
	g.NN = 3
	switch r.Intn(3) {
	case 0:
		n := g.NT + g.NN
		g.NN++
		g.Shape = "lalrk4-noeoi"
		g.Rules = []GRule{
			{LHS: s, RHS: []int{A, x}}, {LHS: s, RHS: []int{B, a, cc}},
			{LHS: n, RHS: []int{A}}, {LHS: n, RHS: []int{B, a, b}},
			{LHS: A, RHS: []int{e}}, {LHS: B, RHS: []int{e}},
		}
		g.Inputs = []GInput{{Sym: s, Eoi: true}, {Sym: n, Eoi: false}}
		return g, 2
	case 1:
		g.Shape = "lalrk4-eoi-decides"
		g.Rules = []GRule{
			{LHS: s, RHS: []int{A, a}}, {LHS: s, RHS: []int{B, a, b}},
			{LHS: A, RHS: []int{e}}, {LHS: B, RHS: []int{e}},
		}
		if r.Intn(2) == 0 { // the short alternative behind a nonterminal
			t := g.NT + g.NN
			g.NN++
			g.Rules[0].RHS = []int{A, t}
			g.Rules = append(g.Rules, GRule{LHS: t, RHS: []int{a}})
		}
		g.Inputs = []GInput{{Sym: s, Eoi: true}}
		return g, 2
	default:
		g.Shape = "lalrk4-eoi-decides-k3"
		g.Rules = []GRule{
			{LHS: s, RHS: []int{A, a, cc}}, {LHS: s, RHS: []int{B, a, cc, b}},
			{LHS: A, RHS: []int{e}}, {LHS: B, RHS: []int{e}},
		}
		g.Inputs = []GInput{{Sym: s, Eoi: true}}
		return g, 3
	}
}

func c07(c *Ctx) {
	c.Rule = "grammars built to need 2-4 tokens of lookahead (two reductions of one RHS whose contexts share a prefix made of terminals, terminal-deriving and nullable nonterminals; two conflict states whose rows differ only in the nested lookahead table; a third of the grammars also compiled with MinimizeDFA for the sentences check) plus random CFGs, compiled by the real lalr.Compile with Lookahead k in 2..4; for each grammar that compiles without error: (1) Lean recomputes LALR(k) lookahead strings by item propagation, walks every lookahead automaton in the tables on every string, and checks the two certificates that are the hypotheses of C07_lr_sound_k / C07_lr_complete_k / C07_lr_exact_k (past-certificate against every leaf of every lookahead automaton; LR(k)-item certificate) on the real tables, (2) all token strings up to length 5 + random sentences/mutations are run through the Lean parser model on the real tables and compared with a brute-force recogniser; (3) end to end: a few of these grammars plus one with an acknowledged conflict (%expect-rr) next to a resolved one go through the real compiler and generator, the generated parsers are run on all token strings up to length 5 and compared with the recogniser (accept/reject, termination); non-trivial = UsedLADepth > 0; distinct by grammar"
	c07EndToEnd(c)
	n := c.N(250, 4000)
	for i := 0; i < n; i++ {
		var g *Gram
		k := 2 + c.Rng.Intn(3)
		if c.Rng.Intn(4) != 0 {
			var need int
			if r := c.Rng.Intn(7); r == 0 {
				g, need = lalrkGram2(c.Rng)
			} else if r == 1 {
				g, need = lalrkGram3(c.Rng)
			} else if r == 2 {
				g, need = lalrkGram4(c.Rng)
			} else {
				g, need = lalrkGram(c.Rng)
			}
			if c.Rng.Intn(3) != 0 && need <= 4 {
				k = need
			}
		} else {
			g = RandGram(c.Rng, GramCfg{MaxNT: 3, MaxNN: 4, MaxRules: 3, MaxRHS: 3, MultiInput: false, PEmpty: 0.15})
		}
		g.K = k
		lg := g.Lalr()
		t, err, pan := compileLalr(lg, lalr.Options{Lookahead: k})
		if pan != "" {
			c.Violate("lalr.Compile(Lookahead) panicked: "+pan, g.Pretty())
			continue
		}
		if err != nil {
			c.Count("rejected (conflicts remain)")
			continue
		}
		key := ""
		if t.UsedLADepth > 0 {
			key = g.String()
			c.Count(fmt.Sprintf("resolved with depth %d", t.UsedLADepth))
		} else {
			c.Count("lalr(1) already")
		}
		c.Debugf("k=%d %s", k, g.Pretty())
		kline := fmt.Sprintf("lalrk %s %d %s", g.String(), k, tablesStr(t, g.NT))
		known := false
		v := c.Lean([]string{kline})
		switch {
		case strings.Contains(v[0], "[C01-shared-final-state]"):
			// known class: the tables accept in an inner context; reported once through the lalrk case
			known = true
			c.Count("known class: shared final state")
		case v[0] == "ok" && t.UsedLADepth > 0:
			c.Count("certificates: deep-lookahead soundness (certKOk) + LR(k)-item completeness (complKOk) hold, UsedLADepth > 0")
		case v[0] == "ok":
			c.Count("certificates: certKOk + complKOk hold, lalr(1) already")
		default:
			c.Count("certificates: rejected")
		}
		c.Case(kline, "ok", key)
		if !g.AllProductive() || known {
			continue
		}
		// the same grammar with MinimizeDFA: states with lookahead automata may only be merged when
		// the automata agree (sentences check only: merged states are not the canonical collection)
		var tm *lalr.Tables
		if c.Rng.Intn(3) == 0 {
			if t2, err2, pan2 := compileLalr(g.Lalr(), lalr.Options{Lookahead: k, MinimizeDFA: true}); pan2 != "" {
				c.Violate("lalr.Compile(Lookahead, MinimizeDFA) panicked: "+pan2, g.Pretty())
			} else if err2 == nil {
				tm = t2
				c.Count("also compiled with minimizeDFA")
			}
		}
		for idx, in := range g.Inputs {
			ws := sampleWords(c, g, in.Sym, 4, 6)
			c.Debugf("accept k=%d %s", k, g.Pretty())
			specs := wordSpecs(g, in, ws, false)
			c.Case(fmt.Sprintf("accept %s %d %s", tablesStr(t, g.NT), idx, specs), "ok", "")
			if tm != nil {
				c.Debugf("accept (minimized) k=%d %s", k, g.Pretty())
				c.Case(fmt.Sprintf("accept %s %d %s", tablesStr(tm, g.NT), idx, specs), "ok", "")
			}
		}
	}
}
