package main

// C21 grammar families written directly as .tm text (they complement the decorated random CFGs of
// c21TM, which rarely produce these shapes and, when they do, are usually rejected by the compiler):
//
//	cycle   recursion cycles through 2..4 nonterminals WITHOUT an arrow inside the cycle, entered at a
//	        random member, each member contributing a node / a plain terminal / nothing
//	        (syntax/types.go nontermPhrase: Tarjan SCC detection, "all fields become lists")
//	groups  a node with ordered named fields forming 2..3 separate groups of overlapping node types, the
//	        last field of a group optional or a list at random (fixConflictingFields: FetchAfter chains)
//	sharednt a helper nonterminal without arrow whose named field merges m types, used from several typed
//	        parents that each add their own alternative to that field (mergeFields vs. the phrase cache)
//	shared  several reported terminals sharing ONE node name with other %inject lines in between, or a
//	        reported terminal named like a node an arrow produces, used inside typed rules
//	        (resolveTypes: token -> range type binding)

import (
	"fmt"
	"math/rand"
	"strings"
)

func c21FamHeader(name string, comment bool, nTerms int, injects []string, interfaces []string, input string) string {
	var sb strings.Builder
	fmt.Fprintf(&sb, "language %s(go);\n\nlang = %q\npackage = \"gp/%s\"\neventBased = true\neventFields = true\neventAST = true\n", name, name, name)
	sb.WriteString("\n::lexer\n\nWhiteSpace: /[ ]+/ (space)\n")
	if comment {
		sb.WriteString("Comment: /#/ (space)\n")
	}
	for t := 0; t < nTerms; t++ {
		fmt.Fprintf(&sb, "'%c': /%c/\n", 'a'+t, 'a'+t)
	}
	sb.WriteString("\n::parser\n\n")
	fmt.Fprintf(&sb, "%%input %s;\n\n", input)
	if comment {
		sb.WriteString("%inject Comment -> Comment;\n")
	}
	for _, in := range injects {
		sb.WriteString(in + "\n")
	}
	for _, in := range interfaces {
		fmt.Fprintf(&sb, "%%interface %s;\n", in)
	}
	sb.WriteString("\n")
	return sb.String()
}

// c21FamCycle: `Root -> Root : [pre] C<entry> [post] ; C0 : body0 C1 ; … ; C<k-1> : body C0 | body ;`
// no arrow encloses a cycle member; every member starts with its own terminal (LALR(1) by construction).
func c21FamCycle(r *rand.Rand, name string, comment bool) string {
	k := 3 + r.Intn(2)
	if r.Intn(6) == 0 {
		k = 2
	}
	entry := r.Intn(k)
	nTypes := 1 + r.Intn(3) // node type names are shared between members at random
	body := make([]string, k)
	for i := 0; i < k; i++ {
		t := fmt.Sprintf("'%c'", 'a'+i)
		must := i == 0 // member 0 always consumes a token: the cycle makes progress
		switch x := r.Intn(10); {
		case x < 5 || (i == entry && x < 9):
			body[i] = fmt.Sprintf("(%s -> K%d)", t, 1+r.Intn(nTypes))
			if r.Intn(5) == 0 {
				body[i] = fmt.Sprintf("f%d=%s", 1+r.Intn(2), body[i])
			}
		case x < 8 || must:
			body[i] = t
		default:
			body[i] = "" // pass-through member (`Rest: Tail`)
		}
	}
	var sb strings.Builder
	sb.WriteString(c21FamHeader(name, comment, k+2, nil, nil, "Root"))
	pre, post := "", ""
	if r.Intn(3) == 0 {
		pre = fmt.Sprintf("('%c' -> Pre) ", 'a'+k)
	}
	if r.Intn(3) == 0 {
		post = fmt.Sprintf(" ('%c' -> Post)", 'a'+k+1)
	}
	fmt.Fprintf(&sb, "Root -> Root :\n    %sC%d%s\n;\n", pre, entry, post)
	for i := 0; i < k; i++ {
		next := fmt.Sprintf("C%d", (i+1)%k)
		if i < k-1 {
			fmt.Fprintf(&sb, "C%d :\n    %s\n;\n", i, strings.TrimSpace(body[i]+" "+next))
			continue
		}
		// the member that closes the cycle: continue or stop
		if body[i] == "" {
			fmt.Fprintf(&sb, "C%d :\n    %s\n  | %%empty\n;\n", i, next)
		} else {
			fmt.Fprintf(&sb, "C%d :\n    %s %s\n  | %s\n;\n", i, body[i], next, body[i])
		}
	}
	return sb.String()
}

// c21FamGroups: `Root -> Root : x1=B1 x2=B1? 'sep'? y1=B2 y2=B2 y3=B2* … ;` — each group repeats ONE node
// type (a plain node or a category of two nodes); only the last field of a group may be optional or a
// list (the compiler rejects the others as overlapping).
func c21FamGroups(r *rand.Rand, name string, comment bool) string {
	ng := 2 + r.Intn(2)
	var rules, interfaces []string
	var fields []string
	term := 0
	nextTerm := func() string { term++; return fmt.Sprintf("'%c'", 'a'+term-1) }
	fn := 0
	for g := 0; g < ng; g++ {
		nt := fmt.Sprintf("B%d", g)
		kind := r.Intn(3)
		var pool []string // union kind: node types of the group with their terminals
		var poolTerm []string
		switch kind {
		case 0:
			cat := fmt.Sprintf("Cat%d", g)
			interfaces = append(interfaces, cat)
			rules = append(rules, fmt.Sprintf("%s -> %s :\n    %s -> %sX\n  | %s -> %sY\n;\n", nt, cat, nextTerm(), nt, nextTerm(), nt))
		case 1:
			rules = append(rules, fmt.Sprintf("%s -> %s :\n    %s\n;\n", nt, nt, nextTerm()))
		default:
			// category-less UNION selectors: every field of the group goes through its own helper
			// nonterminal `U: gN=(t -> X) | gN=(u -> Y)` over a subset of the group's node types
			for j := 0; j < 3; j++ {
				pool = append(pool, fmt.Sprintf("%s%c", nt, 'X'+j))
				poolTerm = append(poolTerm, nextTerm())
			}
		}
		size := 2 + r.Intn(2)
		for i := 0; i < size; i++ {
			fn++
			f := fmt.Sprintf("g%d=%s", fn, nt)
			if kind == 2 {
				// subsets {X,Y}, {Y,Z}, {X,Z}, {X,Y,Z}, {Y}: consecutive fields overlap in part only
				subsets := [][]int{{0, 1}, {1, 2}, {0, 2}, {0, 1, 2}, {1}}
				sub := subsets[(i+r.Intn(2))%len(subsets)]
				u := fmt.Sprintf("U%d", fn)
				var alts []string
				for _, j := range sub {
					alts = append(alts, fmt.Sprintf("g%d=(%s -> %s)", fn, poolTerm[j], pool[j]))
				}
				rules = append(rules, fmt.Sprintf("%s :\n    %s\n;\n", u, strings.Join(alts, "\n  | ")))
				f = u
			}
			if i == size-1 {
				switch r.Intn(5) {
				case 0, 1:
					f += "?"
				case 2:
					f += "*"
				case 3:
					f += "+"
				}
			}
			fields = append(fields, f)
		}
		if g < ng-1 && r.Intn(3) == 0 {
			fields = append(fields, nextTerm())
		}
	}
	var sb strings.Builder
	sb.WriteString(c21FamHeader(name, comment, term, nil, interfaces, "Root"))
	fmt.Fprintf(&sb, "Root -> Root :\n    %s\n;\n", strings.Join(fields, " "))
	for _, rl := range rules {
		sb.WriteString(rl)
	}
	return sb.String()
}

// c21FamShared: reported terminals whose node names repeat (with other %inject lines in between) or
// coincide with a field-less node an arrow produces; every statement alternative is a typed rule that
// starts with its own terminal and continues with terminals that start no statement.
func c21FamShared(r *rand.Rand, name string, comment bool) string {
	nStart := 2 + r.Intn(2)
	nCont := 2 + r.Intn(2)
	nTerms := nStart + nCont
	names := []string{"Op", "Punct", "Word"}
	arrowName := ""
	if r.Intn(2) == 0 {
		arrowName = "Mark" // also produced by an arrow below (over unreported terminals, no fields)
		names = append(names, arrowName)
	}
	var injects []string
	reported := map[int]bool{}
	order := r.Perm(nTerms)
	nameOf := map[int]string{}
	for _, t := range order {
		if r.Intn(4) == 0 {
			continue
		}
		nameOf[t] = names[r.Intn(len(names))]
	}
	if r.Intn(4) != 0 {
		// force the shape `X … Y … X` where the second X is a statement's first terminal (always used
		// inside a typed rule): two terminals share a node name and another name is introduced in between
		var starts, others []int
		for _, t := range order {
			if t < nStart {
				starts = append(starts, t)
			} else {
				others = append(others, t)
			}
		}
		u, v, w := others[0], others[1], starts[0]
		nameOf[u], nameOf[v], nameOf[w] = "Op", "Punct", "Op"
		var rest []int
		for _, t := range order {
			if t != u && t != v && t != w {
				rest = append(rest, t)
			}
		}
		cut := r.Intn(len(rest) + 1)
		order = append(append(append([]int{}, rest[:cut]...), u, v, w), rest[cut:]...)
	}
	for _, t := range order {
		if n, ok := nameOf[t]; ok {
			reported[t] = true
			injects = append(injects, fmt.Sprintf("%%inject '%c' -> %s;", 'a'+t, n))
		}
	}
	var sb strings.Builder
	sb.WriteString(c21FamHeader(name, comment, nTerms, injects, nil, "Root"))
	sb.WriteString("Root -> Root :\n    Stmt+\n;\nStmt :\n")
	for s := 0; s < nStart; s++ {
		var parts []string
		parts = append(parts, fmt.Sprintf("'%c'", 'a'+s))
		n := r.Intn(3)
		for j := 0; j < n; j++ {
			ct := nStart + r.Intn(nCont)
			p := fmt.Sprintf("'%c'", 'a'+ct)
			if arrowName != "" && !reported[ct] && r.Intn(2) == 0 {
				p = fmt.Sprintf("(%s -> %s)", p, arrowName)
			} else if r.Intn(4) == 0 {
				p += "?"
			}
			parts = append(parts, p)
		}
		sep := "    "
		if s > 0 {
			sep = "  | "
		}
		fmt.Fprintf(&sb, "%s%s -> S%d\n", sep, strings.Join(parts, " "), 1+r.Intn(2))
	}
	sb.WriteString(";\n")
	return sb.String()
}

// c21FamSharedNT: a helper nonterminal H WITHOUT an arrow whose named field x already merges m node types
// (`H : x=(t1 -> A1) | … | x=(tm -> Am)`), used from the rules of 2..3 typed parents, each of which adds its
// own further alternative to the same field (`'p' (H | x=(d -> D)) -> P`). The phrase of H is cached and
// merged into every parent (mergeFields / mergePhrases must not alias it). m varies (1..7: Go's append leaves
// spare capacity for m = 3, 5, 6, 7), as do the order of the alternatives, of the declarations and the
// alphabetical order of the parents' node names. `Root : Par | Par Par` keeps the language small enough for
// every alternative of every parent to be among the enumerated sentences.
func c21FamSharedNT(r *rand.Rand, name string, comment bool) string {
	m := []int{3, 5, 3, 6, 7, 3, 5, 3, 1 + r.Intn(7), 1 + r.Intn(7)}[r.Intn(10)]
	np := 2 + r.Intn(2)
	term := 0
	nextTerm := func() string { term++; return fmt.Sprintf("'%c'", 'a'+term-1) }
	fname := fmt.Sprintf("f%d", 1+r.Intn(2))
	var halts []string
	for i := 0; i < m; i++ {
		halts = append(halts, fmt.Sprintf("%s=(%s -> A%d)", fname, nextTerm(), i+1))
	}
	r.Shuffle(len(halts), func(i, j int) { halts[i], halts[j] = halts[j], halts[i] })
	hrule := fmt.Sprintf("H :\n    %s\n;\n", strings.Join(halts, "\n  | "))
	letters := r.Perm(6)
	var palts []string
	extra := ""
	for p := 0; p < np; p++ {
		key := nextTerm()
		pname := fmt.Sprintf("P%c", 'a'+letters[p])
		own := ""
		if p < 2 || r.Intn(4) != 0 { // the first two parents always add their own alternative
			own = fmt.Sprintf("%s=(%s -> D%d)", fname, nextTerm(), p+1)
		}
		var body string
		switch {
		case own == "":
			body = "H"
		case r.Intn(5) != 0: // H first: the merged field starts from the CACHED field of H
			body = fmt.Sprintf("(H | %s)", own)
		default:
			body = fmt.Sprintf("(%s | H)", own)
		}
		if r.Intn(4) == 0 {
			// go through a transparent nonterminal
			extra += fmt.Sprintf("W%d :\n    %s\n;\n", p, strings.TrimSuffix(strings.TrimPrefix(body, "("), ")"))
			body = fmt.Sprintf("W%d", p)
		}
		palts = append(palts, fmt.Sprintf("%s %s -> %s", key, body, pname))
	}
	prule := fmt.Sprintf("Par :\n    %s\n;\n", strings.Join(palts, "\n  | "))
	var sb strings.Builder
	sb.WriteString(c21FamHeader(name, comment, term, nil, nil, "Root"))
	sb.WriteString("Root -> Root :\n    Par\n  | Par Par\n;\n")
	rules := []string{prule, hrule}
	if r.Intn(2) == 0 {
		rules = []string{hrule, prule}
	}
	for _, rl := range rules {
		sb.WriteString(rl)
	}
	sb.WriteString(extra)
	return sb.String()
}

// c21FamTwins: two or three lists whose elements are structurally IDENTICAL and differ only in the node
// name after `->` (`'p' ('n' -> Plus)+ -> Adds | 'm' ('n' -> Minus)+ -> Subs`): the expansion of lists
// extracts nonterminals and must not share one between them.
func c21FamTwins(r *rand.Rand, name string, comment bool) string {
	n := 2 + r.Intn(2)
	elemKind := r.Intn(4)
	listKind := r.Intn(4)
	var alts []string
	for i := 0; i < n; i++ {
		key := fmt.Sprintf("'%c'", 'a'+i)
		tn := fmt.Sprintf("E%d", i+1)
		var elem string
		switch elemKind {
		case 0:
			elem = fmt.Sprintf("('x' -> %s)", tn)
		case 1:
			elem = fmt.Sprintf("('x' 'y' -> %s)", tn)
		case 2:
			elem = fmt.Sprintf("(('x' -> In) 'y' -> %s)", tn)
		default:
			elem = fmt.Sprintf("('x' 'y'? -> %s)", tn)
		}
		var list string
		switch listKind {
		case 0:
			list = elem + "+"
		case 1:
			list = elem + "*"
		case 2:
			list = fmt.Sprintf("(%s separator 'z')+", elem)
		default:
			list = fmt.Sprintf("f1+=%s+", elem)
		}
		alts = append(alts, fmt.Sprintf("%s %s 'w' -> L%d", key, list, i+1))
	}
	var sb strings.Builder
	// terminals a..d keys, w x y z
	fmt.Fprintf(&sb, "language %s(go);\n\nlang = %q\npackage = \"gp/%s\"\neventBased = true\neventFields = true\neventAST = true\n", name, name, name)
	sb.WriteString("\n::lexer\n\nWhiteSpace: /[ ]+/ (space)\n")
	if comment {
		sb.WriteString("Comment: /#/ (space)\n")
	}
	for _, t := range "abcdwxyz" {
		fmt.Fprintf(&sb, "'%c': /%c/\n", t, t)
	}
	sb.WriteString("\n::parser\n\n%input Root;\n\n")
	if comment {
		sb.WriteString("%inject Comment -> Comment;\n")
	}
	sb.WriteString("\nRoot -> Root :\n    Stmt+\n;\nStmt :\n    " + strings.Join(alts, "\n  | ") + "\n;\n")
	return sb.String()
}

// c21FamInputs: a second user input (mostly `no-eoi`) whose rules are reachable ONLY from it and report a
// node type that the first input also produces, with additional children of their own; trees are built
// through every entry point.
func c21FamInputs(r *rand.Rand, name string, comment bool) string {
	var sb strings.Builder
	noeoi := " no-eoi"
	if r.Intn(4) == 0 {
		noeoi = ""
	}
	sb.WriteString(c21FamHeader(name, comment, 8, nil, nil, "Doc, Frag"+noeoi))
	shared := "Pair"
	docPair := "('a' -> Key)"
	if r.Intn(2) == 0 {
		docPair = "('a' -> Key) ('b' -> Mid)?"
	}
	fragOwn := "Frag"
	if r.Intn(4) != 0 {
		fragOwn = shared // the fragment's root has the type of a node of the main input
	}
	extras := []string{"('d' -> Val)", "('d' -> Val) ('e' -> Tail)?", "('d' -> Val)+", "v=('d' -> Val)"}
	extra := extras[r.Intn(len(extras))]
	// the node types the fragment adds are also produced (elsewhere) by the main input
	fmt.Fprintf(&sb, "Doc -> Doc :\n    ('g' %s 'h' -> %s)+ ('d' -> Val)* ('e' -> Tail)?\n;\n", docPair, shared)
	switch r.Intn(3) {
	case 0:
		fmt.Fprintf(&sb, "Frag -> %s :\n    ('a' -> Key) 'c' %s\n;\n", fragOwn, extra)
	case 1:
		fmt.Fprintf(&sb, "Frag -> %s :\n    FragBody\n;\nFragBody :\n    ('a' -> Key) 'c' %s\n  | 'f' %s\n;\n", fragOwn, extra, extra)
	default:
		fmt.Fprintf(&sb, "Frag -> FragRoot :\n    ('a' -> Key) 'c' (%s -> %s)\n;\n", extra, shared)
	}
	return sb.String()
}

// c21FamCatOpt: category (%interface) rules whose alternatives contain optional / nullable parts. The
// compiler has to reject them ("cannot be used inside a category expression" / "must produce exactly one
// node"); when it accepts one, the oracle applies to the field of that category in the parent. A quarter of
// the draws are the well-formed variant (no optional part); rejected draws are redrawn.
func c21FamCatOpt(r *rand.Rand, name string, comment bool) string {
	var sb strings.Builder
	sb.WriteString(c21FamHeader(name, comment, 6, nil, []string{"Value"}, "Root"))
	sb.WriteString("Root -> Root :\n    Stmt+\n;\nStmt :\n    'a' val=Operand 'b' -> S1\n  | 'c' Operand 'd' other=Operand 'b' -> S2\n;\n")
	lit := "Literal -> Literal :\n    'e'\n;\n"
	switch r.Intn(16) / 3 { // 0..3: with an optional part (12 of 16), else well formed
	case 0:
		sb.WriteString("Operand -> Value :\n    Literal?\n;\n" + lit)
	case 1:
		sb.WriteString("Operand -> Value :\n    Literal?\n  | 'f' -> Var\n;\n" + lit)
	case 2:
		sb.WriteString("Operand -> Value :\n    OptLit\n;\nOptLit :\n    Literal?\n;\n" + lit)
	case 3:
		sb.WriteString("Operand -> Value :\n    ('e' -> Lit)?\n  | 'f' -> Var\n;\n")
	default:
		sb.WriteString("Operand -> Value :\n    Literal\n  | 'f' -> Var\n;\n" + lit)
	}
	return sb.String()
}

// c21Family renders family number n%7.
func c21Family(r *rand.Rand, n int, name string, comment bool) (string, string) {
	switch n % 7 {
	case 4:
		return "twins", c21FamTwins(r, name, comment)
	case 5:
		return "inputs", c21FamInputs(r, name, comment)
	case 6:
		return "catopt", c21FamCatOpt(r, name, comment)
	case 0:
		return "cycle", c21FamCycle(r, name, comment)
	case 1:
		return "groups", c21FamGroups(r, name, comment)
	case 2:
		return "sharednt", c21FamSharedNT(r, name, comment)
	default: // 3
		return "shared", c21FamShared(r, name, comment)
	}
}
