package main

// C21 grammar families written directly as .tm text (they complement the decorated random CFGs of
// c21TM, which rarely produce these shapes and, when they do, are usually rejected by the compiler):
//
//	cycle   recursion cycles through 2..4 nonterminals WITHOUT an arrow inside the cycle, entered at a
//	        random member, each member contributing a node / a plain terminal / nothing
//	        (syntax/types.go nontermPhrase: Tarjan SCC detection, "all fields become lists")
//	groups  a node with ordered named fields forming 2..3 separate groups of overlapping node types, the
//	        last field of a group optional or a list at random (fixConflictingFields: FetchAfter chains)
//	shared  several reported terminals sharing ONE node name with other %inject lines in between, or a
//	        reported terminal named like a node an arrow produces, used inside typed rules
//	        (resolveTypes: token -> range type binding)

import (
	"fmt"
	"math/rand"
	"strings"
)

func c21FamHeader(name string, comment bool, nTerms int, injects []string, interfaces []string, input string) string {
	var sb strings.Builder
	fmt.Fprintf(&sb, "language %s(go);\n\nlang = %q\npackage = \"gp/%s\"\neventBased = true\neventFields = true\neventAST = true\n", name, name, name)
	sb.WriteString("\n::lexer\n\nWhiteSpace: /[ ]+/ (space)\n")
	if comment {
		sb.WriteString("Comment: /#/ (space)\n")
	}
	for t := 0; t < nTerms; t++ {
		fmt.Fprintf(&sb, "'%c': /%c/\n", 'a'+t, 'a'+t)
	}
	sb.WriteString("\n::parser\n\n")
	fmt.Fprintf(&sb, "%%input %s;\n\n", input)
	if comment {
		sb.WriteString("%inject Comment -> Comment;\n")
	}
	for _, in := range injects {
		sb.WriteString(in + "\n")
	}
	for _, in := range interfaces {
		fmt.Fprintf(&sb, "%%interface %s;\n", in)
	}
	sb.WriteString("\n")
	return sb.String()
}

// c21FamCycle: `Root -> Root : [pre] C<entry> [post] ; C0 : body0 C1 ; … ; C<k-1> : body C0 | body ;`
// no arrow encloses a cycle member; every member starts with its own terminal (LALR(1) by construction).
func c21FamCycle(r *rand.Rand, name string, comment bool) string {
	k := 2 + r.Intn(3)
	if r.Intn(4) != 0 && k < 3 {
		k = 3 + r.Intn(2)
	}
	entry := r.Intn(k)
	nTypes := 1 + r.Intn(3) // node type names are shared between members at random
	body := make([]string, k)
	for i := 0; i < k; i++ {
		t := fmt.Sprintf("'%c'", 'a'+i)
		must := i == 0 // member 0 always consumes a token: the cycle makes progress
		switch x := r.Intn(10); {
		case x < 5 || (i == entry && x < 8):
			body[i] = fmt.Sprintf("(%s -> K%d)", t, 1+r.Intn(nTypes))
			if r.Intn(5) == 0 {
				body[i] = fmt.Sprintf("f%d=%s", 1+r.Intn(2), body[i])
			}
		case x < 8 || must:
			body[i] = t
		default:
			body[i] = "" // pass-through member (`Rest: Tail`)
		}
	}
	var sb strings.Builder
	sb.WriteString(c21FamHeader(name, comment, k+2, nil, nil, "Root"))
	pre, post := "", ""
	if r.Intn(3) == 0 {
		pre = fmt.Sprintf("('%c' -> Pre) ", 'a'+k)
	}
	if r.Intn(3) == 0 {
		post = fmt.Sprintf(" ('%c' -> Post)", 'a'+k+1)
	}
	fmt.Fprintf(&sb, "Root -> Root :\n    %sC%d%s\n;\n", pre, entry, post)
	for i := 0; i < k; i++ {
		next := fmt.Sprintf("C%d", (i+1)%k)
		if i < k-1 {
			fmt.Fprintf(&sb, "C%d :\n    %s\n;\n", i, strings.TrimSpace(body[i]+" "+next))
			continue
		}
		// the member that closes the cycle: continue or stop
		if body[i] == "" {
			fmt.Fprintf(&sb, "C%d :\n    %s\n  | %%empty\n;\n", i, next)
		} else {
			fmt.Fprintf(&sb, "C%d :\n    %s %s\n  | %s\n;\n", i, body[i], next, body[i])
		}
	}
	return sb.String()
}

// c21FamGroups: `Root -> Root : x1=B1 x2=B1? 'sep'? y1=B2 y2=B2 y3=B2* … ;` — each group repeats ONE node
// type (a plain node or a category of two nodes); only the last field of a group may be optional or a
// list (the compiler rejects the others as overlapping).
func c21FamGroups(r *rand.Rand, name string, comment bool) string {
	ng := 2 + r.Intn(2)
	var rules, interfaces []string
	var fields []string
	term := 0
	nextTerm := func() string { term++; return fmt.Sprintf("'%c'", 'a'+term-1) }
	fn := 0
	for g := 0; g < ng; g++ {
		nt := fmt.Sprintf("B%d", g)
		if r.Intn(3) == 0 {
			cat := fmt.Sprintf("Cat%d", g)
			interfaces = append(interfaces, cat)
			rules = append(rules, fmt.Sprintf("%s -> %s :\n    %s -> %sX\n  | %s -> %sY\n;\n", nt, cat, nextTerm(), nt, nextTerm(), nt))
		} else {
			rules = append(rules, fmt.Sprintf("%s -> %s :\n    %s\n;\n", nt, nt, nextTerm()))
		}
		size := 2 + r.Intn(2)
		for i := 0; i < size; i++ {
			fn++
			f := fmt.Sprintf("g%d=%s", fn, nt)
			if i == size-1 {
				switch r.Intn(5) {
				case 0, 1:
					f += "?"
				case 2:
					f += "*"
				case 3:
					f += "+"
				}
			}
			fields = append(fields, f)
		}
		if g < ng-1 && r.Intn(3) == 0 {
			fields = append(fields, nextTerm())
		}
	}
	var sb strings.Builder
	sb.WriteString(c21FamHeader(name, comment, term, nil, interfaces, "Root"))
	fmt.Fprintf(&sb, "Root -> Root :\n    %s\n;\n", strings.Join(fields, " "))
	for _, rl := range rules {
		sb.WriteString(rl)
	}
	return sb.String()
}

// c21FamShared: reported terminals whose node names repeat (with other %inject lines in between) or
// coincide with a field-less node an arrow produces; every statement alternative is a typed rule that
// starts with its own terminal and continues with terminals that start no statement.
func c21FamShared(r *rand.Rand, name string, comment bool) string {
	nStart := 2 + r.Intn(2)
	nCont := 2 + r.Intn(2)
	nTerms := nStart + nCont
	names := []string{"Op", "Punct", "Word"}
	arrowName := ""
	if r.Intn(2) == 0 {
		arrowName = "Mark" // also produced by an arrow below (over unreported terminals, no fields)
		names = append(names, arrowName)
	}
	var injects []string
	reported := map[int]bool{}
	order := r.Perm(nTerms)
	nameOf := map[int]string{}
	for _, t := range order {
		if r.Intn(4) == 0 {
			continue
		}
		nameOf[t] = names[r.Intn(len(names))]
	}
	if r.Intn(4) != 0 {
		// force the shape `X … Y … X` where the second X is a statement's first terminal (always used
		// inside a typed rule): two terminals share a node name and another name is introduced in between
		var starts, others []int
		for _, t := range order {
			if t < nStart {
				starts = append(starts, t)
			} else {
				others = append(others, t)
			}
		}
		u, v, w := others[0], others[1], starts[0]
		nameOf[u], nameOf[v], nameOf[w] = "Op", "Punct", "Op"
		var rest []int
		for _, t := range order {
			if t != u && t != v && t != w {
				rest = append(rest, t)
			}
		}
		cut := r.Intn(len(rest) + 1)
		order = append(append(append([]int{}, rest[:cut]...), u, v, w), rest[cut:]...)
	}
	for _, t := range order {
		if n, ok := nameOf[t]; ok {
			reported[t] = true
			injects = append(injects, fmt.Sprintf("%%inject '%c' -> %s;", 'a'+t, n))
		}
	}
	var sb strings.Builder
	sb.WriteString(c21FamHeader(name, comment, nTerms, injects, nil, "Root"))
	sb.WriteString("Root -> Root :\n    Stmt+\n;\nStmt :\n")
	for s := 0; s < nStart; s++ {
		var parts []string
		parts = append(parts, fmt.Sprintf("'%c'", 'a'+s))
		n := r.Intn(3)
		for j := 0; j < n; j++ {
			ct := nStart + r.Intn(nCont)
			p := fmt.Sprintf("'%c'", 'a'+ct)
			if arrowName != "" && !reported[ct] && r.Intn(2) == 0 {
				p = fmt.Sprintf("(%s -> %s)", p, arrowName)
			} else if r.Intn(4) == 0 {
				p += "?"
			}
			parts = append(parts, p)
		}
		sep := "    "
		if s > 0 {
			sep = "  | "
		}
		fmt.Fprintf(&sb, "%s%s -> S%d\n", sep, strings.Join(parts, " "), 1+r.Intn(2))
	}
	sb.WriteString(";\n")
	return sb.String()
}

// c21Family renders family number n%3.
func c21Family(r *rand.Rand, n int, name string, comment bool) (string, string) {
	switch n % 3 {
	case 0:
		return "cycle", c21FamCycle(r, name, comment)
	case 1:
		return "groups", c21FamGroups(r, name, comment)
	default:
		return "shared", c21FamShared(r, name, comment)
	}
}
