package main

import (
	"fmt"
	"math/rand"
	"reflect"
	"strings"

	"github.com/inspirer/textmapper/lex"
	"github.com/inspirer/textmapper/shiftdfa"
	"github.com/inspirer/textmapper/status"
)

func init() { props["C24"] = c24 }

type c24Node struct {
	name string
	line int
}

func (n c24Node) SourceRange() status.SourceRange {
	return status.SourceRange{Filename: n.name, Line: n.line + 1, Column: 1}
}

type c24Resolver struct{}

func (c24Resolver) Resolve(name string) *lex.Pattern { return nil }

// ---- pattern generator (byte-mode regular expressions) ----

type c24Gen struct {
	rng      *rand.Rand
	nonASCII int // 0: ASCII only, 1: classes reaching 0xff ([\x80-\xff], [^a]), 2: any byte class / non-ASCII literals
}

var c24Alpha = []string{"a", "b", "c", "d", "e", "0", "1", "_", `\-`, `\/`, `\*`, " ", `\n`, "A", "B"}

func (g *c24Gen) class() string {
	r := g.rng
	var items []string
	n := 1 + r.Intn(3)
	for i := 0; i < n; i++ {
		switch k := r.Intn(10); {
		case k < 4:
			items = append(items, c24Alpha[r.Intn(len(c24Alpha))])
		case k < 7:
			lo := byte('a' + r.Intn(6))
			hi := lo + byte(r.Intn(6))
			items = append(items, fmt.Sprintf("%c-%c", lo, hi))
		case k < 8:
			items = append(items, "0-9")
		default:
			switch g.nonASCII {
			case 0:
				items = append(items, "A-Z")
			case 1:
				items = append(items, []string{`\x80-\xff`, `\x7f-\xff`, `\x60-\xff`}[r.Intn(3)])
			default:
				lo := 0x78 + r.Intn(0x88)
				hi := lo + r.Intn(0x100-lo)
				items = append(items, fmt.Sprintf(`\x%02x-\x%02x`, lo, hi))
			}
		}
	}
	neg := ""
	if g.nonASCII >= 1 && r.Intn(4) == 0 {
		neg = "^" // a negated class contains 0x80..0xff (in byte mode) unless they are listed
	}
	return "[" + neg + strings.Join(items, "") + "]"
}

func (g *c24Gen) atom(depth int) string {
	r := g.rng
	switch k := r.Intn(12); {
	case k < 5:
		return c24Alpha[r.Intn(len(c24Alpha))]
	case k < 8:
		return g.class()
	case k < 9 && g.nonASCII == 2:
		// non-ASCII literal: matched as its UTF-8 bytes in byte mode
		return []string{"é", "ж", `\xe9`, "€"}[r.Intn(4)]
	case k < 10 && g.nonASCII >= 1:
		return "."
	case depth > 0:
		return "(" + g.alt(depth-1) + ")"
	}
	return c24Alpha[r.Intn(len(c24Alpha))]
}

func (g *c24Gen) piece(depth int) string {
	a := g.atom(depth)
	switch k := g.rng.Intn(12); {
	case k < 2:
		return a + "*"
	case k < 5:
		return a + "+"
	case k < 6:
		return a + "?"
	case k < 7:
		return a + []string{"{2}", "{1,2}", "{2,3}", "{0,2}"}[g.rng.Intn(4)]
	}
	return a
}

func (g *c24Gen) seq(depth int) string {
	n := 1 + g.rng.Intn(3)
	var sb strings.Builder
	for i := 0; i < n; i++ {
		sb.WriteString(g.piece(depth))
	}
	return sb.String()
}

func (g *c24Gen) alt(depth int) string {
	s := g.seq(depth)
	if g.rng.Intn(5) == 0 {
		s += "|" + g.seq(depth)
	}
	return s
}

type c24Rule struct {
	pattern string
	token   int
	prec    int
	scs     []int
}

func c24Compile(rules []c24Rule, scanBytes, allowBacktracking bool) (t *lex.Tables, err error, panicked bool) {
	defer func() {
		if r := recover(); r != nil {
			panicked = true
			err = fmt.Errorf("panic: %v", r)
		}
	}()
	var in []*lex.Rule
	for i, r := range rules {
		re, err := lex.ParseRegexp(r.pattern, lex.CharsetOptions{ScanBytes: scanBytes})
		if err != nil {
			return nil, err, false
		}
		in = append(in, &lex.Rule{
			Pattern:         &lex.Pattern{Name: fmt.Sprintf("rule%v", i), RE: re, Text: r.pattern, Origin: c24Node{"rules", i}},
			Resolver:        c24Resolver{},
			Precedence:      r.prec,
			Action:          r.token,
			StartConditions: r.scs,
			Origin:          c24Node{"rules", i},
		})
	}
	t, err = lex.Compile(in, scanBytes, allowBacktracking)
	return t, err, false
}

// ---- canonical text of tables and answers ----

func c24TablesLine(t *lex.Tables) string {
	starts := make([]int, len(t.SymbolMap))
	targets := make([]int, len(t.SymbolMap))
	for i, e := range t.SymbolMap {
		starts[i], targets[i] = int(e.Start), int(e.Target)
	}
	var ba, bn []int
	for _, b := range t.Backtrack {
		ba, bn = append(ba, b.Action), append(bn, b.NextState)
	}
	return fmt.Sprintf("t %s %d %s %s %s %s %s %s", b2s(t.ScanBytes), t.NumSymbols, ints(starts), ints(targets),
		ints(t.StateMap), ints(t.Dfa), ints(ba), ints(bn))
}

// c24WF mirrors TmVerif.LexTables.Tables.wf (used for mutated tables and for the direct oracle).
func c24WF(t *lex.Tables) bool {
	if t.NumSymbols <= 0 || len(t.SymbolMap) == 0 || t.SymbolMap[0].Start != 0 {
		return false
	}
	for i, e := range t.SymbolMap {
		if i > 0 && t.SymbolMap[i-1].Start >= e.Start {
			return false
		}
		if e.Target < 0 || int(e.Target) >= t.NumSymbols {
			return false
		}
	}
	states := len(t.Dfa) / t.NumSymbols
	for _, x := range t.Dfa {
		if x >= states {
			return false
		}
	}
	for _, x := range t.StateMap {
		if x < 0 || x >= states {
			return false
		}
	}
	for _, b := range t.Backtrack {
		if b.NextState < 0 || b.NextState >= states {
			return false
		}
	}
	return true
}

func c24PackKind(err error) string {
	msg := err.Error()
	switch {
	case strings.Contains(msg, "too many states"):
		return "states"
	case strings.Contains(msg, "backtracking not supported"):
		return "bt"
	case strings.Contains(msg, "multiple start states"):
		return "start"
	case strings.Contains(msg, "only ASCII"):
		return "ascii"
	case strings.Contains(msg, "too many actions"):
		return "actions"
	case strings.HasPrefix(msg, "invalid transition on end of input in state #"):
		return "eoi:" + strings.TrimPrefix(msg, "invalid transition on end of input in state #")
	}
	return "other:" + strings.ReplaceAll(msg, " ", "_")
}

func c24Pack(t *lex.Tables) (s *shiftdfa.Scanner, kind string) {
	defer func() {
		if r := recover(); r != nil {
			s, kind = nil, "panic"
		}
	}()
	s, err := shiftdfa.Pack(t)
	if err != nil {
		return nil, c24PackKind(err)
	}
	return s, "ok"
}

func c24LexScan(t *lex.Tables, text string) (res string) {
	defer func() {
		if r := recover(); r != nil {
			res = "panic"
		}
	}()
	size, action := t.Scan(0, text)
	return fmt.Sprintf("%d:%d", size, action)
}

func c24Scanner(s *shiftdfa.Scanner) string {
	table, onEoi := shiftdfa.VerifTables(s)
	var sb strings.Builder
	sb.WriteString("tbl=")
	for b := 0; b < 256; b++ {
		if b == 0 || table[b] != table[b-1] {
			if b > 0 {
				sb.WriteByte(',')
			}
			fmt.Fprintf(&sb, "%d:%x", b, table[b])
		}
	}
	sb.WriteString(" eoi=")
	for i, v := range onEoi {
		if i > 0 {
			sb.WriteByte(',')
		}
		fmt.Fprintf(&sb, "%d", v)
	}
	return sb.String()
}

// c24Answer runs the real Pack, the real packed Scan and the real Tables.Scan.
// It returns the canonical answer and, for well-formed byte-mode tables, the first input on which the two scanners differ.
func c24Answer(t *lex.Tables, wf bool, inputs []string) (answer, packKind, diff string) {
	s, kind := c24Pack(t)
	return c24AnswerWith(t, wf, inputs, s, kind)
}

// c24AnswerWith is c24Answer for a scanner obtained elsewhere (shiftdfa.Compile).
func c24AnswerWith(t *lex.Tables, wf bool, inputs []string, s *shiftdfa.Scanner, kind string) (answer, packKind, diff string) {
	var sb strings.Builder
	fmt.Fprintf(&sb, "wf=%s pack=%s", b2s(wf), kind)
	var ps []string
	if s != nil {
		sb.WriteByte(' ')
		sb.WriteString(c24Scanner(s))
		for _, in := range inputs {
			size, tok := s.Scan(in)
			ps = append(ps, fmt.Sprintf("%d:%d", size, tok))
		}
		sb.WriteString(" p=" + strings.Join(ps, ","))
	}
	var ls []string
	for _, in := range inputs {
		ls = append(ls, c24LexScan(t, in))
	}
	sb.WriteString(" l=" + strings.Join(ls, ","))
	if s != nil && wf && t.ScanBytes {
		for i := range inputs {
			if ps[i] != ls[i] {
				diff = fmt.Sprintf("input %x: packed scanner returns (size:token) %s, lex.Tables.Scan returns %s", inputs[i], ps[i], ls[i])
				break
			}
		}
	}
	return sb.String(), kind, diff
}

// c24Inputs produces byte strings: random walks through the DFA (bytes chosen from the class of a
// symbol with a transition), with injected non-ASCII and arbitrary bytes.
func c24Inputs(r *rand.Rand, t *lex.Tables, n int, asciiOnly bool) []string {
	classBytes := map[int][]byte{}
	lim := 256
	if asciiOnly {
		lim = 128
	}
	if len(t.SymbolMap) > 0 {
		e := 0
		for b := 0; b < lim; b++ {
			for e+1 < len(t.SymbolMap) && int(t.SymbolMap[e+1].Start) <= b {
				e++
			}
			tg := int(t.SymbolMap[e].Target)
			classBytes[tg] = append(classBytes[tg], byte(b))
		}
	}
	anyByte := func() byte {
		switch k := r.Intn(4); {
		case k == 0 && !asciiOnly:
			return byte(0x80 + r.Intn(0x80))
		case k == 1:
			return "abcde01_-/* \nAB"[r.Intn(15)]
		}
		return byte(r.Intn(lim))
	}
	ret := []string{""}
	for len(ret) < n {
		var buf []byte
		state := 0
		l := r.Intn(12)
		if r.Intn(8) == 0 {
			l = 20 + r.Intn(40)
		}
		for len(buf) < l {
			if r.Intn(6) == 0 || t.NumSymbols <= 0 || state < 0 || (state+1)*t.NumSymbols > len(t.Dfa) {
				buf = append(buf, anyByte())
				state = -1
				continue
			}
			// prefer symbols that continue the token
			var cont []int
			for sym := 1; sym < t.NumSymbols; sym++ {
				if t.Dfa[state*t.NumSymbols+sym] >= 0 && len(classBytes[sym]) > 0 {
					cont = append(cont, sym)
				}
			}
			if len(cont) == 0 || r.Intn(7) == 0 {
				buf = append(buf, anyByte())
				state = -1
				continue
			}
			sym := cont[r.Intn(len(cont))]
			cb := classBytes[sym]
			b := cb[r.Intn(len(cb))]
			if r.Intn(3) == 0 {
				b = cb[len(cb)-1] // class boundary
			} else if r.Intn(3) == 0 {
				b = cb[0]
			}
			buf = append(buf, b)
			state = t.Dfa[state*t.NumSymbols+sym]
		}
		ret = append(ret, string(buf))
	}
	return ret
}

func c24CloneTables(t *lex.Tables) *lex.Tables {
	c := *t
	c.SymbolMap = append([]lex.RangeEntry(nil), t.SymbolMap...)
	c.StateMap = append([]int(nil), t.StateMap...)
	c.Dfa = append([]int(nil), t.Dfa...)
	c.Backtrack = append([]lex.Checkpoint(nil), t.Backtrack...)
	return &c
}

// c24Mutate damages real tables (malformed stream: exercises guards, error order and panics of Pack).
func c24Mutate(r *rand.Rand, t *lex.Tables) (*lex.Tables, string) {
	m := c24CloneTables(t)
	switch r.Intn(12) {
	case 0:
		if len(m.Dfa) > 0 {
			m.Dfa[r.Intn(len(m.Dfa))] = r.Intn(14)
			return m, "dfa-target"
		}
	case 1:
		if len(m.Dfa) > 0 {
			m.Dfa[r.Intn(len(m.Dfa))] = -1 - r.Intn(40)
			return m, "dfa-action"
		}
	case 2:
		m.NumSymbols = []int{0, -1, -3, m.NumSymbols - 1, m.NumSymbols + 1, 1}[r.Intn(6)]
		return m, "numsymbols"
	case 3:
		if len(m.SymbolMap) > 0 {
			i := r.Intn(len(m.SymbolMap))
			m.SymbolMap[i].Target = lex.Sym([]int{-1, m.NumSymbols, m.NumSymbols + 2, 0, r.Intn(m.NumSymbols + 1)}[r.Intn(5)])
			return m, "map-target"
		}
	case 4:
		if len(m.SymbolMap) > 0 {
			i := r.Intn(len(m.SymbolMap))
			m.SymbolMap[i].Start = rune([]int{-5, 0, 64, 127, 128, 129, 200, 255, 256, 300, int(m.SymbolMap[i].Start) + 1}[r.Intn(11)])
			return m, "map-start"
		}
	case 5:
		m.SymbolMap = nil
		return m, "map-empty"
	case 6:
		if len(m.SymbolMap) > 1 {
			i := r.Intn(len(m.SymbolMap))
			m.SymbolMap = append(m.SymbolMap[:i], m.SymbolMap[i+1:]...)
			return m, "map-drop"
		}
	case 7:
		m.StateMap = [][]int{nil, {1}, {0, 0}, {-1}, {0, 1}}[r.Intn(5)]
		return m, "statemap"
	case 8:
		m.Backtrack = append(m.Backtrack, lex.Checkpoint{Action: r.Intn(4), NextState: r.Intn(3)})
		return m, "backtrack"
	case 9:
		if len(m.Dfa) > 0 {
			k := r.Intn(len(m.Dfa))
			m.Dfa = m.Dfa[:k]
			return m, "dfa-truncate"
		}
	case 10:
		for i := 0; i < 1+r.Intn(3)*m.NumSymbols && m.NumSymbols > 0; i++ {
			m.Dfa = append(m.Dfa, -1-r.Intn(3))
		}
		return m, "dfa-extend"
	case 11:
		if m.NumSymbols > 0 && len(m.Dfa) >= m.NumSymbols {
			st := r.Intn(len(m.Dfa) / m.NumSymbols)
			m.Dfa[st*m.NumSymbols] = r.Intn(3) // non-negative end-of-input transition
			return m, "eoi-transition"
		}
	}
	m.ScanBytes = !m.ScanBytes
	return m, "scanbytes-flag"
}

// c24Witness: rules of DESIGN.md §6 finding 6. Returns a description of the failure ("" = behaves).
func c24Witness() (what, input string) {
	rules := []c24Rule{{`a`, 1, 0, []int{0}}, {`[\x90-\x9f]+`, 2, 0, []int{0}}, {`b+`, 3, 0, []int{0}}}
	t, err, _ := c24Compile(rules, true, false)
	if err != nil || t == nil {
		return "", ""
	}
	in := "\x95\x95a"
	_, kind, diff := c24Answer(t, c24WF(t), []string{in})
	if kind == "ok" && diff != "" {
		return "shiftdfa.Pack accepts tables whose last symbol-map entry starts above 0x80 (guard `> 0xff`): rules /a/ /[\\x90-\\x9f]+/ /b+/, " + diff,
			c24TablesLine(t) + " " + hexs([]byte(in))
	}
	return "", ""
}

func c24(c *Ctx) {
	r := c.Rng
	// Probe the known guard defect on the real code; the defect class is generated only when the probe behaves.
	avoid := false
	if what, input := c24Witness(); what != "" {
		avoid = true
		c.Violate(what, input)
		c.Notes = append(c.Notes, "guard probe FAILED on the real shiftdfa.Pack: cases with 0x80 < LastMapEntry.Start <= 0xff accepted by Pack are skipped (known defect class)")
	} else {
		c.Notes = append(c.Notes, "guard probe ok: tables with 0x80 < LastMapEntry.Start <= 0xff are generated and must be rejected or agree")
	}
	c.Extra["guard_probe_failed"] = avoid
	c.Rule = "byte-mode rule sets (1-5 rules; ASCII literals, classes, negated classes, repetitions, alternation, groups; " +
		"ASCII-only / classes reaching 0xff / arbitrary non-ASCII byte classes and UTF-8 literals; tokens 0..33; optional second start condition; " +
		"some compiled with backtracking or in rune mode) compiled by the real lex.Compile; the real tables are serialised into the case; " +
		"~20% of cases are damaged copies of real tables (wrong targets, NumSymbols, unsorted map, truncated dfa, extra start states/checkpoints); " +
		"inputs are 7 byte strings per table: random walks through the DFA with class-boundary bytes, bytes >= 0x80 and arbitrary bytes. " +
		"Go answers: Pack result (+ packed table, run-length encoded), Scanner.Scan and lex.Tables.Scan on every input. " +
		"Non-trivial = Pack accepts and the automaton has >= 2 states; distinct by tables+inputs."
	if avoid {
		c.Rule += " AVOIDED CLASS (known guard defect, probe failed): tables accepted by Pack whose last symbol-map entry starts in 0x81..0xff."
	}
	n := c.N(1500, 40000)
	emitted := 0
	for attempt := 0; emitted < n && attempt < 40*n; attempt++ {
		g := &c24Gen{rng: r, nonASCII: []int{0, 0, 1, 1, 1, 2}[r.Intn(6)]}
		nr := 1 + r.Intn(4)
		if r.Intn(6) == 0 {
			nr += r.Intn(3)
		}
		scanBytes := r.Intn(12) != 0
		backtracking := r.Intn(8) == 0
		var rules []c24Rule
		for i := 0; i < nr; i++ {
			tok := 1 + r.Intn(6)
			switch r.Intn(20) {
			case 0:
				tok = 0
			case 1:
				tok = 28 + r.Intn(6) // 32, 33: too many actions
			}
			scs := []int{0}
			if r.Intn(25) == 0 {
				scs = [][]int{{0, 1}, {1}}[r.Intn(2)]
			}
			depth := 1
			if r.Intn(4) == 0 {
				depth = 2
			}
			rules = append(rules, c24Rule{g.alt(depth), tok, -i, scs})
		}
		t, err, panicked := c24Compile(rules, scanBytes, backtracking)
		if panicked {
			c.Count("lex.Compile panic (skipped)")
			continue
		}
		if err != nil || t == nil {
			c.Count("lex.Compile error (skipped)")
			continue
		}
		kindTag := "compiled"
		wf := true // real tables must be well-formed: the model evaluates wf and a 0 shows up as a disagreement
		if !c24WF(t) {
			c.Count("REAL TABLE NOT WELL-FORMED")
			c.Notes = append(c.Notes, "real table fails wf: "+c24TablesLine(t))
		}
		if r.Intn(5) == 0 {
			var how string
			t, how = c24Mutate(r, t)
			kindTag = "damaged:" + how
			wf = c24WF(t)
		} else if scanBytes && !backtracking && len(rules) > 0 && r.Intn(4) == 0 {
			// the public entry point must give the same scanner as Pack(lex.Compile(...))
			c24CheckCompile(c, rules, t)
		}
		asciiOnly := !t.ScanBytes
		inputs := c24Inputs(r, t, 7, asciiOnly)
		answer, kind, diff := c24Answer(t, wf, inputs)
		last := -1
		if len(t.SymbolMap) > 0 {
			last = int(t.SymbolMap[len(t.SymbolMap)-1].Start)
		}
		if avoid && kind == "ok" && last > 0x80 && last <= 0xff {
			c.Count("skipped: known guard defect class")
			continue
		}
		var hx []string
		for _, in := range inputs {
			hx = append(hx, hexs([]byte(in)))
		}
		line := c24TablesLine(t) + " " + strings.Join(hx, " ")
		key := ""
		states := 0
		if t.NumSymbols > 0 {
			states = len(t.Dfa) / t.NumSymbols
		}
		if kind == "ok" && states >= 2 {
			key = line
		}
		cls := "ascii-only map"
		if last > 0x80 {
			cls = "last entry > 0x80"
		} else if last == 0x80 {
			cls = "last entry = 0x80"
		}
		if !t.ScanBytes {
			cls = "rune mode"
		}
		if strings.HasPrefix(kindTag, "damaged") {
			c.Count(kindTag)
			c.Count("damaged pack=" + strings.SplitN(kind, ":", 2)[0])
		} else {
			c.Count(fmt.Sprintf("compiled pack=%s (%s)", strings.SplitN(kind, ":", 2)[0], cls))
			if kind == "ok" {
				c.Count(fmt.Sprintf("accepted states=%d", states))
			}
		}
		c.Case(line, answer, key)
		emitted++
		if diff != "" {
			c.Violate("packed scanner disagrees with the lexer tables it packs: "+diff+"; rules "+c24RulesText(rules)+" ("+kindTag+")", line)
		}
	}
	c24Sequences(c, c.N(400, 8000))
}

// ---- sequences of shiftdfa.Compile calls with named patterns (Options.Patterns) ----

type c24MapResolver map[string]*lex.Pattern

func (m c24MapResolver) Resolve(name string) *lex.Pattern { return m[name] }

// c24CompileNamed builds the lexer tables of rules+named patterns the way shiftdfa.Compile does.
func c24CompileNamed(rules []shiftdfa.Rule, defs map[string]string) (t *lex.Tables, err error) {
	defer func() {
		if r := recover(); r != nil {
			t, err = nil, fmt.Errorf("panic: %v", r)
		}
	}()
	res := c24MapResolver{}
	for name, pattern := range defs {
		re, err := lex.ParseRegexp(pattern, lex.CharsetOptions{ScanBytes: true})
		if err != nil {
			return nil, err
		}
		res[name] = &lex.Pattern{Name: name, RE: re, Text: pattern, Origin: c24Node{name, 0}}
	}
	var in []*lex.Rule
	for i, r := range rules {
		re, err := lex.ParseRegexp(r.Pattern, lex.CharsetOptions{ScanBytes: true})
		if err != nil {
			return nil, err
		}
		in = append(in, &lex.Rule{
			Pattern:         &lex.Pattern{Name: fmt.Sprintf("rule%v", i), RE: re, Text: r.Pattern, Origin: c24Node{"rules", i}},
			Resolver:        res,
			Precedence:      r.Precedence,
			Action:          r.Token,
			StartConditions: []int{0},
			Origin:          c24Node{"rules", i},
		})
	}
	return lex.Compile(in, true, false)
}

func c24DefsText(defs map[string]string) string {
	var parts []string
	for _, k := range []string{"p0", "p1", "p2"} {
		if v, ok := defs[k]; ok {
			parts = append(parts, k+"=/"+v+"/")
		}
	}
	return strings.Join(parts, " ")
}

type c24NamedSet struct {
	rules []shiftdfa.Rule
	defs  []map[string]string // definitions this rule list was already compiled with
}

// c24Sequences compiles, in this one process, many rule lists that refer to named patterns; the same
// rule texts recur with different and with identical pattern definitions. After every call of the
// real shiftdfa.Compile the returned scanner is compared with the lexer tables compiled for the
// definitions of THAT call (state kept between calls of Compile would show here).
func c24Sequences(c *Ctx, n int) {
	r := c.Rng
	c.Rule += " Plus sequences of shiftdfa.Compile(rules, Options{Patterns}) calls in one process: rule lists over named patterns {p0},{p1},{p2}" +
		" recur (2/3 of the calls reuse an earlier rule list) with fresh or repeated pattern definitions; each returned scanner is compared" +
		" (table and Scan on 7 inputs) with lex.Compile of the same rules and the same definitions."
	shapes := []string{`{p0}`, `{p1}`, `{p2}`, `{p0}+`, `{p1}+`, `{p0}{p1}*`, `{p1}{p2}`, `({p0}|{p1})+`, `x{p2}`, `{p2}*y`, `{p0}{p0}`, `\-{p1}`}
	var pool []*c24NamedSet
	newDefs := func() map[string]string {
		g := &c24Gen{rng: r, nonASCII: []int{0, 0, 0, 1}[r.Intn(4)]}
		defs := map[string]string{}
		for _, name := range []string{"p0", "p1", "p2"} {
			switch r.Intn(5) {
			case 0:
				defs[name] = c24Alpha[r.Intn(len(c24Alpha))]
			case 1, 2:
				defs[name] = g.class()
			case 3:
				defs[name] = g.class() + "+"
			default:
				defs[name] = g.seq(0)
			}
		}
		return defs
	}
	emitted := 0
	for attempt := 0; emitted < n && attempt < 30*n; attempt++ {
		var set *c24NamedSet
		var defs map[string]string
		reuse := "new rule list"
		if len(pool) > 0 && r.Intn(3) > 0 {
			set = pool[r.Intn(len(pool))]
			if r.Intn(3) == 0 {
				defs = set.defs[r.Intn(len(set.defs))]
				reuse = "same rule list, same definitions"
			} else {
				defs = newDefs()
				reuse = "same rule list, other definitions"
			}
		} else {
			set = &c24NamedSet{}
			nr := 1 + r.Intn(3)
			for i := 0; i < nr; i++ {
				pat := shapes[r.Intn(len(shapes))]
				if i > 0 && r.Intn(4) == 0 {
					pat = c24Alpha[r.Intn(len(c24Alpha))] + c24Alpha[r.Intn(len(c24Alpha))]
				}
				set.rules = append(set.rules, shiftdfa.Rule{Pattern: pat, Token: 1 + r.Intn(5), Precedence: -i})
			}
			defs = newDefs()
		}
		t, lerr := c24CompileNamed(set.rules, defs)
		var s *shiftdfa.Scanner
		var cerr error
		func() {
			defer func() {
				if p := recover(); p != nil {
					s, cerr = nil, fmt.Errorf("panic: %v", p)
				}
			}()
			// a fresh slice and a fresh map for every call, as a client would pass them
			s, cerr = shiftdfa.Compile(append([]shiftdfa.Rule(nil), set.rules...), shiftdfa.Options{Patterns: defs})
		}()
		if len(set.defs) == 0 {
			if len(pool) < 40 {
				pool = append(pool, set)
			} else {
				pool[r.Intn(len(pool))] = set
			}
		}
		set.defs = append(set.defs, defs)
		desc := fmt.Sprintf("rules %v patterns %s (%s, call #%d for this rule list)", set.rules, c24DefsText(defs), reuse, len(set.defs))
		wantOK := false
		if lerr == nil && t != nil {
			_, k := c24Pack(t)
			wantOK = k == "ok"
		}
		if (cerr == nil) != wantOK {
			c.Count("sequence: acceptance differs")
			c.Violate(fmt.Sprintf("shiftdfa.Compile acceptance differs from Pack(lex.Compile) of the same rules and definitions: Compile error %v, tables accepted %v; %s", cerr, wantOK, desc), desc)
			continue
		}
		if cerr != nil {
			c.Count("sequence: rejected (" + reuse + ")")
			continue
		}
		inputs := c24Inputs(r, t, 7, false)
		answer, _, diff := c24AnswerWith(t, true, inputs, s, "ok")
		var hx []string
		for _, in := range inputs {
			hx = append(hx, hexs([]byte(in)))
		}
		line := c24TablesLine(t) + " " + strings.Join(hx, " ")
		key := ""
		if len(t.Dfa)/t.NumSymbols >= 2 {
			key = line
		}
		c.Count("sequence: accepted (" + reuse + ")")
		c.Case(line, answer, key)
		emitted++
		if diff != "" {
			c.Violate("scanner returned by shiftdfa.Compile disagrees with the lexer tables of the same rules and named patterns: "+diff+"; "+desc, line)
		}
	}
}

func c24RulesText(rules []c24Rule) string {
	var parts []string
	for _, r := range rules {
		parts = append(parts, fmt.Sprintf("/%s/=>%d", r.pattern, r.token))
	}
	return strings.Join(parts, " ")
}

// c24CheckCompile: shiftdfa.Compile(rules) must be Pack(lex.Compile(rules)).
func c24CheckCompile(c *Ctx, rules []c24Rule, t *lex.Tables) {
	var in []shiftdfa.Rule
	for _, r := range rules {
		if len(r.scs) != 1 || r.scs[0] != 0 {
			return
		}
		in = append(in, shiftdfa.Rule{Pattern: r.pattern, Token: r.token, Precedence: r.prec})
	}
	var s1 *shiftdfa.Scanner
	var err error
	func() {
		defer func() {
			if r := recover(); r != nil {
				err = fmt.Errorf("panic: %v", r)
			}
		}()
		s1, err = shiftdfa.Compile(in, shiftdfa.Options{})
	}()
	s2, kind := c24Pack(t)
	c.Count("shiftdfa.Compile cross-check")
	if (err == nil) != (kind == "ok") || (err == nil && !reflect.DeepEqual(s1, s2)) {
		c.Notes = append(c.Notes, fmt.Sprintf("shiftdfa.Compile differs from Pack(lex.Compile): %s: %v vs %s", c24RulesText(rules), err, kind))
		c.Count("shiftdfa.Compile != Pack(lex.Compile)")
	}
}
