package main

import (
	"fmt"
	"math/rand"

	"github.com/inspirer/textmapper/lalr"
)

func init() {
	props["C03"] = func(c *Ctx) { lalr1Cases(c, false) }
	props["C04"] = func(c *Ctx) { lalr1Cases(c, true) }
}

// nullableCycleGram: a recursive nonterminal whose alternatives start with the same run of nullable
// nonterminals (A -> B C A | B C E z | %empty with B, C, E nullable): the transitions on B, C, E, A form
// cycles and sibling edges in the `reads` and `includes` relations of the LALR construction.
func nullableCycleGram(r *rand.Rand) *Gram {
	g := &Gram{Shape: "nullcycle"}
	nt := 3 + r.Intn(3) // terminals 1..nt-1
	g.NT = nt
	k := 2 + r.Intn(3) // nullable helpers
	a := g.NT
	g.NN = 1 + k
	helper := func(i int) int { return g.NT + 1 + i }
	for i := 0; i < k; i++ {
		g.Rules = append(g.Rules, GRule{LHS: helper(i), RHS: nil})
		if r.Intn(3) != 0 {
			g.Rules = append(g.Rules, GRule{LHS: helper(i), RHS: []int{1 + r.Intn(nt-1)}})
		}
		if r.Intn(4) == 0 && i > 0 {
			g.Rules = append(g.Rules, GRule{LHS: helper(i), RHS: []int{helper(r.Intn(i))}})
		}
	}
	prefix := func() []int {
		var p []int
		for i := 0; i < k; i++ {
			if r.Intn(4) != 0 {
				p = append(p, helper(i))
			}
		}
		return p
	}
	common := prefix()
	nAlt := 2 + r.Intn(3)
	for j := 0; j < nAlt; j++ {
		rhs := append([]int(nil), common...)
		if r.Intn(3) == 0 {
			rhs = prefix()
		}
		switch r.Intn(4) {
		case 0: // right recursion through the nullable prefix
			rhs = append(rhs, a)
		case 1: // one more nullable sibling, then a terminal
			rhs = append(rhs, helper(r.Intn(k)), 1+r.Intn(nt-1))
		case 2:
			rhs = append(rhs, 1+r.Intn(nt-1))
		default: // recursion in the middle
			rhs = append(rhs, a, helper(r.Intn(k)))
		}
		g.Rules = append(g.Rules, GRule{LHS: a, RHS: rhs})
	}
	g.Rules = append(g.Rules, GRule{LHS: a, RHS: nil})
	g.Inputs = []GInput{{Sym: a, Eoi: r.Intn(4) != 0}}
	return g
}

// C03: the real lalr.Compile on random grammars (conflicting ones included); the tables, conflict
// counts and the error verdict go to the Lean reference LALR(1) construction for comparison.
func lalr1Cases(c *Ctx, prec bool) {
	c.Rule = "random CFGs (1-5 nonterminals, 1-5 terminals, rules 1-4 per nonterminal, RHS 0-4, nullable chains, several inputs, eoi/no-eoi, expression and list shapes), no precedence; real lalr.Compile; Lean recomputes LR(0) kernels over the table automaton + LALR(1) lookahead fixpoint and compares every (state, terminal) cell, SR/RR counts and the conflict-error verdict; non-trivial = at least one state needs lookahead; distinct by grammar"
	n := c.N(1500, 40000)
	if prec {
		c.Rule = "as C03 but with random %left/%right/%nonassoc groups over the terminals and %prec markers on rules (ambiguous expression grammars E: E op E | ( E ) | atom | op E in 1 of 5 cases); the Lean reference mirrors resolvePrec/ruleAction/conflictBuilder and compares every cell (shift / reduce / explicit nonassoc error / error) and the SR/RR counts; non-trivial = at least one cell was decided by precedence or is an unresolved conflict"
	}
	for i := 0; i < n; i++ {
		cfg := GramCfg{MaxNT: 5, MaxNN: 5, MaxRules: 4, MaxRHS: 4, MultiInput: true, PEmpty: 0.15, Prec: prec}
		if i%7 == 3 {
			cfg.MaxNN, cfg.MaxRules = 8, 3
		}
		if i%5 == 1 {
			// many nullable nonterminals: cycles in the `reads` relation (nullable transitions), long
			// nullable tails behind a nonterminal (includes edges)
			cfg.PEmpty, cfg.MaxNT = 0.45, 3
			c.Count("nullable-heavy family")
		}
		g := RandGram(c.Rng, cfg)
		if i%9 == 4 {
			g = nullableCycleGram(c.Rng)
			c.Count("nullable-cycle family")
		}
		if prec && c.Rng.Intn(5) == 0 {
			g = exprGram(c.Rng, cfg)
		}
		lg := g.Lalr()
		if c.Rng.Intn(3) == 0 {
			addMarkers(c.Rng, lg)
			c.Count("with state markers")
		}
		if c.Rng.Intn(6) == 0 {
			lg.ExpectSR = c.Rng.Intn(3)
			lg.ExpectRR = c.Rng.Intn(2)
		}
		t, err, pan := compileLalr(lg, lalr.Options{})
		if pan != "" {
			c.Violate("lalr.Compile panicked: "+pan, g.Pretty())
			continue
		}
		hasErr := err != nil
		key := ""
		for _, a := range t.Action {
			if a < -2 {
				key = g.String()
			}
		}
		if prec {
			// non-trivial: compiling WITHOUT precedence gives different conflict counts or tables
			key = ""
			g2 := *g
			g2.Prec = nil
			g2.Rules = append([]GRule(nil), g.Rules...)
			for i := range g2.Rules {
				g2.Rules[i].Prec = 0
			}
			if t2, _, p2 := compileLalr(g2.Lalr(), lalr.Options{}); p2 == "" && (t2.SR != t.SR || t2.RR != t.RR || ints(t2.Lalr) != ints(t.Lalr)) {
				key = g.String()
				c.Count("precedence-decides")
			}
		}
		switch {
		case t.SR+t.RR == 0:
			c.Count("conflict-free " + g.Shape)
		default:
			c.Count("conflicting " + g.Shape)
		}
		c.Count(fmt.Sprintf("inputs=%d", len(g.Inputs)))
		line := fmt.Sprintf("lalr1 %s %s %d %d %s %d %d", g.String(), tablesStr(t, g.NT), t.SR, t.RR, b2s(hasErr), lg.ExpectSR, lg.ExpectRR)
		c.Case(line, "ok", key)
		if prec && i%6 == 0 {
			c04FrontEnd(c, g, t.SR, t.RR)
		}
	}
}

// c04FrontEnd ties the .tm front end to the precedence data the tables are built from: the grammar is
// rendered as text (with %left/%right/%nonassoc lines and %prec markers, also on empty rules), compiled by
// the real compiler.Compile, and the compiled rules' Precedence and the Prec groups are compared with the
// source (independent oracle); the compiled tables then go through the same canonical LALR(1) comparison.
func c04FrontEnd(c *Ctx, g *Gram, sr, rr int) {
	g2 := *g
	g2.Rules = append([]GRule(nil), g.Rules...)
	// put %prec on an empty rule now and then
	for i := range g2.Rules {
		if len(g2.Rules[i].RHS) == 0 && g2.NT > 1 && c.Rng.Intn(2) == 0 {
			g2.Rules[i].Prec = 1 + c.Rng.Intn(g2.NT-1)
		}
	}
	o := TMOpts{ExpectSR: 0, ExpectRR: 0}
	gp := compileTM("p", g2.TM("p", o), o)
	if gp.Err != nil && gp.G == nil {
		// conflicts are reported as errors by the front end: retry with the expected counts
		t0, _, pan := compileLalr(g2.Lalr(), lalr.Options{})
		if pan != "" {
			return
		}
		o.ExpectSR, o.ExpectRR = t0.SR, t0.RR
		gp = compileTM("p", g2.TM("p", o), o)
	}
	if gp.Err != nil || gp.G == nil || gp.G.Parser == nil {
		c.Count("front end: rejected " + firstWords(errSummary(gp.Err), 4))
		return
	}
	c.Count("front end: compiled")
	p := gp.G.Parser
	desc := g2.Pretty()
	term := func(t int) int { return gp.TermID("'" + g2.SymName(t) + "'") }
	// rules in compiled order = grouped by nonterminal in order of first appearance
	var order []int
	seen := map[int]bool{}
	for _, r := range g2.Rules {
		if !seen[r.LHS] {
			seen[r.LHS] = true
			order = append(order, r.LHS)
		}
	}
	var src []GRule
	for _, lhs := range order {
		for _, r := range g2.Rules {
			if r.LHS == lhs {
				src = append(src, r)
			}
		}
	}
	if len(src) != len(p.Rules) {
		// the front end collapses duplicate alternatives of a nonterminal: drop later duplicates
		var dd []GRule
		seenR := map[string]bool{}
		for _, r := range src {
			k := fmt.Sprint(r.LHS, r.RHS)
			if !seenR[k] {
				seenR[k] = true
				dd = append(dd, r)
			}
		}
		if len(dd) != len(src) {
			c.Count("front end: duplicate alternatives (rule-level comparison skipped)")
			return
		}
	}
	if len(src) != len(p.Rules) {
		c.Violate(fmt.Sprintf("front end produced %d rules for %d source rules of a plain grammar", len(p.Rules), len(src)), desc)
		return
	}
	for i, r := range src {
		want := 0
		if r.Prec != 0 {
			want = term(r.Prec)
		}
		if int(p.Rules[i].Precedence) != want {
			c.Violate(fmt.Sprintf("rule %d (%s): %%prec terminal of the compiled rule is symbol %d, the source says %d", i, g2.SymName(r.LHS), int(p.Rules[i].Precedence), want), desc)
		}
	}
	if len(p.Prec) != len(g2.Prec) {
		c.Violate(fmt.Sprintf("front end kept %d precedence groups of %d", len(p.Prec), len(g2.Prec)), desc)
	} else {
		for i, pg := range g2.Prec {
			ok := int(p.Prec[i].Associativity) == pg.Assoc && len(p.Prec[i].Terminals) == len(pg.Terms)
			for k := 0; ok && k < len(pg.Terms); k++ {
				ok = int(p.Prec[i].Terminals[k]) == term(pg.Terms[k])
			}
			if !ok {
				c.Violate(fmt.Sprintf("precedence group %d differs between source and compiled grammar", i), desc)
			}
		}
	}
	t := p.Tables
	c.Case(fmt.Sprintf("lalr1 %s %s %d %d 0 %d %d", gp.ProtoGrammar(), tablesStr(t, p.NumTerminals), t.SR, t.RR, o.ExpectSR, o.ExpectRR), "ok", "")
}
