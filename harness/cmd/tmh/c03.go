package main

import (
	"fmt"

	"github.com/inspirer/textmapper/lalr"
)

func init() {
	props["C03"] = func(c *Ctx) { lalr1Cases(c, false) }
	props["C04"] = func(c *Ctx) { lalr1Cases(c, true) }
}

// C03: the real lalr.Compile on random grammars (conflicting ones included); the tables, conflict
// counts and the error verdict go to the Lean reference LALR(1) construction for comparison.
func lalr1Cases(c *Ctx, prec bool) {
	c.Rule = "random CFGs (1-5 nonterminals, 1-5 terminals, rules 1-4 per nonterminal, RHS 0-4, nullable chains, several inputs, eoi/no-eoi, expression and list shapes), no precedence; real lalr.Compile; Lean recomputes LR(0) kernels over the table automaton + LALR(1) lookahead fixpoint and compares every (state, terminal) cell, SR/RR counts and the conflict-error verdict; non-trivial = at least one state needs lookahead; distinct by grammar"
	n := c.N(1500, 40000)
	if prec {
		c.Rule = "as C03 but with random %left/%right/%nonassoc groups over the terminals and %prec markers on rules (ambiguous expression grammars E: E op E | ( E ) | atom | op E in 1 of 5 cases); the Lean reference mirrors resolvePrec/ruleAction/conflictBuilder and compares every cell (shift / reduce / explicit nonassoc error / error) and the SR/RR counts; non-trivial = at least one cell was decided by precedence or is an unresolved conflict"
	}
	for i := 0; i < n; i++ {
		cfg := GramCfg{MaxNT: 5, MaxNN: 5, MaxRules: 4, MaxRHS: 4, MultiInput: true, PEmpty: 0.15, Prec: prec}
		if i%7 == 3 {
			cfg.MaxNN, cfg.MaxRules = 8, 3
		}
		g := RandGram(c.Rng, cfg)
		if prec && c.Rng.Intn(5) == 0 {
			g = exprGram(c.Rng, cfg)
		}
		lg := g.Lalr()
		if c.Rng.Intn(3) == 0 {
			addMarkers(c.Rng, lg)
			c.Count("with state markers")
		}
		if c.Rng.Intn(6) == 0 {
			lg.ExpectSR = c.Rng.Intn(3)
			lg.ExpectRR = c.Rng.Intn(2)
		}
		t, err, pan := compileLalr(lg, lalr.Options{})
		if pan != "" {
			c.Violate("lalr.Compile panicked: "+pan, g.Pretty())
			continue
		}
		hasErr := err != nil
		key := ""
		for _, a := range t.Action {
			if a < -2 {
				key = g.String()
			}
		}
		if prec {
			// non-trivial: compiling WITHOUT precedence gives different conflict counts or tables
			key = ""
			g2 := *g
			g2.Prec = nil
			g2.Rules = append([]GRule(nil), g.Rules...)
			for i := range g2.Rules {
				g2.Rules[i].Prec = 0
			}
			if t2, _, p2 := compileLalr(g2.Lalr(), lalr.Options{}); p2 == "" && (t2.SR != t.SR || t2.RR != t.RR || ints(t2.Lalr) != ints(t.Lalr)) {
				key = g.String()
				c.Count("precedence-decides")
			}
		}
		switch {
		case t.SR+t.RR == 0:
			c.Count("conflict-free " + g.Shape)
		default:
			c.Count("conflicting " + g.Shape)
		}
		c.Count(fmt.Sprintf("inputs=%d", len(g.Inputs)))
		line := fmt.Sprintf("lalr1 %s %s %d %d %s %d %d", g.String(), tablesStr(t, g.NT), t.SR, t.RR, b2s(hasErr), lg.ExpectSR, lg.ExpectRR)
		c.Case(line, "ok", key)
	}
}
