package main

// C17 — generation completes and the generated Go code builds.
//
// The Lean side of this property is an OBLIGATION about the templates (definition/use guard consistency for all
// valuations of the guard atoms, Props/C17.lean), not a runtime model. This generator is the SEARCH for failing
// inputs of the property as stated (which no model covers): grammars × option sets → real compiler.Compile +
// gen.Generate (in a child process, so that a log.Fatal is observed as a finding instead of killing the harness)
// → all generated packages written into one scratch Go module under $TMPDIR → `go build ./...` and
// `go vet ./...` → every package that does not build is reported with its grammar, option set and first
// compiler error line.
//
//  1. ties to the Lean side: the harness runs tools/factgen on the tree under test and asks the driver whether
//     the facts it was compiled with are those (`facts`), whether all pairs are consistent / listed (`guards`),
//     and whether a guard-level finding class is listed in the expectation table exactly while its witness still
//     fails to build (`known <token>`);
//  2. probes: one witness grammar per known class of build failures (guard-level findings of the obligation and
//     symbol-name collisions). A class whose witness still fails to build is reported once with its stable token
//     and the random stream stays away from exactly that class; a class whose witness builds is exercised by the
//     random stream;
//  3. sweep: skeleton grammars (a small statement/expression language whose lexer and parser features are
//     switched by a feature vector) and random context-free grammars (gram.go RandGram) rendered with arrows,
//     under option vectors chosen for PAIRWISE coverage of the Boolean options and features.
//
// The trusted implications of Facts/ExpectC17.lean (`trusted = true`) are evaluated on every compiled grammar
// (c17CheckAxioms); a grammar that falsifies one is reported.

import (
	"bytes"
	"context"
	"fmt"
	"go/ast"
	"go/parser"
	"go/token"
	"math/rand"
	"os"
	"os/exec"
	"path/filepath"
	"regexp"
	"sort"
	"strconv"
	"strings"
	"unicode"

	"github.com/inspirer/textmapper/compiler"
	"github.com/inspirer/textmapper/gen"
	"github.com/inspirer/textmapper/grammar"
)

func init() {
	props["C17"] = c17
	if len(os.Args) >= 3 && os.Args[1] == "C17-child" {
		c17Child(os.Args[2])
		os.Exit(0)
	}
}

// ---- features ------------------------------------------------------------------------------------------------

// c17Bools are the Boolean dimensions of the sweep (options of the grammar file and features of the skeleton).
// Order matters only for reproducibility.
var c17Bools = []string{
	// options
	"eventBased", "eventFields", "eventAST", "genSelector", "fileNode", "tokenStream", "fixWhitespace",
	"cancellable", "cancellableFetch", "recursiveLookaheads", "optimizeTables", "defaultReduce", "minimizeDFA",
	"writeBison", "debugParser", "noTokenLine", "tokenLineOffset", "tokenColumn", "scanBytes", "nonBacktracking",
	"noSkipBOM", "caseInsensitive", "nodePrefix", "extraTypes",
	// lexer features
	"lexerOnly", "classRule", "typedToken", "unicode", "backtrack", "startConds", "comment", "invalidToken", "lexerCode",
	// parser features
	"recovering", "inject", "injectInvalid", "lookahead", "lalr2", "typedNonterm", "actions", "multiInput", "noEoiInput",
	"namedSet", "iface", "marker", "recoveryScope", "lists", "optionals", "innerArrows", "prec", "templates", "midRule",
}

type c17Feat map[string]bool

func (f c17Feat) String() string {
	var on []string
	for _, k := range c17Bools {
		if f[k] {
			on = append(on, k)
		}
	}
	return strings.Join(on, ",")
}

// c17Avoid holds the finding classes whose probe still fails: the random stream stays away from them.
type c17Avoid map[string]bool

// normalize enforces the dependencies between features (what the compiler rejects or what makes no sense) and
// steers away from the classes of c17Avoid.
func (f c17Feat) normalize(avoid c17Avoid) {
	if f["lexerOnly"] {
		for _, k := range []string{"eventBased", "eventFields", "eventAST", "genSelector", "fileNode", "tokenStream", "fixWhitespace",
			"cancellable", "cancellableFetch", "recursiveLookaheads", "optimizeTables", "defaultReduce", "writeBison", "debugParser",
			"recovering", "inject", "injectInvalid", "lookahead", "lalr2", "typedNonterm", "actions", "multiInput", "noEoiInput",
			"namedSet", "iface", "marker", "recoveryScope", "lists", "optionals", "innerArrows", "prec", "templates", "midRule", "nodePrefix", "extraTypes"} {
			f[k] = false
		}
	}
	if !f["lexerOnly"] && avoid["[C17-ruletype-nodetype]"] {
		f["eventBased"] = true
	}
	if !f["eventBased"] {
		for _, k := range []string{"eventFields", "eventAST", "genSelector", "fileNode", "inject", "injectInvalid", "iface", "innerArrows", "nodePrefix", "extraTypes", "fixWhitespace"} {
			f[k] = false
		}
		if avoid["[C17-stream-without-types]"] {
			f["tokenStream"] = false
		}
	}
	if f["eventAST"] && !f["eventFields"] && !f["genSelector"] && avoid["[C17-ast-without-selector]"] {
		f["genSelector"] = true
	}
	if f["tokenStream"] && f["noTokenLine"] && avoid["[C17-stream-tokenline]"] {
		f["noTokenLine"] = false
	}
	if f["tokenStream"] && f["cancellableFetch"] && f["lookahead"] && avoid["[C17-stream-cancellablefetch]"] {
		f["cancellableFetch"] = false
	}
	if f["templates"] && f["typedNonterm"] && avoid["[C17-typed-ref-after-instantiate]"] {
		f["templates"] = false
	}
	if avoid["[C17-nodeprefix]"] {
		f["nodePrefix"] = false
	}
	if f["nonBacktracking"] {
		f["backtrack"] = false
	}
	if f["classRule"] {
		f["caseInsensitive"] = false // keywords would no longer be specialisations of the class
	}
	if f["noEoiInput"] {
		f["multiInput"] = true
	}
	if !f["cancellable"] {
		f["cancellableFetch"] = false
	}
	if !f["lookahead"] {
		f["recursiveLookaheads"] = false
	}
	if f["lalr2"] {
		f["optimizeTables"] = false // lalr(k) + optimized tables: log.Fatal in lalr/optimize.go (C22 finding)
		f["lookahead"] = false
	}
	if f["injectInvalid"] {
		f["invalidToken"] = true
	}
	if f["inject"] {
		f["comment"] = true
	}
	if f["recoveryScope"] {
		f["recovering"] = true
	}
	if f["fileNode"] && !f["eventAST"] {
		f["fileNode"] = false
	}
	if f["scanBytes"] {
		f["unicode"] = false
		f["caseInsensitive"] = false
	}
	if f["midRule"] {
		f["actions"] = true
		if f["marker"] || f["recoveryScope"] {
			f["midRule"] = false // "mixing mid-rule actions with state markers is not supported"
		}
	}
	if f["typedNonterm"] {
		f["actions"] = true
	}
	// derived: the lookahead target is itself a user no-eoi input (class [C17-lookahead-user-input], once its probe builds)
	f["laInput"] = f["lookahead"] && f["noEoiInput"] && !f["lalr2"] && !avoid["[C17-lookahead-user-input]"]
	if f["tokenStream"] && f["typedNonterm"] && avoid["[C17-stream-value]"] {
		f["typedNonterm"] = false // the shift stores stream.Value(), which no template declares
	}
}

// c17Names are the identifiers the skeleton uses for things whose names reach generated code.
type c17Names struct {
	Node   map[string]string // logical node type → name used after `->`
	Set    string
	Tok    map[string]string // logical token → name
	Marker string
}

func c17DefaultNames() c17Names {
	n := c17Names{Node: map[string]string{}, Tok: map[string]string{}, Set: "StmtFirst", Marker: "stmtStart"}
	for _, k := range []string{"File", "Assign", "Block", "If", "Broken", "CallStmt", "Plus", "Mul", "Lit", "Ref", "Paren", "Call", "Args", "Comment", "InvalidToken", "Stmt", "Expr", "Neg", "Item", "Opt"} {
		n.Node[k] = k
	}
	for _, k := range []string{"Ident", "Num", "Str", "Arrow", "Comment", "WhiteSpace"} {
		n.Tok[k] = k
	}
	return n
}

func c17Options(name string, f c17Feat, n c17Names) string {
	var sb strings.Builder
	fmt.Fprintf(&sb, "language %s(go);\n\nlang = %q\npackage = \"gp/%s\"\n", name, name, name)
	opt := func(k, v string) { fmt.Fprintf(&sb, "%s = %s\n", k, v) }
	for _, k := range []string{"eventBased", "eventFields", "eventAST", "genSelector", "tokenStream", "fixWhitespace", "cancellable",
		"cancellableFetch", "recursiveLookaheads", "optimizeTables", "defaultReduce", "minimizeDFA", "writeBison", "debugParser",
		"tokenLineOffset", "tokenColumn", "scanBytes", "nonBacktracking", "caseInsensitive"} {
		if f[k] {
			opt(k, "true")
		}
	}
	if f["noTokenLine"] {
		opt("tokenLine", "false")
	}
	if f["noSkipBOM"] {
		opt("skipByteOrderMark", "false")
	}
	if f["fileNode"] {
		opt("fileNode", fmt.Sprintf("%q", n.Node["File"]))
	}
	if f["nodePrefix"] {
		opt("nodePrefix", `"Nd"`)
	}
	if f["extraTypes"] {
		if f["iface"] {
			opt("extraTypes", `["Extra1", "Extra2 -> `+n.Node["Expr"]+`"]`)
		} else {
			opt("extraTypes", `["Extra1", "Extra2"]`)
		}
	}
	return sb.String()
}

// c17Skeleton renders a statement/expression language. Every combination of features that survives normalize is
// meant to compile (the few that do not are counted as rejected).
func c17Skeleton(r *rand.Rand, name string, f c17Feat, n c17Names) string {
	var sb strings.Builder
	sb.WriteString(c17Options(name, f, n))
	ev := f["eventBased"]
	arrow := func(k string) string {
		if !ev {
			return ""
		}
		return " -> " + n.Node[k]
	}
	sb.WriteString("\n:: lexer\n\n")
	if f["startConds"] {
		sb.WriteString("%x inBlk;\n\n")
	}
	fmt.Fprintf(&sb, "%s: /[ \\t\\r\\n]+/ (space)\n", n.Tok["WhiteSpace"])
	if f["comment"] {
		fmt.Fprintf(&sb, "%s: /#[^\\n]*/ (space)\n", n.Tok["Comment"])
	}
	if f["classRule"] {
		fmt.Fprintf(&sb, "%s: /[a-zA-Z_][a-zA-Z0-9_]*/ (class)\n'if': /if/\n'else': /else/\n", n.Tok["Ident"])
	} else {
		fmt.Fprintf(&sb, "%s: /[a-zA-Z_][a-zA-Z0-9_]*/\n'if': /\\?/\n'else': /:/\n", n.Tok["Ident"])
	}
	if f["typedToken"] {
		fmt.Fprintf(&sb, "%s {int}: /[0-9]+/ { $$ = len(l.Text()) }\n", n.Tok["Num"])
	} else if f["lexerCode"] {
		fmt.Fprintf(&sb, "%s: /[0-9]+/ { _ = l.Text() }\n", n.Tok["Num"])
	} else {
		fmt.Fprintf(&sb, "%s: /[0-9]+/\n", n.Tok["Num"])
	}
	if f["unicode"] {
		fmt.Fprintf(&sb, "%s: /\\p{Lu}[\\x{10000}-\\x{10400}]+|\"[^\"\\n]*\"/\n", n.Tok["Str"])
	} else {
		fmt.Fprintf(&sb, "%s: /\"[^\"\\n]*\"/\n", n.Tok["Str"])
	}
	if f["backtrack"] {
		fmt.Fprintf(&sb, "%s: /-(-)*>/\n", n.Tok["Arrow"])
	}
	sb.WriteString("'+': /\\+/\n'-': /-/\n'*': /\\*/\n'(': /\\(/\n')': /\\)/\n',': /,/\n';': /;/\n'=': /=/\n'{': /\\{/\n'}': /\\}/\n")
	if f["recovering"] {
		sb.WriteString("error:\n")
	}
	if f["invalidToken"] {
		sb.WriteString("invalid_token:\n")
	}
	if f["startConds"] {
		sb.WriteString("\nBlkOpen: /\\[\\[/ (space) { l.State = StateInBlk }\n<inBlk> {\n  BlkBody: /[^\\]]+|\\]/ (space)\n  BlkClose: /\\]\\]/ (space) { l.State = StateInitial }\n}\n")
	}
	if f["lexerOnly"] {
		return sb.String()
	}
	if f["lalr2"] {
		sb.WriteString("\n:: parser lalr(2)\n\n")
	} else {
		sb.WriteString("\n:: parser\n\n")
	}
	inputs := "File"
	if f["laInput"] {
		inputs += ", IsCall no-eoi"
	} else if f["multiInput"] {
		inputs += ", Call"
		if f["noEoiInput"] {
			inputs += " no-eoi"
		}
	}
	fmt.Fprintf(&sb, "%%input %s;\n\n", inputs)
	if f["inject"] {
		fmt.Fprintf(&sb, "%%inject %s -> %s;\n", n.Tok["Comment"], n.Node["Comment"])
	}
	if f["injectInvalid"] {
		fmt.Fprintf(&sb, "%%inject invalid_token -> %s;\n", n.Node["InvalidToken"])
	}
	if f["namedSet"] {
		fmt.Fprintf(&sb, "%%generate %s = set(first Stmt);\n", n.Set)
	}
	if f["prec"] {
		sb.WriteString("%left '+' '-';\n%left '*';\n")
	}
	if f["templates"] {
		sb.WriteString("%flag WithStr;\n")
	}
	star := "Stmt*"
	if !f["lists"] {
		star = "StmtList"
	}
	fmt.Fprintf(&sb, "\nFile%s :\n    %s ;\n\n", arrow("File"), star)
	if !f["lists"] {
		sb.WriteString("StmtList :\n    StmtList Stmt\n  | %empty\n;\n\n")
	}
	if f["iface"] {
		fmt.Fprintf(&sb, "%%interface %s, %s;\n\n", n.Node["Stmt"], n.Node["Expr"])
	}
	stmtArrow, exprArrow := "", ""
	if f["iface"] {
		stmtArrow, exprArrow = " -> "+n.Node["Stmt"], " -> "+n.Node["Expr"]
	}
	mark := ""
	if f["marker"] {
		mark = " ." + n.Marker
	}
	fmt.Fprintf(&sb, "Stmt%s :\n", stmtArrow)
	act := func(code string) string {
		if f["actions"] {
			return " { " + code + " }"
		}
		return ""
	}
	lhs := n.Tok["Ident"]
	if f["innerArrows"] {
		lhs = "(" + n.Tok["Ident"] + " -> " + n.Node["Ref"] + ")"
	}
	la := ""
	if f["lookahead"] {
		la = "(?= !IsCall) "
	}
	fmt.Fprintf(&sb, "    %s%s%s '=' Expr ';'%s%s\n", la, lhs, mark, act("/* assign */"), arrow("Assign"))
	scope := ""
	if f["recoveryScope"] {
		scope = " .recoveryScope"
	}
	fmt.Fprintf(&sb, "  | '{'%s %s '}'%s\n", scope, star, arrow("Block"))
	fmt.Fprintf(&sb, "  | 'if' '(' Expr ')' '{' %s '}'%s\n", star, arrow("If"))
	if f["templates"] {
		fmt.Fprintf(&sb, "  | '*' Flagged<+WithStr> ';'%s\n  | '*' '*' Flagged<~WithStr> ';'%s\n", arrow("Item"), arrow("Opt"))
	}
	if f["recovering"] {
		fmt.Fprintf(&sb, "  | error ';'%s\n", arrow("Broken"))
	}
	if f["lookahead"] {
		fmt.Fprintf(&sb, "  | (?= IsCall) Call ';'%s\n", arrow("CallStmt"))
	} else {
		fmt.Fprintf(&sb, "  | Call ';'%s\n", arrow("CallStmt"))
	}
	if f["midRule"] {
		fmt.Fprintf(&sb, "  | '-' { /* mid-rule */ } Expr ';'%s\n", arrow("Neg"))
	}
	if f["backtrack"] {
		fmt.Fprintf(&sb, "  | %s Expr ';'%s\n", n.Tok["Arrow"], arrow("Item"))
	}
	sb.WriteString(";\n\n")
	if f["templates"] {
		fmt.Fprintf(&sb, "Flagged<WithStr> :\n    %s\n  | [WithStr] %s\n;\n\n", n.Tok["Num"], n.Tok["Str"])
	}
	if f["lookahead"] {
		fmt.Fprintf(&sb, "IsCall :\n    %s '(' ;\n\n", n.Tok["Ident"])
	}
	typ := ""
	if f["typedNonterm"] {
		typ = " {int}"
	}
	fmt.Fprintf(&sb, "Expr%s%s :\n", typ, exprArrow)
	val := func(code string) string {
		if f["typedNonterm"] {
			return " { " + code + " }"
		}
		return act("/* expr */")
	}
	if f["prec"] {
		fmt.Fprintf(&sb, "    Expr[left] '+' Expr[right]%s%s\n", val("$$ = $left + $right"), arrow("Plus"))
		fmt.Fprintf(&sb, "  | Expr[left] '*' Expr[right]%s%s\n", val("$$ = $left * $right"), arrow("Mul"))
		sb.WriteString("  | Primary\n;\n\n")
	} else {
		fmt.Fprintf(&sb, "    Expr[left] '+' Primary[right]%s%s\n", val("$$ = $left + $right"), arrow("Plus"))
		sb.WriteString("  | Primary\n;\n\n")
	}
	fmt.Fprintf(&sb, "Primary%s%s :\n", typ, exprArrow)
	if f["typedToken"] && f["typedNonterm"] {
		fmt.Fprintf(&sb, "    %s { $$ = $%s }%s\n", n.Tok["Num"], n.Tok["Num"], arrow("Lit"))
	} else {
		fmt.Fprintf(&sb, "    %s%s%s\n", n.Tok["Num"], val("$$ = 1"), arrow("Lit"))
	}
	fmt.Fprintf(&sb, "  | %s%s%s\n", n.Tok["Str"], val("$$ = 2"), arrow("Lit"))
	fmt.Fprintf(&sb, "  | '(' Expr ')'%s%s\n", val("$$ = $Expr"), arrow("Paren"))
	if f["optionals"] {
		fmt.Fprintf(&sb, "  | '-'? %s%s%s\n", n.Tok["Ident"], val("$$ = 3"), arrow("Ref"))
	} else {
		fmt.Fprintf(&sb, "  | %s%s%s\n", n.Tok["Ident"], val("$$ = 3"), arrow("Ref"))
	}
	sb.WriteString(";\n\n")
	args := "(Expr separator ',')*"
	if !f["lists"] {
		args = "ArgList"
	} else if f["innerArrows"] {
		args = "((Expr separator ',')+ -> " + n.Node["Args"] + ")?"
	}
	fmt.Fprintf(&sb, "Call%s :\n    %s '(' %s ')' ;\n\n", arrow("Call"), n.Tok["Ident"], args)
	if !f["lists"] {
		sb.WriteString("ArgList :\n    ArgList ',' Expr\n  | Expr\n;\n\n")
	}
	return sb.String()
}

// c17RandTM renders a random CFG with an arrow on most rules under the option part of f.
func c17RandTM(r *rand.Rand, g *Gram, name string, f c17Feat, n c17Names) string {
	var sb strings.Builder
	sb.WriteString(c17Options(name, f, n))
	sb.WriteString("\n:: lexer\n\n")
	sb.WriteString("WhiteSpace: /[ \\t\\n]+/ (space)\n")
	for t := 1; t < g.NT; t++ {
		fmt.Fprintf(&sb, "'%s': /%s/\n", g.SymName(t), g.SymName(t))
	}
	if f["recovering"] {
		sb.WriteString("error:\n")
	}
	if f["invalidToken"] {
		sb.WriteString("invalid_token:\n")
	}
	sb.WriteString("\n:: parser\n\n")
	var ins []string
	for _, in := range g.Inputs {
		s := g.SymName(in.Sym)
		if !in.Eoi {
			s += " no-eoi"
		}
		ins = append(ins, s)
	}
	fmt.Fprintf(&sb, "%%input %s;\n", strings.Join(ins, ", "))
	for _, p := range g.Prec {
		fmt.Fprintf(&sb, "%%%s", []string{"left", "right", "nonassoc"}[p.Assoc])
		for _, t := range p.Terms {
			fmt.Fprintf(&sb, " '%s'", g.SymName(t))
		}
		sb.WriteString(";\n")
	}
	sb.WriteString("\n")
	var order []int
	seen := map[int]bool{}
	for _, rl := range g.Rules {
		if !seen[rl.LHS] {
			seen[rl.LHS] = true
			order = append(order, rl.LHS)
		}
	}
	for _, lhs := range order {
		fmt.Fprintf(&sb, "%s :\n", g.SymName(lhs))
		first := true
		for i, rl := range g.Rules {
			if rl.LHS != lhs {
				continue
			}
			if first {
				sb.WriteString("    ")
				first = false
			} else {
				sb.WriteString("  | ")
			}
			if len(rl.RHS) == 0 {
				sb.WriteString("%empty")
			}
			for k, s := range rl.RHS {
				if k > 0 {
					sb.WriteString(" ")
				}
				if f["marker"] && k == len(rl.RHS)-1 && i%4 == 0 {
					fmt.Fprintf(&sb, ".m%d ", i%2)
				}
				if s < g.NT {
					fmt.Fprintf(&sb, "'%s'", g.SymName(s))
				} else {
					sb.WriteString(g.SymName(s))
				}
			}
			if rl.Prec != 0 {
				fmt.Fprintf(&sb, " %%prec '%s'", g.SymName(rl.Prec))
			}
			if f["recovering"] && i%5 == 1 && len(rl.RHS) > 0 {
				fmt.Fprintf(&sb, "\n  | error")
			}
			if f["eventBased"] && r.Intn(5) != 0 {
				fmt.Fprintf(&sb, " -> R%d", i)
			}
			sb.WriteString("\n")
		}
		sb.WriteString(";\n")
	}
	return sb.String()
}

// c17WidthTM: a grammar whose tables sit at a boundary of the element types chosen by bits_per_element. The parser
// has one rule of `n` keywords (n + 4 states: tmTable / tmCheck / tmFromTo / the state type, and tmRuleLen = n) and
// the lexer a literal of `l` characters (about l + 6 DFA states: tmLexerAction).
func c17WidthTM(name string, n, l int, optimize, eventBased bool) string {
	var sb strings.Builder
	fmt.Fprintf(&sb, "language %s(go);\n\nlang = %q\npackage = \"gp/%s\"\n", name, name, name)
	if eventBased {
		sb.WriteString("eventBased = true\n")
	}
	if optimize {
		sb.WriteString("optimizeTables = true\n")
	}
	sb.WriteString("\n:: lexer\n\nWhiteSpace: /[ \\t\\n]+/ (space)\n'k': /k/\n")
	fmt.Fprintf(&sb, "long: /%s/\n", strings.Repeat("a", l))
	sb.WriteString("\n:: parser\n\n%input S;\n\nS")
	if eventBased {
		sb.WriteString(" -> Root")
	}
	sb.WriteString(" :\n   ")
	for i := 0; i < n; i++ {
		sb.WriteString(" 'k'")
		if i%20 == 19 {
			sb.WriteString("\n   ")
		}
	}
	sb.WriteString(" long ;\n")
	return sb.String()
}

// overheads of c17WidthTM: states = keywords + c17WidthStatesOverhead, lexer DFA states = literal length + c17WidthLexOverhead
const (
	c17WidthStatesOverhead = 4
	c17WidthLexOverhead    = 3
)

// c17Widths compares gen.bitsPerElement / gen.bits with the Lean mirror on arrays that mix small values with the
// extremes of every width (both signs).
func c17Widths(c *Ctx) {
	edge := []int{0, 1, -1, 126, 127, 128, 129, -127, -128, -129, -130, 255, 256, 32766, 32767, 32768, 32769, -32767, -32768, -32769, -32770,
		65535, 65536, 1<<31 - 1, -(1 << 31), 1<<31 - 2, -(1<<31 - 1)}
	val := func() int {
		switch c.Rng.Intn(9) {
		case 0, 1:
			return pick(c.Rng, edge)
		case 2:
			return c.Rng.Intn(1<<17) - 1<<16
		case 3:
			return c.Rng.Intn(1<<31) - 1<<30
		default:
			return c.Rng.Intn(300) - 150
		}
	}
	for i := 0; i < c.N(600, 6000); i++ {
		n := c.Rng.Intn(10)
		if i < 40 {
			n = i % 3
		}
		arr := make([]int, n)
		for k := range arr {
			arr[k] = val()
			if c.Rng.Intn(3) == 0 {
				arr[k] = c.Rng.Intn(200) - 100 // mostly small, so that ONE extreme decides
			}
		}
		got := func() (s string) {
			defer func() {
				if r := recover(); r != nil {
					s = "panic"
				}
			}()
			return fmt.Sprint(gen.VerifBitsPerElement(arr))
		}()
		key := ""
		if n > 0 {
			key = "w:" + ints(arr)
		}
		c.Case("width "+ints(arr), got, key)
		c.Count("width-answer-" + got)
	}
	for i := 0; i < c.N(200, 1000); i++ {
		v := val()
		c.Case(fmt.Sprintf("bits %d", v), fmt.Sprint(gen.VerifBits(v)), fmt.Sprintf("b:%d", v))
	}
}

// c17MarkerTM: one state marker at the same position of k alternatives `t_i .m tail_i` whose tails repeat, with the
// terminals declared in a random order: the marker sits in k states, minimizeDFA merges those with equal tails, and
// the merged ones are in general not adjacent in state order.
func c17MarkerTM(r *rand.Rand, name string, k int, minimize, eventBased, optimize bool) string {
	var sb strings.Builder
	fmt.Fprintf(&sb, "language %s(go);\n\nlang = %q\npackage = \"gp/%s\"\n", name, name, name)
	if eventBased {
		sb.WriteString("eventBased = true\n")
	}
	if minimize {
		sb.WriteString("minimizeDFA = true\n")
	}
	if optimize {
		sb.WriteString("optimizeTables = true\n")
	}
	sb.WriteString("\n:: lexer\n\nWhiteSpace: /[ \\t\\n]+/ (space)\n")
	for _, i := range r.Perm(k) {
		fmt.Fprintf(&sb, "'t%d': /t%d/\n", i, i)
	}
	sb.WriteString("'x': /x/\n'y': /y/\n'z': /z/\n\n:: parser\n\n%input input;\n\ninput :\n    item+ ;\n\nitem")
	if eventBased {
		sb.WriteString(" -> Item")
	}
	sb.WriteString(" :\n")
	tails := []string{"'x'", "'y'", "'z'", "'x' 'y'"}
	nt := 2 + r.Intn(2)
	for i := 0; i < k; i++ {
		sep := "  | "
		if i == 0 {
			sep = "    "
		}
		tail := tails[r.Intn(nt)]
		if i < 3 { // the shape of the smallest witness: tails x, y, x
			tail = tails[i%2]
		}
		fmt.Fprintf(&sb, "%s't%d' .afterHead %s\n", sep, i, tail)
	}
	sb.WriteString(";\n")
	return sb.String()
}

// c17ReservedPool reads, from the tree under test, the names the generator itself treats specially: the `reserved`
// set of gen/funcs.go (escape_reserved) and the identifiers the ast templates declare (types, functions, methods and
// struct fields of go_ast_tree / go_ast_parse / go_ast / go_ast_factory), each in lower-first and Title spelling.
func c17ReservedPool(repo string) (reservedWords, templateWords []string, problems []string) {
	seen := map[string]bool{}
	add := func(into *[]string, w string) {
		if w == "" || !regexp.MustCompile(`^[A-Za-z_][A-Za-z0-9_]*$`).MatchString(w) {
			return
		}
		r := []rune(w)
		lower := string(unicode.ToLower(r[0])) + string(r[1:])
		if !seen[lower] {
			seen[lower] = true
			*into = append(*into, lower)
		}
	}
	// the ast templates first: a word that is both declared there and reserved counts as a template word
	decl := regexp.MustCompile(`(?m)^(?:func (?:\([^)]*\) )?([A-Za-z_]\w*)\(|type ([A-Za-z_]\w*) |var ([A-Za-z_]\w*) |\t([a-zA-Z_]\w*) +[\[\]*A-Za-z_{][^\n(=:]*$)`)
	for _, t := range []string{"go_ast_tree", "go_ast_parse", "go_ast", "go_ast_factory"} {
		b, err := os.ReadFile(filepath.Join(repo, "gen", "templates", t+".go.tmpl"))
		if err != nil {
			problems = append(problems, "cannot read "+t+".go.tmpl")
			continue
		}
		for _, m := range decl.FindAllStringSubmatch(string(b), -1) {
			for _, w := range m[1:] {
				add(&templateWords, w)
			}
		}
	}
	fset := token.NewFileSet()
	if f, err := parser.ParseFile(fset, filepath.Join(repo, "gen", "funcs.go"), nil, parser.SkipObjectResolution); err == nil {
		found := false
		ast.Inspect(f, func(n ast.Node) bool {
			vs, ok := n.(*ast.ValueSpec)
			if !ok || len(vs.Names) != 1 || vs.Names[0].Name != "reserved" || len(vs.Values) != 1 {
				return true
			}
			if call, ok := vs.Values[0].(*ast.CallExpr); ok {
				for _, a := range call.Args {
					if lit, ok := a.(*ast.BasicLit); ok && lit.Kind == token.STRING {
						if w, err := strconv.Unquote(lit.Value); err == nil {
							found = true
							add(&reservedWords, w)
						}
					}
				}
			}
			return false
		})
		if !found {
			problems = append(problems, "gen/funcs.go: the `reserved` set was not found")
		}
	} else {
		problems = append(problems, "gen/funcs.go does not parse: "+err.Error())
	}
	sort.Strings(reservedWords)
	sort.Strings(templateWords)
	return
}

// words of the .tm syntax itself (they cannot be used as plain identifiers in a grammar file)
var c17TmKeywords = map[string]bool{"true": true, "false": true, "separator": true, "as": true, "import": true, "set": true,
	"implements": true, "brackets": true, "inline": true, "prec": true, "shift": true, "returns": true, "input": true, "left": true,
	"right": true, "nonassoc": true, "generate": true, "assert": true, "empty": true, "nonempty": true, "global": true, "explicit": true,
	"lookahead": true, "param": true, "flag": true, "char": true, "no": true, "space": true, "void": true, "layout": true, "language": true,
	"lalr": true, "lexer": true, "parser": true, "interface": true, "class": true, "extend": true, "expect": true, "inject": true}

// c17FieldNamesTM: a typed-AST grammar (eventBased + eventFields + eventAST) whose FIELD names are `fields` (three of
// them: a required field, an optional one and a list) and whose leaf node types are named `types` (two of them).
func c17FieldNamesTM(name string, fields [3]string, types [2]string, genSelector bool) string {
	var sb strings.Builder
	fmt.Fprintf(&sb, "language %s(go);\n\nlang = %q\npackage = \"gp/%s\"\neventBased = true\neventFields = true\neventAST = true\n", name, name, name)
	if genSelector {
		sb.WriteString("genSelector = true\n")
	}
	sb.WriteString("\n:: lexer\n\nWhiteSpace: /[ \\t\\n]+/ (space)\n'a': /a/\n'b': /b/\n'c': /c/\n';': /;/\n\n:: parser\n\n%input Root;\n\n")
	fmt.Fprintf(&sb, "Root -> Root :\n    %s=Leaf 'a' Mid ;\n\n", fields[0])
	fmt.Fprintf(&sb, "Mid -> Mid :\n    %s=Other? ';' (%s+=Leaf)* ;\n\n", fields[1], fields[2])
	fmt.Fprintf(&sb, "Leaf -> %s :\n    'b' ;\n\nOther -> %s :\n    'c' ;\n", types[0], types[1])
	return sb.String()
}

// c17LexShapeTM: lexer shapes. bit 0: a (space) rule; bit 1: a rule with a code action; bit 2: typed token;
// bit 3: class rule with keywords; bit 4: explicit invalid_token rule; bit 5: backtracking; bit 6: a parser on top;
// bit 7: start conditions; bit 8: tokenLine off; bit 9: scanBytes.
func c17LexShapeTM(name string, m int) (string, c17Feat) {
	on := func(k int) bool { return m&(1<<k) != 0 }
	f := c17Feat{"lexerOnly": !on(6), "eventBased": on(6), "lexerCode": on(1), "typedToken": on(2), "classRule": on(3),
		"invalidToken": on(4), "backtrack": on(5), "startConds": on(7), "noTokenLine": on(8), "scanBytes": on(9)}
	var sb strings.Builder
	fmt.Fprintf(&sb, "language %s(go);\n\nlang = %q\npackage = \"gp/%s\"\n", name, name, name)
	if on(6) {
		sb.WriteString("eventBased = true\n")
	}
	if on(8) {
		sb.WriteString("tokenLine = false\n")
	}
	if on(9) {
		sb.WriteString("scanBytes = true\n")
	}
	sb.WriteString("\n:: lexer\n\n")
	if on(7) {
		sb.WriteString("%x inBlk;\n\n")
	}
	if on(0) {
		sb.WriteString("blank: /[ \\t]+/ (space)\n")
	} else {
		sb.WriteString("blank: /[ \\t]+/\n")
	}
	sb.WriteString("eol: /\\r?\\n/\n")
	if on(3) {
		sb.WriteString("word: /[a-zA-Z_]+/ (class)\n'if': /if/\n")
	} else {
		sb.WriteString("word: /[a-zA-Z_]+/\n")
	}
	switch {
	case on(2):
		sb.WriteString("number {int}: /[0-9]+/ { $$ = len(l.Text()) }\n")
	case on(1):
		sb.WriteString("number: /[0-9]+/ { _ = l.Text() }\n")
	default:
		sb.WriteString("number: /[0-9]+/\n")
	}
	if on(1) && on(2) {
		sb.WriteString("dot: /\\./ { _ = l.Text() }\n")
	}
	if on(5) {
		sb.WriteString("arrow: /-(-)*>/\n'-': /-/\n")
	}
	if on(4) {
		sb.WriteString("invalid_token: /\\$+/\n")
	}
	if on(7) {
		sb.WriteString("\nblkOpen: /\\[\\[/ { l.State = StateInBlk }\n<inBlk> {\n  blkBody: /[^\\]]+|\\]/\n  blkClose: /\\]\\]/ { l.State = StateInitial }\n}\n")
	}
	if on(6) {
		sb.WriteString("\n:: parser\n\n%input Input;\n\nInput -> Input :\n    Line+ ;\n\nLine -> Line :\n    Item+ eol ;\n\nItem -> Item :\n    word | number")
		if !on(0) {
			sb.WriteString(" | blank")
		}
		if on(3) {
			sb.WriteString(" | 'if'")
		}
		sb.WriteString(" ;\n")
	}
	return sb.String(), f
}

// ---- pairwise option vectors -----------------------------------------------------------------------------------

// c17Pairwise yields n feature vectors: greedily, each new vector is the best of a few random candidates by the
// number of not yet covered (dimension, value, dimension, value) pairs — after normalisation, so that the pairs
// counted are pairs that really reach the generator.
type c17Pairwise struct {
	r       *rand.Rand
	covered map[[4]int]bool
	avoid   c17Avoid
}

func (p *c17Pairwise) next(force map[string]bool) c17Feat {
	var best c17Feat
	bestGain := -1
	for cand := 0; cand < 12; cand++ {
		f := c17Feat{}
		for _, k := range c17Bools {
			pr := 3
			switch k {
			case "lexerOnly":
				pr = 8
			case "eventBased":
				pr = 2
			}
			f[k] = p.r.Intn(pr) == 0
			if k == "eventBased" {
				f[k] = p.r.Intn(4) != 0
			}
		}
		for k, v := range force {
			f[k] = v
		}
		f.normalize(p.avoid)
		gain := 0
		for i := range c17Bools {
			for j := i + 1; j < len(c17Bools); j++ {
				if !p.covered[[4]int{i, b2i(f[c17Bools[i]]), j, b2i(f[c17Bools[j]])}] {
					gain++
				}
			}
		}
		if gain > bestGain {
			best, bestGain = f, gain
		}
	}
	for i := range c17Bools {
		for j := i + 1; j < len(c17Bools); j++ {
			p.covered[[4]int{i, b2i(best[c17Bools[i]]), j, b2i(best[c17Bools[j]])}] = true
		}
	}
	return best
}

func b2i(b bool) int {
	if b {
		return 1
	}
	return 0
}

// ---- child: compile + generate -------------------------------------------------------------------------------

// c17Child: `tmh C17-child <dir>` compiles and generates every <dir>/src/<name>.tm into <dir>/mod/<name>/… and
// prints one line per grammar: `ok <name> <files>` | `reject <name> <first compile error>` |
// `generr <name> <error>` | `axiom <name> <which>`.
func c17Child(dir string) {
	ents, _ := os.ReadDir(filepath.Join(dir, "src"))
	for _, e := range ents {
		name, ok := strings.CutSuffix(e.Name(), ".tm")
		if !ok {
			continue
		}
		b, err := os.ReadFile(filepath.Join(dir, "src", e.Name()))
		if err != nil {
			continue
		}
		fmt.Printf("begin %s\n", name)
		func() {
			defer func() {
				if r := recover(); r != nil {
					fmt.Printf("panic %s %s\n", name, oneLine(fmt.Sprint(r)))
				}
			}()
			g, err := compiler.Compile(context.Background(), name+".tm", string(b), compiler.Params{})
			if err != nil {
				fmt.Printf("reject %s %s\n", name, oneLine(errSummary(err)))
				return
			}
			for _, v := range c17CheckAxioms(g) {
				fmt.Printf("axiom %s %s\n", name, v)
			}
			w := &mapWriter{files: map[string]string{}}
			if err := gen.Generate(g, w, gen.Options{}); err != nil {
				fmt.Printf("generr %s %s\n", name, oneLine(err.Error()))
				return
			}
			var files []string
			for fn, content := range w.files {
				p := filepath.Join(dir, "mod", name, fn)
				os.MkdirAll(filepath.Dir(p), 0o755)
				os.WriteFile(p, []byte(content), 0o644)
				files = append(files, fn)
			}
			sort.Strings(files)
			if g.Parser != nil && g.Parser.Tables != nil {
				maxLen := 0
				for _, l := range g.Parser.Tables.RuleLen {
					maxLen = max(maxLen, l)
				}
				fmt.Printf("size %s states=%d maxRuleLen=%d\n", name, g.Parser.Tables.NumStates, maxLen)
			}
			if g.Lexer != nil && g.Lexer.Tables != nil && g.Lexer.Tables.NumSymbols > 0 {
				fmt.Printf("size %s lexStates=%d\n", name, len(g.Lexer.Tables.Dfa)/g.Lexer.Tables.NumSymbols)
			}
			fmt.Printf("ok %s %s\n", name, strings.Join(files, ","))
		}()
	}
}

func oneLine(s string) string {
	s = strings.Join(strings.Fields(s), " ")
	if len(s) > 300 {
		s = s[:300]
	}
	return s
}

// c17CheckAxioms evaluates the TRUSTED implications of Facts/ExpectC17.lean on a compiled Go grammar.
func c17CheckAxioms(g *grammar.Grammar) []string {
	var bad []string
	if g.TargetLang != "go" || g.Lexer == nil || g.Parser == nil {
		return nil
	}
	p := g.Parser
	if g.Lexer.Tables == nil {
		bad = append(bad, "true→.Lexer.Tables")
	}
	if p.Types != nil && p.Tables == nil {
		bad = append(bad, ".Parser.Types→.Parser.Tables")
	}
	if len(p.MappedTokens) > 0 && p.Types == nil {
		bad = append(bad, ".Parser.MappedTokens→.Parser.Types")
	}
	if len(g.Lexer.UsedFlags) > 0 && len(p.MappedTokens) == 0 {
		bad = append(bad, ".Lexer.UsedFlags→.Parser.MappedTokens")
	}
	if len(p.UsedFlags) > 0 && p.Types == nil {
		bad = append(bad, ".Parser.UsedFlags→.Parser.Types")
	}
	for _, a := range p.Actions {
		if len(a.Report) > 0 && p.Types == nil {
			bad = append(bad, "$act.Report→.Parser.Types")
			break
		}
	}
	if p.Tables != nil {
		// not an implication of the table but a data invariant the templates rely on: a marker's states become
		// the keys of a map literal (`var <name>States = map[int]bool{…}`), which must be distinct
		for _, m := range p.Tables.Markers {
			seen := map[int]bool{}
			for _, st := range m.States {
				if seen[st] {
					bad = append(bad, fmt.Sprintf("states of marker .%s are distinct (duplicate %d in %v: duplicate key in the generated map literal)", m.Name, st, m.States))
					break
				}
				seen[st] = true
			}
		}
	}
	if p.Tables != nil && p.HasActionsWithReport() && p.Types == nil {
		bad = append(bad, ".Parser.HasActionsWithReport→.Parser.Types")
	}
	return bad
}

// ---- batches ---------------------------------------------------------------------------------------------------

type c17Case struct {
	Name  string
	Kind  string // skeleton | random | probe:<token> | stress:<token>
	Feat  c17Feat
	Text  string
	Token string // finding class this case belongs to ("" = none)

	Status string // ok | reject | generr | panic | crash
	Detail string
	Files  []string
	Size   string // automaton sizes reported by the child
	Axioms []string
	Build  string // "" = built; otherwise first error line
	Vet    string
	VetAll []string
}

type c17Batch struct {
	dir   string
	cases []*c17Case
}

func c17NewBatch() *c17Batch {
	dir, err := os.MkdirTemp("", "tmverif-c17-")
	must(err)
	must(os.MkdirAll(filepath.Join(dir, "src"), 0o755))
	must(os.MkdirAll(filepath.Join(dir, "mod"), 0o755))
	return &c17Batch{dir: dir}
}

func (b *c17Batch) close() { os.RemoveAll(b.dir) }

func (b *c17Batch) add(cs *c17Case) {
	b.cases = append(b.cases, cs)
	must(os.WriteFile(filepath.Join(b.dir, "src", cs.Name+".tm"), []byte(cs.Text), 0o644))
}

// generate runs the child over the whole batch; when the child dies, the grammars it did not report on are
// re-run one by one (the one that kills its child is the crasher).
func (b *c17Batch) generate() {
	self, err := os.Executable()
	must(err)
	by := map[string]*c17Case{}
	for _, cs := range b.cases {
		by[cs.Name] = cs
	}
	parse := func(out string) {
		for _, line := range strings.Split(out, "\n") {
			f := strings.SplitN(line, " ", 3)
			if len(f) < 2 || by[f[1]] == nil {
				continue
			}
			cs := by[f[1]]
			rest := ""
			if len(f) == 3 {
				rest = f[2]
			}
			switch f[0] {
			case "size":
				cs.Size += " " + rest
			case "ok":
				cs.Status, cs.Files = "ok", strings.Split(rest, ",")
			case "reject", "generr", "panic":
				cs.Status, cs.Detail = f[0], rest
			case "axiom":
				cs.Axioms = append(cs.Axioms, rest)
			}
		}
	}
	run := func(dir string) (string, error) {
		cmd := exec.Command(self, "C17-child", dir)
		var out, errb bytes.Buffer
		cmd.Stdout, cmd.Stderr = &out, &errb
		err := cmd.Run()
		if err != nil {
			return out.String() + "\nstderr " + oneLine(errb.String()), err
		}
		return out.String(), nil
	}
	out, err := run(b.dir)
	parse(out)
	if err == nil {
		return
	}
	for _, cs := range b.cases {
		if cs.Status != "" {
			continue
		}
		// alone, in a directory of its own that shares the module directory
		one := filepath.Join(b.dir, "one-"+cs.Name)
		os.MkdirAll(filepath.Join(one, "src"), 0o755)
		os.WriteFile(filepath.Join(one, "src", cs.Name+".tm"), []byte(cs.Text), 0o644)
		os.Symlink(filepath.Join(b.dir, "mod"), filepath.Join(one, "mod"))
		out, err := run(one)
		parse(out)
		if cs.Status == "" {
			cs.Status = "crash"
			cs.Detail = oneLine(fmt.Sprint(err) + " " + out[strings.LastIndex(out, "\n")+1:])
			os.RemoveAll(filepath.Join(b.dir, "mod", cs.Name))
		}
	}
}

var c17ErrLine = regexp.MustCompile(`^(?:\./)?([A-Za-z0-9_]+)/[^:\s]+\.go:\d+(?::\d+)?: `)

// goTool runs `go <args> ./...` in the module and attributes every diagnostic to a package directory.
func (b *c17Batch) goTool(args ...string) (map[string][]string, string) {
	cmd := exec.Command("go", append(args, "./...")...)
	cmd.Dir = filepath.Join(b.dir, "mod")
	cmd.Env = append(os.Environ(), "GOFLAGS=-mod=mod", "GOPROXY=off")
	out, _ := cmd.CombinedOutput()
	res := map[string][]string{}
	cur := ""
	var other []string
	for _, line := range strings.Split(string(out), "\n") {
		if line == "" {
			continue
		}
		if rest, ok := strings.CutPrefix(line, "# gp/"); ok {
			cur = strings.SplitN(strings.Fields(rest)[0], "/", 2)[0]
			continue
		}
		if m := c17ErrLine.FindStringSubmatch(line); m != nil {
			res[m[1]] = append(res[m[1]], line)
			continue
		}
		if strings.HasPrefix(line, "\t") || strings.HasPrefix(line, "vet: ") && cur != "" || (cur != "" && strings.HasPrefix(line, "./")) {
			if cur != "" {
				res[cur] = append(res[cur], line)
			}
			continue
		}
		other = append(other, line)
	}
	return res, strings.Join(other, "\n")
}

// build compiles and vets all generated packages. A package with a load error (missing import) makes the go
// command give up on everything, so failing packages are removed and the build repeated until it is clean.
func (b *c17Batch) build(c *Ctx) {
	must(os.WriteFile(filepath.Join(b.dir, "mod", "go.mod"), []byte("module gp\n\ngo 1.25\n"), 0o644))
	by := map[string]*c17Case{}
	n := 0
	for _, cs := range b.cases {
		if cs.Status == "ok" {
			by[cs.Name] = cs
			n++
		}
	}
	if n == 0 {
		return
	}
	for round := 0; round < 6; round++ {
		res, other := b.goTool("build")
		if len(res) == 0 {
			if strings.TrimSpace(other) != "" && !strings.Contains(other, "matched no packages") {
				c.Notes = append(c.Notes, "go build printed unattributed output: "+oneLine(other))
			}
			break
		}
		for name, lines := range res {
			if cs := by[name]; cs != nil && cs.Build == "" {
				cs.Build = oneLine(lines[0])
				if len(lines) > 1 {
					cs.Detail = oneLine(strings.Join(lines[1:min(len(lines), 4)], " | "))
				}
			}
			os.RemoveAll(filepath.Join(b.dir, "mod", name))
		}
	}
	res, _ := b.goTool("vet")
	for name, lines := range res {
		if cs := by[name]; cs != nil && cs.Build == "" {
			cs.Vet = oneLine(lines[0])
			cs.VetAll = lines
		}
	}
}

// ---- known classes ---------------------------------------------------------------------------------------------

type c17Class struct {
	Token     string
	Guard     bool   // a guard-level finding: listed in c17KnownInconsistent
	Vet       bool   // the witness builds; go vet complains
	VetIgnore string // vet lines of this shape are ignored in the sweep while the class is present
	Expect    string // regexp the build output of the witness must match while the defect is present
	What      string
	Witness   func() (string, c17Feat)
}

func c17Tiny(name, opts, lexer, parser string) string {
	s := fmt.Sprintf("language %s(go);\n\nlang = %q\npackage = \"gp/%s\"\n%s\n:: lexer\n\n%s\n", name, name, name, opts, lexer)
	if parser != "" {
		s += "\n:: parser\n\n" + parser
	}
	return s
}

const c17TinyLexer = "'a': /a/\n'b': /b/\n"

var c17Classes = []c17Class{
	{Token: "[C17-ruletype-nodetype]", Guard: true, Expect: `parser_tables\.go.*undefined: NodeType`,
		What: "a Go grammar with a parser and without eventBased = true: parser_tables.go declares tmRuleType [...]NodeType, NodeType is declared in listener.go only when Parser.Types != nil",
		Witness: func() (string, c17Feat) {
			return c17Tiny("w", "", c17TinyLexer, "%input S;\n\nS : 'a' S | 'b' ;\n"), c17Feat{}
		}},
	{Token: "[C17-stream-without-types]", Guard: true, Expect: `stream\.go.*undefined: (Listener|NodeType)`,
		What: "tokenStream = true without eventBased = true: stream.go uses Listener / NodeType / s.listener unconditionally",
		Witness: func() (string, c17Feat) {
			return c17Tiny("w", "tokenStream = true\n", c17TinyLexer, "%input S;\n\nS : 'a' S | 'b' ;\n"), c17Feat{"tokenStream": true}
		}},
	{Token: "[C17-lexer-flags]", Guard: true, Expect: `undefined: NodeFlags`,
		What: "an injected token with a flag and no flag on any rule arrow: `var flags NodeFlags` although NodeFlags is declared only when Parser.UsedFlags is non-empty",
		Witness: func() (string, c17Feat) {
			return c17Tiny("w", "eventBased = true\n", "WS: /[ ]+/ (space)\ncomment: /#.*/ (space)\n"+c17TinyLexer,
				"%inject comment -> Comment/Foo;\n\n%input S;\n\nS -> Root : 'a' S | 'b' ;\n"), c17Feat{"eventBased": true, "inject": true}
		}},
	{Token: "[C17-ast-without-selector]", Guard: true, Expect: `package gp/w/selector is not in std|cannot find package|no required module provides package gp/w/selector`,
		What: "eventAST = true without eventFields / genSelector: ast/tree.go imports <package>/selector, which language.templates does not generate",
		Witness: func() (string, c17Feat) {
			return c17Tiny("w", "eventBased = true\neventAST = true\n", c17TinyLexer, "%input S;\n\nS -> Root : 'a' S | 'b' ;\n"), c17Feat{"eventBased": true, "eventAST": true}
		}},
	{Token: "[C17-stream-tokenline]", Guard: true, Expect: `s\.lexer\.tokenLine undefined`,
		What: "tokenStream = true with tokenLine = false: TokenStream.line() reads s.lexer.tokenLine, a field the lexer template declares only with tokenLine",
		Witness: func() (string, c17Feat) {
			return c17Tiny("w", "eventBased = true\ntokenStream = true\ntokenLine = false\n", c17TinyLexer, "%input S;\n\nS -> Root : 'a' S | 'b' ;\n"), c17Feat{"eventBased": true, "tokenStream": true, "noTokenLine": true}
		}},
	{Token: "[C17-nodeprefix]", Expect: `undefined: Nd`,
		What: "nodePrefix = \"Nd\": parser_tables.go / parser.go refer to the node types as Nd<Name> (template node_id) but listener.go declares them without the prefix",
		Witness: func() (string, c17Feat) {
			return c17Tiny("w", "eventBased = true\nnodePrefix = \"Nd\"\n", c17TinyLexer, "%input S;\n\nS -> Root : 'a' S | 'b' ;\n"), c17Feat{"eventBased": true, "nodePrefix": true}
		}},
	{Token: "[C17-stream-cancellablefetch]", Expect: `not enough arguments in call to stream\.next`,
		What: "tokenStream + cancellable + cancellableFetch + a lookahead predicate: the lookahead function calls stream.next without the context argument that TokenStream.next takes with cancellableFetch",
		Witness: func() (string, c17Feat) {
			return c17Tiny("w", "eventBased = true\ntokenStream = true\ncancellable = true\ncancellableFetch = true\n", c17TinyLexer,
				"%input S;\n\nS -> Root : (?= L) 'a' 'b' | (?= !L) 'a' 'a' ;\nL : 'a' 'b' ;\n"), c17Feat{"eventBased": true, "tokenStream": true, "cancellable": true, "cancellableFetch": true, "lookahead": true}
		}},
	{Token: "[C17-stream-value]", Guard: true, Expect: `stream\.Value undefined`,
		What: "tokenStream = true with a typed nonterminal: the shift stores `stream.Value()` but no template declares TokenStream.Value",
		Witness: func() (string, c17Feat) {
			return c17Tiny("w", "eventBased = true\ntokenStream = true\n", "'a': /a/\n'+': /\\+/\n",
				"%input E;\n\nE {int} -> E :\n    E '+' 'a' { $$ = $E + 1 }\n  | 'a' { $$ = 1 }\n;\n"), c17Feat{"eventBased": true, "tokenStream": true, "typedNonterm": true, "actions": true}
		}},
	{Token: "[C17-lookahead-user-input]", Expect: `undefined: At[A-Z]`,
		What: "a nonterminal that is both a user `%input X no-eoi` and the target of a lookahead predicate `(?= X)`: applyRule calls AtX, which lookaheadMethods declares for SYNTHETIC no-eoi inputs only",
		Witness: func() (string, c17Feat) {
			return c17Tiny("w", "eventBased = true\n", c17TinyLexer,
				"%input S, X no-eoi;\n\nS -> Root : (?= X) 'a' 'b' | (?= !X) 'a' 'a' ;\nX -> Xn : 'a' 'b' ;\n"), c17Feat{"eventBased": true, "lookahead": true, "multiInput": true, "noEoiInput": true}
		}},
	{Token: "[C17-field-shadows-child]", Expect: `too many arguments in call to n\.Child`,
		What: "eventFields + eventAST with a field named `child` (or `children`): the accessor Child() is declared on the node struct and shadows the promoted (*Node).Child(selector) that every accessor body calls",
		Witness: func() (string, c17Feat) {
			return c17Tiny("w", "eventBased = true\neventFields = true\neventAST = true\n", c17TinyLexer, "%input S;\n\nS -> Root : child=T 'a' ;\nT -> Leaf : 'b' ;\n"), c17Feat{"eventBased": true, "eventFields": true, "eventAST": true}
		}},
	{Token: "[C17-typed-ref-after-instantiate]", Expect: `mismatched types interface\{\} and int|operator . not defined on .*interface`,
		What: "a template flag anywhere in the grammar and a typed nonterminal that refers to itself in a semantic action: the reference loses its type ($left expands to stack[..].value without the type assertion)",
		Witness: func() (string, c17Feat) {
			return c17Tiny("w", "eventBased = true\n", "'a': /a/\n'b': /b/\n'+': /\\+/\n';': /;/\n",
				"%input S;\n%flag F;\n\nS -> S : E ';' | 'b' G<+F> | 'b' 'b' G<~F> ;\n\nG<F> : 'a' | [F] 'b' ;\n\nE {int} -> E :\n    E[left] '+' 'a' { $$ = $left + 1 }\n  | 'a' { $$ = 1 }\n;\n"), c17Feat{"eventBased": true, "templates": true, "typedNonterm": true, "actions": true}
		}},
	{Token: "[C17-vet-stream-unreachable]", Vet: true, Expect: `stream\.go.*unreachable code`, VetIgnore: `stream\.go:\d+:\d+: unreachable code`,
		What: "tokenStream + eventBased without an injected space token: TokenStream.reportIgnored is `switch { default: return }` followed by code; go vet reports unreachable code (the package builds)",
		Witness: func() (string, c17Feat) {
			return c17Tiny("w", "eventBased = true\ntokenStream = true\n", c17TinyLexer, "%input S;\n\nS -> Root : 'a' S | 'b' ;\n"), c17Feat{"eventBased": true, "tokenStream": true}
		}},
	{Token: "[C17-vet-factory-unreachable]", Vet: true, VetIgnore: `ast/factory\.go:\d+:\d+: unreachable code`, Expect: `ast/factory\.go.*unreachable code`,
		What: "eventFields + eventAST: ast/factory.go ends with `panic(...)` followed by `return nil`; go vet reports unreachable code (the package builds)",
		Witness: func() (string, c17Feat) {
			return c17Tiny("w", "eventBased = true\neventFields = true\neventAST = true\n", c17TinyLexer, "%input S;\n\nS -> Root : 'a' S | 'b' ;\n"), c17Feat{"eventBased": true, "eventFields": true, "eventAST": true}
		}},
	{Token: "[C17-name-nodetype-collision]", Expect: `redeclared in this block`,
		What: "a node type named like an identifier the templates declare in the main package (`-> Parser`): the NodeType constant collides with it",
		Witness: func() (string, c17Feat) {
			return c17Tiny("w", "eventBased = true\n", c17TinyLexer, "%input S;\n\nS -> Parser : 'a' S | 'b' -> Lexer ;\n"), c17Feat{"eventBased": true}
		}},
	{Token: "[C17-name-set-collision]", Expect: `redeclared in this block`,
		What: "a named token set (`%generate symbol = set(...)`) named like an identifier the generated main package declares or uses (symbol, stackEntry, len, string, init, …): it becomes a package-level variable of that name",
		Witness: func() (string, c17Feat) {
			return c17Tiny("w", "eventBased = true\n", c17TinyLexer, "%input S;\n%generate symbol = set(first S);\n\nS -> Root : 'a' S | 'b' ;\n"), c17Feat{"eventBased": true, "namedSet": true}
		}},
	{Token: "[C17-name-token-collision]", Expect: `redeclared in this block`,
		What: "a token whose ID equals a constant the token template declares (`UNAVAILABLE`, or an explicit ID such as `NumTokens`)",
		Witness: func() (string, c17Feat) {
			return c17Tiny("w", "", "UNAVAILABLE: /a/\n'b': /b/\n", ""), c17Feat{"lexerOnly": true}
		}},
	{Token: "[C17-name-ast-collision]", Expect: `redeclared in this block|already declared`,
		What: "eventFields + eventAST with a node type named like a type of the ast package (`-> Node`, `-> Tree`)",
		Witness: func() (string, c17Feat) {
			return c17Tiny("w", "eventBased = true\neventFields = true\neventAST = true\n", c17TinyLexer, "%input S;\n\nS -> Node : 'a' T | 'b' ;\nT -> Tree : 'b' ;\n"), c17Feat{"eventBased": true, "eventFields": true, "eventAST": true}
		}},
}

// dangerous names per naming class (used by the stress stream once the class's probe passes)
var c17Danger = map[string][]string{
	"[C17-name-nodetype-collision]": {"Parser", "Lexer", "Listener", "NodeType", "NoType", "NodeTypeMax", "SyntaxError", "ErrorHandler", "TokenStream", "StopOnFirstError"},
	"[C17-name-set-collision]":      {"symbol", "stackEntry", "session", "gotoState", "lalr", "tmAction", "noToken", "Parser", "Lexer", "errSymbol", "len", "string", "init", "append", "int32", "token"},
	"[C17-name-token-collision]":    {"UNAVAILABLE", "EOI"},
	"[C17-name-ast-collision]":      {"Node", "Tree", "Token", "NilNode", "Parse"},
}

// safe stress names: Go keywords, predeclared identifiers and names that look like generated ones but are not
var c17Odd = []string{"Func", "Type", "Var", "Const", "Range", "Select", "Chan", "Map", "Int", "String", "Error", "Nil", "True", "Len", "Append",
	"Init", "Next", "Copy", "Pos", "Line", "Text", "Value", "Symbol", "StackEntry", "Session", "Rule", "State", "Tables"}
var c17OddTokens = []string{"func", "type", "var", "range", "select", "chan", "map", "int", "string", "error", "nil", "len", "init", "main", "token", "Type", "String", "NumTokens", "tokenStr"}

func c17(c *Ctx) {
	repo := os.Getenv("VERIF_REPO")
	if repo == "" {
		repo = "/repo"
	}
	c.Rule = "probes: one witness grammar per known class of build failures (" + fmt.Sprint(len(c17Classes)) + " classes: guard-level ones listed in the Lean expectation table, type-level template defects, go vet complaints, symbol-name collisions); " +
		"table widths: gen.bitsPerElement / gen.bits vs the Lean mirror on random arrays mixing small values with the extremes of int8/int16/int32 of both signs (judge: the chosen width must hold every element); " +
		"families in every run: 12 width grammars (one rule of n keywords and a literal of n characters: parser states, rule length and lexer DFA states 126..131, optimizeTables on/off; thorough: 32768/32769 states) state markers x minimizeDFA (one marker at the same position of 3..7 alternatives with repeating tails and randomly ordered terminals, so that non-adjacent marker states merge; the states of every marker of every compiled grammar must be distinct, they are the keys of a generated map literal) typed-AST field names (a required, an optional and a list field per grammar, eventBased + eventFields + eventAST) drawn from the generator's OWN words, read from the tree under test: every identifier the ast templates declare (Node, Tree, Child, Next, offset, parent, firstChild, …) in every run, and the `reserved` set of gen/funcs.go (all of it in thorough runs, a sample in quick runs), lower-first or Title spelling, leaf node types named after the same words (names of a collision class only once its probe builds) and lexer shapes ((space) rule? x code action? in all four combinations, the other lexer dimensions - typed token, class rule, explicit invalid_token rule, backtracking, start conditions, tokenLine, scanBytes, with/without a parser - at random); " +
		"sweep: skeleton grammars (statement/expression language; lexer features: class rule + keywords, typed token, unicode classes beyond U+0800, backtracking, start conditions, space/comment tokens, invalid_token, lexer code; " +
		"parser features: error recovery, recoveryScope marker, %inject, lookahead predicates, lalr(2), typed nonterminals with semantic actions and aliases, mid-rule actions, several inputs, no-eoi inputs, named sets, %interface categories, state markers, lists with separators, optionals, inner arrows, precedence, template flags) " +
		"and random CFGs (gram.go RandGram) with rule arrows, under feature/option vectors chosen greedily for pairwise coverage of " + fmt.Sprint(len(c17Bools)) + " Boolean dimensions (eventBased/eventFields/eventAST/genSelector/fileNode/tokenStream/fixWhitespace/cancellable(+Fetch)/recursiveLookaheads/optimizeTables/defaultReduce/minimizeDFA/writeBison/debugParser/tokenLine/tokenLineOffset/tokenColumn/scanBytes/nonBacktracking/skipByteOrderMark/caseInsensitive/nodePrefix/extraTypes and the features above), normalised by the dependencies the compiler enforces; " +
		"stress stream: Go keywords, predeclared identifiers and generated-looking names as token, node-type, set and marker names (names of a collision class only once its probe builds). " +
		"Each grammar: compiler.Compile + gen.Generate in a child process (a crash is a finding), all packages in one scratch module, go build ./... and go vet ./...; the trusted implications of the Lean table are evaluated on every compiled grammar; non-trivial = a package that was generated and compiled by the Go compiler; distinct by grammar text. " +
		"A class whose probe still fails is reported once (stable token) and avoided by the random stream (see `classes_present`): eventBased forced on for grammars with a parser while [C17-ruletype-nodetype] is present, tokenStream off without eventBased ([C17-stream-without-types]), genSelector on with eventAST ([C17-ast-without-selector]), tokenLine kept with tokenStream ([C17-stream-tokenline]), cancellableFetch off with tokenStream + lookahead ([C17-stream-cancellablefetch]), nodePrefix off ([C17-nodeprefix]), template flags off with typed nonterminals ([C17-typed-ref-after-instantiate]), typed nonterminals off with tokenStream ([C17-stream-value]), the lookahead target never a user no-eoi input ([C17-lookahead-user-input]), no field named child/children ([C17-field-shadows-child]), the two known go vet messages filtered; flags (`-> T/Flag`) are never generated (they need user-supplied constants); semantic-action reference errors reported by gen.Generate are counted, not reported (C16)."

	c17LeanTie(c, repo)

	// ---- probes
	avoid := c17Avoid{}
	pb := c17NewBatch()
	for i, cl := range c17Classes {
		text, feat := cl.Witness()
		name := fmt.Sprintf("p%d", i)
		text = strings.ReplaceAll(text, "language w(go)", "language "+name+"(go)")
		text = strings.ReplaceAll(text, `lang = "w"`, fmt.Sprintf("lang = %q", name))
		text = strings.ReplaceAll(text, `"gp/w"`, fmt.Sprintf(`"gp/%s"`, name))
		pb.add(&c17Case{Name: name, Kind: "probe:" + cl.Token, Feat: feat, Text: text, Token: cl.Token})
	}
	pb.generate()
	pb.build(c)
	// vet-only classes first: their message shapes are filtered from the other witnesses' vet output
	order := make([]int, 0, len(pb.cases))
	for i := range pb.cases {
		if c17Classes[i].Vet {
			order = append(order, i)
		}
	}
	for i := range pb.cases {
		if !c17Classes[i].Vet {
			order = append(order, i)
		}
	}
	for _, i := range order {
		cs := pb.cases[i]
		cl := c17Classes[i]
		expect := regexp.MustCompile(strings.ReplaceAll(cl.Expect, "gp/w/", "gp/"+cs.Name+"/"))
		switch {
		case cs.Status == "ok" && cs.Build == "" && cl.Vet && expect.MatchString(cs.Vet):
			avoid[cl.Token] = true
			c.Count("probe-fails")
			c17Record(c, cs)
			c.Violate(fmt.Sprintf("%s go vet complains about generated code (%s): %s", cl.Token, cl.What, cs.Vet), c17Input(cs))
		case cs.Status == "ok" && cs.Build == "" && c17VetFilter(cs, avoid) == "":
			c.Count("probe-builds")
			c17Record(c, cs)
		case cs.Status == "ok" && expect.MatchString(cs.Build+" "+cs.Detail):
			avoid[cl.Token] = true
			c.Count("probe-fails")
			c17Record(c, cs)
			c.Violate(fmt.Sprintf("%s generated code does not build (%s): %s", cl.Token, cl.What, cs.Build), c17Input(cs))
		default:
			// the witness behaves in a third way: report it as it is and keep away from the class
			avoid[cl.Token] = true
			c.Count("probe-other")
			// no class token here: this is NOT the known failure, and must not be matched as one
			cs.Detail = "(witness grammar of class " + strings.Trim(cl.Token, "[]") + ", which fails in another way than the class describes) " + cs.Detail
			c17Report(c, cs, "")
		}
	}
	pb.close()
	c.Extra["classes_present"] = sortedBoolKeys(avoid)
	// guard-level classes: listed in the Lean expectation table exactly while the witness still fails to build
	for _, cl := range c17Classes {
		if cl.Guard {
			want := "unlisted"
			if avoid[cl.Token] {
				want = "listed"
			}
			c.Case("known "+cl.Token, want, "")
		}
	}

	// ---- table widths: gen.bitsPerElement / gen.bits against the Lean mirror (theorems of Props/C17Width.lean)
	c17Widths(c)

	// ---- families that hit specific template branches in EVERY run
	fb := c17NewBatch()
	famSerial := 0
	addFam := func(kind, text string, f c17Feat) {
		famSerial++
		name := fmt.Sprintf("f%d", famSerial)
		text = strings.ReplaceAll(text, "language w(go)", "language "+name+"(go)")
		text = strings.ReplaceAll(text, `lang = "w"`, fmt.Sprintf("lang = %q", name))
		text = strings.ReplaceAll(text, `"gp/w"`, fmt.Sprintf(`"gp/%s"`, name))
		fb.add(&c17Case{Name: name, Kind: kind, Feat: f, Text: text})
	}
	// (1) element-type boundaries of the generated tables: parsers with 126..131 states (and a rule of as many
	// symbols) × optimizeTables on/off, lexers with as many DFA states; thorough: the int16 boundary too
	evb := !avoid["[C17-ruletype-nodetype]"] && c.Rng.Intn(2) == 0 || avoid["[C17-ruletype-nodetype]"]
	for states := 126; states <= 131; states++ {
		for _, opt := range []bool{false, true} {
			addFam("width", c17WidthTM("w", states-c17WidthStatesOverhead, states-c17WidthLexOverhead, opt, evb), c17Feat{"optimizeTables": opt, "eventBased": evb})
		}
	}
	// thorough: the int16 boundary (the LALR construction takes minutes for one 32768-symbol rule, so each grammar
	// is generated by a child of its own, concurrently with everything below; joined before the pairwise report)
	var wide []*c17Batch
	wideDone := make(chan struct{})
	if c.Tier == "thorough" {
		for i, states := range []int{32768, 32769} {
			wb := c17NewBatch()
			name := fmt.Sprintf("h%d", i)
			text := c17WidthTM(name, states-c17WidthStatesOverhead, 40, true, evb)
			wb.add(&c17Case{Name: name, Kind: "width16", Feat: c17Feat{"optimizeTables": true, "eventBased": evb}, Text: text})
			wide = append(wide, wb)
		}
	}
	go func() {
		done := make(chan struct{}, len(wide))
		for _, wb := range wide {
			go func(wb *c17Batch) { wb.generate(); done <- struct{}{} }(wb)
		}
		for range wide {
			<-done
		}
		close(wideDone)
	}()
	// (3) state markers × minimizeDFA: one marker in several states of which non-adjacent ones merge
	for i := 0; i < c.N(6, 24); i++ {
		k := 3 + c.Rng.Intn(5)
		minimize := i%3 != 2
		addFam("marker", c17MarkerTM(c.Rng, "w", k, minimize, evb, c.Rng.Intn(3) == 0), c17Feat{"marker": true, "minimizeDFA": minimize, "eventBased": evb})
	}
	// (4) typed-AST field names (and leaf node type names) drawn from the generator's OWN reserved words: the
	// `reserved` set of gen/funcs.go and the identifiers the ast templates declare, in lower and Title spelling.
	// thorough: every word is a field name at least once; quick: a sample
	resWords, tmplWords, poolProblems := c17ReservedPool(repo)
	for _, pr := range poolProblems {
		c.Notes = append(c.Notes, "reserved-name pool: "+pr)
	}
	c.Extra["reserved_pool"] = fmt.Sprintf("%d words declared by the ast templates, %d more in gen/funcs.go `reserved`", len(tmplWords), len(resWords))
	{
		childClass := avoid["[C17-field-shadows-child]"]
		usable := func(ws []string) (out []string) {
			for _, w := range ws {
				if c17TmKeywords[w] || childClass && (w == "child" || w == "children") {
					continue
				}
				out = append(out, w)
			}
			return
		}
		// every word the ast templates declare in every run; of the other reserved words all (thorough) or a sample
		words := usable(tmplWords)
		rest := usable(resWords)
		c.Rng.Shuffle(len(rest), func(i, j int) { rest[i], rest[j] = rest[j], rest[i] })
		if c.Tier != "thorough" {
			rest = rest[:min(len(rest), 6)]
		}
		words = append(words, rest...)
		c.Rng.Shuffle(len(words), func(i, j int) { words[i], words[j] = words[j], words[i] })
		danger := map[string]bool{}
		for tok, names := range c17Danger {
			if avoid[tok] {
				for _, n := range names {
					danger[n] = true
				}
			}
		}
		var typeNames []string
		for _, w := range append(usable(tmplWords), usable(resWords)...) {
			r := []rune(w)
			t := string(unicode.ToUpper(r[0])) + string(r[1:])
			if !danger[t] && t != "Root" && t != "Mid" {
				typeNames = append(typeNames, t)
			}
		}
		for i := 0; i < len(words); i += 3 {
			fs := [3]string{words[i], "second", "third"}
			if i+1 < len(words) {
				fs[1] = words[i+1]
			}
			if i+2 < len(words) {
				fs[2] = words[i+2]
			}
			if c.Rng.Intn(3) == 0 { // the Title spelling gives the same accessor
				k := c.Rng.Intn(3)
				r := []rune(fs[k])
				fs[k] = string(unicode.ToUpper(r[0])) + string(r[1:])
			}
			ts := [2]string{"Leaf", "Other"}
			if len(typeNames) >= 2 && c.Rng.Intn(2) == 0 {
				a, b := c.Rng.Intn(len(typeNames)), c.Rng.Intn(len(typeNames))
				if a != b {
					ts = [2]string{typeNames[a], typeNames[b]}
				}
			}
			addFam("fieldnames", c17FieldNamesTM("w", fs, ts, c.Rng.Intn(2) == 0), c17Feat{"eventBased": true, "eventFields": true, "eventAST": true})
			c.Count("fieldnames-words")
		}
	}
	// (2) lexer shapes: (space rule?) × (code action?) always, the other lexer dimensions at random
	for i := 0; i < c.N(10, 40); i++ {
		m := i & 3 // bits 0, 1: all four combinations, repeatedly
		if i >= 4 {
			m |= c.Rng.Intn(1<<10) &^ 3
		}
		if m&(1<<9) != 0 {
			m &^= 1 << 3 // scanBytes: no class rule needed here
		}
		if avoid["[C17-ruletype-nodetype]"] {
			// a parser needs eventBased while that class is present: c17LexShapeTM sets it with bit 6
		}
		text, f := c17LexShapeTM("w", m)
		addFam("lexshape", text, f)
	}
	fb.generate()
	fb.build(c)
	for _, cs := range fb.cases {
		c.Count(cs.Kind + "-" + cs.Status)
		c17ReportAxioms(c, cs)
		if cs.Kind == "width" || cs.Kind == "width16" {
			for _, kv := range strings.Fields(cs.Size) {
				c.Count(cs.Kind + "-" + kv)
			}
		}
		switch cs.Status {
		case "reject":
			c.Debugf("rejected %s [%s]: %s", cs.Kind, cs.Feat, cs.Detail)
			if len(c.Notes) < 6 {
				c.Notes = append(c.Notes, "a "+cs.Kind+" family grammar was rejected by the compiler (the family no longer covers its branch): "+cs.Detail)
			}
		case "ok":
			if cs.Vet != "" {
				cs.Vet = c17VetFilter(cs, avoid)
			}
			c17Record(c, cs)
			if cs.Build != "" || cs.Vet != "" {
				c17Report(c, cs, c17Classify(cs))
			}
		default:
			c17Record(c, cs)
			c17Report(c, cs, "")
		}
	}
	if d := os.Getenv("C17_DUMP"); d != "" {
		for _, cs := range fb.cases {
			os.WriteFile(filepath.Join(d, fmt.Sprintf("%s-%s-%s.tm", cs.Name, cs.Kind, cs.Status)), []byte("# "+cs.Feat.String()+"\n# "+cs.Detail+"\n# "+cs.Build+"\n"+cs.Text), 0o644)
		}
	}
	fb.close()

	// ---- sweep
	nBatches, perBatch := c.N(1, 6), c.N(34, 50)
	pw := &c17Pairwise{r: c.Rng, covered: map[[4]int]bool{}, avoid: avoid}
	serial := 0
	for bi := 0; bi < nBatches; bi++ {
		b := c17NewBatch()
		for k := 0; k < perBatch; k++ {
			serial++
			name := fmt.Sprintf("g%d", serial)
			names := c17DefaultNames()
			var cs *c17Case
			switch roll := c.Rng.Intn(10); {
			case roll < 5:
				f := pw.next(nil)
				cs = &c17Case{Name: name, Kind: "skeleton", Feat: f, Text: c17Skeleton(c.Rng, name, f, names)}
			case roll < 7:
				f := pw.next(map[string]bool{"lexerOnly": false})
				for _, k := range []string{"classRule", "typedToken", "unicode", "backtrack", "startConds", "comment", "lexerCode", "inject", "injectInvalid",
					"lookahead", "lalr2", "typedNonterm", "actions", "multiInput", "noEoiInput", "namedSet", "iface", "recoveryScope", "lists", "optionals",
					"innerArrows", "prec", "templates", "midRule", "fileNode", "extraTypes"} {
					f[k] = false
				}
				f.normalize(avoid)
				g := RandGram(c.Rng, GramCfg{MaxNT: 4, MaxNN: 4, MaxRules: 3, MaxRHS: 4, MultiInput: true, Prec: true, PEmpty: 0.15})
				cs = &c17Case{Name: name, Kind: "random", Feat: f, Text: c17RandTM(c.Rng, g, name, f, names)}
			default:
				// stress: odd names everywhere they reach generated code
				f := pw.next(map[string]bool{"lexerOnly": false, "eventBased": true})
				token := ""
				pickNode := func() string { return pick(c.Rng, c17Odd) }
				for k := range names.Node {
					if c.Rng.Intn(3) == 0 {
						names.Node[k] = pickNode()
					}
				}
				// node type names must stay distinct from each other
				seen := map[string]bool{}
				for _, k := range sortedStrKeys(names.Node) {
					for seen[names.Node[k]] {
						names.Node[k] += "X"
					}
					seen[names.Node[k]] = true
				}
				if c.Rng.Intn(2) == 0 {
					// a set becomes a package-level variable of the main package: harmless odd names only (names the
					// generated code itself declares or uses belong to [C17-name-set-collision])
					names.Set = pick(c.Rng, []string{"Next2", "main", "state", "stack", "lexer", "parser", "tokenSet", "Sets"})
				}
				if c.Rng.Intn(2) == 0 {
					names.Marker = pick(c.Rng, []string{"Parser", "symbol", "tm", "lexer", "type_", "init"})
				}
				for _, k := range []string{"Ident", "Num", "Str"} {
					if c.Rng.Intn(3) == 0 {
						names.Tok[k] = pick(c.Rng, c17OddTokens)
					}
				}
				if names.Tok["Ident"] == names.Tok["Num"] || names.Tok["Ident"] == names.Tok["Str"] || names.Tok["Num"] == names.Tok["Str"] ||
					strings.EqualFold(names.Tok["Ident"], names.Tok["Num"]) || strings.EqualFold(names.Tok["Ident"], names.Tok["Str"]) || strings.EqualFold(names.Tok["Num"], names.Tok["Str"]) {
					names.Tok = c17DefaultNames().Tok
				}
				// dangerous names of a class whose probe passes
				for _, cl := range c17Classes {
					if d := c17Danger[cl.Token]; d != nil && !avoid[cl.Token] && c.Rng.Intn(3) == 0 {
						token = cl.Token
						switch cl.Token {
						case "[C17-name-nodetype-collision]":
							names.Node["Assign"] = pick(c.Rng, d)
						case "[C17-name-set-collision]":
							names.Set = pick(c.Rng, d)
							f["namedSet"] = true
						case "[C17-name-token-collision]":
							names.Tok["Str"] = pick(c.Rng, d)
						case "[C17-name-ast-collision]":
							names.Node["Block"] = pick(c.Rng, d)
						}
					}
				}
				f.normalize(avoid)
				cs = &c17Case{Name: name, Kind: "stress", Feat: f, Text: c17Skeleton(c.Rng, name, f, names), Token: token}
			}
			b.add(cs)
		}
		b.generate()
		b.build(c)
		for _, cs := range b.cases {
			c.Count(cs.Kind + "-" + cs.Status)
			c17ReportAxioms(c, cs)
			switch cs.Status {
			case "reject":
				if len(c.Notes) < 6 && os.Getenv("TMH_DEBUG") != "" {
					c.Notes = append(c.Notes, "rejected "+cs.Kind+" ["+cs.Feat.String()+"]: "+cs.Detail)
				}
				c.Debugf("rejected %s [%s]: %s", cs.Kind, cs.Feat, cs.Detail)
				continue
			case "ok":
				for _, k := range c17Bools {
					if cs.Feat[k] {
						c.Count("on-" + k)
					}
				}
				if cs.Feat["laInput"] {
					c.Count("on-laInput")
				}
				if cs.Vet != "" {
					before := len(cs.VetAll)
					cs.Vet = c17VetFilter(cs, avoid)
					if cs.Vet == "" && before > 0 {
						c.Count("vet-known-ignored")
					}
				}
				c17Record(c, cs)
				if cs.Build != "" || cs.Vet != "" {
					c17Report(c, cs, c17Classify(cs))
				}
			default:
				c17Record(c, cs)
				c17Report(c, cs, "")
			}
		}
		if d := os.Getenv("C17_DUMP"); d != "" {
			for _, cs := range b.cases {
				os.WriteFile(filepath.Join(d, fmt.Sprintf("%s-%s-%s.tm", cs.Name, cs.Kind, cs.Status)), []byte("# "+cs.Feat.String()+"\n# "+cs.Detail+"\n# "+cs.Build+"\n"+cs.Text), 0o644)
			}
		}
		b.close()
	}
	<-wideDone
	for _, wb := range wide {
		wb.build(c)
		for _, cs := range wb.cases {
			c.Count(cs.Kind + "-" + cs.Status)
			for _, kv := range strings.Fields(cs.Size) {
				c.Count(cs.Kind + "-" + kv)
			}
			if cs.Status == "ok" {
				cs.Vet = c17VetFilter(cs, avoid)
			}
			c17Record(c, cs)
			if cs.Status != "ok" || cs.Build != "" || cs.Vet != "" {
				c17Report(c, cs, c17Classify(cs))
			}
		}
		wb.close()
	}
	// pairwise coverage reached
	total, got := 0, 0
	for i := range c17Bools {
		for j := i + 1; j < len(c17Bools); j++ {
			for _, vi := range []int{0, 1} {
				for _, vj := range []int{0, 1} {
					total++
					if pw.covered[[4]int{i, vi, j, vj}] {
						got++
					}
				}
			}
		}
	}
	c.Extra["pairwise_pairs_covered"] = fmt.Sprintf("%d of %d (pairs excluded by the dependencies between features are counted as uncovered)", got, total)
}

func sortedBoolKeys(m c17Avoid) []string {
	var ks []string
	for k := range m {
		ks = append(ks, k)
	}
	sort.Strings(ks)
	return ks
}

func sortedStrKeys(m map[string]string) []string {
	var ks []string
	for k := range m {
		ks = append(ks, k)
	}
	sort.Strings(ks)
	return ks
}

// c17ReportAxioms reports what c17CheckAxioms found on the compiled grammar: a trusted implication of
// Facts/ExpectC17.lean or a data invariant the templates rely on does not hold.
func c17ReportAxioms(c *Ctx, cs *c17Case) {
	if len(cs.Axioms) > 0 {
		c.Violate("an assumption of the templates about compiled grammars does not hold (trusted implication of Facts/ExpectC17.lean or data invariant): "+strings.Join(cs.Axioms, "; "), c17Input(cs))
	}
}

func c17Input(cs *c17Case) string {
	return fmt.Sprintf("kind=%s features=[%s]\n%s", cs.Kind, cs.Feat, cs.Text)
}

// c17Record emits the bookkeeping case of one generated package (the Lean driver echoes the result token).
func c17Record(c *Ctx, cs *c17Case) {
	res := "built"
	switch {
	case cs.Status != "ok":
		res = cs.Status
	case cs.Build != "":
		res = "failed"
	case cs.Vet != "":
		res = "vet"
	}
	key := ""
	if cs.Status == "ok" {
		key = cs.Text
	}
	c.Case(fmt.Sprintf("build %s %s %d %s", cs.Kind, cs.Name, len(cs.Files), res), res, key)
}

var c17Signatures = []struct{ token, re string }{
	{"[C17-ruletype-nodetype]", `parser_tables\.go.*undefined: NodeType`},
	{"[C17-stream-without-types]", `stream\.go.*undefined: (Listener|NodeType)`},
	{"[C17-lexer-flags]", `undefined: NodeFlags`},
	{"[C17-stream-tokenline]", `s\.lexer\.tokenLine undefined`},
	{"[C17-nodeprefix]", `undefined: Nd[A-Z]`},
	{"[C17-stream-cancellablefetch]", `not enough arguments in call to stream\.next`},
	{"[C17-stream-value]", `stream\.Value undefined`},
	{"[C17-field-shadows-child]", `too many arguments in call to n\.Child`},
	{"[C17-lookahead-user-input]", `undefined: At[A-Z]`},
	{"[C17-ast-without-selector]", `/selector is not in std|no required module provides package gp/[a-z0-9]+/selector`},
}

// c17Classify recognises a known class by the compiler's message (a leak of the random stream into a class it
// was meant to avoid, or a stress case built for the class).
func c17Classify(cs *c17Case) string {
	for _, s := range c17Signatures {
		if regexp.MustCompile(s.re).MatchString(cs.Build + " " + cs.Detail) {
			return s.token
		}
	}
	if cs.Token != "" && strings.Contains(cs.Build+cs.Detail, "declared") {
		return cs.Token
	}
	return ""
}

// c17VetFilter returns the first vet line that is not of a shape already reported by the probe of a present
// class ("" when all are).
func c17VetFilter(cs *c17Case, avoid c17Avoid) string {
	for _, l := range cs.VetAll {
		known := false
		for _, cl := range c17Classes {
			if cl.VetIgnore != "" && avoid[cl.Token] && regexp.MustCompile(cl.VetIgnore).MatchString(l) {
				known = true
			}
		}
		if !known {
			return oneLine(l)
		}
	}
	return ""
}

var c17ActionRefError = regexp.MustCompile(`invalid reference|is out of range|Cannot find symbol`)

func c17Report(c *Ctx, cs *c17Case, token string) {
	if token != "" {
		token += " "
	}
	switch {
	case cs.Status == "crash" || cs.Status == "panic":
		c.Violate(fmt.Sprintf("%sthe generator crashed on a grammar (%s): %s", token, cs.Status, cs.Detail), c17Input(cs))
	case cs.Status == "generr" && c17ActionRefError.MatchString(cs.Detail):
		// a semantic action names a symbol the rule does not have: diagnosed by the generator by design (C16)
		c.Count("generr-action-reference")
	case cs.Status == "generr":
		c.Violate(fmt.Sprintf("%sthe compiler accepted the grammar but gen.Generate failed: %s", token, cs.Detail), c17Input(cs))
	case cs.Build != "":
		c.Violate(fmt.Sprintf("%sgenerated code does not build: %s %s", token, cs.Build, cs.Detail), c17Input(cs))
	case cs.Vet != "":
		c.Violate(fmt.Sprintf("%sgo vet complains about generated code: %s", token, cs.Vet), c17Input(cs))
	}
}

// c17LeanTie runs tools/factgen on the tree under test and emits the cases that tie this run to the Lean side.
func c17LeanTie(c *Ctx, repo string) {
	root := ""
	for _, start := range []string{c.Out, func() string { s, _ := os.Executable(); return s }(), func() string { s, _ := os.Getwd(); return s }()} {
		d, _ := filepath.Abs(start)
		for d != "/" && d != "." && d != "" {
			if _, err := os.Stat(filepath.Join(d, "tools", "factgen", "c17.go")); err == nil {
				root = d
				break
			}
			d = filepath.Dir(d)
		}
		if root != "" {
			break
		}
	}
	c.Case("guards", "inconsistent=0 duplicates=0 unusedlabels=0 wellformed=1 tables=1", "guards")
	if root == "" {
		c.Notes = append(c.Notes, "tools/factgen not found from the output directory: the `facts` case is skipped")
		return
	}
	tmp, err := os.MkdirTemp("", "tmh-c17-facts-")
	if err != nil {
		return
	}
	defer os.RemoveAll(tmp)
	cmd := exec.Command("go", "run", ".", "-repo", repo, "-out", filepath.Join(tmp, "Generated.lean"), "-force")
	cmd.Dir = filepath.Join(root, "tools", "factgen")
	cmd.Env = append(os.Environ(), "GOFLAGS=-mod=mod", "GOPROXY=off")
	if b, err := cmd.CombinedOutput(); err != nil {
		c.Notes = append(c.Notes, "tools/factgen failed: "+oneLine(string(b)))
		return
	}
	b, err := os.ReadFile(filepath.Join(tmp, "GeneratedC17.lean"))
	if err != nil {
		c.Notes = append(c.Notes, "tools/factgen wrote no GeneratedC17.lean")
		return
	}
	text := string(b)
	digest := "?"
	if m := regexp.MustCompile(`⟨"digest of the use sites", "([^"]*)"⟩`).FindStringSubmatch(text); m != nil {
		digest = m[1]
	}
	count := func(def string) int {
		i := strings.Index(text, "def "+def+" ")
		if i < 0 {
			return -1
		}
		body := text[i:]
		if j := strings.Index(body, "\n]"); j >= 0 {
			body = body[:j]
		}
		return strings.Count(body, "\n  ") - strings.Count(body, "\n   ")
	}
	c.Case(fmt.Sprintf("facts %s %d %d %d", digest, count("c17DefSigs"), count("c17Atoms"), count("c17Names")), "match", "facts")
}
