package main

// C20 — parse events form a well-nested tree.
//
//	c20Builder   real tree builder (parsers/tm/ast, through verif_export_c20.go) vs the Lean mirror on
//	             random event streams (well nested and not), plus the WellNested verdicts
//	c20Shipped   listener streams of the shipped tm/js/json/test parsers on their own test inputs,
//	             mutations and random bytes: direct nesting check in Go, real trees vs the mirror
//	c20Generated generated parsers (nested arrows, recovery rules, fixWhitespace, spaces): direct check,
//	             replay by the Lean runtime model, hypotheses of the nesting theorem evaluated
//
// Protocol (lean/TmVerif/Model/DriverC20.lean):
//
//	build <evs>                       → forest `(ty off end child…) …` | `_`
//	buildfile <fileTy> <n> <evs>      → root tree | `none`
//	nest <n> <evs>                    → `nested` | `not-nested`
//	hyp <xtables…> <toks> <endOff>    → `ok` | `bad-input` | `bad-reports`
//	xrun …                            → trace of the extended runtime model
//
// <evs> = `ty:off:end,ty:off:end,…` (`-` = none).

import (
	"context"
	"fmt"
	"strings"

	"github.com/inspirer/textmapper/parsers/js"
	jsast "github.com/inspirer/textmapper/parsers/js/ast"
)

func init() { props["C20"] = c20 }

type c20Ev struct{ Ty, Off, End int }

func c20EvsStr(evs []c20Ev) string {
	if len(evs) == 0 {
		return "-"
	}
	parts := make([]string, len(evs))
	for i, e := range evs {
		parts[i] = fmt.Sprintf("%d:%d:%d", e.Ty, e.Off, e.End)
	}
	return strings.Join(parts, ",")
}

// c20Direct is the harness's own O(n²) check of the property on a listener stream for a text of n
// bytes (no model involved): every node within the input; any two nodes disjoint or nested; a node
// that strictly contains another one is reported after it. Returns "" or a description.
func c20Direct(evs []c20Ev, n int) string {
	for _, e := range evs {
		if e.Off < 0 || e.Off > e.End || e.End > n {
			return fmt.Sprintf("node %d:%d:%d is not a range within the input [0,%d]", e.Ty, e.Off, e.End, n)
		}
	}
	for j, f := range evs {
		for i := 0; i < j; i++ {
			p := evs[i] // reported earlier
			if p.Off == p.End {
				continue // an empty earlier node is disjoint from or inside any later one
			}
			if f.Off == f.End {
				if p.Off < f.Off && f.Off < p.End {
					return fmt.Sprintf("node %d:%d:%d is reported after node %d:%d:%d that strictly contains it", f.Ty, f.Off, f.End, p.Ty, p.Off, p.End)
				}
				continue
			}
			lo, hi := max(p.Off, f.Off), min(p.End, f.End)
			if lo >= hi {
				continue // disjoint
			}
			if f.Off <= p.Off && p.End <= f.End {
				continue // the earlier one lies within the later one
			}
			if p.Off <= f.Off && f.End <= p.End {
				return fmt.Sprintf("node %d:%d:%d is reported after node %d:%d:%d that strictly contains it", f.Ty, f.Off, f.End, p.Ty, p.Off, p.End)
			}
			return fmt.Sprintf("nodes %d:%d:%d and %d:%d:%d overlap without being nested", p.Ty, p.Off, p.End, f.Ty, f.Off, f.End)
		}
	}
	return ""
}

// c20EndOffsetDropped is set by the start-up probe: the real builder.build() (File node) drops nodes
// reported at offset == len(content). While it is set, that input class is only counted (the single
// violation comes from the probe) and `buildfile` cases are answered by the literal mirror; once the
// builder is repaired (fixes/C20-end-offset-node.diff) every lost node is a violation and the cases use
// the op `buildfile2` (File adopts every root).
var c20EndOffsetDropped bool

func c20BuildFileOp() string {
	if c20EndOffsetDropped {
		return "buildfile"
	}
	return "buildfile2"
}

// c20Probe runs the fixed witness: the shipped js parser on the text `a` reports
// InsertedSemicolon(1,1) at offset == len(content); the tree built from the stream must contain it.
func c20Probe(c *Ctx) {
	defer func() {
		if r := recover(); r != nil {
			c.Violate(fmt.Sprintf("C20 start-up probe panicked: %v", r), `js "a"`)
		}
	}()
	const src = "a"
	var evs []jsast.VerifEvent
	var names []string
	listener := func(nt js.NodeType, o, e int) {
		evs = append(evs, jsast.VerifEvent{Type: nt, Offset: o, Endoffset: e})
		names = append(names, fmt.Sprintf("%v(%d,%d)", nt, o, e))
	}
	var s js.TokenStream
	var p js.Parser
	s.Init(src, listener)
	p.Init(func(js.SyntaxError) bool { return true }, listener)
	_ = p.ParseModule(context.Background(), &s)
	atEnd := false
	for _, e := range evs {
		if e.Offset == len(src) {
			atEnd = true
		}
	}
	if !atEnd { // the witness stream itself changed: fall back to the fixed stream
		evs = []jsast.VerifEvent{{Type: js.InsertedSemicolon, Offset: 1, Endoffset: 1}, {Type: js.ReferenceIdent, Offset: 0, Endoffset: 1},
			{Type: js.IdentExpr, Offset: 0, Endoffset: 1}, {Type: js.ExprStmt, Offset: 0, Endoffset: 1}}
		names = []string{"InsertedSemicolon(1,1)", "ReferenceIdent(0,1)", "IdentExpr(0,1)", "ExprStmt(0,1)"}
	}
	tree, err := jsast.VerifBuild(src, evs)
	if err != nil || tree == nil || tree.Root() == nil {
		c.Violate("C20 start-up probe: builder.build() failed on the witness stream", `js "a"`)
		return
	}
	count := 0
	var walk func(n *jsast.Node)
	walk = func(n *jsast.Node) {
		count++
		for _, k := range jsast.VerifChildren(n) {
			walk(k)
		}
	}
	walk(tree.Root())
	if count != len(evs)+1 {
		c20EndOffsetDropped = true
		c.Violate(fmt.Sprintf("[C20-end-offset-node-dropped] builder.build() with a File node drops reported nodes that start at the end offset of the text: the js parser reports %s for the text \"a\", the tree built from this stream has %d nodes instead of %d (File + %d reported); the InsertedSemicolon(1,1) node at offset == len(content) stays outside of File(0,1) and stack[0] is returned",
			strings.Join(names, " "), count, len(evs)+1, len(evs)), `js input "a" (parsers/js, ParseModule) -> parsers/js/ast builder`)
		c20RuleExtra += "While the start-up probe [C20-end-offset-node-dropped] fails, trees that lack ONLY nodes reported at offset == len(input) are counted (FINDING-CLASS) and not reported again; any other lost node is a violation. "
	}
}

// c20Parts: the three parts register themselves (each lives in its own file).
var c20Parts = map[string]func(*Ctx){}

func c20(c *Ctx) {
	c20Probe(c)
	for _, part := range []string{"builder", "shipped", "reuse", "generated", "ast"} {
		if f := c20Parts[part]; f != nil {
			f(c)
		}
	}
	c.Rule = "(1) builder: random event streams for the REAL builder (parsers/tm/ast via verif hook) vs the Lean mirror: well-nested streams generated from random trees (empty nodes at starts/ends/equal offsets, equal ranges, containers delayed past later siblings as fixWhitespace does), and ill-nested perturbations; tree shape (type, off, end, children recursively) and WellNested verdicts compared; " +
		"(2) shipped parsers tm/js/json/test on the inputs of their own tests and all .tm grammars of the repository, byte/token mutations, truncations and random bytes: direct O(n²) nesting check of the listener stream in Go, no panic, real ast trees (tm, js) vs the mirror on those streams; " +
		"(2b) parser REUSE: one Parser value (Init once) parses a mostly broken first input (cut or wrong token right behind a comment / invalid token) and then a second input: the second stream must be well nested and equal to the stream of a fresh Parser (no state leaks between parses), shipped json/test/tm/js and generated parsers that report skipped tokens (%inject of a comment and invalid_token, fixWhitespace); " +
		"(2c) generated parsers that report skipped tokens (comment and invalid_token injected, fixWhitespace): random CFGs with and without recovery rules plus a declaration family whose typed rule ends in a chain (depth 1-3) of randomly UNTYPED helper nonterminals over a nullable tail, optionally with `Problem: error` (empty error insertions), comments right behind declarations and between the last good and the offending token; direct nesting check, fresh vs reused Parser, and (without recovery) event-by-event replay by the layered Lean model (prun, as generated and with fixTrailingWS on all rules); (2d) generated AST builders (eventAST) with and without fileNode on that family with leading/trailing comments: tree of the generated ast.Parse vs the mirror (buildsingle / buildfile) and node count vs events; " +
		"(3) generated parsers from conflict-free random CFGs with nested arrow annotations, with/without recovery rules, fixWhitespace and blanks: direct check, hypotheses InputWF/XWF of the Lean theorem evaluated on every table, every run replayed by the Lean runtime model; " +
		"non-trivial = stream with nesting depth >= 2 (builder), input with a syntax error recovered (parsers); distinct by stream / (parser, input). " + c20RuleExtra
}

var c20RuleExtra = ""
