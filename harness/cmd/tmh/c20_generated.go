package main

// C20 part 3: listener streams of GENERATED parsers (real compiler + generator + go build): nested
// arrow annotations, optional recovery rules, fixWhitespace, blanks between tokens.

import (
	"fmt"
	"math/rand"
	"strconv"
	"strings"
)

func init() { c20Parts["generated"] = c20Generated }

// c20TM renders g like tmArrows (c02.go) and additionally supports recovery rules (`error` in
// right-hand sides, never inside a parenthesised part) and empty parenthesised parts `( -> T)`.
func c20TM(r *rand.Rand, g *Gram, name string, o TMOpts) string {
	var sb strings.Builder
	fmt.Fprintf(&sb, "language %s(go);\n\nlang = %q\npackage = \"gp/%s\"\neventBased = true\n", name, name, name)
	if o.Optimize {
		sb.WriteString("optimizeTables = true\n")
	}
	if o.FixWhitespace {
		sb.WriteString("fixWhitespace = true\n")
	}
	sb.WriteString("\n::lexer\n\n")
	if o.Space {
		sb.WriteString("WhiteSpace: /[ ]+/ (space)\n")
	}
	for t := 1; t < g.NT; t++ {
		fmt.Fprintf(&sb, "'%s': /%s/\n", g.SymName(t), g.SymName(t))
	}
	reported := strings.Contains(o.Extra, "reported")
	if reported {
		sb.WriteString("Comment: /#[0-9]*#/ (space)\n")
	}
	if o.Recovering {
		sb.WriteString("error:\ninvalid_token:\n")
	} else if reported {
		sb.WriteString("invalid_token:\n")
	}
	sb.WriteString("\n::parser\n\n")
	var ins []string
	for _, in := range g.Inputs {
		s := g.SymName(in.Sym)
		if !in.Eoi {
			s += " no-eoi"
		}
		ins = append(ins, s)
	}
	fmt.Fprintf(&sb, "%%input %s;\n\n", strings.Join(ins, ", "))
	if reported {
		sb.WriteString("%inject Comment -> Comment;\n%inject invalid_token -> InvalidToken;\n\n")
	}
	sym := func(s int) string {
		if s == errorSym {
			return "error"
		}
		if s < g.NT {
			return "'" + g.SymName(s) + "'"
		}
		return g.SymName(s)
	}
	nextT := 0
	var order []int
	seen := map[int]bool{}
	for _, rl := range g.Rules {
		if !seen[rl.LHS] {
			seen[rl.LHS] = true
			order = append(order, rl.LHS)
		}
	}
	var render func(rhs []int, depth int) string
	render = func(rhs []int, depth int) string {
		if len(rhs) == 0 {
			return ""
		}
		if depth < 3 && r.Intn(2) == 0 {
			s := r.Intn(len(rhs))
			e := s + 1 + r.Intn(len(rhs)-s)
			inner := render(rhs[s:e], depth+1)
			nextT++
			wrapped := fmt.Sprintf("(%s -> T%d)", inner, nextT)
			if r.Intn(3) == 0 { // a second arrow over the same part
				nextT++
				wrapped = fmt.Sprintf("(%s -> T%d)", wrapped, nextT)
			}
			if r.Intn(4) == 0 {
				wrapped += "?"
			}
			var parts []string
			if s > 0 {
				parts = append(parts, render(rhs[:s], depth+1))
			}
			parts = append(parts, wrapped)
			if e < len(rhs) {
				parts = append(parts, render(rhs[e:], depth+1))
			}
			return strings.Join(parts, " ")
		}
		var parts []string
		for _, s := range rhs {
			parts = append(parts, sym(s))
		}
		return strings.Join(parts, " ")
	}
	for _, lhs := range order {
		fmt.Fprintf(&sb, "%s :\n", g.SymName(lhs))
		first := true
		for i, rl := range g.Rules {
			if rl.LHS != lhs {
				continue
			}
			if first {
				sb.WriteString("    ")
				first = false
			} else {
				sb.WriteString("  | ")
			}
			hasErr := false
			for _, s := range rl.RHS {
				if s == errorSym {
					hasErr = true
				}
			}
			switch {
			case len(rl.RHS) == 0:
				sb.WriteString("%empty")
			case hasErr:
				var parts []string
				for _, s := range rl.RHS {
					parts = append(parts, sym(s))
				}
				sb.WriteString(strings.Join(parts, " "))
			default:
				sb.WriteString(render(rl.RHS, 0))
			}
			if r.Intn(5) != 0 {
				fmt.Fprintf(&sb, " -> R%d", i)
			}
			sb.WriteString("\n")
		}
		sb.WriteString(";\n")
	}
	return sb.String()
}

// c20FixWSGuard is decided by a probe in the first batch (witness grammar
// `N0: %empty -> R0 | 'a' 'a' N0 -> R1` with fixWhitespace, text "aa "): true while go_parser.go.tmpl
// emits the `switch rule` of applyRule (which holds the fixTrailingWS calls) only for parsers with
// actions, so that `fixWhitespace = true` has no effect on a grammar with whole-rule arrows only
// (R1 reported as 0:3 instead of 0:2). Nesting is not affected; only the replay by the model is.
var c20FixWSGuard = false

const c20WitnessTM = `language wfix(go);

lang = "wfix"
package = "gp/wfix"
eventBased = true
fixWhitespace = true

::lexer

WhiteSpace: /[ ]+/ (space)
'a': /a/

::parser

%input N0;

N0 :
    %empty -> R0
  | 'a' 'a' N0 -> R1
;
`

// c20XInfo is xinfoStr, with the per-rule fixWS flags cleared for parsers without actions while the
// probe says the template guard is in place.
func c20XInfo(gp *GenParser) string {
	s := xinfoStr(gp)
	if !c20FixWSGuard || gp.G.Parser.HasActions() {
		return s
	}
	fields := strings.SplitN(s, " ", 2)
	rules := strings.Split(fields[0], ";")
	for i, r := range rules {
		parts := strings.Split(r, "/")
		if len(parts) == 3 {
			parts[1] = "0"
			rules[i] = strings.Join(parts, "/")
		}
	}
	return strings.Join(rules, ";") + " " + fields[1]
}

func c20XRunLine(gp *GenParser, input int, text string) string {
	t := gp.G.Parser.Tables
	nt := gp.G.Parser.NumTerminals
	toks, _ := tokenize(gp, text)
	return fmt.Sprintf("xrun %s %s %s %d 0 0 %s %d", tablesStr(t, nt), b2s(t.Optimized != nil), c20XInfo(gp), input, toks, len(text))
}

// c20TraceEvents extracts the listener calls `ty:off:end` of a runner trace and whether the error
// handler was called.
func c20TraceEvents(out string) (evs []c20Ev, handler bool) {
	for _, f := range strings.Fields(out) {
		parts := strings.Split(f, ":")
		if len(parts) != 3 {
			continue
		}
		if parts[0] == "E" {
			handler = true
			continue
		}
		ty, e1 := strconv.Atoi(parts[0])
		o, e2 := strconv.Atoi(parts[1])
		e, e3 := strconv.Atoi(parts[2])
		if e1 == nil && e2 == nil && e3 == nil {
			evs = append(evs, c20Ev{ty, o, e})
		}
	}
	return
}

// c20Decorate inserts comments, invalid characters and blanks between the tokens of text.
func c20Decorate(r *rand.Rand, text string) string {
	var sb strings.Builder
	for i := 0; i <= len(text); i++ {
		switch r.Intn(8) {
		case 0:
			fmt.Fprintf(&sb, " #%s# ", strings.Repeat("7", r.Intn(12)))
		case 1:
			sb.WriteString("%")
		case 2, 3:
			sb.WriteString(" ")
		}
		if i < len(text) {
			sb.WriteByte(text[i])
		}
	}
	return sb.String()
}

// c20TokenizeReported splits a decorated text into the parser's tokens and, per token (plus one list for
// end-of-input), the reported skipped tokens in front of it: `#digits#` comments and `%` invalid tokens.
func c20TokenizeReported(gp *GenParser, text string) (toks, ign string, ok bool) {
	typeID := func(name string) int {
		for i, t := range gp.G.Parser.Types.RangeTypes {
			if t.Name == name {
				return i + 1
			}
		}
		return -1
	}
	comment, invalid := typeID("Comment"), typeID("InvalidToken")
	if comment < 0 || invalid < 0 {
		return "", "", false
	}
	var tparts, iparts, cur []string
	flush := func() {
		if len(cur) == 0 {
			iparts = append(iparts, "-")
		} else {
			iparts = append(iparts, strings.Join(cur, ","))
		}
		cur = nil
	}
	for i := 0; i < len(text); {
		switch ch := text[i]; {
		case ch == ' ':
			i++
		case ch == '#':
			j := i + 1
			for j < len(text) && text[j] >= '0' && text[j] <= '9' {
				j++
			}
			if j >= len(text) || text[j] != '#' {
				return "", "", false
			}
			cur = append(cur, fmt.Sprintf("%d:%d:%d", comment, i, j+1))
			i = j + 1
		case ch == '%':
			cur = append(cur, fmt.Sprintf("%d:%d:%d", invalid, i, i+1))
			i++
		default:
			id := gp.TermID("'" + string(ch) + "'")
			if id < 0 {
				return "", "", false
			}
			flush()
			tparts = append(tparts, fmt.Sprintf("%d:%d:%d", id, i, i+1))
			i++
		}
	}
	flush()
	toks = "-"
	if len(tparts) > 0 {
		toks = strings.Join(tparts, ",")
	}
	return toks, strings.Join(iparts, "|"), true
}

// c20DeclTM: a list of declarations `'a' 'b'^depth ['c']` in which the tail of a TYPED rule is a chain of
// helper nonterminals (randomly untyped: no arrow, no action) ending in a nullable Tail; optionally a
// recovery alternative `'a' Problem; Problem: error` (the error is inserted empty when an 'a' follows).
func c20DeclTM(r *rand.Rand, name string, depth int, recovering, optimize bool) string {
	var sb strings.Builder
	fmt.Fprintf(&sb, "language %s(go);\n\nlang = %q\npackage = \"gp/%s\"\neventBased = true\nfixWhitespace = true\n", name, name, name)
	if optimize {
		sb.WriteString("optimizeTables = true\n")
	}
	sb.WriteString("\n::lexer\n\nWhiteSpace: /[ ]+/ (space)\nComment: /#[0-9]*#/ (space)\n'a': /a/\n'b': /b/\n'c': /c/\n")
	if recovering {
		sb.WriteString("error:\n")
	}
	sb.WriteString("invalid_token:\n\n::parser\n\n%input Z;\n\n%inject Comment -> Comment;\n%inject invalid_token -> InvalidToken;\n\n")
	arrow := func(n string, p int) string {
		if r.Intn(p) == 0 {
			return " -> " + n
		}
		return ""
	}
	sb.WriteString("Z -> Z :\n    Decl\n  | Z Decl\n;\n")
	sb.WriteString("Decl -> Decl :\n    'a' H1\n")
	if recovering {
		sb.WriteString("  | 'a' Problem\n")
	}
	sb.WriteString(";\n")
	for k := 1; k <= depth; k++ {
		next := fmt.Sprintf("H%d", k+1)
		if k == depth {
			next = "Tail"
		}
		fmt.Fprintf(&sb, "H%d%s :\n    'b' %s\n;\n", k, arrow(fmt.Sprintf("H%d", k), 4), next)
	}
	fmt.Fprintf(&sb, "Tail%s :\n    %%empty\n  | 'c'\n;\n", arrow("Tail", 3))
	if recovering {
		fmt.Fprintf(&sb, "Problem%s :\n    error\n;\n", arrow("Problem", 2))
	}
	return sb.String()
}

// c20DeclText: declarations (some broken when the grammar recovers), comments mostly right behind a
// declaration, i.e. between its last token and the next 'a'.
func c20DeclText(r *rand.Rand, depth int, recovering bool) string {
	var sb strings.Builder
	for n := 1 + r.Intn(4); n > 0; n-- {
		d := "a" + strings.Repeat("b", depth)
		if r.Intn(2) == 0 {
			d += "c"
		}
		if recovering && r.Intn(3) == 0 {
			d = d[:1+r.Intn(len(d))] // cut: the error is inserted in front of the next 'a'
		} else if r.Intn(10) == 0 {
			d = d[:r.Intn(len(d)+1)]
		}
		for i := 0; i < len(d); i++ {
			sb.WriteByte(d[i])
			if r.Intn(3) == 0 {
				sb.WriteString(" ")
			}
			if r.Intn(8) == 0 {
				fmt.Fprintf(&sb, "#%s#", strings.Repeat("3", r.Intn(4)))
			}
		}
		if r.Intn(3) != 0 {
			fmt.Fprintf(&sb, " #%s# ", strings.Repeat("5", r.Intn(6)))
		}
		if r.Intn(12) == 0 {
			sb.WriteString("%")
		}
	}
	return sb.String()
}

// c20GeneratedReported: generated parsers that REPORT skipped tokens (comment and invalid_token
// injected into the stream) and trim trailing whitespace; every text is parsed by a fresh Parser and
// by a Parser that has parsed a (mostly broken) other text before.
func c20GeneratedReported(c *Ctx) {
	nG := c.N(8, 100)
	batchSize := 8
	cfg := GramCfg{MaxNT: 4, MaxNN: 4, MaxRules: 3, MaxRHS: 4, MultiInput: false, PEmpty: 0.3}
	for done := 0; done < nG; done += batchSize {
		b, err := NewBatch()
		if err != nil {
			c.Notes = append(c.Notes, err.Error())
			return
		}
		type item struct {
			g     *Gram // nil: declaration family
			depth int
			gp    *GenParser
		}
		var items []item
		for k := 0; k < batchSize && done+k < nG; k++ {
			name := fmt.Sprintf("q%d", done+k)
			if k%2 == 1 {
				// declaration family: untyped helper chains below a typed rule, optional recovery
				depth := 1 + c.Rng.Intn(3)
				rec := c.Rng.Intn(2) == 0
				o := TMOpts{Optimize: c.Rng.Intn(3) == 0, Space: true, FixWhitespace: true, Recovering: rec, Extra: "reported"}
				gp := compileTM(name, c20DeclTM(c.Rng, name, depth, rec, o.Optimize), o)
				if gp.Err != nil {
					c.Violate("C20 harness: declaration-family grammar rejected: "+errSummary(gp.Err), gp.TM)
					continue
				}
				b.Add(gp)
				items = append(items, item{nil, depth, gp})
				continue
			}
			g := genConflictFree(c, cfg, true)
			if g == nil {
				continue
			}
			o := TMOpts{Optimize: c.Rng.Intn(3) == 0, Space: true, FixWhitespace: true, Extra: "reported"}
			o.Recovering = c.Rng.Intn(3) == 0
			var gp *GenParser
			for tries := 0; tries < 4 && gp == nil; tries++ {
				gg := g
				if o.Recovering {
					gg = addErrorRules(c, g)
				}
				p := compileTM(name, c20TM(c.Rng, gg, name, o), o)
				if p.Err != nil {
					c.Count("generated reported: grammar rejected: " + firstWords(errSummary(p.Err), 6))
					continue
				}
				if o.Recovering && !p.G.Parser.IsRecovering {
					continue
				}
				gp = p
			}
			if gp == nil {
				continue
			}
			b.Add(gp)
			items = append(items, item{g, 0, gp})
		}
		if len(items) == 0 {
			b.Close()
			continue
		}
		if err := b.Build(); err != nil {
			c.Violate("generated parsers (reported skipped tokens) do not build: "+err.Error(), items[0].gp.TM)
			b.Close()
			continue
		}
		var reqs []RunReq
		var metas []item
		for _, it := range items {
			if it.g == nil {
				rec := it.gp.G.Parser.IsRecovering
				for n := 0; n < 60; n++ {
					text := c20DeclText(c.Rng, it.depth, rec)
					prev := c20DeclText(c.Rng, it.depth, true) + fmt.Sprintf(" #%s# ", strings.Repeat("1", c.Rng.Intn(10)))
					if c.Rng.Intn(2) == 0 {
						prev += "c"
					}
					reqs = append(reqs, RunReq{Parser: it.gp.Name, Input: 0, Text: text}, RunReq{Parser: it.gp.Name, Input: 0, Text: text, Prev: prev})
					metas = append(metas, it, it)
				}
				continue
			}
			in := it.g.Inputs[0]
			ws := sampleWords(c, it.g, in.Sym, 3, 8)
			for _, w := range ws {
				text := c20Decorate(c.Rng, wordText(it.g, w))
				// a first input that breaks right behind a comment / invalid token
				pw := ws[c.Rng.Intn(len(ws))]
				pt := wordText(it.g, pw)
				if len(pt) > 0 {
					pt = pt[:c.Rng.Intn(len(pt)+1)]
				}
				prev := c20Decorate(c.Rng, pt) + fmt.Sprintf(" #%s# ", strings.Repeat("1", c.Rng.Intn(10)))
				if c.Rng.Intn(2) == 0 {
					prev += wordText(it.g, it.g.RandString(c.Rng, 1+c.Rng.Intn(2)))
				}
				reqs = append(reqs, RunReq{Parser: it.gp.Name, Input: 0, Text: text}, RunReq{Parser: it.gp.Name, Input: 0, Text: text, Prev: prev})
				metas = append(metas, it, it)
			}
		}
		outs := b.Run(reqs)
		b.Close()
		for i := 0; i+1 < len(reqs); i += 2 {
			gp := metas[i].gp
			text := reqs[i].Text
			fresh, reused := outs[i], outs[i+1]
			desc := fmt.Sprintf("%q with %s", text, gp.TM)
			for k, out := range []string{fresh, reused} {
				who := "fresh Parser"
				if k == 1 {
					who = fmt.Sprintf("Parser that parsed %q before", reqs[i+1].Prev)
				}
				if out == "crash" || strings.HasSuffix(out, "panic") {
					c.Violate("generated parser (reported skipped tokens, "+who+") panicked: "+out, desc)
					continue
				}
				evs, _ := c20TraceEvents(out)
				if msg := c20Direct(evs, len(text)); msg != "" {
					c.Violate("generated parser (reported skipped tokens, fixWhitespace; "+who+"): "+msg+"; trace "+out, desc)
				}
			}
			fam := "generated reported+fixWhitespace"
			if metas[i].g == nil {
				fam += " (declarations, untyped helpers)"
			}
			_, handler := c20TraceEvents(fresh)
			switch {
			case handler && strings.HasSuffix(fresh, "ok"):
				c.Count(fam + ": syntax error recovered")
			case strings.HasSuffix(fresh, "ok"):
				c.Count(fam + ": accepted")
			default:
				c.Count(fam + ": syntax error")
			}
			if fresh != reused {
				c.Violate(fmt.Sprintf("state leaks between parses: a generated Parser that parsed %q before reports %q, a fresh Parser reports %q", reqs[i+1].Prev, reused, fresh), desc)
			}
			// replay by the layered Lean model (pending / flush), for the fresh and for the reused Parser
			// (the model starts every parse with empty pending tokens, as parse() does)
			if gp.G.Parser.IsRecovering {
				continue // the layered model has no recovery; the direct check above applies
			}
			if toks, ign, ok := c20TokenizeReported(gp, text); ok {
				t := gp.G.Parser.Tables
				args := fmt.Sprintf("%s %s %s 0 %s %s %d", tablesStr(t, gp.G.Parser.NumTerminals), b2s(t.Optimized != nil), xinfoStr(gp), toks, ign, len(text))
				key := ""
				if strings.Contains(ign, ":") {
					key = gp.TM + "\x00" + text
				}
				c.Debugf("reported-token run %q (prev %q) of %s", text, reqs[i+1].Prev, gp.TM)
				c.Case("prun "+args, fresh, key)
				c.Case("prun "+args, reused, "")
				if i%6 == 0 {
					c.Case("phyp "+args, "ok", "")
				}
			} else {
				c.Count("generated reported: text not tokenized by the harness")
			}
		}
	}
}

func c20Generated(c *Ctx) {
	c20GeneratedReported(c)
	nG := c.N(20, 300)
	batchSize := 20
	cfg := GramCfg{MaxNT: 4, MaxNN: 4, MaxRules: 3, MaxRHS: 4, MultiInput: true, PEmpty: 0.3}
	for done := 0; done < nG; done += batchSize {
		b, err := NewBatch()
		if err != nil {
			c.Notes = append(c.Notes, err.Error())
			return
		}
		type item struct {
			g  *Gram
			gp *GenParser
		}
		var items []item
		for k := 0; k < batchSize && done+k < nG; k++ {
			g := genConflictFree(c, cfg, true)
			if g == nil {
				continue
			}
			o := TMOpts{Optimize: c.Rng.Intn(3) == 0, Space: c.Rng.Intn(3) != 0}
			o.FixWhitespace = c.Rng.Intn(2) == 0
			o.Recovering = c.Rng.Intn(2) == 0
			name := fmt.Sprintf("n%d", done+k)
			var gp *GenParser
			var used *Gram
			for tries := 0; tries < 4 && gp == nil; tries++ {
				gg := g
				if o.Recovering {
					gg = addErrorRules(c, g)
				}
				p := compileTM(name, c20TM(c.Rng, gg, name, o), o)
				if p.Err != nil {
					c.Count("generated: grammar rejected: " + firstWords(errSummary(p.Err), 6))
					continue
				}
				if o.Recovering && !p.G.Parser.IsRecovering {
					continue
				}
				gp, used = p, gg
			}
			if gp == nil {
				continue
			}
			_ = used
			b.Add(gp)
			items = append(items, item{g, gp})
		}
		if len(items) == 0 {
			b.Close()
			continue
		}
		var witness *GenParser
		if done == 0 {
			if w := compileTM("wfix", c20WitnessTM, TMOpts{FixWhitespace: true, Space: true}); w.Err == nil {
				witness = w
				b.Add(w)
			} else {
				c.Notes = append(c.Notes, "C20: fixWhitespace witness grammar rejected: "+errSummary(w.Err))
			}
		}
		if err := b.Build(); err != nil {
			c.Violate("generated parsers do not build: "+err.Error(), items[0].gp.TM)
			b.Close()
			continue
		}
		var reqs []RunReq
		type meta struct {
			it    item
			input int
		}
		var metas []meta
		for _, it := range items {
			for idx, in := range it.g.Inputs {
				ws := sampleWords(c, it.g, in.Sym, 3, 10)
				for i := 0; i < 6; i++ {
					ws = append(ws, it.g.RandString(c.Rng, 2+c.Rng.Intn(9)))
				}
				for _, w := range ws {
					text := wordText(it.g, w)
					if it.gp.Opts.Space {
						text = spaced(c.Rng, text)
					}
					reqs = append(reqs, RunReq{Parser: it.gp.Name, Input: idx, Text: text})
					metas = append(metas, meta{it, idx})
				}
			}
		}
		if witness != nil {
			reqs = append(reqs, RunReq{Parser: "wfix", Input: 0, Text: "aa "})
		}
		outs := b.Run(reqs)
		b.Close()
		if witness != nil {
			switch w := outs[len(outs)-1]; {
			case strings.HasSuffix(w, ":0:3 ok"):
				c20FixWSGuard = true
				c.Count("generated: probe: fixWhitespace has no effect without actions (template guard in place)")
			case strings.HasSuffix(w, ":0:2 ok"):
				c.Count("generated: probe: fixWhitespace trims rule nodes without actions")
			default:
				c.Notes = append(c.Notes, "C20: unexpected trace of the fixWhitespace witness: "+w)
			}
		}
		hypDone := map[string]int{}
		for i, m := range metas {
			gp := m.it.gp
			text := reqs[i].Text
			out := outs[i]
			evs, handler := c20TraceEvents(out)
			cfgName := "plain"
			if gp.Opts.Recovering {
				cfgName = "recovering"
			}
			if gp.Opts.FixWhitespace {
				cfgName += "+fixWhitespace"
			}
			if gp.Opts.FixWhitespace && !gp.G.Parser.HasActions() {
				c.Count("generated: runs with fixWhitespace and whole-rule arrows only")
			}
			switch {
			case out == "crash" || strings.HasSuffix(out, "panic"):
				c.Count("generated " + cfgName + ": panic")
				c.Violate("generated parser panicked: "+out, fmt.Sprintf("%q with %s", text, gp.TM))
			case strings.HasSuffix(out, "ok") && !handler:
				c.Count("generated " + cfgName + ": accepted")
			case strings.HasSuffix(out, "ok"):
				c.Count("generated " + cfgName + ": syntax error recovered")
			default:
				c.Count("generated " + cfgName + ": syntax error, gave up")
			}
			desc := fmt.Sprintf("%q [input %d] with %s", text, m.input, gp.TM)
			if msg := c20Direct(evs, len(text)); msg != "" {
				c.Violate("generated parser ("+cfgName+"): "+msg+"; trace "+out, desc)
			}
			key := ""
			if handler || len(evs) >= 4 {
				key = gp.TM + "\x00" + text
			}
			c.Debugf("input %d %q of %s", m.input, text, gp.TM)
			c.Case(c20XRunLine(gp, m.input, text), out, key)
			// hypotheses of the nesting theorem on the real table and token stream
			if hypDone[gp.Name] < 3 || c.Rng.Intn(4) == 0 {
				hypDone[gp.Name]++
				t := gp.G.Parser.Tables
				nt := gp.G.Parser.NumTerminals
				toks, _ := tokenize(gp, text)
				c.Case(fmt.Sprintf("hyp %s %s %s %s %d", tablesStr(t, nt), b2s(t.Optimized != nil), c20XInfo(gp), toks, len(text)), "ok", "")
			}
		}
	}
}
