package main

import (
	"context"
	"fmt"
	"strings"

	"github.com/inspirer/textmapper/compiler"
	"github.com/inspirer/textmapper/grammar"
	"github.com/inspirer/textmapper/status"
	"github.com/inspirer/textmapper/syntax"
	"github.com/inspirer/textmapper/util/ident"
)

// Third stream of C28: grammars in which nonterminals are GENERATED after declaration — template instances
// (x<+B> → x_B), parenthesised groups (y$1), lists (D_list, B_list_C_separated, C_optlist), optionals (copt) —
// which get their IDs only in resolver.addNonterms, and mid-rule action nonterminals (u$1), which get theirs in
// commandExtractor.extract. Each grammar is compiled once to learn the generated names, then again with an extra
// terminal (name or explicit ID) or an extra declared nonterminal whose ID is chosen to collide with one of them.

type c28Shape struct {
	params string   // template parameters of the declaration
	body   string   // right-hand side
	refs   []string // argument lists with which it can be referenced ("" = none)
}

var c28Shapes = []c28Shape{
	{"<B>", "a | [B] b", []string{"<+B>", ""}},
	{"<A, B>", "a | [A] b | [B] c", []string{"<+A>", "<+B>", "<+A, +B>", ""}},
	{"", "a (a b | b a)+ c", []string{""}},
	{"", "a { mid } b c", []string{""}},
	{"", "a (b separator c)+ d", []string{""}},
	{"", "a b? c* d+", []string{""}},
	{"", "a copt d", []string{""}},
	{"", "a { m1 } b { m2 } c", []string{""}},
	{"", "a (b | c d)? { m } d", []string{""}},
	{"", "a b", []string{""}},
	{"<B>", "a (b | [B] c d)+ { m } d", []string{"<+B>", ""}},
	{"", "a (b c)* d (a | b)", []string{""}},
}

var c28GenNames = []string{"x", "y", "z", "u", "v", "w", "X", "q1", "ab", "t", "U", "x_", "y-z"}

type c28GenDecl struct {
	name  string
	shape int
	refs  []string
}

type c28GenGrammar struct {
	decls    []c28GenDecl
	extraTok []c28Tok // after a, b, c, d
	extraNts []string // declared as `name : a ;`, not referenced
}

func (g *c28GenGrammar) toks() []c28Tok {
	return append([]c28Tok{{"a", "", false}, {"b", "", false}, {"c", "", false}, {"d", "", false}}, g.extraTok...)
}

func (g *c28GenGrammar) declared() []string {
	ret := []string{"input"}
	for _, d := range g.decls {
		ret = append(ret, d.name)
	}
	return append(ret, g.extraNts...)
}

func (g *c28GenGrammar) source() string {
	var sb strings.Builder
	sb.WriteString("language x(go);\n\n:: lexer\n\n")
	for i, t := range g.toks() {
		sb.WriteString(t.name)
		if t.id != "" {
			fmt.Fprintf(&sb, " (%s)", t.id)
		}
		attr := ""
		if t.space {
			attr = " (space)"
		}
		if i < 4 {
			fmt.Fprintf(&sb, ": /%s/\n", t.name)
		} else {
			fmt.Fprintf(&sb, ": /q%dz/%s\n", i, attr)
		}
	}
	sb.WriteString("\n:: parser\n\n%flag A = false;\n%flag B = false;\n\ninput :")
	for _, d := range g.decls {
		for _, r := range d.refs {
			sb.WriteString(" " + d.name + r)
		}
	}
	sb.WriteString(" ;\n")
	for _, d := range g.decls {
		sh := c28Shapes[d.shape]
		fmt.Fprintf(&sb, "%s%s : %s ;\n", d.name, sh.params, sh.body)
	}
	for _, n := range g.extraNts {
		fmt.Fprintf(&sb, "%s : a ;\n", n)
	}
	return sb.String()
}

type c28GenResult struct {
	ans      string // canonical answer (as in the gram stream)
	syms     []c28Sym
	numTok   int
	final    []string // names registered by addNonterms
	midrule  []string // names of mid-rule nonterminals
	hasOther bool
}

func c28IsMidrule(nt *syntax.Nonterm) bool {
	v := nt.Value
	return strings.Contains(nt.Name, "$") && v != nil && v.Kind == syntax.Choice && len(v.Sub) == 1 && v.Sub[0].Kind == syntax.Command
}

func c28GenCompile(g *c28GenGrammar) (res c28GenResult) {
	defer func() {
		if e := recover(); e != nil {
			res.ans = "panic"
		}
	}()
	toks := g.toks()
	var gr *grammar.Grammar
	gr, err := compiler.Compile(context.Background(), "x.tm", g.source(), compiler.Params{})
	if gr == nil {
		res.ans = "syntax " + hexs([]byte(fmt.Sprint(err)))
		res.hasOther = true
		return res
	}
	res.numTok = gr.NumTokens
	for _, s := range gr.Syms {
		res.syms = append(res.syms, c28Sym{s.Name, s.ID})
	}
	// split the nonterminals of Syms into those registered by addNonterms and the mid-rule ones
	nts := res.syms[min(res.numTok, len(res.syms)):]
	nmid := 0
	if gr.Parser != nil {
		pn := gr.Parser.Nonterms
		for nmid < len(pn) && nmid < len(nts) && c28IsMidrule(pn[len(pn)-1-nmid]) {
			nmid++
		}
	}
	for i, s := range nts {
		if i < len(nts)-nmid {
			res.final = append(res.final, s.name)
		} else {
			res.midrule = append(res.midrule, s.name)
		}
	}
	if err == nil {
		var parts []string
		for _, s := range res.syms {
			parts = append(parts, hexs([]byte(s.id)))
		}
		res.ans = "ok " + strings.Join(parts, ",")
		return res
	}
	names := []string{"eoi", "invalid_token"}
	for _, t := range toks {
		names = append(names, t.name)
	}
	names = append(names, g.declared()...)
	names = append(names, res.final...)
	var parts []string
	for _, e := range status.FromError(err) {
		k := c28ErrKind(e)
		if strings.HasPrefix(k, "dup\x00") {
			body := k[4:]
			k = "other:" + hexs([]byte(e.Msg))
		search:
			for _, a := range names {
				for _, b := range names {
					if body == a+" and "+b {
						k = "dup:" + hexs([]byte(a)) + ":" + hexs([]byte(b))
						break search
					}
				}
			}
		}
		if strings.HasPrefix(k, "other:") {
			res.hasOther = true
		}
		parts = append(parts, k)
	}
	res.ans = "err " + strings.Join(parts, ";")
	return res
}

// c28Spellings returns admitted names s with ident.Produce(s, style) == id.
func c28Spellings(id string, style ident.Style) []string {
	var cands []string
	lower := strings.ToLower(id)
	cands = append(cands, id, lower)
	if len(id) > 0 {
		cands = append(cands, strings.ToLower(id[:1])+id[1:])
	}
	// split at humps / underscores
	var words []string
	cur := ""
	for i, ch := range id {
		if ch == '_' {
			if cur != "" {
				words = append(words, cur)
			}
			cur = ""
			continue
		}
		if i > 0 && ch >= 'A' && ch <= 'Z' && cur != "" {
			words = append(words, cur)
			cur = ""
		}
		cur += string(ch)
	}
	if cur != "" {
		words = append(words, cur)
	}
	if len(words) > 1 {
		lw := strings.ToLower(strings.Join(words, "_"))
		cands = append(cands, lw, strings.ReplaceAll(lw, "_", "-"), strings.Join(words, "_"), strings.Join(words, "-"), "'"+lw+"'")
	}
	cands = append(cands, "'"+lower+"'", "\""+id+"\"")
	var ret []string
	seen := map[string]bool{}
	for _, s := range cands {
		if s == "" || seen[s] || !c28TmName(s) || c28Hard[s] {
			continue
		}
		seen[s] = true
		if p, panicked := c28Produce(s, style); !panicked && p == id {
			ret = append(ret, s)
		}
	}
	return ret
}

// c28GenProbe: the known defect on the real compiler — terminal u_1 and mid-rule nonterminal u$1 share the ID U_1.
func (c *Ctx) c28GenProbe(findings bool) {
	g := &c28GenGrammar{decls: []c28GenDecl{{"u", 3, []string{""}}}}
	g0 := c28GenCompile(g)
	g.extraTok = []c28Tok{{"u_1", "", false}}
	c.c28GenCase(g, g0, "probe: terminal name vs midrule", findings)
}

func (c *Ctx) c28Generated(findings bool) {
	r := c.Rng
	g := &c28GenGrammar{}
	perm := r.Perm(len(c28GenNames))
	n := 1 + r.Intn(4)
	for i := 0; i < n; i++ {
		sh := r.Intn(len(c28Shapes))
		d := c28GenDecl{name: c28GenNames[perm[i]], shape: sh}
		for _, ref := range c28Shapes[sh].refs {
			if r.Intn(2) == 0 {
				d.refs = append(d.refs, ref)
			}
		}
		if len(d.refs) == 0 {
			d.refs = []string{c28Shapes[sh].refs[r.Intn(len(c28Shapes[sh].refs))]}
		}
		g.decls = append(g.decls, d)
	}
	// first compilation: which nonterminals are generated, and with which IDs
	g0 := c28GenCompile(g)
	if g0.hasOther || !strings.HasPrefix(g0.ans, "ok ") && len(g0.final) == 0 {
		c.Count("generated: base grammar rejected (skipped)")
		if c.Dist["generated: base grammar rejected (skipped)"] <= 3 {
			c.Notes = append(c.Notes, "generated stream: base grammar rejected: "+strings.ReplaceAll(g.source(), "\n", "\\n")+" => "+g0.ans)
		}
		return
	}
	declared := map[string]bool{}
	for _, d := range g.declared() {
		declared[d] = true
	}
	// second compilation: add symbols whose IDs collide with those of generated nonterminals
	nts := g0.syms[g0.numTok:]
	inject := "none"
	for tries := 0; tries < 3 && r.Intn(4) != 0; tries++ {
		// prefer generated (not declared) nonterminals as targets
		var target c28Sym
		for k := 0; k < 6; k++ {
			target = nts[r.Intn(len(nts))]
			if !declared[target.name] {
				break
			}
		}
		kind := "declared"
		if strings.Contains(target.name, "$") {
			kind = "group"
			for _, m := range g0.midrule {
				if m == target.name {
					kind = "midrule"
				}
			}
		} else if !declared[target.name] {
			kind = "instance/list/opt"
		}
		if r.Intn(3) != 0 {
			// a terminal with the same ID: by name, or by explicit ID
			sp := c28Spellings(target.id, ident.UpperCase)
			switch {
			case len(sp) > 0 && r.Intn(3) != 0:
				g.extraTok = append(g.extraTok, c28Tok{sp[r.Intn(len(sp))], "", r.Intn(4) == 0})
				inject = "terminal name vs " + kind
			case c28TmName(target.id) && target.id[0] != '\'' && target.id[0] != '"':
				id := target.id
				if r.Intn(2) == 0 {
					id = strings.ToLower(id) // goes through Produce(UpperCase)
				}
				g.extraTok = append(g.extraTok, c28Tok{fmt.Sprintf("k%d", len(g.extraTok)), id, r.Intn(4) == 0})
				inject = "terminal explicit ID vs " + kind
			}
		} else {
			sp := c28Spellings(target.id, ident.CamelCase)
			var ok []string
			for _, s := range sp {
				if s[0] != '\'' && s[0] != '"' && s != "input" {
					ok = append(ok, s)
				}
			}
			if len(ok) > 0 {
				g.extraNts = append(g.extraNts, ok[r.Intn(len(ok))])
				inject = "nonterminal vs " + kind
			}
		}
	}
	if r.Intn(6) == 0 {
		name, id := c28GramName(r, []string{"x", "y", "b"}, false, findings)
		g.extraTok = append(g.extraTok, c28Tok{name, id, false})
	}
	c.c28GenCase(g, g0, inject, findings)
}

// c28GenCase compiles the grammar (g0 = result for the same grammar without the injected symbols) and records
// the case: declarations, the names addNonterms registers, the mid-rule names, and the answer.
func (c *Ctx) c28GenCase(g *c28GenGrammar, g0 c28GenResult, inject string, findings bool) {
	declared := map[string]bool{}
	for _, d := range g.declared() {
		declared[d] = true
	}
	g1 := c28GenCompile(g)
	if g1.hasOther {
		c.Count("generated: other error (skipped)")
		if c.Dist["generated: other error (skipped)"] <= 3 {
			c.Notes = append(c.Notes, "generated stream: other error: "+strings.ReplaceAll(g.source(), "\n", "\\n")+" => "+g1.ans)
		}
		return
	}
	final, midrule := g1.final, g1.midrule
	if len(final) == 0 {
		// compileParser returned before addNonterms: the expanded model is not observable (and not used)
		final, midrule = g0.final, g0.midrule
	}
	var tparts, nparts, fparts, mparts []string
	for _, t := range g.toks() {
		id := "-"
		if t.id != "" {
			id = hexs([]byte(t.id))
		}
		if t.space {
			id += ":s"
		}
		tparts = append(tparts, hexs([]byte(t.name))+":"+id)
	}
	for _, n := range g.declared() {
		nparts = append(nparts, hexs([]byte(n)))
	}
	for _, n := range final {
		fparts = append(fparts, hexs([]byte(n)))
	}
	for _, n := range midrule {
		mparts = append(mparts, hexs([]byte(n)))
	}
	join := func(p []string) string {
		if len(p) == 0 {
			return "_"
		}
		return strings.Join(p, ",")
	}
	line := fmt.Sprintf("gen %s %s %s %s", join(tparts), join(nparts), join(fparts), join(mparts))
	kind := strings.SplitN(g1.ans, " ", 2)[0]
	if kind == "err" {
		kind = "err " + strings.SplitN(strings.SplitN(g1.ans, " ", 2)[1], ":", 2)[0]
	}
	c.Count("generated " + kind)
	c.Count("generated inject: " + inject)
	ngen := 0
	for _, n := range final {
		if !declared[n] {
			ngen++
		}
	}
	c.Count(fmt.Sprintf("generated nonterminals per grammar: %d", min(ngen+len(midrule), 6)))
	c.Case(line, g1.ans, line)
	if c.Dist["generated "+kind] == 1 {
		c.Samples = append(c.Samples, strings.ReplaceAll(g.source(), "\n", "\\n")+" => "+g1.ans)
	}
	c.c28CheckSymsMid(g1.ans, g1.syms, g1.numTok, g.toks(), midrule, g.source(), findings)
}
