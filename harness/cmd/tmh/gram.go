package main

// Shared random context-free grammar generator (DESIGN.md §4 "Shared generators") with conversions to
// lalr.Grammar and to .tm text, a CYK/Earley-free brute-force recogniser used only as a SEARCH oracle,
// and sentence/mutation generation.

import (
	"fmt"
	"math/rand"
	"strings"

	"github.com/inspirer/textmapper/lalr"
	"github.com/inspirer/textmapper/status"
)

type GRule struct {
	LHS  int   // symbol id (>= NT)
	RHS  []int // symbol ids
	Prec int   // %prec terminal, 0 = none
}

type GInput struct {
	Sym int // symbol id of the nonterminal
	Eoi bool
}

type GPrec struct {
	Assoc int // 0 left, 1 right, 2 nonassoc
	Terms []int
}

// Gram is a plain context-free grammar. Symbol ids: 0 = EOI, 1..NT-1 terminals, NT..NT+NN-1 nonterminals.
type Gram struct {
	NT, NN int
	Rules  []GRule
	Inputs []GInput
	Prec   []GPrec
	K      int // lalr(k) lookahead, 0/1 = LALR(1)
	Shape  string
}

type dummyNode int

func (n dummyNode) SourceRange() status.SourceRange {
	return status.SourceRange{Filename: "input", Line: int(n) + 1, Column: 1}
}

func (g *Gram) SymName(s int) string {
	switch {
	case s == 0:
		return "EOI"
	case s < g.NT:
		return string(rune('a' + s - 1))
	default:
		return fmt.Sprintf("N%d", s-g.NT)
	}
}

func (g *Gram) Lalr() *lalr.Grammar {
	ret := &lalr.Grammar{Terminals: g.NT, Origin: dummyNode(0)}
	for s := 0; s < g.NT+g.NN; s++ {
		ret.Symbols = append(ret.Symbols, g.SymName(s))
	}
	for _, in := range g.Inputs {
		ret.Inputs = append(ret.Inputs, lalr.Input{Nonterminal: lalr.Sym(in.Sym), Eoi: in.Eoi})
	}
	for i, r := range g.Rules {
		lr := lalr.Rule{LHS: lalr.Sym(r.LHS), Precedence: lalr.Sym(r.Prec), Action: i, Type: -1, Origin: dummyNode(i)}
		for _, s := range r.RHS {
			lr.RHS = append(lr.RHS, lalr.Sym(s))
		}
		ret.Rules = append(ret.Rules, lr)
	}
	for _, p := range g.Prec {
		lp := lalr.Precedence{Associativity: lalr.Associativity(p.Assoc)}
		for _, t := range p.Terms {
			lp.Terminals = append(lp.Terminals, lalr.Sym(t))
		}
		ret.Precedence = append(ret.Precedence, lp)
	}
	return ret
}

// String is the protocol form: `NT NN | lhs:rhs,..;... | sym:eoi;... | assoc:terms;... | ruleprec,...`
func (g *Gram) String() string {
	var rs []string
	for _, r := range g.Rules {
		rs = append(rs, fmt.Sprintf("%d:%s", r.LHS, ints(r.RHS)))
	}
	var is []string
	for _, in := range g.Inputs {
		is = append(is, fmt.Sprintf("%d:%s", in.Sym, b2s(in.Eoi)))
	}
	ps := "_"
	if len(g.Prec) > 0 {
		var pp []string
		for _, p := range g.Prec {
			pp = append(pp, fmt.Sprintf("%d:%s", p.Assoc, ints(p.Terms)))
		}
		ps = strings.Join(pp, ";")
	}
	var rp []int
	for _, r := range g.Rules {
		rp = append(rp, r.Prec)
	}
	return fmt.Sprintf("%d %d %s %s %s %s", g.NT, g.NN, strings.Join(rs, ";"), strings.Join(is, ";"), ps, ints(rp))
}

// Human readable, for samples and replays.
func (g *Gram) Pretty() string {
	var sb strings.Builder
	for _, in := range g.Inputs {
		fmt.Fprintf(&sb, "%%input %s%s; ", g.SymName(in.Sym), map[bool]string{true: "", false: " no-eoi"}[in.Eoi])
	}
	for _, p := range g.Prec {
		fmt.Fprintf(&sb, "%%%s", []string{"left", "right", "nonassoc"}[p.Assoc])
		for _, t := range p.Terms {
			sb.WriteString(" " + g.SymName(t))
		}
		sb.WriteString("; ")
	}
	for _, r := range g.Rules {
		fmt.Fprintf(&sb, "%s:", g.SymName(r.LHS))
		for _, s := range r.RHS {
			sb.WriteString(" " + g.SymName(s))
		}
		if r.Prec != 0 {
			sb.WriteString(" %prec " + g.SymName(r.Prec))
		}
		sb.WriteString("; ")
	}
	return sb.String()
}

// ---- analysis (harness-side oracles; search only) ----

func (g *Gram) Nullable() []bool {
	n := make([]bool, g.NT+g.NN)
	for ch := true; ch; {
		ch = false
		for _, r := range g.Rules {
			if n[r.LHS] {
				continue
			}
			all := true
			for _, s := range r.RHS {
				if !n[s] {
					all = false
					break
				}
			}
			if all {
				n[r.LHS] = true
				ch = true
			}
		}
	}
	return n
}

func (g *Gram) Productive() []bool {
	p := make([]bool, g.NT+g.NN)
	for i := 0; i < g.NT; i++ {
		p[i] = true
	}
	for ch := true; ch; {
		ch = false
		for _, r := range g.Rules {
			if p[r.LHS] {
				continue
			}
			all := true
			for _, s := range r.RHS {
				if !p[s] {
					all = false
					break
				}
			}
			if all {
				p[r.LHS] = true
				ch = true
			}
		}
	}
	return p
}

func (g *Gram) AllProductive() bool {
	p := g.Productive()
	for s := g.NT; s < g.NT+g.NN; s++ {
		if !p[s] {
			return false
		}
	}
	return true
}

// Derives reports whether symbol `start` derives exactly `w` (memoised top-down recogniser with
// cycle cut; exponential in the worst case, used on short strings only).
func (g *Gram) Derives(start int, w []int) bool {
	type key struct{ sym, i, j int }
	memo := map[key]int{} // 1 = in progress/false, 2 = true, 3 = false
	byLHS := map[int][]int{}
	for i, r := range g.Rules {
		byLHS[r.LHS] = append(byLHS[r.LHS], i)
	}
	// Iterate to a fixpoint to be exact in the presence of cyclic/nullable recursion.
	table := map[key]bool{}
	var seq func(rhs []int, i, j int) bool
	sym := func(s, i, j int) bool {
		if s < g.NT {
			return j == i+1 && w[i] == s
		}
		return table[key{s, i, j}]
	}
	seq = func(rhs []int, i, j int) bool {
		if len(rhs) == 0 {
			return i == j
		}
		for k := i; k <= j; k++ {
			if sym(rhs[0], i, k) && seq(rhs[1:], k, j) {
				return true
			}
		}
		return false
	}
	_ = memo
	n := len(w)
	for ch := true; ch; {
		ch = false
		for ln := 0; ln <= n; ln++ {
			for i := 0; i+ln <= n; i++ {
				j := i + ln
				for s := g.NT; s < g.NT+g.NN; s++ {
					if table[key{s, i, j}] {
						continue
					}
					for _, ri := range byLHS[s] {
						if seq(g.Rules[ri].RHS, i, j) {
							table[key{s, i, j}] = true
							ch = true
							break
						}
					}
				}
			}
		}
	}
	return sym(start, 0, n)
}

// IsPrefixOfSentence: is w a prefix of some sentence of start (w may be the whole sentence)?
// Computed by extending the grammar with a wildcard suffix: checks whether start =>* w γ with γ
// productive. Implemented by brute force over derivation of a "prefix" relation.
func (g *Gram) IsPrefix(start int, w []int) bool {
	prod := g.Productive()
	type key struct{ sym, i int }
	// pre[sym,i]: sym derives a string that has w[i:] as a prefix-consuming: sym =>* w[i:n] x  (consumes all of the rest)
	// full[sym,i,j]: sym =>* w[i:j]
	n := len(w)
	type k3 struct{ sym, i, j int }
	full := map[k3]bool{}
	byLHS := map[int][]int{}
	for i, r := range g.Rules {
		byLHS[r.LHS] = append(byLHS[r.LHS], i)
	}
	symFull := func(s, i, j int) bool {
		if s < g.NT {
			return j == i+1 && w[i] == s
		}
		return full[k3{s, i, j}]
	}
	var seqFull func(rhs []int, i, j int) bool
	seqFull = func(rhs []int, i, j int) bool {
		if len(rhs) == 0 {
			return i == j
		}
		for k := i; k <= j; k++ {
			if symFull(rhs[0], i, k) && seqFull(rhs[1:], k, j) {
				return true
			}
		}
		return false
	}
	for ch := true; ch; {
		ch = false
		for ln := 0; ln <= n; ln++ {
			for i := 0; i+ln <= n; i++ {
				j := i + ln
				for s := g.NT; s < g.NT+g.NN; s++ {
					if full[k3{s, i, j}] {
						continue
					}
					for _, ri := range byLHS[s] {
						if seqFull(g.Rules[ri].RHS, i, j) {
							full[k3{s, i, j}] = true
							ch = true
							break
						}
					}
				}
			}
		}
	}
	pre := map[key]bool{}
	allProd := func(rhs []int) bool {
		for _, s := range rhs {
			if !prod[s] {
				return false
			}
		}
		return true
	}
	symPre := func(s, i int) bool { // s =>* w[i:n] x, with s productive overall
		if i == n {
			return prod[s]
		}
		if s < g.NT {
			return i+1 == n && w[i] == s
		}
		return pre[key{s, i}]
	}
	var seqPre func(rhs []int, i int) bool
	seqPre = func(rhs []int, i int) bool {
		if i == n {
			return allProd(rhs)
		}
		if len(rhs) == 0 {
			return false
		}
		// first symbol consumes w[i:k] fully and the rest continues, or first symbol swallows the rest
		if symPre(rhs[0], i) && allProd(rhs[1:]) {
			return true
		}
		for k := i; k < n; k++ {
			if symFull(rhs[0], i, k) && seqPre(rhs[1:], k) {
				return true
			}
		}
		return false
	}
	for ch := true; ch; {
		ch = false
		for i := n; i >= 0; i-- {
			for s := g.NT; s < g.NT+g.NN; s++ {
				if pre[key{s, i}] {
					continue
				}
				for _, ri := range byLHS[s] {
					if seqPre(g.Rules[ri].RHS, i) {
						pre[key{s, i}] = true
						ch = true
						break
					}
				}
			}
		}
	}
	return symPre(start, 0)
}

// RandSentence derives a random sentence from `start` (nil, false if the budget is exceeded).
func (g *Gram) RandSentence(r *rand.Rand, start int, maxLen int) ([]int, bool) {
	prod := g.Productive()
	if !prod[start] {
		return nil, false
	}
	// minimal derivation length per symbol to steer toward termination
	const inf = 1 << 20
	minLen := make([]int, g.NT+g.NN)
	for s := range minLen {
		if s < g.NT {
			minLen[s] = 1
		} else {
			minLen[s] = inf
		}
	}
	for ch := true; ch; {
		ch = false
		for _, rl := range g.Rules {
			t := 0
			for _, s := range rl.RHS {
				t += minLen[s]
				if t > inf {
					t = inf
				}
			}
			if t < minLen[rl.LHS] {
				minLen[rl.LHS] = t
				ch = true
			}
		}
	}
	byLHS := map[int][]int{}
	for i, rl := range g.Rules {
		byLHS[rl.LHS] = append(byLHS[rl.LHS], i)
	}
	var out []int
	steps := 0
	var gen func(s int, budget int) bool
	gen = func(s int, budget int) bool {
		steps++
		if steps > 2000 {
			return false
		}
		if s < g.NT {
			out = append(out, s)
			return true
		}
		var cands []int
		for _, ri := range byLHS[s] {
			t := 0
			for _, x := range g.Rules[ri].RHS {
				t += minLen[x]
			}
			if t <= budget {
				cands = append(cands, ri)
			}
		}
		if len(cands) == 0 {
			// take the shortest
			best, bl := -1, inf
			for _, ri := range byLHS[s] {
				t := 0
				for _, x := range g.Rules[ri].RHS {
					t += minLen[x]
				}
				if t < bl {
					best, bl = ri, t
				}
			}
			if best < 0 || bl >= inf {
				return false
			}
			cands = []int{best}
		}
		ri := cands[r.Intn(len(cands))]
		rhs := g.Rules[ri].RHS
		for idx, x := range rhs {
			rest := 0
			for _, y := range rhs[idx+1:] {
				rest += minLen[y]
			}
			before := len(out)
			if !gen(x, budget-rest) {
				return false
			}
			budget -= len(out) - before
		}
		return true
	}
	if !gen(start, maxLen) {
		return nil, false
	}
	if len(out) > 3*maxLen+8 {
		return nil, false
	}
	return out, true
}

// Mutate applies a token-level mutation.
func (g *Gram) Mutate(r *rand.Rand, w []int) []int {
	w = append([]int(nil), w...)
	if g.NT <= 1 {
		return w
	}
	switch k := r.Intn(4); {
	case k == 0 && len(w) > 0: // delete
		i := r.Intn(len(w))
		w = append(w[:i], w[i+1:]...)
	case k == 1: // insert
		i := r.Intn(len(w) + 1)
		w = append(w[:i], append([]int{1 + r.Intn(g.NT-1)}, w[i:]...)...)
	case k == 2 && len(w) > 0: // replace
		w[r.Intn(len(w))] = 1 + r.Intn(g.NT-1)
	case len(w) > 1: // swap
		i := r.Intn(len(w) - 1)
		w[i], w[i+1] = w[i+1], w[i]
	default:
		w = append(w, 1+r.Intn(g.NT-1))
	}
	return w
}

func (g *Gram) RandString(r *rand.Rand, n int) []int {
	w := make([]int, n)
	for i := range w {
		w[i] = 1 + r.Intn(g.NT-1)
	}
	return w
}

// ---- generation ----

type GramCfg struct {
	MaxNT, MaxNN, MaxRules, MaxRHS int
	MultiInput                     bool
	Prec                           bool
	PEmpty                         float64
}

func RandGram(r *rand.Rand, cfg GramCfg) *Gram {
	switch r.Intn(12) {
	case 0:
		return exprGram(r, cfg)
	case 1:
		return listGram(r, cfg)
	case 2:
		if r.Intn(3) == 0 {
			return wideGram(r, cfg)
		}
	}
	g := &Gram{Shape: "random"}
	g.NT = 2 + r.Intn(cfg.MaxNT) // at least one real terminal
	g.NN = 1 + r.Intn(cfg.MaxNN)
	for n := 0; n < g.NN; n++ {
		nr := 1 + r.Intn(cfg.MaxRules)
		for k := 0; k < nr; k++ {
			var rhs []int
			if r.Float64() >= cfg.PEmpty {
				ln := 1 + r.Intn(cfg.MaxRHS)
				for j := 0; j < ln; j++ {
					if r.Intn(100) < 55 {
						rhs = append(rhs, 1+r.Intn(g.NT-1))
					} else {
						rhs = append(rhs, g.NT+r.Intn(g.NN))
					}
				}
			}
			g.Rules = append(g.Rules, GRule{LHS: g.NT + n, RHS: rhs})
		}
	}
	g.finish(r, cfg)
	return g
}

func (g *Gram) finish(r *rand.Rand, cfg GramCfg) {
	g.Inputs = []GInput{{Sym: g.NT, Eoi: true}}
	if cfg.MultiInput {
		switch r.Intn(4) {
		case 0:
			g.Inputs[0].Eoi = false
		case 1:
			if g.NN > 1 {
				g.Inputs = append(g.Inputs, GInput{Sym: g.NT + 1 + r.Intn(g.NN-1), Eoi: r.Intn(2) == 0})
			}
		case 2:
			if g.NN > 2 {
				g.Inputs = append(g.Inputs, GInput{Sym: g.NT + 1, Eoi: true}, GInput{Sym: g.NT + 2, Eoi: false})
			}
		}
	}
	if cfg.Prec && g.NT > 2 && r.Intn(3) != 0 {
		perm := r.Perm(g.NT - 1)
		ng := 1 + r.Intn(3)
		idx := 0
		for k := 0; k < ng && idx < len(perm); k++ {
			p := GPrec{Assoc: r.Intn(3)}
			cnt := 1 + r.Intn(2)
			for c := 0; c < cnt && idx < len(perm); c++ {
				p.Terms = append(p.Terms, 1+perm[idx])
				idx++
			}
			g.Prec = append(g.Prec, p)
		}
		for i := range g.Rules {
			if r.Intn(8) == 0 {
				g.Rules[i].Prec = 1 + r.Intn(g.NT-1)
			}
		}
	}
}

// exprGram: E : E op E | ( E ) | atom, possibly stratified.
func exprGram(r *rand.Rand, cfg GramCfg) *Gram {
	g := &Gram{Shape: "expr"}
	nops := 1 + r.Intn(3)
	g.NT = 1 + nops + 3 // ops, '(' ')' atom
	lp, rp, atom := nops+1, nops+2, nops+3
	if r.Intn(2) == 0 || !cfg.Prec {
		// stratified, unambiguous
		g.NN = nops + 1
		for lvl := 0; lvl < nops; lvl++ {
			e, nx := g.NT+lvl, g.NT+lvl+1
			if r.Intn(2) == 0 {
				g.Rules = append(g.Rules, GRule{LHS: e, RHS: []int{e, 1 + lvl, nx}})
			} else {
				g.Rules = append(g.Rules, GRule{LHS: e, RHS: []int{nx, 1 + lvl, e}})
			}
			g.Rules = append(g.Rules, GRule{LHS: e, RHS: []int{nx}})
		}
		last := g.NT + nops
		g.Rules = append(g.Rules, GRule{LHS: last, RHS: []int{lp, g.NT, rp}}, GRule{LHS: last, RHS: []int{atom}})
	} else {
		g.NN = 1
		e := g.NT
		for op := 1; op <= nops; op++ {
			g.Rules = append(g.Rules, GRule{LHS: e, RHS: []int{e, op, e}})
		}
		if r.Intn(2) == 0 {
			g.Rules = append(g.Rules, GRule{LHS: e, RHS: []int{1, e}}) // unary
		}
		g.Rules = append(g.Rules, GRule{LHS: e, RHS: []int{lp, e, rp}}, GRule{LHS: e, RHS: []int{atom}})
	}
	g.finish(r, cfg)
	return g
}

// listGram: lists with separators, optional trailing parts, nullable elements.
func listGram(r *rand.Rand, cfg GramCfg) *Gram {
	g := &Gram{Shape: "list"}
	g.NT = 5
	g.NN = 3
	s, l, e := g.NT, g.NT+1, g.NT+2
	g.Rules = append(g.Rules, GRule{LHS: s, RHS: []int{1, l, 2}})
	switch r.Intn(3) {
	case 0:
		g.Rules = append(g.Rules, GRule{LHS: l, RHS: []int{l, 3, e}}, GRule{LHS: l, RHS: []int{e}})
	case 1:
		g.Rules = append(g.Rules, GRule{LHS: l, RHS: []int{e, 3, l}}, GRule{LHS: l, RHS: []int{e}})
	default:
		g.Rules = append(g.Rules, GRule{LHS: l, RHS: []int{l, e}}, GRule{LHS: l, RHS: nil})
	}
	g.Rules = append(g.Rules, GRule{LHS: e, RHS: []int{4}})
	if r.Intn(2) == 0 {
		g.Rules = append(g.Rules, GRule{LHS: e, RHS: []int{1, s, 2}})
	}
	if r.Intn(3) == 0 {
		g.Rules = append(g.Rules, GRule{LHS: e, RHS: nil})
	}
	g.finish(r, cfg)
	return g
}

// wideGram: more than 16 states share a transition on one nonterminal and one terminal, so that the
// runtime's gotoState takes its binary-search branch (max-min >= 32).
func wideGram(r *rand.Rand, cfg GramCfg) *Gram {
	g := &Gram{Shape: "wide"}
	k := 17 + r.Intn(6)
	g.NT = 1 + k + 1 // t_1..t_k, z
	z := k + 1
	g.NN = 2
	s, x := g.NT, g.NT+1
	for i := 1; i <= k; i++ {
		rhs := []int{i, x}
		if r.Intn(3) == 0 {
			rhs = append(rhs, i)
		}
		g.Rules = append(g.Rules, GRule{LHS: s, RHS: rhs})
	}
	g.Rules = append(g.Rules, GRule{LHS: x, RHS: []int{z}})
	if r.Intn(2) == 0 {
		g.Rules = append(g.Rules, GRule{LHS: x, RHS: []int{z, x}})
	} else {
		g.Rules = append(g.Rules, GRule{LHS: x, RHS: []int{x, z}})
	}
	g.Inputs = []GInput{{Sym: s, Eoi: true}}
	return g
}

// AllStrings enumerates all terminal strings (without EOI) up to length n in length-lex order.
func (g *Gram) AllStrings(n int, f func(w []int) bool) {
	var w []int
	var rec func(ln int) bool
	rec = func(ln int) bool {
		if len(w) == ln {
			return f(append([]int(nil), w...))
		}
		for t := 1; t < g.NT; t++ {
			w = append(w, t)
			ok := rec(ln)
			w = w[:len(w)-1]
			if !ok {
				return false
			}
		}
		return true
	}
	for ln := 0; ln <= n; ln++ {
		if !rec(ln) {
			return
		}
	}
}
