package main

// C23 — the language server stays consistent under any message history.
//
// Two kinds of cases:
//   - position functions (`dec`, `pos`, `u16`): ls.resolvePosition through the hook /repo/ls/verif_export_c23.go and
//     the standard library (unicode/utf8, unicode/utf16) as independent oracles of the Lean decoder / position spec;
//   - `hist`: the REAL binary (`go build ./cmd/textmapper` in VERIF_REPO) runs `textmapper ls` as a child process and
//     is driven over stdin/stdout with Content-Length framing; the compiler's problems and the identifiers of every
//     content are computed in-process (same code, linked into the harness) and passed to the model as its oracle
//     tables, so that the model only has to mirror ls/server.go.

import (
	"bufio"
	"context"
	"encoding/json"
	"fmt"
	"io"
	"log"
	"os"
	"os/exec"
	"path/filepath"
	"sort"
	"strconv"
	"strings"
	"time"
	"unicode/utf16"
	"unicode/utf8"

	"github.com/inspirer/textmapper/compiler"
	"github.com/inspirer/textmapper/ls"
	"github.com/inspirer/textmapper/parsers/tm"
	"github.com/inspirer/textmapper/status"
)

func init() { props["C23"] = c23 }

// ---------------------------------------------------------------------------------------------
// LSP client over a child process

type lsMsg struct {
	ID     *json.RawMessage `json:"id,omitempty"`
	Method string           `json:"method,omitempty"`
	Params json.RawMessage  `json:"params,omitempty"`
	Result json.RawMessage  `json:"result,omitempty"`
	Error  *struct {
		Code    int    `json:"code"`
		Message string `json:"message"`
	} `json:"error,omitempty"`
}

type lsProc struct {
	cmd  *exec.Cmd
	in   io.WriteCloser
	msgs chan *lsMsg // closed at EOF
}

func startLS(bin string) (*lsProc, error) {
	cmd := exec.Command(bin, "ls")
	cmd.Env = append(os.Environ(), "GOMEMLIMIT=1GiB")
	in, err := cmd.StdinPipe()
	if err != nil {
		return nil, err
	}
	out, err := cmd.StdoutPipe()
	if err != nil {
		return nil, err
	}
	cmd.Stderr = nil // zap development logger writes there; discarded
	if err := cmd.Start(); err != nil {
		return nil, err
	}
	p := &lsProc{cmd: cmd, in: in, msgs: make(chan *lsMsg, 256)}
	go func() {
		defer close(p.msgs)
		r := bufio.NewReaderSize(out, 1<<16)
		for {
			n := -1
			for {
				line, err := r.ReadString('\n')
				if err != nil {
					return
				}
				line = strings.TrimRight(line, "\r\n")
				if line == "" {
					break
				}
				if v, ok := strings.CutPrefix(line, "Content-Length: "); ok {
					n, _ = strconv.Atoi(v)
				}
			}
			if n < 0 || n > 1<<26 {
				return
			}
			body := make([]byte, n)
			if _, err := io.ReadFull(r, body); err != nil {
				return
			}
			var m lsMsg
			if json.Unmarshal(body, &m) != nil {
				return
			}
			p.msgs <- &m
		}
	}()
	return p, nil
}

func (p *lsProc) send(v any) error {
	b, err := json.Marshal(v)
	if err != nil {
		return err
	}
	_, err = fmt.Fprintf(p.in, "Content-Length: %d\r\n\r\n%s", len(b), b)
	return err
}

// recv: (msg, "") | (nil, "eof") | (nil, "timeout")
func (p *lsProc) recv(d time.Duration) (*lsMsg, string) {
	select {
	case m, ok := <-p.msgs:
		if !ok {
			return nil, "eof"
		}
		return m, ""
	case <-time.After(d):
		return nil, "timeout"
	}
}

func (p *lsProc) kill() {
	p.in.Close()
	done := make(chan struct{})
	go func() { p.cmd.Wait(); close(done) }()
	select {
	case <-done:
	case <-time.After(500 * time.Millisecond):
		p.cmd.Process.Kill()
		<-done
	}
}

type obj = map[string]any

func (p *lsProc) initialize() string {
	p.send(obj{"jsonrpc": "2.0", "id": 0, "method": "initialize",
		"params": obj{"workspaceFolders": []obj{{"uri": "file:///w", "name": "w"}}}})
	for {
		m, st := p.recv(30 * time.Second)
		if st != "" {
			return st
		}
		if m.ID != nil && string(*m.ID) == "0" {
			return ""
		}
	}
}

// ---------------------------------------------------------------------------------------------
// histories

type c23Op struct {
	kind     byte // o g x d
	name     int
	variant  int
	version  int32
	contents []int // o: one; g: any number
	line, ch uint32
	// rawURI non-empty: a message about an "odd" document (malformed / exotic URI). Not part of the model's history:
	// whatever the server does with that document, it must stay alive, keep answering, and use exactly this URI.
	rawURI string
}

// c23URI: document `name` of the history that uses directory `dir` (a server process is reused for several
// histories, each in its own directory, so that their documents are distinct files).
func c23URI(dir, name, variant int) string {
	if variant == 1 {
		return fmt.Sprintf("file:///w/h%d/%%64%d.tm", dir, name) // %64 = 'd': same file name, other spelling
	}
	return fmt.Sprintf("file:///w/h%d/d%d.tm", dir, name)
}

func c23ParseURI(dir int, u string) (string, bool) {
	for v := 0; v < 2; v++ {
		for n := 0; n < 8; n++ {
			if c23URI(dir, n, v) == u {
				return fmt.Sprintf("%d.%d", n, v), true
			}
		}
	}
	return "", false
}

// c23Session keeps one server process for a number of histories; a fresh one after a crash or a hang.
type c23Session struct {
	bin   string
	p     *lsProc
	used  int // histories run on p
	dirs  int // directories handed out
	Spawn int
}

func (s *c23Session) close() {
	if s.p != nil {
		s.p.kill()
		s.p = nil
	}
}

// proc returns a live, initialised server (nil when it cannot be started).
func (s *c23Session) proc() *lsProc {
	if s.p != nil && s.used >= 25 {
		s.close()
	}
	if s.p == nil {
		p, err := startLS(s.bin)
		if err != nil {
			return nil
		}
		if p.initialize() != "" {
			p.kill()
			return nil
		}
		s.p, s.used = p, 0
		s.Spawn++
	}
	s.used++
	return s.p
}

type lspPos struct {
	Line      uint32 `json:"line"`
	Character uint32 `json:"character"`
}
type lspRange struct {
	Start lspPos `json:"start"`
	End   lspPos `json:"end"`
}

func c23Ranges(rs []lspRange) string {
	if len(rs) == 0 {
		return "-"
	}
	sort.Slice(rs, func(i, j int) bool {
		a, b := rs[i], rs[j]
		ka := [4]uint32{a.Start.Line, a.Start.Character, a.End.Line, a.End.Character}
		kb := [4]uint32{b.Start.Line, b.Start.Character, b.End.Line, b.End.Character}
		for x := 0; x < 4; x++ {
			if ka[x] != kb[x] {
				return ka[x] < kb[x]
			}
		}
		return false
	})
	parts := make([]string, len(rs))
	for i, r := range rs {
		parts[i] = fmt.Sprintf("%d.%d-%d.%d", r.Start.Line, r.Start.Character, r.End.Line, r.End.Character)
	}
	return strings.Join(parts, ",")
}

func c23ErrEnum(code int, msg string) string {
	switch {
	case strings.Contains(msg, "is not opened"):
		return "notopen"
	case strings.Contains(msg, "does not exist"):
		return "noline"
	case strings.Contains(msg, "between the utf-16"):
		return "midpair"
	case strings.Contains(msg, "invalid column"):
		return "badcol"
	}
	s := strings.Map(func(r rune) rune {
		if r == ' ' || r == '\n' || r == '\r' || r == '\t' {
			return '_'
		}
		return r
	}, msg)
	if len(s) > 60 {
		s = s[:60]
	}
	return fmt.Sprintf("other(%d,%s)", code, s)
}

// runHistory drives a fresh server with the history. Returns the canonical transcript (items in request order) and a
// list of direct protocol violations seen (ordering on the wire).
func c23RunHistory(ss *c23Session, texts []string, ops []c23Op, pipelined bool, timeout time.Duration) (items []string, direct []string) {
	p := ss.proc()
	if p == nil {
		return []string{"NOSTART"}, nil
	}
	ss.dirs++
	dir := ss.dirs
	idBase := dir * 1000
	type wireItem struct {
		pub   string // P item
		defID int    // reply to request of op defID, -1 otherwise
		item  string
	}
	var wire []wireItem
	replies := map[int]string{}
	dead := ""
	syncID := idBase + 999
	defer func() {
		if dead != "" {
			ss.close()
		}
	}()
	odd := map[string]bool{}
	oddPubs := map[string]int{}
	for _, op := range ops {
		if op.rawURI != "" {
			odd[op.rawURI] = true
		}
	}
	handle := func(m *lsMsg) {
		switch {
		case m.Method == "textDocument/publishDiagnostics":
			var prm struct {
				URI         string `json:"uri"`
				Version     uint32 `json:"version"`
				Diagnostics []struct {
					Range lspRange `json:"range"`
				} `json:"diagnostics"`
			}
			json.Unmarshal(m.Params, &prm)
			u, ok := c23ParseURI(dir, prm.URI)
			if !ok {
				if odd[prm.URI] {
					oddPubs[prm.URI]++
					return
				}
				u = "?" + strconv.QuoteToASCII(prm.URI)
			}
			var rs []lspRange
			for _, d := range prm.Diagnostics {
				rs = append(rs, d.Range)
			}
			wire = append(wire, wireItem{pub: fmt.Sprintf("P%s:%d:%s", u, prm.Version, c23Ranges(rs)), defID: -1})
		case m.ID != nil && m.Method == "":
			id, _ := strconv.Atoi(string(*m.ID))
			var it string
			if m.Error != nil {
				it = "E:" + c23ErrEnum(m.Error.Code, m.Error.Message)
			} else {
				var locs []struct {
					URI   string   `json:"uri"`
					Range lspRange `json:"range"`
				}
				json.Unmarshal(m.Result, &locs)
				var rs []lspRange
				u := ""
				for _, l := range locs {
					rs = append(rs, l.Range)
					if x, ok := c23ParseURI(dir, l.URI); ok {
						if u != "" && u != x {
							u = "mixed"
						} else if u == "" {
							u = x
						}
					} else {
						u = "?" + l.URI
					}
				}
				it = fmt.Sprintf("L%s:%s", u, c23Ranges(rs)) // "L:-" for an empty list: no URI on the wire
			}
			replies[id] = it
			wire = append(wire, wireItem{defID: id, item: it})
		}
	}
	// wait until `cond` holds; false when the server died or hung
	waitFor := func(cond func() bool) bool {
		deadline := time.Now().Add(timeout)
		for !cond() {
			m, st := p.recv(time.Until(deadline))
			if st == "eof" {
				dead = "CRASH"
				return false
			}
			if st == "timeout" {
				dead = "HANG"
				return false
			}
			handle(m)
		}
		return true
	}
	pubs := 0 // publishes expected so far
	countPubs := func() int {
		n := 0
		for _, w := range wire {
			if w.pub != "" {
				n++
			}
		}
		return n
	}
	for i, op := range ops {
		uri := c23URI(dir, op.name, op.variant)
		if op.rawURI != "" {
			uri = op.rawURI
		}
		var msg obj
		switch op.kind {
		case 'o':
			msg = obj{"jsonrpc": "2.0", "method": "textDocument/didOpen", "params": obj{"textDocument": obj{
				"uri": uri, "languageId": "tm", "version": op.version, "text": texts[op.contents[0]]}}}
			if op.rawURI == "" {
				pubs++
			}
		case 'g':
			ch := []obj{}
			for _, c := range op.contents {
				ch = append(ch, obj{"text": texts[c]})
			}
			msg = obj{"jsonrpc": "2.0", "method": "textDocument/didChange", "params": obj{
				"textDocument": obj{"uri": uri, "version": op.version}, "contentChanges": ch}}
			if len(op.contents) > 0 && op.rawURI == "" {
				pubs++
			}
		case 'x':
			msg = obj{"jsonrpc": "2.0", "method": "textDocument/didClose", "params": obj{"textDocument": obj{"uri": uri}}}
		case 'd':
			msg = obj{"jsonrpc": "2.0", "id": idBase + i + 1, "method": "textDocument/definition", "params": obj{
				"textDocument": obj{"uri": uri}, "position": obj{"line": op.line, "character": op.ch}}}
		}
		if p.send(msg) != nil {
			dead = "CRASH"
			break
		}
		if !pipelined {
			ok := true
			switch op.kind {
			case 'o', 'g':
				if op.rawURI != "" {
					break // no particular answer is required for an odd document
				}
				want := pubs
				ok = waitFor(func() bool { return countPubs() >= want })
			case 'd':
				id := idBase + i + 1
				ok = waitFor(func() bool { _, f := replies[id]; return f })
			}
			if !ok {
				break
			}
		}
	}
	if dead == "" {
		// sync: a request behind everything else; once it and all other requests are answered every notification
		// of the history has been written
		p.send(obj{"jsonrpc": "2.0", "id": syncID, "method": "textDocument/definition", "params": obj{
			"textDocument": obj{"uri": "file:///w/sync.tm"}, "position": obj{"line": 0, "character": 0}}})
		waitFor(func() bool {
			if _, f := replies[syncID]; !f {
				return false
			}
			for i, op := range ops {
				if op.kind == 'd' {
					if _, f := replies[idBase+i+1]; !f {
						return false
					}
				}
			}
			return true
		})
	}
	// canonical transcript in request order
	var pubQueue []string
	for _, w := range wire {
		if w.pub != "" {
			pubQueue = append(pubQueue, w.pub)
		}
	}
	for i, op := range ops {
		if op.rawURI != "" {
			if _, ok := replies[idBase+i+1]; op.kind == 'd' && !ok && dead == "" {
				direct = append(direct, "no reply to textDocument/definition for the document "+strconv.QuoteToASCII(op.rawURI))
			}
			continue
		}
		switch op.kind {
		case 'o', 'g':
			if op.kind == 'g' && len(op.contents) == 0 {
				continue
			}
			if len(pubQueue) > 0 {
				items = append(items, pubQueue[0])
				pubQueue = pubQueue[1:]
			} else if dead == "" {
				items = append(items, "P:missing")
			}
		case 'd':
			if r, ok := replies[idBase+i+1]; ok {
				items = append(items, r)
			} else if dead == "" {
				items = append(items, "E:noreply")
			}
		}
	}
	for _, x := range pubQueue {
		items = append(items, "extra:"+x)
	}
	if dead != "" {
		items = append(items, dead)
	}
	// direct oracle on the wire order: the reply to request k comes after the notifications of all requests before k
	pubOp := []int{} // op index of the n-th publishing request
	for i, op := range ops {
		if op.rawURI == "" && (op.kind == 'o' || (op.kind == 'g' && len(op.contents) > 0)) {
			pubOp = append(pubOp, i)
		}
	}
	seenPubs := 0
	for _, w := range wire {
		if w.pub != "" {
			seenPubs++
			continue
		}
		if w.defID == syncID {
			if seenPubs < len(pubOp) && dead == "" {
				direct = append(direct, fmt.Sprintf("the reply to the last request was written before %d publishDiagnostics of earlier requests", len(pubOp)-seenPubs))
			}
			continue
		}
		need := 0
		for _, po := range pubOp {
			if po < w.defID-idBase-1 {
				need++
			}
		}
		if seenPubs < need {
			direct = append(direct, fmt.Sprintf("the reply to request %d was written before the publishDiagnostics of an earlier request", w.defID-idBase-1))
		}
	}
	return items, direct
}

// ---------------------------------------------------------------------------------------------
// oracle tables: what the compiler / parser say about a content (real code, in-process)

type c23Entry struct {
	text     string
	problems string // protocol form
	ids      string
	ident    []ls.VerifID
	syntax   bool // compile ends in a tm.SyntaxError
	unsafe   bool // a problem or identifier has non-ASCII text on its line up to its end
	nProb    int
	panicked string // compiler.Compile / the parser panicked in-process on this text
	family   string
}

func c23Analyse(text string) (e c23Entry) {
	e.text = text
	defer func() {
		if r := recover(); r != nil {
			e.problems, e.ids = "_", "_"
			e.panicked = fmt.Sprint(r)
		}
	}()
	ctx := context.Background()
	_, err := compiler.Compile(ctx, "/w/a.tm", text, compiler.Params{CheckOnly: true, Verbose: true})
	lineUnsafe := func(off, end int) bool {
		if off < 0 || off > len(text) || end > len(text) || end < off {
			return true
		}
		start := strings.LastIndexByte(text[:off], '\n') + 1
		stop := end
		if nl := strings.IndexByte(text[off:end], '\n'); nl >= 0 {
			stop = off + nl
		}
		for i := start; i < stop; i++ {
			if text[i] >= 0x80 {
				return true
			}
		}
		return false
	}
	var ps []string
	if se, ok := err.(tm.SyntaxError); ok {
		e.syntax = true
		ps = append(ps, fmt.Sprintf("y:%d:%d", se.Offset, se.Endoffset))
		if lineUnsafe(se.Offset, se.Endoffset) {
			e.unsafe = true
		}
	} else {
		for _, p := range status.FromError(err) {
			o := p.Origin
			ps = append(ps, fmt.Sprintf("s:%d:%d:%d:%d", o.Offset, o.EndOffset, o.Line, o.Column))
			if lineUnsafe(o.Offset, o.EndOffset) {
				e.unsafe = true
			}
		}
	}
	e.nProb = len(ps)
	e.problems = "_"
	if len(ps) > 0 {
		e.problems = strings.Join(ps, ";")
	}
	e.ident = ls.VerifCollectIDs(ctx, "/w/a.tm", text)
	var is []string
	for _, id := range e.ident {
		is = append(is, fmt.Sprintf("%d:%d:%d:%s:%d:%d", id.Offset, id.Endoffset, id.Kind, b2s(id.Decl), id.Line, id.Column))
		if id.Kind > 0 && lineUnsafe(id.Offset, id.Endoffset) {
			e.unsafe = true
		}
	}
	e.ids = "_"
	if len(is) > 0 {
		e.ids = strings.Join(is, ";")
	}
	return e
}

// ---------------------------------------------------------------------------------------------
// generators

var c23NonASCII = []string{"é", "ж", "€", "日本", "😀", "𝒳", "é😀é", "\xff", "\xc3", "\xe2\x82", "\xed\xa0\x80"}

type c23Gen struct {
	c           *Ctx
	allowBefore bool // non-ASCII text in front of identifiers / problems on the same line
	allowSyntax bool
	corpus      []string
}

func (g *c23Gen) pick(l []string) string { return l[g.c.Rng.Intn(len(l))] }

func (g *c23Gen) comment(inline bool) string {
	r := g.c.Rng
	txt := g.pick([]string{"note", "x y", "", "TODO"})
	if r.Intn(3) > 0 {
		txt += " " + g.pick(c23NonASCII)
		if r.Intn(3) == 0 {
			txt += g.pick(c23NonASCII)
		}
	}
	if inline {
		return "/* " + strings.ReplaceAll(txt, "*/", "") + " */"
	}
	return "# " + txt
}

// grammar produces a small textmapper grammar: mostly valid, with optional semantic errors (undefined reference,
// redeclaration, missing %input), optional syntax errors and comments / quoted tokens with non-ASCII text.
func (g *c23Gen) grammar() string {
	r := g.c.Rng
	nl := "\n"
	if r.Intn(6) == 0 {
		nl = "\r\n"
	}
	var sb strings.Builder
	line := func(s string) {
		sb.WriteString(s)
		if r.Intn(4) == 0 {
			sb.WriteString(" " + g.comment(false)) // trailing comment: behind everything on the line
		}
		sb.WriteString(nl)
	}
	inl := func() string { // inline comment in front of what follows on the line
		if g.allowBefore && r.Intn(4) == 0 {
			return g.comment(true) + " "
		}
		return ""
	}
	if r.Intn(5) == 0 {
		line(g.comment(false))
	}
	line("language l(go);")
	if r.Intn(3) == 0 {
		line("")
	}
	line(":: lexer")
	toks := []string{"a", "b", "c", "id", "num"}
	r.Shuffle(len(toks), func(i, j int) { toks[i], toks[j] = toks[j], toks[i] })
	toks = toks[:2+r.Intn(3)]
	if g.allowBefore && r.Intn(4) == 0 {
		toks = append(toks, g.pick([]string{"'é'", "'€'", "'😀'"}))
	} else if r.Intn(4) == 0 {
		toks = append(toks, g.pick([]string{"'x'", "'+'"}))
	}
	for _, t := range toks {
		re := strings.Trim(t, "'")
		if re == "+" {
			re = `\+`
		}
		if t == "id" {
			re = "[a-z]+"
		}
		if t == "num" {
			re = "[0-9]+"
		}
		line(inl() + t + ": /" + re + "/")
		if r.Intn(6) == 0 {
			line(g.comment(false))
		}
	}
	if r.Intn(8) == 0 {
		line(toks[0] + ": /zz/") // redeclared token
	}
	line(":: parser")
	nts := []string{"S", "T", "U"}[:1+r.Intn(3)]
	if r.Intn(6) > 0 {
		line("%input " + nts[0] + ";")
	}
	if r.Intn(5) == 0 {
		line("")
	}
	syms := append(append([]string{}, toks...), nts...)
	synErr := g.allowSyntax && r.Intn(4) == 0
	synAt := r.Intn(len(nts))
	for ni, nt := range nts {
		var alts []string
		for a := 0; a < 1+r.Intn(3); a++ {
			var seq []string
			for k := 0; k < r.Intn(4); k++ {
				s := g.pick(syms)
				if r.Intn(9) == 0 {
					s = g.pick([]string{"nosuch", "zzz", "Undefined"})
				}
				seq = append(seq, inl()+s)
			}
			alts = append(alts, strings.Join(seq, " "))
		}
		body := nt + ": " + strings.Join(alts, " | ")
		switch {
		case synErr && ni == synAt:
			body = g.pick([]string{body + " :", body + " )", nt + " " + strings.Join(alts, " | "), body + " | | ]"}) + " ;"
		default:
			body += " ;"
		}
		line(body)
		if r.Intn(7) == 0 {
			line(nt + ": " + g.pick(syms) + " ;") // redeclaration
		}
	}
	if r.Intn(10) == 0 {
		return strings.TrimRight(sb.String(), "\r\n") // no final newline
	}
	return sb.String()
}

// ---- richer documents: contents for which typecheck runs the deeper compiler paths (LALR conflicts with and
// without precedence, no-eoi inputs, lalr(k), templates, lookaheads, sets) ----

// randTM: the shared random context-free grammar family (gram.go) rendered as .tm text.
func (g *c23Gen) randTM() string {
	r := g.c.Rng
	gr := RandGram(r, GramCfg{MaxNT: 4, MaxNN: 4, MaxRules: 3, MaxRHS: 3, MultiInput: true, Prec: true, PEmpty: 0.15})
	if r.Intn(3) == 0 {
		for i := range gr.Inputs { // conflicts reachable from no-eoi inputs
			gr.Inputs[i].Eoi = false
		}
	}
	o := TMOpts{Space: r.Intn(2) == 0, Recovering: r.Intn(6) == 0, Markers: r.Intn(6) == 0, ArrowPerRule: r.Intn(5) == 0}
	if r.Intn(5) == 0 {
		o.K = 2
	}
	if r.Intn(6) == 0 {
		o.ExpectSR = 1 + r.Intn(2)
	}
	if r.Intn(8) == 0 {
		o.ExpectRR = 1
	}
	return gr.TM("l", o)
}

// conflictTM: hand-written conflict shapes (reduce/reduce, dangling else, ambiguous expression with partial
// precedence), each under an eoi / no-eoi / double input.
func (g *c23Gen) conflictTM() string {
	r := g.c.Rng
	input := g.pick([]string{"%input S;\n", "%input S no-eoi;\n", "%input S no-eoi, S;\n", "%input S, T no-eoi;\n", ""})
	body := g.pick([]string{
		"S: A | B ;\nA: x ;\nB: x ;\nT: S y ;\n",
		"S: A y | B y | A ;\nA: x ;\nB: x ;\nT: x ;\n",
		"S: i S | i S e S | x ;\nT: S ;\n",
		"S: S p S | S m S | x ;\nT: S y ;\n",
		"%left p;\nS: S p S | S m S | x ;\nT: S ;\n",
		"%left p;\n%left m;\nS: S p S | S m S | x | y %prec m ;\nT: S ;\n",
		"%nonassoc p;\nS: S p S | x ;\nT: S S ;\n",
		"S: A B ;\nA: x | ;\nB: x | ;\nT: A A ;\n",
		"S: T x | T y ;\nT: | T x ;\n",
		"S: x+ x* ;\nT: (x y)* x? ;\n",
		"S: (x separator y)+ | x y ;\nT: S ;\n",
	})
	if r.Intn(4) == 0 {
		body = "%expect " + strconv.Itoa(r.Intn(3)) + ";\n" + body
	}
	return "language l(go);\n:: lexer\nx: /x/\ny: /y/\ni: /i/\ne: /e/\np: /\\+/\nm: /-/\n:: parser\n" + input + body
}

// featureTM: templates, lookaheads, sets, interfaces, arrows, lexer states.
func (g *c23Gen) featureTM() string {
	return g.pick([]string{
		"language l(go);\n:: lexer\nx: /x/\ny: /y/\n:: parser\n%flag F;\n%input S;\nS: T<+F> | T<~F> ;\nT<F>: [F] x | [!F] y | x y ;\n",
		"language l(go);\n:: lexer\nx: /x/\ny: /y/\n:: parser\n%flag F = true;\n%lookahead flag G;\n%input S no-eoi;\nS: T<+G> x | T ;\nT<G>: [G] x | y ;\n",
		"language l(go);\n:: lexer\nx: /x/\ny: /y/\n:: parser\n%input S;\nS: (?= A) x y | (?= !A) x ;\nA: x y ;\n",
		"language l(go);\n:: lexer\nx: /x/\ny: /y/\n:: parser\n%input S;\nS: (?= A & !B) x | (?= B) x ;\nA: x x ;\nB: x y ;\n",
		"language l(go);\n:: lexer\nx: /x/\ny: /y/\nz: /z/\n:: parser\n%input S;\n%generate afterX = set(follow x);\nS: x set(first T) | T ;\nT: y | z ;\n",
		"language l(go);\neventBased = true\n:: lexer\nx: /x/\ny: /y/\n:: parser\n%input S;\n%interface I;\nS -> Root: T+ ;\nT -> Item/I: x -> X | y ;\n",
		"language l(go);\n:: lexer\n%s initial, other;\nx: /x/ { l.State = StateOther }\n<other> y: /y/\n<*> z: /z/\n:: parser\n%input S;\nS: x y z ;\n",
		"language l(go);\n:: lexer\nx: /x/\nid: /[a-z]+/ (class)\nkw: /kw/\n:: parser\n%input S no-eoi;\nS: x .mark id | kw ;\n%assert empty set(first S & kw);\n",
		"language l(go);\n:: lexer\nx: /x/\ny: /y/\n:: parser lalr(2)\n%input S;\nS: A x y | B x x ;\nA: ;\nB: ;\n",
		"language l(go);\n:: lexer\nx: /x/\ny: /y/\n:: parser\n%input S;\nS: A ;\nA: B ;\nB: A | x ;\n",
		"language l(go);\n:: lexer\nx: /x/\nerror:\n:: parser\n%input S;\nS: x error | error x ;\n",
		"language l(go);\n:: lexer\nx: /x/\n:: parser\n%input S;\ninline S: x ;\n",
	})
}

// corpusTM: the grammars of /repo's own compiler test data (expected-output part and error markers removed),
// optionally with their inputs turned into no-eoi inputs.
func (g *c23Gen) corpusTM() string {
	r := g.c.Rng
	if g.corpus == nil {
		repo := os.Getenv("VERIF_REPO")
		if repo == "" {
			repo = "/repo"
		}
		files, _ := filepath.Glob(filepath.Join(repo, "compiler", "testdata", "*.tm*"))
		sort.Strings(files)
		for _, f := range files {
			b, err := os.ReadFile(f)
			if err != nil || len(b) > 40000 {
				continue
			}
			t := string(b)
			if i := strings.Index(t, "\n%%"); i >= 0 {
				t = t[:i+1]
			}
			t = strings.NewReplacer("«", "", "»", "").Replace(t)
			g.corpus = append(g.corpus, t)
		}
		if len(g.corpus) == 0 {
			g.corpus = []string{"language l(go);\n"}
		}
	}
	t := g.corpus[r.Intn(len(g.corpus))]
	if r.Intn(3) == 0 {
		if i := strings.Index(t, "%input "); i >= 0 {
			if j := strings.Index(t[i:], ";"); j >= 0 && !strings.Contains(t[i:i+j], "no-eoi") {
				t = t[:i+j] + " no-eoi" + t[i+j:]
			}
		} else if i := strings.Index(t, "\ninput"); i >= 0 {
			t = t[:i+1] + "%input input no-eoi;\n" + t[i+1:]
		}
	}
	return t
}

// bigTM: a valid grammar that takes noticeably longer to compile than a small one.
func c23BigTM(n, salt int) string {
	var b strings.Builder
	fmt.Fprintf(&b, "language big(go);\n# %d\n:: lexer\n", salt)
	for i := 0; i < n; i++ {
		fmt.Fprintf(&b, "tok%d: /kw%d[a-z]*x%d/\n", i, i, i)
	}
	b.WriteString(":: parser\n%input input;\ninput: item+ ;\nitem:\n")
	for i := 0; i < n; i++ {
		sep := "|"
		if i == 0 {
			sep = " "
		}
		fmt.Fprintf(&b, "  %s rule%d\n", sep, i)
	}
	b.WriteString(";\n")
	for i := 0; i < n; i++ {
		fmt.Fprintf(&b, "rule%d: tok%d tok%d? (tok%d | tok%d)+ ;\n", i, i, (i+1)%n, (i+2)%n, (i+3)%n)
	}
	return b.String()
}

func c23Utf16(s string) int { return len(utf16.Encode([]rune(s))) }

// position of a byte offset as the protocol wants it (independent oracle: unicode/utf16)
func c23PosOf(text string, off int) (uint32, uint32) {
	line := strings.Count(text[:off], "\n")
	start := strings.LastIndexByte(text[:off], '\n') + 1
	return uint32(line), uint32(c23Utf16(text[start:off]))
}

// rune boundaries of the line containing offsets >= start (start = a line start), the way `range` sees the content
func c23Boundaries(text string, start int) []int {
	ret := []int{start}
	i := start
	for i < len(text) {
		r, w := utf8.DecodeRuneInString(text[i:])
		if r == '\n' {
			break
		}
		i += w
		ret = append(ret, i)
	}
	return ret
}

// ---------------------------------------------------------------------------------------------

func c23BuildServer(c *Ctx) (string, error) {
	repo := os.Getenv("VERIF_REPO")
	if repo == "" {
		repo = "/repo"
	}
	dir, err := os.MkdirTemp("", "c23-ls-")
	if err != nil {
		return "", err
	}
	bin := filepath.Join(dir, "textmapper")
	cmd := exec.Command("go", "build", "-o", bin, "./cmd/textmapper")
	cmd.Dir = repo
	cmd.Env = append(os.Environ(), "GOFLAGS=-mod=mod", "GOPROXY=off")
	out, err := cmd.CombinedOutput()
	if err != nil {
		os.RemoveAll(dir)
		return "", fmt.Errorf("go build ./cmd/textmapper in %s: %v\n%s", repo, err, out)
	}
	return bin, nil
}

const c23ProbeDoc = "language l(go);\n:: lexer\na: /a/\n:: parser\n%input S;\nS: a /* ééé */ nosuch ;\n"
const c23ProbeSyn = "language l(go);\n:: lexer\na: /a/\n:: parser\n%input S;\nS: a a: ;\n"

type c23Mode struct{ diagUtf16, locUtf16, synFixed, emptyIgnored, nonFileOK bool }

func (m c23Mode) String() string {
	return b2s(m.diagUtf16) + b2s(m.locUtf16) + b2s(m.synFixed) + b2s(m.emptyIgnored)
}

// probes the known defects on the real server; reports each one that is present (stable token in the input text)
func c23Probe(c *Ctx, bin string) (m c23Mode) {
	to := 30 * time.Second
	ss := &c23Session{bin: bin}
	defer ss.close()
	texts := []string{c23ProbeDoc, c23ProbeSyn}
	// 1+2: byte columns in diagnostics and in locations (UTF-16 position of `nosuch` is 5:15, its byte column is 18)
	items, _ := c23RunHistory(ss, texts, []c23Op{
		{kind: 'o', name: 0, version: 1, contents: []int{0}},
		{kind: 'd', name: 0, line: 5, ch: 16},
	}, false, to)
	got := strings.Join(items, " ")
	m.diagUtf16 = len(items) > 0 && items[0] == "P0.0:1:5.15-5.21"
	m.locUtf16 = len(items) > 1 && items[1] == "L0.0:5.15-5.21"
	if !m.diagUtf16 || !m.locUtf16 {
		what := "C23-byte-columns: outgoing positions are byte columns, the protocol counts UTF-16 code units: for the line `S: a /* ééé */ nosuch ;` "
		if !m.diagUtf16 {
			what += "the diagnostic for `nosuch` must be published at 5:15-5:21; "
		}
		if !m.locUtf16 {
			what += "the definition reply for `nosuch` (asked at 5:16) must be 5:15-5:21; "
		}
		c.Violate(what+"server answered: "+got, "C23-byte-columns didOpen "+strconv.Quote(c23ProbeDoc)+" definition 5:16")
	}
	// 3: syntax error range
	items, _ = c23RunHistory(ss, texts, []c23Op{{kind: 'o', name: 0, version: 1, contents: []int{1}}}, false, to)
	got = strings.Join(items, " ")
	m.synFixed = len(items) > 0 && items[0] == "P0.0:1:5.6-5.7"
	if !m.synFixed {
		c.Violate("C23-syntax-error-range: the diagnostic of a syntax error (`S: a a: ;`, the second `:` at 5:6) lies outside the document: server answered "+got,
			"C23-syntax-error-range didOpen "+strconv.Quote(c23ProbeSyn))
	}
	// 4: empty change list
	items, _ = c23RunHistory(ss, texts, []c23Op{
		{kind: 'o', name: 0, version: 1, contents: []int{0}},
		{kind: 'g', name: 0, version: 2, contents: nil},
		{kind: 'd', name: 0, line: 2, ch: 0},
	}, false, to)
	got = strings.Join(items, " ")
	m.emptyIgnored = len(items) == 2 && !strings.Contains(got, "CRASH") && !strings.Contains(got, "HANG")
	if !m.emptyIgnored {
		c.Violate("C23-empty-change: a textDocument/didChange notification with an empty contentChanges array terminates the server (transcript: "+got+")",
			"C23-empty-change didOpen d0 v1; didChange d0 v2 contentChanges=[]; definition d0 2:0")
	}
	// 5: a document that is not a file (e.g. an unsaved editor buffer)
	ss.close()
	p, err := startLS(bin)
	if err == nil {
		if p.initialize() == "" {
			p.send(obj{"jsonrpc": "2.0", "method": "textDocument/didOpen", "params": obj{"textDocument": obj{
				"uri": "untitled:Untitled-1", "languageId": "tm", "version": 1, "text": c23ProbeDoc}}})
			p.send(obj{"jsonrpc": "2.0", "id": 7, "method": "textDocument/definition", "params": obj{
				"textDocument": obj{"uri": "file:///w/sync.tm"}, "position": obj{"line": 0, "character": 0}}})
			deadline := time.Now().Add(to)
			for {
				msg, st := p.recv(time.Until(deadline))
				if st != "" {
					m.nonFileOK = false
					c.Violate("C23-nonfile-uri: textDocument/didOpen of a document whose URI is not a file URI (`untitled:Untitled-1`, an unsaved editor buffer) terminates the server ("+st+")",
						"C23-nonfile-uri didOpen untitled:Untitled-1")
					break
				}
				if msg.ID != nil && string(*msg.ID) == "7" {
					m.nonFileOK = true
					break
				}
			}
		}
		p.kill()
	}
	return m
}

func c23(c *Ctx) {
	log.SetOutput(io.Discard) // the compiler logs expansion warnings
	bin, err := c23BuildServer(c)
	if err != nil {
		fmt.Fprintln(os.Stderr, err)
		os.Exit(3)
	}
	defer os.RemoveAll(filepath.Dir(bin))
	mode := c23Probe(c, bin)
	c.Extra["mode(diagUtf16,locUtf16,synFixed,emptyIgnored)"] = mode.String()
	c.Extra["nonfile_uri_survives"] = mode.nonFileOK
	c.Rule = "positions: contents over ASCII / 2-,3-,4-byte runes / invalid UTF-8 / CRLF / empty lines; every rune boundary round-trips " +
		"through ls.resolvePosition (hook) and random (line, character) pairs incl. past the end and inside surrogate pairs; decoder against unicode/utf8. " +
		"histories: the real `textmapper ls` child process (built from VERIF_REPO) gets initialize and 3..14 didOpen/didChange/didClose/definition messages " +
		"over 1..3 documents (two URI spellings per file, stale/negative versions, never-opened files, multi-entry change lists), pipelined or step by step; " +
		"texts are generated grammars (valid, undefined references, redeclarations, missing %input, syntax errors, comments and quoted tokens with non-ASCII text), " +
		"the shared random-CFG family rendered as .tm (conflicts, precedence, multiple and no-eoi inputs, lalr(2), markers, %expect), hand-written conflict shapes under eoi/no-eoi inputs, " +
		"messages about documents with malformed / exotic URIs (bad percent escapes, spaces and control characters, bad hosts, `file:` without slashes, empty, " +
		"very long, other schemes, Windows drive forms, percent-encoded and raw Unicode; a sweep over the whole pool plus random insertions): the server must stay alive, " +
		"answer every request and publish only under URIs the client used (a killing URI is reported as C23-killer-uri); " +
		"template/lookahead/set/interface/lexer-state grammars, the grammars of /repo/compiler/testdata (optionally turned no-eoi) and big grammars; every 8th history is a burst " +
		"open small / change BIG / change small … on one document (size asymmetry); a server that dies or hangs is re-run per document and reported with the killing text; " +
		"problems and identifiers of each text come from the real compiler/parser in-process. non-trivial = at least one publish and one definition on an open document; distinct by history."
	var avoided []string
	if !mode.diagUtf16 || !mode.locUtf16 {
		avoided = append(avoided, "non-ASCII text on the line of a problem/identifier in front of or inside its range (byte columns, C23-byte-columns)")
	}
	if !mode.synFixed {
		avoided = append(avoided, "texts with a syntax error (C23-syntax-error-range)")
	}
	if !mode.emptyIgnored {
		avoided = append(avoided, "empty contentChanges (C23-empty-change)")
	}
	if len(avoided) > 0 {
		c.Rule += " AVOIDED CLASSES (defect present on the probed server, reported once as a violation): " + strings.Join(avoided, "; ") + "."
	}
	c23Positions(c)
	c23Histories(c, bin, mode)
}

// ---------------------------------------------------------------------------------------------
// position cases

func c23Positions(c *Ctx) {
	r := c.Rng
	// decoder: all single bytes, 2-byte strings (all in thorough, sampled in quick), sampled 3- and 4-byte strings
	dec := func(b []byte) {
		ru, w := utf8.DecodeRune(b)
		c.Count("dec")
		c.Case("dec "+hexs(b), fmt.Sprintf("%d %d", ru, w), "")
	}
	dec(nil)
	for b := 0; b < 256; b++ {
		dec([]byte{byte(b)})
	}
	interesting := []byte{0x00, 0x0a, 0x7f, 0x80, 0x8f, 0x90, 0x9f, 0xa0, 0xbf, 0xc0, 0xc1, 0xc2, 0xdf, 0xe0, 0xe1, 0xec, 0xed, 0xee, 0xef, 0xf0, 0xf1, 0xf3, 0xf4, 0xf5, 0xff}
	pickByte := func() byte {
		if r.Intn(3) == 0 {
			return byte(r.Intn(256))
		}
		return interesting[r.Intn(len(interesting))]
	}
	if c.Tier == "thorough" {
		for a := 0x80; a < 256; a++ {
			for b := 0; b < 256; b++ {
				dec([]byte{byte(a), byte(b)})
			}
		}
	}
	for i := 0; i < c.N(3000, 40000); i++ {
		n := 2 + r.Intn(4)
		b := make([]byte, n)
		for k := range b {
			b[k] = pickByte()
		}
		dec(b)
	}
	// contents
	pieces := []string{"a", "b", " ", "x1", "\n", "\n", "\r\n", "é", "ж", "€", "日", "😀", "𝒳", "\xff", "\xc3", "\xe2\x82", "\xed\xa0\x80", "\xf0\x9f", "\n\n", ""}
	n := c.N(250, 8000)
	for i := 0; i < n; i++ {
		var sb strings.Builder
		for k := r.Intn(12); k > 0; k-- {
			sb.WriteString(pieces[r.Intn(len(pieces))])
		}
		text := sb.String()
		hex := hexs([]byte(text))
		posCase := func(line, ch uint32, key string) {
			var ans string
			func() {
				defer func() {
					if recover() != nil {
						ans = "panic"
					}
				}()
				off, err := ls.VerifResolvePosition(text, line, ch)
				if err != nil {
					ans = "err " + c23ErrEnum(0, err.Error())
				} else {
					ans = fmt.Sprintf("ok %d", off)
				}
			}()
			c.Case(fmt.Sprintf("pos %s %d %d", hex, line, ch), ans, key)
		}
		// every rune boundary of every line: spec position (unicode/utf16), Lean utf16Pos, round trip through the hook
		start := 0
		nonASCII := false
		for {
			for _, off := range c23Boundaries(text, start) {
				l, ch := c23PosOf(text, off)
				c.Count("u16")
				c.Case(fmt.Sprintf("u16 %s %d", hex, off), fmt.Sprintf("%d %d", l, ch), "")
				got, err := ls.VerifResolvePosition(text, l, ch)
				if err != nil || got != off {
					c.Violate(fmt.Sprintf("resolvePosition does not invert the UTF-16 position %d:%d of the rune boundary %d (got %d, %v)", l, ch, off, got, err),
						fmt.Sprintf("pos %s %d %d", hex, l, ch))
				}
				key := ""
				if int(ch) != off-start {
					nonASCII = true
					key = fmt.Sprintf("%s@%d", hex, off)
				}
				c.Count("pos boundary")
				posCase(l, ch, key)
				// one column further: inside a pair, on the next rune, or past the end of the line
				c.Count("pos boundary+1")
				posCase(l, ch+1, "")
			}
			nl := strings.IndexByte(text[start:], '\n')
			if nl < 0 {
				break
			}
			start += nl + 1
		}
		lines := uint32(strings.Count(text, "\n"))
		for k := 0; k < 4; k++ {
			c.Count("pos random")
			key := ""
			if nonASCII {
				key = fmt.Sprintf("%s r%d", hex, k)
			}
			posCase(uint32(r.Intn(int(lines)+3)), uint32(r.Intn(14)), key)
		}
		// arbitrary offsets (also inside runes): the specification function itself against unicode/utf16
		if len(text) > 0 {
			off := r.Intn(len(text) + 1)
			l, ch := c23PosOf(text, off)
			c.Count("u16")
			c.Case(fmt.Sprintf("u16 %s %d", hex, off), fmt.Sprintf("%d %d", l, ch), "")
		}
	}
}

// ---------------------------------------------------------------------------------------------
// history cases

func c23Histories(c *Ctx, bin string, mode c23Mode) {
	r := c.Rng
	ss := &c23Session{bin: bin}
	defer ss.close()
	defer func() { c.Extra["server_processes"] = ss.Spawn }()
	n := c.N(110, 5000)
	timeout := 30 * time.Second
	byteCols := !mode.diagUtf16 || !mode.locUtf16
	gen := &c23Gen{c: c, allowBefore: !byteCols, allowSyntax: mode.synFixed}
	// the mirror of the crash (only while the defect is there): tie the model's `none` to the real process death
	if !mode.emptyIgnored {
		e := c23Analyse(c23ProbeDoc)
		ops := []c23Op{{kind: 'o', name: 0, version: 1, contents: []int{0}}, {kind: 'g', name: 0, version: 2}, {kind: 'd', name: 0, line: 2, ch: 0}}
		items, _ := c23RunHistory(ss, []string{e.text}, ops, true, timeout)
		c.Count("hist empty-change witness (defect mirror)")
		c.Case(c23Line(mode, []c23Entry{e}, ops), strings.Join(append([]string{"wf=1"}, items...), " "), "")
	}
	// sweep: every odd URI at least once per run (open / definition / change / close), between messages about a
	// normal document whose answers are compared with the model
	{
		e := c23Analyse("language l(go);\n:: lexer\nx: /x/\n:: parser\n%input S;\nS: x nosuch ;\n")
		nURIs := len(c23OddURIs(0))
		for from := 0; from < nURIs; from += 8 {
			pool := c23OddURIs(ss.dirs + 1)
			ops := []c23Op{{kind: 'o', name: 0, version: 1, contents: []int{0}}}
			var used []string
			for k := from; k < from+8 && k < nURIs; k++ {
				u := pool[k]
				used = append(used, u)
				ops = append(ops, c23Op{kind: 'o', rawURI: u, version: 1, contents: []int{0}}, c23Op{kind: 'd', rawURI: u, line: 5, ch: 3},
					c23Op{kind: 'g', rawURI: u, version: 2, contents: []int{0}}, c23Op{kind: 'x', rawURI: u},
					c23Op{kind: 'g', name: 0, version: int32(k + 2), contents: []int{0}})
				c.Count("op on an odd URI")
			}
			ops = append(ops, c23Op{kind: 'd', name: 0, line: 5, ch: 5})
			items, direct := c23RunHistory(ss, []string{e.text}, ops, from%16 == 0, timeout)
			line := c23Line(mode, []c23Entry{e}, ops)
			for _, d := range direct {
				c.Violate(d, line)
			}
			if n := len(items); n > 0 && (items[n-1] == "CRASH" || items[n-1] == "HANG" || items[n-1] == "NOSTART") {
				found := false
				for _, u := range used {
					if c23ReportKillerURI(c, ss, u, timeout) {
						found = true // keep going: report every URI of the chunk that kills the server
					}
				}
				if found {
					continue
				}
			}
			c.Count("hist odd-URI sweep")
			c.Case(line, strings.Join(append([]string{"wf=1"}, items...), " "), line)
		}
	}
	for i := 0; i < n; i++ {
		// contents
		var tab []c23Entry
		seen := map[string]bool{}
		for k := 1 + r.Intn(4); k > 0; k-- {
			var text string
			family := "generated"
			switch r.Intn(16) {
			case 0:
				text = ""
			case 1:
				text = "language l(go);\n"
			case 2, 3, 4:
				text, family = gen.randTM(), "random CFG"
			case 5, 6:
				text, family = gen.conflictTM(), "conflict shapes"
			case 7:
				text, family = gen.featureTM(), "templates/lookaheads/sets"
			case 8:
				text, family = gen.corpusTM(), "compiler testdata"
			case 9:
				if r.Intn(3) == 0 {
					text, family = c23BigTM(20+r.Intn(60), r.Intn(1000)), "big"
				} else {
					text = gen.grammar()
				}
			default:
				text = gen.grammar()
			}
			if len(tab) > 0 && r.Intn(3) == 0 {
				// an edit of an earlier text: typical didChange
				base := tab[r.Intn(len(tab))].text
				family = "generated"
				if p := strings.Index(base, ";"); p >= 0 && r.Intn(2) == 0 {
					text = base[:p+1] + " " + gen.comment(false) + base[p+1:]
				} else {
					text = base + "X: " + gen.pick([]string{"a", "S", "nosuch"}) + " ;\n"
				}
			}
			e := c23Analyse(text)
			e.family = family
			if e.panicked != "" {
				c23ReportKiller(c, ss, text, "compiler.Compile panics in-process ("+e.panicked+")", timeout)
				continue
			}
			if (e.syntax && !mode.synFixed) || (e.unsafe && byteCols) {
				// avoided class: make the text ASCII / drop it
				if e.unsafe && byteCols {
					text = strings.Map(func(r rune) rune {
						if r >= 0x80 {
							return 'x'
						}
						return r
					}, strings.ToValidUTF8(text, "x"))
					e = c23Analyse(text)
					e.family = family
				}
				if (e.syntax && !mode.synFixed) || (e.unsafe && byteCols) {
					c.Count("text dropped (avoided class)")
					continue
				}
			}
			if seen[text] {
				continue
			}
			seen[text] = true
			tab = append(tab, e)
		}
		if len(tab) == 0 {
			tab = append(tab, c23Analyse("language l(go);\n:: lexer\na: /a/\n:: parser\n%input S;\nS: a ;\n"))
		}
		texts := make([]string, len(tab))
		for k := range tab {
			texts[k] = tab[k].text
		}
		// ops
		ndocs := 1 + r.Intn(3)
		latest := map[int]int{} // harness-side guess of the open documents (only to aim definition requests)
		var ops []c23Op
		ver := int32(1)
		hasPub, hasDef := false, false
		for k := 3 + r.Intn(12); k > 0; k-- {
			op := c23Op{name: r.Intn(ndocs)}
			if r.Intn(5) == 0 {
				op.variant = 1
			}
			nextVer := func() int32 {
				switch r.Intn(10) {
				case 0:
					return ver - int32(r.Intn(3)) // stale or repeated
				case 1:
					return []int32{0, -1, 2147483647, -2147483648}[r.Intn(4)]
				}
				ver += int32(1 + r.Intn(3))
				return ver
			}
			switch x := r.Intn(100); {
			case x < 25:
				op.kind, op.version, op.contents = 'o', nextVer(), []int{r.Intn(len(tab))}
				latest[op.name] = op.contents[0]
				hasPub = true
			case x < 55:
				op.kind, op.version = 'g', nextVer()
				switch y := r.Intn(12); {
				case y == 0 && mode.emptyIgnored:
					op.contents = nil
				case y == 1:
					op.contents = []int{r.Intn(len(tab)), r.Intn(len(tab))}
				default:
					op.contents = []int{r.Intn(len(tab))}
				}
				if len(op.contents) > 0 {
					latest[op.name] = op.contents[0]
					hasPub = true
				}
			case x < 65:
				op.kind = 'x'
				delete(latest, op.name)
			default:
				op.kind = 'd'
				ci, open := latest[op.name]
				if open && len(tab[ci].ident) > 0 && r.Intn(4) > 0 {
					id := tab[ci].ident[r.Intn(len(tab[ci].ident))]
					off := id.Offset + r.Intn(id.Endoffset-id.Offset+1)
					for off > id.Offset && !utf8.RuneStart(tab[ci].text[off]) && off < len(tab[ci].text) {
						off--
					}
					op.line, op.ch = c23PosOf(tab[ci].text, off)
					hasDef = true
				} else {
					op.line, op.ch = uint32(r.Intn(9)), uint32(r.Intn(30))
					if open {
						hasDef = true
					}
				}
			}
			ops = append(ops, op)
		}
		pipelined := r.Intn(10) < 7
		if i%8 == 3 {
			// size asymmetry: a big text immediately followed by a trivial edit of the same document (paste + undo),
			// then more small edits; sent in one burst
			big := c23Analyse(c23BigTM(60+r.Intn(80), i))
			big.family = "big"
			small := c23Analyse("language l(go);\n:: lexer\nx: /x/\n:: parser\n%input S;\nS: x ;\n")
			small2 := c23Analyse("language l(go);\n:: lexer\nx: /x/\n:: parser\n%input S;\nS: x nosuch ;\n")
			tab = []c23Entry{small, big, small2}
			texts = []string{small.text, big.text, small2.text}
			ops = []c23Op{
				{kind: 'o', name: 0, version: 1, contents: []int{0}},
				{kind: 'g', name: 0, version: 2, contents: []int{1}},
				{kind: 'g', name: 0, version: 3, contents: []int{2}},
				{kind: 'g', name: 0, version: 4, contents: []int{0}},
				{kind: 'd', name: 0, line: 4, ch: 9},
				{kind: 'g', name: 1, version: 5, contents: []int{1}},
				{kind: 'g', name: 0, version: 6, contents: []int{2}},
				{kind: 'd', name: 0, line: 5, ch: 3},
			}
			pipelined, hasPub, hasDef = true, true, true
			c.Count("hist big-then-small burst")
		}
		var oddUsed []string
		if i%8 != 3 && r.Intn(3) == 0 {
			// messages about documents with malformed / exotic URIs, anywhere in the history
			pool := c23OddURIs(ss.dirs + 1)
			for k := 1 + r.Intn(3); k > 0; k-- {
				u := pool[r.Intn(len(pool))]
				op := c23Op{rawURI: u, version: int32(r.Intn(9)), contents: []int{r.Intn(len(tab))}}
				switch x := r.Intn(10); {
				case x < 5:
					op.kind = 'o'
				case x < 7:
					op.kind = 'g'
				case x < 8:
					op.kind, op.contents = 'x', nil
				default:
					op.kind, op.contents, op.line, op.ch = 'd', nil, uint32(r.Intn(6)), uint32(r.Intn(6))
				}
				at := r.Intn(len(ops) + 1)
				ops = append(ops[:at], append([]c23Op{op}, ops[at:]...)...)
				oddUsed = append(oddUsed, u)
				c.Count("op on an odd URI")
			}
		}
		items, direct := c23RunHistory(ss, texts, ops, pipelined, timeout)
		line := c23Line(mode, tab, ops)
		for _, d := range direct {
			c.Violate(d, line)
		}
		if n := len(items); n > 0 && (items[n-1] == "CRASH" || items[n-1] == "HANG" || items[n-1] == "NOSTART") {
			// which document kills the server? open each one alone on a fresh process
			found := false
			for _, u := range oddUsed {
				if c23ReportKillerURI(c, ss, u, timeout) {
					found = true
					break
				}
			}
			if found {
				// the history without the odd messages is still a case of the model; its transcript is cut short
				c.Count("hist killed by an odd URI")
				continue
			}
			for _, t := range texts {
				if c23ReportKiller(c, ss, t, "", timeout) {
					found = true
					break
				}
			}
			if !found {
				c.Violate("the server process died or stopped answering ("+items[n-1]+") during this history; no single document reproduces it", line)
			}
		}
		key := ""
		if hasPub && hasDef {
			key = line
		}
		if pipelined {
			c.Count("hist pipelined")
		} else {
			c.Count("hist step-by-step")
		}
		for _, e := range tab {
			if e.family != "" && e.family != "generated" {
				c.Count("text family: " + e.family)
				if e.syntax {
					c.Count("text family: " + e.family + " (syntax error)")
					c.Debugf("syntax error in %s: %q", e.family, e.text)
				}
			}
			switch {
			case e.syntax:
				c.Count("text: syntax error")
			case e.nProb > 0:
				c.Count("text: semantic problems")
			default:
				c.Count("text: clean")
			}
			if strings.IndexFunc(e.text, func(r rune) bool { return r >= 0x80 }) >= 0 {
				c.Count("text: non-ASCII")
			}
		}
		for _, op := range ops {
			c.Count("op " + string(op.kind))
		}
		c.Case(line, strings.Join(append([]string{"wf=1"}, items...), " "), key)
	}
}

// c23OddURIs: malformed and exotic document URIs.
func c23OddURIs(dir int) []string {
	d := fmt.Sprintf("h%d", dir)
	return []string{
		"file:///w/" + d + "/100%zz.tm", "file:///w/" + d + "/100%.tm", "file:///w/" + d + "/x%2", "file:///w/" + d + "/%",
		"file:///w/" + d + "/a b.tm", "file:///w/" + d + "/tab\there.tm", "file:///w/" + d + "/ctl\x01\x7f.tm", "file:///w/" + d + "/nl\nx.tm",
		"file://host with space/" + d + "/x.tm", "file://[::1/" + d + "/x.tm", "file://user:pa ss@host/" + d + "/x.tm",
		"file:", "file:x.tm", "file:/w/" + d + "/one-slash.tm", "file://", "file:///", "", " ", ":", "::", "%", "?", "#frag",
		"file:///w/" + d + "/" + strings.Repeat("long", 5000) + ".tm",
		"untitled:Untitled-" + d, "untitled:", "vscode-vfs://github/org/repo/" + d + "/g.tm", "http://example.com/" + d + "/g.tm",
		"https://example.com:99999/" + d, "git:/w/" + d + "/g.tm?ref=HEAD#L1", "FILE:///w/" + d + "/upper.tm", "File:///w/" + d + "/mixed.tm",
		"file:///c%3A/" + d + "/x.tm", "file:///C:/" + d + "/x.tm", "file:///c:/" + d + "/x.tm", "file://C:/" + d + "/x.tm", "c:\\w\\" + d + "\\x.tm",
		"file:///w/" + d + "/a%2Bb%20c.tm", "file:///w/" + d + "/a+b.tm", "file:///w/" + d + "/%C3%A9%F0%9F%98%80.tm", "file:///w/" + d + "/é😀.tm",
		"file:///w/" + d + "/q.tm?x=1", "file:///w/" + d + "/q.tm#frag", "file:///w/" + d + "/..%2F..%2Fetc%2Fpasswd", "file:///w/" + d + "/%00.tm",
		"/w/" + d + "/plain/path.tm", "relative/" + d + ".tm",
	}
}

// c23ReportKillerURI: a document with this URI, opened alone on a fresh process.
func c23ReportKillerURI(c *Ctx, ss *c23Session, uri string, timeout time.Duration) bool {
	ss.close()
	small := "language l(go);\n:: lexer\nx: /x/\n:: parser\n%input S;\nS: x ;\n"
	items, _ := c23RunHistory(ss, []string{small}, []c23Op{
		{kind: 'o', rawURI: uri, version: 1, contents: []int{0}},
		{kind: 'd', rawURI: uri, line: 3, ch: 0},
		{kind: 'x', rawURI: uri},
	}, false, timeout)
	got := strings.Join(items, " ")
	if !strings.Contains(got, "CRASH") && !strings.Contains(got, "HANG") && !strings.Contains(got, "NOSTART") {
		return false
	}
	c.Violate("the server process dies or stops answering ("+got+") when a document with this URI is opened, queried and closed (didOpen/definition/didClose)",
		"C23-killer-uri "+strconv.QuoteToASCII(uri))
	return true
}

// c23ReportKiller opens the text alone on a fresh server process; reports a violation (with the document text) when
// the process dies or stops answering. `why` non-empty: report in any case (the in-process compiler already panicked).
func c23ReportKiller(c *Ctx, ss *c23Session, text, why string, timeout time.Duration) bool {
	ss.close()
	items, _ := c23RunHistory(ss, []string{text}, []c23Op{{kind: 'o', name: 0, version: 1, contents: []int{0}}}, false, timeout)
	got := strings.Join(items, " ")
	died := strings.Contains(got, "CRASH") || strings.Contains(got, "HANG") || strings.Contains(got, "NOSTART")
	if !died && why == "" {
		return false
	}
	what := "the server "
	switch {
	case strings.Contains(got, "HANG"):
		what += "stops answering"
	case died:
		what += "process dies"
	default:
		what += "survives (" + got + ") but " + why
	}
	if died && why != "" {
		what += "; " + why
	}
	c.Violate(what+" when this document is opened (textDocument/didOpen): no diagnostics are published", "C23-killer-document "+strconv.Quote(text))
	return true
}

func c23Line(mode c23Mode, tab []c23Entry, ops []c23Op) string {
	var cs, os []string
	for _, e := range tab {
		cs = append(cs, hexs([]byte(e.text))+"/"+e.problems+"/"+e.ids)
	}
	for _, op := range ops {
		if op.rawURI != "" {
			continue
		}
		u := fmt.Sprintf("%d.%d", op.name, op.variant)
		switch op.kind {
		case 'o':
			os = append(os, fmt.Sprintf("o:%s:%d:%d", u, op.version, op.contents[0]))
		case 'g':
			l := "-"
			if len(op.contents) > 0 {
				l = ints(op.contents)
			}
			os = append(os, fmt.Sprintf("g:%s:%d:%s", u, op.version, l))
		case 'x':
			os = append(os, "x:"+u)
		case 'd':
			os = append(os, fmt.Sprintf("d:%s:%d:%d", u, op.line, op.ch))
		}
	}
	c, o := "_", "_"
	if len(cs) > 0 {
		c = strings.Join(cs, "|")
	}
	if len(os) > 0 {
		o = strings.Join(os, "|")
	}
	return "hist " + mode.String() + " " + c + " " + o
}
