package main

// C02 — source-level side: an annotated SOURCE grammar (right-hand sides are trees: symbols, groups
// with an optional arrow / `?`, nested choices, lists with separators and arrows, state markers), its
// rendering as .tm text, and an oracle that derives the expected listener events from the source
// grammar and the input text ALONE (brute-force derivation counting + the documented range rules).
// Nothing in this file looks at the compiled grammar (grammar.Grammar, reports, rule types, flags).

import (
	"fmt"
	"math/rand"
	"strings"
)

type sKind int

const (
	skSym    sKind = iota // terminal or nonterminal reference
	skGroup               // ( kids… [-> Arrow] )[?]
	skChoice              // ( alt | alt … ) [-> Arrow]; every alternative is a skGroup (never optional)
	skList                // ( kids… [-> Arrow] [separator 'x'] )+|*  [-> ListArrow around the whole list]
	skMarker              // .name
)

type SNode struct {
	Kind      sKind
	Sym       int      // skSym: symbol id in Gram numbering (0 < terminals < NT <= nonterminals)
	Kids      []*SNode // skGroup: sequence; skList: the element sequence; skChoice: alternatives
	Arrow     string   // skGroup/skChoice: `( … -> Arrow)`; skList: arrow around ONE element
	Opt       bool     // skGroup: `( … )?`
	Sep       int      // skList: separator terminal, 0 = none
	Plus      bool     // skList: + (true) or * (false)
	ListArrow string   // skList: `(list -> ListArrow)`
	Name      string   // skMarker
}

type SRule struct {
	LHS   int
	RHS   []*SNode
	Arrow string // rule-level `-> Arrow`
	Code  string // end-of-rule semantic action `{ … }` (no influence on the events)
	Part  int    // 0 = the definition `N : …;`, k > 0 = the k-th `extend N : …;` clause further down
	Blank bool   // an empty alternative written as nothing instead of `%empty`
}

// SGram is the annotated source grammar. Symbol numbering and names are those of Gram.
type SGram struct {
	NT, NN int
	Rules  []SRule
	Inputs []GInput
	names  *Gram // SymName only
	// Types: value type `{T}` of terminals and of nonterminals that are not inputs (a typed input
	// changes the signature of its Parse function). Types have no influence on the events; they make
	// the compiler's default-action (cast) machinery run next to the nested arrows.
	Types map[int]string
	// Defaults: nonterminal-level arrow `N -> D : …` of the definition / extend clause (lhs, part); it
	// applies to every alternative of that clause that has no arrow of its own, the empty one included.
	Defaults map[[2]int]string
}

// effArrow: the rule's own arrow or the nonterminal-level default of its clause.
func (sg *SGram) effArrow(rl SRule) string {
	if rl.Arrow != "" {
		return rl.Arrow
	}
	return sg.Defaults[[2]int{rl.LHS, rl.Part}]
}

func (sg *SGram) symText(s int) string {
	if s < sg.NT {
		return "'" + sg.names.SymName(s) + "'"
	}
	return sg.names.SymName(s)
}

// ---- rendering ----

func (sg *SGram) renderSeq(sb *strings.Builder, nodes []*SNode) {
	for k, n := range nodes {
		if k > 0 {
			sb.WriteString(" ")
		}
		sg.renderNode(sb, n)
	}
}

func (sg *SGram) renderNode(sb *strings.Builder, n *SNode) {
	switch n.Kind {
	case skSym:
		sb.WriteString(sg.symText(n.Sym))
	case skMarker:
		sb.WriteString("." + n.Name)
	case skGroup:
		if n.Arrow == "" && n.Opt && len(n.Kids) == 1 && n.Kids[0].Kind == skSym {
			sg.renderNode(sb, n.Kids[0]) // `X?`
			sb.WriteString("?")
			return
		}
		sb.WriteString("(")
		sg.renderSeq(sb, n.Kids)
		if n.Arrow != "" {
			sb.WriteString(" -> " + n.Arrow)
		}
		sb.WriteString(")")
		if n.Opt {
			sb.WriteString("?")
		}
	case skChoice:
		if n.Arrow != "" {
			sb.WriteString("(")
		}
		sb.WriteString("(")
		for k, alt := range n.Kids {
			if k > 0 {
				sb.WriteString(" | ")
			}
			sg.renderSeq(sb, alt.Kids)
			if alt.Arrow != "" {
				sb.WriteString(" -> " + alt.Arrow)
			}
		}
		sb.WriteString(")")
		if n.Arrow != "" {
			sb.WriteString(" -> " + n.Arrow + ")")
		}
	case skList:
		if n.ListArrow != "" {
			sb.WriteString("(")
		}
		q := "*"
		if n.Plus {
			q = "+"
		}
		switch {
		case n.Sep == 0 && n.Arrow == "" && len(n.Kids) == 1 && n.Kids[0].Kind == skSym:
			sg.renderNode(sb, n.Kids[0]) // `X+`
		case n.Sep == 0:
			sb.WriteString("(")
			sg.renderSeq(sb, n.Kids)
			if n.Arrow != "" {
				sb.WriteString(" -> " + n.Arrow)
			}
			sb.WriteString(")")
		default:
			sb.WriteString("(")
			if n.Arrow != "" {
				sb.WriteString("(")
				sg.renderSeq(sb, n.Kids)
				sb.WriteString(" -> " + n.Arrow + ")")
			} else {
				sg.renderSeq(sb, n.Kids)
			}
			sb.WriteString(" separator " + sg.symText(n.Sep) + ")")
		}
		sb.WriteString(q)
		if n.ListArrow != "" {
			sb.WriteString(" -> " + n.ListArrow + ")")
		}
	}
}

// TM renders the source grammar as textmapper text.
func (sg *SGram) TM(name string, o TMOpts) string {
	var sb strings.Builder
	fmt.Fprintf(&sb, "language %s(go);\n\nlang = %q\npackage = \"gp/%s\"\neventBased = true\n", name, name, name)
	if o.Optimize {
		sb.WriteString("optimizeTables = true\n")
	}
	if o.FixWhitespace {
		sb.WriteString("fixWhitespace = true\n")
	}
	if o.Minimize {
		sb.WriteString("minimizeDFA = true\n")
	}
	sb.WriteString("\n::lexer\n\n")
	if o.Space {
		sb.WriteString("WhiteSpace: /[ ]+/ (space)\n")
	}
	for t := 1; t < sg.NT; t++ {
		ty := ""
		if sg.Types[t] != "" {
			ty = " {" + sg.Types[t] + "}"
		}
		fmt.Fprintf(&sb, "'%s'%s: /%s/\n", sg.names.SymName(t), ty, sg.names.SymName(t))
	}
	sb.WriteString("\n::parser\n\n")
	var ins []string
	for _, in := range sg.Inputs {
		s := sg.names.SymName(in.Sym)
		if !in.Eoi {
			s += " no-eoi"
		}
		ins = append(ins, s)
	}
	fmt.Fprintf(&sb, "%%input %s;\n\n", strings.Join(ins, ", "))
	// definitions in order of first appearance, then the extend clauses
	var order [][2]int
	seen := map[[2]int]bool{}
	for pass := 0; pass < 2; pass++ {
		for _, rl := range sg.Rules {
			k := [2]int{rl.LHS, rl.Part}
			if !seen[k] && (rl.Part == 0) == (pass == 0) {
				seen[k] = true
				order = append(order, k)
			}
		}
	}
	for _, k := range order {
		lhs := k[0]
		head := sg.names.SymName(lhs)
		if k[1] > 0 {
			head = "extend " + head
		} else if sg.Types[lhs] != "" {
			head += " {" + sg.Types[lhs] + "}"
		}
		if d := sg.Defaults[k]; d != "" {
			head += " -> " + d
		}
		sb.WriteString(head + " :\n")
		first := true
		for _, rl := range sg.Rules {
			if rl.LHS != lhs || rl.Part != k[1] {
				continue
			}
			if first {
				sb.WriteString("    ")
				first = false
			} else {
				sb.WriteString("  | ")
			}
			if len(rl.RHS) == 0 {
				if !rl.Blank || rl.Code != "" || rl.Arrow != "" {
					sb.WriteString("%empty")
				}
			} else {
				sg.renderSeq(&sb, rl.RHS)
			}
			if rl.Code != "" {
				sb.WriteString(" " + rl.Code)
			}
			if rl.Arrow != "" {
				sb.WriteString(" -> " + rl.Arrow)
			}
			sb.WriteString("\n")
		}
		sb.WriteString(";\n")
	}
	return sb.String()
}

// ---- generation: decorate a plain conflict-free grammar ----

type srcDeco struct {
	r        *rand.Rand
	g        *Gram
	nextT    int
	names    []string        // arrow names handed out so far
	listSpec map[int][2]int  // element symbol -> (plus, sep) of the first list built over it
	listed   map[int]int     // element symbol -> number of lists over it
	features map[string]bool // what the grammar contains (for the distribution)
	nullable []bool
	fresh    []int // terminals used by inserted lists only
	fixWS    bool
}

func (d *srcDeco) arrow(prefix string) string {
	if len(d.names) > 0 && d.r.Intn(12) == 0 {
		return d.names[d.r.Intn(len(d.names))] // the same node type at two places
	}
	d.nextT++
	n := fmt.Sprintf("%s%d", prefix, d.nextT)
	d.names = append(d.names, n)
	return n
}

func symNode(s int) *SNode { return &SNode{Kind: skSym, Sym: s} }

// canBeAbsent: the sequence may contribute no symbol reference at all to an expanded rule (only
// optional groups / markers); an arrow around such a sequence becomes an empty range.
func canBeAbsent(nodes []*SNode) bool {
	for _, n := range nodes {
		switch n.Kind {
		case skSym, skList:
			return false
		case skGroup:
			if !n.Opt && !canBeAbsent(n.Kids) {
				return false
			}
		case skChoice:
			any := false
			for _, a := range n.Kids {
				if canBeAbsent(a.Kids) {
					any = true
				}
			}
			if !any {
				return false
			}
		}
	}
	return true
}

func (d *srcDeco) mkList(elem []*SNode) *SNode {
	l := &SNode{Kind: skList, Kids: elem}
	single := len(elem) == 1 && elem[0].Kind == skSym
	key := -1
	if single {
		key = elem[0].Sym
	}
	if spec, ok := d.listSpec[key]; ok && single && d.r.Intn(5) != 0 {
		// a second list over the same element, same quantifier and separator: differs in its arrow only
		l.Plus, l.Sep = spec[0] == 1, spec[1]
		d.features["two lists over one element"] = true
	} else {
		l.Plus = d.r.Intn(2) == 0
		if d.r.Intn(3) == 0 {
			l.Sep = 1 + d.r.Intn(d.g.NT-1)
		}
		if single {
			d.listSpec[key] = [2]int{map[bool]int{true: 1}[l.Plus], l.Sep}
		}
	}
	if single {
		d.listed[key]++
	}
	if d.r.Intn(3) != 0 {
		l.Arrow = d.arrow("E")
	}
	if d.r.Intn(4) == 0 {
		l.ListArrow = d.arrow("L")
	}
	d.features["list"] = true
	return l
}

// wrap puts groups with arrows around sub-ranges (nested up to depth 2), some optional.
func (d *srcDeco) wrap(nodes []*SNode, depth int) []*SNode {
	if len(nodes) == 0 || depth >= 2 || d.r.Intn(2) != 0 {
		return nodes
	}
	s := d.r.Intn(len(nodes))
	e := s + 1 + d.r.Intn(len(nodes)-s)
	grp := &SNode{Kind: skGroup, Kids: d.wrap(append([]*SNode(nil), nodes[s:e]...), depth+1)}
	if d.r.Intn(8) != 0 {
		grp.Arrow = d.arrow("T")
	}
	if d.r.Intn(4) == 0 {
		grp.Opt = true
		d.features["optional group"] = true
	}
	if canBeAbsent(grp.Kids) {
		grp.Opt = false // `((x)?)?` has two ways of being absent
		if grp.Arrow == "" {
			grp.Arrow = d.arrow("T")
		}
	} else if grp.Arrow == "" {
		grp.Opt = true
	}
	if d.r.Intn(10) == 0 {
		// a state marker inside the group (at its start, end or in the middle)
		pos := d.r.Intn(len(grp.Kids) + 1)
		m := &SNode{Kind: skMarker, Name: fmt.Sprintf("m%d", d.r.Intn(2))}
		grp.Kids = append(append(append([]*SNode(nil), grp.Kids[:pos]...), m), grp.Kids[pos:]...)
		d.features["state marker inside a group"] = true
	}
	if grp.Opt && e < len(nodes) && d.r.Intn(3) == 0 {
		// an arrow AROUND an optional part: an empty node when the part is absent
		grp = &SNode{Kind: skGroup, Kids: []*SNode{grp}, Arrow: d.arrow("O")}
	}
	var out []*SNode
	out = append(out, d.wrap(append([]*SNode(nil), nodes[:s]...), depth+1)...)
	out = append(out, grp)
	out = append(out, d.wrap(append([]*SNode(nil), nodes[e:]...), depth+1)...)
	return out
}

func (d *srcDeco) rule(rl GRule) SRule {
	var nodes []*SNode
	for _, s := range rl.RHS {
		nodes = append(nodes, symNode(s))
	}
	// lists over single symbols (more likely over a symbol that is already a list element elsewhere)
	for k, n := range nodes {
		p := 12
		if d.listed[n.Sym] > 0 {
			p = 45
		}
		if n.Sym != rl.LHS && d.r.Intn(100) < p {
			nodes[k] = d.mkList([]*SNode{n})
		}
	}
	// an inserted list over a fresh terminal, mostly at the end of the rule
	if d.r.Intn(5) < 2 {
		el := d.fresh[0]
		if d.r.Intn(4) == 0 {
			el = d.fresh[1]
		}
		l := d.mkList([]*SNode{symNode(el)})
		if l.Sep != 0 {
			// separators of inserted lists are fresh as well
			l.Sep = d.fresh[0] + d.fresh[1] - el
			if spec, ok := d.listSpec[el]; ok {
				d.listSpec[el] = [2]int{spec[0], l.Sep}
			}
		}
		pos := len(nodes)
		if d.r.Intn(2) == 0 {
			pos = d.r.Intn(len(nodes) + 1)
		}
		nodes = append(append(append([]*SNode(nil), nodes[:pos]...), l), nodes[pos:]...)
	}
	// a list over two adjacent symbols
	if len(nodes) >= 2 && d.r.Intn(5) == 0 {
		k := d.r.Intn(len(nodes) - 1)
		if nodes[k].Kind == skSym && (nodes[k+1].Kind == skSym || nodes[k+1].Kind == skList) && nodes[k].Sym < d.g.NT {
			if nodes[k+1].Kind == skList {
				d.features["list inside a list element"] = true
			}
			l := d.mkList(d.wrap([]*SNode{nodes[k], nodes[k+1]}, 1))
			nodes = append(append(append([]*SNode(nil), nodes[:k]...), l), nodes[k+2:]...)
		}
	}
	// a nested choice in place of a terminal: ('a' | 'b' X -> T)
	if len(nodes) > 0 && d.g.NT > 2 && d.r.Intn(10) == 0 {
		k := d.r.Intn(len(nodes))
		if nodes[k].Kind == skSym && nodes[k].Sym < d.g.NT {
			other := 1 + d.r.Intn(d.g.NT-1)
			if other != nodes[k].Sym {
				a1 := &SNode{Kind: skGroup, Kids: []*SNode{nodes[k]}}
				a2 := &SNode{Kind: skGroup, Kids: []*SNode{symNode(other)}}
				if d.r.Intn(2) == 0 {
					a1.Arrow = d.arrow("A")
				}
				if d.r.Intn(2) == 0 {
					a2.Arrow = d.arrow("A")
				}
				ch := &SNode{Kind: skChoice, Kids: []*SNode{a1, a2}}
				if d.r.Intn(2) == 0 {
					ch.Arrow = d.arrow("C")
				}
				nodes[k] = ch
				d.features["nested choice"] = true
			}
		}
	}
	nodes = d.wrap(nodes, 0)
	// state markers: mostly at the very end, in particular behind a nullable tail
	if len(nodes) > 0 {
		nullTail := d.nullTail(nodes)
		pos := -1
		switch {
		case nullTail && (d.fixWS || d.r.Intn(2) == 0):
			pos = len(nodes)
			d.features["marker behind a nullable tail"] = true
		case d.r.Intn(4) == 0:
			pos = d.r.Intn(len(nodes) + 1)
		}
		if pos >= 0 {
			m := &SNode{Kind: skMarker, Name: fmt.Sprintf("m%d", d.r.Intn(2))}
			nodes = append(append(append([]*SNode(nil), nodes[:pos]...), m), nodes[pos:]...)
			d.features["state marker"] = true
		}
	}
	d.fixEmptyArrows(nodes)
	out := SRule{LHS: rl.LHS, RHS: nodes}
	if d.r.Intn(5) != 0 {
		d.nextT++
		out.Arrow = fmt.Sprintf("R%d", d.nextT)
	}
	return out
}

// nullTail: some expansion of the sequence ends in a nullable nonterminal or a star list.
func (d *srcDeco) nullTail(nodes []*SNode) bool {
	for k := len(nodes) - 1; k >= 0; k-- {
		switch n := nodes[k]; n.Kind {
		case skMarker:
			continue
		case skSym:
			return d.nullable[n.Sym]
		case skList:
			return !n.Plus
		case skGroup:
			return d.nullTail(n.Kids)
		case skChoice:
			for _, a := range n.Kids {
				if d.nullTail(a.Kids) {
					return true
				}
			}
			return false
		}
	}
	return false
}

// fixEmptyArrows: `( (x)? -> T )` with nothing mandatory behind it in the same sequence would be an
// empty range at the end of a rule, which the compiler rejects; make the content mandatory there.
func (d *srcDeco) fixEmptyArrows(nodes []*SNode) {
	for k, n := range nodes {
		switch n.Kind {
		case skGroup:
			d.fixEmptyArrows(n.Kids)
			if n.Arrow != "" && canBeAbsent(n.Kids) {
				if canBeAbsent(nodes[k+1:]) || d.r.Intn(2) == 0 {
					mandatory(n.Kids)
				} else {
					d.features["arrow around an absent optional (empty range inside a rule)"] = true
				}
			}
		case skChoice:
			for _, a := range n.Kids {
				d.fixEmptyArrows(a.Kids)
			}
		case skList:
			d.fixEmptyArrows(n.Kids)
			if canBeAbsent(n.Kids) {
				mandatory(n.Kids)
			}
		}
	}
}

func mandatory(nodes []*SNode) {
	for _, n := range nodes {
		if n.Kind == skGroup {
			n.Opt = false
			mandatory(n.Kids)
			return
		}
	}
}

// decorateSrc turns a plain grammar into an annotated source grammar. Two fresh terminals (used by
// nothing else) are added to the alphabet; lists over them are inserted into rules (a fresh element
// rarely introduces a conflict), so most grammars get several lists over the SAME element.
func decorateSrc(r *rand.Rand, g0 *Gram, fixWS bool) (*SGram, map[string]bool) {
	extra := 4
	if g0.NT-1+extra > 26 {
		extra = 2 // single-letter terminals only
	}
	g := &Gram{NT: g0.NT + extra, NN: g0.NN, Shape: g0.Shape}
	mv := func(s int) int {
		if s >= g0.NT {
			return s + extra
		}
		return s
	}
	for _, rl := range g0.Rules {
		nr := GRule{LHS: mv(rl.LHS)}
		for _, s := range rl.RHS {
			nr.RHS = append(nr.RHS, mv(s))
		}
		g.Rules = append(g.Rules, nr)
	}
	for _, in := range g0.Inputs {
		g.Inputs = append(g.Inputs, GInput{Sym: mv(in.Sym), Eoi: in.Eoi})
	}
	// nonterminals that no input reaches become inputs themselves (their rules would be dead otherwise)
	reach := map[int]bool{}
	var visit func(s int)
	visit = func(s int) {
		if reach[s] {
			return
		}
		reach[s] = true
		for _, rl := range g.Rules {
			if rl.LHS == s {
				for _, x := range rl.RHS {
					if x >= g.NT {
						visit(x)
					}
				}
			}
		}
	}
	for _, in := range g.Inputs {
		visit(in.Sym)
	}
	for s := g.NT; s < g.NT+g.NN; s++ {
		if !reach[s] && r.Intn(5) != 0 {
			g.Inputs = append(g.Inputs, GInput{Sym: s, Eoi: r.Intn(3) != 0})
			visit(s)
		}
	}
	d := &srcDeco{r: r, g: g, listSpec: map[int][2]int{}, listed: map[int]int{}, features: map[string]bool{}, nullable: g.Nullable()}
	d.fresh = []int{g0.NT, g0.NT + 1}
	d.fixWS = fixWS
	sg := &SGram{NT: g.NT, NN: g.NN, Inputs: g.Inputs, names: g}
	for _, rl := range g.Rules {
		sg.Rules = append(sg.Rules, d.rule(rl))
	}
	// a "number" nonterminal: several single-terminal alternatives over two terminals nothing else
	// uses, each with its own rule-level arrow (typed below so that they share one cast action)
	num, y, z := 0, g0.NT+2, g0.NT+3
	if extra == 4 && r.Intn(5) < 2 && len(sg.Rules) > 0 {
		num = g.NT + g.NN
		g.NN++
		sg.NN = g.NN
		ri := r.Intn(len(sg.Rules))
		rhs := sg.Rules[ri].RHS
		pos := r.Intn(len(rhs) + 1)
		var ref *SNode = symNode(num)
		if r.Intn(3) == 0 {
			ref = &SNode{Kind: skGroup, Kids: []*SNode{ref}, Arrow: d.arrow("T")}
		}
		sg.Rules[ri].RHS = append(append(append([]*SNode(nil), rhs[:pos]...), ref), rhs[pos:]...)
		sg.Rules = append(sg.Rules, SRule{LHS: num, RHS: []*SNode{symNode(y)}, Arrow: d.arrow("Dec")}, SRule{LHS: num, RHS: []*SNode{symNode(z)}, Arrow: d.arrow("Hex")})
		d.features["number nonterminal (single-terminal alternatives with different arrows)"] = true
	}
	d.splitAndDefaults(sg, map[int]bool{num: true})
	d.assignTypes(sg, false, func(pool []string, isInput map[int]bool) {
		if num > 0 && r.Intn(5) != 0 {
			sg.Types[num], sg.Types[y], sg.Types[z] = pool[0], pool[1], pool[1]
			d.features["typed number nonterminal sharing one cast action"] = true
		}
	})
	return sg, d.features
}

// splitAndDefaults (a) turns some empty alternatives into BARE ones (no arrow of their own, written
// `%empty` or as nothing), (b) splits the alternatives of some nonterminals into the definition and
// `extend N : …;` clauses rendered further down - preferably such that one part is a single bare
// empty alternative -, (c) gives some clauses a nonterminal-level arrow `N -> D : …` and removes the
// own arrow of most of their alternatives, which then inherit D (the empty alternative included).
func (d *srcDeco) splitAndDefaults(sg *SGram, skip map[int]bool) {
	sg.Defaults = map[[2]int]string{}
	for lhs := sg.NT; lhs < sg.NT+sg.NN; lhs++ {
		if skip[lhs] {
			continue
		}
		var idx []int
		empty := -1
		for i := range sg.Rules {
			if sg.Rules[i].LHS == lhs {
				idx = append(idx, i)
				if len(sg.Rules[i].RHS) == 0 {
					empty = i
				}
			}
		}
		if len(idx) == 0 {
			continue
		}
		if empty >= 0 && d.r.Intn(3) != 0 {
			sg.Rules[empty].Arrow = ""
			sg.Rules[empty].Blank = d.r.Intn(3) == 0
		}
		parts := 1
		loneEmpty := -1
		if len(idx) >= 2 && (d.r.Intn(3) == 0 || (empty >= 0 && d.r.Intn(2) == 0)) {
			parts = 2
			d.features["extend clause"] = true
			if empty >= 0 && d.r.Intn(4) != 0 {
				// the empty alternative alone in one clause, the others in the other one
				sg.Rules[empty].Arrow = ""
				pe := d.r.Intn(2)
				for _, i := range idx {
					sg.Rules[i].Part = 1 - pe
				}
				sg.Rules[empty].Part = pe
				loneEmpty = pe
				d.features["extend split in which one clause is a single bare empty alternative"] = true
			} else {
				k := 1 + d.r.Intn(len(idx)-1)
				for n, i := range idx {
					if n >= k {
						sg.Rules[i].Part = 1
					}
				}
				if len(idx)-k >= 2 && d.r.Intn(3) == 0 {
					sg.Rules[idx[len(idx)-1]].Part = 2
					parts = 3
				}
			}
		}
		for p := 0; p < parts; p++ {
			bare := false
			for _, i := range idx {
				if sg.Rules[i].Part == p && len(sg.Rules[i].RHS) == 0 && sg.Rules[i].Arrow == "" {
					bare = true
				}
			}
			if (d.r.Intn(5) < 3 && !(bare && d.r.Intn(2) == 0)) || (p == loneEmpty && d.r.Intn(4) != 0) {
				continue
			}
			d.nextT++
			sg.Defaults[[2]int{lhs, p}] = fmt.Sprintf("D%d", d.nextT)
			d.features["nonterminal-level arrow"] = true
			for _, i := range idx {
				if sg.Rules[i].Part != p {
					continue
				}
				if d.r.Intn(5) < 3 {
					sg.Rules[i].Arrow = ""
				}
				if len(sg.Rules[i].RHS) == 0 && sg.Rules[i].Arrow == "" && sg.Rules[i].Code == "" {
					d.features["nonterminal-level arrow over a bare empty alternative"] = true
				}
			}
		}
	}
}

var srcTypePool = []string{"int", "string", "[]int", "float64", "map[string]bool"}

var srcTypeValue = map[string]string{"int": "1", "string": `"x"`, "[]int": "[]int{1}", "float64": "1.5", "map[string]bool": "nil"}

// leadType: value type of the first symbol reference of the sequence ("" for a list or untyped).
func (sg *SGram) leadType(nodes []*SNode) string {
	for _, n := range nodes {
		switch n.Kind {
		case skMarker:
			continue
		case skSym:
			return sg.Types[n.Sym]
		case skGroup:
			if len(n.Kids) > 0 {
				return sg.leadType(n.Kids)
			}
		case skChoice:
			return sg.leadType(n.Kids[0].Kids)
		}
		return ""
	}
	return ""
}

func hasInlineArrow(nodes []*SNode) bool {
	for _, n := range nodes {
		switch n.Kind {
		case skGroup:
			if n.Arrow != "" || hasInlineArrow(n.Kids) {
				return true
			}
		case skChoice:
			if n.Arrow != "" || hasInlineArrow(n.Kids) {
				return true
			}
		case skList:
			if n.ListArrow != "" {
				return true
			}
		}
	}
	return false
}

// assignTypes gives value types to most terminals and to the nonterminals that are not inputs
// (2-3 types per grammar, so that a rule's first symbol has the type of its left-hand side in some
// rules and another type in others), and end-of-rule action code to a few rules.
func (d *srcDeco) assignTypes(sg *SGram, template bool, force func(pool []string, isInput map[int]bool)) {
	if (!template && d.r.Intn(4) == 0) || d.r.Intn(10) == 0 {
		return // an untyped grammar
	}
	perm := d.r.Perm(len(srcTypePool))
	pool := []string{srcTypePool[perm[0]], srcTypePool[perm[1]]}
	if d.r.Intn(2) == 0 {
		pool = append(pool, srcTypePool[perm[2]])
	}
	sg.Types = map[int]string{}
	for t := 1; t < sg.NT; t++ {
		if d.r.Intn(5) != 0 {
			sg.Types[t] = pool[d.r.Intn(len(pool))]
		}
	}
	isInput := map[int]bool{}
	for _, in := range sg.Inputs {
		isInput[in.Sym] = true
	}
	for s := sg.NT; s < sg.NT+sg.NN; s++ {
		if !isInput[s] && d.r.Intn(4) != 0 {
			sg.Types[s] = pool[d.r.Intn(len(pool))]
		}
	}
	if force != nil {
		force(pool, isInput)
	}
	d.features["value types"] = true
	for i := range sg.Rules {
		rl := &sg.Rules[i]
		if d.r.Intn(8) == 0 {
			if ty := sg.Types[rl.LHS]; ty != "" {
				rl.Code = "{ $$ = " + srcTypeValue[ty] + " }"
			} else {
				rl.Code = "{ _ = 1 }"
			}
			d.features["action code on a rule"] = true
		}
		lt := sg.leadType(rl.RHS)
		if ty := sg.Types[rl.LHS]; ty != "" && rl.Code == "" && hasInlineArrow(rl.RHS) {
			if lt != "" && lt != ty {
				d.features["typed rule with nested arrows, no code, first symbol of ANOTHER type"] = true
			} else {
				d.features["typed rule with nested arrows, no code, first symbol of the same or no type"] = true
			}
		}
	}
}

// tmplSrc builds a "statement list" grammar that always contains the shapes the random decoration
// only hits by chance: a rule ending in a nullable nonterminal / star list followed by a state
// marker, two lists over the same element that differ only in their arrow (one possibly bare), and a
// second (mostly no-eoi) input with node names used under that input only.
//
//	N0 (file)  : N1+ | (N1 -> E)+ | (N1 separator 'f')+ …
//	N1 (stmt)  : 'a' N2 .m0 | 'b' LIST1('d') 'c' LIST2('d') TAIL .m1
//	N2 (tail)  : ('e' -> T)? | 'e'* | %empty | 'e' 'e'
//	N3 (expr)  : 'f' (N1 -> PI)? 'c' ('d' -> PL)* 'f' -> RP        (own names)
func tmplSrc(r *rand.Rand) (*SGram, map[string]bool) {
	const a, b, c, dd, e, f, gg, hh = 1, 2, 3, 4, 5, 6, 7, 8
	g := &Gram{NT: 9, NN: 5, Shape: "template"}
	n0, n1, n2, n3, n4 := g.NT, g.NT+1, g.NT+2, g.NT+3, g.NT+4
	d := &srcDeco{r: r, g: g, listSpec: map[int][2]int{}, listed: map[int]int{}, features: map[string]bool{}, fresh: []int{e, f}}
	sg := &SGram{NT: g.NT, NN: g.NN, names: g}
	marker := func(k int) *SNode { return &SNode{Kind: skMarker, Name: fmt.Sprintf("m%d", k)} }
	opt := func(p int) bool { return r.Intn(100) < p }
	ruleArrow := func(p int) string {
		if opt(p) {
			d.nextT++
			return fmt.Sprintf("R%d", d.nextT)
		}
		return ""
	}
	// file
	fl := &SNode{Kind: skList, Kids: []*SNode{symNode(n1)}, Plus: opt(70)}
	if opt(30) {
		fl.Sep, fl.Plus = f, true
	}
	if opt(50) {
		fl.Arrow = d.arrow("E")
	}
	if opt(25) {
		fl.ListArrow = d.arrow("L")
	}
	sg.Rules = append(sg.Rules, SRule{LHS: n0, RHS: []*SNode{fl}, Arrow: ruleArrow(70)})
	// statement A: 'a' N2 .m0
	tailA := symNode(n2)
	stA := []*SNode{symNode(a), tailA}
	switch r.Intn(4) {
	case 0:
		stA = []*SNode{symNode(a), {Kind: skGroup, Kids: []*SNode{tailA}, Arrow: d.arrow("T")}}
	case 1:
		stA = []*SNode{{Kind: skGroup, Kids: []*SNode{symNode(a)}, Arrow: d.arrow("T")}, tailA}
	case 2:
		stA = []*SNode{{Kind: skGroup, Kids: []*SNode{symNode(a)}, Arrow: d.arrow("T")}, {Kind: skGroup, Kids: []*SNode{tailA}, Arrow: d.arrow("T")}}
	}
	if opt(85) {
		stA = append(stA, marker(0))
	}
	sg.Rules = append(sg.Rules, SRule{LHS: n1, RHS: stA, Arrow: ruleArrow(85)})
	// statement B: 'b' LIST1 'c' LIST2 TAIL .m1
	plus := opt(60)
	sep := 0
	if opt(30) {
		sep, plus = e, true
	}
	l1 := &SNode{Kind: skList, Kids: []*SNode{symNode(dd)}, Plus: plus, Sep: sep, Arrow: d.arrow("E")}
	l2 := &SNode{Kind: skList, Kids: []*SNode{symNode(dd)}, Plus: plus, Sep: sep}
	if opt(65) {
		l2.Arrow = d.arrow("E")
	}
	if opt(30) {
		l1, l2 = l2, l1
	}
	if opt(20) {
		l2.ListArrow = d.arrow("L")
	}
	stB := []*SNode{symNode(b), l1, symNode(c), l2}
	switch r.Intn(4) {
	case 0:
		if sep != e {
			stB = append(stB, &SNode{Kind: skList, Kids: []*SNode{symNode(e)}, Arrow: d.arrow("E")})
		}
	case 1:
		if sep != e {
			stB = append(stB, symNode(n2))
		}
	}
	if opt(60) {
		stB = append(stB, marker(1))
	}
	sg.Rules = append(sg.Rules, SRule{LHS: n1, RHS: stB, Arrow: ruleArrow(85)})
	d.features["two lists over one element"] = true
	d.features["marker behind a nullable tail"] = true
	// tail
	switch r.Intn(4) {
	case 0:
		sg.Rules = append(sg.Rules, SRule{LHS: n2, RHS: []*SNode{{Kind: skGroup, Kids: []*SNode{symNode(e)}, Arrow: d.arrow("T"), Opt: true}}, Arrow: ruleArrow(30)})
	case 1:
		sg.Rules = append(sg.Rules, SRule{LHS: n2, RHS: []*SNode{{Kind: skList, Kids: []*SNode{symNode(e)}, Arrow: d.arrow("E")}}, Arrow: ruleArrow(30)})
	case 2:
		sg.Rules = append(sg.Rules, SRule{LHS: n2, Arrow: ruleArrow(60)}, SRule{LHS: n2, RHS: []*SNode{symNode(e), symNode(e)}, Arrow: ruleArrow(60)})
	default:
		sg.Rules = append(sg.Rules, SRule{LHS: n2, RHS: []*SNode{{Kind: skGroup, Kids: []*SNode{symNode(e)}, Opt: true}}})
	}
	// statement C: a number (single-terminal alternatives with different rule-level arrows)
	stC := []*SNode{symNode(n4)}
	if opt(35) {
		stC = []*SNode{{Kind: skGroup, Kids: []*SNode{symNode(n4)}, Arrow: d.arrow("T")}, symNode(dd)}
	}
	sg.Rules = append(sg.Rules, SRule{LHS: n1, RHS: stC, Arrow: ruleArrow(70)})
	sg.Rules = append(sg.Rules, SRule{LHS: n4, RHS: []*SNode{symNode(gg)}, Arrow: d.arrow("Dec")}, SRule{LHS: n4, RHS: []*SNode{symNode(hh)}, Arrow: d.arrow("Hex")})
	d.features["number nonterminal (single-terminal alternatives with different arrows)"] = true
	// the second input with its own names
	pl := &SNode{Kind: skList, Kids: []*SNode{symNode(dd)}, Arrow: "PL"}
	ex := []*SNode{symNode(f), {Kind: skGroup, Kids: []*SNode{symNode(n1)}, Arrow: "PI", Opt: true}, symNode(c), pl, symNode(f)}
	if opt(40) {
		ex = append(ex, marker(0))
	}
	sg.Rules = append(sg.Rules, SRule{LHS: n3, RHS: ex, Arrow: "RP"})
	sg.Inputs = []GInput{{Sym: n0, Eoi: true}, {Sym: n3, Eoi: opt(25)}}
	if opt(15) {
		sg.Inputs = append(sg.Inputs, GInput{Sym: n1, Eoi: true})
	}
	d.features["template"] = true
	d.splitAndDefaults(sg, map[int]bool{n3: true, n4: true})
	d.assignTypes(sg, true, func(pool []string, isInput map[int]bool) {
		if !isInput[n1] && r.Intn(6) != 0 {
			// the statement nonterminal and the first terminal of one of its rules: two types
			sg.Types[n1], sg.Types[a] = pool[0], pool[1]
		}
		if r.Intn(6) != 0 {
			sg.Types[n4], sg.Types[gg], sg.Types[hh] = pool[0], pool[1], pool[1]
			d.features["typed number nonterminal sharing one cast action"] = true
		}
	})
	return sg, d.features
}

// ---- sentences of the source grammar ----

func (sg *SGram) minLens() []int {
	const inf = 1 << 20
	ml := make([]int, sg.NT+sg.NN)
	for s := range ml {
		if s < sg.NT {
			ml[s] = 1
		} else {
			ml[s] = inf
		}
	}
	for ch := true; ch; {
		ch = false
		for _, rl := range sg.Rules {
			if t := sg.minSeq(ml, rl.RHS); t < ml[rl.LHS] {
				ml[rl.LHS] = t
				ch = true
			}
		}
	}
	return ml
}

func (sg *SGram) minSeq(ml []int, nodes []*SNode) int {
	t := 0
	for _, n := range nodes {
		t += sg.minNode(ml, n)
		if t > 1<<20 {
			t = 1 << 20
		}
	}
	return t
}

func (sg *SGram) minNode(ml []int, n *SNode) int {
	switch n.Kind {
	case skSym:
		return ml[n.Sym]
	case skGroup:
		if n.Opt {
			return 0
		}
		return sg.minSeq(ml, n.Kids)
	case skChoice:
		best := 1 << 20
		for _, a := range n.Kids {
			if t := sg.minSeq(ml, a.Kids); t < best {
				best = t
			}
		}
		return best
	case skList:
		if n.Plus {
			return sg.minSeq(ml, n.Kids)
		}
		return 0
	}
	return 0
}

// RandSentence derives a random sentence of `start` from the SOURCE grammar.
func (sg *SGram) RandSentence(r *rand.Rand, start, maxLen int) ([]int, bool) {
	ml := sg.minLens()
	if ml[start] >= 1<<20 {
		return nil, false
	}
	var out []int
	steps := 0
	var seq func(nodes []*SNode, budget int) bool
	var node func(n *SNode, budget int) bool
	seq = func(nodes []*SNode, budget int) bool {
		for k, n := range nodes {
			rest := sg.minSeq(ml, nodes[k+1:])
			before := len(out)
			if !node(n, budget-rest) {
				return false
			}
			budget -= len(out) - before
		}
		return true
	}
	node = func(n *SNode, budget int) bool {
		steps++
		if steps > 3000 {
			return false
		}
		switch n.Kind {
		case skSym:
			if n.Sym < sg.NT {
				out = append(out, n.Sym)
				return true
			}
			var cands []int
			best, bl := -1, 1<<20
			for i, rl := range sg.Rules {
				if rl.LHS != n.Sym {
					continue
				}
				t := sg.minSeq(ml, rl.RHS)
				if t <= budget {
					cands = append(cands, i)
				}
				if t < bl {
					best, bl = i, t
				}
			}
			if len(cands) == 0 {
				if best < 0 || bl >= 1<<20 {
					return false
				}
				cands = []int{best}
			}
			return seq(sg.Rules[cands[r.Intn(len(cands))]].RHS, budget)
		case skGroup:
			if n.Opt && (sg.minSeq(ml, n.Kids) > budget || r.Intn(5) < 2) {
				return true
			}
			return seq(n.Kids, budget)
		case skChoice:
			var cands []*SNode
			for _, a := range n.Kids {
				if sg.minSeq(ml, a.Kids) <= budget {
					cands = append(cands, a)
				}
			}
			if len(cands) == 0 {
				cands = n.Kids
			}
			return seq(cands[r.Intn(len(cands))].Kids, budget)
		case skList:
			em := sg.minSeq(ml, n.Kids)
			cnt := r.Intn(4)
			if n.Plus && cnt == 0 {
				cnt = 1
			}
			for k := 0; k < cnt; k++ {
				need := em
				if k > 0 && n.Sep != 0 {
					need++
				}
				if k > 0 && need > budget {
					break
				}
				before := len(out)
				if k > 0 && n.Sep != 0 {
					out = append(out, n.Sep)
				}
				if !seq(n.Kids, budget-(len(out)-before)) {
					return false
				}
				budget -= len(out) - before
			}
			return true
		}
		return true
	}
	if !node(symNode(start), maxLen) {
		return nil, false
	}
	if len(out) > 14 {
		return nil, false
	}
	return out, true
}

// ---- the oracle ----

type srcTok struct{ sym, off, end int }

type srcEvent struct {
	Name     string
	Off, End int
}

type seqKey struct {
	first *SNode
	ln    int
	i, j  int
}
type ntKey struct{ sym, i, j int }
type nodeKey struct {
	n    *SNode
	i, j int
}

// srcOracle counts (capped at 2) the derivations of every span of the token string by every part of
// the source grammar and, when the derivation is unique, walks it to produce the expected events.
type srcOracle struct {
	g      *SGram
	toks   []srcTok
	endOff int // offset of the end-of-input token (= length of the text)
	fixWS  bool
	nt     map[ntKey]int
	seqM   map[seqKey]int
	listM  map[nodeKey]int
	byLHS  map[int][]int
}

func cap2(v int) int {
	if v > 2 {
		return 2
	}
	return v
}

func newSrcOracle(g *SGram, toks []srcTok, endOff int, fixWS bool) *srcOracle {
	o := &srcOracle{g: g, toks: toks, endOff: endOff, fixWS: fixWS, nt: map[ntKey]int{}, byLHS: map[int][]int{}}
	for i, rl := range g.Rules {
		o.byLHS[rl.LHS] = append(o.byLHS[rl.LHS], i)
	}
	n := len(toks)
	for ch := true; ch; {
		ch = false
		o.seqM = map[seqKey]int{}
		o.listM = map[nodeKey]int{}
		for ln := 0; ln <= n; ln++ {
			for i := 0; i+ln <= n; i++ {
				j := i + ln
				for s := g.NT; s < g.NT+g.NN; s++ {
					v := 0
					for _, ri := range o.byLHS[s] {
						v = cap2(v + o.cntSeq(g.Rules[ri].RHS, i, j))
					}
					if v != o.nt[ntKey{s, i, j}] {
						o.nt[ntKey{s, i, j}] = v
						ch = true
					}
				}
			}
		}
	}
	return o
}

func (o *srcOracle) cntSeq(nodes []*SNode, i, j int) int {
	switch len(nodes) {
	case 0:
		if i == j {
			return 1
		}
		return 0
	case 1:
		return o.cntNode(nodes[0], i, j)
	}
	key := seqKey{nodes[0], len(nodes), i, j}
	if v, ok := o.seqM[key]; ok {
		return v
	}
	v := 0
	for k := i; k <= j && v < 2; k++ {
		if a := o.cntNode(nodes[0], i, k); a > 0 {
			v = cap2(v + a*o.cntSeq(nodes[1:], k, j))
		}
	}
	o.seqM[key] = v
	return v
}

func (o *srcOracle) cntNode(n *SNode, i, j int) int {
	switch n.Kind {
	case skSym:
		if n.Sym < o.g.NT {
			if j == i+1 && o.toks[i].sym == n.Sym {
				return 1
			}
			return 0
		}
		return o.nt[ntKey{n.Sym, i, j}]
	case skMarker:
		if i == j {
			return 1
		}
		return 0
	case skGroup:
		v := o.cntSeq(n.Kids, i, j)
		if n.Opt && i == j {
			v++
		}
		return cap2(v)
	case skChoice:
		v := 0
		for _, a := range n.Kids {
			v = cap2(v + o.cntSeq(a.Kids, i, j))
		}
		return v
	case skList:
		return o.cntList(n, i, j)
	}
	return 0
}

// cntList: number of ways to split toks[i:j] into list iterations (or the empty list).
func (o *srcOracle) cntList(n *SNode, i, j int) int {
	v := o.cntIter(n, i, j)
	if !n.Plus && i == j {
		v++ // the empty list
	}
	return cap2(v)
}

// cntIter: toks[i:j] = elem (sep elem)*, at least one element.
func (o *srcOracle) cntIter(n *SNode, i, j int) int {
	key := nodeKey{n, i, j}
	if v, ok := o.listM[key]; ok {
		return v
	}
	o.listM[key] = 0 // cycle cut (an element that derives the empty string without a separator)
	v := 0
	for k := i; k <= j && v < 2; k++ {
		a := o.cntSeq(n.Kids, i, k)
		if a == 0 {
			continue
		}
		switch {
		case k == j:
			v = cap2(v + a)
		case n.Sep != 0:
			if o.toks[k].sym == n.Sep {
				v = cap2(v + a*o.cntIter(n, k+1, j))
			}
		case k == i:
			// empty element without a separator: any number of them fits, ambiguous if the rest matches
			if o.cntIter(n, k, j) > 0 || o.cntSeq(n.Kids, i, j) > 0 {
				v = 2
			}
		default:
			v = cap2(v + a*o.cntIter(n, k, j))
		}
	}
	o.listM[key] = v
	return v
}

// one entry of the enclosing rule (a terminal, a nonterminal instance or a whole list)
type srcItem struct{ off, end int }

// the rule instance (or list iteration) under construction
type srcFrame struct {
	items  []srcItem
	evs    []srcEvent // events of completed nested nonterminals / list iterations, in text order
	inline []srcEvent // this rule's own inline arrows, in closing order
}

func (o *srcOracle) offAt(p int) int {
	if p < len(o.toks) {
		return o.toks[p].off
	}
	return o.endOff
}

// span of a run of entries that starts at token position p (needed when the run is empty)
func (o *srcOracle) span(items []srcItem, p int) (int, int) {
	if len(items) == 0 {
		// an empty part sits at the following token
		return o.offAt(p), o.offAt(p)
	}
	last := len(items) - 1
	if o.fixWS {
		// trailing empty sub-parts do not extend the range
		for last > 0 && items[last].off == items[last].end {
			last--
		}
	}
	return items[0].off, items[last].end
}

func (o *srcOracle) walkSeq(nodes []*SNode, i, j int, f *srcFrame) {
	if len(nodes) == 0 {
		return
	}
	if len(nodes) == 1 {
		o.walkNode(nodes[0], i, j, f)
		return
	}
	for k := i; k <= j; k++ {
		if o.cntNode(nodes[0], i, k) > 0 && o.cntSeq(nodes[1:], k, j) > 0 {
			o.walkNode(nodes[0], i, k, f)
			o.walkSeq(nodes[1:], k, j, f)
			return
		}
	}
}

func (o *srcOracle) walkNode(n *SNode, i, j int, f *srcFrame) {
	switch n.Kind {
	case skSym:
		if n.Sym < o.g.NT {
			f.items = append(f.items, srcItem{o.toks[i].off, o.toks[i].end})
			return
		}
		it, evs := o.walkNT(n.Sym, i, j)
		f.items = append(f.items, it)
		f.evs = append(f.evs, evs...)
	case skMarker:
	case skGroup:
		if n.Opt && i == j && o.cntSeq(n.Kids, i, j) == 0 {
			return // absent optional part: no node
		}
		start := len(f.items)
		o.walkSeq(n.Kids, i, j, f)
		if n.Arrow != "" {
			s, e := o.span(f.items[start:], j)
			f.inline = append(f.inline, srcEvent{n.Arrow, s, e})
		}
	case skChoice:
		start := len(f.items)
		for _, a := range n.Kids {
			if o.cntSeq(a.Kids, i, j) > 0 {
				o.walkSeq(a.Kids, i, j, f)
				if a.Arrow != "" {
					s, e := o.span(f.items[start:], j)
					f.inline = append(f.inline, srcEvent{a.Arrow, s, e})
				}
				break
			}
		}
		if n.Arrow != "" {
			s, e := o.span(f.items[start:], j)
			f.inline = append(f.inline, srcEvent{n.Arrow, s, e})
		}
	case skList:
		var acc *srcItem // the list so far (one entry of the enclosing rule)
		if n.Plus || i < j {
			p := i
			for {
				// the next element is toks[p:k]
				k := -1
				for c := p; c <= j; c++ {
					if o.cntSeq(n.Kids, p, c) == 0 {
						continue
					}
					if c == j || (n.Sep != 0 && o.toks[c].sym == n.Sep && o.cntIter(n, c+1, j) > 0) || (n.Sep == 0 && c > p && o.cntIter(n, c, j) > 0) {
						k = c
						break
					}
				}
				if k < 0 {
					break
				}
				// one iteration = one rule instance `list: list sep elem | elem`
				it := &srcFrame{}
				if acc != nil {
					it.items = append(it.items, *acc)
					if n.Sep != 0 {
						it.items = append(it.items, srcItem{o.toks[p-1].off, o.toks[p-1].end})
					}
				}
				start := len(it.items)
				o.walkSeq(n.Kids, p, k, it)
				if n.Arrow != "" {
					s, e := o.span(it.items[start:], k)
					it.inline = append(it.inline, srcEvent{n.Arrow, s, e})
				}
				f.evs = append(f.evs, it.evs...)
				f.evs = append(f.evs, it.inline...)
				s, e := o.span(it.items, k)
				acc = &srcItem{s, e}
				if k == j {
					break
				}
				p = k
				if n.Sep != 0 {
					p++
				}
			}
		}
		if acc == nil {
			acc = &srcItem{o.offAt(j), o.offAt(j)} // the empty list: an empty part
		}
		f.items = append(f.items, *acc)
		if n.ListArrow != "" {
			s, e := o.span(f.items[len(f.items)-1:], j)
			f.inline = append(f.inline, srcEvent{n.ListArrow, s, e})
		}
	}
}

func (o *srcOracle) walkNT(sym, i, j int) (srcItem, []srcEvent) {
	for _, ri := range o.byLHS[sym] {
		rl := o.g.Rules[ri]
		if o.cntSeq(rl.RHS, i, j) == 0 {
			continue
		}
		f := &srcFrame{}
		o.walkSeq(rl.RHS, i, j, f)
		s, e := o.span(f.items, j)
		evs := append(f.evs, f.inline...)
		if ar := o.g.effArrow(rl); ar != "" {
			evs = append(evs, srcEvent{ar, s, e})
		}
		return srcItem{s, e}, evs
	}
	return srcItem{o.offAt(j), o.offAt(j)}, nil
}

// Expect returns the expected listener events for parsing the tokens through `in`.
// verdict: "unique" (events valid; consumed = number of tokens of the sentence), "ambiguous",
// "no sentence", "several prefixes" (no-eoi input where more than one prefix is a sentence).
func (o *srcOracle) Expect(in GInput) (evs []srcEvent, consumed int, verdict string) {
	n := len(o.toks)
	if in.Eoi {
		switch o.nt[ntKey{in.Sym, 0, n}] {
		case 0:
			return nil, 0, "no sentence"
		case 1:
		default:
			return nil, 0, "ambiguous"
		}
		_, evs = o.walkNT(in.Sym, 0, n)
		return evs, n, "unique"
	}
	found := -1
	for p := 0; p <= n; p++ {
		if c := o.nt[ntKey{in.Sym, 0, p}]; c > 0 {
			if found >= 0 {
				return nil, 0, "several prefixes"
			}
			if c > 1 {
				return nil, 0, "ambiguous"
			}
			found = p
		}
	}
	if found < 0 {
		return nil, 0, "no sentence"
	}
	_, evs = o.walkNT(in.Sym, 0, found)
	return evs, found, "unique"
}

func showSrcEvents(evs []srcEvent) string {
	var parts []string
	for _, e := range evs {
		parts = append(parts, fmt.Sprintf("%s:%d:%d", e.Name, e.Off, e.End))
	}
	return strings.Join(parts, " ")
}

// srcTokens splits the text into the single-letter tokens of the generated lexers.
func srcTokens(text string) []srcTok {
	var ts []srcTok
	for i := 0; i < len(text); i++ {
		if text[i] != ' ' {
			ts = append(ts, srcTok{int(text[i]-'a') + 1, i, i + 1})
		}
	}
	return ts
}
