package main

import (
	"bufio"
	"encoding/hex"
	"fmt"
	"io"
	"math/rand"
	"os"
	"os/exec"
	"strconv"
	"strings"

	"github.com/inspirer/textmapper/util/diff"
)

func init() {
	props["C27"] = c27
	props["C27-worker"] = c27WorkerMain
}

// ---- worker child process ----
//
// trace and middle call log.Fatal (os.Exit) when they find no snake. To observe that as an answer
// of one case instead of losing the whole run, the real code is called in a child process (the same
// binary, property "C27-worker") that answers one request per line:
//
//	mid a b      -> x,y,s            lcs a b -> d:i:e;...        ld hexleft hexright -> hex of LineDiff
//
// A recovered panic is answered "panic"; if the child dies the request is answered "fatal" and a new
// child is started.

func c27WorkerMain(c *Ctx) {
	in := bufio.NewReaderSize(os.Stdin, 1<<20)
	out := bufio.NewWriterSize(os.Stdout, 1<<20)
	for {
		line, err := in.ReadString('\n')
		if line = strings.TrimSpace(line); line != "" {
			fmt.Fprintln(out, c27Answer(strings.Fields(line)))
			out.Flush()
		}
		if err != nil {
			return
		}
	}
}

func c27ParseInts(s string) []int {
	if s == "-" {
		return nil
	}
	var ret []int
	for _, f := range strings.Split(s, ",") {
		v, _ := strconv.Atoi(f)
		ret = append(ret, v)
	}
	return ret
}

func c27Unhex(s string) string {
	if s == "-" {
		return ""
	}
	b, _ := hex.DecodeString(s)
	return string(b)
}

func c27Answer(f []string) (ans string) {
	defer func() {
		if recover() != nil {
			ans = "panic"
		}
	}()
	switch {
	case len(f) == 3 && f[0] == "mid":
		x, y, s := diff.VerifMiddle(c27ParseInts(f[1]), c27ParseInts(f[2]))
		return fmt.Sprintf("%d,%d,%d", x, y, s)
	case len(f) == 3 && f[0] == "lcs":
		return c27Chunks(diff.VerifLCS(c27ParseInts(f[1]), c27ParseInts(f[2])))
	case len(f) == 3 && f[0] == "ld":
		return hexs([]byte(diff.LineDiff(c27Unhex(f[1]), c27Unhex(f[2]))))
	}
	return "bad-request"
}

type c27Worker struct {
	cmd *exec.Cmd
	in  io.WriteCloser
	out *bufio.Reader
	dir string
}

var c27W *c27Worker

func (w *c27Worker) start() {
	exe, err := os.Executable()
	must(err)
	w.cmd = exec.Command(exe, "C27-worker", "-out", w.dir)
	w.in, err = w.cmd.StdinPipe()
	must(err)
	o, err := w.cmd.StdoutPipe()
	must(err)
	w.out = bufio.NewReaderSize(o, 1<<20)
	must(w.cmd.Start())
}

func (w *c27Worker) stop() {
	if w.cmd != nil {
		w.in.Close()
		w.cmd.Wait()
		w.cmd = nil
	}
}

// call runs one request against the real code.
func (w *c27Worker) call(req string) string {
	if w.cmd == nil {
		w.start()
	}
	_, werr := io.WriteString(w.in, req+"\n")
	line, rerr := w.out.ReadString('\n')
	if werr != nil || rerr != nil {
		w.in.Close()
		w.cmd.Wait()
		w.cmd = nil
		return "fatal"
	}
	return strings.TrimSpace(line)
}

func c27ParseChunks(s string) ([]diff.VerifChunk, bool) {
	if s == "_" {
		return nil, true
	}
	var ret []diff.VerifChunk
	for _, p := range strings.Split(s, ";") {
		var ch diff.VerifChunk
		if n, err := fmt.Sscanf(p, "%d:%d:%d", &ch.Del, &ch.Ins, &ch.Eq); n != 3 || err != nil {
			return nil, false
		}
		ret = append(ret, ch)
	}
	return ret, true
}

// c27KnownToken marks inputs of the class "one run of more than 14 inserted or deleted lines":
// hunk.add elides such runs, the rendered hunk cannot be applied (reported finding).
const c27KnownToken = "C27-long-run-elision"

func c27(c *Ctx) {
	c.Rule = "sequences over 1..5 distinct values (random pairs; b derived from a by random runs of insertions/deletions/replacements, " +
		"runs up to 40; equal, empty, one-element, shared prefix/suffix) fed to lcs/middle through hooks: the returned script is judged by the " +
		"verified DP reference (applies, cost = |a|+|b|-2*LCS) and compared with the mirror; texts over a small alphabet of lines " +
		"(including empty lines, lines that look like hunk headers/markers, with and without trailing newline, equal texts, empty texts; plus " +
		"texts built from groups of look-alike lines: trailing CR, CRLF copy of an LF text, trailing blanks/tabs, case, prefixes, NUL and non-UTF-8 bytes, " +
		"composed/decomposed accents, final line with/without LF/CRLF) fed to " +
		"diff.LineDiff: rendering compared with the mirror byte for byte, hunks applied by the verified applier. The hunks-apply clause is only " +
		"evaluated on inputs whose script has no run of more than 14 inserted or deleted lines (longer runs are elided by hunk.add: finding " +
		c27KnownToken + ", reproduced by fixed cases); on longer runs the rendering is still compared (op ldr) and the script is still judged. " +
		"A few large instances per run (edit distance 600..1500 after trimming, common blocks far from the centre of the edit graph; sequences through " +
		"lcs/middle, texts with runs <= 14 through LineDiff, where the number of -/+ lines is also compared with the DP minimum). " +
		"non-trivial = a and b differ and share at least one element; distinct by case line"

	dir, err := os.MkdirTemp("", "tmh-c27-")
	must(err)
	defer os.RemoveAll(dir)
	c27W = &c27Worker{dir: dir}
	defer c27W.stop()

	// Fixed cases first (corpus): the documented elision.
	c27Fixed(c)

	n := c.N(1500, 40000)
	for i := 0; i < n; i++ {
		a, b, shape := c27Seqs(c.Rng, c.N(40, 70))
		c.Count("seq " + shape)
		c27LCS(c, a, b)
		if len(a) >= 1 && len(b) >= 1 && c.Rng.Intn(2) == 0 {
			c27Mid(c, a, b)
		}
	}
	// exhaustive small sequences over {0,1,2}
	maxLen := c.N(4, 6)
	var all [][]int
	var rec func(cur []int)
	rec = func(cur []int) {
		all = append(all, append([]int(nil), cur...))
		if len(cur) == maxLen {
			return
		}
		for v := 0; v < 3; v++ {
			rec(append(cur, v))
		}
	}
	rec(nil)
	stride := c.N(7, 1)
	for i, a := range all {
		for j, b := range all {
			if (i*31+j)%stride != 0 {
				continue
			}
			c.Count("seq exhaustive-small")
			c27LCS(c, a, b)
			if len(a) >= 1 && len(b) >= 1 {
				c27Mid(c, a, b)
			}
		}
	}

	// a few LARGE instances: edit distance well above 512 after trimming, common blocks off-centre
	c27Large(c)

	m := c.N(1200, 30000)
	for i := 0; i < m; i++ {
		l, r, shape := c27Texts(c.Rng)
		c27LD(c, l, r, shape, false)
	}
	// texts whose lines are "almost equal": anything an interning of lines that normalises could conflate
	m = c.N(1200, 30000)
	for i := 0; i < m; i++ {
		l, r, shape := c27ConfusableTexts(c.Rng)
		c27LD(c, l, r, shape, false)
	}
}

// ---- sequences ----

func c27Seqs(r *rand.Rand, maxLen int) (a, b []int, shape string) {
	k := 1 + r.Intn(5)
	rnd := func(n int) []int {
		s := make([]int, n)
		for i := range s {
			s[i] = r.Intn(k)
		}
		return s
	}
	switch r.Intn(10) {
	case 0:
		return rnd(r.Intn(maxLen)), rnd(r.Intn(maxLen)), "random-pair"
	case 1:
		a = rnd(r.Intn(12))
		return a, append([]int(nil), a...), "equal"
	case 2:
		if r.Intn(2) == 0 {
			return nil, rnd(r.Intn(30)), "empty-a"
		}
		return rnd(r.Intn(30)), nil, "empty-b"
	case 3:
		if r.Intn(2) == 0 {
			return rnd(1), rnd(r.Intn(12)), "single-a"
		}
		return rnd(r.Intn(12)), rnd(1), "single-b"
	case 4:
		// disjoint alphabets
		a = rnd(r.Intn(20))
		b = rnd(r.Intn(20))
		for i := range b {
			b[i] += 10
		}
		return a, b, "disjoint"
	}
	// b derived from a by edit runs
	a = rnd(r.Intn(maxLen))
	long := r.Intn(4) == 0
	shape = "edited"
	if long {
		shape = "edited-long-runs"
	}
	fresh := 100
	for i := 0; i <= len(a); {
		if r.Intn(6) == 0 {
			run := 1 + r.Intn(4)
			if long && r.Intn(2) == 0 {
				run = 13 + r.Intn(28)
			}
			switch r.Intn(3) {
			case 0: // insert
				for j := 0; j < run; j++ {
					if r.Intn(3) == 0 {
						b = append(b, fresh)
						fresh++
					} else {
						b = append(b, r.Intn(k))
					}
				}
			case 1: // delete
				i += run
			default: // replace
				i += run
				for j := 0; j < 1+r.Intn(run); j++ {
					b = append(b, r.Intn(k))
				}
			}
		}
		if i < len(a) {
			b = append(b, a[i])
		}
		i++
	}
	if r.Intn(2) == 0 {
		a, b = b, a
	}
	return a, b, shape
}

func c27DP(a, b []int) int {
	prev := make([]int, len(b)+1)
	cur := make([]int, len(b)+1)
	for i := len(a) - 1; i >= 0; i-- {
		cur[len(b)] = 0
		for j := len(b) - 1; j >= 0; j-- {
			switch {
			case a[i] == b[j]:
				cur[j] = prev[j+1] + 1
			case prev[j] > cur[j+1]:
				cur[j] = prev[j]
			default:
				cur[j] = cur[j+1]
			}
		}
		prev, cur = cur, prev
	}
	return prev[0]
}

func c27Chunks(cs []diff.VerifChunk) string {
	if len(cs) == 0 {
		return "_"
	}
	parts := make([]string, len(cs))
	for i, ch := range cs {
		parts[i] = fmt.Sprintf("%d:%d:%d", ch.Del, ch.Ins, ch.Eq)
	}
	return strings.Join(parts, ";")
}

// c27Script validates an edit script the slow and obvious way.
func c27Script(a, b []int, cs []diff.VerifChunk) (cost int, why string) {
	ai, bi := 0, 0
	for _, ch := range cs {
		if ch.Del < 0 || ch.Ins < 0 || ch.Eq < 0 {
			return 0, "negative count"
		}
		cost += ch.Del + ch.Ins
		ai += ch.Del
		bi += ch.Ins
		for j := 0; j < ch.Eq; j++ {
			if ai >= len(a) || bi >= len(b) || a[ai] != b[bi] {
				return cost, "script does not transform a into b"
			}
			ai++
			bi++
		}
	}
	if ai != len(a) || bi != len(b) {
		return cost, "script does not transform a into b"
	}
	if opt := len(a) + len(b) - 2*c27DP(a, b); cost != opt {
		return cost, fmt.Sprintf("cost %d but the minimum is %d", cost, opt)
	}
	return cost, ""
}

func c27NonTrivial(a, b []int) bool {
	if fmt.Sprint(a) == fmt.Sprint(b) {
		return false
	}
	seen := map[int]bool{}
	for _, v := range a {
		seen[v] = true
	}
	for _, v := range b {
		if seen[v] {
			return true
		}
	}
	return false
}

func c27LCS(c *Ctx, a, b []int) {
	key := func(line string) string {
		if c27NonTrivial(a, b) {
			return line
		}
		return ""
	}
	ans := c27W.call(fmt.Sprintf("lcs %s %s", ints(a), ints(b)))
	// exact mirror
	line := fmt.Sprintf("lcsx %s %s", ints(a), ints(b))
	c.Case(line, ans, key(line))
	cs, ok := c27ParseChunks(ans)
	if !ok {
		c.Violate("lcs does not return a script: "+ans, line)
		return
	}
	// semantic verdict
	line = fmt.Sprintf("lcs %s %s %s", ints(a), ints(b), c27Chunks(cs))
	cost, why := c27Script(a, b, cs)
	if why != "" {
		c.Case(line, "bad "+why, key(line))
		c.Violate("lcs: "+why, line)
		return
	}
	c.Case(line, fmt.Sprintf("ok %d", cost), key(line))
}

func c27Mid(c *Ctx, a, b []int) {
	line := fmt.Sprintf("mid %s %s", ints(a), ints(b))
	ans := c27W.call(line)
	if ans != "fatal" && ans != "panic" {
		ans += " opt" // what the property needs from middle; the Lean side evaluates it
	}
	key := ""
	if c27NonTrivial(a, b) {
		key = line
	}
	c.Case(line, ans, key)
}

// ---- large instances ----

// c27Large: sequences and texts whose minimal edit distance is 600..1500 once the common prefix and
// suffix are removed, with the common material far from the centre of the edit graph (a search that
// gives up early or assumes a near-diagonal alignment loses the common blocks).
func c27Large(c *Ctx) {
	r := c.Rng
	fresh := 1000000
	uniq := func(n int) []int {
		s := make([]int, n)
		for i := range s {
			s[i] = fresh
			fresh++
		}
		return s
	}
	block := func(n, k int) []int {
		s := make([]int, n)
		for i := range s {
			if k == 0 {
				s[i] = fresh
				fresh++
			} else {
				s[i] = r.Intn(k)
			}
		}
		return s
	}
	cat := func(parts ...[]int) []int {
		var ret []int
		for _, p := range parts {
			ret = append(ret, p...)
		}
		return ret
	}
	n := c.N(10, 60)
	for i := 0; i < n; i++ {
		var a, b []int
		shape := ""
		switch i % 5 {
		case 0: // block at the end of a, at the start of b
			B := block(20+r.Intn(60), []int{0, 0, 3}[r.Intn(3)])
			a = cat(uniq(300+r.Intn(400)), B)
			b = cat(B, uniq(300+r.Intn(400)))
			shape = "tail-block/head-block"
		case 1: // the converse, with a short common prefix and suffix around
			B := block(20+r.Intn(60), 0)
			P, S := block(r.Intn(5), 0), block(r.Intn(5), 0)
			a = cat(P, B, uniq(300+r.Intn(350)), S)
			b = cat(P, uniq(300+r.Intn(350)), B, S)
			shape = "head-block/tail-block"
		case 2: // several common blocks, all in the last third of a and the first third of b
			var bs [][]int
			for j := 0; j < 2+r.Intn(4); j++ {
				bs = append(bs, block(5+r.Intn(25), 0))
			}
			a = uniq(350 + r.Intn(300))
			b = nil
			for _, B := range bs {
				a = cat(a, B, uniq(r.Intn(6)))
				b = cat(b, B, uniq(r.Intn(6)))
			}
			b = cat(b, uniq(350+r.Intn(300)))
			shape = "several off-centre blocks"
		case 3: // very unbalanced lengths, common block near one corner
			B := block(10+r.Intn(30), 0)
			a = cat(uniq(620+r.Intn(500)), B, uniq(r.Intn(10)))
			b = cat(uniq(r.Intn(10)), B, uniq(20+r.Intn(40)))
			if r.Intn(2) == 0 {
				a, b = b, a
			}
			shape = "unbalanced"
		default: // long random sequences over 8 symbols
			a = block(450+r.Intn(150), 8)
			b = block(450+r.Intn(150), 8)
			shape = "random over 8 symbols"
		}
		c.Count("large " + shape)
		c27LCS(c, a, b)
		// the sub-problem trace hands to middle: without the common prefix and suffix
		p := 0
		for p < len(a) && p < len(b) && a[p] == b[p] {
			p++
		}
		q := 0
		for q < len(a)-p && q < len(b)-p && a[len(a)-1-q] == b[len(b)-1-q] {
			q++
		}
		if len(a)-p-q >= 1 && len(b)-p-q >= 1 {
			c27Mid(c, a[p:len(a)-q], b[p:len(b)-q])
		}
	}
	// LineDiff level: runs of at most 14 changed lines (so that the hunks clause is evaluated), about
	// 1100 changed lines in total, common lines of the first text all in its first part and matched
	// late in the second text
	nt := c.N(2, 12)
	for i := 0; i < nt; i++ {
		run := 9 + r.Intn(6)
		blocks := 36 + r.Intn(10)
		var left, right []string
		for j := 0; j < blocks; j++ {
			for k := 0; k < run; k++ {
				left = append(left, fmt.Sprintf("del %d.%d", j, k))
			}
			left = append(left, fmt.Sprintf("keep %d", j))
			right = append(right, fmt.Sprintf("keep %d", j))
		}
		for j := 0; j < blocks; j++ {
			for k := 0; k < run; k++ {
				right = append(right, fmt.Sprintf("ins %d.%d %%d", j, k))
			}
			left = append(left, fmt.Sprintf("tail %d", j))
			right = append(right, fmt.Sprintf("tail %d", j))
		}
		l, rt := strings.Join(left, "\n"), strings.Join(right, "\n")
		if i%2 == 1 {
			l, rt = rt, l
		}
		c27LD(c, l+"\n", rt+"\n", "large off-centre short runs", false)
	}
}

// ---- texts ----

// c27Confusable: groups of lines that differ only by a trailing carriage return, trailing blanks or
// tabs, letter case, being a prefix of each other, NUL or non-UTF-8 bytes, composed/decomposed forms.
var c27Confusable = [][]string{
	{"x", "x\r", "x ", "x\t", "X", "xy", "x\r\r", " x", "x\x00", "x\xff"},
	{"", "\r", " ", "\t", "\x00", "\xff", "\xc3"},
	{"end", "end\r", "END", "end ", "en", "endif"},
	{"\xc3\xa9", "e\xcc\x81", "\xe9", "\xc3\xa9\r", "e"},
	{"a b", "a  b", "a\tb", "a b\r", "A B"},
	// printf / template / escape metacharacters: anything a renderer might interpret
	{"%d", "%s", "100%", "%%", "%!", "%", "x%", "%v%", "%[1]d", "%!d(MISSING)", "%c%v", "% d", "%-5s|", "%*d"},
	{"\\", "\\n", "a\\", "\\\\", "\\x41", "$1", "${x}", "{{.}}", "{{end}}", "`", "\"", "'", "&amp;", "<a>"},
}

// c27ConfusableTexts builds a pair of texts from such groups.
func c27ConfusableTexts(r *rand.Rand) (left, right, shape string) {
	g := c27Confusable[r.Intn(len(c27Confusable))]
	g2 := c27Confusable[r.Intn(len(c27Confusable))]
	pool := append(append([]string(nil), g[:1+r.Intn(len(g))]...), g2[:1+r.Intn(len(g2))]...)
	line := func() string { return pool[r.Intn(len(pool))] }
	variant := func(s string) string {
		// another member of a group that contains s, else s with a changed ending
		for _, grp := range c27Confusable {
			for _, m := range grp {
				if m == s {
					return grp[r.Intn(len(grp))]
				}
			}
		}
		return s + "\r"
	}
	n := r.Intn(13)
	var a []string
	for i := 0; i < n; i++ {
		if r.Intn(4) == 0 {
			a = append(a, fmt.Sprintf("u%d", i))
		} else {
			a = append(a, line())
		}
	}
	var b []string
	switch r.Intn(6) {
	case 0: // the CRLF copy of an LF text (or the converse)
		shape = "confusable crlf-copy"
		for _, l := range a {
			b = append(b, l+"\r")
		}
		if r.Intn(2) == 0 {
			a, b = b, a
		}
	case 1: // some lines get a carriage return
		shape = "confusable some-cr"
		for _, l := range a {
			if r.Intn(3) == 0 {
				l = l + "\r"
			}
			b = append(b, l)
		}
	case 2: // some lines replaced by a look-alike
		shape = "confusable variants"
		for _, l := range a {
			if r.Intn(3) == 0 {
				l = variant(l)
			}
			b = append(b, l)
		}
	case 3: // a look-alike of an existing line is inserted or deleted
		shape = "confusable insert-variant"
		for _, l := range a {
			if r.Intn(4) == 0 {
				b = append(b, variant(l))
			}
			if r.Intn(6) != 0 {
				b = append(b, l)
			}
		}
	case 4:
		shape = "confusable equal"
		b = append([]string(nil), a...)
	default:
		shape = "confusable random-pair"
		for i := r.Intn(13); i > 0; i-- {
			b = append(b, line())
		}
	}
	left, right = strings.Join(a, "\n"), strings.Join(b, "\n")
	switch r.Intn(6) {
	case 0:
		left += "\n"
		shape += " nl/-"
	case 1:
		right += "\n"
		shape += " -/nl"
	case 2:
		left += "\n"
		right += "\n"
		shape += " nl/nl"
	case 3:
		left += "\n"
		right += "\r\n"
		shape += " nl/crnl"
	case 4:
		right += "\r"
		shape += " -/cr"
	default:
		shape += " -/-"
	}
	return
}

var c27Alphabet = []string{"a", "b", "c", "", "x y", "@@ -1,1 +1,1 @@", "+a", "-b", " ", "  ... 2 lines skipped ...", "func f() {", "}",
	"%d items", "100%", "fmt.Printf(\"%s: %v\\n\", a, b)", "%"}

func c27Texts(r *rand.Rand) (left, right, shape string) {
	k := 1 + r.Intn(len(c27Alphabet))
	perm := r.Perm(len(c27Alphabet))[:k]
	line := func() string { return c27Alphabet[perm[r.Intn(k)]] }
	uniq := 0
	fresh := func() string { uniq++; return fmt.Sprintf("u%d", uniq) }
	var a, b []string
	n := r.Intn(45)
	for i := 0; i < n; i++ {
		if r.Intn(3) == 0 {
			a = append(a, fresh()) // distinct lines: long equal stretches between changes
		} else {
			a = append(a, line())
		}
	}
	shape = "edited"
	switch r.Intn(12) {
	case 0:
		b = append([]string(nil), a...)
		shape = "equal"
	case 1:
		a = nil
		for i := r.Intn(12); i > 0; i-- {
			b = append(b, line())
		}
		shape = "empty-left"
	case 2:
		for i := r.Intn(12); i > 0; i-- {
			b = append(b, line())
		}
		a, b = b, nil
		shape = "empty-right"
	case 3:
		for i := r.Intn(30); i > 0; i-- {
			b = append(b, line())
		}
		shape = "random-pair"
	default:
		p := 3 + r.Intn(12)
		for i := 0; i <= len(a); {
			if r.Intn(p) == 0 {
				run := 1 + r.Intn(5)
				if r.Intn(5) == 0 {
					run = 10 + r.Intn(5) // up to 14: the longest run that is rendered in full
				}
				switch r.Intn(3) {
				case 0:
					for j := 0; j < run; j++ {
						b = append(b, fresh())
					}
				case 1:
					i += run
				default:
					i += run
					for j := r.Intn(run + 1); j > 0; j-- {
						b = append(b, line())
					}
				}
			}
			if i < len(a) {
				b = append(b, a[i])
			}
			i++
		}
	}
	left, right = strings.Join(a, "\n"), strings.Join(b, "\n")
	switch r.Intn(4) {
	case 0:
		left += "\n"
		shape += " nl/-"
	case 1:
		right += "\n"
		shape += " -/nl"
	case 2:
		left += "\n"
		right += "\n"
		shape += " nl/nl"
	default:
		shape += " -/-"
	}
	return
}

// c27Split mirrors the id assignment of LineDiff (first occurrence order).
func c27Split(left, right string) (a, b []int) {
	index := map[string]int{}
	split := func(s string) []int {
		var ret []int
		for _, l := range strings.Split(s, "\n") {
			id, ok := index[l]
			if !ok {
				id = len(index)
				index[l] = id
			}
			ret = append(ret, id)
		}
		return ret
	}
	return split(left), split(right)
}

// c27Apply is the harness' own patch applier (independent of the Lean one).
func c27Apply(patch, left string) (string, bool) {
	if patch == "" {
		return left, true
	}
	if !strings.HasSuffix(patch, "\n") {
		return "", false
	}
	pl := strings.Split(strings.TrimSuffix(patch, "\n"), "\n")
	a := strings.Split(left, "\n")
	var out []string
	pos := 0
	for i := 0; i < len(pl); {
		var l1, s1, l2, s2 int
		if n, err := fmt.Sscanf(pl[i], "@@ -%d,%d +%d,%d @@", &l1, &s1, &l2, &s2); n != 4 || err != nil ||
			pl[i] != fmt.Sprintf("@@ -%d,%d +%d,%d @@", l1, s1, l2, s2) {
			return "", false
		}
		i++
		if l1-1 < pos || l1-1 > len(a) {
			return "", false
		}
		out = append(out, a[pos:l1-1]...)
		pos = l1 - 1
		if len(out)+1 != l2 {
			return "", false
		}
		nl, nr := 0, 0
		for i < len(pl) && !strings.HasPrefix(pl[i], "@") {
			if pl[i] == "" {
				return "", false
			}
			c, text := pl[i][0], pl[i][1:]
			switch c {
			case '+':
				out = append(out, text)
				nr++
			case '-', ' ':
				if pos >= len(a) || a[pos] != text {
					return "", false
				}
				pos++
				nl++
				if c == ' ' {
					out = append(out, text)
					nr++
				}
			default:
				return "", false
			}
			i++
		}
		if nl != s1 || nr != s2 {
			return "", false
		}
	}
	out = append(out, a[pos:]...)
	return strings.Join(out, "\n"), true
}

func c27LD(c *Ctx, left, right, shape string, fixed bool) {
	a, b := c27Split(left, right)
	longRun := false
	hl, hr := hexs([]byte(left)), hexs([]byte(right))
	csAns := c27W.call(fmt.Sprintf("lcs %s %s", ints(a), ints(b)))
	cs, csOK := c27ParseChunks(csAns)
	if csOK {
		// the script LineDiff renders (lcs on the line ids of these texts), judged like every other script
		line := fmt.Sprintf("lcs %s %s %s", ints(a), ints(b), c27Chunks(cs))
		if cost, why := c27Script(a, b, cs); why != "" {
			c.Case(line, "bad "+why, "")
			c.Violate(fmt.Sprintf("script of LineDiff(%q, %q): %s", c27Short(left), c27Short(right), why), line)
		} else {
			c.Case(line, fmt.Sprintf("ok %d", cost), "")
		}
	}
	textAns := c27W.call(fmt.Sprintf("ld %s %s", hl, hr))
	panicked := textAns == "fatal" || textAns == "panic"
	text := ""
	if !panicked {
		text = c27Unhex(textAns)
	}
	for _, ch := range cs {
		if ch.Del > 14 || ch.Ins > 14 {
			longRun = true
		}
	}
	key := ""
	if left != right && c27NonTrivial(a, b) {
		key = hl + " " + hr
	}
	if panicked {
		line := fmt.Sprintf("ldr %s %s", hl, hr)
		c.Case(line, textAns, key)
		c.Violate("LineDiff does not return ("+textAns+")", line)
		return
	}
	if longRun && !fixed {
		// rendering only; the hunks-apply clause is not evaluated on this class (known finding)
		c.Count("text long-run (rendering compared, hunks clause not evaluated)")
		c.Case(fmt.Sprintf("ldr %s %s", hl, hr), hexs([]byte(text)), key)
		return
	}
	c.Count("text " + shape)
	res, ok := c27Apply(text, left)
	applies := ok && res == right
	empty := text == ""
	line := fmt.Sprintf("ld %s %s %s", hl, hr, hexs([]byte(text)))
	changed := 0
	for _, pl := range strings.Split(text, "\n") {
		if strings.HasPrefix(pl, "+") || strings.HasPrefix(pl, "-") {
			changed++
		}
	}
	minChanged := len(a) + len(b) - 2*c27DP(a, b)
	minimal := changed == minChanged
	c.Case(line, fmt.Sprintf("%s applies=%s empty=%s minimal=%s", hexs([]byte(text)), b2s(applies), b2s(empty), b2s(minimal)), key)
	tag := ""
	if longRun {
		tag = c27KnownToken + " "
	}
	if empty != (left == right) {
		c.Violate("LineDiff output is empty but the texts differ, or non-empty for equal texts", tag+line)
	} else if !applies {
		c.Violate(fmt.Sprintf("the hunks of LineDiff(%q, %q) = %q do not apply to the first text to produce the second", c27Short(left), c27Short(right), c27Short(text)), tag+line)
	} else if !minimal && !longRun {
		c.Violate(fmt.Sprintf("LineDiff shows %d changed lines, the minimum is %d", changed, minChanged), line)
	}
}

func c27Short(s string) string {
	if len(s) > 400 {
		return s[:400] + "…"
	}
	return s
}

func c27Fixed(c *Ctx) {
	var n20 []string
	for i := 0; i < 20; i++ {
		n20 = append(n20, fmt.Sprintf("n%d", i))
	}
	with := func(mid []string) string {
		return strings.Join(append(append([]string{"x"}, mid...), "y"), "\n")
	}
	// 14 changed lines: rendered in full, applies.
	c27LD(c, "x\ny", with(n20[:14]), "fixed 14 inserted", true)
	c27LD(c, with(n20[:14]), "x\ny", "fixed 14 deleted", true)
	// more than 14: elided ("... N lines skipped ..."), size over-counted by one: does not apply.
	c27LD(c, "x\ny", with(n20), "fixed 20 inserted (elided)", true)
	c27LD(c, with(n20[:15]), "x\ny", "fixed 15 deleted (elided)", true)
	c27LD(c, "", strings.Repeat("1\n2\n3\n", 6), "fixed test-suite example (elided)", true)
	// unit-test vectors of /repo/util/diff/diff_test.go
	c27LD(c, "aa", "bb", "fixed", true)
	c27LD(c, "X\na\nb\nc\nd\ne\nf\ng\nX2", "Y\na\nb\nc\nd\ne\nf\ng\nY2\n", "fixed", true)
	c27LD(c, "a\nb\nc\nd\ne\nX", "a\nb\nc\nd\ne\nY\n", "fixed", true)
}
