package main

// C15 — token sets equal their fixpoint definitions.
//
// Random .tm grammars with `%generate name = set(...)`, `%assert empty|nonempty set(...)`, set nonterminals
// `S : set(...) ;`, inline `set(...)` inside rules and (with an `error` token) the built-in afterErr set are
// compiled by the REAL compiler.Compile. Observed: grammar.Grammar.Sets[*].Terminals, the expansion of every
// set nonterminal in the compiled rules, the generated tables (`var name = []token.Type{...}`), and the
// "set complement cannot transitively depend on itself" error. The Lean side evaluates `setSpec` on the
// compiled plain rules (checked to be the rules that were written, under the compiler's symbol numbering).

import (
	"context"
	"fmt"
	"math/rand"
	"os"
	"os/exec"
	"regexp"
	"runtime/debug"
	"sort"
	"strconv"
	"strings"

	"github.com/inspirer/textmapper/compiler"
	"github.com/inspirer/textmapper/gen"
	"github.com/inspirer/textmapper/status"
)

func init() {
	props["C15"] = c15
	// child-process probe: the witness of [C15-inline-recursive-crash] kills the process (stack overflow)
	props["C15-crashprobe"] = func(c *Ctx) {
		debug.SetMaxStack(16 << 20)
		c15Compile("p", c15Head+"%generate r = set(r | 'a');\nS : set(r) 'b' ;\n")
	}
}

// c15CrashProbe reports whether the compiler dies on an inline set that reaches a recursive named set.
func c15CrashProbe() bool {
	dir, err := os.MkdirTemp("", "c15probe")
	if err != nil {
		return true
	}
	defer os.RemoveAll(dir)
	cmd := exec.Command(os.Args[0], "C15-crashprobe", "-out", dir)
	return cmd.Run() != nil
}

// ---- set expressions ----

type c15Expr struct {
	kind string // "leaf", "ref", "|", "&", "~"
	op   string // leaf: "", "first", "last", "precede", "follow"
	sym  string // leaf: symbol as written in the grammar ('a', N0, S1, error, eoi)
	ref  int    // ref: index of the named set
	a, b *c15Expr
	par  bool // written with redundant parentheses
}

func (e *c15Expr) text(names []string) string {
	var s string
	switch e.kind {
	case "leaf":
		s = e.sym
		if e.op != "" {
			s = e.op + " " + e.sym
		}
	case "ref":
		s = names[e.ref]
	case "~":
		in := e.a.text(names)
		if !e.a.par && (e.a.kind == "|" || e.a.kind == "&") {
			in = "(" + in + ")"
		}
		s = "~" + in
	case "|":
		l, r := e.a.text(names), e.b.text(names)
		if !e.b.par && e.b.kind == "|" {
			r = "(" + r + ")"
		}
		s = l + " | " + r
	case "&":
		l, r := e.a.text(names), e.b.text(names)
		if !e.a.par && e.a.kind == "|" {
			l = "(" + l + ")"
		}
		if !e.b.par && (e.b.kind == "|" || e.b.kind == "&") {
			r = "(" + r + ")"
		}
		s = l + " & " + r
	}
	if e.par {
		s = "(" + s + ")"
	}
	return s
}

// proto renders the expression in the prefix notation of the Lean driver; id maps a symbol to its number.
func (e *c15Expr) proto(id func(string) int) string {
	switch e.kind {
	case "leaf":
		k := map[string]string{"": "A", "first": "F", "last": "L", "precede": "P", "follow": "W"}[e.op]
		return k + strconv.Itoa(id(e.sym))
	case "ref":
		return "R" + strconv.Itoa(e.ref)
	case "~":
		return "C." + e.a.proto(id)
	case "|":
		return "U." + e.a.proto(id) + "." + e.b.proto(id)
	default:
		return "I." + e.a.proto(id) + "." + e.b.proto(id)
	}
}

func (e *c15Expr) walk(f func(*c15Expr)) {
	f(e)
	if e.a != nil {
		e.a.walk(f)
	}
	if e.b != nil {
		e.b.walk(f)
	}
}

// bare reports a (parenthesised) reference to a named set and its index.
func (e *c15Expr) bare() (int, bool) {
	if e.kind == "ref" {
		return e.ref, true
	}
	return 0, false
}

// ---- grammars ----

type c15Sym struct {
	name   string    // as written: 'a', error, N1, S0; "" for an inline set
	inline *c15Expr  // inline set(...)
	la     []c15La   // lookahead predicate (?= N & !M)
}

type c15La struct {
	name string
	neg  bool
}

func c15LaText(la []c15La) string {
	var parts []string
	for _, p := range la {
		if p.neg {
			parts = append(parts, "!"+p.name)
		} else {
			parts = append(parts, p.name)
		}
	}
	return "(?= " + strings.Join(parts, " & ") + ")"
}

type c15Gram struct {
	name       string
	terms      []string // 'a' ...
	recovering bool
	nts        []string          // ordinary nonterminals N0..
	alts       map[string][][]c15Sym
	setNts     []string          // S0..
	setNtExpr  []*c15Expr
	inputs     []string
	inputEoi   []bool
	names      []string   // named sets (generate), in declaration order
	named      []*c15Expr
	asserts    []*c15Expr
	assertKind []bool
}

func (g *c15Gram) tm() string {
	var sb strings.Builder
	fmt.Fprintf(&sb, "language %s(go);\n\nlang = %q\npackage = \"gp/%s\"\neventBased = true\n\n::lexer\n\n", g.name, g.name, g.name)
	for _, t := range g.terms {
		fmt.Fprintf(&sb, "%s: /%s/\n", t, strings.Trim(t, "'"))
	}
	if g.recovering {
		sb.WriteString("error:\ninvalid_token:\n")
	}
	sb.WriteString("\n::parser\n\n")
	var ins []string
	for i, in := range g.inputs {
		if g.inputEoi[i] {
			ins = append(ins, in)
		} else {
			ins = append(ins, in+" no-eoi")
		}
	}
	fmt.Fprintf(&sb, "%%input %s;\n\n", strings.Join(ins, ", "))
	ai := 0
	for i, e := range g.named {
		fmt.Fprintf(&sb, "%%generate %s = set(%s);\n", g.names[i], e.text(g.names))
		if ai < len(g.asserts) && i%2 == 0 {
			fmt.Fprintf(&sb, "%%assert %s set(%s);\n", map[bool]string{true: "empty", false: "nonempty"}[g.assertKind[ai]], g.asserts[ai].text(g.names))
			ai++
		}
	}
	for ; ai < len(g.asserts); ai++ {
		fmt.Fprintf(&sb, "%%assert %s set(%s);\n", map[bool]string{true: "empty", false: "nonempty"}[g.assertKind[ai]], g.asserts[ai].text(g.names))
	}
	sb.WriteString("\n")
	for _, n := range g.nts {
		fmt.Fprintf(&sb, "%s :\n", n)
		for i, alt := range g.alts[n] {
			if i == 0 {
				sb.WriteString("    ")
			} else {
				sb.WriteString("  | ")
			}
			if len(alt) == 0 {
				sb.WriteString("%empty")
			}
			for k, s := range alt {
				if k > 0 {
					sb.WriteString(" ")
				}
				if s.inline != nil {
					fmt.Fprintf(&sb, "set(%s)", s.inline.text(g.names))
				} else if s.la != nil {
					sb.WriteString(c15LaText(s.la))
				} else {
					sb.WriteString(s.name)
				}
			}
			sb.WriteString("\n")
		}
		sb.WriteString(";\n")
	}
	for i, n := range g.setNts {
		fmt.Fprintf(&sb, "%s : set(%s) ;\n", n, g.setNtExpr[i].text(g.names))
	}
	return sb.String()
}

func c15AltText(g *c15Gram, alt []c15Sym) string {
	var parts []string
	for _, s := range alt {
		if s.inline != nil {
			parts = append(parts, "set("+s.inline.text(g.names)+")")
		} else if s.la != nil {
			parts = append(parts, c15LaText(s.la))
		} else {
			parts = append(parts, s.name)
		}
	}
	return strings.Join(parts, " ")
}

type c15Cfg struct {
	noInvLeft    bool // avoid `&` whose left operand may evaluate to a co-finite set ([C15-intersect-alias])
	noFwdAlias   bool // avoid `set(name)` with a named set declared later or itself ([C15-forward-alias])
	noInlineRec  bool // inline set(...) must not reach a recursive named set ([C15-inline-recursive-crash])
	noShared     bool // no grammar with both an extracted nonterminal (inline set) and a reference to a named set ([C15-rearrange-shared])
}

type c15Gen struct {
	r   *rand.Rand
	g   *c15Gram
	cfg c15Cfg
	// symbols usable in leaves
	leafSyms []string
	anyCompl bool // some expression generated so far contains `~`
	banRef   map[int]bool // named sets that must not be referenced (inline sets: [C15-inline-recursive-crash])
	noRefs   bool         // no references to named sets at all
	noInline bool         // no inline sets
	noLa     bool         // no lookahead predicates (they are extracted into nonterminals as well)
}

func (x *c15Gen) leaf() *c15Expr {
	r := x.r
	sym := x.leafSyms[r.Intn(len(x.leafSyms))]
	op := []string{"", "", "first", "first", "last", "last", "precede", "follow", "follow"}[r.Intn(9)]
	if sym == "eoi" {
		op = []string{"", "", "follow", "precede"}[r.Intn(4)]
	}
	return &c15Expr{kind: "leaf", op: op, sym: sym}
}

func (x *c15Gen) expr(depth int, self int) *c15Expr {
	r := x.r
	if depth <= 0 || r.Intn(10) < 3 {
		if len(x.g.names) > 0 && !x.noRefs && r.Intn(4) == 0 {
			if j := r.Intn(len(x.g.names)); !x.banRef[j] {
				return &c15Expr{kind: "ref", ref: j}
			}
		}
		return x.leaf()
	}
	var e *c15Expr
	switch k := r.Intn(10); {
	case k < 4:
		e = &c15Expr{kind: "|", a: x.expr(depth-1, self), b: x.expr(depth-1, self)}
	case k < 7:
		e = &c15Expr{kind: "&", a: x.expr(depth-1, self), b: x.expr(depth-1, self)}
	default:
		e = &c15Expr{kind: "~", a: x.expr(depth-1, self)}
		x.anyCompl = true
	}
	e.par = r.Intn(6) == 0
	return e
}

// mayInv over-approximates "the IntSet this expression evaluates to may be co-finite".
func (x *c15Gen) mayInv(e *c15Expr, seen map[int]bool) bool {
	switch e.kind {
	case "leaf":
		if strings.HasPrefix(e.sym, "'") || e.sym == "error" || e.sym == "eoi" {
			return e.op == "precede" || e.op == "follow"
		}
		return true // through nonterminals anything can arrive
	case "ref":
		if seen[e.ref] || e.ref >= len(x.g.named) || x.g.named[e.ref] == nil {
			return true
		}
		seen[e.ref] = true
		return x.mayInv(x.g.named[e.ref], seen)
	case "~":
		return true
	case "|":
		return x.mayInv(e.a, seen) || x.mayInv(e.b, seen)
	default:
		return x.mayInv(e.a, seen) && x.mayInv(e.b, seen)
	}
}

// fix rewrites the avoided classes away.
func (x *c15Gen) fix(e *c15Expr) {
	if x.cfg.noInvLeft {
		e.walk(func(n *c15Expr) {
			if n.kind == "&" && x.mayInv(n.a, map[int]bool{}) {
				if !x.mayInv(n.b, map[int]bool{}) {
					n.a, n.b = n.b, n.a
				} else {
					n.kind = "|"
				}
			}
		})
	}
}

// precise class test used for tagging/avoiding: does the grammar contain `~` at all?
func c15HasCompl(g *c15Gram) bool {
	found := false
	chk := func(e *c15Expr) {
		e.walk(func(n *c15Expr) {
			if n.kind == "~" {
				found = true
			}
		})
	}
	for _, e := range g.named {
		chk(e)
	}
	for _, e := range g.asserts {
		chk(e)
	}
	for _, e := range g.setNtExpr {
		chk(e)
	}
	for _, alts := range g.alts {
		for _, alt := range alts {
			for _, s := range alt {
				if s.inline != nil {
					chk(s.inline)
				}
			}
		}
	}
	return found
}

func c15GenGram(r *rand.Rand, name string, cfg c15Cfg) *c15Gram {
	g := &c15Gram{name: name, alts: map[string][][]c15Sym{}}
	x := &c15Gen{r: r, g: g, cfg: cfg}
	if cfg.noShared {
		if r.Intn(2) == 0 {
			x.noRefs = true
		} else {
			x.noInline = true
			x.noLa = true
		}
	}
	nt := 2 + r.Intn(5)
	for i := 0; i < nt; i++ {
		g.terms = append(g.terms, fmt.Sprintf("'%c'", 'a'+i))
	}
	g.recovering = r.Intn(100) < 35
	nn := 2 + r.Intn(5)
	for i := 0; i < nn; i++ {
		g.nts = append(g.nts, fmt.Sprintf("N%d", i))
	}
	ns := []int{0, 0, 1, 1, 2}[r.Intn(5)]
	for i := 0; i < ns; i++ {
		g.setNts = append(g.setNts, fmt.Sprintf("S%d", i))
	}
	ng := 1 + r.Intn(5)
	for i := 0; i < ng; i++ {
		g.names = append(g.names, fmt.Sprintf("g%d", i))
	}
	g.named = make([]*c15Expr, ng)
	x.leafSyms = append(x.leafSyms, g.terms...)
	for k := 0; k < 3; k++ { // nonterminals three times as likely
		x.leafSyms = append(x.leafSyms, g.nts...)
	}
	x.leafSyms = append(x.leafSyms, g.setNts...)
	if g.recovering {
		x.leafSyms = append(x.leafSyms, "error")
	}
	if r.Intn(4) == 0 {
		x.leafSyms = append(x.leafSyms, "eoi")
	}
	// sets
	for i := range g.named {
		g.named[i] = x.expr(1+r.Intn(3), i)
	}
	for i := range g.setNts {
		g.setNtExpr = append(g.setNtExpr, x.expr(1+r.Intn(2), -1))
		_ = i
	}
	na := r.Intn(3)
	for i := 0; i < na; i++ {
		g.asserts = append(g.asserts, x.expr(1+r.Intn(2), -1))
		g.assertKind = append(g.assertKind, r.Intn(2) == 0)
	}
	// named sets that reach a reference cycle must not be used by inline sets while
	// syntax.appendSetName recurses without a visited set ([C15-inline-recursive-crash])
	if cfg.noInlineRec {
		refs := make([][]int, ng)
		for i, e := range g.named {
			e.walk(func(n *c15Expr) {
				if n.kind == "ref" {
					refs[i] = append(refs[i], n.ref)
				}
			})
		}
		reach := make([][]bool, ng)
		for i := range reach {
			reach[i] = make([]bool, ng)
			for _, j := range refs[i] {
				reach[i][j] = true
			}
		}
		for k := 0; k < ng; k++ {
			for i := 0; i < ng; i++ {
				for j := 0; j < ng; j++ {
					if reach[i][k] && reach[k][j] {
						reach[i][j] = true
					}
				}
			}
		}
		x.banRef = map[int]bool{}
		for i := 0; i < ng; i++ {
			for j := 0; j < ng; j++ {
				if (i == j || reach[i][j]) && reach[j][j] {
					x.banRef[i] = true
				}
			}
		}
	}
	// rules
	nullBias := []int{5, 15, 35}[r.Intn(3)]
	reach := nn
	if r.Intn(3) == 0 && nn > 2 {
		reach = nn - 1 - r.Intn(nn-2) // the last nonterminals are only referenced from each other
	}
	for i, n := range g.nts {
		na := 1 + r.Intn(3)
		for a := 0; a < na; a++ {
			var alt []c15Sym
			if !x.noLa && nn >= 3 && r.Intn(100) < 12 {
				// runtime lookahead predicate; its targets are preferably nonterminals that nothing else reaches
				pick := func() string {
					if reach < nn && r.Intn(10) < 7 {
						return g.nts[reach+r.Intn(nn-reach)]
					}
					return g.nts[r.Intn(nn)]
				}
				t1 := pick()
				la := []c15La{{t1, r.Intn(2) == 0}}
				if r.Intn(3) == 0 {
					if t2 := pick(); t2 != t1 {
						la = append(la, c15La{t2, r.Intn(2) == 0})
					}
				}
				alt = append(alt, c15Sym{la: la})
			}
			l := r.Intn(5)
			if r.Intn(100) < nullBias {
				l = 0
			}
			for k := 0; k < l; k++ {
				p := r.Intn(100)
				switch {
				case p < 42:
					alt = append(alt, c15Sym{name: g.terms[r.Intn(nt)]})
				case p < 82:
					lim := nn
					if i < reach {
						lim = reach
					}
					alt = append(alt, c15Sym{name: g.nts[r.Intn(lim)]})
				case p < 90 && ns > 0:
					alt = append(alt, c15Sym{name: g.setNts[r.Intn(ns)]})
				case p < 95 && !x.noInline:
					alt = append(alt, c15Sym{inline: x.expr(2, -1)})
				case p < 98 && g.recovering:
					alt = append(alt, c15Sym{name: "error"})
				default:
					alt = append(alt, c15Sym{name: g.terms[r.Intn(nt)]})
				}
			}
			// identical alternatives are merged by the compiler: keep the written rules distinct
			dup := false
			for _, o := range g.alts[n] {
				if c15AltText(g, o) == c15AltText(g, alt) {
					dup = true
				}
			}
			if !dup {
				g.alts[n] = append(g.alts[n], alt)
			}
		}
	}
	// inputs: nonterminals among the reachable block; eoi flags
	ni := 1 + r.Intn(3)
	perm := r.Perm(reach)
	for i := 0; i < ni && i < reach; i++ {
		g.inputs = append(g.inputs, g.nts[perm[i]])
		eoi := r.Intn(10) < 6
		g.inputEoi = append(g.inputEoi, eoi)
	}
	if r.Intn(12) != 0 { // mostly make sure some input requires eoi
		has := false
		for _, e := range g.inputEoi {
			has = has || e
		}
		if !has {
			g.inputEoi[r.Intn(len(g.inputEoi))] = true
		}
	}
	// avoided classes
	all := func(f func(e *c15Expr)) {
		for _, e := range g.named {
			f(e)
		}
		for _, e := range g.asserts {
			f(e)
		}
		for _, e := range g.setNtExpr {
			f(e)
		}
		for _, n := range g.nts {
			for _, alt := range g.alts[n] {
				for _, s := range alt {
					if s.inline != nil {
						f(s.inline)
					}
				}
			}
		}
	}
	all(x.fix)
	if cfg.noFwdAlias {
		for i, e := range g.named {
			if j, ok := e.bare(); ok && j >= i {
				g.named[i] = &c15Expr{kind: "|", a: e, b: &c15Expr{kind: "ref", ref: j}}
			}
		}
	}
	return g
}

// ---- compile and observe ----

type c15Run struct {
	errs      []string
	complErr  bool
	syms      map[string]int
	nTerms    int
	nSyms     int
	rules     [][2]interface{} // unused
	lhs       []int
	rhs       [][]int
	inputs    []string
	sets      map[string][]int
	genTables map[string][]int // tables parsed from the generated code (nil when generation failed)
	symNames  []string
}

var c15TableRe = regexp.MustCompile(`(?s)var (\w+) = \[\]token\.Type\{([^}]*)\}`)

func c15Compile(name, text string) (run *c15Run, panicked string) {
	defer func() {
		if r := recover(); r != nil {
			panicked = fmt.Sprint(r)
		}
	}()
	run = &c15Run{syms: map[string]int{}, sets: map[string][]int{}}
	g, err := compiler.Compile(context.Background(), name+".tm", text, compiler.Params{CheckOnly: false})
	if err != nil {
		for _, e := range status.FromError(err) {
			run.errs = append(run.errs, e.Msg)
			if strings.Contains(e.Msg, "set complement cannot transitively depend on itself") {
				run.complErr = true
			}
		}
	}
	if g == nil || g.Parser == nil {
		return run, ""
	}
	for i, s := range g.Syms {
		run.syms[s.Name] = i
		run.symNames = append(run.symNames, s.Name)
	}
	run.nTerms = g.Parser.NumTerminals
	run.nSyms = len(g.Syms)
	for _, r := range g.Parser.Rules {
		var rhs []int
		for _, s := range r.RHS {
			if !s.IsStateMarker() {
				rhs = append(rhs, int(s))
			}
		}
		run.lhs = append(run.lhs, int(r.LHS))
		run.rhs = append(run.rhs, rhs)
	}
	for _, in := range g.Parser.Inputs {
		run.inputs = append(run.inputs, fmt.Sprintf("%d:%s", run.nTerms+in.Nonterm, b2s(!in.NoEoi)))
	}
	for _, s := range g.Sets {
		t := append([]int(nil), s.Terminals...)
		sort.Ints(t)
		run.sets[s.Name] = t
	}
	if err == nil {
		w := &mapWriter{files: map[string]string{}}
		if gen.Generate(g, w, gen.Options{}) == nil {
			run.genTables = map[string][]int{}
			for _, content := range w.files {
				for _, m := range c15TableRe.FindAllStringSubmatch(content, -1) {
					var vals []int
					for _, f := range strings.FieldsFunc(m[2], func(c rune) bool { return c == ',' || c == ' ' || c == '\n' || c == '\t' }) {
						if v, e := strconv.Atoi(f); e == nil {
							vals = append(vals, v)
						}
					}
					sort.Ints(vals)
					run.genTables[m[1]] = vals
				}
			}
		}
	}
	return run, ""
}

// c15Case assembles the Lean case and the implementation's answer. ok=false: the grammar cannot be used
// (why says so).
func c15Case(g *c15Gram, run *c15Run) (line, answer string, ok bool, why string) {
	type setEnt struct {
		e    *c15Expr
		name string // named set (observable through Grammar.Sets) or ""
		nt   int    // set nonterminal symbol (observable through the compiled rules) or -1
	}
	var sets []setEnt
	for i, e := range g.named {
		sets = append(sets, setEnt{e, g.names[i], -1})
	}
	var id func(string) int
	var nTerms, nSyms int
	var lhs []int
	var rhs [][]int
	var inputs []string
	setNtSym := map[int]int{} // symbol -> set index
	laSym := map[int][]int{}  // lookahead nonterminal -> nonterminals of its predicate
	var laRules []int         // lookahead nonterminals in order of first use (each has the rule L -> ε)
	if run.complErr || len(run.lhs) == 0 {
		if !run.complErr {
			return "", "", false, "compile failed: " + strings.Join(run.errs, " | ")
		}
		// harness-side numbering: the outcome `error` does not depend on it
		m := map[string]int{"eoi": 0, "invalid_token": 1}
		n := 2
		for _, t := range g.terms {
			m[t] = n
			n++
		}
		if g.recovering {
			m["error"] = n
			n++
		}
		nTerms = n
		for _, x := range g.nts {
			m[x] = n
			n++
		}
		for _, x := range g.setNts {
			m[x] = n
			n++
		}
		id = func(s string) int { return m[s] }
		for _, e := range g.asserts {
			sets = append(sets, setEnt{e, "", -1})
		}
		if g.recovering {
			sets = append(sets, setEnt{&c15Expr{kind: "leaf", op: "follow", sym: "error"}, "afterErr", -1})
		}
		for i, x := range g.setNts {
			setNtSym[m[x]] = len(sets)
			sets = append(sets, setEnt{g.setNtExpr[i], "", m[x]})
		}
		for _, x := range g.nts {
			for _, alt := range g.alts[x] {
				var r []int
				for _, s := range alt {
					if s.inline != nil {
						setNtSym[n] = len(sets)
						sets = append(sets, setEnt{s.inline, "", n})
						r = append(r, n)
						n++
					} else if s.la != nil {
						var ts []int
						for _, p := range s.la {
							ts = append(ts, m[p.name])
						}
						laSym[n] = ts
						laRules = append(laRules, n)
						r = append(r, n)
						n++
					} else {
						r = append(r, m[s.name])
					}
				}
				lhs = append(lhs, m[x])
				rhs = append(rhs, r)
			}
		}
		nSyms = n
		for i, in := range g.inputs {
			inputs = append(inputs, fmt.Sprintf("%d:%s", m[in], b2s(g.inputEoi[i])))
		}
	} else {
		nTerms, nSyms = run.nTerms, run.nSyms
		lookup := func(s string) (int, bool) { v, ok := run.syms[s]; return v, ok }
		id = func(s string) int { v, _ := lookup(s); return v }
		for _, e := range g.asserts {
			sets = append(sets, setEnt{e, "", -1})
		}
		if g.recovering {
			sets = append(sets, setEnt{&c15Expr{kind: "leaf", op: "follow", sym: "error"}, "afterErr", -1})
		}
		for i, x := range g.setNts {
			v, ok := lookup(x)
			if !ok {
				return "", "", false, "set nonterminal missing"
			}
			setNtSym[v] = len(sets)
			sets = append(sets, setEnt{g.setNtExpr[i], "", v})
		}
		// the compiled plain rules must be the rules that were written (inline sets: `setof_…` nonterminals)
		byLhs := map[int][]int{}
		for i, l := range run.lhs {
			byLhs[l] = append(byLhs[l], i)
		}
		for _, x := range g.nts {
			xs, ok := lookup(x)
			if !ok {
				return "", "", false, "nonterminal missing"
			}
			idxs := byLhs[xs]
			if len(idxs) != len(g.alts[x]) {
				return "", "", false, "alternatives were merged or split"
			}
			for k, alt := range g.alts[x] {
				cr := run.rhs[idxs[k]]
				if len(cr) != len(alt) {
					return "", "", false, "rule shape differs"
				}
				for p, s := range alt {
					if s.inline != nil {
						if cr[p] < nTerms || !strings.HasPrefix(run.symNames[cr[p]], "setof_") {
							return "", "", false, "inline set not extracted"
						}
						if _, seen := setNtSym[cr[p]]; !seen {
							setNtSym[cr[p]] = len(sets)
							sets = append(sets, setEnt{s.inline, "", cr[p]})
						}
					} else if s.la != nil {
						if cr[p] < nTerms || !strings.HasPrefix(run.symNames[cr[p]], "lookahead_") {
							return "", "", false, "lookahead not extracted"
						}
						if _, seen := laSym[cr[p]]; !seen {
							var ts []int
							for _, q := range s.la {
								v, ok := lookup(q.name)
								if !ok {
									return "", "", false, "lookahead target missing"
								}
								ts = append(ts, v)
							}
							laSym[cr[p]] = ts
							laRules = append(laRules, cr[p])
						}
					} else if v, _ := lookup(s.name); v != cr[p] {
						return "", "", false, "rule differs"
					}
				}
				lhs = append(lhs, xs)
				rhs = append(rhs, cr)
			}
		}
		// every other compiled rule must belong to a set nonterminal
		for i, l := range run.lhs {
			if _, isSet := setNtSym[l]; isSet {
				continue
			}
			if _, isLa := laSym[l]; isLa {
				if len(run.rhs[i]) != 0 {
					return "", "", false, "lookahead nonterminal with a non-empty rule"
				}
				continue
			}
			found := false
			for _, x := range g.nts {
				if v, _ := lookup(x); v == l {
					found = true
				}
			}
			if !found {
				return "", "", false, fmt.Sprintf("unexpected compiled rule %d", i)
			}
		}
		inputs = run.inputs
	}
	for _, l := range laRules {
		lhs = append(lhs, l)
		rhs = append(rhs, nil)
	}
	// protocol
	var rs []string
	for i := range lhs {
		rs = append(rs, fmt.Sprintf("%d:%s", lhs[i], ints(rhs[i])))
	}
	rsS := "_"
	if len(rs) > 0 {
		rsS = strings.Join(rs, ";")
	}
	var sn []string
	var snKeys []int
	for k := range setNtSym {
		snKeys = append(snKeys, k)
	}
	sort.Ints(snKeys)
	for _, k := range snKeys {
		sn = append(sn, fmt.Sprintf("%d:%d", k, setNtSym[k]))
	}
	snS := "-"
	if len(sn) > 0 {
		snS = strings.Join(sn, ",")
	}
	var es []string
	var obs []int
	for i, s := range sets {
		es = append(es, s.e.proto(id))
		if s.name != "" || s.nt >= 0 {
			obs = append(obs, i)
		}
	}
	zero := make([]int, len(lhs))
	laS := "-"
	if len(laRules) > 0 {
		var ls []string
		for _, l := range laRules {
			var ts []string
			for _, t := range laSym[l] {
				ts = append(ts, strconv.Itoa(t))
			}
			ls = append(ls, fmt.Sprintf("%d:%s", l, strings.Join(ts, "+")))
		}
		laS = strings.Join(ls, ",")
	}
	line = fmt.Sprintf("sets %d %d %s %s _ %s %s %s %s %s", nTerms, nSyms-nTerms, rsS, strings.Join(inputs, ";"), ints(zero), snS, strings.Join(es, ";"), ints(obs), laS)
	if run.complErr {
		return line, "error", true, ""
	}
	var parts []string
	for _, i := range obs {
		s := sets[i]
		var ts []int
		if s.name != "" {
			v, ok := run.sets[s.name]
			if !ok {
				return "", "", false, "named set missing in Grammar.Sets"
			}
			ts = v
		} else {
			for k, l := range run.lhs {
				if l == s.nt {
					switch len(run.rhs[k]) {
					case 0:
					case 1:
						ts = append(ts, run.rhs[k][0])
					default:
						return "", "", false, "set nonterminal with a long rule"
					}
				}
			}
			sort.Ints(ts)
		}
		parts = append(parts, ints(ts))
	}
	return line, "ok " + strings.Join(parts, ";"), true, ""
}

// ---- probes of the known deviations ----

const c15Head = "language p(go);\n\nlang = \"p\"\npackage = \"gp/p\"\neventBased = true\n\n::lexer\n\n'a': /a/\n'b': /b/\n'c': /c/\n'd': /d/\n\n::parser\n\n%input S;\n\n"

func c15ProbeSet(body, name string) ([]int, []string) {
	run, p := c15Compile("p", c15Head+body)
	if p != "" || run == nil {
		return nil, []string{"panic " + p}
	}
	return run.sets[name], run.errs
}

func c15(c *Ctx) {
	findings := os.Getenv("VERIF_FINDINGS") != ""
	c.Rule = "random .tm grammars: 2-6 terminals (+ error/invalid_token in 35%), 2-6 ordinary nonterminals with 1-3 alternatives of 0-4 symbols (terminals, nonterminals, set nonterminals, " +
		"inline set(...), error; 12% of the alternatives start with a runtime lookahead predicate (?= N), (?= !N), (?= N & !M) whose targets are mostly nonterminals reachable through no rule " +
		"(so that they and the symbols used only inside them are reachable ONLY through the predicate, negated or not); empty alternatives with bias 5/15/35% for nullable chains; in a third of the grammars a block of nonterminals unreachable from the inputs), 0-2 set nonterminals `S : set(e);`, " +
		"1-3 inputs with random no-eoi flags (the first eoi input is not always the first; sometimes none), 1-5 `%generate g = set(e)` and 0-2 `%assert`; expressions of depth <= 3 over " +
		"any/first/last/precede/follow of terminals, nonterminals, set nonterminals, error, eoi, named sets (also later ones and themselves: mutual recursion), `|`, `&`, `~`, redundant parentheses, " +
		"printed with the precedence of the tm grammar. Compiled by the real compiler.Compile (+ gen.Generate when there is no diagnostic); LALR conflicts are ignored (sets are resolved before the tables). " +
		"The written rules are matched against the compiled rules (Grammar.Parser.Rules; inline sets are the `setof_` nonterminals) and the case carries the COMPILED numbering and rule order; when the compiler " +
		"stops with the complement-cycle error the case is built from the written rules. Go answer: terminals of every named set (Grammar.Sets, incl. afterErr) and of every set nonterminal " +
		"(its compiled rules), or `error`. Also checked: the generated `var <set> = []token.Type{…}` tables equal Grammar.Sets, and Parser.IsRecovering = (afterErr non-empty). " +
		"Non-trivial = some observable set uses an operator on a nonterminal and the grammar has at least two of |, &, ~; distinct by grammar text."
	// probes
	cfg := c15Cfg{}
	if got, _ := c15ProbeSet("%generate w = set(~'c' & ('a' | 'b' | 'c'));\nS : 'a' S | 'b' ;\n", "w"); fmt.Sprint(got) != "[2 3]" {
		cfg.noInvLeft = !findings
		c.Notes = append(c.Notes, fmt.Sprintf("probe [C15-intersect-alias] FAILED: set(~'c' & ('a' | 'b' | 'c')) = %v, expected [2 3]; `&` with a possibly co-finite left operand is %s", got,
			map[bool]string{true: "generated and flagged (VERIF_FINDINGS)", false: "avoided"}[findings]))
		c.Rule += " AVOIDED CLASS (probe failed, [C15-intersect-alias]): intersections whose left operand may evaluate to a co-finite set (contains ~, a nonterminal or a named set leading to one) — " +
			"the operands are swapped or the operator becomes |."
		{
			c.Violate(fmt.Sprintf("[C15-intersect-alias] set(~'c' & ('a' | 'b' | 'c')) resolves to %v (terminals 2='a' 3='b' 4='c'), the definition gives [2 3]", got),
				"[C15-intersect-alias] %generate w = set(~'c' & ('a' | 'b' | 'c')); S : 'a' S | 'b' ;")
		}
	}
	if got, _ := c15ProbeSet("%generate a1 = set(b1);\n%generate b1 = set('c');\nS : 'a' S | 'b' ;\n", "a1"); fmt.Sprint(got) != "[4]" {
		cfg.noFwdAlias = !findings
		c.Notes = append(c.Notes, fmt.Sprintf("probe [C15-forward-alias] FAILED: `%%generate a1 = set(b1); %%generate b1 = set('c');` gives a1 = %v, expected [4]", got))
		c.Rule += " AVOIDED CLASS (probe failed, [C15-forward-alias]): a %generate whose whole expression is the name of a set declared later (or its own name); written as `name | name` instead."
		{
			c.Violate(fmt.Sprintf("[C15-forward-alias] `%%generate a1 = set(b1); %%generate b1 = set('c');` resolves a1 to %v (0 = eoi): the struct copy in collectDirectives pass 2 copies the still empty TokenSet of b1; expected [4]", got),
				"[C15-forward-alias] %generate a1 = set(b1); %generate b1 = set('c'); S : 'a' S | 'b' ;")
		}
	}
	if findings {
		if _, errs := c15ProbeSet("%assert empty set('a');\n%assert nonempty set('a' & 'b');\nS : 'a' S | 'b' ;\n", ""); len(errs) == 0 {
			c.Violate("[C15-assert-ignored] `%assert empty set('a')` and `%assert nonempty set('a' & 'b')` compile without any diagnostic: syntaxLoader.asserts is filled and never read",
				"[C15-assert-ignored] %assert empty set('a'); %assert nonempty set('a' & 'b'); S : 'a' S | 'b' ;")
		}
		if got, _ := c15ProbeSet("%generate f = set(first S);\nS : E 'b' ;\nE : set('a' & 'c') ;\n", "f"); fmt.Sprint(got) == "[]" {
			c.Violate("[C15-empty-set-nullable] S : E 'b'; E : set('a' & 'c'): the empty set nonterminal is compiled to `E : %empty`, so every sentence of S starts with 'b', but set(first S) resolves to [] "+
				"(nullable.go treats a set nonterminal as non-nullable whatever it resolves to)", "[C15-empty-set-nullable] %generate f = set(first S); S : E 'b' ; E : set('a' & 'c') ;")
		}
	}
	if got, _ := c15ProbeSet("%generate h = set(first N1);\n%generate k = set(h | 'a');\nS : 'b' set('d') N1 ;\nN1 : 'c' ;\n", "h"); fmt.Sprint(got) != "[4]" {
		cfg.noShared = !findings
		c.Notes = append(c.Notes, fmt.Sprintf("probe [C15-rearrange-shared] FAILED: `%%generate h = set(first N1); %%generate k = set(h | 'a'); S : 'b' set('d') N1; N1 : 'c';` gives h = %v, expected [4]", got))
		c.Rule += " AVOIDED CLASS (probe failed, [C15-rearrange-shared]): grammars that have both an inline set(...) (the only construct of this generator that makes Expand insert a nonterminal and renumber) " +
			"and a reference to a named set from another set expression; every grammar gets one of the two, chosen at random."
		{
			c.Violate(fmt.Sprintf("[C15-rearrange-shared] Model.Rearrange renumbers the symbols of a named set once per top-level set that reaches it (TokenSet.ForEach has a fresh `seen` per call): "+
				"`%%generate h = set(first N1); %%generate k = set(h | 'a'); S : 'b' set('d') N1; N1 : 'c';` resolves h to %v, the definition gives [4] ('c')", got),
				"[C15-rearrange-shared] %generate h = set(first N1); %generate k = set(h | 'a'); S : 'b' set('d') N1 ; N1 : 'c' ;")
		}
	}
	c.Extra["avoid_shared_rearrange"] = cfg.noShared
	if c15CrashProbe() {
		cfg.noInlineRec = true // never generated in-process: the crash cannot be recovered from
		c.Notes = append(c.Notes, "probe [C15-inline-recursive-crash] FAILED (child process died): `%generate r = set(r | 'a'); S : set(r) 'b';` — syntax.appendSetName recurses through named sets without a visited set")
		c.Rule += " AVOIDED CLASS (child-process probe died, [C15-inline-recursive-crash]): an inline set(...) inside a rule that reaches a named set lying on a reference cycle."
		{
			c.Violate("[C15-inline-recursive-crash] compiler.Compile dies with a stack overflow (fatal, not recoverable): syntax.appendSetName follows named-set references without a visited set when it names the nonterminal of an inline set",
				"[C15-inline-recursive-crash] %generate r = set(r | 'a'); S : set(r) 'b' ;")
		}
	}
	c.Extra["avoid_inline_recursive"] = cfg.noInlineRec
	c.Extra["avoid_inv_left"] = cfg.noInvLeft
	c.Extra["avoid_forward_alias"] = cfg.noFwdAlias

	n := c.N(500, 12000)
	for i := 0; i < n; i++ {
		g := c15GenGram(c.Rng, fmt.Sprintf("c15g%d", i), cfg)
		text := g.tm()
		run, panicked := c15Compile(g.name, text)
		if panicked != "" {
			c.Count("panic")
			c.Violate("compiler.Compile panics: "+panicked, text)
			continue
		}
		line, ans, ok, why := c15Case(g, run)
		if !ok {
			c.Count("skipped: " + strings.SplitN(why, ":", 2)[0])
			if len(c.Notes) < 6 {
				c.Notes = append(c.Notes, "skipped: "+why+" :: "+strings.ReplaceAll(text[strings.Index(text, "::parser"):], "\n", " "))
			}
			continue
		}
		// classification
		ops := map[string]bool{}
		ntOp := false
		for _, e := range append(append([]*c15Expr{}, g.named...), g.setNtExpr...) {
			e.walk(func(x *c15Expr) {
				if x.kind == "|" || x.kind == "&" || x.kind == "~" {
					ops[x.kind] = true
				}
				if x.kind == "leaf" && x.op != "" && !strings.HasPrefix(x.sym, "'") {
					ntOp = true
				}
			})
		}
		key := ""
		if ntOp && len(ops) >= 2 {
			key = text
		}
		switch {
		case ans == "error":
			c.Count("complement cycle error")
		case len(run.errs) > 0:
			c.Count("sets resolved, LALR diagnostics")
		default:
			c.Count("sets resolved, clean compile")
		}
		if g.recovering {
			c.Count("with error token (afterErr)")
		}
		if strings.Contains(text, "(?=") {
			c.Count("with lookahead predicates")
		}
		c.Debugf("%s", strings.ReplaceAll(text, "\n", "\\n"))
		c.Case(line, ans, key)
		// generated tables and the recovery switch
		if run.genTables != nil {
			for name, want := range run.sets {
				if got, ok := run.genTables[name]; !ok || fmt.Sprint(got) != fmt.Sprint(want) {
					c.Violate(fmt.Sprintf("generated table %s = %v differs from Grammar.Sets %v", name, got, want), text)
				}
			}
		}
	}
}
