// Command tmh is the Go side of the correspondence checks: it generates cases from one PRNG seed,
// runs the real textmapper code (from /repo, hooks enabled with -tags verif) in-process and writes
//
//	<out>/cases.txt   one case per line, fed verbatim to the Lean driver `tmv`
//	<out>/go.out      the implementation's canonicalised answer for each case
//	<out>/stats.json  what was generated (counts, distribution, samples)
package main

import (
	"bufio"
	"encoding/json"
	"flag"
	"fmt"
	"math/rand"
	"os"
	"os/exec"
	"path/filepath"
	"sort"
	"strconv"
	"strings"
)

type Ctx struct {
	Prop  string
	Rng   *rand.Rand
	Tier  string
	Seed  int64
	Out   string
	cases *bufio.Writer
	goOut *bufio.Writer

	Evaluations int
	distinct    map[string]bool
	Dist        map[string]int
	Samples     []string
	Notes       []string
	Rule        string
	// Direct property violations found on the Go side (by an oracle in the harness).
	Violations []Violation
	Extra      map[string]any
}

type Violation struct {
	What  string `json:"what"`
	Input string `json:"input"`
}

// N picks the case budget by tier.
func (c *Ctx) N(quick, thorough int) int {
	if c.Tier == "thorough" {
		return thorough
	}
	return quick
}

// Case records one case. key is the distinctness key of a non-trivial case ("" = trivial).
func (c *Ctx) Case(line, goOut, key string) {
	if strings.ContainsAny(line, "\n\r") || strings.ContainsAny(goOut, "\n\r") {
		panic("newline in case: " + line)
	}
	fmt.Fprintf(c.cases, "%s %s\n", c.Prop, line)
	fmt.Fprintf(c.goOut, "%s\n", goOut)
	c.Evaluations++
	if key != "" {
		c.distinct[key] = true
	}
	if len(c.Samples) < 6 && (key != "" || c.Evaluations < 3) {
		c.Samples = append(c.Samples, line+" => "+goOut)
	}
}

func (c *Ctx) Count(name string) { c.Dist[name]++ }

// Debugf writes a human-readable line about the NEXT case to <out>/debug.txt when TMH_DEBUG is set.
func (c *Ctx) Debugf(format string, args ...any) {
	if os.Getenv("TMH_DEBUG") == "" {
		return
	}
	f, err := os.OpenFile(filepath.Join(c.Out, "debug.txt"), os.O_APPEND|os.O_CREATE|os.O_WRONLY, 0o644)
	if err == nil {
		fmt.Fprintf(f, "%d\t"+format+"\n", append([]any{c.Evaluations}, args...)...)
		f.Close()
	}
}

func (c *Ctx) Violate(what, input string) {
	if len(c.Violations) < 20 {
		c.Violations = append(c.Violations, Violation{what, input})
	}
}

// Lean runs the model driver (path in $TMV) on the given case lines (without the property prefix)
// and returns its answers; used when a generator needs a model verdict to classify its own cases.
func (c *Ctx) Lean(lines []string) []string {
	tmv := os.Getenv("TMV")
	res := make([]string, len(lines))
	if tmv == "" || len(lines) == 0 {
		return res
	}
	var in strings.Builder
	for _, l := range lines {
		fmt.Fprintf(&in, "%s %s\n", c.Prop, l)
	}
	cmd := exec.Command(tmv)
	cmd.Stdin = strings.NewReader(in.String())
	out, err := cmd.Output()
	if err != nil {
		return res
	}
	for i, l := range strings.Split(strings.TrimRight(string(out), "\n"), "\n") {
		if i < len(res) {
			res[i] = l
		}
	}
	return res
}

type propFn func(c *Ctx)

var props = map[string]propFn{}

func main() {
	if len(os.Args) < 2 {
		fmt.Fprintln(os.Stderr, "usage: tmh <prop> [-seed N] [-tier quick|thorough] [-out dir]")
		os.Exit(2)
	}
	prop := os.Args[1]
	fs := flag.NewFlagSet("tmh", flag.ExitOnError)
	seed := fs.Int64("seed", 1, "PRNG seed")
	tier := fs.String("tier", "quick", "quick|thorough")
	out := fs.String("out", ".", "output directory")
	fs.Parse(os.Args[2:])
	fn, ok := props[prop]
	if !ok {
		fmt.Fprintf(os.Stderr, "unknown property %s\n", prop)
		os.Exit(2)
	}
	os.MkdirAll(*out, 0o755)
	cf, err := os.Create(filepath.Join(*out, "cases.txt"))
	must(err)
	gf, err := os.Create(filepath.Join(*out, "go.out"))
	must(err)
	c := &Ctx{Prop: prop, Rng: rand.New(rand.NewSource(*seed)), Tier: *tier, Seed: *seed, Out: *out,
		cases: bufio.NewWriterSize(cf, 1<<20), goOut: bufio.NewWriterSize(gf, 1<<20),
		distinct: map[string]bool{}, Dist: map[string]int{}, Extra: map[string]any{}}
	fn(c)
	must(c.cases.Flush())
	must(c.goOut.Flush())
	cf.Close()
	gf.Close()
	stats := map[string]any{
		"evaluations":         c.Evaluations,
		"distinct_nontrivial": len(c.distinct),
		"distribution":        c.Dist,
		"samples":             c.Samples,
		"rule":                c.Rule,
		"notes":               c.Notes,
		"violations":          c.Violations,
		"extra":               c.Extra,
	}
	b, _ := json.MarshalIndent(stats, "", " ")
	must(os.WriteFile(filepath.Join(*out, "stats.json"), b, 0o644))
}

func must(err error) {
	if err != nil {
		fmt.Fprintln(os.Stderr, "tmh:", err)
		os.Exit(3)
	}
}

// ---- protocol formatting helpers ----

func ints(l []int) string {
	if len(l) == 0 {
		return "-"
	}
	var sb strings.Builder
	for i, v := range l {
		if i > 0 {
			sb.WriteByte(',')
		}
		sb.WriteString(strconv.Itoa(v))
	}
	return sb.String()
}

func intss(l [][]int) string {
	if len(l) == 0 {
		return "_"
	}
	parts := make([]string, len(l))
	for i, r := range l {
		parts[i] = ints(r)
	}
	return strings.Join(parts, ";")
}

func b2s(b bool) string {
	if b {
		return "1"
	}
	return "0"
}

func hexs(b []byte) string {
	if len(b) == 0 {
		return "-"
	}
	return fmt.Sprintf("%x", b)
}

// sortedSubset returns a random strictly increasing list over [0,universe).
func sortedSubset(r *rand.Rand, universe int, p float64) []int {
	var ret []int
	for i := 0; i < universe; i++ {
		if r.Float64() < p {
			ret = append(ret, i)
		}
	}
	return ret
}

func sortedKeys(m map[string]int) []string {
	var ks []string
	for k := range m {
		ks = append(ks, k)
	}
	sort.Strings(ks)
	return ks
}
