package main

// C20 part 1: the REAL stack-based tree builder (generated from go_ast_parse.go.tmpl; instance
// parsers/tm/ast, reached through parsers/tm/ast/verif_export_c20.go) against the Lean mirror.

import (
	"fmt"
	"math/rand"
	"strings"

	"github.com/inspirer/textmapper/parsers/tm"
	tmast "github.com/inspirer/textmapper/parsers/tm/ast"
)

func init() { c20Parts["builder"] = c20Builder }

type c20Node struct {
	ev   c20Ev
	kids []*c20Node
}

// c20RandTree generates a random tree over [lo,hi]: children are disjoint, in order, possibly empty
// (also at lo and at hi and several at one offset), possibly with the parent's own range.
func c20RandTree(r *rand.Rand, lo, hi, depth int) *c20Node {
	n := &c20Node{ev: c20Ev{1 + r.Intn(30), lo, hi}}
	if depth <= 0 || r.Intn(5) == 0 {
		return n
	}
	if r.Intn(6) == 0 { // a child with the same range (chain of equal ranges)
		n.kids = []*c20Node{c20RandTree(r, lo, hi, depth-1)}
		return n
	}
	// cut points
	k := r.Intn(5)
	pos := lo
	for i := 0; i < k && pos <= hi; i++ {
		a := pos
		if hi > pos && r.Intn(3) != 0 {
			a = pos + r.Intn(hi-pos+1)
		}
		b := a
		if hi > a && r.Intn(4) != 0 {
			b = a + r.Intn(hi-a+1)
		}
		n.kids = append(n.kids, c20RandTree(r, a, b, depth-1))
		pos = b
	}
	return n
}

// c20Linearize emits the nodes in a random order in which every node comes after all nodes of its
// subtree (post-order is one such order; disjoint nodes may be delayed past later siblings).
func c20Linearize(r *rand.Rand, roots []*c20Node, postOrder bool) []c20Ev {
	var evs []c20Ev
	if postOrder {
		var walk func(n *c20Node)
		walk = func(n *c20Node) {
			for _, k := range n.kids {
				walk(k)
			}
			evs = append(evs, n.ev)
		}
		for _, n := range roots {
			walk(n)
		}
		return evs
	}
	pending := map[*c20Node]int{}
	parent := map[*c20Node]*c20Node{}
	var ready []*c20Node
	var prep func(n *c20Node)
	prep = func(n *c20Node) {
		pending[n] = len(n.kids)
		if len(n.kids) == 0 {
			ready = append(ready, n)
		}
		for _, k := range n.kids {
			parent[k] = n
			prep(k)
		}
	}
	for _, n := range roots {
		prep(n)
	}
	for len(ready) > 0 {
		// bias to the leftmost ready node so that most of the stream is in source order
		i := 0
		if r.Intn(3) == 0 {
			i = r.Intn(len(ready))
		}
		n := ready[i]
		ready = append(ready[:i], ready[i+1:]...)
		evs = append(evs, n.ev)
		if p := parent[n]; p != nil {
			pending[p]--
			if pending[p] == 0 {
				ready = append(ready, p)
			}
		}
	}
	return evs
}

func c20Depth(n *c20Node) int {
	d := 0
	for _, k := range n.kids {
		if x := c20Depth(k); x > d {
			d = x
		}
	}
	return d + 1
}

func c20TmTreeText(n *tmast.Node) string {
	var sb strings.Builder
	var walk func(n *tmast.Node)
	walk = func(n *tmast.Node) {
		fmt.Fprintf(&sb, "(%d %d %d", int(n.Type()), n.Offset(), n.Endoffset())
		for _, k := range tmast.VerifChildren(n) {
			sb.WriteByte(' ')
			walk(k)
		}
		sb.WriteByte(')')
	}
	walk(n)
	return sb.String()
}

func c20TmEvents(evs []c20Ev) []tmast.VerifEvent {
	out := make([]tmast.VerifEvent, len(evs))
	for i, e := range evs {
		out[i] = tmast.VerifEvent{Type: tm.NodeType(e.Ty), Offset: e.Off, Endoffset: e.End}
	}
	return out
}

// c20RealForest runs the real builder; a panic is the answer "panic".
func c20RealForest(n int, evs []c20Ev) (out string) {
	defer func() {
		if r := recover(); r != nil {
			out = "panic"
		}
	}()
	stack := tmast.VerifForest(strings.Repeat(" ", n), c20TmEvents(evs))
	if len(stack) == 0 {
		return "_"
	}
	parts := make([]string, len(stack))
	for i, t := range stack {
		parts[i] = c20TmTreeText(t)
	}
	return strings.Join(parts, " ")
}

func c20RealFile(n int, evs []c20Ev) (out string) {
	defer func() {
		if r := recover(); r != nil {
			out = "panic"
		}
	}()
	tree, err := tmast.VerifBuild(strings.Repeat(" ", n), c20TmEvents(evs))
	if err != nil || tree == nil || tree.Root() == nil {
		return "none"
	}
	return c20TmTreeText(tree.Root())
}

func c20CountNodes(text string) int { return strings.Count(text, "(") }

func c20Builder(c *Ctx) {
	nCases := c.N(1500, 30000)
	for i := 0; i < nCases; i++ {
		n := c.Rng.Intn(12)
		if c.Rng.Intn(4) == 0 {
			n = c.Rng.Intn(60)
		}
		var roots []*c20Node
		pos := 0
		for k := c.Rng.Intn(4); k >= 0 && pos <= n; k-- {
			a := pos
			if n > pos && c.Rng.Intn(3) != 0 {
				a = pos + c.Rng.Intn(n-pos+1)
			}
			b := a
			if n > a && c.Rng.Intn(5) != 0 {
				b = a + c.Rng.Intn(n-a+1)
			}
			roots = append(roots, c20RandTree(c.Rng, a, b, 1+c.Rng.Intn(4)))
			pos = b
		}
		evs := c20Linearize(c.Rng, roots, c.Rng.Intn(2) == 0)
		kind := "well-nested"
		// ill-nested perturbations
		if c.Rng.Intn(4) == 0 && len(evs) > 0 {
			kind = "perturbed"
			for m := 1 + c.Rng.Intn(2); m > 0; m-- {
				j := c.Rng.Intn(len(evs))
				switch c.Rng.Intn(5) {
				case 0: // swap two events (a container may now precede its contents)
					k := c.Rng.Intn(len(evs))
					evs[j], evs[k] = evs[k], evs[j]
				case 1: // move an end
					evs[j].End = evs[j].Off + c.Rng.Intn(n-evs[j].Off+2)
				case 2: // move a start
					evs[j].Off = c.Rng.Intn(evs[j].End + 1)
				case 3: // duplicate an event somewhere else
					k := c.Rng.Intn(len(evs) + 1)
					evs = append(evs[:k], append([]c20Ev{evs[j]}, evs[k:]...)...)
				case 4: // a random event, occasionally reversed (off > end) or past the text
					e := c20Ev{1 + c.Rng.Intn(30), c.Rng.Intn(n + 2), c.Rng.Intn(n + 2)}
					if e.Off > e.End && c.Rng.Intn(3) != 0 {
						e.Off, e.End = e.End, e.Off
					}
					k := c.Rng.Intn(len(evs) + 1)
					evs = append(evs[:k], append([]c20Ev{e}, evs[k:]...)...)
				}
			}
		}
		depth := 0
		for _, t := range roots {
			if d := c20Depth(t); d > depth {
				depth = d
			}
		}
		verdict := "nested"
		if c20Direct(evs, n) != "" {
			verdict = "not-nested"
		}
		c.Count("builder: " + kind + " stream, " + verdict)
		key := ""
		if depth >= 2 {
			key = c20EvsStr(evs)
		}
		s := c20EvsStr(evs)
		c.Case("nest "+fmt.Sprint(n)+" "+s, verdict, "")
		forest := c20RealForest(n, evs)
		c.Case("build "+s, forest, key)
		if forest == "panic" {
			c.Violate("the tree builder panicked", s)
		}
		file := c20RealFile(n, evs)
		c.Case(fmt.Sprintf("%s %d %d %s", c20BuildFileOp(), int(tm.File), n, s), file, key)
		// independent Go-side check: nothing is lost from the forest, ever
		if forest != "panic" && c20CountNodes(forest) != len(evs) {
			c.Violate(fmt.Sprintf("the builder's forest has %d nodes for %d events", c20CountNodes(forest), len(evs)), s)
		}
		// File root: every node must be below it (known defect candidate: nodes starting at the end offset)
		if verdict == "nested" && file != "panic" && file != "none" && c20CountNodes(file) != len(evs)+1 {
			atEnd := false
			for _, e := range evs {
				if e.Off >= n {
					atEnd = true
				}
			}
			if !atEnd || !c20EndOffsetDropped {
				c.Violate("build() with a File node lost reported nodes: tree "+file, fmt.Sprintf("n=%d events %s", n, s))
			} else {
				c.Count("builder: FINDING-CLASS node at the end offset dropped by build()")
			}
		}
	}
}
