package main

// C07 end to end: lalr(k) grammars through the REAL compiler and generator; the generated Go parsers
// (deep-lookahead code of go_parser.go.tmpl, gated by Tables.UsedLADepth) are run on every token
// string up to length 5 plus sentences, and their verdict is compared with a brute-force recogniser.
// One fixed shape keeps an acknowledged conflict (%expect-rr) next to a conflict that lalr(2) resolves.

import (
	"fmt"
	"strings"
)

// expectRRGram: input: A a b | B a c | A d | B d ; A: e ; B: e   (lalr(2), %expect-rr 2)
func expectRRGram() *Gram {
	g := &Gram{Shape: "lalrk-expect-rr", NT: 6, NN: 3}
	a, b, cc, d, e := 1, 2, 3, 4, 5
	in, A, B := g.NT, g.NT+1, g.NT+2
	g.Rules = []GRule{
		{LHS: in, RHS: []int{A, a, b}}, {LHS: in, RHS: []int{B, a, cc}}, {LHS: in, RHS: []int{A, d}}, {LHS: in, RHS: []int{B, d}},
		{LHS: A, RHS: []int{e}}, {LHS: B, RHS: []int{e}},
	}
	g.Inputs = []GInput{{Sym: in, Eoi: true}}
	return g
}

func c07EndToEnd(c *Ctx) {
	b, err := NewBatch()
	if err != nil {
		c.Notes = append(c.Notes, err.Error())
		return
	}
	defer b.Close()
	type item struct {
		g  *Gram
		gp *GenParser
	}
	var items []item
	add := func(g *Gram, o TMOpts, name string) {
		gp := compileTM(name, g.TM(name, o), o)
		if gp.Err != nil {
			c.Count("e2e rejected: " + firstWords(errSummary(gp.Err), 5))
			return
		}
		b.Add(gp)
		items = append(items, item{g, gp})
	}
	n := c.N(6, 30)
	for i := 0; i < n; i++ {
		var g *Gram
		var need int
		switch i % 3 {
		case 0:
			g, need = lalrkGram(c.Rng)
		case 1:
			g, need = lalrkGram2(c.Rng)
		default:
			g, need = lalrkGram3(c.Rng)
		}
		if need > 4 || !g.AllProductive() {
			continue
		}
		add(g, TMOpts{K: need, ArrowPerRule: true, Optimize: c.Rng.Intn(2) == 0, Minimize: c.Rng.Intn(3) == 0}, fmt.Sprintf("k%d", i))
	}
	add(expectRRGram(), TMOpts{K: 2, ArrowPerRule: true, ExpectRR: 2}, "kexp")
	if len(items) == 0 {
		return
	}
	if err := b.Build(); err != nil {
		c.Violate("generated lalr(k) parsers do not build: "+err.Error(), items[0].gp.TM)
		return
	}
	var reqs []RunReq
	type meta struct {
		it item
		w  []int
	}
	var metas []meta
	for _, it := range items {
		for _, w := range sampleWords(c, it.g, it.g.Inputs[0].Sym, 4, 5) {
			reqs = append(reqs, RunReq{Parser: it.gp.Name, Input: 0, Text: wordText(it.g, w)})
			metas = append(metas, meta{it, w})
		}
	}
	outs := b.Run(reqs)
	for i, m := range metas {
		out := outs[i]
		spec := sentenceSpec(m.it.g, m.it.g.Inputs[0], m.w)
		res := out[strings.LastIndex(out, " ")+1:]
		where := fmt.Sprintf("input %q on the parser generated from:\n%s", reqs[i].Text, m.it.gp.TM)
		c.Count("e2e run")
		switch {
		case out == "crash" || strings.HasSuffix(out, "panic") || strings.Contains(out, "timeout"):
			c.Violate("generated lalr(k) parser panicked, died or did not terminate: "+firstN(out, 80), where)
		case spec == "A" && res != "ok":
			c.Violate(fmt.Sprintf("a sentence is rejected by the generated lalr(%d) parser: %s", m.it.gp.Opts.K, firstN(out, 100)), where)
		case strings.HasPrefix(spec, "E") && res == "ok":
			c.Violate(fmt.Sprintf("a non-sentence is accepted by the generated lalr(%d) parser", m.it.gp.Opts.K), where)
		}
	}
}
